// Wrappers for library internals (`detail::` kernels) and for the functions whose behaviour depends
// on the selected square-root algorithm.  Kept in a separate translation unit: if a refactoring
// renames an internal so that this unit no longer compiles, tools/fmlib.py builds the harness with
// -DFM_NO_DETAIL (internal-stage comparisons are dropped, public-API comparisons continue).
#include <fixedmath/fixed_math.hpp>
#include <cstdio>
#include <string>
#include <vector>
using namespace fixedmath;
using i128 = __int128;
static void out_i(long long v){ std::printf("ok %lld\n", v); }
static fixed_t fx(i128 v){ return as_fixed((int64_t)v); }

// asin/acos/hypot with an explicitly selected sqrt back-end: the library's own code, re-instantiated
// through the public `sqrt` is not possible (the back-end is chosen by macro), so the back-end specific
// variants are obtained by compiling this harness twice (with and without FIXEDMATH_ENABLE_SQRT_ABACUS_ALGO)
// and only the variant matching the build answers `:ab` / `:std`; `:dflt` answers in every build.
// Which algorithm `sqrt()` runs at run time is decided by the toolchain as well as by the flags (clang++ 14 with
// -std=c++2b and libstdc++ 12 answers std::is_constant_evaluated() with true at run time and runs the abacus
// algorithm), so it is probed: arguments on which the two algorithms differ, passed through a volatile.
static const char* probe_backend()
  {
#ifndef FM_NO_DETAIL
  static volatile long long probes[] = { 196608, 327680, 3221225472LL, 5497558151161LL };
  for(long long p : probes)
    {
    fixed_t x = as_fixed((int64_t)p);
    auto a = detail::sqrt_abacus(x).v; auto s = detail::sqrt_std_math(x).v; auto r = sqrt(x).v;
    if(a != s) return r == a ? "ab" : "std";
    }
#endif
#if defined(FIXEDMATH_ENABLE_SQRT_ABACUS_ALGO) && __cplusplus < 202000L
  return "ab";
#else
  return "std";
#endif
  }
static const char* const this_be = probe_backend();

bool detail_op(const std::string& fn, const std::string& tag, const std::vector<i128>& a)
  {
  size_t n = a.size();
  if(fn=="sqrt_backend" && n==0){ std::printf("ok %d\n", this_be[0]=='a' ? 1 : 0); return true; }
  if(tag=="ab" || tag=="std" || tag=="dflt")
    {
    if(tag!="dflt" && tag!=this_be) { std::puts("skip"); return true; }
    if(n==1)
      {
      fixed_t x = fx(a[0]);
      if(fn=="sqrt"){ out_i(sqrt(x).v); return true; }
      if(fn=="asin"){ out_i(asin(x).v); return true; }
      if(fn=="acos"){ out_i(acos(x).v); return true; }
      }
    if(n==2 && fn=="hypot"){ out_i(hypot(fx(a[0]),fx(a[1])).v); return true; }
    return false;
    }
#ifndef FM_NO_DETAIL
  if(n==1)
    {
    fixed_t x = fx(a[0]);
    if(fn=="sqrt_abacus"){ out_i(detail::sqrt_abacus(x).v); return true; }
    if(fn=="sqrt_std"){ out_i(detail::sqrt_std_math(x).v); return true; }
    if(fn=="sin_range"){ out_i(detail::sin_range(x).v); return true; }
    if(fn=="tan_range"){ out_i(detail::tan_range(x.v)); return true; }
    if(fn=="tan_k20"){ out_i(detail::tan_<20>(x.v)); return true; }
    if(fn=="atan_k16"){ out_i(detail::atan<16>(x.v)); return true; }
    if(fn=="asin_k20"){ out_i(detail::asin<20>(x.v)); return true; }
    }
#else
  if(fn=="sqrt_abacus"||fn=="sqrt_std"||fn=="sin_range"||fn=="tan_range"||fn=="tan_k20"||fn=="atan_k16"||fn=="asin_k20")
    { std::puts("skip"); return true; }
#endif
  return false;
  }

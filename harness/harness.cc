// Correspondence harness: evaluates the REAL library (headers from /repo, fixed_math.cc from /repo)
// on one operation per input line (`fn[:tag] arg...`) and prints one result per line
// (`ok <int>` ; floating point values as IEEE bit patterns, NaN canonicalised to `nan`).
// The same lines are evaluated by the Lean model driver; the two output streams are diffed.
//
// Build variants (see tools/fmlib.py): value legs (g++/clang++, -O0..-O3, c++17/20/2b, abacus on/off)
// and the UB leg (-fsanitize=undefined,address -fno-sanitize-recover=all -D_GLIBCXX_ASSERTIONS).
#include <fixedmath/fixed_math.hpp>
#include <fixedmath/iostream.h>
#include <sstream>
#include <cerrno>
#include <cfenv>
#include <cstdio>
#include <cstdlib>
#include <cstring>
#include <string>
#include <vector>
#include <cstdint>
#include <cmath>

using namespace fixedmath;
using i128 = __int128;

#pragma GCC diagnostic ignored "-Wdeprecated-declarations"

static bool g_flush = false;

static i128 parse_int(const char* s)
  {
  bool neg = false;
  if(*s=='-'){ neg = true; ++s; }
  i128 v = 0;
  for(; *s>='0' && *s<='9'; ++s) v = v*10 + (*s-'0');
  return neg ? -v : v;
  }

static void out_i(long long v){ std::printf("ok %lld\n", v); }
static void out_u(unsigned long long v){ std::printf("ok %llu\n", v); }
static void out_d(double d)
  {
  if(d != d) { std::puts("ok nan"); return; }
  uint64_t b; std::memcpy(&b,&d,8); std::printf("ok %llu\n",(unsigned long long)b);
  }
static void out_f(float d)
  {
  if(d != d) { std::puts("ok nan"); return; }
  uint32_t b; std::memcpy(&b,&d,4); std::printf("ok %u\n", b);
  }
static double bits_d(i128 v){ uint64_t b = (uint64_t)v; double d; std::memcpy(&d,&b,8); return d; }
static float bits_f(i128 v){ uint32_t b = (uint32_t)v; float d; std::memcpy(&d,&b,4); return d; }
static fixed_t fx(i128 v){ return as_fixed((int64_t)v); }

// --- call sites that tell the optimiser the operand signs (the pattern that was miscompiled) ---
[[gnu::noinline]] static int64_t add_pp(int64_t a, int64_t b){ if(a<=0||b<=0) __builtin_unreachable(); return (as_fixed(a)+as_fixed(b)).v; }
[[gnu::noinline]] static int64_t add_nn(int64_t a, int64_t b){ if(a>=0||b>=0) __builtin_unreachable(); return (as_fixed(a)+as_fixed(b)).v; }
[[gnu::noinline]] static int64_t sub_pn(int64_t a, int64_t b){ if(a<=0||b>=0) __builtin_unreachable(); return (as_fixed(a)-as_fixed(b)).v; }
[[gnu::noinline]] static int64_t sub_np(int64_t a, int64_t b){ if(a>=0||b<=0) __builtin_unreachable(); return (as_fixed(a)-as_fixed(b)).v; }
[[gnu::noinline]] static bool add_pp_isnan(int64_t a, int64_t b){ if(a<=0||b<=0) __builtin_unreachable(); return isnan(as_fixed(a)+as_fixed(b)); }
// --- calls whose second operand is a literal (a fast path keyed on __builtin_constant_p only exists here) ---
template<int K> static int64_t shl_lit(fixed_t x){ return (x << K).v; }
template<int K> static int64_t shr_lit(fixed_t x){ return (x >> K).v; }
template<int K> static int64_t mul_lit(fixed_t x){ return (x * K).v; }
template<int K> static int64_t div_lit(fixed_t x){ return (x / K).v; }
#define LIT_CASES(F) case 0: return F<0>(x); case 1: return F<1>(x); case 2: return F<2>(x); case 3: return F<3>(x); case 8: return F<8>(x); \
  case 10: return F<10>(x); case 15: return F<15>(x); case 16: return F<16>(x); case 17: return F<17>(x); case 31: return F<31>(x); case 32: return F<32>(x); \
  case 33: return F<33>(x); case 47: return F<47>(x); case 48: return F<48>(x); case 62: return F<62>(x); case 63: return F<63>(x); \
  case 100: return F<100>(x); case 180: return F<180>(x); case 256: return F<256>(x); case 65536: return F<65536>(x);
static bool lit_ok(long long k){ switch(k){ case 0: case 1: case 2: case 3: case 8: case 10: case 15: case 16: case 17: case 31: case 32: case 33: case 47: case 48: case 62: case 63: case 100: case 180: case 256: case 65536: return true; } return false; }
static int64_t shl_l(fixed_t x, long long k){ switch(k){ LIT_CASES(shl_lit) } return 0; }
static int64_t shr_l(fixed_t x, long long k){ switch(k){ LIT_CASES(shr_lit) } return 0; }
static int64_t mul_l(fixed_t x, long long k){ switch(k){ LIT_CASES(mul_lit) } return 0; }
static int64_t div_l(fixed_t x, long long k){ switch(k){ LIT_CASES(div_lit) } return 0; }
// --- calls with a LITERAL argument (a dispatch on __builtin_constant_p / constant folding exists only here) ---
#define LITV(F) F(0) F(1) F(65536) F(131071) F(131072) F(196608) F(327680) F(458752) F(6488064) F(809041920) F(40001) F(40002) F(60000) F(-60000) \
                F(-65536) F(32768) F(-32768) F(51472) F(102944) F(205887) F(4294967296) F(1099511693312) F(268435456) F(-131072)
template<long long V> struct lit_call {
  static long long sqrt_(){ return sqrt(as_fixed(V)).v; }   static long long sin_(){ return sin(as_fixed(V)).v; }
  static long long cos_(){ return cos(as_fixed(V)).v; }     static long long tan_(){ return tan(as_fixed(V)).v; }
  static long long atan_(){ return atan(as_fixed(V)).v; }   static long long asin_(){ return asin(as_fixed(V)).v; }
  static long long acos_(){ return acos(as_fixed(V)).v; }   static long long ceil_(){ return ceil(as_fixed(V)).v; }
  static long long floor_(){ return floor(as_fixed(V)).v; } static long long abs_(){ return abs(as_fixed(V)).v; }
  static long long neg_(){ return (-as_fixed(V)).v; }       static long long hyp_(){ return hypot(as_fixed(V), as_fixed(65536)).v; }
};
static bool lit_eval(const std::string& f, long long v, long long& r)
  {
#define ONE(V) if(v == V##LL){ using L = lit_call<V##LL>; \
    if(f=="sqrt"){ r = L::sqrt_(); return true; } if(f=="sin"){ r = L::sin_(); return true; } if(f=="cos"){ r = L::cos_(); return true; } \
    if(f=="tan"){ r = L::tan_(); return true; } if(f=="atan"){ r = L::atan_(); return true; } if(f=="asin"){ r = L::asin_(); return true; } \
    if(f=="acos"){ r = L::acos_(); return true; } if(f=="ceil"){ r = L::ceil_(); return true; } if(f=="floor"){ r = L::floor_(); return true; } \
    if(f=="abs"){ r = L::abs_(); return true; } if(f=="neg"){ r = L::neg_(); return true; } if(f=="hypot1"){ r = L::hyp_(); return true; } return false; }
  LITV(ONE)
#undef ONE
  return false;
  }
// --- out-of-line kernels ---
[[gnu::noinline]] static fixed_t add_ool(fixed_t a, fixed_t b){ return a+b; }
[[gnu::noinline]] static fixed_t sub_ool(fixed_t a, fixed_t b){ return a-b; }

// --- results computed during static initialisation of THIS translation unit (linked before fixed_math.cc):
// a table that is filled at start-up instead of being constant-initialised is still empty here
static volatile int64_t g_sink;
struct early_t { int64_t v[12]; };
static early_t early_eval()
  {
  early_t e{};
  e.v[0] = sin_angle_aprox(30).v;  e.v[1] = cos_angle_aprox(60).v;  e.v[2] = cos_angle_aprox(0).v;
  e.v[3] = sin_angle_aprox(90).v;  e.v[4] = sqrt_aprox(as_fixed(4*65536)).v; e.v[5] = atan_index_aprox(as_fixed(65536)).v;
  e.v[6] = tan_tab(64).v;          e.v[7] = square_root_tab(255);   e.v[8] = sin_angle_tab(45).v;
  e.v[9] = cos_angle_tab(45).v;    e.v[10] = hypot_aprox(as_fixed(3*65536), as_fixed(4*65536)).v; e.v[11] = atan_aprox(as_fixed(-65536)).v;
  return e;
  }
static const early_t g_early = early_eval();

template<typename T> static bool in_range(i128 v)
  { return v >= (i128)std::numeric_limits<T>::min() && v <= (i128)std::numeric_limits<T>::max(); }

static_assert(sizeof(long long)==8 && !std::is_same_v<long long, int64_t> && !std::is_same_v<unsigned long long, uint64_t>, "alias type table of tools/gen.py assumes LP64 Linux");
// integral type matrix
template<typename T>
static bool typed_int(const std::string& fn, const std::vector<i128>& a)
  {
  size_t n = a.size();
  if(fn=="to_fixed" && n==1){ if(!in_range<T>(a[0])) return false; out_i(fixed_t{T(a[0])}.v); return true; }
  if(fn=="re_to_fixed" && n==2){ if(!in_range<T>(a[0])||!in_range<T>(a[1])) return false; T k = T(a[0]); g_sink = integral_to_fixed(k).v; k = T(a[1]); out_i(integral_to_fixed(k).v); return true; }
  if(fn=="re_from_fixed" && n==2){
    fixed_t x = fx(a[0]); T r = fixed_to_integral<T>(x); g_sink = (int64_t)r; x = fx(a[1]); r = fixed_to_integral<T>(x);
    if constexpr(std::is_signed_v<T>) out_i((long long)r); else out_u((unsigned long long)r);
    return true; }
  if(fn=="to_fixed_mk" && n==1){ if(!in_range<T>(a[0])) return false; out_i(make_fixed(T(a[0])).v); return true; }
  if(fn=="from_fixed" && n==1){
    T r = static_cast<T>(fx(a[0]));
    if constexpr(std::is_signed_v<T>) out_i((long long)r); else out_u((unsigned long long)r);
    return true; }
  if(fn=="a2r" && n==1){ if(!in_range<T>(a[0])) return false; out_i(angle_to_radians(T(a[0])).v); return true; }
  if(n==2 && !in_range<T>(a[1])) return false;
  if(fn=="mul_s" && n==2){ out_i((fx(a[0])*T(a[1])).v); return true; }
  if(fn=="rmul_s" && n==2){ out_i((T(a[1])*fx(a[0])).v); return true; }
  if(fn=="muleq_s" && n==2){ fixed_t x=fx(a[0]); x*=T(a[1]); out_i(x.v); return true; }
  if(fn=="div_s" && n==2){ out_i((fx(a[0])/T(a[1])).v); return true; }
  if(fn=="diveq_s" && n==2){ fixed_t x=fx(a[0]); x/=T(a[1]); out_i(x.v); return true; }
  if(fn=="add_i" && n==2){ out_i((fx(a[0])+T(a[1])).v); return true; }
  if(fn=="radd_i" && n==2){ out_i((T(a[1])+fx(a[0])).v); return true; }
  if(fn=="addeq_i" && n==2){ fixed_t x=fx(a[0]); x+=T(a[1]); out_i(x.v); return true; }
  if(fn=="sub_i" && n==2){ out_i((fx(a[0])-T(a[1])).v); return true; }
  if(fn=="rsub_i" && n==2){ out_i((T(a[1])-fx(a[0])).v); return true; }
  if(fn=="subeq_i" && n==2){ fixed_t x=fx(a[0]); x-=T(a[1]); out_i(x.v); return true; }
  if(fn=="rdiv_i" && n==2){ out_i((T(a[1])/fx(a[0])).v); return true; }
  // reference forms of C16: the same operation applied to a and fixed_t(t), conversion written out
  if(fn=="ref_add_i" && n==2){ out_i((fx(a[0])+fixed_t{T(a[1])}).v); return true; }
  if(fn=="ref_sub_i" && n==2){ out_i((fx(a[0])-fixed_t{T(a[1])}).v); return true; }
  if(fn=="ref_rsub_i" && n==2){ out_i((fixed_t{T(a[1])}-fx(a[0])).v); return true; }
  if(fn=="ref_rdiv_i" && n==2){ out_i((fixed_t{T(a[1])}/fx(a[0])).v); return true; }
  if(fn=="sin_angle" && n==1){ if(!in_range<T>(a[0])) return false; out_i(sin_angle(T(a[0])).v); return true; }
  if(fn=="cos_angle" && n==1){ if(!in_range<T>(a[0])) return false; out_i(cos_angle(T(a[0])).v); return true; }
  if(fn=="tan_angle" && n==1){ if(!in_range<T>(a[0])) return false; out_i(tan_angle(T(a[0])).v); return true; }
  return false;
  }

bool detail_op(const std::string& fn, const std::string& tag, const std::vector<i128>& a); // harness_detail.cc

static bool eval(const std::string& fn, const std::string& tag, const std::vector<i128>& a)
  {
  size_t n = a.size();
  if(fn=="after" && n==4)
    { // `after[:tag] i j a b`: NAMES[i](a) is evaluated, then NAMES[j](b) in the same thread, and the second result is the one
      // reported (two entry points sharing hidden state).  Same table in tools/irsearch.py, tools/suites.py and lean/Main.lean.
    static const char* const names[] = {"sin","cos","tan","atan","sqrt","asin","acos","ceil","floor","sqrt_aprox","atan_index","atan_aprox","neg","abs"};
    if(a[0]<0||a[0]>13||a[1]<0||a[1]>13) return false;
    auto tg = [&](int k){ return (k>=4 && k<=6) ? (tag.empty() ? std::string("dflt") : tag) : std::string(); };
    std::fflush(stdout);
    FILE* keep = stdout; static FILE* devnull = std::fopen("/dev/null", "w");
    stdout = devnull; eval(names[(int)a[0]], tg((int)a[0]), std::vector<i128>{a[2]}); std::fflush(devnull); stdout = keep;
    return eval(names[(int)a[1]], tg((int)a[1]), std::vector<i128>{a[3]});
    }
  if(fn.rfind("lit_", 0) == 0 && n == 1 && (tag.empty() || tag == "dflt"))
    { long long r; if(!lit_eval(fn.substr(4), (long long)a[0], r)) return false; out_i(r); return true; }
  if(tag.empty())
    {
    if(n==1)
      {
      fixed_t x = fx(a[0]);
      if(fn=="neg"){ out_i((-x).v); return true; }
      if(fn=="abs"){ out_i(abs(x).v); return true; }
      if(fn=="isnan"){ out_i(isnan(x)); return true; }
      if(fn=="ceil"){ out_i(ceil(x).v); return true; }
      if(fn=="floor"){ out_i(floor(x).v); return true; }
      if(fn=="roundtrip_d"){ out_i(fixed_t{static_cast<double>(x)}.v); return true; }
      if(fn=="sin"){ out_i(sin(x).v); return true; }
      if(fn=="cos"){ out_i(cos(x).v); return true; }
      if(fn=="tan"){ out_i(tan(x).v); return true; }
      if(fn=="atan"){ out_i(atan(x).v); return true; }
      if(fn=="sin_aprox"){ out_i(sin_angle_aprox((int32_t)a[0]).v); return true; }
      if(fn=="cos_aprox"){ out_i(cos_angle_aprox((int32_t)a[0]).v); return true; }
      if(fn=="sqrt_aprox"){ out_i(sqrt_aprox(x).v); return true; }
      if(fn=="atan_index"){ out_i(atan_index_aprox(x).v); return true; }
      if(fn=="atan_aprox"){ out_i(atan_aprox(x).v); return true; }
      if(fn=="sqrt_tab"){ if(a[0]<0||a[0]>255) return false; out_i(square_root_tab((uint8_t)a[0])); return true; }
      if(fn=="tan_tab"){ if(a[0]<0||a[0]>255) return false; out_i(tan_tab((uint8_t)a[0]).v); return true; }
      if(fn=="sin_tab"){ if(a[0]<0||a[0]>360) return false; out_i(sin_angle_tab((uint16_t)a[0]).v); return true; }
      if(fn=="cos_tab"){ if(a[0]<0||a[0]>360) return false; out_i(cos_angle_tab((uint16_t)a[0]).v); return true; }
      }
    if(n==1)
      {
      // compound assignment whose right operand is the object itself
      fixed_t x = fx(a[0]);
      if(fn=="addeq_self"){ x += x; out_i(x.v); return true; }
      if(fn=="subeq_self"){ x -= x; out_i(x.v); return true; }
      if(fn=="muleq_self"){ x *= x; out_i(x.v); return true; }
      if(fn=="diveq_self"){ x /= x; out_i(x.v); return true; }
      if(fn=="stream")
        { // operator<<(std::ostream&, fixed_t): the text with the decimal point removed (16 fraction digits) as an integer
        std::ostringstream os; os << x; std::string t = os.str();
        if(t == "NaN"){ std::puts("ok nan"); return true; }
        std::string d; for(char c : t) if(c != '.') d += c;
        std::printf("ok %s\n", d.c_str()); return true;
        }
      if(fn=="early"){ if(a[0]<0||a[0]>11) return false; early_t now = early_eval(); g_sink = now.v[a[0]]; out_i(g_early.v[a[0]]); return true; }
      if(fn=="late"){ if(a[0]<0||a[0]>11) return false; early_t now = early_eval(); out_i(now.v[a[0]]); return true; }
      }
    // the same objects used twice in one function with a store in between (a function wrongly promised to be
    // `const`/`pure` on reference parameters is merged by the optimiser): re_<op> a.. b.. evaluates op on the first
    // operand set, overwrites the objects with the second set, evaluates again and reports the second result
#define RE1(NAME, EXPR) if(fn=="re_" NAME && n==2){ fixed_t x = fx(a[0]); g_sink = (int64_t)(EXPR); x = fx(a[1]); out_i((long long)(EXPR)); return true; }
#define RE2(NAME, EXPR) if(fn=="re_" NAME && n==4){ fixed_t x = fx(a[0]), y = fx(a[1]); g_sink = (int64_t)(EXPR); x = fx(a[2]); y = fx(a[3]); out_i((long long)(EXPR)); return true; }
    RE1("neg", (-x).v) RE1("abs", abs(x).v) RE1("isnan", isnan(x)) RE1("ceil", ceil(x).v) RE1("floor", floor(x).v)
    RE1("sin", sin(x).v) RE1("cos", cos(x).v) RE1("tan", tan(x).v) RE1("atan", atan(x).v)
    RE2("add", (x+y).v) RE2("sub", (x-y).v) RE2("mul", (x*y).v) RE2("div", (x/y).v)
    RE2("lt", x<y) RE2("le", x<=y) RE2("gt", x>y) RE2("ge", x>=y) RE2("eq", x==y) RE2("ne", x!=y)
    RE2("atan2", atan2(x,y).v) RE2("hypot", hypot(x,y).v)
#undef RE1
#undef RE2
    if(n==2)
      {
      fixed_t x = fx(a[0]), y = fx(a[1]);
      if(fn=="add"){ out_i((x+y).v); return true; }
      if(fn=="add_ool"){ out_i(add_ool(x,y).v); return true; }
      if(fn=="add_fn"){ out_i(fixed_addition(x,y).v); return true; }
      if(fn=="addeq"){ x+=y; out_i(x.v); return true; }
      if(fn=="add_pp"){ out_i(add_pp(x.v,y.v)); return true; }
      if(fn=="add_pp_isnan"){ out_i(add_pp_isnan(x.v,y.v)); return true; }
      if(fn=="add_nn"){ out_i(add_nn(x.v,y.v)); return true; }
      if(fn=="sub"){ out_i((x-y).v); return true; }
      if(fn=="sub_ool"){ out_i(sub_ool(x,y).v); return true; }
      if(fn=="sub_fn"){ out_i(fixed_substract(x,y).v); return true; }
      if(fn=="subeq"){ x-=y; out_i(x.v); return true; }
      if(fn=="sub_pn"){ out_i(sub_pn(x.v,y.v)); return true; }
      if(fn=="sub_np"){ out_i(sub_np(x.v,y.v)); return true; }
      if(fn=="mul"){ out_i((x*y).v); return true; }
      if(fn=="mul_fn"){ out_i(fixed_multiply(x,y).v); return true; }
      if(fn=="muleq"){ x*=y; out_i(x.v); return true; }
      if(fn=="div"){ out_i((x/y).v); return true; }
      if(fn=="div_fn"){ out_i(fixed_division(x,y).v); return true; }
      if(fn=="diveq"){ x/=y; out_i(x.v); return true; }
      if(fn=="band"){ out_i((x&y).v); return true; }
      if(fn=="lt"){ out_i(x<y); return true; }
      if(fn=="le"){ out_i(x<=y); return true; }
      if(fn=="gt"){ out_i(x>y); return true; }
      if(fn=="ge"){ out_i(x>=y); return true; }
      if(fn=="eq"){ out_i(x==y); return true; }
      if(fn=="ne"){ out_i(x!=y); return true; }
      if(fn=="atan2"){ out_i(atan2(x,y).v); return true; }
      if(fn=="shl_lit" || fn=="shr_lit" || fn=="mul_lit" || fn=="div_lit")
        {
        long long k = (long long)a[1];
        if(!lit_ok(k) || ((fn=="shl_lit"||fn=="shr_lit") && k > 63)) return false;
        out_i(fn=="shl_lit" ? shl_l(x,k) : fn=="shr_lit" ? shr_l(x,k) : fn=="mul_lit" ? mul_l(x,k) : div_l(x,k)); return true;
        }
      // two calls of a table function in a row (hidden state keyed on a truncated argument): the second result counts
      if(fn=="re_sin_aprox"){ g_sink = sin_angle_aprox((int32_t)a[0]).v; out_i(sin_angle_aprox((int32_t)a[1]).v); return true; }
      if(fn=="re_cos_aprox"){ g_sink = cos_angle_aprox((int32_t)a[0]).v; out_i(cos_angle_aprox((int32_t)a[1]).v); return true; }
      if(fn=="re_sincos_aprox"){ g_sink = sin_angle_aprox((int32_t)a[0]).v; out_i(cos_angle_aprox((int32_t)a[1]).v); return true; }
      if(fn=="re_cossin_aprox"){ g_sink = cos_angle_aprox((int32_t)a[0]).v; out_i(sin_angle_aprox((int32_t)a[1]).v); return true; }
      if(fn=="hypot_aprox"){ out_i(hypot_aprox(x,y).v); return true; }
      if(fn=="shr"){ if(a[1] < INT32_MIN || a[1] > INT32_MAX) return false; out_i((x >> (int)a[1]).v); return true; }
      if(fn=="shl"){ if(a[1] < INT32_MIN || a[1] > INT32_MAX) return false; out_i((x << (int)a[1]).v); return true; }
      // double operands: second argument is the bit pattern
      double d = bits_d(a[1]);
      if(fn=="add_d"){ out_d(x + d); return true; }
      if(fn=="radd_d"){ out_d(d + x); return true; }
      if(fn=="sub_d"){ out_d(x - d); return true; }
      if(fn=="rsub_d"){ out_d(d - x); return true; }
      if(fn=="mul_d"){ out_d(x * d); return true; }
      if(fn=="rmul_d"){ out_d(d * x); return true; }
      if(fn=="div_d"){ out_d(x / d); return true; }
      if(fn=="rdiv_d"){ out_d(d / x); return true; }
      float f = bits_f(a[1]);
      if(fn=="add_f"){ out_i((x + f).v); return true; }
      if(fn=="radd_f"){ out_i((f + x).v); return true; }
      if(fn=="addeq_f"){ x += f; out_i(x.v); return true; }
      if(fn=="sub_f"){ out_i((x - f).v); return true; }
      if(fn=="rsub_f"){ out_i((f - x).v); return true; }
      if(fn=="subeq_f"){ x -= f; out_i(x.v); return true; }
      if(fn=="mul_f"){ out_i((x * f).v); return true; }
      if(fn=="rmul_f"){ out_i((f * x).v); return true; }
      if(fn=="muleq_f"){ x *= f; out_i(x.v); return true; }
      if(fn=="div_f"){ out_i((x / f).v); return true; }
      if(fn=="rdiv_f"){ out_i((f / x).v); return true; }
      if(fn=="diveq_f"){ x /= f; out_i(x.v); return true; }
      if(fn=="ref_add_f"){ out_i((fx(a[0]) + fixed_t{f}).v); return true; }
      if(fn=="ref_sub_f"){ out_i((fx(a[0]) - fixed_t{f}).v); return true; }
      if(fn=="ref_rsub_f"){ out_i((fixed_t{f} - fx(a[0])).v); return true; }
      if(fn=="ref_mul_f"){ out_i((fx(a[0]) * fixed_t{f}).v); return true; }
      if(fn=="ref_div_f"){ out_i((fx(a[0]) / fixed_t{f}).v); return true; }
      if(fn=="ref_rdiv_f"){ out_i((fixed_t{f} / fx(a[0])).v); return true; }
      }
    return detail_op(fn, tag, a);
    }
  // tagged
  if(tag=="f32" || tag=="f64")
    {
    if(fn=="fp_to_fixed" && n==1)
      {
      if(tag=="f32") out_i(fixed_t{bits_f(a[0])}.v); else out_i(fixed_t{bits_d(a[0])}.v);
      return true;
      }
    if(fn=="to_fp" && n==1)
      {
      if(tag=="f32") out_f(static_cast<float>(fx(a[0]))); else out_d(static_cast<double>(fx(a[0])));
      return true;
      }
    if(tag=="f32" && n==1)
      {
      float f = bits_f(a[0]);
      if(fn=="sin_angle"){ out_i(sin_angle(f).v); return true; }
      if(fn=="cos_angle"){ out_i(cos_angle(f).v); return true; }
      if(fn=="tan_angle"){ out_i(tan_angle(f).v); return true; }
      }
    return false;
    }
  if(tag=="fx" && n==1)
    {
    fixed_t x = fx(a[0]);
    if(fn=="sin_angle"){ out_i(sin_angle(x).v); return true; }
    if(fn=="cos_angle"){ out_i(cos_angle(x).v); return true; }
    if(fn=="tan_angle"){ out_i(tan_angle(x).v); return true; }
    return false;
    }
  if(tag=="ab" || tag=="std" || tag=="dflt")
    return detail_op(fn, tag, a);
  if(tag=="i8") return typed_int<int8_t>(fn,a);
  if(tag=="i16") return typed_int<int16_t>(fn,a);
  if(tag=="i32") return typed_int<int32_t>(fn,a);
  if(tag=="i64") return typed_int<int64_t>(fn,a);
  if(tag=="u8") return typed_int<uint8_t>(fn,a);
  if(tag=="u16") return typed_int<uint16_t>(fn,a);
  if(tag=="u32") return typed_int<uint32_t>(fn,a);
  if(tag=="u64") return typed_int<uint64_t>(fn,a);
  // distinct integral types sharing the representation of a fixed-width typedef (LP64 Linux)
  if(tag=="ll") return typed_int<long long>(fn,a);
  if(tag=="ull") return typed_int<unsigned long long>(fn,a);
  return false;
  }

// "dirty" mode (HARNESS_DIRTY=1): every operation is evaluated, then the ambient state a pure function must not depend on
// is disturbed - errno set, floating-point status flags raised, a handful of other library calls made (the ones that
// would leave a trace in a hidden cache: zero, negative and extreme arguments) - and the operation is evaluated AGAIN;
// only the second result is printed.  The outputs must be identical to those of a clean run.
static void disturb(unsigned long n)
  {
  // extreme and invalid arguments first ...
  g_sink = sqrt(as_fixed(-65536)).v; g_sink = sqrt(as_fixed(589824)).v;
  g_sink = sin_angle_aprox(2147483647).v; g_sink = cos_angle_aprox(-2147483647-1).v; g_sink = sqrt_aprox(as_fixed(65536)).v;
  g_sink = atan_index_aprox(as_fixed(-1)).v; g_sink = asin(as_fixed(131072)).v;
  g_sink = tan(as_fixed(102944)).v; g_sink = (as_fixed(1) / as_fixed(0)).v;
  g_sink = fixed_t{std::numeric_limits<double>::quiet_NaN()}.v;
  // ... zero arguments last: a cache that stores "no result" next to a stale key is left in that state
  g_sink = sqrt(as_fixed(0)).v; g_sink = hypot(as_fixed(0), as_fixed(0)).v; g_sink = sin(as_fixed(0)).v; g_sink = asin(as_fixed(0)).v;
  g_sink = atan(as_fixed(0)).v; g_sink = sqrt_aprox(as_fixed(0)).v; g_sink = sin_angle_aprox(0).v; g_sink = cos_angle_aprox(0).v;
  g_sink = atan_index_aprox(as_fixed(0)).v;
  errno = (n & 1) ? EDOM : ERANGE;
  std::feraiseexcept(FE_INVALID | FE_DIVBYZERO | FE_OVERFLOW | FE_UNDERFLOW | FE_INEXACT);
  }

int main(int argc, char** argv)
  {
  g_flush = std::getenv("HARNESS_FLUSH") != nullptr;
  const bool dirty = std::getenv("HARNESS_DIRTY") != nullptr;
  unsigned long line_no = 0;
  static char buf[1<<16];
  std::vector<i128> args;
  std::string fn, tag;
  static char obuf[1<<20];
  if(!g_flush) std::setvbuf(stdout, obuf, _IOFBF, sizeof obuf);
  while(std::fgets(buf, sizeof buf, stdin))
    {
    args.clear(); fn.clear(); tag.clear();
    char* p = buf;
    while(*p==' ') ++p;
    char* q = p;
    while(*q && *q!=' ' && *q!='\n') ++q;
    std::string head(p,q);
    auto c = head.find(':');
    if(c==std::string::npos) fn = head; else { fn = head.substr(0,c); tag = head.substr(c+1); }
    p = q;
    for(;;)
      {
      while(*p==' ') ++p;
      if(!*p || *p=='\n') break;
      args.push_back(parse_int(p));
      while(*p && *p!=' ' && *p!='\n') ++p;
      }
    if(dirty && fn != "early" && fn != "sqrt_backend")
      { // first evaluation into the void, disturbance, second evaluation is the one reported
      std::fflush(stdout);
      FILE* keep = stdout; static FILE* devnull = std::fopen("/dev/null", "w");
      stdout = devnull; eval(fn, tag, args); std::fflush(devnull); stdout = keep;
      disturb(++line_no);
      }
    if(!eval(fn, tag, args)) std::puts("bad-op");
    if(g_flush) std::fflush(stdout);
    }
  return 0;
  }

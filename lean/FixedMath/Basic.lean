def hello := "world"

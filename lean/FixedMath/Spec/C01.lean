/-
  C01  Addition and subtraction are exact or NaN, never silently wrong.
  Model: `add`, `sub` (detail::fixed_additioni / fixed_substracti); `+ - += -=` and
  `fixed_addition/fixed_substract` on two `fixed_t` operands are these kernels (Main.lean: `canon`).
  The `⇓` conjunct is "no undefined behaviour": the abstract machine assigns exactly one result, which
  is what every conforming compilation (inlined or not, any optimisation level) must produce.
-/
import FixedMath.Proofs.Basic

namespace FixedMath
open Gen

theorem C01_add (a b : Int) (ha : fin a) (hb : fin b) :
    ∃ r, (add a b ⇓ r) ∧ (fin (a + b) → r = a + b) ∧ (¬ fin (a + b) → isNaN r) := by
  unfold fin lim_lowest lim_max at *
  unfold add negNaN neg NaNp chk64 toI64 toU64 isNaN lim_quiet_NaN i64min i64max two64 two63
  simp only [pure, Except.pure, throw, throwThe, MonadExceptOf.throw]
  split_ifs <;> first | omega | (refine ⟨_, rfl, ?_, ?_⟩ <;> omega)

theorem C01_sub (a b : Int) (ha : fin a) (hb : fin b) :
    ∃ r, (sub a b ⇓ r) ∧ (fin (a - b) → r = a - b) ∧ (¬ fin (a - b) → isNaN r) := by
  unfold fin lim_lowest lim_max at *
  unfold sub negNaN neg NaNp chk64 toI64 toU64 isNaN lim_quiet_NaN i64min i64max two64 two63
  simp only [pure, Except.pure, throw, throwThe, MonadExceptOf.throw]
  split_ifs <;> first | omega | (refine ⟨_, rfl, ?_, ?_⟩ <;> omega)

end FixedMath

/-
  C06  Ordering, NaN sentinel, negation and abs follow the value model.
-/
import FixedMath.Proofs.Arith

namespace FixedMath
open Gen

/-- the six comparison operators compare raw values, i.e. order by `v/65536`, with the NaN sentinel
    (the largest int64) above and -NaN below every finite value (`C06_nan_top`) -/
theorem C06_order (a b : Int) :
    (lt a b = true ↔ a < b) ∧ (le a b = true ↔ a ≤ b) ∧ (gt a b = true ↔ a > b) ∧
    (ge a b = true ↔ a ≥ b) ∧ (eq a b = true ↔ a = b) ∧ (ne a b = true ↔ a ≠ b) := by
  simp [lt, le, gt, ge, eq, ne]

theorem C06_nan_top (x : Int) (h : fin x) : x < lim_quiet_NaN ∧ -lim_quiet_NaN < x := by
  unfold fin lim_lowest lim_max at h; unfold lim_quiet_NaN; omega

/-- isnan is true for exactly the two sentinels, on every finite or NaN argument -/
theorem C06_isnan (x : Int) (h : arg x) : ∃ b, (isnan x ⇓ b) ∧ (b = true ↔ isNaN x) := by
  unfold arg fin isNaN lim_lowest lim_max lim_quiet_NaN at h
  unfold isnan abs chk64 i64min i64max NaNp isNaN lim_quiet_NaN
  by_cases hp : x > 0
  · simp only [hp, if_true, bind, Except.bind, pure, Except.pure]
    refine ⟨_, rfl, ?_⟩
    simp only [beq_iff_eq]
    omega
  · have : -9223372036854775808 ≤ -x ∧ -x ≤ 9223372036854775807 := by omega
    simp only [hp, if_false, this, and_self, if_true, bind, Except.bind, pure, Except.pure]
    refine ⟨_, rfl, ?_⟩
    simp only [beq_iff_eq]
    omega

theorem neg_ok (x : Int) (h1 : -9223372036854775808 < x) (h2 : x ≤ 9223372036854775807) : neg x ⇓ -x := by
  unfold neg chk64 i64min i64max
  have : -9223372036854775808 ≤ -x ∧ -x ≤ 9223372036854775807 := by omega
  rw [if_pos this]; rfl

theorem abs_ok (x : Int) (h1 : -9223372036854775808 < x) (h2 : x ≤ 9223372036854775807) :
    abs x ⇓ (if x ≥ 0 then x else -x) := by
  unfold abs chk64 i64min i64max
  by_cases hp : x > 0
  · have : x ≥ 0 := by omega
    rw [if_pos hp, if_pos this]; rfl
  · have h3 : -9223372036854775808 ≤ -x ∧ -x ≤ 9223372036854775807 := by omega
    rw [if_neg hp, if_pos h3]
    apply congrArg Except.ok
    split <;> omega

theorem C06_neg_abs (x : Int) (h : fin x) :
    (neg x ⇓ -x) ∧ fin (-x) ∧ (neg (-x) ⇓ x) ∧
    (abs x ⇓ (if x ≥ 0 then x else -x)) ∧ (abs (-x) ⇓ (if x ≥ 0 then x else -x)) ∧
    0 ≤ (if x ≥ 0 then x else -x) ∧ fin (if x ≥ 0 then x else -x) := by
  unfold fin lim_lowest lim_max at *
  refine ⟨neg_ok x (by omega) (by omega), by omega, ?_, abs_ok x (by omega) (by omega), ?_, ?_, ?_⟩
  · have := neg_ok (-x) (by omega) (by omega)
    rwa [Int.neg_neg] at this
  · rw [abs_ok (-x) (by omega) (by omega)]
    apply congrArg Except.ok
    split <;> split <;> omega
  · split <;> omega
  · split <;> omega

/-- outside the property's quantifier: on `INT64_MIN` negation (hence abs and isnan) is undefined -/
theorem C06_int64_min : neg (-9223372036854775808) = .error .signedOverflow := by decide

example : fin 9223372036854775806 ∧ arg (-9223372036854775807) := by
  unfold arg fin isNaN lim_lowest lim_max lim_quiet_NaN; omega

end FixedMath

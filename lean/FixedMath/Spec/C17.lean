/-
  C17  Arithmetic obeys the algebraic laws of exact arithmetic where defined.
  "no intermediate result is NaN" is an explicit hypothesis `¬ isNaN ·` on each intermediate result.
-/
import FixedMath.Proofs.Arith
import FixedMath.Spec.C02
import FixedMath.Spec.C03

namespace FixedMath
open Gen

/-- a+b == b+a and a*b == b*a bit for bit (including NaN results) -/
theorem C17_comm (a b : Int) (ha : fin a) (hb : fin b) : add a b = add b a ∧ mul a b = mul b a := by
  constructor
  · rw [add_closed a b ha hb, add_closed b a hb ha, Int.add_comm]
  · rw [mul_closed a b, mul_closed b a, Int.mul_comm]

/-- a-b == a+(-b) and a-a == 0 -/
theorem C17_sub (a b : Int) (ha : fin a) (hb : fin b) :
    sub a b = (neg b >>= add a) ∧ (sub a a ⇓ 0) := by
  have hnb : fin (-b) := by unfold fin lim_lowest lim_max at *; omega
  have hneg : neg b ⇓ -b := by
    unfold fin lim_lowest lim_max at hb
    unfold neg chk64 i64min i64max
    have : -9223372036854775808 ≤ -b ∧ -b ≤ 9223372036854775807 := by omega
    rw [if_pos this]; rfl
  constructor
  · rw [hneg]
    show sub a b = add a (-b)
    rw [sub_closed a b ha hb, add_closed a (-b) ha hnb]
    have : a + -b = a - b := by omega
    rw [this]
  · rw [sub_closed a a ha ha]
    unfold lim_max lim_lowest
    have : a - a = 0 := by omega
    rw [this]
    rfl

/-- for |a| < 2^31: a*1 == a, a*0 == 0, a/1 == a, a/a == 1 -/
theorem C17_units (a : Int) (h : -140737488355328 < a ∧ a < 140737488355328) :
    (mul a 65536 ⇓ a) ∧ (mul a 0 ⇓ 0) ∧ (div a 65536 ⇓ a) ∧ (a ≠ 0 → div a a ⇓ 65536) := by
  refine ⟨?_, ?_, ?_, ?_⟩
  · rw [mul_closed]
    have : -9223372036854775808 ≤ a * 65536 ∧ a * 65536 ≤ 9223372036854775807 := by omega
    rw [if_pos this]
    apply congrArg Except.ok
    omega
  · rw [mul_closed]
    simp
  · rw [div_closed a 65536 (by omega) (by omega)]
    have : (65536 : Int) ≠ 0 ∧ -140737488355328 < a ∧ a < 140737488355328 := ⟨by omega, h⟩
    rw [if_pos this]
    apply congrArg Except.ok
    exact Int.mul_tdiv_cancel a (by omega)
  · intro h0
    rw [div_closed a a (by omega) (by omega)]
    have : a ≠ 0 ∧ -140737488355328 < a ∧ a < 140737488355328 := ⟨h0, h⟩
    rw [if_pos this]
    apply congrArg Except.ok
    exact Int.mul_tdiv_cancel_left 65536 h0

/-- (a+b)-b == a whenever a+b is not NaN -/
theorem C17_cancel (a b s : Int) (ha : fin a) (hb : fin b) (hs : add a b ⇓ s) (hn : ¬ isNaN s) :
    sub s b ⇓ a := by
  rw [add_closed a b ha hb] at hs
  have hs' := Except.ok.inj hs
  unfold fin lim_lowest lim_max isNaN NaNp lim_quiet_NaN at *
  have hfs : -9223372036854775806 ≤ s ∧ s ≤ 9223372036854775806 := by
    split_ifs at hs' <;> omega
  have hsab : s = a + b := by split_ifs at hs' <;> omega
  rw [sub_closed s b (by unfold fin lim_lowest lim_max; exact hfs) (by unfold fin lim_lowest lim_max; exact hb)]
  unfold lim_lowest lim_max
  apply congrArg Except.ok
  split_ifs <;> omega

/-- (a+b)+c == a+(b+c) whenever no intermediate result is NaN -/
theorem C17_assoc (a b c s t : Int) (ha : fin a) (hb : fin b) (hc : fin c)
    (hs : add a b ⇓ s) (hns : ¬ isNaN s) (ht : add b c ⇓ t) (hnt : ¬ isNaN t) :
    add s c = add a t := by
  rw [add_closed a b ha hb] at hs
  rw [add_closed b c hb hc] at ht
  have hs' := Except.ok.inj hs
  have ht' := Except.ok.inj ht
  unfold fin lim_lowest lim_max isNaN NaNp lim_quiet_NaN at *
  have hfs : -9223372036854775806 ≤ s ∧ s ≤ 9223372036854775806 ∧ s = a + b := by
    split_ifs at hs' <;> omega
  have hft : -9223372036854775806 ≤ t ∧ t ≤ 9223372036854775806 ∧ t = b + c := by
    split_ifs at ht' <;> omega
  rw [add_closed s c (by unfold fin lim_lowest lim_max; omega) (by unfold fin lim_lowest lim_max; exact hc),
      add_closed a t (by unfold fin lim_lowest lim_max; exact ha) (by unfold fin lim_lowest lim_max; omega)]
  have : s + c = a + t := by omega
  rw [this]

/-- a < b implies a+c <= b+c whenever neither sum is NaN -/
theorem C17_mono (a b c s t : Int) (ha : fin a) (hb : fin b) (hc : fin c) (hab : a < b)
    (hs : add a c ⇓ s) (hns : ¬ isNaN s) (ht : add b c ⇓ t) (hnt : ¬ isNaN t) : s ≤ t := by
  rw [add_closed a c ha hc] at hs
  rw [add_closed b c hb hc] at ht
  have hs' := Except.ok.inj hs
  have ht' := Except.ok.inj ht
  unfold fin lim_lowest lim_max isNaN NaNp lim_quiet_NaN at *
  split_ifs at hs' ht' <;> omega

/-- `a` added to itself `n` times (left fold of `add`), `none` as soon as an intermediate result is NaN -/
def nsum (a : Int) : Nat → Option Int
  | 0 => some 0
  | k + 1 => match nsum a k with
    | none => none
    | some s => match add s a with
      | .ok r => if r = NaNp ∨ r = -NaNp then none else some r
      | .error _ => none

theorem nsum_eq (a : Int) (ha : fin a) : ∀ (k : Nat) (s : Int), nsum a k = some s → s = a * k ∧ fin s := by
  intro k
  induction k with
  | zero => intro s h; simp [nsum] at h; subst h; unfold fin lim_lowest lim_max; simp
  | succ k ih =>
    intro s h
    unfold nsum at h
    cases hk : nsum a k with
    | none => rw [hk] at h; simp at h
    | some p =>
      rw [hk] at h
      obtain ⟨hp, hfp⟩ := ih p hk
      simp only [] at h
      rw [add_closed p a hfp ha] at h
      simp only [] at h
      unfold fin lim_lowest lim_max NaNp lim_quiet_NaN at *
      split_ifs at h with h1 h2 h3 <;> simp only [Option.some.injEq, reduceCtorEq] at h
      all_goals first
        | omega
        | (subst h; push_cast; constructor
           · rw [hp]; ring
           · omega)

/-- a*n equals a added to itself n times, for every n ≥ 0 for which no partial sum is NaN -/
theorem C17_nsmul (t : IT) (a : Int) (k : Nat) (s : Int) (ha : fin a) (hk : t.mem k)
    (hs : nsum a k = some s) : mulScalar t a k ⇓ s := by
  obtain ⟨hv, hf⟩ := nsum_eq a ha k s hs
  obtain ⟨r, hr, h1, _⟩ := C02_scalar t a k ha hk
  rw [hr, h1 (by rw [← hv]; exact hf), hv]

/-- (a*n)/n == a for n ≠ 0 whenever a*n is not NaN -/
theorem C17_mul_div (t : IT) (a n p : Int) (ha : fin a) (hn : t.mem n) (h0 : n ≠ 0)
    (hp : mulScalar t a n ⇓ p) (hnp : ¬ isNaN p) : divScalar t p n ⇓ a := by
  obtain ⟨r, hr, h1, h2⟩ := C02_scalar t a n ha hn
  rw [hr] at hp
  have hrp := Except.ok.inj hp
  subst hrp
  have hfin : fin (a * n) := by
    by_contra hc
    exact hnp (h2 hc)
  have hpe := h1 hfin
  obtain ⟨q, hq, _, h4⟩ := C03_scalar t r n (by rw [hpe]; exact hfin) hn
  rw [hq, h4 h0, hpe]
  apply congrArg Except.ok
  exact Int.mul_tdiv_cancel a h0

example : nsum 65536 3 = some 196608 := by decide

end FixedMath

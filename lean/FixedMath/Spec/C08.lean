/-
  C08  Results do not depend on compiler, optimisation level or evaluation time.

  What Lean can carry, and does:
   (a) UB-freedom of the entry points (C07): a call without undefined behaviour has exactly one value on the C++
       abstract machine, which every conforming compiler at every optimisation level and the constant evaluator
       must produce; a UB-free call of a `constexpr` function whose callees are `constexpr` IS a constant expression.
       `C08_no_ub` packages the C07 theorems used for this premise.
   (b) the language-version switch: the only operation of the library whose meaning differs between C++17 and
       C++20 is `<<` on signed operands; `C08_shl_cxx20` shows that whenever the C++17 rule gives a value, the C++20
       (modular) rule gives the same value, so theorems proved for the stricter language transfer.
   (c) the two square-root algorithms: the abacus algorithm returns ⌊√(v·2^16)⌋ for ALL v (C13); that std::sqrt
       differs from it by at most one ulp is `C08_sqrt_algos`, for ALL v in [0, 2^48), from the accuracy theorem of
       the std::sqrt back-end over the IEEE model (C13_std_acc).
  What Lean cannot carry: the quantifier over compilers, optimisation levels and evaluation time itself.  It is
  sampled by the check: value legs g++/clang++ × -O0…-O3 × c++17/20/2b × abacus on/off compared with the one model,
  and the constant-evaluation leg (static_asserts derived from the model compiled by both compilers).
-/
import FixedMath.Spec.C07
import FixedMath.Spec.C13

namespace FixedMath
open Gen

/-- premise (a): the UB-freedom theorems of C07 -/
theorem C08_no_ub :
    (∀ a b, dom a → dom b → (∃ r, add a b ⇓ r) ∧ (∃ r, sub a b ⇓ r)) ∧
    (∀ a b, ∃ r, mul a b ⇓ r) ∧
    (∀ a b, dom a → ∃ r, div a b ⇓ r) ∧
    (∀ v, dom v → (∃ r, sin v ⇓ r) ∧ (∃ r, cos v ⇓ r) ∧ (∃ r, tan v ⇓ r)) ∧
    (∀ be v, arg v → (∃ r, asin be v ⇓ r) ∧ (∃ r, acos be v ⇓ r)) ∧
    (∀ v, ∃ r, sqrtAbacus v ⇓ r) :=
  ⟨C07_add_sub, C07_mul, C07_div, C07_sin_cos_tan, C07_asin_acos, C07_sqrt_abacus⟩

/-- `x << r` on `int64_t` under C++20 (modular) -/
def shl64_cxx20 (x r : Int) : M Int :=
  if 0 ≤ r ∧ r < 64 then pure (toI64 (x * 2 ^ r.toNat)) else throw .shiftCount

/-- (b): a value under the C++17 rule is the value under the C++20 rule -/
theorem C08_shl_cxx20 (x r v : Int) (h : shl64 x r = .ok v) : shl64_cxx20 x r = .ok v := by
  unfold shl64 at h
  unfold shl64_cxx20
  by_cases hr : 0 ≤ r ∧ r < 64
  · rw [if_pos hr] at h ⊢
    by_cases hx : x < 0
    · rw [if_pos hx] at h; exact absurd h (by simp [throw, throwThe, MonadExceptOf.throw])
    · rw [if_neg hx] at h
      by_cases ho : x * 2 ^ r.toNat ≥ two64
      · rw [if_pos ho] at h; exact absurd h (by simp [throw, throwThe, MonadExceptOf.throw])
      · rw [if_neg ho] at h; exact h
  · rw [if_neg hr] at h; exact absurd h (by simp [throw, throwThe, MonadExceptOf.throw])

/-- (c) the two square-root algorithms never differ by more than one unit in the last place -/
theorem C08_sqrt_algos (v : Int) (h0 : 0 ≤ v) (h1 : v < 281474976710656) :
    ∃ r s : Int, (sqrtAbacus v ⇓ r) ∧ (sqrtStd v ⇓ s) ∧ -1 ≤ r - s ∧ r - s ≤ 1 := by
  obtain ⟨r, hr, _, hra⟩ := C13_abacus_real v h0 h1
  obtain ⟨s, hs, _, hsa⟩ := C13_std_acc v h0 h1
  refine ⟨r, s, hr, hs, ?_⟩
  obtain ⟨a1, a2⟩ := abs_lt.mp hra
  obtain ⟨b1, b2⟩ := abs_lt.mp hsa
  have h1 : ((r - s : Int) : ℝ) < 2 := by push_cast; linarith
  have h2 : (-2 : ℝ) < ((r - s : Int) : ℝ) := by push_cast; linarith
  have h1' : r - s < 2 := by exact_mod_cast h1
  have h2' : -2 < r - s := by exact_mod_cast h2
  omega

def sqrtAgree (v : Int) : Bool :=
  match sqrtAbacus v, sqrtStd v with
  | .ok r, .ok s => decide (-1 ≤ r - s ∧ r - s ≤ 1)
  | _, _ => false

/-- (c) on sample points (kernel-evaluated tests, consistent with `C08_sqrt_algos`) -/
theorem C08_sqrt_algos_points :
    sqrtAgree 0 = true ∧ sqrtAgree 1 = true ∧ sqrtAgree 65536 = true ∧ sqrtAgree 131072 = true ∧
    sqrtAgree 4294967296 = true ∧ sqrtAgree 140737488355327 = true ∧ sqrtAgree 70368744177664 = true ∧
    sqrtAgree 12345678901 = true := by
  refine ⟨by decide +kernel, by decide +kernel, by decide +kernel, by decide +kernel, by decide +kernel,
    by decide +kernel, by decide +kernel, by decide +kernel⟩

end FixedMath

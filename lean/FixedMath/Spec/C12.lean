/-
  C12  asin and acos: NaN outside [-1,1], accurate, odd, monotone inside.  For BOTH square-root back-ends.

  For every raw v with |v| ≤ 65536 (131 073 values): there is a real x' with |x'| ≤ 1, |x' − x| ≤ 2 ulp and
  |asin(v)/65536 − arcsin x'| ≤ 4 ulp; asin(−v) = −asin(v); asin is non-decreasing; acos within 1 ulp of π/2 − asin.
  From: kernel-checked enumerations (Check/Asin*.lean: 39 323 small-branch arguments; 13 107 values of the
  square-root argument per back-end — the abacus root through its proved characterisation, the std::sqrt root through
  the IEEE model), one-sided Taylor comparisons of Real.sin at (A ± 4)/65536, monotonicity of arcsin, and the analytic
  sign/branch lemmas (Proofs/AsinReduce.lean).  NaN ⇔ |x| > 1 for every finite or NaN argument.
-/
import FixedMath.Proofs.AsinReduce
import FixedMath.Real.AsinSound
import FixedMath.Check.AsinSmallAll
import FixedMath.Check.AsinBigAbAll
import FixedMath.Check.AsinBigStdAll

namespace FixedMath
open Gen R Chk Real

set_option maxRecDepth 100000 in
theorem seam_checked : checkSeam = true := by decide +kernel

/-- the square root used by `asin` on its big branch, for each back-end, as evaluated/characterised by the checkers -/
theorem sqrt_ab_val (d : Nat) (hd : d ≤ 13107) (hb1 : Nat.sqrt (d * 65536) * Nat.sqrt (d * 65536) ≤ d * 65536)
    (hb2 : d * 65536 < (Nat.sqrt (d * 65536) + 1) * (Nat.sqrt (d * 65536) + 1)) :
    sqrt .abacus (d : Int) = .ok (Nat.sqrt (d * 65536) : Int) := by
  unfold sqrt
  apply sqrtAbacus_unique (d : Int) _ (by omega) (by omega)
  · exact_mod_cast hb1
  · exact_mod_cast hb2

/-- value and check for one non-negative argument -/
theorem asin_nonneg (be : SqrtBE) (n : Nat) (hn : n ≤ 65536) :
    ∃ A : Int, asin be (n : Int) = .ok A ∧ accAsin n A = true := by
  by_cases hs : n ≤ 39322
  · have hc := AsinSmall_all n (by omega) (by omega)
    unfold checkAsinSmall at hc
    rw [if_neg (by omega)] at hc
    cases hA : asinSmall (n : Int) with
    | error e => rw [hA] at hc; simp at hc
    | ok A =>
      rw [hA] at hc
      simp only [Bool.and_eq_true] at hc
      exact ⟨A, asin_small be n (by omega) (by omega) A hA, hc.1⟩
  · -- big branch: d = (65536 - n)/2
    set d : Nat := (65536 - n) / 2 with hd
    have hd1 : d ≤ 13106 := by omega
    have hdi : ((65536 : Int) - (n : Int)) / 2 = (d : Int) := by omega
    have hcase : n = 65536 - 2 * d ∨ (n = 65536 - 2 * d - 1 ∧ 65536 - 2 * d - 1 > 39322) := by omega
    cases be with
    | abacus =>
      have hc := AsinBigAb_all d (by omega) (by omega)
      unfold checkAsinBigAb at hc
      rw [if_neg (by omega)] at hc
      simp only [Bool.and_eq_true, Nat.ble_eq, Nat.blt_eq] at hc
      obtain ⟨⟨⟨⟨⟨b1, b2⟩, _⟩, _⟩, hbig⟩, _⟩ := hc
      have hsq := sqrt_ab_val d (by omega) b1 b2
      unfold checkBigWith at hbig
      cases hA : asinBig (Nat.sqrt (d * 65536) : Int) with
      | error e => rw [hA] at hbig; simp at hbig
      | ok A =>
        rw [hA] at hbig
        simp only [Bool.and_eq_true] at hbig
        refine ⟨A, asin_big .abacus n (by omega) (by omega) _ A (by rw [hdi]; exact hsq) hA, ?_⟩
        rcases hcase with h | ⟨h, h2⟩
        · rw [h]; exact hbig.1
        · rw [h]; have := hbig.2; rw [if_pos h2] at this; exact this
    | std =>
      have hc := AsinBigStd_all d (by omega) (by omega)
      unfold checkAsinBigStd at hc
      rw [if_neg (by omega)] at hc
      cases hs1 : sqrtStd (d : Int) with
      | error e => rw [hs1] at hc; simp at hc
      | ok s =>
        cases hs2 : sqrtStd ((d : Int) + 1) with
        | error e => rw [hs1, hs2] at hc; simp at hc
        | ok s' =>
          rw [hs1, hs2] at hc
          simp only [Bool.and_eq_true] at hc
          obtain ⟨hbig, _⟩ := hc
          unfold checkBigWith at hbig
          cases hA : asinBig s with
          | error e => rw [hA] at hbig; simp at hbig
          | ok A =>
            rw [hA] at hbig
            simp only [Bool.and_eq_true] at hbig
            refine ⟨A, asin_big .std n (by omega) (by omega) s A (by rw [hdi]; unfold sqrt; exact hs1) hA, ?_⟩
            rcases hcase with h | ⟨h, h2⟩
            · rw [h]; exact hbig.1
            · rw [h]; have := hbig.2; rw [if_pos h2] at this; exact this

/-- accuracy clause, all 131 073 arguments, both back-ends -/
theorem C12_acc (be : SqrtBE) (v : Int) (h1 : -65536 ≤ v) (h2 : v ≤ 65536) :
    ∃ A : Int, (asin be v ⇓ A) ∧ ¬ isNaN A ∧
      ∃ x' : ℝ, |x'| ≤ 1 ∧ |x' - (v : ℝ) / 65536| ≤ 2 / 65536 ∧ |(A : ℝ) / 65536 - Real.arcsin x'| ≤ 4 / 65536 := by
  by_cases hv : 0 ≤ v
  · obtain ⟨n, rfl⟩ : ∃ n : Nat, v = (n : Int) := ⟨v.toNat, by omega⟩
    obtain ⟨A, hA, hc⟩ := asin_nonneg be n (by omega)
    obtain ⟨a0, a1, x', hx1, hx2, hx3⟩ := accAsin_sound n A (by omega) hc
    exact ⟨A, hA, by unfold isNaN lim_quiet_NaN; omega, x', hx1, by simpa using hx2, hx3⟩
  · obtain ⟨n, hn⟩ : ∃ n : Nat, v = -(n : Int) := ⟨(-v).toNat, by omega⟩
    subst hn
    obtain ⟨A, hA, hc⟩ := asin_nonneg be n (by omega)
    obtain ⟨a0, a1, x', hx1, hx2, hx3⟩ := accAsin_sound n A (by omega) hc
    have hneg := asin_neg be n A (by omega) (by omega) hA (by omega)
    refine ⟨-A, hneg, by unfold isNaN lim_quiet_NaN; omega, -x', by rwa [abs_neg], ?_, ?_⟩
    · have e : -x' - ((-(n : Int) : ℤ) : ℝ) / 65536 = -(x' - (n : ℝ) / 65536) := by push_cast; ring
      rw [e, abs_neg]; exact hx2
    · rw [Real.arcsin_neg]
      have e : ((-A : ℤ) : ℝ) / 65536 - -Real.arcsin x' = -((A : ℝ) / 65536 - Real.arcsin x') := by push_cast; ring
      rw [e, abs_neg]; exact hx3

/-- asin(−x) = −asin(x) exactly -/
theorem C12_odd (be : SqrtBE) (v : Int) (h1 : -65536 ≤ v) (h2 : v ≤ 65536) :
    ∃ A : Int, (asin be v ⇓ A) ∧ (asin be (-v) ⇓ -A) := by
  rcases Int.lt_trichotomy v 0 with hv | hv | hv
  · obtain ⟨n, hn⟩ : ∃ n : Nat, v = -(n : Int) := ⟨(-v).toNat, by omega⟩
    subst hn
    obtain ⟨A, hA, hc⟩ := asin_nonneg be n (by omega)
    obtain ⟨a0, a1, _⟩ := accAsin_sound n A (by omega) hc
    have hneg := asin_neg be n A (by omega) (by omega) hA (by omega)
    exact ⟨-A, hneg, by rw [Int.neg_neg, Int.neg_neg]; exact hA⟩
  · subst hv
    obtain ⟨A, hA, hc⟩ := asin_nonneg be 0 (by omega)
    have h0 : asin be 0 = .ok 0 := by cases be <;> decide
    exact ⟨0, h0, by simpa using h0⟩
  · obtain ⟨n, rfl⟩ : ∃ n : Nat, v = (n : Int) := ⟨v.toNat, by omega⟩
    obtain ⟨A, hA, hc⟩ := asin_nonneg be n (by omega)
    obtain ⟨a0, a1, _⟩ := accAsin_sound n A (by omega) hc
    exact ⟨A, hA, asin_neg be n A (by omega) (by omega) hA (by omega)⟩

/-- NaN exactly when |x| > 1, for every finite or NaN argument -/
theorem C12_nan_iff (be : SqrtBE) (v : Int) (hv : arg v) :
    ∃ A C : Int, (asin be v ⇓ A) ∧ (acos be v ⇓ C) ∧
      (isNaN A ↔ (v < -65536 ∨ 65536 < v)) ∧ (isNaN C ↔ (v < -65536 ∨ 65536 < v)) := by
  have hvr : -9223372036854775808 < v := by
    unfold arg fin isNaN lim_lowest lim_max lim_quiet_NaN at hv; omega
  have hmone : neg 65536 = .ok (-65536) := by decide
  by_cases hout : v < -65536 ∨ 65536 < v
  · refine ⟨NaNp, NaNp, asin_out be v hvr hout, ?_, ?_, ?_⟩
    · unfold acos
      rw [phi2M_eq, one_fix]
      simp only [bind, Except.bind]
      rw [hmone]
      simp only []
      have : ¬ (v ≥ -65536 ∧ v ≤ 65536) := by omega
      rw [if_neg this]; rfl
    · exact ⟨fun _ => hout, fun _ => Or.inl rfl⟩
    · exact ⟨fun _ => hout, fun _ => Or.inl rfl⟩
  · obtain ⟨A, hA, hnn, _⟩ := C12_acc be v (by omega) (by omega)
    have hAb : -102944 ≤ A ∧ A ≤ 102944 := by
      by_cases hv0 : 0 ≤ v
      · obtain ⟨n, rfl⟩ : ∃ n : Nat, v = (n : Int) := ⟨v.toNat, by omega⟩
        obtain ⟨A', hA', hc⟩ := asin_nonneg be n (by omega)
        obtain ⟨a0, a1, _⟩ := accAsin_sound n A' (by omega) hc
        have : A = A' := by rw [hA'] at hA; exact (Except.ok.inj hA).symm
        omega
      · obtain ⟨n, hn⟩ : ∃ n : Nat, v = -(n : Int) := ⟨(-v).toNat, by omega⟩
        subst hn
        obtain ⟨A', hA', hc⟩ := asin_nonneg be n (by omega)
        obtain ⟨a0, a1, _⟩ := accAsin_sound n A' (by omega) hc
        have hneg := asin_neg be n A' (by omega) (by omega) hA' (by omega)
        have : A = -A' := by rw [hneg] at hA; exact (Except.ok.inj hA).symm
        omega
    refine ⟨A, 102943 - A, hA, ?_, ?_, ?_⟩
    · unfold acos
      rw [phi2M_eq, one_fix]
      simp only [bind, Except.bind]
      rw [hmone]
      simp only []
      have : v ≥ -65536 ∧ v ≤ 65536 := by omega
      rw [if_pos this, hA]
      simp only []
      exact chk64_ok _ (by omega) (by omega)
    · exact ⟨fun h => absurd h hnn, fun h => absurd h hout⟩
    · constructor
      · intro h; unfold isNaN lim_quiet_NaN at h; omega
      · intro h; exact absurd h hout

/-- acos(x) is within 1 ulp of π/2 − asin(x) (with the library's asin value), hence within 1 ulp of [0, π] -/
theorem C12_acos (be : SqrtBE) (v : Int) (h1 : -65536 ≤ v) (h2 : v ≤ 65536) :
    ∃ A C : Int, (asin be v ⇓ A) ∧ (acos be v ⇓ C) ∧
      |(C : ℝ) / 65536 - (π / 2 - (A : ℝ) / 65536)| ≤ 1 / 65536 ∧
      -(1 / 65536) ≤ (C : ℝ) / 65536 ∧ (C : ℝ) / 65536 ≤ π + 1 / 65536 := by
  obtain ⟨A, C, hA, hC, hnA, _⟩ := C12_nan_iff be v (by
    left; unfold fin lim_lowest lim_max; omega)
  have hAb : -102944 ≤ A ∧ A ≤ 102944 := by
    obtain ⟨B, hB, hB2⟩ := C12_odd be v h1 h2
    have hAB : A = B := by rw [hB] at hA; exact (Except.ok.inj hA).symm
    by_cases hv0 : 0 ≤ v
    · obtain ⟨n, rfl⟩ : ∃ n : Nat, v = (n : Int) := ⟨v.toNat, by omega⟩
      obtain ⟨A', hA', hc⟩ := asin_nonneg be n (by omega)
      obtain ⟨a0, a1, _⟩ := accAsin_sound n A' (by omega) hc
      have : A = A' := by rw [hA'] at hA; exact (Except.ok.inj hA).symm
      omega
    · obtain ⟨n, hn⟩ : ∃ n : Nat, v = -(n : Int) := ⟨(-v).toNat, by omega⟩
      subst hn
      obtain ⟨A', hA', hc⟩ := asin_nonneg be n (by omega)
      obtain ⟨a0, a1, _⟩ := accAsin_sound n A' (by omega) hc
      have hneg := asin_neg be n A' (by omega) (by omega) hA' (by omega)
      have : A = -A' := by rw [hneg] at hA; exact (Except.ok.inj hA).symm
      omega
  have hCv : C = 102943 - A := by
    unfold acos at hC
    rw [phi2M_eq, one_fix] at hC
    simp only [bind, Except.bind] at hC
    have hmone : neg 65536 = .ok (-65536) := by decide
    rw [hmone] at hC
    simp only [] at hC
    have : v ≥ -65536 ∧ v ≤ 65536 := by omega
    rw [if_pos this, hA] at hC
    simp only [] at hC
    rw [chk64_ok _ (by omega) (by omega)] at hC
    exact (Except.ok.inj hC).symm
  refine ⟨A, C, hA, hC, ?_, ?_, ?_⟩
  · rw [hCv]
    have hd1 := delta1_bounds
    have e : ((102943 - A : ℤ) : ℝ) / 65536 - (π / 2 - (A : ℝ) / 65536) = 102943 / 65536 - π / 2 := by push_cast; ring
    rw [e, abs_le]
    constructor <;> [skip; skip] <;> (have := hd1.1; have := hd1.2; norm_num at *; linarith)
  · rw [hCv]
    have : (-1 : ℝ) ≤ ((102943 - A : ℤ) : ℝ) := by
      have : (-1 : ℤ) ≤ 102943 - A := by omega
      exact_mod_cast this
    have : (-1 : ℝ) / 65536 ≤ ((102943 - A : ℤ) : ℝ) / 65536 := by gcongr
    have e : -(1 / 65536 : ℝ) = (-1 : ℝ) / 65536 := by ring
    rw [e]; exact this
  · rw [hCv]
    have hd := delta0_bounds
    have : ((102943 - A : ℤ) : ℝ) ≤ 205887 := by
      have : (102943 - A : ℤ) ≤ 205887 := by omega
      exact_mod_cast this
    have : ((102943 - A : ℤ) : ℝ) / 65536 ≤ 205887 / 65536 := by gcongr
    linarith [hd.1]

set_option maxRecDepth 1000000 in
/-- consecutive non-negative arguments: asin(n) ≤ asin(n+1) -/
theorem asin_step (be : SqrtBE) (n : Nat) (hn : n < 65536) :
    ∃ A B : Int, asin be (n : Int) = .ok A ∧ asin be ((n : Int) + 1) = .ok B ∧ A ≤ B := by
  obtain ⟨A, hA, _⟩ := asin_nonneg be n (by omega)
  obtain ⟨B, hB, _⟩ := asin_nonneg be (n + 1) (by omega)
  have hB' : asin be ((n : Int) + 1) = .ok B := by exact_mod_cast hB
  refine ⟨A, B, hA, hB', ?_⟩
  by_cases hs : n < 39322
  · -- both small
    have hc := AsinSmall_all n (by omega) (by omega)
    unfold checkAsinSmall at hc
    rw [if_neg (by omega)] at hc
    cases hA1 : asinSmall (n : Int) with
    | error e => rw [hA1] at hc; simp at hc
    | ok A1 =>
      rw [hA1] at hc
      simp only [Bool.and_eq_true] at hc
      have h2 := hc.2
      rw [if_neg (by omega)] at h2
      cases hB1 : asinSmall ((n : Int) + 1) with
      | error e => rw [hB1] at h2; simp at h2
      | ok B1 =>
        rw [hB1] at h2
        simp only [decide_eq_true_eq] at h2
        have e1 := asin_small be n (by omega) (by omega) A1 hA1
        have e2 := asin_small be ((n : Int) + 1) (by omega) (by omega) B1 hB1
        rw [e1] at hA; rw [e2] at hB'
        have := Except.ok.inj hA; have := Except.ok.inj hB'
        omega
  · by_cases hseam : n = 39322
    · subst hseam
      have hc := seam_checked
      unfold checkSeam at hc
      cases hA1 : asinSmall 39322 with
      | error e => rw [hA1] at hc; simp at hc
      | ok A1 =>
        cases hB1 : asinBig (Nat.sqrt (13106 * 65536) : Int) with
        | error e => rw [hA1, hB1] at hc; simp at hc
        | ok B1 =>
          cases hs1 : sqrtStd 13106 with
          | error e => rw [hA1, hB1, hs1] at hc; simp at hc
          | ok s =>
            rw [hA1, hB1, hs1] at hc
            simp only [Bool.and_eq_true, decide_eq_true_eq] at hc
            obtain ⟨hAB, hstd⟩ := hc
            have e1 := asin_small be (39322 : ℕ) (by omega) (by omega) A1 (by exact_mod_cast hA1)
            rw [e1] at hA
            have hAA := Except.ok.inj hA
            cases be with
            | abacus =>
              have hcb := AsinBigAb_all 13106 (by omega) (by omega)
              unfold checkAsinBigAb at hcb
              rw [if_neg (by omega)] at hcb
              simp only [Bool.and_eq_true, Nat.ble_eq, Nat.blt_eq] at hcb
              obtain ⟨⟨⟨⟨⟨b1, b2⟩, _⟩, _⟩, _⟩, _⟩ := hcb
              have hsq := sqrt_ab_val 13106 (by omega) b1 b2
              have e2 := asin_big .abacus (((39322 : ℕ) : Int) + 1) (by omega) (by omega) _ B1
                (by have : ((65536 : Int) - (((39322 : ℕ) : Int) + 1)) / 2 = ((13106 : ℕ) : Int) := by omega
                    rw [this]; exact hsq) hB1
              rw [e2] at hB'
              have := Except.ok.inj hB'
              omega
            | std =>
              cases hC1 : asinBig s with
              | error e => rw [hC1] at hstd; simp at hstd
              | ok C1 =>
                rw [hC1] at hstd
                simp only [decide_eq_true_eq] at hstd
                have e2 := asin_big .std (((39322 : ℕ) : Int) + 1) (by omega) (by omega) s C1
                  (by have : ((65536 : Int) - (((39322 : ℕ) : Int) + 1)) / 2 = 13106 := by omega
                      rw [this]; unfold sqrt; exact hs1) hC1
                rw [e2] at hB'
                have := Except.ok.inj hB'
                omega
    · -- both big : d(n+1) ∈ {d(n), d(n) - 1}
      set d : Nat := (65536 - n) / 2 with hd
      set d' : Nat := (65536 - (n + 1)) / 2 with hd'
      have hdd : d' = d ∨ (d = d' + 1) := by omega
      have hdi : ((65536 : Int) - (n : Int)) / 2 = (d : Int) := by omega
      have hdi' : ((65536 : Int) - ((n : Int) + 1)) / 2 = (d' : Int) := by omega
      rcases hdd with heq | hstep
      · -- same square-root argument: same result
        have : asin be ((n : Int) + 1) = asin be (n : Int) := by
          unfold asin
          have hn0 : ¬ ((n : Int) < 0) := by omega
          have hn1 : ¬ ((n : Int) + 1 < 0) := by omega
          rw [if_neg hn0, if_neg hn1, one_fix]
          simp only [bind, Except.bind, pure, Except.pure]
          have a1 : (n : Int) ≤ 65536 := by omega
          have a2 : (n : Int) + 1 ≤ 65536 := by omega
          have a3 : ¬ (n : Int) ≤ asin_split := by unfold asin_split; omega
          have a4 : ¬ (n : Int) + 1 ≤ asin_split := by unfold asin_split; omega
          rw [if_pos a1, if_pos a2, if_neg a3, if_neg a4, chk64_ok _ (by omega) (by omega), chk64_ok _ (by omega) (by omega)]
          simp only []
          have s1 : shr64 (65536 - (n : Int)) 1 = .ok (d : Int) := by
            unfold shr64
            have : (2 : Int) ^ (1 : Int).toNat = 2 := by decide
            simp only [this]; rw [← hdi]; rfl
          have s2 : shr64 (65536 - ((n : Int) + 1)) 1 = .ok (d : Int) := by
            unfold shr64
            have : (2 : Int) ^ (1 : Int).toNat = 2 := by decide
            simp only [this]; rw [← heq, ← hdi']; rfl
          rw [s1, s2]
          simp [setSign, hn0, hn1]
        rw [this, hA] at hB'
        have := Except.ok.inj hB'
        omega
      · -- d = d' + 1 : the chain fact A(d'+1) ≤ A(d')
        have hd'1 : d' ≤ 13105 := by omega
        cases be with
        | abacus =>
          have hcb := AsinBigAb_all d' (by omega) (by omega)
          unfold checkAsinBigAb at hcb
          rw [if_neg (by omega)] at hcb
          simp only [Bool.and_eq_true, Nat.ble_eq, Nat.blt_eq] at hcb
          obtain ⟨⟨⟨⟨⟨b1, b2⟩, b3⟩, b4⟩, _⟩, hmono⟩ := hcb
          have hsq' := sqrt_ab_val d' (by omega) b1 b2
          have hsq := sqrt_ab_val (d' + 1) (by omega) b3 b4
          cases hX : asinBig (Nat.sqrt (d' * 65536) : Int) with
          | error e => rw [hX] at hmono; simp at hmono
          | ok X =>
            cases hY : asinBig (Nat.sqrt ((d' + 1) * 65536) : Int) with
            | error e => rw [hX, hY] at hmono; simp at hmono
            | ok Y =>
              rw [hX, hY] at hmono
              simp only [decide_eq_true_eq] at hmono
              have e1 := asin_big .abacus (n : Int) (by omega) (by omega) _ Y (by rw [hdi, hstep]; exact hsq) hY
              have e2 := asin_big .abacus ((n : Int) + 1) (by omega) (by omega) _ X (by rw [hdi']; exact hsq') hX
              rw [e1] at hA; rw [e2] at hB'
              have := Except.ok.inj hA; have := Except.ok.inj hB'
              omega
        | std =>
          have hcb := AsinBigStd_all d' (by omega) (by omega)
          unfold checkAsinBigStd at hcb
          rw [if_neg (by omega)] at hcb
          cases hs1 : sqrtStd (d' : Int) with
          | error e => rw [hs1] at hcb; simp at hcb
          | ok s =>
            cases hs2 : sqrtStd ((d' : Int) + 1) with
            | error e => rw [hs1, hs2] at hcb; simp at hcb
            | ok s' =>
              rw [hs1, hs2] at hcb
              simp only [Bool.and_eq_true] at hcb
              obtain ⟨_, hmono⟩ := hcb
              cases hX : asinBig s with
              | error e => rw [hX] at hmono; simp at hmono
              | ok X =>
                cases hY : asinBig s' with
                | error e => rw [hX, hY] at hmono; simp at hmono
                | ok Y =>
                  rw [hX, hY] at hmono
                  simp only [decide_eq_true_eq] at hmono
                  have e1 := asin_big .std (n : Int) (by omega) (by omega) s' Y
                    (by rw [hdi, hstep]; unfold sqrt; push_cast; exact hs2) hY
                  have e2 := asin_big .std ((n : Int) + 1) (by omega) (by omega) s X
                    (by rw [hdi']; unfold sqrt; exact hs1) hX
                  rw [e1] at hA; rw [e2] at hB'
                  have := Except.ok.inj hA; have := Except.ok.inj hB'
                  omega

/-- asin is non-decreasing on [-1, 1] -/
theorem C12_mono (be : SqrtBE) (v w : Int) (h1 : -65536 ≤ v) (hvw : v ≤ w) (h2 : w ≤ 65536) :
    ∃ A B : Int, (asin be v ⇓ A) ∧ (asin be w ⇓ B) ∧ A ≤ B := by
  -- on the non-negative side by induction on the distance
  have key : ∀ (k n : Nat), n + k ≤ 65536 → ∃ A B : Int, asin be (n : Int) = .ok A ∧ asin be ((n + k : ℕ) : Int) = .ok B ∧ A ≤ B := by
    intro k
    induction k with
    | zero => intro n hn; obtain ⟨A, hA, _⟩ := asin_nonneg be n (by omega); exact ⟨A, A, hA, by simpa using hA, le_refl _⟩
    | succ k ih =>
      intro n hn
      obtain ⟨A, B, hA, hB, hAB⟩ := ih n (by omega)
      obtain ⟨B', C, hB', hC, hBC⟩ := asin_step be (n + k) (by omega)
      have : B = B' := by rw [hB] at hB'; exact Except.ok.inj hB'
      refine ⟨A, C, hA, ?_, by omega⟩
      have e : (((n + (k + 1) : ℕ)) : Int) = ((n + k : ℕ) : Int) + 1 := by push_cast; ring
      rw [e]; exact hC
  have nonneg_val : ∀ n : Nat, n ≤ 65536 → ∃ A : Int, asin be (n : Int) = .ok A ∧ 0 ≤ A ∧ A ≤ 102944 := by
    intro n hn
    obtain ⟨A, hA, hc⟩ := asin_nonneg be n hn
    obtain ⟨a0, a1, _⟩ := accAsin_sound n A hn hc
    exact ⟨A, hA, a0, a1⟩
  by_cases hv : 0 ≤ v
  · obtain ⟨n, rfl⟩ : ∃ n : Nat, v = (n : Int) := ⟨v.toNat, by omega⟩
    obtain ⟨k, rfl⟩ : ∃ k : Nat, w = ((n + k : ℕ) : Int) := ⟨(w - n).toNat, by push_cast; omega⟩
    exact key k n (by omega)
  · obtain ⟨n, hn⟩ : ∃ n : Nat, v = -(n : Int) := ⟨(-v).toNat, by omega⟩
    subst hn
    obtain ⟨A, hA, a0, a1⟩ := nonneg_val n (by omega)
    have hnA := asin_neg be n A (by omega) (by omega) hA (by omega)
    by_cases hw : 0 ≤ w
    · obtain ⟨m, rfl⟩ : ∃ m : Nat, w = (m : Int) := ⟨w.toNat, by omega⟩
      obtain ⟨B, hB, b0, b1⟩ := nonneg_val m (by omega)
      exact ⟨-A, B, hnA, hB, by omega⟩
    · obtain ⟨m, hm⟩ : ∃ m : Nat, w = -(m : Int) := ⟨(-w).toNat, by omega⟩
      subst hm
      obtain ⟨B, hB, b0, b1⟩ := nonneg_val m (by omega)
      have hnB := asin_neg be m B (by omega) (by omega) hB (by omega)
      -- m ≤ n, asin m ≤ asin n
      obtain ⟨k, hk⟩ : ∃ k : Nat, n = m + k := ⟨n - m, by omega⟩
      obtain ⟨B', A', hB', hA', hBA⟩ := key k m (by omega)
      have e1 : B = B' := by rw [hB] at hB'; exact Except.ok.inj hB'
      have e2 : A = A' := by rw [← hk] at hA'; rw [hA] at hA'; exact Except.ok.inj hA'
      exact ⟨-A, -B, hnA, hnB, by omega⟩

example : arg 9223372036854775807 ∧ (-65536 : Int) ≤ 39323 := by
  unfold arg fin isNaN lim_lowest lim_max lim_quiet_NaN; omega

end FixedMath

/-
  C04  Integer <-> fixed conversion is exact in range and NaN outside.
  `toFixed t` models `integral_to_fixed<T>` (constructor, `make_fixed`, `arithmetic_to_fixed`, implicit
  promotion all reach it); `fromFixed t` models `fixed_to_integral<T>` (`explicit operator T`).
  `x / 65536` on `Int` is floor division: the integer `k` with `k ≤ x/65536 < k+1`.
-/
import FixedMath.Proofs.Arith

namespace FixedMath
open Gen

theorem C04_to (t : IT) (n : Int) (h : t.mem n) :
    toFixed t n ⇓ (if -2147483647 ≤ n ∧ n ≤ 2147483647 then n * 65536 else lim_quiet_NaN) := by
  unfold toFixed lim_max_integral lim_min_integral NaNp
  by_cases hr : n ≤ 2147483647 ∧ n ≥ -2147483647
  · have hr' : -2147483647 ≤ n ∧ n ≤ 2147483647 := ⟨hr.2, hr.1⟩
    rw [if_pos hr, if_pos hr']
    have h64 : toI64 n = n := toI64_of_range (by omega) (by omega)
    rw [h64]
    cases t <;> simp only [IT.isUnsigned, IT.mem, IT.lo, IT.hi] at h ⊢
    all_goals first
      | (simp only [Bool.false_eq_true, if_false]; rw [shlSigned16_exact n (by omega) (by omega)]; rfl)
      | (simp only [if_true]; rw [shlUnsigned16_exact n (by omega) (by omega)]; rfl)
  · have hr' : ¬ (-2147483647 ≤ n ∧ n ≤ 2147483647) := fun h => hr ⟨h.2, h.1⟩
    rw [if_neg hr, if_neg hr']
    rfl

theorem cast_of_mem (t : IT) (k : Int) (h : t.mem k) : t.cast k = k := by
  cases t <;> simp only [IT.mem, IT.lo, IT.hi] at h <;> simp only [IT.cast, toI32, toI64, two64, two63]
  all_goals first | omega | (split <;> omega)

theorem C04_from (t : IT) (x : Int) (_hx : fin x) :
    fromFixed t x ⇓ (if t.mem (x / 65536) then x / 65536 else 0) := by
  unfold fromFixed
  rw [shr64_16]
  simp only [bind, Except.bind]
  by_cases h : t.mem (x / 65536)
  · have h' : x / 65536 ≥ t.lo ∧ x / 65536 ≤ t.hi := ⟨h.1, h.2⟩
    rw [if_pos h', if_pos h, cast_of_mem t _ h]
    rfl
  · have h' : ¬ (x / 65536 ≥ t.lo ∧ x / 65536 ≤ t.hi) := fun hh => h ⟨hh.1, hh.2⟩
    rw [if_neg h', if_neg h]
    rfl

theorem C04_roundtrip (t : IT) (n : Int) (h : t.mem n) (hr : -2147483647 ≤ n ∧ n ≤ 2147483647) :
    (toFixed t n >>= fromFixed t) ⇓ n := by
  rw [C04_to t n h, if_pos hr]
  show fromFixed t (n * 65536) ⇓ n
  have hf : fin (n * 65536) := by unfold fin lim_lowest lim_max; omega
  rw [C04_from t _ hf]
  have : n * 65536 / 65536 = n := by omega
  rw [this, if_pos h]

example : IT.mem .u64 18446744073709551615 ∧ IT.mem .i8 (-128) := by
  simp only [IT.mem, IT.lo, IT.hi]; omega

end FixedMath

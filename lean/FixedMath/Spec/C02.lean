/-
  C02  Multiplication is correctly truncated or NaN.
  `P = a*b` is the exact product of the raw values; the real product has raw value `P/65536`.
  "within one ulp, either direction" is proved in its strong form: the result is the floor.
-/
import FixedMath.Proofs.Arith

namespace FixedMath
open Gen

theorem C02_mul (a b : Int) (_ha : fin a) (_hb : fin b) :
    ∃ r, (mul a b ⇓ r) ∧
      (isNaN r ∨ (r * 65536 ≤ a * b ∧ a * b < (r + 1) * 65536)) ∧
      (-9223372036854775808 ≤ a * b ∧ a * b ≤ 9223372036854775807 → ¬ isNaN r) ∧
      (a * b > lim_max * 65536 ∨ a * b < lim_lowest * 65536 → isNaN r) := by
  refine ⟨_, mul_closed a b, ?_⟩
  generalize a * b = P
  unfold isNaN NaNp lim_quiet_NaN lim_max lim_lowest
  split_ifs with h <;> omega

/-- fixed × integer, for every integral type and both operand orders (both call `mulScalar`) -/
theorem C02_scalar (t : IT) (a n : Int) (ha : fin a) (hn : t.mem n) :
    ∃ r, (mulScalar t a n ⇓ r) ∧ (fin (a * n) → r = a * n) ∧ (¬ fin (a * n) → isNaN r) := by
  unfold fin lim_lowest lim_max at *
  by_cases hbig : t = .u64 ∧ n > i64max
  · obtain ⟨rfl, hn2⟩ := hbig
    unfold mulScalar
    simp only [hn2, and_self, if_true]
    unfold i64max at hn2
    by_cases h0 : a = 0
    · subst h0
      refine ⟨0, rfl, ?_, ?_⟩ <;> intro h <;> simp at h ⊢
    · refine ⟨NaNp, by simp [h0, pure, Except.pure], ?_, fun _ => Or.inl rfl⟩
      intro h
      exfalso
      rcases Int.lt_or_gt_of_ne h0 with hneg | hpos
      · have : a * n ≤ (-1) * n := Int.mul_le_mul_of_nonneg_right (by omega) (by omega)
        omega
      · have : 1 * n ≤ a * n := Int.mul_le_mul_of_nonneg_right (by omega) (by omega)
        omega
  · have hp : promote t n = n := by
      unfold promote
      split
      · rename_i h; subst h
        have : ¬ n > i64max := fun h2 => hbig ⟨rfl, h2⟩
        unfold i64max at this
        simp only [IT.mem, IT.lo, IT.hi] at hn
        exact toI64_of_range (by omega) (by omega)
      · rfl
    unfold mulScalar
    simp only [hbig, if_false, hp]
    unfold mulInternal checkMulResult i64min i64max lim_lowest lim_max isNaN NaNp lim_quiet_NaN
    generalize a * n = P
    by_cases h1 : -9223372036854775808 ≤ P ∧ P ≤ 9223372036854775807
    · simp only [h1, and_self, if_true]
      by_cases h2 : P ≥ -9223372036854775806 ∧ P ≤ 9223372036854775806
      · simp only [h2, and_self, decide_true, if_true]
        exact ⟨P, rfl, fun _ => rfl, fun h => absurd trivial h⟩
      · simp only [h2, decide_false, Bool.false_eq_true, if_false]
        exact ⟨_, rfl, fun h => h.elim, fun _ => Or.inl rfl⟩
    · simp only [h1, if_false]
      exact ⟨_, rfl, fun h => by omega, fun _ => Or.inl rfl⟩

/-- non-vacuity: a finite pair whose product overflows, and one in range -/
example : fin 4294967296 ∧ fin 9223372036854775806 ∧ IT.mem .u64 18446744073709551615 := by
  simp only [fin, IT.mem, IT.lo, IT.hi, lim_lowest, lim_max]; omega

end FixedMath

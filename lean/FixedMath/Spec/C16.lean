/-
  C16  Mixed-type operators equal the promoted computation.

  The model of the mixed operators (Model/Mixed.lean) is the library's dispatch: `+ -` and `T / fixed` promote the
  non-fixed operand through `integral_to_fixed` / `floating_point_to_fixed`; `fixed * T`, `T * fixed`, `fixed / T`
  use the integer exactly; a `double` operand promotes the fixed operand to double.  The theorems below state the
  property over that model for ALL operands; which overload the compiler actually selects for each of the ten
  operand types, both operand orders and the four compound assignments is decided by the type-matrix correspondence
  (harness/harness.cc: `add_i radd_i addeq_i … rdiv_d` against the reference forms `ref_*`, bit-exact for doubles).
-/
import FixedMath.Spec.C02
import FixedMath.Spec.C03
import FixedMath.Spec.C04
import FixedMath.Model.Mixed

namespace FixedMath
open Gen

/-- integral operand, `+ - ` both orders and `T / fixed`: the same operation applied to `a` and `fixed_t(t)` -/
theorem C16_int_promoted (t : IT) (a n c : Int) (hc : toFixed t n ⇓ c) :
    addInt t a n = add a c ∧ addIntL t n a = add c a ∧ subInt t a n = sub a c ∧ subIntL t n a = sub c a ∧
    divIntL t n a = div c a := by
  unfold addInt addIntL subInt subIntL divIntL promoteInt
  rw [hc]
  exact ⟨rfl, rfl, rfl, rfl, rfl⟩

/-- `fixed * integer` (either order) and `fixed / integer` use the integer exactly, for the whole range of every
    integral type, `uint64` above 2^63 included -/
theorem C16_int_exact (t : IT) (a n : Int) (ha : fin a) (hn : t.mem n) :
    (∃ r, (mulInt t a n ⇓ r) ∧ (fin (a * n) → r = a * n) ∧ (¬ fin (a * n) → isNaN r)) ∧
    (∃ r, (divInt t a n ⇓ r) ∧ (n = 0 → isNaN r) ∧ (n ≠ 0 → r = Int.tdiv a n)) :=
  ⟨C02_scalar t a n ha hn, C03_scalar t a n ha hn⟩

/-- in-range integers convert exactly, so `a + n` is `a + n·65536` etc. -/
theorem C16_int_value (t : IT) (a n : Int) (hn : t.mem n) (hr : -2147483647 ≤ n ∧ n ≤ 2147483647) :
    addInt t a n = add a (n * 65536) ∧ subInt t a n = sub a (n * 65536) := by
  have hc := C04_to t n hn
  rw [if_pos hr] at hc
  obtain ⟨h1, _, h3, _, _⟩ := C16_int_promoted t a n _ hc
  exact ⟨h1, h3⟩

/-- float operand: every operator is the fixed operator applied to `fixed_t(f)` -/
theorem C16_float (a c : Int) (f : FP) (hc : fpToFixed b32 f ⇓ c) :
    addFloat a f = add a c ∧ addFloatL f a = add c a ∧ subFloat a f = sub a c ∧ subFloatL f a = sub c a ∧
    mulFloat a f = mul a c ∧ mulFloatL f a = mul c a ∧ divFloat a f = div a c ∧ divFloatL f a = div c a := by
  unfold addFloat addFloatL subFloat subFloatL mulFloat mulFloatL divFloat divFloatL promoteFloat
  rw [hc]
  exact ⟨rfl, rfl, rfl, rfl, rfl, rfl, rfl, rfl⟩

/-- double operand: the IEEE operation of the model on `double(a)` and the operand, in the written operand order
    (addition is the one place where the source swaps its operands; IEEE addition is commutative) -/
theorem C16_double (a : Int) (d : FP) :
    addD a d = FP.add b64 d (fixedToFp b64 a) ∧ subD a d = FP.sub b64 (fixedToFp b64 a) d ∧
    subDL d a = FP.sub b64 d (fixedToFp b64 a) ∧ mulD a d = FP.mul b64 (fixedToFp b64 a) d ∧
    divD a d = FP.div b64 (fixedToFp b64 a) d ∧ divDL d a = FP.div b64 d (fixedToFp b64 a) :=
  ⟨rfl, rfl, rfl, rfl, rfl, rfl⟩

/-- compound assignments assign the result of the binary form (math.h: `l = fixed_addition(l, r)` …) -/
def addAssignInt (t : IT) (a n : Int) : M Int := addInt t a n
def subAssignInt (t : IT) (a n : Int) : M Int := subInt t a n
def mulAssignInt (t : IT) (a n : Int) : M Int := mulInt t a n
def divAssignInt (t : IT) (a n : Int) : M Int := divInt t a n
theorem C16_compound (t : IT) (a n : Int) :
    addAssignInt t a n = addInt t a n ∧ subAssignInt t a n = subInt t a n ∧
    mulAssignInt t a n = mulInt t a n ∧ divAssignInt t a n = divInt t a n := ⟨rfl, rfl, rfl, rfl⟩

example : IT.mem .u64 18446744073709551615 ∧ fin 3 := by
  simp only [IT.mem, IT.lo, IT.hi, fin, lim_lowest, lim_max]; omega

end FixedMath

/-
  Non-vacuity: the hypotheses of the property theorems are met by ordinary values (an implication whose premises nothing
  satisfies would check and mean nothing).  Each Spec file carries such examples next to its theorems; the ones for the
  theorems added last are collected here.
-/
import FixedMath.Spec.C05
import FixedMath.Spec.C07
import FixedMath.Spec.C11
import FixedMath.Spec.C13
import FixedMath.Spec.C14
import FixedMath.Spec.C19

namespace FixedMath
open Gen R

example : ∃ r, (sqrtStd 131072 ⇓ r) ∧ 0 ≤ r ∧ |(r : ℝ) - Real.sqrt ((131072 : Int) * 65536)| < 1 := by
  simpa using C13_std_acc 131072 (by omega) (by omega)
example : fin 65536 ∧ fin 131072 ∧ (65536 : Int) ≤ 131072 := by unfold fin lim_lowest lim_max; omega
example : dom 0 ∧ dom 9223372036854775807 ∧ dom (-9223372036854775807) := by unfold dom; omega
example : InFmt b32 (.fin false 3 (-1)) := by unfold InFmt; decide
example : (-9223372036854775808 : Int) ≤ 196609 ∧ (196609 : Int) ≤ 9223372036854775807 ∧ (196609 : Int) ≠ 0 := by omega
example : (-140737488355328 : Int) < 196608 ∧ (196608 : Int) < 140737488355328 := by omega
example : ∃ h, hypot .std 196608 262144 ⇓ h := (C07_hypot_both 196608 262144 (by unfold dom; omega) (by unfold dom; omega)).2
example : ∃ r, atanIndexAprox (-5344829) ⇓ r := C07_atan_index_aprox _ (by unfold dom; omega)

end FixedMath

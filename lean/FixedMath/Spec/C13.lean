/-
  C13  sqrt is within one ulp, monotone, exact on squares, NaN for negatives.

  Abacus algorithm (`detail::sqrt_abacus`: constant evaluation, or FIXEDMATH_ENABLE_SQRT_ABACUS_ALGO):
  every clause is a theorem for ALL inputs `0 ≤ v < 2^48` (the statement asks for `< 2^47`), by the
  loop invariant of Proofs/Sqrt.lean: the result is exactly `⌊√(v·2^16)⌋`.

  std::sqrt algorithm (`detail::sqrt_std_math`): the model composes the exact IEEE-754 model of
  Model/Float.lean (validated bit-for-bit against the hardware by the correspondence suites of
  C05/C13/C16).  Every clause is a theorem for ALL inputs as well (`C13_std_*`), from the rounding theory
  of that model (Real/FloatTheory … FloatSqrt, SqrtStd): `FP.sqrt` is correctly rounded (`sqrt_spec`), the
  scaling by 65536 is exact, the addition of 0.5 rounds once, the cast truncates; the result is `⌊W⌋` with
  `|W − (√(v·2^16) + 1/2)| ≤ 2^-19`.  Monotonicity: two distinct arguments have roots ≥ 2^-17 apart.
-/
import FixedMath.Proofs.Sqrt
import FixedMath.Real.SqrtStd
import Mathlib.Analysis.Real.Sqrt

namespace FixedMath
open Gen

theorem C13_abacus_acc (v : Int) (h0 : 0 ≤ v) (h1 : v < 281474976710656) :
    ∃ r, (sqrtAbacus v ⇓ r) ∧ 0 ≤ r ∧ r * r ≤ v * 65536 ∧ v * 65536 < (r + 1) * (r + 1) :=
  sqrtAbacus_spec v h0 h1

/-- the same with the real square root: the result differs from `√(v·2^16)` (raw units) by less than one -/
theorem C13_abacus_real (v : Int) (h0 : 0 ≤ v) (h1 : v < 281474976710656) :
    ∃ r, (sqrtAbacus v ⇓ r) ∧ 0 ≤ r ∧ |(r : ℝ) - Real.sqrt ((v : ℝ) * 65536)| < 1 := by
  obtain ⟨r, hr, hr0, hlo, hhi⟩ := sqrtAbacus_spec v h0 h1
  refine ⟨r, hr, hr0, ?_⟩
  have hlo' : ((r : ℝ)) ^ 2 ≤ (v : ℝ) * 65536 := by
    have : ((r * r : Int) : ℝ) ≤ ((v * 65536 : Int) : ℝ) := by exact_mod_cast hlo
    push_cast at this; nlinarith
  have hhi' : (v : ℝ) * 65536 < ((r : ℝ) + 1) ^ 2 := by
    have : ((v * 65536 : Int) : ℝ) < (((r + 1) * (r + 1) : Int) : ℝ) := by exact_mod_cast hhi
    push_cast at this; nlinarith
  have hr0' : (0 : ℝ) ≤ r := by exact_mod_cast hr0
  have h1 : (r : ℝ) ≤ Real.sqrt ((v : ℝ) * 65536) := (Real.le_sqrt hr0' (by positivity)).mpr hlo'
  have h2 : Real.sqrt ((v : ℝ) * 65536) < (r : ℝ) + 1 := (Real.sqrt_lt' (by linarith)).mpr hhi'
  rw [abs_lt]; constructor <;> linarith

/-- sqrt(n·n) == n for every representable square (raw `n² / 2^16` with `n²` a multiple of `2^16`) -/
theorem C13_abacus_square (n v : Int) (hn : 0 ≤ n) (hv : v * 65536 = n * n) (h1 : v < 281474976710656) :
    sqrtAbacus v ⇓ n := by
  have h0 : 0 ≤ v := by nlinarith
  obtain ⟨r, hr, hr0, hlo, hhi⟩ := sqrtAbacus_spec v h0 h1
  rw [hr]
  apply congrArg Except.ok
  rw [hv] at hlo hhi
  have h1 : r ≤ n := by nlinarith
  have h2 : n < r + 1 := by nlinarith
  omega

theorem C13_abacus_mono (v w : Int) (h0 : 0 ≤ v) (hvw : v ≤ w) (h1 : w < 281474976710656) :
    ∃ r s, (sqrtAbacus v ⇓ r) ∧ (sqrtAbacus w ⇓ s) ∧ r ≤ s := by
  obtain ⟨r, hr, hr0, hlo, _⟩ := sqrtAbacus_spec v h0 (by omega)
  obtain ⟨s, hs, hs0, _, hhi⟩ := sqrtAbacus_spec w (by omega) h1
  refine ⟨r, s, hr, hs, ?_⟩
  have : r * r < (s + 1) * (s + 1) := by omega
  have : r < s + 1 := by nlinarith
  omega

theorem C13_abacus_zero : sqrtAbacus 0 ⇓ 0 := by decide

/-- NaN for every negative argument (all negative raw values, -NaN included) -/
theorem C13_abacus_neg (v : Int) (h : v < 0) : sqrtAbacus v ⇓ lim_quiet_NaN := by
  unfold sqrtAbacus
  rw [if_pos (Or.inl h)]
  rfl

/-- std::sqrt back-end, accuracy: every `0 ≤ v < 2^48` (the statement asks for `< 2^47`) -/
theorem C13_std_acc (v : Int) (h0 : 0 ≤ v) (h1 : v < 281474976710656) :
    ∃ r, (sqrtStd v ⇓ r) ∧ 0 ≤ r ∧ |(r : ℝ) - Real.sqrt ((v : ℝ) * 65536)| < 1 :=
  sqrtStd_acc v h0 h1

/-- std::sqrt back-end: exact on squares -/
theorem C13_std_square (n v : Int) (hn : 0 ≤ n) (hv : v * 65536 = n * n) (h1 : v < 281474976710656) :
    sqrtStd v ⇓ n := by
  have hv0 : 0 ≤ v := by nlinarith
  obtain ⟨r, hr, hr0, hacc⟩ := sqrtStd_acc v hv0 h1
  have hsq : Real.sqrt ((v : ℝ) * 65536) = (n : ℝ) := by
    have : (v : ℝ) * 65536 = (n : ℝ) * (n : ℝ) := by exact_mod_cast hv
    rw [this, Real.sqrt_mul_self (by exact_mod_cast hn)]
  rw [hsq] at hacc
  have : |((r - n : Int) : ℝ)| < 1 := by push_cast; exact hacc
  have h2 : |r - n| < 1 := by exact_mod_cast this
  have : r = n := by
    have := abs_lt.mp h2
    omega
  rw [← this]; exact hr

theorem C13_std_mono (v w : Int) (h0 : 0 ≤ v) (hvw : v ≤ w) (h1 : w < 281474976710656) :
    ∃ r s, (sqrtStd v ⇓ r) ∧ (sqrtStd w ⇓ s) ∧ r ≤ s :=
  sqrtStd_mono v w h0 hvw h1

theorem C13_std_zero : sqrtStd 0 ⇓ 0 := R.sqrtStd_zero

theorem C13_std_neg (v : Int) (h : v < 0) (hmin : -9223372036854775808 ≤ v) : sqrtStd v ⇓ lim_quiet_NaN :=
  sqrtStd_neg v h hmin

/-- kernel-evaluated sample points of the IEEE model (tests; consistent with the theorems above) -/
theorem C13_std_points :
    (sqrtStd 0 ⇓ 0) ∧ (sqrtStd 65536 ⇓ 65536) ∧ (sqrtStd 131072 ⇓ 92682) ∧ (sqrtStd 262144 ⇓ 131072) ∧
    (sqrtStd (-1) ⇓ lim_quiet_NaN) ∧ (sqrtStd 140737488355327 ⇓ 3037000500) := by
  refine ⟨by decide +kernel, by decide +kernel, by decide +kernel, by decide +kernel, by decide +kernel, by decide +kernel⟩

example : (0 : Int) ≤ 131072 ∧ (131072 : Int) < 281474976710656 := by omega

end FixedMath

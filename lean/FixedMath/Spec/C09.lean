/-
  C09  sin and cos are accurate, bounded and exactly periodic.

  Accuracy: for every raw v with |v| ≤ 411774 (|x| ≤ 2π), with x = v/65536,
     |sin(v)/65536 − Real.sin x| ≤ 4 ulp + |arcsin (sin x)|^9/9!     (and the same for cos)
  proved from  (1) the analytic range reduction for all arguments (Proofs/SinReduce.lean),
               (2) a kernel-checked enumeration of the polynomial at all 205 887 reduced arguments
                   (Check/SinW*.lean, 52 `decide +kernel` chunks, Nat-only Taylor enclosure of Real.sin),
               (3) real analysis: sin(x + nπ), |sin a − sin b| ≤ |a − b|, arcsin∘sin, bounds on π (Real/).
  Range [-1, 1] and exact periodicity hold for every |v| < 2^62.
-/
import FixedMath.Proofs.SinReduce
import FixedMath.Real.SinWSound
import FixedMath.Real.Reduce
import FixedMath.Check.SinWAll

namespace FixedMath
open Gen R Chk

theorem natAbs_cast_nonneg (w : Int) (h : 0 ≤ w) : ((w.natAbs : ℕ) : ℝ) = (w : ℝ) := by
  rw [← Int.cast_natCast, Int.natAbs_of_nonneg h]
theorem natAbs_cast_neg (w : Int) (h : w < 0) : ((w.natAbs : ℕ) : ℝ) = -(w : ℝ) := by
  rw [← Int.cast_natCast, Int.ofNat_natAbs_of_nonpos (by omega), Int.cast_neg]

/-- the kernel-checked fact at one reduced argument, as a statement about `Real.sin` -/
theorem sinPoly_acc (w : Int) (h1 : -102943 ≤ w) (h2 : w ≤ 102943) :
    ∃ p : Int, sinPoly w = .ok p ∧ -65536 ≤ p ∧ p ≤ 65536 ∧
      |(p : ℝ) / 65536 - Real.sin ((w : ℝ) / 65536)| ≤ (11 / 5) / 65536 + (((w.natAbs - 12 : ℕ) : ℝ) / 65536) ^ 9 / 362880 := by
  have hc := SinW_all w (by omega) (by omega)
  unfold checkW at hc
  have hna : ¬ (w.natAbs > 102943) := by omega
  rw [if_neg hna] at hc
  cases hp : sinPoly w with
  | error e => rw [hp] at hc; simp at hc
  | ok p =>
    rw [hp] at hc
    simp only [Bool.and_eq_true, Nat.ble_eq] at hc
    obtain ⟨hr, ha⟩ := hc
    refine ⟨p, rfl, by omega, by omega, ?_⟩
    have hs := accSinW_sound _ _ _ ha
    by_cases hw : w < 0
    · -- sin is odd
      have hn : ((w.natAbs : ℕ) : ℝ) = -(w : ℝ) := natAbs_cast_neg w hw
      rw [hn] at hs
      have hsin : Real.sin (-(w : ℝ) / 65536) = -Real.sin ((w : ℝ) / 65536) := by
        rw [neg_div, Real.sin_neg]
      rw [hsin] at hs
      by_cases hpn : p < 0
      · have hpm : ((p.natAbs : ℕ) : ℝ) = -(p : ℝ) := natAbs_cast_neg p hpn
        simp only [hpn, hw, decide_true, bne_self_eq_false, Bool.false_eq_true, if_false, hpm] at hs
        have e : -(p : ℝ) / 65536 - -Real.sin ((w : ℝ) / 65536) = -((p : ℝ) / 65536 - Real.sin ((w : ℝ) / 65536)) := by ring
        rw [e, abs_neg] at hs
        exact hs
      · have hpm : ((p.natAbs : ℕ) : ℝ) = (p : ℝ) := natAbs_cast_nonneg p (by omega)
        simp only [hpn, hw, decide_true, decide_false, bne_iff_ne, ne_eq, Bool.false_eq_true, not_false_eq_true, if_true, hpm] at hs
        have e : -(p : ℝ) / 65536 - -Real.sin ((w : ℝ) / 65536) = -((p : ℝ) / 65536 - Real.sin ((w : ℝ) / 65536)) := by ring
        rw [e, abs_neg] at hs
        exact hs
    · have hn : ((w.natAbs : ℕ) : ℝ) = (w : ℝ) := natAbs_cast_nonneg w (by omega)
      rw [hn] at hs
      by_cases hpn : p < 0
      · have hpm : ((p.natAbs : ℕ) : ℝ) = -(p : ℝ) := natAbs_cast_neg p hpn
        simp only [hpn, hw, decide_true, decide_false, bne_iff_ne, ne_eq, Bool.true_eq_false, not_false_eq_true, if_true, hpm, neg_neg] at hs
        exact hs
      · have hpm : ((p.natAbs : ℕ) : ℝ) = (p : ℝ) := natAbs_cast_nonneg p (by omega)
        simp only [hpn, hw, decide_false, bne_self_eq_false, Bool.false_eq_true, if_false, hpm] at hs
        exact hs

/-- from the bound at the reduced argument to a bound against a target `X = sin (w/65536 + ε)`, `|ε| ≤ E ≤ 4 ulp`:
    the Lipschitz term `E` is added and the radius term is expressed through `|arcsin X|` -/
theorem acc_core (w p : Int) (X ε E : ℝ) (h1 : -102943 ≤ w) (h2 : w ≤ 102943)
    (hX : X = Real.sin ((w : ℝ) / 65536 + ε)) (hε : |ε| ≤ E) (hE : E ≤ 4 / 65536)
    (hacc : |(p : ℝ) / 65536 - Real.sin ((w : ℝ) / 65536)| ≤ (11 / 5) / 65536 + (((w.natAbs - 12 : ℕ) : ℝ) / 65536) ^ 9 / 362880) :
    |(p : ℝ) / 65536 - X| ≤ (11 / 5) / 65536 + E + |Real.arcsin X| ^ 9 / 362880 := by
  have hE0 : 0 ≤ E := le_trans (abs_nonneg ε) hε
  have hlip := Real.abs_sin_sub_sin_le ((w : ℝ) / 65536) ((w : ℝ) / 65536 + ε)
  have e1 : (w : ℝ) / 65536 - ((w : ℝ) / 65536 + ε) = -ε := by ring
  rw [e1, abs_neg] at hlip
  have hwabs : |(w : ℝ)| ≤ 102943 := by
    rw [abs_le]; constructor
    · have : ((-102943 : ℤ) : ℝ) ≤ (w : ℝ) := by exact_mod_cast h1
      simpa using this
    · exact_mod_cast h2
  have hd1 := delta1_bounds
  set z : ℝ := (w : ℝ) / 65536 + ε with hz
  have hzabs : |z| ≤ Real.pi / 2 + E := by
    calc |z| ≤ |(w : ℝ) / 65536| + |ε| := abs_add_le _ _
      _ ≤ 102943 / 65536 + E := by
          have : |(w : ℝ) / 65536| = |(w : ℝ)| / 65536 := by rw [abs_div]; norm_num
          rw [this]; gcongr
      _ ≤ Real.pi / 2 + E := by
          have := hd1.2
          norm_num at this ⊢
          linarith
  have hr := abs_arcsin_sin_ge z E hE0 (by linarith) hzabs
  rw [← hX] at hr
  have hzlow : |(w : ℝ) / 65536| - |ε| ≤ |z| := by
    have := abs_sub_abs_le_abs_sub ((w : ℝ) / 65536) (-ε)
    simp only [sub_neg_eq_add, abs_neg] at this
    exact this
  have hm : (((w.natAbs - 12 : ℕ) : ℝ)) / 65536 ≤ |Real.arcsin X| := by
    have hna : ((w.natAbs : ℕ) : ℝ) = |(w : ℝ)| := by
      rw [← Int.cast_abs, Int.abs_eq_natAbs]; simp
    by_cases h4 : w.natAbs ≤ 12
    · have : w.natAbs - 12 = 0 := by omega
      rw [this]; simp
    · have : ((w.natAbs - 12 : ℕ) : ℝ) = |(w : ℝ)| - 12 := by
        rw [Nat.cast_sub (by omega), hna]; norm_num
      rw [this]
      have : |(w : ℝ) / 65536| = |(w : ℝ)| / 65536 := by rw [abs_div]; norm_num
      rw [this] at hzlow
      have : (|(w : ℝ)| - 12) / 65536 = |(w : ℝ)| / 65536 - 12 / 65536 := by ring
      rw [this]
      linarith
  have hm0 : (0 : ℝ) ≤ ((w.natAbs - 12 : ℕ) : ℝ) / 65536 := by positivity
  have htri : |(p : ℝ) / 65536 - X| ≤ |(p : ℝ) / 65536 - Real.sin ((w : ℝ) / 65536)| + |Real.sin ((w : ℝ) / 65536) - X| := by
    have := abs_sub_le ((p : ℝ) / 65536) (Real.sin ((w : ℝ) / 65536)) X
    exact this
  rw [hX] at htri
  rw [hX]
  have : (((w.natAbs - 12 : ℕ) : ℝ) / 65536) ^ 9 / 362880 ≤ |Real.arcsin (Real.sin z)| ^ 9 / 362880 := by
    rw [← hX]; gcongr
  linarith

/-- accuracy of `sin v` against the sine of ANY real angle θ within `R` of `v/65536` (R = 0 for C09, the
    truncation error of the degree conversion for C20) -/
theorem sin_acc_at (v : Int) (θ R E : ℝ) (h1 : -520000 ≤ v) (h2 : v ≤ 520000)
    (hθ : |θ - (v : ℝ) / 65536| ≤ R) (hE1 : 3 * (636 / 100000000) + R ≤ E) (hE2 : E ≤ 4 / 65536) :
    ∃ s : Int, (sin v ⇓ s) ∧
      |(s : ℝ) / 65536 - Real.sin θ| ≤ (11 / 5) / 65536 + E + |Real.arcsin (Real.sin θ)| ^ 9 / 362880 := by
  obtain ⟨w, m, hs, hw1, hw2, hm1, hm2, hrel⟩ := sin_reduce_small v h1 h2
  obtain ⟨p, hp, _, _, hacc⟩ := sinPoly_acc w hw1 hw2
  refine ⟨p, by rw [hs, hp], ?_⟩
  obtain ⟨ε, hε, hsin⟩ := sin_shift v w m (θ - (v : ℝ) / 65536) hrel
  have e : (v : ℝ) / 65536 + (θ - (v : ℝ) / 65536) = θ := by ring
  rw [e] at hsin
  have hmabs : |(m : ℝ)| ≤ 3 := by
    rw [abs_le]; constructor
    · have : ((-3 : ℤ) : ℝ) ≤ (m : ℝ) := by exact_mod_cast hm1
      simpa using this
    · exact_mod_cast hm2
  have hd := delta0_bounds
  have hε' : |ε| ≤ E := by
    have : |(m : ℝ)| * (Real.pi - 205887 / 65536) ≤ 3 * (636 / 100000000) := by
      apply mul_le_mul hmabs (le_of_lt hd.2) (le_of_lt hd.1) (by norm_num)
    linarith
  exact acc_core w p _ ε E hw1 hw2 hsin hε' hE2 hacc

/-- the same for `cos v` -/
theorem cos_acc_at (v : Int) (θ R E : ℝ) (h1 : -411774 ≤ v) (h2 : v ≤ 411774)
    (hθ : |θ - (v : ℝ) / 65536| ≤ R) (hE1 : 3 * (636 / 100000000) + 45 / 10000000 + R ≤ E) (hE2 : E ≤ 4 / 65536) :
    ∃ c : Int, (cos v ⇓ c) ∧
      |(c : ℝ) / 65536 - Real.cos θ| ≤ (11 / 5) / 65536 + E + |Real.arcsin (Real.cos θ)| ^ 9 / 362880 := by
  have hadd : add fixpidiv2 v = .ok (v + 102944) := by
    rw [add_closed fixpidiv2 v (by unfold fin fixpidiv2 lim_lowest lim_max; omega) (by unfold fin lim_lowest lim_max; omega)]
    unfold fixpidiv2 lim_max lim_lowest
    have c1 : ¬ (102944 + v > 9223372036854775806) := by omega
    have c2 : ¬ (102944 + v < -9223372036854775806) := by omega
    rw [if_neg c1, if_neg c2]
    apply congrArg Except.ok; omega
  have hd1 := delta1_bounds
  -- cos θ = sin (θ + π/2), and θ + π/2 is within R + δ1 of (v + 102944)/65536
  have hθ' : |(θ + Real.pi / 2) - ((v + 102944 : ℤ) : ℝ) / 65536| ≤ R + 45 / 10000000 := by
    have e : (θ + Real.pi / 2) - ((v + 102944 : ℤ) : ℝ) / 65536 = (θ - (v : ℝ) / 65536) + (Real.pi / 2 - 102944 / 65536) := by
      push_cast; ring
    rw [e]
    have hρ : |Real.pi / 2 - 102944 / 65536| ≤ 45 / 10000000 := by
      rw [abs_le]; constructor <;> linarith [hd1.1, hd1.2]
    exact le_trans (abs_add_le _ _) (add_le_add hθ hρ)
  obtain ⟨s, hs, hacc⟩ := sin_acc_at (v + 102944) (θ + Real.pi / 2) (R + 45 / 10000000) E (by omega) (by omega) hθ' (by linarith) hE2
  rw [Real.sin_add_pi_div_two] at hacc
  exact ⟨s, by unfold cos; rw [hadd]; simp only [bind, Except.bind]; exact hs, hacc⟩

theorem C09_sin_acc (v : Int) (h1 : -411774 ≤ v) (h2 : v ≤ 411774) :
    ∃ s : Int, (sin v ⇓ s) ∧
      |(s : ℝ) / 65536 - Real.sin ((v : ℝ) / 65536)| ≤ 4 / 65536 + |Real.arcsin (Real.sin ((v : ℝ) / 65536))| ^ 9 / 362880 := by
  obtain ⟨s, hs, h⟩ := sin_acc_at v ((v : ℝ) / 65536) 0 ((156 / 100) / 65536) (by omega) (by omega)
    (by rw [sub_self, abs_zero]) (by norm_num) (by norm_num)
  exact ⟨s, hs, by linarith⟩

theorem C09_cos_acc (v : Int) (h1 : -411774 ≤ v) (h2 : v ≤ 411774) :
    ∃ c : Int, (cos v ⇓ c) ∧
      |(c : ℝ) / 65536 - Real.cos ((v : ℝ) / 65536)| ≤ 4 / 65536 + |Real.arcsin (Real.cos ((v : ℝ) / 65536))| ^ 9 / 362880 := by
  obtain ⟨c, hc, h⟩ := cos_acc_at v ((v : ℝ) / 65536) 0 ((156 / 100) / 65536) h1 h2
    (by rw [sub_self, abs_zero]) (by norm_num) (by norm_num)
  exact ⟨c, hc, by linarith⟩

/-- both results lie in [-1, 1] for every argument below 2^62 -/
theorem C09_range (v : Int) (h1 : -4611686018427387904 < v) (h2 : v < 4611686018427387904) :
    ∃ s c : Int, (sin v ⇓ s) ∧ (cos v ⇓ c) ∧ -65536 ≤ s ∧ s ≤ 65536 ∧ -65536 ≤ c ∧ c ≤ 65536 := by
  obtain ⟨w, m, hs, hw1, hw2, _⟩ := sin_reduce v (by omega) (by omega)
  obtain ⟨p, hp, hp1, hp2, _⟩ := sinPoly_acc w hw1 hw2
  have hadd : add fixpidiv2 v = .ok (v + 102944) := by
    rw [add_closed fixpidiv2 v (by unfold fin fixpidiv2 lim_lowest lim_max; omega) (by unfold fin lim_lowest lim_max; omega)]
    unfold fixpidiv2 lim_max lim_lowest
    have c1 : ¬ (102944 + v > 9223372036854775806) := by omega
    have c2 : ¬ (102944 + v < -9223372036854775806) := by omega
    rw [if_neg c1, if_neg c2]
    apply congrArg Except.ok; omega
  obtain ⟨w', m', hs', hw1', hw2', _⟩ := sin_reduce (v + 102944) (by omega) (by omega)
  obtain ⟨p', hp', hp1', hp2', _⟩ := sinPoly_acc w' hw1' hw2'
  refine ⟨p, p', by rw [hs, hp], by unfold cos; rw [hadd]; simp only [bind, Except.bind]; rw [hs', hp'], hp1, hp2, hp1', hp2'⟩

/-- exact periodicity with period 2·phi, for all arguments below 2^62 and every integer k -/
theorem C09_periodic (v k : Int) (h1 : -4611686018427387904 < v) (h2 : v < 4611686018427387904)
    (h3 : -4611686018427387904 < v + k * (2 * phi)) (h4 : v + k * (2 * phi) < 4611686018427387904) :
    sin (v + k * (2 * phi)) = sin v ∧ cos (v + k * (2 * phi)) = cos v := by
  have e : v + k * (2 * phi) = v + k * 411774 := by unfold phi; ring
  rw [e] at h3 h4 ⊢
  refine ⟨sin_periodic v k (by omega) (by omega) (by omega) (by omega), ?_⟩
  have hadd : ∀ x : Int, -4611686018427387904 < x → x < 4611686018427387904 → add fixpidiv2 x = .ok (x + 102944) := by
    intro x hx1 hx2
    rw [add_closed fixpidiv2 x (by unfold fin fixpidiv2 lim_lowest lim_max; omega) (by unfold fin lim_lowest lim_max; omega)]
    unfold fixpidiv2 lim_max lim_lowest
    have c1 : ¬ (102944 + x > 9223372036854775806) := by omega
    have c2 : ¬ (102944 + x < -9223372036854775806) := by omega
    rw [if_neg c1, if_neg c2]
    apply congrArg Except.ok; omega
  unfold cos
  rw [hadd v h1 h2, hadd _ h3 h4]
  simp only [bind, Except.bind]
  have : v + k * 411774 + 102944 = (v + 102944) + k * 411774 := by ring
  rw [this]
  exact sin_periodic (v + 102944) k (by omega) (by omega) (by omega) (by omega)

example : (-411774 : Int) ≤ 205887 ∧ (205887 : Int) ≤ 411774 := by omega

end FixedMath

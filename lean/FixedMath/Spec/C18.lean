/-
  C18  Shifts scale by powers of two, keep the sign, and reject negative counts; & is bitwise and.
-/
import FixedMath.Proofs.Arith

namespace FixedMath
open Gen

/-- `x >> r = ⌊x / 2^r⌋` (Lean's `Int` division by a positive number is the floor) -/
theorem C18_shr (x r : Int) (_hx : fin x) (h0 : 0 ≤ r) (h1 : r ≤ 63) :
    shr x r ⇓ x / 2 ^ r.toNat := by
  unfold shr shr64
  have : 0 ≤ r ∧ r < 64 := ⟨h0, by omega⟩
  simp only [ge_iff_le, h0, if_true, this, and_self]
  rfl

theorem C18_shl (x r : Int) (hx : fin x) (h0 : 0 ≤ r) (h1 : r ≤ 63) :
    ∃ s, (shl x r ⇓ s) ∧ (fin (x * 2 ^ r.toNat) → s = x * 2 ^ r.toNat) ∧
      (¬ fin (x * 2 ^ r.toNat) → ¬ (0 < x ∧ s < 0) ∧ ¬ (x < 0 ∧ 0 < s)) := by
  unfold fin lim_lowest lim_max at *
  refine ⟨_, shl_spec x r (by omega) (by omega) h0 h1, ?_, ?_⟩
  · have hq : (0 : Int) < 2 ^ r.toNat := by positivity
    have hs1 : x ≥ 0 → 0 ≤ x * 2 ^ r.toNat := fun h => Int.mul_nonneg h (by omega)
    have hs2 : ¬ x ≥ 0 → x * 2 ^ r.toNat < 0 := fun h => Int.mul_neg_of_neg_of_pos (by omega) hq
    generalize x * 2 ^ r.toNat = P at hs1 hs2 ⊢
    intro h
    split <;> rename_i hs
    · have := hs1 hs; omega
    · have := hs2 hs; omega
  · intro _
    constructor
    · rintro ⟨hp, hs⟩
      have : x ≥ 0 := by omega
      simp only [this, if_true] at hs
      omega
    · rintro ⟨hn, hs⟩
      have : ¬ x ≥ 0 := by omega
      simp only [this, if_false] at hs
      omega

theorem C18_neg_count (x r : Int) (h : r < 0) : (shr x r ⇓ lim_quiet_NaN) ∧ (shl x r ⇓ lim_quiet_NaN) := by
  unfold shr shl
  have : ¬ r ≥ 0 := by omega
  simp only [this, if_false]
  exact ⟨rfl, rfl⟩

/-- `x & y` is the bitwise and of the two's-complement (unsigned 64-bit) representations -/
theorem C18_and (x y : Int) :
    ∃ r, (band x y ⇓ r) ∧ toU64 r = (((toU64 x).toNat &&& (toU64 y).toNat : Nat) : Int) := by
  refine ⟨_, rfl, ?_⟩
  unfold and64 andU64
  have hx : (toU64 x).toNat < 2 ^ 64 := by unfold toU64 two64; omega
  have hle : (toU64 x).toNat &&& (toU64 y).toNat ≤ (toU64 x).toNat := Nat.and_le_left
  generalize ((toU64 x).toNat &&& (toU64 y).toNat) = m at hle ⊢
  unfold toU64 toI64 two64 two63
  simp only []
  split <;> omega

end FixedMath

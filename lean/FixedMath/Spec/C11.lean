/-
  C11  atan and atan2 are accurate, odd, bounded and quadrant-correct.

  atan, for EVERY finite argument (2^64 − 3 raw values, not only |x| < 2^31):
     |atan(v)/65536 − Real.arctan(v/65536)| ≤ 5·10⁻⁵,  atan(−v) = −atan(v),  |atan(v)| ≤ fixpidiv2.
  Proof: analytic composition.  arctan x = arctan c + arctan((x−c)/(1+xc)) (Mathlib) splits the error of a segment into
   (1) the segment constant, checked against Real.arctan through Taylor enclosures of sin/cos (kernel, 8 comparisons),
   (2) the polynomial kernel on z ∈ [0, 28672): −19/16 ≤ K(z) − 65536·arctan(z/65536) ≤ 2/16, K monotone with unit
       steps (kernel enumeration of all 28 672 arguments, Check/AtanK*.lean),
   (3) the truncations in z = ⌊(x−c)·2^16/(2^16 + ⌊x·c/2^16⌋)⌋: −1 < z − 65536·g ≤ g, and |arctan a − arctan b| ≤ |a − b|,
   (4) the clamp at 2^29: arctan x − arctan 2^29 ≤ 2^-29.
  atan2: every pair (y, x) with |y| < 2^31 and x any finite value: within 8·10⁻⁵ of the angle, sign, axes, (0,0) ↦ NaN.
  Quasi-monotonicity (`C11_atan_mono2`, every pair of finite arguments): x ≤ y ⇒ atan(x) ≤ atan(y) + 2.  Inside a
  segment the kernel argument is monotone up to one unit (`atanZ_almost_mono`, cross-multiplied monotonicity of
  (x−c)/(1+xc) against the two truncations) and the kernel has unit steps, so the result drops by at most 1; across
  segments the supremum of a segment (through its last argument, kernel-evaluated) is at most 2 above the segment
  constant of the next one; negative arguments by oddness.
-/
import FixedMath.Proofs.AtanReduce
import FixedMath.Real.AtanSound
import FixedMath.Real.Reduce
import FixedMath.Check.AtanKAll
import FixedMath.Spec.C03

namespace FixedMath
open Gen R Chk Real

/-- kernel facts for one argument -/
theorem K_facts (z : Int) (h0 : 0 ≤ z) (h1 : z < 28672) :
    ∃ k : Int, atanKernel 16 z = .ok k ∧ 0 ≤ k ∧
      (k : ℝ) - 2 / 16 ≤ 65536 * Real.arctan ((z : ℝ) / 65536) ∧
      65536 * Real.arctan ((z : ℝ) / 65536) ≤ (k : ℝ) + 19 / 16 ∧
      (z + 1 < 28672 → ∃ k' : Int, atanKernel 16 (z + 1) = .ok k' ∧ k ≤ k' ∧ k' ≤ k + 1) := by
  obtain ⟨n, rfl⟩ : ∃ n : Nat, z = (n : Int) := ⟨z.toNat, by omega⟩
  have hc := AtanK_all n (by omega) (by omega)
  obtain ⟨k, a, b, c, d, e⟩ := checkAtanK_sound n (by omega) hc
  exact ⟨k, a, b, by simpa using c, by simpa using d, fun h => e (by omega)⟩

/-- the kernel is monotone on [0, 28672) -/
theorem K_mono (z : Int) (h0 : 0 ≤ z) : ∀ (d : Nat), z + d < 28672 →
    ∃ k k' : Int, atanKernel 16 z = .ok k ∧ atanKernel 16 (z + d) = .ok k' ∧ k ≤ k' := by
  intro d
  induction d with
  | zero =>
    intro h
    obtain ⟨k, hk, _⟩ := K_facts z h0 (by omega)
    exact ⟨k, k, hk, by simpa using hk, le_refl _⟩
  | succ d ih =>
    intro h
    obtain ⟨k, k', hk, hk', hle⟩ := ih (by push_cast at h ⊢; omega)
    obtain ⟨k1, hk1, _, _, _, hstep⟩ := K_facts (z + d) (by omega) (by push_cast at h ⊢; omega)
    obtain ⟨k2, hk2, h12, _⟩ := hstep (by push_cast at h ⊢; omega)
    have : k' = k1 := by rw [hk'] at hk1; exact Except.ok.inj hk1
    refine ⟨k, k2, hk, ?_, by omega⟩
    have e : z + ((d + 1 : ℕ) : Int) = z + d + 1 := by push_cast; ring
    rw [e]; exact hk2

theorem K_le (z zmax kmax : Int) (h0 : 0 ≤ z) (h1 : z ≤ zmax) (h2 : zmax < 28672) (hm : atanKernel 16 zmax = .ok kmax) :
    ∃ k : Int, atanKernel 16 z = .ok k ∧ 0 ≤ k ∧ k ≤ kmax := by
  obtain ⟨k, k', hk, hk', hle⟩ := K_mono z h0 (zmax - z).toNat (by omega)
  have e : z + ((zmax - z).toNat : Int) = zmax := by omega
  rw [e, hm] at hk'
  have := Except.ok.inj hk'
  obtain ⟨k0, hk0, hk00, _⟩ := K_facts z h0 (by omega)
  have : k = k0 := by rw [hk] at hk0; exact Except.ok.inj hk0
  exact ⟨k, hk, by omega, by omega⟩

/-- the four segment constants against Real.arctan, within one ulp (kernel-checked) -/
theorem seg_consts :
    (atanLe 16 27029 28672 && atanGe 16 27027 28672 && atanLe 16 39473 45056 && atanGe 16 39471 45056 &&
     atanLe 16 57077 77824 && atanGe 16 57075 77824 && atanLe 16 77430 159744 && atanGe 16 77428 159744) = true := by
  decide +kernel

theorem seg_const_bound (atanc c : Nat) (h1 : atanLe 16 (atanc + 1) c = true) (h2 : atanGe 16 (atanc - 1) c = true) (hpos : 1 ≤ atanc) :
    |(atanc : ℝ) - 65536 * Real.arctan ((c : ℝ) / 65536)| ≤ 1 := by
  have a := atanLe_sound 16 (atanc + 1) c h1
  have b := atanGe_sound 16 (atanc - 1) c h2
  have e16 : (2 : ℝ) ^ 16 = 65536 := by norm_num
  rw [e16] at a b
  rw [Nat.cast_sub hpos] at b
  push_cast at a b
  rw [abs_le]
  constructor
  · have : 65536 * Real.arctan ((c : ℝ) / 65536) ≤ (atanc : ℝ) + 1 := by
      have := mul_le_mul_of_nonneg_left a (show (0 : ℝ) ≤ 65536 by norm_num)
      linarith
    linarith
  · have : (atanc : ℝ) - 1 ≤ 65536 * Real.arctan ((c : ℝ) / 65536) := by
      have := mul_le_mul_of_nonneg_left b (show (0 : ℝ) ≤ 65536 by norm_num)
      linarith
    linarith

/-- real analysis of one segment: from the integer bracket of z to the error of `atanc + k` -/
theorem seg_real (X C z D0 atanc k : ℝ) (hC : 0 < C) (hX : C ≤ X)
    (hD1 : D0 * 65536 ≤ X * C) (hD2 : X * C < (D0 + 1) * 65536) (hD0 : 0 ≤ D0)
    (hz0 : 0 ≤ z) (hz1 : z * (65536 + D0) ≤ (X - C) * 65536) (hz2 : (X - C) * 65536 < (z + 1) * (65536 + D0))
    (hzmax : z + 1 ≤ 28672)
    (hc : |atanc - 65536 * Real.arctan (C / 65536)| ≤ 1)
    (hk1 : k - 2 / 16 ≤ 65536 * Real.arctan (z / 65536)) (hk2 : 65536 * Real.arctan (z / 65536) ≤ k + 19 / 16) :
    -(32 / 10) ≤ atanc + k - 65536 * Real.arctan (X / 65536) ∧ atanc + k - 65536 * Real.arctan (X / 65536) ≤ 3 := by
  have hXpos : 0 < X := lt_of_lt_of_le hC hX
  set g : ℝ := (X / 65536 - C / 65536) / (1 + X / 65536 * (C / 65536)) with hg
  have hsplit := arctan_split (X / 65536) (C / 65536) (by positivity) (by positivity)
  rw [← hg] at hsplit
  -- 65536 g = N / Ds
  have hXC : 0 < X * C := mul_pos hXpos hC
  have hDs : 0 < 65536 + X * C / 65536 := by positivity
  have hgN : 65536 * g = (X - C) * 65536 / (65536 + X * C / 65536) := by
    rw [hg]; field_simp
  have hg0 : 0 ≤ g := by
    rw [hg]; apply div_nonneg
    · have : C / 65536 ≤ X / 65536 := by gcongr
      linarith
    · positivity
  have hD : 0 < 65536 + D0 := by linarith
  -- D ≤ Ds < D + 1
  have hDle : 65536 + D0 ≤ 65536 + X * C / 65536 := by
    have : D0 ≤ X * C / 65536 := by rw [le_div_iff₀ (by norm_num)]; exact hD1
    linarith
  have hDlt : 65536 + X * C / 65536 < 65536 + D0 + 1 := by
    have : X * C / 65536 < D0 + 1 := by rw [div_lt_iff₀ (by norm_num)]; exact hD2
    linarith
  set N : ℝ := (X - C) * 65536 with hN
  have hN0 : 0 ≤ N := by rw [hN]; nlinarith
  -- lower: z > 65536 g - 1
  have hlow : 65536 * g < z + 1 := by
    rw [hgN, div_lt_iff₀ hDs]
    calc N < (z + 1) * (65536 + D0) := hz2
      _ ≤ (z + 1) * (65536 + X * C / 65536) := by gcongr
  have hgsmall : g < 28672 / 65536 := by
    have : 65536 * g < 28672 := lt_of_lt_of_le hlow hzmax
    linarith
  -- upper: z ≤ 65536 g + g
  have hup : z ≤ 65536 * g + g := by
    have h1 : z ≤ N / (65536 + D0) := by rw [le_div_iff₀ hD]; exact hz1
    have h2 : N / (65536 + D0) - N / (65536 + X * C / 65536) ≤ g := by
      have e : N / (65536 + D0) - N / (65536 + X * C / 65536)
          = N * ((65536 + X * C / 65536) - (65536 + D0)) / ((65536 + D0) * (65536 + X * C / 65536)) := by
        field_simp
      rw [e]
      have hdiff : (65536 + X * C / 65536) - (65536 + D0) ≤ 1 := by linarith
      have hdiff0 : 0 ≤ (65536 + X * C / 65536) - (65536 + D0) := by linarith
      calc N * ((65536 + X * C / 65536) - (65536 + D0)) / ((65536 + D0) * (65536 + X * C / 65536))
          ≤ N * 1 / ((65536 + D0) * (65536 + X * C / 65536)) := by gcongr
        _ = (N / (65536 + X * C / 65536)) / (65536 + D0) := by field_simp
        _ = 65536 * g / (65536 + D0) := by rw [hgN]
        _ ≤ 65536 * g / 65536 := by
            apply div_le_div_of_nonneg_left (by positivity) (by norm_num) (by linarith)
        _ = g := by ring
    have : N / (65536 + X * C / 65536) = 65536 * g := hgN.symm
    linarith
  -- Lipschitz
  have hlip := arctan_lipschitz (z / 65536) g
  have hzg : |z / 65536 - g| ≤ 1 / 65536 := by
    rw [abs_le]; constructor
    · have : 65536 * g - 1 < z := by linarith
      have : g - 1 / 65536 < z / 65536 := by
        rw [lt_div_iff₀ (by norm_num)]; linarith
      linarith
    · have : z / 65536 ≤ g + g / 65536 := by
        rw [div_le_iff₀ (by norm_num)]; linarith
      have : g / 65536 ≤ 1 / 65536 := by
        apply div_le_div_of_nonneg_right _ (by norm_num)
        linarith
      linarith
  have hd := le_trans hlip hzg
  rw [abs_le] at hd hc
  have e : atanc + k - 65536 * Real.arctan (X / 65536)
      = (atanc - 65536 * Real.arctan (C / 65536)) + (k - 65536 * Real.arctan (z / 65536))
        + 65536 * (Real.arctan (z / 65536) - Real.arctan g) := by
    rw [hsplit]; ring
  rw [e]
  constructor <;> nlinarith [hd.1, hd.2, hc.1, hc.2]

/-- one segment, integer and real side together -/
theorem seg_acc (atanc c : Int) (x : Int) (hc0 : 0 < c) (hc1 : c ≤ 159744) (hx0 : c ≤ x) (hx1 : x ≤ 35184372088832)
    (hz : atanZ c x < 28672) (hconst : |(atanc : ℝ) - 65536 * Real.arctan ((c : ℝ) / 65536)| ≤ 1) (hab : 0 ≤ atanc ∧ atanc ≤ 100000) :
    ∃ k : Int, atanKernel 16 (atanZ c x) = .ok k ∧ 0 ≤ k ∧ atanSum 16 atanc c x = .ok (atanc + k) ∧
      -(32 / 10) ≤ ((atanc + k : ℤ) : ℝ) - 65536 * Real.arctan ((x : ℝ) / 65536) ∧
      ((atanc + k : ℤ) : ℝ) - 65536 * Real.arctan ((x : ℝ) / 65536) ≤ 3 := by
  obtain ⟨hz0, hb1, hb2⟩ := atanZ_bracket c x (by omega) hx0
  obtain ⟨k, hk, hk0, hk1, hk2, _⟩ := K_facts (atanZ c x) hz0 hz
  have hkb : k ≤ 28672 := by
    obtain ⟨k', hk', _, hle⟩ := K_le (atanZ c x) 28671 27026 hz0 (by omega) (by omega) (by decide +kernel)
    have : k = k' := by rw [hk] at hk'; exact Except.ok.inj hk'
    omega
  refine ⟨k, hk, hk0, ?_, ?_⟩
  · rw [atanSum_eq atanc c x (by omega) (by omega) hx0 hx1, hk]
    simp only [bind, Except.bind]
    exact chk64_ok _ (by omega) (by omega)
  · have hxc0 : 0 ≤ x * c := Int.mul_nonneg (by omega) (by omega)
    have hD1 := Int.ediv_mul_le (x * c) (show (65536 : Int) ≠ 0 by omega)
    have hD2 := Int.lt_ediv_add_one_mul_self (x * c) (show (0 : Int) < 65536 by omega)
    have hD0 : 0 ≤ x * c / 65536 := by omega
    have r := seg_real (x : ℝ) (c : ℝ) ((atanZ c x : ℤ) : ℝ) ((x * c / 65536 : ℤ) : ℝ) (atanc : ℝ) (k : ℝ)
      (by exact_mod_cast hc0) (by exact_mod_cast hx0)
      (by have : ((x * c / 65536 * 65536 : ℤ) : ℝ) ≤ ((x * c : ℤ) : ℝ) := by exact_mod_cast hD1
          push_cast at this; exact this)
      (by have : ((x * c : ℤ) : ℝ) < (((x * c / 65536 + 1) * 65536 : ℤ) : ℝ) := by exact_mod_cast hD2
          push_cast at this; exact this)
      (by exact_mod_cast hD0) (by exact_mod_cast hz0)
      (by have : ((atanZ c x * (65536 + x * c / 65536) : ℤ) : ℝ) ≤ (((x - c) * 65536 : ℤ) : ℝ) := by exact_mod_cast hb1
          push_cast at this; exact this)
      (by have : (((x - c) * 65536 : ℤ) : ℝ) < (((atanZ c x + 1) * (65536 + x * c / 65536) : ℤ) : ℝ) := by exact_mod_cast hb2
          push_cast at this; exact this)
      (by have : ((atanZ c x + 1 : ℤ) : ℝ) ≤ ((28672 : ℤ) : ℝ) := by exact_mod_cast (show atanZ c x + 1 ≤ 28672 by omega)
          push_cast at this; exact this)
      hconst hk1 hk2
    push_cast
    exact r

/-- the kernel argument stays below 7/16 in every segment -/
theorem z_lt_seg1 (x : Int) (h0 : 28672 ≤ x) (h1 : x < 45056) : atanZ 28672 x < 28672 ∧ atanZ 28672 x ≤ 12597 := by
  obtain ⟨hz0, hb1, _⟩ := atanZ_bracket 28672 x (by omega) h0
  have hD : 0 ≤ 65536 + x * 28672 / 65536 := by omega
  constructor
  · by_contra hcon
    push Not at hcon
    have := Int.mul_le_mul_of_nonneg_right hcon hD
    omega
  · by_contra hcon
    push Not at hcon
    have hc2 : 12598 ≤ atanZ 28672 x := by omega
    have := Int.mul_le_mul_of_nonneg_right hc2 hD
    omega
theorem z_lt_seg2 (x : Int) (h0 : 45056 ≤ x) (h1 : x < 77824) : atanZ 45056 x < 28672 ∧ atanZ 45056 x ≤ 18044 := by
  obtain ⟨hz0, hb1, _⟩ := atanZ_bracket 45056 x (by omega) h0
  have hD : 0 ≤ 65536 + x * 45056 / 65536 := by omega
  constructor
  · by_contra hcon
    push Not at hcon
    have := Int.mul_le_mul_of_nonneg_right hcon hD
    omega
  · by_contra hcon
    push Not at hcon
    have hc2 : 18045 ≤ atanZ 45056 x := by omega
    have := Int.mul_le_mul_of_nonneg_right hc2 hD
    omega
theorem z_lt_seg3 (x : Int) (h0 : 77824 ≤ x) (h1 : x < 159744) : atanZ 77824 x < 28672 ∧ atanZ 77824 x ≤ 21037 := by
  obtain ⟨hz0, hb1, _⟩ := atanZ_bracket 77824 x (by omega) h0
  have hD : 0 ≤ 65536 + x * 77824 / 65536 := by omega
  constructor
  · by_contra hcon
    push Not at hcon
    have := Int.mul_le_mul_of_nonneg_right hcon hD
    omega
  · by_contra hcon
    push Not at hcon
    have hc2 : 21038 ≤ atanZ 77824 x := by omega
    have := Int.mul_le_mul_of_nonneg_right hc2 hD
    omega
theorem z_lt_seg4 (x : Int) (h0 : 159744 ≤ x) : atanZ 159744 x < 28672 ∧ atanZ 159744 x ≤ 26886 := by
  obtain ⟨hz0, hb1, _⟩ := atanZ_bracket 159744 x (by omega) h0
  have hD : 0 ≤ 65536 + x * 159744 / 65536 := by omega
  constructor
  · by_contra hcon
    push Not at hcon
    have := Int.mul_le_mul_of_nonneg_right hcon hD
    omega
  · by_contra hcon
    push Not at hcon
    have hc2 : 26887 ≤ atanZ 159744 x := by omega
    have := Int.mul_le_mul_of_nonneg_right hc2 hD
    omega

/-- magnitude branch: accuracy and bound for every clamped argument -/
theorem atanMag_acc (x : Int) (h0 : 0 ≤ x) (h1 : x ≤ 35184372088832) :
    ∃ a : Int, atanMag x = .ok a ∧ 0 ≤ a ∧ a ≤ 102944 ∧
      -(32 / 10) ≤ (a : ℝ) - 65536 * Real.arctan ((x : ℝ) / 65536) ∧
      (a : ℝ) - 65536 * Real.arctan ((x : ℝ) / 65536) ≤ 3 := by
  have hsc := seg_consts
  simp only [Bool.and_eq_true] at hsc
  obtain ⟨⟨⟨⟨⟨⟨⟨c1a, c1b⟩, c2a⟩, c2b⟩, c3a⟩, c3b⟩, c4a⟩, c4b⟩ := hsc
  unfold atanMag
  by_cases hs0 : x < 28672
  · rw [if_pos hs0]
    obtain ⟨k, hk, hk0, hk1, hk2, _⟩ := K_facts x h0 hs0
    obtain ⟨k', hk', _, hle⟩ := K_le x 28671 27026 h0 (by omega) (by omega) (by decide +kernel)
    have : k = k' := by rw [hk] at hk'; exact Except.ok.inj hk'
    exact ⟨k, hk, hk0, by omega, by linarith, by linarith⟩
  · rw [if_neg hs0]
    by_cases hs1 : x < 45056
    · rw [if_pos hs1]
      obtain ⟨hz, hzm⟩ := z_lt_seg1 x (by omega) hs1
      obtain ⟨k, hk, hk0, hs, r1, r2⟩ := seg_acc 27028 28672 x (by omega) (by omega) (by omega) h1 hz
        (by simpa using seg_const_bound 27028 28672 c1a c1b (by omega)) (by omega)
      obtain ⟨k', hk', _, hle⟩ := K_le (atanZ 28672 x) 12597 12445 (atanZ_bracket 28672 x (by omega) (by omega)).1 hzm (by omega) (by decide +kernel)
      have : k = k' := by rw [hk] at hk'; exact Except.ok.inj hk'
      exact ⟨_, hs, by omega, by omega, r1, r2⟩
    · rw [if_neg hs1]
      by_cases hs2 : x < 77824
      · rw [if_pos hs2]
        obtain ⟨hz, hzm⟩ := z_lt_seg2 x (by omega) hs2
        obtain ⟨k, hk, hk0, hs, r1, r2⟩ := seg_acc 39472 45056 x (by omega) (by omega) (by omega) h1 hz
          (by simpa using seg_const_bound 39472 45056 c2a c2b (by omega)) (by omega)
        obtain ⟨k', hk', _, hle⟩ := K_le (atanZ 45056 x) 18044 17607 (atanZ_bracket 45056 x (by omega) (by omega)).1 hzm (by omega) (by decide +kernel)
        have : k = k' := by rw [hk] at hk'; exact Except.ok.inj hk'
        exact ⟨_, hs, by omega, by omega, r1, r2⟩
      · rw [if_neg hs2]
        by_cases hs3 : x < 159744
        · rw [if_pos hs3]
          obtain ⟨hz, hzm⟩ := z_lt_seg3 x (by omega) hs3
          obtain ⟨k, hk, hk0, hs, r1, r2⟩ := seg_acc 57076 77824 x (by omega) (by omega) (by omega) h1 hz
            (by simpa using seg_const_bound 57076 77824 c3a c3b (by omega)) (by omega)
          obtain ⟨k', hk', _, hle⟩ := K_le (atanZ 77824 x) 21037 20356 (atanZ_bracket 77824 x (by omega) (by omega)).1 hzm (by omega) (by decide +kernel)
          have : k = k' := by rw [hk] at hk'; exact Except.ok.inj hk'
          exact ⟨_, hs, by omega, by omega, r1, r2⟩
        · rw [if_neg hs3]
          obtain ⟨hz, hzm⟩ := z_lt_seg4 x (by omega)
          obtain ⟨k, hk, hk0, hs, r1, r2⟩ := seg_acc 77429 159744 x (by omega) (by omega) (by omega) h1 hz
            (by simpa using seg_const_bound 77429 159744 c4a c4b (by omega)) (by omega)
          obtain ⟨k', hk', _, hle⟩ := K_le (atanZ 159744 x) 26886 25513 (atanZ_bracket 159744 x (by omega) (by omega)).1 hzm (by omega) (by decide +kernel)
          have : k = k' := by rw [hk] at hk'; exact Except.ok.inj hk'
          exact ⟨_, hs, by omega, by omega, r1, r2⟩

/-- beyond the clamp arctan moves by less than 2^-29 -/
theorem arctan_clamp (a b : ℝ) (ha : 0 < a) (hab : a ≤ b) : 0 ≤ Real.arctan b - Real.arctan a ∧ Real.arctan b - Real.arctan a ≤ 1 / a := by
  have hs := arctan_split b a (by linarith) (le_of_lt ha)
  have hy0 : 0 ≤ (b - a) / (1 + b * a) := by apply div_nonneg <;> nlinarith
  have h1 : 0 ≤ Real.arctan ((b - a) / (1 + b * a)) := by
    rw [← Real.arctan_zero]; exact Real.arctan_strictMono.monotone hy0
  have h2 : Real.arctan ((b - a) / (1 + b * a)) ≤ (b - a) / (1 + b * a) := by
    have := arctan_lipschitz ((b - a) / (1 + b * a)) 0
    rw [Real.arctan_zero, sub_zero, sub_zero, abs_of_nonneg h1, abs_of_nonneg hy0] at this
    exact this
  have h3 : (b - a) / (1 + b * a) ≤ 1 / a := by
    rw [div_le_div_iff₀ (by nlinarith) ha]
    nlinarith
  constructor <;> linarith

/-- accuracy, sign and bound of atan for every non-negative finite argument -/
theorem atan_nonneg_acc (v : Int) (h0 : 0 ≤ v) (h1 : v ≤ 9223372036854775807) :
    ∃ a : Int, atan v = .ok a ∧ 0 ≤ a ∧ a ≤ 102944 ∧
      |(a : ℝ) / 65536 - Real.arctan ((v : ℝ) / 65536)| ≤ 5 / 100000 := by
  rw [atan_nonneg v h0]
  unfold atanClamp
  by_cases hcl : v > 35184372088832
  · rw [if_pos hcl]
    obtain ⟨a, ha, a0, a1, r1, r2⟩ := atanMag_acc 35184372088832 (by omega) (by omega)
    refine ⟨a, ha, a0, a1, ?_⟩
    have hv : (35184372088832 : ℝ) ≤ (v : ℝ) := by exact_mod_cast (le_of_lt hcl)
    have hcl2 := arctan_clamp (35184372088832 / 65536) ((v : ℝ) / 65536) (by norm_num) (by gcongr)
    have e : ((35184372088832 : ℤ) : ℝ) / 65536 = 35184372088832 / 65536 := by norm_num
    rw [e] at r1 r2
    rw [abs_le]
    have hinv : (1 : ℝ) / (35184372088832 / 65536) ≤ 1 / 100000000 := by norm_num
    constructor
    · have : -(32 / 10) / 65536 ≤ (a : ℝ) / 65536 - Real.arctan (35184372088832 / 65536) := by
        have := div_le_div_of_nonneg_right r1 (show (0 : ℝ) ≤ 65536 by norm_num)
        have e2 : ((a : ℝ) - 65536 * Real.arctan (35184372088832 / 65536)) / 65536 = (a : ℝ) / 65536 - Real.arctan (35184372088832 / 65536) := by ring
        rw [e2] at this; exact this
      have hnum : -(5 / 100000 : ℝ) ≤ -(32 / 10) / 65536 - 1 / 100000000 := by norm_num
      linarith [hcl2.2]
    · have : (a : ℝ) / 65536 - Real.arctan (35184372088832 / 65536) ≤ 3 / 65536 := by
        have := div_le_div_of_nonneg_right r2 (show (0 : ℝ) ≤ 65536 by norm_num)
        have e2 : ((a : ℝ) - 65536 * Real.arctan (35184372088832 / 65536)) / 65536 = (a : ℝ) / 65536 - Real.arctan (35184372088832 / 65536) := by ring
        rw [e2] at this; exact this
      have hnum : (3 / 65536 : ℝ) ≤ 5 / 100000 := by norm_num
      linarith [hcl2.1]
  · rw [if_neg hcl]
    obtain ⟨a, ha, a0, a1, r1, r2⟩ := atanMag_acc v h0 (by omega)
    refine ⟨a, ha, a0, a1, ?_⟩
    rw [abs_le]
    have e2 : ((a : ℝ) - 65536 * Real.arctan ((v : ℝ) / 65536)) / 65536 = (a : ℝ) / 65536 - Real.arctan ((v : ℝ) / 65536) := by ring
    constructor
    · have := div_le_div_of_nonneg_right r1 (show (0 : ℝ) ≤ 65536 by norm_num)
      rw [e2] at this
      have hnum : -(5 / 100000 : ℝ) ≤ -(32 / 10) / 65536 := by norm_num
      linarith
    · have := div_le_div_of_nonneg_right r2 (show (0 : ℝ) ≤ 65536 by norm_num)
      rw [e2] at this
      have hnum : (3 / 65536 : ℝ) ≤ 5 / 100000 := by norm_num
      linarith

/-- C11, atan: accuracy, oddness, bound — for every finite argument -/
theorem C11_atan (v : Int) (hv : fin v) :
    ∃ a : Int, (atan v ⇓ a) ∧ (atan (-v) ⇓ -a) ∧ -fixpidiv2 ≤ a ∧ a ≤ fixpidiv2 ∧
      |(a : ℝ) / 65536 - Real.arctan ((v : ℝ) / 65536)| ≤ 5 / 100000 := by
  unfold fin lim_lowest lim_max at hv
  unfold fixpidiv2
  rcases Int.lt_trichotomy v 0 with hneg | hz | hpos
  · obtain ⟨a, ha, a0, a1, hacc⟩ := atan_nonneg_acc (-v) (by omega) (by omega)
    have hn := atan_neg (-v) a (by omega) (by omega) ha (by omega)
    rw [Int.neg_neg] at hn
    refine ⟨-a, hn, by rw [Int.neg_neg]; exact ha, by omega, by omega, ?_⟩
    have e : ((-a : ℤ) : ℝ) / 65536 - Real.arctan ((v : ℝ) / 65536) = -((a : ℝ) / 65536 - Real.arctan (((-v : ℤ) : ℝ) / 65536)) := by
      push_cast
      have : Real.arctan (-(v : ℝ) / 65536) = -Real.arctan ((v : ℝ) / 65536) := by rw [neg_div, Real.arctan_neg]
      rw [this]; ring
    rw [e, abs_neg]; exact hacc
  · subst hz
    obtain ⟨a, ha, a0, a1, hacc⟩ := atan_nonneg_acc 0 (by omega) (by omega)
    have h0 : atan 0 = .ok 0 := by decide
    have : a = 0 := by rw [h0] at ha; exact (Except.ok.inj ha).symm
    subst this
    exact ⟨0, h0, by simpa using h0, by omega, by omega, hacc⟩
  · obtain ⟨a, ha, a0, a1, hacc⟩ := atan_nonneg_acc v (by omega) (by omega)
    exact ⟨a, ha, atan_neg v a hpos (by omega) ha (by omega), by omega, by omega, hacc⟩

/-- atan with sign information, for every finite argument -/
theorem atan_full (q : Int) (hq : fin q) :
    ∃ a : Int, (atan q ⇓ a) ∧ (0 ≤ q → 0 ≤ a) ∧ (q ≤ 0 → a ≤ 0) ∧ -102944 ≤ a ∧ a ≤ 102944 ∧
      |(a : ℝ) / 65536 - Real.arctan ((q : ℝ) / 65536)| ≤ 5 / 100000 := by
  unfold fin lim_lowest lim_max at hq
  by_cases hn : 0 ≤ q
  · obtain ⟨a, ha, a0, a1, hacc⟩ := atan_nonneg_acc q hn (by omega)
    refine ⟨a, ha, fun _ => a0, ?_, by omega, a1, hacc⟩
    intro hle
    have : q = 0 := by omega
    subst this
    have h0 : atan 0 = .ok 0 := by decide
    rw [h0] at ha
    have := Except.ok.inj ha
    omega
  · obtain ⟨a, ha, a0, a1, hacc⟩ := atan_nonneg_acc (-q) (by omega) (by omega)
    have hnn := atan_neg (-q) a (by omega) (by omega) ha (by omega)
    rw [Int.neg_neg] at hnn
    refine ⟨-a, hnn, fun h => absurd h hn, fun _ => by omega, by omega, by omega, ?_⟩
    have e : ((-a : ℤ) : ℝ) / 65536 - Real.arctan ((q : ℝ) / 65536) = -((a : ℝ) / 65536 - Real.arctan (((-q : ℤ) : ℝ) / 65536)) := by
      push_cast
      have : Real.arctan (-(q : ℝ) / 65536) = -Real.arctan ((q : ℝ) / 65536) := by rw [neg_div, Real.arctan_neg]
      rw [this]; ring
    rw [e, abs_neg]; exact hacc

/-- the true angle of the point (x, y) in (−π, π], for (x, y) ≠ (0, 0) -/
noncomputable def angleR (y x : ℝ) : ℝ :=
  if x > 0 then Real.arctan (y / x)
  else if x < 0 then (if y ≥ 0 then Real.arctan (y / x) + π else Real.arctan (y / x) - π)
  else if y > 0 then π / 2 else -(π / 2)

/-- the fixed-point quotient is within one raw unit of the exact quotient -/
theorem quot_close (y x : Int) (hx : x ≠ 0) :
    |((Int.tdiv (y * 65536) x : ℤ) : ℝ) / 65536 - ((y : ℝ) / 65536) / ((x : ℝ) / 65536)| ≤ 1 / 65536 := by
  have herr := tdiv_err (y * 65536) x hx
  have hxr : (x : ℝ) ≠ 0 := by exact_mod_cast hx
  have h1 : |((Int.tdiv (y * 65536) x * x - y * 65536 : ℤ) : ℝ)| ≤ |(x : ℝ)| := by
    rw [← Int.cast_abs, ← Int.cast_abs]
    have : |Int.tdiv (y * 65536) x * x - y * 65536| ≤ |x| := by
      rw [Int.abs_eq_natAbs, Int.abs_eq_natAbs]; exact_mod_cast (le_of_lt herr)
    exact_mod_cast this
  push_cast at h1
  have e : ((Int.tdiv (y * 65536) x : ℤ) : ℝ) / 65536 - ((y : ℝ) / 65536) / ((x : ℝ) / 65536)
      = (((Int.tdiv (y * 65536) x : ℤ) : ℝ) * x - (y : ℝ) * 65536) / (65536 * x) := by
    field_simp
  rw [e, abs_div, abs_mul, abs_of_pos (by norm_num : (0 : ℝ) < 65536)]
  rw [div_le_div_iff₀ (by positivity) (by norm_num)]
  nlinarith [abs_nonneg (x : ℝ)]

/-- C11, atan2: accuracy against the true angle, sign, axes — for every y with |y| < 2^31 and every finite x -/
theorem C11_atan2 (y x : Int) (hy : -140737488355328 < y ∧ y < 140737488355328) (hx : fin x) (hne : ¬ (y = 0 ∧ x = 0)) :
    ∃ a : Int, (atan2 y x ⇓ a) ∧ ¬ isNaN a ∧
      |(a : ℝ) / 65536 - angleR ((y : ℝ) / 65536) ((x : ℝ) / 65536)| ≤ 8 / 100000 ∧
      (0 < y → 0 ≤ a) ∧ (y < 0 → a ≤ 0) ∧
      (x = 0 → 0 < y → a = fixpidiv2) ∧ (x = 0 → y < 0 → a = -fixpidiv2) ∧
      (y = 0 → 0 < x → a = 0) ∧ (y = 0 → x < 0 → a = phi) := by
  unfold fin lim_lowest lim_max at hx
  unfold atan2 fixpidiv2 phi
  have hd := delta0_bounds
  have hd1 := delta1_bounds
  rcases Int.lt_trichotomy x 0 with hxn | hx0 | hxp
  · -- x < 0
    have hxne : x ≠ 0 := by omega
    have c1 : ¬ x > 0 := by omega
    rw [if_neg c1, if_pos hxn]
    have hdiv := div_closed y x (by omega) (by omega)
    rw [if_pos ⟨hxne, hy.1, hy.2⟩] at hdiv
    rw [hdiv]
    simp only [bind, Except.bind]
    set q := Int.tdiv (y * 65536) x with hqd
    have hqb : q.natAbs ≤ (y * 65536).natAbs := Int.natAbs_tdiv_le_natAbs _ _
    have hqfin : fin q := by unfold fin lim_lowest lim_max; omega
    obtain ⟨a, ha, s1, s2, b1, b2, hacc⟩ := atan_full q hqfin
    rw [ha]
    simp only []
    have hqc := quot_close y x hxne
    rw [← hqd] at hqc
    have hlip := arctan_lipschitz ((q : ℝ) / 65536) (((y : ℝ) / 65536) / ((x : ℝ) / 65536))
    have hxr : (x : ℝ) / 65536 < 0 := by
      have : (x : ℝ) < 0 := by exact_mod_cast hxn
      apply div_neg_of_neg_of_pos this (by norm_num)
    by_cases hy0 : y ≥ 0
    · rw [if_pos hy0]
      have hq0 : q ≤ 0 := by
        have : 0 ≤ Int.tdiv (y * 65536) (-x) := Int.tdiv_nonneg (by omega) (by omega)
        rw [Int.tdiv_neg] at this; omega
      have hadd := add_closed a 205887 (by unfold fin lim_lowest lim_max; omega) (by unfold fin lim_lowest lim_max; omega)
      unfold lim_max lim_lowest at hadd
      rw [if_neg (by omega), if_neg (by omega)] at hadd
      refine ⟨a + 205887, hadd, by unfold isNaN lim_quiet_NaN; omega, ?_, fun _ => by have := s2 hq0; omega, fun h => by omega,
        fun h => by omega, fun h => by omega, fun _ h => by omega, ?_⟩
      · unfold angleR
        have hyr : (y : ℝ) / 65536 ≥ 0 := by
          have : (0 : ℝ) ≤ (y : ℝ) := by exact_mod_cast hy0
          positivity
        rw [if_neg (by linarith), if_pos hxr, if_pos hyr]
        have e : ((a + 205887 : ℤ) : ℝ) / 65536 - (Real.arctan ((y : ℝ) / 65536 / ((x : ℝ) / 65536)) + π)
            = ((a : ℝ) / 65536 - Real.arctan ((q : ℝ) / 65536)) + (Real.arctan ((q : ℝ) / 65536) - Real.arctan ((y : ℝ) / 65536 / ((x : ℝ) / 65536))) + (205887 / 65536 - π) := by
          push_cast; ring
        rw [e]
        have t3 : |(205887 / 65536 : ℝ) - π| ≤ 636 / 100000000 := by
          rw [abs_le]; constructor <;> linarith [hd.1, hd.2]
        have hl := le_trans hlip hqc
        calc _ ≤ |(a : ℝ) / 65536 - Real.arctan ((q : ℝ) / 65536)| + |Real.arctan ((q : ℝ) / 65536) - Real.arctan ((y : ℝ) / 65536 / ((x : ℝ) / 65536))| + |(205887 / 65536 : ℝ) - π| := abs_add_three _ _ _
          _ ≤ 5 / 100000 + 1 / 65536 + 636 / 100000000 := by linarith
          _ ≤ 8 / 100000 := by norm_num
      · intro hy00 _
        subst hy00
        have : q = 0 := by rw [hqd]; simp
        rw [this] at ha
        have h0 : atan 0 = .ok 0 := by decide
        rw [h0] at ha
        have := Except.ok.inj ha
        omega
    · rw [if_neg hy0]
      have hq0 : 0 ≤ q := by
        have : 0 ≤ Int.tdiv (-(y * 65536)) (-x) := Int.tdiv_nonneg (by omega) (by omega)
        rw [Int.neg_tdiv_neg] at this; exact this
      have hsub := sub_closed a 205887 (by unfold fin lim_lowest lim_max; omega) (by unfold fin lim_lowest lim_max; omega)
      unfold lim_max lim_lowest at hsub
      rw [if_neg (by omega), if_neg (by omega)] at hsub
      refine ⟨a - 205887, hsub, by unfold isNaN lim_quiet_NaN; omega, ?_, fun h => by omega, fun _ => by have := s1 hq0; omega,
        fun h => by omega, fun h => by omega, fun h => by omega, fun h => by omega⟩
      unfold angleR
      have hyr : ¬ ((y : ℝ) / 65536 ≥ 0) := by
        have : (y : ℝ) < 0 := by exact_mod_cast (by omega : y < 0)
        have : (y : ℝ) / 65536 < 0 := div_neg_of_neg_of_pos this (by norm_num)
        linarith
      rw [if_neg (by linarith), if_pos hxr, if_neg hyr]
      have e : ((a - 205887 : ℤ) : ℝ) / 65536 - (Real.arctan ((y : ℝ) / 65536 / ((x : ℝ) / 65536)) - π)
          = ((a : ℝ) / 65536 - Real.arctan ((q : ℝ) / 65536)) + (Real.arctan ((q : ℝ) / 65536) - Real.arctan ((y : ℝ) / 65536 / ((x : ℝ) / 65536))) + (π - 205887 / 65536) := by
        push_cast; ring
      rw [e]
      have t3 : |π - (205887 / 65536 : ℝ)| ≤ 636 / 100000000 := by
        rw [abs_le]; constructor <;> linarith [hd.1, hd.2]
      have hl := le_trans hlip hqc
      calc _ ≤ |(a : ℝ) / 65536 - Real.arctan ((q : ℝ) / 65536)| + |Real.arctan ((q : ℝ) / 65536) - Real.arctan ((y : ℝ) / 65536 / ((x : ℝ) / 65536))| + |π - (205887 / 65536 : ℝ)| := abs_add_three _ _ _
        _ ≤ 5 / 100000 + 1 / 65536 + 636 / 100000000 := by linarith
        _ ≤ 8 / 100000 := by norm_num
  · -- x = 0
    subst hx0
    have c1 : ¬ (0 : Int) > 0 := by omega
    have c2 : ¬ (0 : Int) < 0 := by omega
    rw [if_neg c1, if_neg c2]
    have hyne : y ≠ 0 := fun h => hne ⟨h, rfl⟩
    by_cases hyp : y > 0
    · rw [if_pos hyp]
      refine ⟨102944, rfl, by unfold isNaN lim_quiet_NaN; omega, ?_, fun _ => by omega, fun h => by omega, fun _ _ => rfl,
        fun _ h => by omega, fun h => by omega, fun h => by omega⟩
      unfold angleR
      have hyr : (y : ℝ) / 65536 > 0 := by
        have : (0 : ℝ) < (y : ℝ) := by exact_mod_cast hyp
        positivity
      have e0 : ((0 : ℤ) : ℝ) / 65536 = 0 := by norm_num
      rw [e0, if_neg (lt_irrefl 0), if_neg (lt_irrefl 0), if_pos hyr]
      rw [abs_le]; constructor <;> (push_cast; linarith [hd1.1, hd1.2])
    · rw [if_neg hyp, if_pos (by omega : y < 0)]
      have hneg : neg 102944 = .ok (-102944) := by decide
      refine ⟨-102944, hneg, by unfold isNaN lim_quiet_NaN; omega, ?_, fun h => by omega, fun _ => by omega, fun _ h => by omega,
        fun _ _ => rfl, fun h => by omega, fun h => by omega⟩
      unfold angleR
      have hyr : ¬ ((y : ℝ) / 65536 > 0) := by
        have : (y : ℝ) < 0 := by exact_mod_cast (by omega : y < 0)
        have : (y : ℝ) / 65536 < 0 := div_neg_of_neg_of_pos this (by norm_num)
        linarith
      have e0 : ((0 : ℤ) : ℝ) / 65536 = 0 := by norm_num
      rw [e0, if_neg (lt_irrefl 0), if_neg (lt_irrefl 0), if_neg hyr]
      rw [abs_le]; constructor <;> (push_cast; linarith [hd1.1, hd1.2])
  · -- x > 0
    have hxne : x ≠ 0 := by omega
    rw [if_pos hxp]
    have hdiv := div_closed y x (by omega) (by omega)
    rw [if_pos ⟨hxne, hy.1, hy.2⟩] at hdiv
    rw [hdiv]
    simp only [bind, Except.bind]
    set q := Int.tdiv (y * 65536) x with hqd
    have hqb : q.natAbs ≤ (y * 65536).natAbs := Int.natAbs_tdiv_le_natAbs _ _
    have hqfin : fin q := by unfold fin lim_lowest lim_max; omega
    obtain ⟨a, ha, s1, s2, b1, b2, hacc⟩ := atan_full q hqfin
    have hqc := quot_close y x hxne
    rw [← hqd] at hqc
    have hlip := arctan_lipschitz ((q : ℝ) / 65536) (((y : ℝ) / 65536) / ((x : ℝ) / 65536))
    have hxr : (x : ℝ) / 65536 > 0 := by
      have : (0 : ℝ) < (x : ℝ) := by exact_mod_cast hxp
      positivity
    refine ⟨a, ha, by unfold isNaN lim_quiet_NaN; omega, ?_, ?_, ?_, fun h => by omega, fun h => by omega, ?_, fun _ h => by omega⟩
    · unfold angleR
      rw [if_pos hxr]
      have e : (a : ℝ) / 65536 - Real.arctan ((y : ℝ) / 65536 / ((x : ℝ) / 65536))
          = ((a : ℝ) / 65536 - Real.arctan ((q : ℝ) / 65536)) + (Real.arctan ((q : ℝ) / 65536) - Real.arctan ((y : ℝ) / 65536 / ((x : ℝ) / 65536))) := by ring
      rw [e]
      have hl := le_trans hlip hqc
      calc _ ≤ |(a : ℝ) / 65536 - Real.arctan ((q : ℝ) / 65536)| + |Real.arctan ((q : ℝ) / 65536) - Real.arctan ((y : ℝ) / 65536 / ((x : ℝ) / 65536))| := abs_add_le _ _
        _ ≤ 5 / 100000 + 1 / 65536 := by linarith
        _ ≤ 8 / 100000 := by norm_num
    · intro hyp
      exact s1 (Int.tdiv_nonneg (by omega) (by omega))
    · intro hyn
      apply s2
      have : 0 ≤ Int.tdiv (-(y * 65536)) x := Int.tdiv_nonneg (by omega) (by omega)
      rw [Int.neg_tdiv] at this; omega
    · intro hy00 _
      subst hy00
      have : q = 0 := by rw [hqd]; simp
      rw [this] at ha
      have h0 : atan 0 = .ok 0 := by decide
      rw [h0] at ha
      exact (Except.ok.inj ha).symm

/-- atan2(0, 0) is NaN -/
theorem C11_atan2_origin : atan2 0 0 ⇓ lim_quiet_NaN := by decide

example : fin 65536 ∧ (-140737488355328 : Int) < 65536 := by unfold fin lim_lowest lim_max; omega

/-- the kernel argument is monotone up to one unit: the two truncations cannot undo more than that -/
theorem atanZ_almost_mono (c x y : Int) (hc0 : 0 < c) (hx0 : c ≤ x) (hxy : x ≤ y) (hzx : atanZ c x < 28672) :
    atanZ c x ≤ atanZ c y + 1 := by
  obtain ⟨zx0, bx1, bx2⟩ := atanZ_bracket c x hc0 hx0
  obtain ⟨zy0, by1, by2⟩ := atanZ_bracket c y hc0 (by omega)
  by_contra hcon
  push Not at hcon
  generalize hzx' : atanZ c x = zx at *
  generalize hzy' : atanZ c y = zy at *
  have hxc0 : 0 ≤ x * c := Int.mul_nonneg (by omega) (by omega)
  have hyc0 : 0 ≤ y * c := Int.mul_nonneg (by omega) (by omega)
  generalize hDx : 65536 + x * c / 65536 = Dx at *
  generalize hDy : 65536 + y * c / 65536 = Dy at *
  have hDx0 : 65536 ≤ Dx := by omega
  have hDy0 : 65536 ≤ Dy := by omega
  -- exact denominators scaled by 65536
  have eEx : Dx * 65536 ≤ 4294967296 + x * c ∧ 4294967296 + x * c < (Dx + 1) * 65536 := by omega
  have eEy : Dy * 65536 ≤ 4294967296 + y * c := by omega
  generalize hEx : 4294967296 + x * c = Ex at *
  generalize hEy : 4294967296 + y * c = Ey at *
  have hEx0 : 0 < Ex := by omega
  have hEy0 : 0 < Ey := by omega
  -- f(x) ≤ f(y), cross-multiplied
  have hf : (x - c) * 65536 * Ey ≤ (y - c) * 65536 * Ex := by
    rw [← hEx, ← hEy]
    have : (y - c) * 65536 * (4294967296 + x * c) - (x - c) * 65536 * (4294967296 + y * c) = (y - x) * (4294967296 + c * c) * 65536 := by ring
    have h2 : 0 ≤ (y - x) * (4294967296 + c * c) * 65536 := by
      have : 0 ≤ c * c := Int.mul_nonneg (by omega) (by omega)
      exact Int.mul_nonneg (Int.mul_nonneg (by omega) (by omega)) (by omega)
    omega
  generalize hNx : (x - c) * 65536 = Nx at *
  generalize hNy : (y - c) * 65536 = Ny at *
  have a1 : (zy + 2) * Dx ≤ Nx := by
    have : (zy + 2) * Dx ≤ zx * Dx := Int.mul_le_mul_of_nonneg_right (by omega) (by omega)
    omega
  have s1 : (zy + 2) * Dx * Ey ≤ Nx * Ey := Int.mul_le_mul_of_nonneg_right a1 (by omega)
  have s2 : Ny * Ex ≤ ((zy + 1) * Dy - 1) * Ex := Int.mul_le_mul_of_nonneg_right (by omega) (by omega)
  have s3 : (zy + 1) * (Dy * 65536) ≤ (zy + 1) * Ey := Int.mul_le_mul_of_nonneg_left eEy (by omega)
  have s4 : ((zy + 1) * (Dy * 65536) - 65536) * Ex ≤ ((zy + 1) * Ey - 65536) * Ex :=
    Int.mul_le_mul_of_nonneg_right (by omega) (by omega)
  -- (zy+2)·Dx·65536·Ey < (zy+1)·Ex·Ey
  have s5 : (zy + 2) * Dx * 65536 * Ey < (zy + 1) * Ex * Ey := by
    have e1 : (zy + 2) * Dx * 65536 * Ey = ((zy + 2) * Dx * Ey) * 65536 := by ring
    have e2 : ((zy + 1) * Dy - 1) * Ex * 65536 = ((zy + 1) * (Dy * 65536) - 65536) * Ex := by ring
    have e3 : ((zy + 1) * Ey - 65536) * Ex = (zy + 1) * Ex * Ey - 65536 * Ex := by ring
    have : ((zy + 2) * Dx * Ey) * 65536 ≤ ((zy + 1) * Dy - 1) * Ex * 65536 :=
      Int.mul_le_mul_of_nonneg_right (by omega) (by omega)
    rw [e1]; rw [e2] at this; rw [e3] at s4
    omega
  have s6 : (zy + 2) * Dx * 65536 < (zy + 1) * Ex := lt_of_mul_lt_mul_right s5 (by omega)
  have s7 : (zy + 1) * Ex ≤ (zy + 1) * ((Dx + 1) * 65536 - 1) := Int.mul_le_mul_of_nonneg_left (by omega) (by omega)
  have s8 : (zy + 2) * Dx * 65536 < (zy + 1) * (Dx + 1) * 65536 := by
    have : (zy + 1) * ((Dx + 1) * 65536 - 1) = (zy + 1) * (Dx + 1) * 65536 - (zy + 1) := by ring
    omega
  have s9 : (zy + 2) * Dx < (zy + 1) * (Dx + 1) := lt_of_mul_lt_mul_right s8 (by omega)
  have s10 : (zy + 1) * (Dx + 1) = (zy + 2) * Dx - Dx + zy + 1 := by ring
  omega

theorem K_top : atanKernel 16 28671 = .ok 27026 := by decide +kernel

/-- value of `atan_sum` in a segment: `atanc + K(z)` -/
theorem seg_val (atanc c x : Int) (hc0 : 0 < c) (hc1 : c ≤ 159744) (ha : 0 ≤ atanc ∧ atanc ≤ 102944)
    (hx0 : c ≤ x) (hx1 : x ≤ 35184372088832) (hz : atanZ c x < 28672) :
    ∃ k : Int, atanKernel 16 (atanZ c x) = .ok k ∧ 0 ≤ k ∧ k ≤ 27026 ∧ atanSum 16 atanc c x = .ok (atanc + k) := by
  obtain ⟨z0, _, _⟩ := atanZ_bracket c x hc0 hx0
  obtain ⟨k, hk, k0, k1⟩ := K_le (atanZ c x) 28671 27026 z0 (by omega) (by omega) K_top
  refine ⟨k, hk, k0, k1, ?_⟩
  rw [atanSum_eq atanc c x hc0 hc1 hx0 hx1, hk]
  simp only [bind, Except.bind]
  exact chk64_ok _ (by omega) (by omega)

/-- inside one segment the result can go down by at most one unit -/
theorem seg_pair (atanc c x y : Int) (hc0 : 0 < c) (hc1 : c ≤ 159744) (ha : 0 ≤ atanc ∧ atanc ≤ 102944)
    (hx0 : c ≤ x) (hxy : x ≤ y) (hy1 : y ≤ 35184372088832) (hzx : atanZ c x < 28672) (hzy : atanZ c y < 28672) :
    ∃ a b : Int, atanSum 16 atanc c x = .ok a ∧ atanSum 16 atanc c y = .ok b ∧ a ≤ b + 1 := by
  obtain ⟨kx, hkx, _, _, hvx⟩ := seg_val atanc c x hc0 hc1 ha hx0 (by omega) hzx
  obtain ⟨ky, hky, _, _, hvy⟩ := seg_val atanc c y hc0 hc1 ha (by omega) hy1 hzy
  refine ⟨_, _, hvx, hvy, ?_⟩
  have hm := atanZ_almost_mono c x y hc0 hx0 hxy hzx
  obtain ⟨zy0, _, _⟩ := atanZ_bracket c y hc0 (by omega)
  obtain ⟨zx0, _, _⟩ := atanZ_bracket c x hc0 hx0
  by_cases hle : atanZ c x ≤ atanZ c y
  · obtain ⟨k, hk, _, hkle⟩ := K_le (atanZ c x) (atanZ c y) ky zx0 hle hzy hky
    rw [hkx] at hk
    have := Except.ok.inj hk
    omega
  · have he : atanZ c x = atanZ c y + 1 := by omega
    obtain ⟨k0, hk0, _, _, _, hstep⟩ := K_facts (atanZ c y) zy0 hzy
    obtain ⟨k1, hk1, _, hk11⟩ := hstep (by omega)
    rw [hky] at hk0
    have e0 := Except.ok.inj hk0
    rw [← he, hkx] at hk1
    have e1 := Except.ok.inj hk1
    omega

/-- supremum of a segment through its last argument -/
theorem seg_sup (atanc c xe ze1 ke x : Int) (hc0 : 0 < c) (hc1 : c ≤ 159744) (ha : 0 ≤ atanc ∧ atanc ≤ 102944)
    (hx0 : c ≤ x) (hxe : x ≤ xe) (hxe1 : xe ≤ 35184372088832) (hzx : atanZ c x < 28672) (hze : atanZ c xe + 1 = ze1) (hz1 : ze1 < 28672)
    (hk : atanKernel 16 ze1 = .ok ke) :
    ∃ a : Int, atanSum 16 atanc c x = .ok a ∧ atanc ≤ a ∧ a ≤ atanc + ke := by
  have hzxe : atanZ c xe < 28672 := by omega
  obtain ⟨zx0, _, _⟩ := atanZ_bracket c x hc0 hx0
  obtain ⟨k, hkx, k0, _, hv⟩ := seg_val atanc c x hc0 hc1 ha hx0 (by omega) hzx
  have hm := atanZ_almost_mono c x xe hc0 hx0 hxe hzx
  obtain ⟨k', hk', _, hkle⟩ := K_le (atanZ c x) ze1 ke zx0 (by omega) hz1 hk
  rw [hkx] at hk'
  have := Except.ok.inj hk'
  exact ⟨_, hv, by omega, by omega⟩


theorem zend1 : atanZ 28672 45055 + 1 = 12595 := by decide
theorem zend2 : atanZ 45056 77823 + 1 = 18040 := by decide
theorem zend3 : atanZ 77824 159743 + 1 = 21035 := by decide
theorem kend1 : atanKernel 16 12595 = .ok 12443 := by decide +kernel
theorem kend2 : atanKernel 16 18040 = .ok 17604 := by decide +kernel
theorem kend3 : atanKernel 16 21035 = .ok 20354 := by decide +kernel

/-- value range of `atan` on each of its five segments -/
theorem atanMag_info (x : Int) (h0 : 0 ≤ x) (h1 : x ≤ 35184372088832) :
    ∃ a : Int, atanMag x = .ok a ∧
      ((x < 28672 ∧ 0 ≤ a ∧ a ≤ 27026) ∨ (28672 ≤ x ∧ x < 45056 ∧ 27028 ≤ a ∧ a ≤ 39471) ∨
       (45056 ≤ x ∧ x < 77824 ∧ 39472 ≤ a ∧ a ≤ 57076) ∨ (77824 ≤ x ∧ x < 159744 ∧ 57076 ≤ a ∧ a ≤ 77430) ∨
       (159744 ≤ x ∧ 77429 ≤ a)) := by
  unfold atanMag
  by_cases s0 : x < 28672
  · rw [if_pos s0]
    obtain ⟨k, hk, k0, k1⟩ := K_le x 28671 27026 h0 (by omega) (by omega) K_top
    exact ⟨k, hk, Or.inl ⟨s0, k0, k1⟩⟩
  · rw [if_neg s0]
    by_cases s1 : x < 45056
    · rw [if_pos s1]
      obtain ⟨a, ha, a0, a1⟩ := seg_sup 27028 28672 45055 12595 12443 x (by omega) (by omega) (by omega) (by omega) (by omega) (by omega)
        (z_lt_seg1 x (by omega) s1).1 zend1 (by omega) kend1
      exact ⟨a, ha, Or.inr (Or.inl ⟨by omega, s1, a0, by omega⟩)⟩
    · rw [if_neg s1]
      by_cases s2 : x < 77824
      · rw [if_pos s2]
        obtain ⟨a, ha, a0, a1⟩ := seg_sup 39472 45056 77823 18040 17604 x (by omega) (by omega) (by omega) (by omega) (by omega) (by omega)
          (z_lt_seg2 x (by omega) s2).1 zend2 (by omega) kend2
        exact ⟨a, ha, Or.inr (Or.inr (Or.inl ⟨by omega, s2, a0, by omega⟩))⟩
      · rw [if_neg s2]
        by_cases s3 : x < 159744
        · rw [if_pos s3]
          obtain ⟨a, ha, a0, a1⟩ := seg_sup 57076 77824 159743 21035 20354 x (by omega) (by omega) (by omega) (by omega) (by omega) (by omega)
            (z_lt_seg3 x (by omega) s3).1 zend3 (by omega) kend3
          exact ⟨a, ha, Or.inr (Or.inr (Or.inr (Or.inl ⟨by omega, s3, a0, by omega⟩)))⟩
        · rw [if_neg s3]
          obtain ⟨k, _, k0, _, hv⟩ := seg_val 77429 159744 x (by omega) (by omega) (by omega) (by omega) h1 (z_lt_seg4 x (by omega)).1
          exact ⟨_, hv, Or.inr (Or.inr (Or.inr (Or.inr ⟨by omega, by omega⟩)))⟩

/-- quasi-monotonicity of `atan` on the clamped non-negative arguments -/
theorem atanMag_mono2 (x y : Int) (h0 : 0 ≤ x) (hxy : x ≤ y) (h1 : y ≤ 35184372088832) :
    ∃ a b : Int, atanMag x = .ok a ∧ atanMag y = .ok b ∧ a ≤ b + 2 := by
  obtain ⟨a, ha, ia⟩ := atanMag_info x h0 (by omega)
  obtain ⟨b, hb, ib⟩ := atanMag_info y (by omega) h1
  refine ⟨a, b, ha, hb, ?_⟩
  -- same segment: the sharper one-unit bound; different segments: the value ranges
  by_cases same : (y < 28672) ∨ (28672 ≤ x ∧ y < 45056) ∨ (45056 ≤ x ∧ y < 77824) ∨ (77824 ≤ x ∧ y < 159744) ∨ (159744 ≤ x)
  · rcases same with s | s | s | s | s
    · -- first segment: the kernel itself, monotone
      unfold atanMag at ha hb
      rw [if_pos (by omega)] at ha hb
      obtain ⟨k, hk, _, hkle⟩ := K_le x y b h0 hxy s hb
      rw [ha] at hk
      have := Except.ok.inj hk
      omega
    · unfold atanMag at ha hb
      rw [if_neg (by omega), if_pos (by omega)] at ha hb
      obtain ⟨a', b', ha', hb', hab⟩ := seg_pair 27028 28672 x y (by omega) (by omega) (by omega) s.1 hxy (by omega)
        (z_lt_seg1 x s.1 (by omega)).1 (z_lt_seg1 y (by omega) s.2).1
      rw [ha] at ha'; rw [hb] at hb'
      have := Except.ok.inj ha'; have := Except.ok.inj hb'
      omega
    · unfold atanMag at ha hb
      rw [if_neg (by omega), if_neg (by omega), if_pos (by omega)] at ha hb
      obtain ⟨a', b', ha', hb', hab⟩ := seg_pair 39472 45056 x y (by omega) (by omega) (by omega) s.1 hxy (by omega)
        (z_lt_seg2 x s.1 (by omega)).1 (z_lt_seg2 y (by omega) s.2).1
      rw [ha] at ha'; rw [hb] at hb'
      have := Except.ok.inj ha'; have := Except.ok.inj hb'
      omega
    · unfold atanMag at ha hb
      rw [if_neg (by omega), if_neg (by omega), if_neg (by omega), if_pos (by omega)] at ha hb
      obtain ⟨a', b', ha', hb', hab⟩ := seg_pair 57076 77824 x y (by omega) (by omega) (by omega) s.1 hxy (by omega)
        (z_lt_seg3 x s.1 (by omega)).1 (z_lt_seg3 y (by omega) s.2).1
      rw [ha] at ha'; rw [hb] at hb'
      have := Except.ok.inj ha'; have := Except.ok.inj hb'
      omega
    · unfold atanMag at ha hb
      rw [if_neg (by omega), if_neg (by omega), if_neg (by omega), if_neg (by omega)] at ha hb
      obtain ⟨a', b', ha', hb', hab⟩ := seg_pair 77429 159744 x y (by omega) (by omega) (by omega) s hxy h1
        (z_lt_seg4 x s).1 (z_lt_seg4 y (by omega)).1
      rw [ha] at ha'; rw [hb] at hb'
      have := Except.ok.inj ha'; have := Except.ok.inj hb'
      omega
  · omega

/-- **C11, quasi-monotonicity**: `x ≤ y ⇒ atan(x) ≤ atan(y) + 2 ulp` for ALL finite arguments -/
theorem C11_atan_mono2 (v w : Int) (hv : fin v) (hw : fin w) (hvw : v ≤ w) :
    ∃ a b : Int, (atan v ⇓ a) ∧ (atan w ⇓ b) ∧ a ≤ b + 2 := by
  unfold fin lim_lowest lim_max at hv hw
  have clamp_le : ∀ p q : Int, p ≤ q → atanClamp p ≤ atanClamp q := by
    intro p q h; unfold atanClamp; split <;> split <;> omega
  have clamp_rng : ∀ p : Int, 0 ≤ p → 0 ≤ atanClamp p ∧ atanClamp p ≤ 35184372088832 := by
    intro p h; unfold atanClamp; split <;> omega
  -- non-negative pair
  have pos : ∀ p q : Int, 0 ≤ p → p ≤ q → q ≤ 9223372036854775807 →
      ∃ a b : Int, atan p = .ok a ∧ atan q = .ok b ∧ a ≤ b + 2 ∧ 0 ≤ a ∧ 0 ≤ b ∧ a ≤ 102944 ∧ b ≤ 102944 := by
    intro p q hp hpq hq
    obtain ⟨a, b, ha, hb, hab⟩ := atanMag_mono2 (atanClamp p) (atanClamp q) (clamp_rng p hp).1 (clamp_le p q hpq) (clamp_rng q (by omega)).2
    rw [← atan_nonneg p hp] at ha
    rw [← atan_nonneg q (by omega)] at hb
    obtain ⟨a', ha', a0, a1, _⟩ := atan_nonneg_acc p hp (by omega)
    obtain ⟨b', hb', b0, b1, _⟩ := atan_nonneg_acc q (by omega) hq
    rw [ha] at ha'; rw [hb] at hb'
    have := Except.ok.inj ha'; have := Except.ok.inj hb'
    exact ⟨a, b, ha, hb, hab, by omega, by omega, by omega, by omega⟩
  by_cases hv0 : 0 ≤ v
  · obtain ⟨a, b, ha, hb, hab, _⟩ := pos v w hv0 hvw (by omega)
    exact ⟨a, b, ha, hb, hab⟩
  · by_cases hw0 : 0 ≤ w
    · -- v < 0 ≤ w : atan v ≤ 0 ≤ atan w
      obtain ⟨a, _, ha, _, _, a0, _, a1, _⟩ := pos (-v) (-v) (by omega) (le_refl _) (by omega)
      have hn := atan_neg (-v) a (by omega) (by omega) ha (by omega)
      rw [Int.neg_neg] at hn
      obtain ⟨b, _, hb, _, _, b0, _⟩ := pos w w hw0 (le_refl _) (by omega)
      exact ⟨-a, b, hn, hb, by omega⟩
    · -- both negative: oddness
      obtain ⟨b, a, hb, ha, hba, b0, a0, b1, a1⟩ := pos (-w) (-v) (by omega) (by omega) (by omega)
      have hnv := atan_neg (-v) a (by omega) (by omega) ha (by omega)
      have hnw := atan_neg (-w) b (by omega) (by omega) hb (by omega)
      rw [Int.neg_neg] at hnv hnw
      exact ⟨-a, -b, hnv, hnw, by omega⟩


end FixedMath

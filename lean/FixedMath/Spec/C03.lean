/-
  C03  Division is correctly truncated or NaN and never traps.
  "never traps": `div64`'s `divByZero` / `divOverflow` are UB values of the model, so `⇓` excludes them.
  `|r − 65536·a/b| ≤ 1` is stated multiplied by `|b|`: `|r·b − 65536·a| ≤ |b|` (proved with `<`).
-/
import FixedMath.Proofs.Arith

namespace FixedMath
open Gen

theorem tdiv_err (N y : Int) (hy : y ≠ 0) : (N.tdiv y * y - N).natAbs < y.natAbs := by
  have h := Int.tmod_def N y
  have h2 := Int.natAbs_tmod N y
  have : N.tdiv y * y - N = -(N.tmod y) := by rw [h, Int.mul_comm]; omega
  rw [this, Int.natAbs_neg, h2]
  exact Nat.mod_lt _ (by omega)

theorem C03_div (a b : Int) (ha : fin a) (_hb : fin b) :
    ∃ r, (div a b ⇓ r) ∧ (b = 0 → isNaN r) ∧
      (b ≠ 0 → isNaN r ∨ (r * b - 65536 * a).natAbs < b.natAbs) ∧
      (b ≠ 0 → -140737488355328 < a ∧ a < 140737488355328 → ¬ isNaN r) := by
  unfold fin lim_lowest lim_max at ha
  refine ⟨_, div_closed a b (by omega) (by omega), ?_, ?_, ?_⟩
  · intro h; simp [h, isNaN, NaNp]
  · intro hb
    split_ifs with h
    · right
      have := tdiv_err (a * 65536) b hb
      rwa [Int.mul_comm a 65536] at this ⊢
    · left; exact Or.inl rfl
  · intro hb hr
    simp only [ne_eq, hb, not_false_eq_true, hr, and_self, if_true]
    have h1 := Int.natAbs_tdiv_le_natAbs (a * 65536) b
    unfold isNaN lim_quiet_NaN
    omega

/-- fixed / integer for every integral type: exact truncated quotient, NaN for zero, never a trap -/
theorem C03_scalar (t : IT) (a n : Int) (ha : fin a) (hn : t.mem n) :
    ∃ r, (divScalar t a n ⇓ r) ∧ (n = 0 → isNaN r) ∧ (n ≠ 0 → r = Int.tdiv a n) := by
  unfold fin lim_lowest lim_max at ha
  unfold divScalar
  by_cases h0 : n = 0
  · subst h0
    exact ⟨NaNp, by simp [pure, Except.pure], fun _ => Or.inl rfl, fun h => absurd rfl h⟩
  · rw [if_pos h0]
    by_cases hbig : t = .u64 ∧ n > i64max
    · rw [if_pos hbig]
      refine ⟨0, rfl, fun h => absurd h h0, fun _ => ?_⟩
      simp only [IT.mem, IT.lo, IT.hi, hbig.1] at hn
      have hbig := hbig.2
      unfold i64max at hbig
      by_cases hneg : 0 ≤ a
      · exact (Int.tdiv_eq_zero_of_lt hneg (by omega)).symm
      · have h1 : (-a).tdiv n = 0 := Int.tdiv_eq_zero_of_lt (by omega) (by omega)
        rw [Int.neg_tdiv] at h1
        omega
    · have hp : promote t n = n := by
        unfold promote
        split
        · rename_i h; subst h
          have : ¬ n > i64max := fun h2 => hbig ⟨rfl, h2⟩
          unfold i64max at this
          simp only [IT.mem, IT.lo, IT.hi] at hn
          exact toI64_of_range (by omega) (by omega)
        · rfl
      rw [if_neg hbig, hp]
      unfold div64 i64min
      have : ¬ (a = -9223372036854775808 ∧ n = -1) := by omega
      rw [if_neg h0, if_neg this]
      exact ⟨_, rfl, fun h => absurd h h0, fun _ => rfl⟩

example : fin (-140737488355328) ∧ fin (-1) := by unfold fin lim_lowest lim_max; omega

end FixedMath

/-
  C15  floor and ceil bracket their argument with integer values.
  Domain: finite `v` whose floor and ceiling are representable, `|v| < 2^63 - 65536`
  (this contains the statement's `|x| < 2^47 - 1` in value units).
-/
import FixedMath.Proofs.Arith

namespace FixedMath
open Gen

theorem C15 (v : Int) (h1 : -9223372036854710272 < v) (h2 : v < 9223372036854710272) :
    ∃ f c nf, (floor v ⇓ f) ∧ (ceil v ⇓ c) ∧ (floor (-v) ⇓ nf) ∧
      f % 65536 = 0 ∧ c % 65536 = 0 ∧ f ≤ v ∧ v < f + 65536 ∧ c - 65536 < v ∧ v ≤ c ∧
      (v % 65536 = 0 → f = v ∧ c = v) ∧ c = -nf := by
  refine ⟨_, _, _, floor_spec v (by omega) (by omega), ceil_spec v (by omega) (by omega),
    floor_spec (-v) (by omega) (by omega), ?_⟩
  have : v ≤ 9223372036854710272 := by omega
  simp only [this, if_true]
  omega

example : (-9223372036854710272 : Int) < 65536 ∧ (65536 : Int) < 9223372036854710272 := by omega

end FixedMath

/-
  C05  Floating <-> fixed conversion is nearest-value and NaN outside the range.

  Over the exact IEEE-754 model of Model/Float.lean (bit-exact against the hardware on every correspondence run),
  for BOTH formats (`float` = b32, `double` = b64) and EVERY datum of the format (hence every bit pattern,
  `ofBits_inFmt`):
    • finite with |v| < 2^31−1  ⇒  the call returns r, not NaN, with
        |r − v·65536| ≤ 1/2 + (|v|·65536 + 1/2)·2^-p        (the one rounding of `v*65536 ± 0.5` in the source type)
      and r is exactly |v|·65536 rounded half away from zero whenever |v|·65536 + 1/2 is representable;
    • otherwise (|v| ≥ 2^31−1, ±inf, NaN)  ⇒  NaN.
  fixed → double is exact for |raw| ≤ 2^53; fixed → F has the value of the single round-to-nearest-even of the exact
  quotient raw/65536 (`C05_toFp_rn`: RN_F(raw)/65536 by one correctly rounded int→F conversion and an exact division,
  and rounding commutes with the scaling by 2^-16, `roundRat_scale`), relative error ≤ 2^-p, for every int64 raw; fixed → double → fixed is the identity for
  |x| < 2^31−1.

  The last clause of the property as written ("identity on every value with |x| < 2^31") contradicts its first
  sentence on the sliver 2^31−1 ≤ |x| < 2^31: `C05_sliver` proves the code returns NaN there (as sentence 1 demands);
  the round trip is therefore claimed as `C05_roundtrip_partial`.
-/
import FixedMath.Real.FloatConv

namespace FixedMath
open Gen R

/-- real value of a finite datum -/
noncomputable def FP.val : FP → ℝ
  | .fin s m e => fval s m e
  | _ => 0

def FP.Finite : FP → Prop
  | .fin _ _ _ => True
  | _ => False

/-- every bit pattern decodes to a datum of its format -/
theorem ofBits_inFmt_b32 (bits : Nat) : InFmt b32 (FP.ofBits b32 bits) := by
  unfold FP.ofBits
  simp only []
  have p23 : pow2 (b32.p - 1) = 8388608 := by decide
  have p8 : pow2 b32.ebits = 256 := by decide
  rw [p23, p8]
  split_ifs with h1 h2 h3
  · trivial
  · trivial
  · unfold InFmt; refine ⟨?_, le_refl _, by decide⟩
    have := Nat.mod_lt bits (by norm_num : 0 < 8388608)
    have : (2 : Nat) ^ b32.p = 16777216 := by decide
    omega
  · unfold InFmt
    have := Nat.mod_lt bits (by norm_num : 0 < 8388608)
    have := Nat.mod_lt (bits / 8388608) (by norm_num : 0 < 256)
    have hp : (2 : Nat) ^ b32.p = 16777216 := by decide
    have hm : b32.emin = -149 := by decide
    have hx : b32.emax = 104 := by decide
    refine ⟨by omega, by omega, by omega⟩

theorem ofBits_inFmt_b64 (bits : Nat) : InFmt b64 (FP.ofBits b64 bits) := by
  unfold FP.ofBits
  simp only []
  have p52 : pow2 (b64.p - 1) = 4503599627370496 := by decide
  have p11 : pow2 b64.ebits = 2048 := by decide
  rw [p52, p11]
  split_ifs with h1 h2 h3
  · trivial
  · trivial
  · unfold InFmt; refine ⟨?_, le_refl _, by decide⟩
    have := Nat.mod_lt bits (by norm_num : 0 < 4503599627370496)
    have : (2 : Nat) ^ b64.p = 9007199254740992 := by decide
    omega
  · unfold InFmt
    have := Nat.mod_lt bits (by norm_num : 0 < 4503599627370496)
    have := Nat.mod_lt (bits / 4503599627370496) (by norm_num : 0 < 2048)
    have hp : (2 : Nat) ^ b64.p = 9007199254740992 := by decide
    have hm : b64.emin = -1074 := by decide
    have hx : b64.emax = 971 := by decide
    refine ⟨by omega, by omega, by omega⟩

theorem FP.val_fin (s : Bool) (m : Nat) (e : Int) : (FP.fin s m e).val = fval s m e := rfl

theorem int_cast_sg (x : Int) : (x : ℝ) = sg (decide (x < 0)) * (x.natAbs : ℝ) := by
  unfold sg
  by_cases hneg : x < 0
  · simp only [hneg, decide_true, if_true]
    have : ((x.natAbs : ℕ) : ℝ) = -((x : Int) : ℝ) := by
      rw [← Int.cast_natCast, Int.ofNat_natAbs_of_nonpos (by omega)]; push_cast; ring
    rw [this]; ring
  · simp only [hneg, decide_false, Bool.false_eq_true, if_false, one_mul]
    rw [← Int.cast_natCast, Int.natAbs_of_nonneg (by omega)]

/-- the statement of C05 for `floating_point_to_fixed<F>` at the datum `v` -/
def ToFixedSpec (f : Fmt) (v : FP) : Prop :=
    (v.Finite ∧ |v.val| < 2147483647 →
      ∃ r : Int, (fpToFixed f v ⇓ r) ∧ ¬ isNaN r ∧
        |(r : ℝ) - v.val * 65536| ≤ 1 / 2 + (|v.val| * 65536 + 1 / 2) * (2 : ℝ) ^ (-(f.p : ℤ)) ∧
        -- ties away from zero, whenever the sum is representable in the source type
        (∀ (M2 : Nat) (K2 : ℤ), |v.val| * 65536 + 1 / 2 = (M2 : ℝ) * (2 : ℝ) ^ K2 → M2 < 2 ^ f.p → f.emin ≤ K2 →
          ∃ mag : Nat, ((mag : ℝ) ≤ |v.val| * 65536 + 1 / 2 ∧ |v.val| * 65536 + 1 / 2 < (mag : ℝ) + 1) ∧
            (r = if v.val < 0 then -(mag : Int) else (mag : Int)))) ∧
    (¬ (v.Finite ∧ |v.val| < 2147483647) → fpToFixed f v ⇓ NaNp)

/-- **C05, floating → fixed**, any format satisfying `GoodFmt` -/
theorem C05_to (f : Fmt) (hf : GoodFmt f) (v : FP) (hv : InFmt f v) : ToFixedSpec f v := by
  unfold ToFixedSpec
  cases v with
  | nan => exact ⟨fun h => absurd h.1 (by simp [FP.Finite]), fun _ => fpToFixed_nan f⟩
  | inf s => exact ⟨fun h => absurd h.1 (by simp [FP.Finite]), fun _ => fpToFixed_inf f s⟩
  | fin s m e =>
    obtain ⟨hm, he, _⟩ := hv
    have habs : |(FP.fin s m e).val| = (m : ℝ) * (2 : ℝ) ^ e := fval_abs s m e
    constructor
    · rintro ⟨_, hlt⟩
      rw [habs] at hlt ⊢
      rcases Nat.eq_zero_or_pos m with h0 | hpos
      · subst h0
        refine ⟨0, fpToFixed_zero f hf s e, by unfold isNaN lim_quiet_NaN; omega, ?_, ?_⟩
        · have : (FP.fin s 0 e).val = 0 := by unfold FP.val fval; simp
          rw [this]; simp only [Int.cast_zero, zero_mul, sub_zero, abs_zero, Nat.cast_zero]
          positivity
        · intro M2 K2 _ _ _
          refine ⟨0, by simp; norm_num, ?_⟩
          simp
      · obtain ⟨mag, W, hto, mg1, mg2, hdel, hex⟩ := fpToFixed_core f hf s m e hpos m e rfl hm he hlt
        have hpsmall : (2 : ℝ) ^ (-(f.p : ℤ)) ≤ 1 / 131072 := by
          have hpz : (17 : ℤ) ≤ (f.p : ℤ) := by exact_mod_cast hf.p17
          have : (2 : ℝ) ^ (-(f.p : ℤ)) ≤ (2 : ℝ) ^ (-17 : ℤ) := zpow_le_zpow_right₀ (by norm_num) (by omega)
          have h17 : ((2 : ℝ) ^ (-17 : ℤ)) = 1 / 131072 := by norm_num
          rw [h17] at this; exact this
        set X : ℝ := (m : ℝ) * (2 : ℝ) ^ e with hX
        have hXpos : 0 < X := by
          have : (0 : ℝ) < (m : ℝ) := by exact_mod_cast hpos
          rw [hX]; positivity
        set Z : ℝ := X * 65536 + 1 / 2 with hZ
        have hZp : Z * (2 : ℝ) ^ (-(f.p : ℤ)) ≤ Z * (1 / 131072) := mul_le_mul_of_nonneg_left hpsmall (by rw [hZ]; positivity)
        obtain ⟨dl, du⟩ := abs_le.mp hdel
        have hr : (((if s = true then -(mag : Int) else (mag : Int)) : Int) : ℝ) = sg s * (mag : ℝ) := by
          unfold sg; cases s <;> simp
        have hmagub : (mag : ℝ) < 281474976710656 := by linarith
        have hmagn : mag < 281474976710656 := by exact_mod_cast hmagub
        refine ⟨_, hto, ?_, ?_, ?_⟩
        · unfold isNaN lim_quiet_NaN; cases s <;> simp <;> omega
        · have hv : (FP.fin s m e).val = sg s * X := fval_sg s m e
          rw [hr, hv]
          have : sg s * (mag : ℝ) - sg s * X * 65536 = sg s * ((mag : ℝ) - X * 65536) := by ring
          rw [this, abs_mul, sg_abs, one_mul, abs_le]
          constructor <;> linarith
        · intro M2 K2 hrep hM2 hK2
          have hWZ := hex M2 K2 hrep hM2 hK2
          rw [hWZ] at mg1 mg2
          refine ⟨mag, ⟨mg1, mg2⟩, ?_⟩
          have hv : (FP.fin s m e).val = sg s * X := fval_sg s m e
          rw [hv]
          cases s
          · have : ¬ (sg false * X < 0) := by unfold sg; simp; linarith
            simp [this]
          · have : sg true * X < 0 := by unfold sg; simp; linarith
            simp [this]
    · intro hn
      apply fpToFixed_large
      by_contra hc
      push Not at hc
      exact hn ⟨trivial, by rw [habs]; exact hc⟩

/-- all 2^32 float bit patterns -/
theorem C05_to_float (bits : Nat) : ToFixedSpec b32 (FP.ofBits b32 bits) := C05_to b32 good_b32 _ (ofBits_inFmt_b32 bits)
/-- all 2^64 double bit patterns -/
theorem C05_to_double (bits : Nat) : ToFixedSpec b64 (FP.ofBits b64 bits) := C05_to b64 good_b64 _ (ofBits_inFmt_b64 bits)

/-- **C05, fixed → double is exact** for every raw value with `|raw| ≤ 2^53` -/
theorem C05_toDouble (x : Int) (hx : x.natAbs ≤ 9007199254740992) :
    (fixedToFp b64 x).Finite ∧ (fixedToFp b64 x).val = (x : ℝ) / 65536 := by
  by_cases h0 : x = 0
  · subst h0; rw [fixedToFp_zero b64 good_b64]; simp [FP.Finite, FP.val, fval]
  · obtain ⟨q, E, R, hres, hval, _, hex, _, _⟩ := fixedToFp_val b64 good_b64 x h0 (by omega) (by omega)
    have hR : R = (x.natAbs : ℝ) := by
      rcases Nat.lt_or_ge x.natAbs 9007199254740992 with h | h
      · exact hex x.natAbs 0 (by simp) (by have : (2 : Nat) ^ b64.p = 9007199254740992 := by decide
                                           omega)
      · exact hex 1 53 (by omega) (by decide)
    rw [hres]
    refine ⟨trivial, ?_⟩
    rw [FP.val_fin, fval_sg, hval, hR, int_cast_sg x]; ring

/-- **C05, fixed → F is the correctly rounded value**: the result is `RN_F(raw) / 65536` exactly, where `RN_F(raw)` is
    the (single, correctly rounded) `static_cast<F>(raw)`; it is a value of the format and within relative `2^-p`
    of `raw/65536` — for every int64 raw value and both formats. -/
theorem C05_toFp (f : Fmt) (hf : GoodFmt f) (x : Int) (h1 : -9223372036854775808 ≤ x) (h2 : x ≤ 9223372036854775807) (h0 : x ≠ 0) :
    (fixedToFp f x).Finite ∧ (ofInt f x).Finite ∧
    (fixedToFp f x).val = (ofInt f x).val / 65536 ∧
    |(ofInt f x).val - (x : ℝ)| ≤ |(x : ℝ)| * (2 : ℝ) ^ (-(f.p : ℤ)) ∧
    |(fixedToFp f x).val - (x : ℝ) / 65536| ≤ |(x : ℝ) / 65536| * (2 : ℝ) ^ (-(f.p : ℤ)) ∧
    (∃ (M : Nat) (K : ℤ), |(fixedToFp f x).val| = (M : ℝ) * (2 : ℝ) ^ K ∧ M < 2 ^ f.p ∧ f.emin ≤ K) := by
  obtain ⟨q, E, R, hres, hval, herr, _, ⟨q1, E1, hof, hofv⟩, ⟨Mq, Kq, hrep, hMq, hKq⟩⟩ := fixedToFp_val f hf x h0 h1 h2
  have hxs := int_cast_sg x
  have habsx : |(x : ℝ)| = (x.natAbs : ℝ) := by
    rw [hxs, abs_mul, sg_abs, one_mul, abs_of_nonneg (by positivity)]
  rw [hres, hof]
  simp only [FP.val_fin]
  have hA : |sg (decide (x < 0)) * R - (x : ℝ)| = |R - (x.natAbs : ℝ)| := by
    have : sg (decide (x < 0)) * R - (x : ℝ) = sg (decide (x < 0)) * (R - (x.natAbs : ℝ)) := by
      rw [hxs]; generalize sg (decide (x < 0)) = σ
      have : |(σ * (x.natAbs : ℝ))| = |(σ * (x.natAbs : ℝ))| := rfl
      ring_nf
    rw [this, abs_mul, sg_abs, one_mul]
  refine ⟨trivial, trivial, ?_, ?_, ?_, ?_⟩
  · rw [fval_sg, fval_sg, hval, hofv]; ring
  · rw [fval_sg, hofv, habsx, hA]; exact herr
  · rw [fval_sg, hval, abs_div, habsx]
    have : sg (decide (x < 0)) * (R / 65536) - (x : ℝ) / 65536 = (sg (decide (x < 0)) * R - (x : ℝ)) / 65536 := by ring
    rw [this, abs_div, hA]
    have h6 : |(65536 : ℝ)| = 65536 := abs_of_pos (by norm_num)
    rw [h6]
    have := div_le_div_of_nonneg_right herr (by norm_num : (0 : ℝ) ≤ 65536)
    calc |R - (x.natAbs : ℝ)| / 65536 ≤ (x.natAbs : ℝ) * (2 : ℝ) ^ (-(f.p : ℤ)) / 65536 := this
      _ = (x.natAbs : ℝ) / 65536 * (2 : ℝ) ^ (-(f.p : ℤ)) := by ring
  · exact ⟨Mq, Kq, by rw [fval_abs]; exact hrep, hMq, hKq⟩

/-- **C05, fixed → F is the correctly rounded value, literally**: `fixed_to_floating_point<F>(x)` has the value of the
    model's single round-to-nearest-even of the exact quotient `x / 65536` -/
theorem C05_toFp_rn (f : Fmt) (hf : GoodFmt f) (x : Int) (h1 : -9223372036854775808 ≤ x) (h2 : x ≤ 9223372036854775807) (h0 : x ≠ 0) :
    (fixedToFp f x).Finite ∧ (roundRat f (decide (x < 0)) x.natAbs 65536).Finite ∧
    (fixedToFp f x).val = (roundRat f (decide (x < 0)) x.natAbs 65536).val := by
  obtain ⟨q, E, R, hres, hval, _, _, ⟨q1, E1, hof, hofv⟩, _⟩ := fixedToFp_val f hf x h0 h1 h2
  obtain ⟨p17, emin_le, emax_ge⟩ := hf
  have hpz : (17 : ℤ) ≤ (f.p : ℤ) := by exact_mod_cast p17
  have hnpos : 0 < x.natAbs := by omega
  obtain ⟨l1, l2⟩ := ratLog2_spec x.natAbs 1 hnpos (by norm_num)
  simp only [Nat.cast_one, div_one] at l1 l2
  have hnr : (1 : ℝ) ≤ (x.natAbs : ℝ) := by exact_mod_cast hnpos
  have hnlt : (x.natAbs : ℝ) < (2 : ℝ) ^ (64 : ℤ) := by
    have : x.natAbs < 18446744073709551616 := by omega
    have : ((x.natAbs : ℕ) : ℝ) < ((18446744073709551616 : ℕ) : ℝ) := by exact_mod_cast this
    have e : ((2 : ℝ) ^ (64 : ℤ)) = 18446744073709551616 := by norm_num
    rw [e]; push_cast at this; exact this
  have hL0 : -1 < ratLog2 x.natAbs 1 := by
    have : (2 : ℝ) ^ (0 : ℤ) < (2 : ℝ) ^ (ratLog2 x.natAbs 1 + 1) := by rw [zpow_zero]; linarith
    have := two_zpow_lt _ _ this; omega
  have hL1 : ratLog2 x.natAbs 1 < 64 := two_zpow_lt _ _ (lt_of_le_of_lt l1 hnlt)
  obtain ⟨qq, r1, r2⟩ := roundRat_scale f (decide (x < 0)) x.natAbs 1 16 hnpos (by norm_num) (by omega) (by omega)
  have e16 : 1 * 2 ^ 16 = 65536 := by norm_num
  rw [e16] at r2
  have hof' : ofInt f x = roundRat f (decide (x < 0)) x.natAbs 1 := rfl
  rw [hof', r1] at hof
  injection hof with _ hq hE
  rw [hres, r2]
  refine ⟨trivial, trivial, ?_⟩
  simp only [FP.val_fin]
  rw [fval_sg, fval_sg, hval, ← hofv, ← hq, ← hE, zpow_sub₀ (by norm_num)]
  have : ((2 : ℝ) ^ ((16 : ℕ) : ℤ)) = 65536 := by norm_num
  rw [this]; ring


/-- **C05, round trip** (partial: `|x| < 2^31 − 1`, see the header): fixed → double → fixed is the identity -/
theorem C05_roundtrip_partial (x : Int) (hx : x.natAbs < 2147483647 * 65536) :
    fpToFixed b64 (fixedToFp b64 x) ⇓ x := by
  by_cases h0 : x = 0
  · subst h0; rw [fixedToFp_zero b64 good_b64]; exact fpToFixed_zero b64 good_b64 false 0
  · obtain ⟨q, E, R, hres, hval, _, hex, _, _⟩ := fixedToFp_val b64 good_b64 x h0 (by omega) (by omega)
    have hp : (2 : Nat) ^ b64.p = 9007199254740992 := by decide
    have hR : R = (x.natAbs : ℝ) := hex x.natAbs 0 (by simp) (by omega)
    rw [hR] at hval
    have hnpos : 0 < x.natAbs := by omega
    have hnr : (0 : ℝ) < (x.natAbs : ℝ) := by exact_mod_cast hnpos
    have hqpos : 0 < q := by
      rcases Nat.eq_zero_or_pos q with h | h
      · subst h; rw [Nat.cast_zero, zero_mul] at hval; have := div_pos hnr (by norm_num : (0 : ℝ) < 65536); linarith
      · exact h
    have hrep : (q : ℝ) * (2 : ℝ) ^ E = (x.natAbs : ℝ) * (2 : ℝ) ^ (-16 : ℤ) := by
      rw [hval]; have : ((2 : ℝ) ^ (-16 : ℤ)) = 1 / 65536 := by norm_num
      rw [this]; ring
    have hlt : (q : ℝ) * (2 : ℝ) ^ E < 2147483647 := by
      rw [hval, div_lt_iff₀ (by norm_num)]
      have : ((x.natAbs : ℕ) : ℝ) < ((2147483647 * 65536 : ℕ) : ℝ) := by exact_mod_cast hx
      push_cast at this; linarith
    obtain ⟨mag, W, hto, mg1, mg2, _, hexW⟩ := fpToFixed_core b64 good_b64 (decide (x < 0)) q E hqpos x.natAbs (-16) hrep
      (by omega) (by decide) hlt
    have hZ : (q : ℝ) * (2 : ℝ) ^ E * 65536 + 1 / 2 = ((2 * x.natAbs + 1 : ℕ) : ℝ) * (2 : ℝ) ^ (-1 : ℤ) := by
      rw [hval]; push_cast
      have : ((2 : ℝ) ^ (-1 : ℤ)) = 1 / 2 := by norm_num
      rw [this]; ring
    have hW := hexW (2 * x.natAbs + 1) (-1) hZ (by omega) (by decide)
    rw [hW, hval] at mg1 mg2
    have e1 : (x.natAbs : ℝ) / 65536 * 65536 = (x.natAbs : ℝ) := by ring
    rw [e1] at mg1 mg2
    have hmag : mag = x.natAbs := by
      have a : (mag : ℝ) < (x.natAbs : ℝ) + 1 := by linarith
      have b : (x.natAbs : ℝ) < (mag : ℝ) + 1 := by linarith
      have a' : mag < x.natAbs + 1 := by exact_mod_cast a
      have b' : x.natAbs < mag + 1 := by exact_mod_cast b
      omega
    rw [hres, hto, hmag]
    apply congrArg Except.ok
    by_cases hneg : x < 0
    · simp only [hneg, decide_true, if_true]; omega
    · simp only [hneg, decide_false, Bool.false_eq_true, if_false]; omega

/-- on the sliver `2^31 − 1 ≤ |x|` (up to `|raw| ≤ 2^53`) the round trip yields NaN, as sentence 1 of C05 demands -/
theorem C05_sliver (x : Int) (h1 : 2147483647 * 65536 ≤ x.natAbs) (h2 : x.natAbs ≤ 9007199254740992) :
    fpToFixed b64 (fixedToFp b64 x) ⇓ NaNp := by
  obtain ⟨_, hv⟩ := C05_toDouble x h2
  have h0 : x ≠ 0 := by omega
  obtain ⟨q, E, R, hres, _⟩ := fixedToFp_val b64 good_b64 x h0 (by omega) (by omega)
  rw [hres] at hv ⊢
  apply fpToFixed_large
  rw [← fval_abs (decide (x < 0)) q E, ← FP.val_fin, hv, abs_div, int_cast_sg x, abs_mul, sg_abs, one_mul,
    abs_of_nonneg (by positivity), abs_of_pos (by norm_num : (0 : ℝ) < 65536), le_div_iff₀ (by norm_num)]
  have : ((2147483647 * 65536 : ℕ) : ℝ) ≤ ((x.natAbs : ℕ) : ℝ) := by exact_mod_cast h1
  push_cast at this; linarith

/-- non-vacuity: the float 129.5 (0x43018000) is a datum of the format below the limit -/
example : InFmt b32 (FP.ofBits b32 0x43018000) := ofBits_inFmt_b32 _

end FixedMath

/-
  C14  hypot is accurate without intermediate overflow and symmetric.

  For EVERY pair of raw values with |a|, |b| < 2^47 (|a|, |b| < 2^31 in value) and for every square-root back-end
  whose result is within one unit of the true root (`SqrtNear`):
     both below 16384.0 :  |hypot(a,b) − √(a²+b²)| ≤ 2 ulp
     otherwise          :  |hypot(a,b) − √(a²+b²)| ≤ 1.5·10⁻⁴ · √(a²+b²)
     hypot(a,b) = hypot(b,a) = hypot(|a|,|b|), never NaN, never negative.
  Analytic proof over the integers for all inputs (Proofs/Hypot.lean): three branches, each an inequality between
  squares (`(h−2)² ≤ S ≤ (h+2)²`, `19997²·S ≤ 20000²·h² ≤ 20003²·S`), the scaling amounts from `countl_zero` through
  `Nat.log2`; no enumeration.  The abacus back-end satisfies `SqrtNear` by the loop-invariant theorem, so for it every
  clause is unconditional (`C14_abacus`).  The std::sqrt back-end satisfies `SqrtNear` by the rounding theory of the
  IEEE model (`sqrtNear_std`, Real/SqrtStd.lean), so `C14_std` is unconditional as well.
-/
import FixedMath.Proofs.Hypot
import FixedMath.Real.SqrtStd
import Mathlib.Analysis.Real.Sqrt

namespace FixedMath
open Gen

/-- `hypot` reduces to the unsigned core on the magnitudes, larger first -/
theorem hypot_eq (be : SqrtBE) (l r : Int) (hl : -9223372036854775808 < l ∧ l ≤ 9223372036854775807)
    (hr : -9223372036854775808 < r ∧ r ≤ 9223372036854775807) :
    hypot be l r = hypotU be (max (if l < 0 then -l else l) (if r < 0 then -r else r))
                            (min (if l < 0 then -l else l) (if r < 0 then -r else r)) := by
  unfold hypot neg
  have hcl : chk64 (-l) = .ok (-l) := chk64_ok _ (by omega) (by omega)
  have hcr : chk64 (-r) = .ok (-r) := chk64_ok _ (by omega) (by omega)
  have key : ∀ x y : Int, 0 ≤ x → x ≤ 9223372036854775807 → 0 ≤ y → y ≤ 9223372036854775807 →
      hypotU be (if toU64 x < toU64 y then toU64 y else toU64 x) (if toU64 x < toU64 y then toU64 x else toU64 y)
        = hypotU be (max x y) (min x y) := by
    intro x y hx0 hx1 hy0 hy1
    have u1 : toU64 x = x := by unfold toU64 two64; omega
    have u2 : toU64 y = y := by unfold toU64 two64; omega
    rw [u1, u2]
    by_cases hxy : x < y
    · simp only [hxy, if_true]
      rw [max_eq_right (le_of_lt hxy), min_eq_left (le_of_lt hxy)]
    · simp only [hxy, if_false]
      rw [max_eq_left (by omega), min_eq_right (by omega)]
  by_cases hl0 : l < 0 <;> by_cases hr0 : r < 0 <;>
    simp only [hl0, hr0, if_true, if_false, hcl, hcr, bind, Except.bind, pure, Except.pure] <;>
    exact key _ _ (by omega) (by omega) (by omega) (by omega)

/-- symmetry and sign independence, exactly -/
theorem C14_sym (be : SqrtBE) (a b : Int) (ha : -9223372036854775808 < a ∧ a ≤ 9223372036854775807)
    (hb : -9223372036854775808 < b ∧ b ≤ 9223372036854775807) :
    hypot be a b = hypot be b a ∧
    hypot be a b = hypot be (if a < 0 then -a else a) (if b < 0 then -b else b) := by
  constructor
  · rw [hypot_eq be a b ha hb, hypot_eq be b a hb ha, max_comm, min_comm]
  · rw [hypot_eq be a b ha hb, hypot_eq be _ _ (by split <;> omega) (by split <;> omega)]
    have e1 : (if (if a < 0 then -a else a) < 0 then -(if a < 0 then -a else a) else (if a < 0 then -a else a)) = (if a < 0 then -a else a) := by
      by_cases h : a < 0
      · have : ¬ (-a < 0) := by omega
        simp only [h, if_true, this, if_false]
      · simp only [h, if_false]
    have e2 : (if (if b < 0 then -b else b) < 0 then -(if b < 0 then -b else b) else (if b < 0 then -b else b)) = (if b < 0 then -b else b) := by
      by_cases h : b < 0
      · have : ¬ (-b < 0) := by omega
        simp only [h, if_true, this, if_false]
      · simp only [h, if_false]
    rw [e1, e2]

/-- integer form of the accuracy clauses, on magnitudes `A ≥ B ≥ 0` -/
theorem hypotU_acc (be : SqrtBE) (hs : SqrtNear be) (A B : Int) (hB0 : 0 ≤ B) (hBA : B ≤ A) (hA : A < 140737488355328) :
    ∃ h : Int, hypotU be A B = .ok h ∧ 0 ≤ h ∧ h ≤ 9223372036854775806 ∧
      (A < 1073741824 → A * A + B * B ≤ (h + 2) * (h + 2) ∧ (h ≤ 2 ∨ (h - 2) * (h - 2) ≤ A * A + B * B)) ∧
      (1073741824 ≤ A → 19997 * 19997 * (A * A + B * B) ≤ 20000 * 20000 * (h * h) ∧
                        20000 * 20000 * (h * h) ≤ 20003 * 20003 * (A * A + B * B)) := by
  by_cases hz : A = 0
  · subst hz
    have : B = 0 := by omega
    subst this
    refine ⟨0, by unfold hypotU; rw [if_pos rfl]; rfl, by omega, by omega, fun _ => ⟨by norm_num, Or.inl (by omega)⟩, fun h => by omega⟩
  by_cases hbig : 1073741824 ≤ A
  · obtain ⟨h, e, h0, h1, r1, r2⟩ := hypotU_large be hs A B hbig hA hB0 hBA
    exact ⟨h, e, h0, h1, fun hc => by omega, fun _ => ⟨r1, r2⟩⟩
  · by_cases hsm : B < 65536
    · obtain ⟨h, e, h0, r1, r2⟩ := hypotU_left be hs A B (by omega) (by omega) hB0 hsm hBA
      have hbound : h ≤ 9223372036854775806 := by
        -- (h-2)² ≤ S < 2^61 or h ≤ 2
        rcases r2 with h2 | h2
        · omega
        · have hS : A * A + B * B < 2 * (1073741824 * 1073741824) := by
            have := sq_mono A 1073741823 (by omega) (by omega)
            have := sq_mono B 1073741823 hB0 (by omega)
            omega
          by_contra hcon
          push Not at hcon
          have := sq_mono 2147483648 (h - 2) (by omega) (by omega)
          omega
      exact ⟨h, e, h0, hbound, fun _ => ⟨r1, r2⟩, fun hc => absurd hc hbig⟩
    · obtain ⟨h, e, h2, r1, r2⟩ := hypotU_mid be hs A B (by omega) (by omega) hBA
      have hbound : h ≤ 9223372036854775806 := by
        have hS : A * A + B * B < 2 * (1073741824 * 1073741824) := by
          have := sq_mono A 1073741823 (by omega) (by omega)
          have := sq_mono B 1073741823 hB0 (by omega)
          omega
        by_contra hcon
        push Not at hcon
        have := sq_mono 2147483648 (h - 2) (by omega) (by omega)
        omega
      exact ⟨h, e, by omega, hbound, fun _ => ⟨r2, Or.inr r1⟩, fun hc => absurd hc hbig⟩

/-- C14 for any back-end within one unit of the true root: accuracy against `Real.sqrt`, never NaN, never negative -/
theorem C14_acc (be : SqrtBE) (hs : SqrtNear be) (a b : Int)
    (ha : -140737488355328 < a ∧ a < 140737488355328) (hb : -140737488355328 < b ∧ b < 140737488355328) :
    ∃ h : Int, (hypot be a b ⇓ h) ∧ 0 ≤ h ∧ ¬ isNaN h ∧
      ((-1073741824 < a ∧ a < 1073741824 ∧ -1073741824 < b ∧ b < 1073741824) →
          |(h : ℝ) - Real.sqrt ((a : ℝ) ^ 2 + (b : ℝ) ^ 2)| ≤ 2) ∧
      (¬ (-1073741824 < a ∧ a < 1073741824 ∧ -1073741824 < b ∧ b < 1073741824) →
          |(h : ℝ) - Real.sqrt ((a : ℝ) ^ 2 + (b : ℝ) ^ 2)| ≤ 15 / 100000 * Real.sqrt ((a : ℝ) ^ 2 + (b : ℝ) ^ 2)) := by
  rw [hypot_eq be a b (by omega) (by omega)]
  generalize hx : (if a < 0 then -a else a) = x
  generalize hy : (if b < 0 then -b else b) = y
  have hx0 : 0 ≤ x ∧ x < 140737488355328 := by rw [← hx]; split <;> omega
  have hy0 : 0 ≤ y ∧ y < 140737488355328 := by rw [← hy]; split <;> omega
  have hxx : x * x = a * a := by rw [← hx]; split <;> ring
  have hyy : y * y = b * b := by rw [← hy]; split <;> ring
  obtain ⟨h, e, h0, h1, rs, rl⟩ := hypotU_acc be hs (max x y) (min x y) (le_min hx0.1 hy0.1) (min_le_max) (max_lt hx0.2 hy0.2)
  have hS : max x y * max x y + min x y * min x y = a * a + b * b := by
    rcases le_total x y with hle | hle
    · rw [max_eq_right hle, min_eq_left hle, hxx, hyy]; ring
    · rw [max_eq_left hle, min_eq_right hle, hxx, hyy]
  rw [hS] at rs rl
  refine ⟨h, e, h0, by unfold isNaN lim_quiet_NaN; omega, ?_, ?_⟩
  · intro hsmall
    have hmx : max x y < 1073741824 := by
      apply max_lt
      · rw [← hx]; split <;> omega
      · rw [← hy]; split <;> omega
    obtain ⟨r1, r2⟩ := rs hmx
    have hSr : ((a * a + b * b : ℤ) : ℝ) = (a : ℝ) ^ 2 + (b : ℝ) ^ 2 := by push_cast; ring
    have h0r : (0 : ℝ) ≤ (h : ℝ) := by exact_mod_cast h0
    rw [abs_le]
    constructor
    · have r1r : (a : ℝ) ^ 2 + (b : ℝ) ^ 2 ≤ ((h : ℝ) + 2) ^ 2 := by
        rw [← hSr]
        have : ((a * a + b * b : ℤ) : ℝ) ≤ (((h + 2) * (h + 2) : ℤ) : ℝ) := by exact_mod_cast r1
        push_cast at this ⊢; nlinarith
      have : Real.sqrt ((a : ℝ) ^ 2 + (b : ℝ) ^ 2) ≤ (h : ℝ) + 2 := by
        rw [Real.sqrt_le_left (by linarith)]; exact r1r
      linarith
    · -- h - 2 ≤ √S
      rcases r2 with h2 | h2
      · have : (h : ℝ) ≤ 2 := by exact_mod_cast h2
        have := Real.sqrt_nonneg ((a : ℝ) ^ 2 + (b : ℝ) ^ 2)
        linarith
      · have h2r : ((h : ℝ) - 2) * ((h : ℝ) - 2) ≤ (a : ℝ) ^ 2 + (b : ℝ) ^ 2 := by
          rw [← hSr]; exact_mod_cast h2
        have : (h : ℝ) - 2 ≤ Real.sqrt ((a : ℝ) ^ 2 + (b : ℝ) ^ 2) := by
          apply Real.le_sqrt_of_sq_le; nlinarith
        linarith
  · intro hlarge
    have hmx : 1073741824 ≤ max x y := by
      by_contra hc
      push Not at hc
      apply hlarge
      have h1 := lt_of_le_of_lt (le_max_left x y) hc
      have h2 := lt_of_le_of_lt (le_max_right x y) hc
      rw [← hx] at h1; rw [← hy] at h2
      refine ⟨?_, ?_, ?_, ?_⟩ <;> (first | (split at h1 <;> omega) | (split at h2 <;> omega))
    obtain ⟨r1, r2⟩ := rl hmx
    set S : ℝ := (a : ℝ) ^ 2 + (b : ℝ) ^ 2 with hSd
    have hSr : ((a * a + b * b : ℤ) : ℝ) = S := by rw [hSd]; push_cast; ring
    have hS0 : 0 ≤ S := by rw [hSd]; positivity
    have h0r : (0 : ℝ) ≤ (h : ℝ) := by exact_mod_cast h0
    have r1r : 19997 * 19997 * S ≤ 20000 * 20000 * ((h : ℝ) * h) := by
      rw [← hSr]; exact_mod_cast r1
    have r2r : 20000 * 20000 * ((h : ℝ) * h) ≤ 20003 * 20003 * S := by
      rw [← hSr]; exact_mod_cast r2
    have hT := Real.sqrt_nonneg S
    have hTT : Real.sqrt S * Real.sqrt S = S := Real.mul_self_sqrt hS0
    -- 19997 T ≤ 20000 h ≤ 20003 T
    have l1 : 19997 * Real.sqrt S ≤ 20000 * (h : ℝ) := by
      by_contra hc
      push Not at hc
      have : (20000 * (h : ℝ)) * (20000 * (h : ℝ)) < (19997 * Real.sqrt S) * (19997 * Real.sqrt S) := by
        apply mul_self_lt_mul_self (by positivity) hc
      nlinarith
    have l2 : 20000 * (h : ℝ) ≤ 20003 * Real.sqrt S := by
      by_contra hc
      push Not at hc
      have : (20003 * Real.sqrt S) * (20003 * Real.sqrt S) < (20000 * (h : ℝ)) * (20000 * (h : ℝ)) := by
        apply mul_self_lt_mul_self (by positivity) hc
      nlinarith
    rw [abs_le]
    constructor <;> nlinarith

/-- the abacus back-end: every clause of C14 unconditionally -/
theorem C14_abacus (a b : Int)
    (ha : -140737488355328 < a ∧ a < 140737488355328) (hb : -140737488355328 < b ∧ b < 140737488355328) :
    ∃ h : Int, (hypot .abacus a b ⇓ h) ∧ 0 ≤ h ∧ ¬ isNaN h ∧
      ((-1073741824 < a ∧ a < 1073741824 ∧ -1073741824 < b ∧ b < 1073741824) →
          |(h : ℝ) - Real.sqrt ((a : ℝ) ^ 2 + (b : ℝ) ^ 2)| ≤ 2) ∧
      (¬ (-1073741824 < a ∧ a < 1073741824 ∧ -1073741824 < b ∧ b < 1073741824) →
          |(h : ℝ) - Real.sqrt ((a : ℝ) ^ 2 + (b : ℝ) ^ 2)| ≤ 15 / 100000 * Real.sqrt ((a : ℝ) ^ 2 + (b : ℝ) ^ 2)) :=
  C14_acc .abacus sqrtNear_abacus a b ha hb

theorem C14_std (a b : Int)
    (ha : -140737488355328 < a ∧ a < 140737488355328) (hb : -140737488355328 < b ∧ b < 140737488355328) :
    ∃ h : Int, (hypot .std a b ⇓ h) ∧ 0 ≤ h ∧ ¬ isNaN h ∧
      ((-1073741824 < a ∧ a < 1073741824 ∧ -1073741824 < b ∧ b < 1073741824) →
          |(h : ℝ) - Real.sqrt ((a : ℝ) ^ 2 + (b : ℝ) ^ 2)| ≤ 2) ∧
      (¬ (-1073741824 < a ∧ a < 1073741824 ∧ -1073741824 < b ∧ b < 1073741824) →
          |(h : ℝ) - Real.sqrt ((a : ℝ) ^ 2 + (b : ℝ) ^ 2)| ≤ 15 / 100000 * Real.sqrt ((a : ℝ) ^ 2 + (b : ℝ) ^ 2)) :=
  C14_acc .std sqrtNear_std a b ha hb

example : SqrtNear .abacus := sqrtNear_abacus
example : SqrtNear .std := sqrtNear_std

end FixedMath

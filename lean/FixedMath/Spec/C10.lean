/-
  C10  tan is accurate relative to its slope, odd, periodic, NaN only at the pole.

  Accuracy: for every raw v with |v| ≤ 205887 (|x| ≤ π) that is not the library's pole,
     |tan(v)/65536 − Real.tan x| ≤ 2.5 ulp · (1 + tan² x)
  from (1) the analytic sign/range normalisation (Proofs/TanReduce.lean),
       (2) a kernel-checked enumeration of the normalised kernel `tanRed x1` at all 205 887 arguments x1 ∈ [0, phi)
           (Check/TanV*.lean, 204 `decide +kernel` chunks; division-free criterion
            |T·cos x − sin x|·|cos x| ≤ 2.5 ulp against Taylor enclosures of Real.sin / Real.cos at the TRUE angle),
       (3) tan(−x) = −tan x, tan(π − x) = −tan x, bounds on π.
  Oddness, periodicity (x ≥ 0, k ≥ 0) and "NaN exactly at the pole" hold for every |v| < 2^62.
-/
import FixedMath.Proofs.TanReduce
import FixedMath.Real.TanVSound
import FixedMath.Real.Reduce
import FixedMath.Check.TanVAll

namespace FixedMath
open Gen R Chk Real

/-- the kernel-checked fact for a normalised argument -/
theorem tanRed_acc (x1 : Int) (h0 : 0 ≤ x1) (h1 : x1 ≤ 205886) :
    (x1 = 102944 → tanRed x1 false = .ok 9223372036854775807) ∧
    (x1 ≠ 102944 → ∃ T : Int, tanRed x1 false = .ok T ∧ -1099511627776 ≤ T ∧ T ≤ 1099511627776 ∧
        Real.cos ((x1 : ℝ) / 65536) ≠ 0 ∧
        |(T : ℝ) / 65536 - Real.tan ((x1 : ℝ) / 65536)| ≤ (5 / 2) / 65536 * (1 + Real.tan ((x1 : ℝ) / 65536) ^ 2)) := by
  obtain ⟨n, rfl⟩ : ∃ n : Nat, x1 = (n : Int) := ⟨x1.toNat, by omega⟩
  have hn : n ≤ 205886 := by omega
  have hc := TanV_all n (by omega) (by omega)
  have := checkTanV_sound n hn hc
  constructor
  · intro he; exact this.1 (by omega)
  · intro hne
    obtain ⟨T, a, b, c, d, e⟩ := this.2 (by omega)
    exact ⟨T, a, b, c, by simpa using d, by simpa using e⟩

theorem C10_acc (v : Int) (h1 : -205887 ≤ v) (h2 : v ≤ 205887) (hp : (if v < 0 then -v else v) % phi ≠ fixpidiv2) :
    ∃ T : Int, (tan v ⇓ T) ∧ ¬ isNaN T ∧ Real.cos ((v : ℝ) / 65536) ≠ 0 ∧
      |(T : ℝ) / 65536 - Real.tan ((v : ℝ) / 65536)| ≤ (5 / 2) / 65536 * (1 + Real.tan ((v : ℝ) / 65536) ^ 2) := by
  unfold phi fixpidiv2 at hp
  obtain ⟨x1, htan, a0, a1, a2, a3⟩ := tan_eq v (by omega) (by omega)
  -- the normalised argument is |v|, except for |v| = phi where it is 0
  by_cases hedge : (if v < 0 then -v else v) = 205887
  · -- x = ±phi/65536 = ±(π − δ0) : the library returns 0
    have hx1 : x1 = 0 := by rw [a3 (by omega), hedge]; rfl
    have h0 := (tanRed_acc 0 (by omega) (by omega)).2 (by omega)
    obtain ⟨T0, hT0, _, _, _, _⟩ := h0
    have hT00 : T0 = 0 := by
      have : tanRed 0 false = .ok 0 := by decide
      rw [this] at hT0; exact (Except.ok.inj hT0).symm
    subst hT00
    have hflip := tanRed_flip 0 0 hT0 (by unfold fixpidiv2; omega) (by omega)
    have hd := delta0_bounds
    -- tan(±(π − δ0)) = ∓ tan δ0
    have key : ∀ s : ℝ, (s = 1 ∨ s = -1) →
        Real.cos (s * (205887 / 65536)) ≠ 0 ∧
        |(0 : ℝ) / 65536 - Real.tan (s * (205887 / 65536))| ≤ (5 / 2) / 65536 * (1 + Real.tan (s * (205887 / 65536)) ^ 2) := by
      intro s hs
      have hcosd : 0 < Real.cos (π - 205887 / 65536) := by
        apply Real.cos_pos_of_mem_Ioo
        constructor <;> linarith [Real.pi_gt_three, hd.1, hd.2]
      have hc : Real.cos (205887 / 65536 : ℝ) = -Real.cos (π - 205887 / 65536) := by rw [Real.cos_pi_sub]; ring
      have hsn : Real.sin (205887 / 65536 : ℝ) = Real.sin (π - 205887 / 65536) := by rw [Real.sin_pi_sub]
      have hsd0 : 0 ≤ Real.sin (π - 205887 / 65536) := Real.sin_nonneg_of_nonneg_of_le_pi (le_of_lt hd.1) (by linarith [Real.pi_gt_three, hd.2])
      have hsd1 : Real.sin (π - 205887 / 65536) ≤ π - 205887 / 65536 := Real.sin_le (le_of_lt hd.1)
      have hcle : Real.cos (π - 205887 / 65536) ≤ 1 := Real.cos_le_one _
      -- division-free core at t = π − x with y = 0
      have hcore : |(0 : ℝ) * Real.cos (π - 205887 / 65536) - Real.sin (π - 205887 / 65536)| * Real.cos (π - 205887 / 65536) ≤ (5 / 2) / 65536 := by
        rw [zero_mul, zero_sub, abs_neg, abs_of_nonneg hsd0]
        calc Real.sin (π - 205887 / 65536) * Real.cos (π - 205887 / 65536) ≤ (π - 205887 / 65536) * 1 :=
              mul_le_mul hsd1 hcle (le_of_lt hcosd) (le_of_lt hd.1)
          _ ≤ (5 / 2) / 65536 := by norm_num; linarith [hd.2]
      have hb := tan_bound_of_core 0 _ _ hcosd hcore
      have hb' : |Real.tan (π - 205887 / 65536)| ≤ (5 / 2) / 65536 * (1 + Real.tan (π - 205887 / 65536) ^ 2) := by
        rw [zero_sub, abs_neg] at hb; exact hb
      have htan : Real.tan (205887 / 65536 : ℝ) = -Real.tan (π - 205887 / 65536) := by rw [Real.tan_pi_sub]; ring
      rcases hs with rfl | rfl
      · rw [one_mul]
        refine ⟨by rw [hc]; exact neg_ne_zero.mpr (ne_of_gt hcosd), ?_⟩
        rw [htan]
        have e : (0 : ℝ) / 65536 - -Real.tan (π - 205887 / 65536) = Real.tan (π - 205887 / 65536) := by ring
        rw [e, neg_sq]; exact hb'
      · rw [neg_one_mul, Real.cos_neg, Real.tan_neg]
        refine ⟨by rw [hc]; exact neg_ne_zero.mpr (ne_of_gt hcosd), ?_⟩
        rw [htan, neg_neg]
        have e : (0 : ℝ) / 65536 - Real.tan (π - 205887 / 65536) = -Real.tan (π - 205887 / 65536) := by ring
        rw [e, abs_neg]; exact hb'
    by_cases hv : v < 0
    · have hvv : v = -205887 := by simp only [hv, if_true] at hedge; omega
      subst hvv
      refine ⟨0, by rw [htan, hx1, decide_eq_true hv]; exact hflip, by unfold isNaN lim_quiet_NaN; omega, ?_⟩
      have := key (-1) (Or.inr rfl)
      have e : ((-205887 : ℤ) : ℝ) / 65536 = -1 * (205887 / 65536) := by push_cast; ring
      rw [e]; simpa using this
    · have hvv : v = 205887 := by simp only [hv, if_false] at hedge; omega
      subst hvv
      refine ⟨0, by rw [htan, hx1, decide_eq_false hv]; exact hT0, by unfold isNaN lim_quiet_NaN; omega, ?_⟩
      have := key 1 (Or.inl rfl)
      have e : ((205887 : ℤ) : ℝ) / 65536 = 1 * (205887 / 65536) := by push_cast; ring
      rw [e]; simpa using this
  · -- x1 = |v|
    have habs : x1 = (if v < 0 then -v else v) := by
      by_cases hs : (if v < 0 then -v else v) ≤ 102943
      · exact a2 hs
      · rw [a3 (by omega)]
        have : (if v < 0 then -v else v) < 205887 := by split <;> omega
        have : 0 ≤ (if v < 0 then -v else v) := by split <;> omega
        omega
    have hne : x1 ≠ 102944 := by
      rw [habs]; intro hcon; rw [hcon] at hp; omega
    obtain ⟨T, hT, hb1, hb2, hcos, hacc⟩ := (tanRed_acc x1 a0 a1).2 hne
    by_cases hv : v < 0
    · simp only [hv, if_true] at habs
      have hflip := tanRed_flip x1 T hT (by unfold fixpidiv2; exact hne) ⟨hb1, hb2⟩
      refine ⟨-T, by rw [htan, decide_eq_true hv]; exact hflip, by unfold isNaN lim_quiet_NaN; omega, ?_⟩
      have e : (v : ℝ) / 65536 = -((x1 : ℝ) / 65536) := by rw [habs]; push_cast; ring
      rw [e, Real.cos_neg, Real.tan_neg]
      refine ⟨hcos, ?_⟩
      have e1 : ((-T : ℤ) : ℝ) / 65536 - -Real.tan ((x1 : ℝ) / 65536) = -((T : ℝ) / 65536 - Real.tan ((x1 : ℝ) / 65536)) := by push_cast; ring
      rw [e1, abs_neg, neg_sq]
      exact hacc
    · simp only [hv, if_false] at habs
      refine ⟨T, by rw [htan, decide_eq_false hv]; exact hT, by unfold isNaN lim_quiet_NaN; omega, ?_⟩
      rw [← habs]
      exact ⟨hcos, hacc⟩

/-- NaN exactly at the pole, for every argument below 2^62 -/
theorem C10_nan_iff (v : Int) (h1 : -4611686018427387904 < v) (h2 : v < 4611686018427387904) :
    ∃ T : Int, (tan v ⇓ T) ∧ (isNaN T ↔ (if v < 0 then -v else v) % phi = fixpidiv2) := by
  unfold phi fixpidiv2
  obtain ⟨x1, htan, a0, a1, a2, a3⟩ := tan_eq v (by omega) (by omega)
  have hx1 : x1 = (if v < 0 then -v else v) % 205887 := by
    by_cases hs : (if v < 0 then -v else v) ≤ 102943
    · rw [a2 hs]
      have : 0 ≤ (if v < 0 then -v else v) := by split <;> omega
      omega
    · exact a3 (by omega)
  by_cases hp : x1 = 102944
  · have := (tanRed_acc x1 a0 a1).1 hp
    have hflip : tanRed x1 true = .ok 9223372036854775807 := by
      unfold tanRed; rw [if_neg (by unfold fixpidiv2; omega)]; rfl
    refine ⟨9223372036854775807, ?_, ?_⟩
    · rw [htan]; cases (decide (v < 0)) <;> assumption
    · constructor
      · intro _; rw [← hx1]; exact hp
      · intro _; exact Or.inl rfl
  · obtain ⟨T, hT, hb1, hb2, _, _⟩ := (tanRed_acc x1 a0 a1).2 hp
    have hflip := tanRed_flip x1 T hT (by unfold fixpidiv2; exact hp) ⟨hb1, hb2⟩
    by_cases hv : v < 0
    · refine ⟨-T, by rw [htan, decide_eq_true hv]; exact hflip, ?_⟩
      constructor
      · intro hn; unfold isNaN lim_quiet_NaN at hn; omega
      · intro hc; rw [← hx1] at hc; exact absurd hc hp
    · refine ⟨T, by rw [htan, decide_eq_false hv]; exact hT, ?_⟩
      constructor
      · intro hn; unfold isNaN lim_quiet_NaN at hn; omega
      · intro hc; rw [← hx1] at hc; exact absurd hc hp

/-- tan(−x) = −tan(x) exactly (both NaN at the poles) -/
theorem C10_odd (v : Int) (h1 : -4611686018427387904 < v) (h2 : v < 4611686018427387904) :
    ∃ T U : Int, (tan v ⇓ T) ∧ (tan (-v) ⇓ U) ∧ ((isNaN T ∧ isNaN U) ∨ (¬ isNaN T ∧ U = -T)) := by
  by_cases hz : v = 0
  · subst hz
    exact ⟨0, 0, by decide, by decide, Or.inr ⟨by unfold isNaN lim_quiet_NaN; omega, by omega⟩⟩
  obtain ⟨x1, htan, a0, a1, a2, a3⟩ := tan_eq v (by omega) (by omega)
  obtain ⟨y1, htan', b0, b1, b2, b3⟩ := tan_eq (-v) (by omega) (by omega)
  have e : (if -v < 0 then - -v else -v) = (if v < 0 then -v else v) := by
    by_cases hv : v < 0
    · have hn : ¬ (-v < 0) := by omega
      rw [if_neg hn, if_pos hv]
    · have hn : -v < 0 := by omega
      rw [if_pos hn, if_neg hv]; omega
  rw [e] at b2 b3
  have hxy : x1 = y1 := by
    by_cases hs : (if v < 0 then -v else v) ≤ 102943
    · rw [a2 hs, b2 hs]
    · rw [a3 (by omega), b3 (by omega)]
  subst hxy
  by_cases hp : x1 = 102944
  · have hA := (tanRed_acc x1 a0 a1).1 hp
    have hB : tanRed x1 true = .ok 9223372036854775807 := by
      unfold tanRed; rw [if_neg (by unfold fixpidiv2; omega)]; rfl
    have hany : ∀ b : Bool, tanRed x1 b = .ok 9223372036854775807 := by
      intro b; cases b <;> assumption
    exact ⟨9223372036854775807, 9223372036854775807, by rw [htan]; exact hany _, by rw [htan']; exact hany _,
      Or.inl ⟨Or.inl rfl, Or.inl rfl⟩⟩
  · obtain ⟨T, hT, hb1, hb2, _, _⟩ := (tanRed_acc x1 a0 a1).2 hp
    have hflip := tanRed_flip x1 T hT (by unfold fixpidiv2; exact hp) ⟨hb1, hb2⟩
    by_cases hv : v < 0
    · have hnv : ¬ (-v < 0) := by omega
      refine ⟨-T, T, by rw [htan, decide_eq_true hv]; exact hflip, by rw [htan', decide_eq_false hnv]; exact hT,
        Or.inr ⟨by unfold isNaN lim_quiet_NaN; omega, by omega⟩⟩
    · have hnv : -v < 0 := by omega
      refine ⟨T, -T, by rw [htan, decide_eq_false hv]; exact hT, by rw [htan', decide_eq_true hnv]; exact hflip,
        Or.inr ⟨by unfold isNaN lim_quiet_NaN; omega, rfl⟩⟩

/-- tan(x + k·phi) = tan(x) exactly for x ≥ 0, k ≥ 0 -/
theorem C10_period (v k : Int) (hv : 0 ≤ v) (hk : 0 ≤ k) (hb : v + k * phi < 4611686018427387904) :
    tan (v + k * phi) = tan v := by
  unfold phi at hb ⊢
  exact tan_periodic v k hv hk (by omega)

example : (if (51472 : Int) < 0 then -51472 else 51472) % phi ≠ fixpidiv2 := by decide

end FixedMath

/-
  C19  Lookup-table approximations match the functions they tabulate.

  Proved here, against the tables REGENERATED from fixed_lib/src/*_table.h on every run:
   * every sine / cosine entry is within 2 ulp of sin/cos(i°)                     (361 + 361 kernel points)
   * every tangent entry i ≠ 128 is within 2 ulp·(1+tan²) of tan(i·π/256)         (255 kernel points)
   * every square-root entry is within 1 of 65536·√(i/256 + 31/2^18)              (256 kernel points)
   * sin_angle_aprox(d), cos_angle_aprox(d) for EVERY 32-bit d: no out-of-bounds access, the result is the
     table entry of d mod 360, hence within 2 ulp of sin/cos(d°)                   (analytic + periodicity)
   * sqrt_aprox(x): relative error ≤ 2 % for EVERY raw x in [1, 2^37) (closed form of the cell selection from the bit
     length + kernel check of all 1 567 cells at both ends, `C19_sqrt_aprox`); 0 at 0, NaN below 0.
   * atan_index_aprox(x) within 1.25 of atan(x)·128/π for EVERY raw x (`C19_atan_index`): invariant of
     std::lower_bound incl. the out-of-order sentinel entry 128, closed form, kernel check of the arctangent of all
     254 entries against their angles, monotone arctan.
-/
import FixedMath.Real.TanSound
import FixedMath.Proofs.SinReduce
import FixedMath.Proofs.TabLemmas
import FixedMath.Proofs.SqrtAprox
import FixedMath.Real.AtanIndexAcc
import Mathlib.Analysis.Real.Sqrt

namespace FixedMath
open Gen R Chk Real

set_option maxRecDepth 1000000

set_option maxRecDepth 10000000 in
theorem sinTab_checked : checkSinTab 0 sin_angle_tableL = true := by decide +kernel
set_option maxRecDepth 10000000 in
theorem cosTab_checked : checkCosTab 0 cos_angle_tableL = true := by decide +kernel
set_option maxRecDepth 10000000 in
theorem tanTab_checked : checkTanTab 0 tan_tableL = true := by decide +kernel
set_option maxRecDepth 10000000 in
theorem sqrtTab_checked : checkSqrtTab 0 square_root_tableL = true := by decide +kernel


theorem C19_sin_tab (i : Nat) (h : i < 361) :
    |(sin_angle_tableL.getD i 0 : ℝ) / 65536 - Real.sin ((i : ℝ) * π / 180)| ≤ 2 / 65536 := by
  have := checkSinTab_sound sin_angle_tableL 0 sinTab_checked i (by rw [sinTab_len]; exact h)
  rw [Nat.zero_add] at this
  exact checkSinEntry_sound i _ this

theorem C19_cos_tab (i : Nat) (h : i < 361) :
    |(cos_angle_tableL.getD i 0 : ℝ) / 65536 - Real.cos ((i : ℝ) * π / 180)| ≤ 2 / 65536 := by
  have := checkCosTab_sound cos_angle_tableL 0 cosTab_checked i (by rw [cosTab_len]; exact h)
  rw [Nat.zero_add] at this
  exact checkCosEntry_sound i _ this

theorem C19_tan_tab (i : Nat) (h : i < 256) (hne : i ≠ 128) :
    |(tan_tableL.getD i 0 : ℝ) / 65536 - Real.tan ((i : ℝ) * π / 256)| ≤ 2 / 65536 * (1 + Real.tan ((i : ℝ) * π / 256) ^ 2) := by
  have := checkTanTab_sound tan_tableL 0 tanTab_checked i (by rw [tanTab_len]; exact h)
  rw [Nat.zero_add] at this
  exact checkTanEntry_sound i _ h hne this

theorem C19_sqrt_tab (i : Nat) (h : i < 256) :
    |(square_root_tableL.getD i 0 : ℝ) - 65536 * Real.sqrt ((i : ℝ) / 256 + 31 / 262144)| ≤ 1 := by
  have := checkSqrtTab_sound square_root_tableL 0 sqrtTab_checked i (by rw [sqrtTab_len]; exact h)
  rw [Nat.zero_add] at this
  exact checkSqrtEntry_sound i _ this

/-- the index computed by `sin_angle_aprox` / `cos_angle_aprox` for any 32-bit angle -/
theorem angle_index (d : Int) (h1 : -2147483648 ≤ d) (h2 : d ≤ 2147483647) :
    ∃ i : Nat, i ≤ 360 ∧ (∃ k : Int, d = (i : Int) + 360 * k) ∧ angleIndex d = .ok (i : Int) := by
  unfold angleIndex
  by_cases hc : d < 0 ∨ d > 360
  · rw [if_pos hc]
    obtain ⟨q, e, b⟩ := tmod_elim d 360 (by omega)
    rw [mod64_ok d 360 (by omega), e]
    simp only [bind, Except.bind]
    by_cases hr : d - 360 * q < 0
    · rw [if_pos hr]
      unfold chk32 i32min i32max
      have : -2147483648 ≤ d - 360 * q + 360 ∧ d - 360 * q + 360 ≤ 2147483647 := by omega
      rw [if_pos this]
      refine ⟨(d - 360 * q + 360).toNat, by omega, ⟨q - 1, by omega⟩, ?_⟩
      simp only [pure, Except.pure]
      apply congrArg Except.ok
      unfold toU16; omega
    · rw [if_neg hr]
      refine ⟨(d - 360 * q).toNat, by omega, ⟨q, by omega⟩, ?_⟩
      simp only [pure, Except.pure]
      apply congrArg Except.ok
      unfold toU16; omega
  · rw [if_neg hc]
    refine ⟨d.toNat, by omega, ⟨0, by omega⟩, ?_⟩
    simp only [pure, Except.pure, bind, Except.bind]
    apply congrArg Except.ok
    unfold toU16; omega

theorem sin_deg_periodic (i : Nat) (k d : Int) (h : d = (i : Int) + 360 * k) :
    Real.sin ((d : ℝ) * π / 180) = Real.sin ((i : ℝ) * π / 180) ∧ Real.cos ((d : ℝ) * π / 180) = Real.cos ((i : ℝ) * π / 180) := by
  have e : (d : ℝ) * π / 180 = (i : ℝ) * π / 180 + k * (2 * π) := by
    rw [h]; push_cast; ring
  rw [e]
  exact ⟨Real.sin_add_int_mul_two_pi _ _, Real.cos_add_int_mul_two_pi _ _⟩

/-- sin_angle_aprox(d) is within 2 ulp of sin(d°) for every 32-bit integer d; no table access is out of bounds -/
theorem C19_sin_aprox (d : Int) (h1 : -2147483648 ≤ d) (h2 : d ≤ 2147483647) :
    ∃ s : Int, (sinAngleAprox d ⇓ s) ∧ |(s : ℝ) / 65536 - Real.sin ((d : ℝ) * π / 180)| ≤ 2 / 65536 := by
  obtain ⟨i, hi, ⟨k, hk⟩, hidx⟩ := angle_index d h1 h2
  refine ⟨sin_angle_tableL.getD i 0, ?_, ?_⟩
  · unfold sinAngleAprox sinAngleTab
    rw [hidx]
    have e : sin_angle_table = sin_angle_tableL.toArray := rfl
    show idx sin_angle_table (i : Int) = _
    rw [e]
    exact idx_table sin_angle_tableL i (by rw [sinTab_len]; omega)
  · rw [(sin_deg_periodic i k d hk).1]
    exact C19_sin_tab i (by omega)

theorem C19_cos_aprox (d : Int) (h1 : -2147483648 ≤ d) (h2 : d ≤ 2147483647) :
    ∃ s : Int, (cosAngleAprox d ⇓ s) ∧ |(s : ℝ) / 65536 - Real.cos ((d : ℝ) * π / 180)| ≤ 2 / 65536 := by
  obtain ⟨i, hi, ⟨k, hk⟩, hidx⟩ := angle_index d h1 h2
  refine ⟨cos_angle_tableL.getD i 0, ?_, ?_⟩
  · unfold cosAngleAprox cosAngleTab
    rw [hidx]
    have e : cos_angle_table = cos_angle_tableL.toArray := rfl
    show idx cos_angle_table (i : Int) = _
    rw [e]
    exact idx_table cos_angle_tableL i (by rw [cosTab_len]; omega)
  · rw [(sin_deg_periodic i k d hk).2]
    exact C19_cos_tab i (by omega)

/-- sqrt_aprox: 0 at 0, NaN below 0 (every negative raw value) -/
theorem C19_sqrt_aprox_edge : (sqrtAprox 0 ⇓ 0) ∧ ∀ v : Int, v < 0 → sqrtAprox v ⇓ lim_quiet_NaN := by
  refine ⟨by decide, ?_⟩
  intro v hv
  unfold sqrtAprox
  have h1 : v ≤ 0 := by omega
  rw [if_pos h1, if_pos hv]; rfl

/-- **sqrt_aprox has relative error at most 2 %** for every raw argument in [1, 2^37) (2^-16 ≤ x < 2^21):
    closed form of the cell selection for all arguments + kernel check of all 1 567 cells at both cell ends -/
theorem C19_sqrt_aprox (v : Int) (h0 : 1 ≤ v) (h1 : v < 137438953472) :
    ∃ r, (sqrtAprox v ⇓ r) ∧ |(r : ℝ) - Real.sqrt ((v : ℝ) * 65536)| ≤ 2 / 100 * Real.sqrt ((v : ℝ) * 65536) := by
  obtain ⟨r, hr, hr0, hhi, hlo⟩ := sqrtAprox_acc v h0 h1
  refine ⟨r, hr, ?_⟩
  set T : ℝ := Real.sqrt ((v : ℝ) * 65536) with hT
  have hv0 : (0 : ℝ) ≤ (v : ℝ) * 65536 := by
    have : (0 : ℝ) ≤ (v : ℝ) := by exact_mod_cast (by omega : (0 : Int) ≤ v)
    positivity
  have hT0 : 0 ≤ T := Real.sqrt_nonneg _
  have hTT : T * T = (v : ℝ) * 65536 := Real.mul_self_sqrt hv0
  have hrr : (0 : ℝ) ≤ (r : ℝ) := by exact_mod_cast hr0
  have a : (100 * (r : ℝ)) * (100 * (r : ℝ)) ≤ 10404 * (T * T) := by
    rw [hTT]; have : (((100 * r) * (100 * r) : Int) : ℝ) ≤ ((10404 * 65536 * v : Int) : ℝ) := by exact_mod_cast hhi
    push_cast at this; linarith
  have b : 9604 * (T * T) ≤ (100 * (r : ℝ)) * (100 * (r : ℝ)) := by
    rw [hTT]; have : ((9604 * 65536 * v : Int) : ℝ) ≤ (((100 * r) * (100 * r) : Int) : ℝ) := by exact_mod_cast hlo
    push_cast at this; linarith
  have hup : 100 * (r : ℝ) ≤ 102 * T := by
    by_contra hc; push Not at hc; nlinarith
  have hdn : 98 * T ≤ 100 * (r : ℝ) := by
    by_contra hc; push Not at hc; nlinarith
  rw [abs_le]; constructor <;> linarith

example : (1 : Int) ≤ 12345 ∧ (12345 : Int) < 137438953472 := by omega

/-- **atan_index_aprox(x) is within 1.25 of atan(x)·128/π** for EVERY raw argument (the property asks for |x| < 2^31):
    binary-search invariant of `std::lower_bound` (valid although the second half of the table starts with an
    out-of-order sentinel), closed form of the result, kernel check that the arctangent of every table entry is
    within 10/65536 rad of its angle (sin/cos enclosures), monotonicity of arctan -/
theorem C19_atan_index (v : Int) (h1 : -9223372036854775808 < v) (h2 : v ≤ 9223372036854775807) :
    ∃ r, (atanIndexAprox v ⇓ r) ∧ |(r : ℝ) / 65536 - Real.arctan ((v : ℝ) / 65536) * 128 / π| ≤ 125 / 100 :=
  atanIndex_acc v ⟨h1, h2⟩

example : (-9223372036854775808 : Int) < -5344829 ∧ (-5344829 : Int) ≤ 9223372036854775807 := by omega

end FixedMath

/-
  C07  No public entry point has undefined behaviour, traps or reads out of bounds.

  In the model every operation the C++ standard leaves undefined (signed overflow, invalid shift, integer division
  by zero or INT64_MIN divided by -1, float-to-integer cast out of range, out-of-bounds table index) is an error value, so
  "returns normally" is `∃ r, f x = .ok r`.  One theorem per entry point, for EVERY argument of its domain
  (finite or NaN fixed_t = every int64 except INT64_MIN; every value of the integral type; shift counts in
  [INT_MIN, 63]).  `C07_proved` is their conjunction.

  Entry points NOT covered by a theorem here (stated in `C07_remaining`): atan, atan2, hypot, sqrt with the std::sqrt
  back-end, sqrt_aprox, hypot_aprox, atan_index_aprox, atan_aprox, and the float-argument conversions.  For those the
  model's UB verdict is only observed (model driver) and compared with the UBSan/ASan/_GLIBCXX_ASSERTIONS build of the
  real library on every run (C07 suite: ~1.2 M calls incl. NaN and extreme arguments) — evidence, not proof.
-/
import FixedMath.Spec.C01
import FixedMath.Spec.C02
import FixedMath.Spec.C03
import FixedMath.Spec.C04
import FixedMath.Spec.C06
import FixedMath.Spec.C09
import FixedMath.Spec.C10
import FixedMath.Spec.C12
import FixedMath.Spec.C15
import FixedMath.Spec.C18
import FixedMath.Spec.C19
import FixedMath.Spec.C20

namespace FixedMath
open Gen

/-- the argument domain of C07 for a fixed_t parameter: every raw value except INT64_MIN -/
def dom (v : Int) : Prop := -9223372036854775808 < v ∧ v ≤ 9223372036854775807

theorem arg_dom (v : Int) (h : arg v) : dom v := by
  unfold arg fin isNaN lim_lowest lim_max lim_quiet_NaN at h; unfold dom; omega

theorem C07_add_sub (a b : Int) (ha : dom a) (hb : dom b) : (∃ r, add a b ⇓ r) ∧ (∃ r, sub a b ⇓ r) := by
  unfold dom at *
  constructor
  · unfold add negNaN neg NaNp chk64 toI64 toU64 lim_quiet_NaN i64min i64max two64 two63
    simp only [pure, Except.pure, throw, throwThe, MonadExceptOf.throw]
    split_ifs <;> first | omega | exact ⟨_, rfl⟩
  · unfold sub negNaN neg NaNp chk64 toI64 toU64 lim_quiet_NaN i64min i64max two64 two63
    simp only [pure, Except.pure, throw, throwThe, MonadExceptOf.throw]
    split_ifs <;> first | omega | exact ⟨_, rfl⟩

theorem C07_mul (a b : Int) : ∃ r, mul a b ⇓ r := ⟨_, mul_closed a b⟩

theorem C07_div (a b : Int) (ha : dom a) : ∃ r, div a b ⇓ r := ⟨_, div_closed a b ha.1 ha.2⟩

theorem C07_mulScalar (t : IT) (a n : Int) (_hn : t.mem n) : ∃ r, mulScalar t a n ⇓ r := by
  unfold mulScalar
  by_cases h : t = IT.u64 ∧ n > i64max
  · rw [if_pos h]; exact ⟨_, rfl⟩
  · rw [if_neg h]
    cases mulInternal a (promote t n) with
    | none => exact ⟨_, rfl⟩
    | some p =>
      simp only []
      cases checkMulResult p <;> exact ⟨_, rfl⟩

theorem C07_divScalar (t : IT) (a n : Int) (ha : dom a) (_hn : t.mem n) : ∃ r, divScalar t a n ⇓ r := by
  unfold dom at ha
  unfold divScalar
  by_cases h0 : n ≠ 0
  · rw [if_pos h0]
    by_cases hb : t = IT.u64 ∧ n > i64max
    · rw [if_pos hb]; exact ⟨_, rfl⟩
    · rw [if_neg hb]
      unfold div64 i64min
      by_cases hp : promote t n = 0
      · rw [if_pos hp]
        -- promote never maps a non-zero in-range divisor to zero... but if it did the model would report UB; rule it out
        exfalso
        unfold promote at hp
        split at hp
        · rename_i ht; subst ht
          have : ¬ n > i64max := fun h2 => hb ⟨rfl, h2⟩
          unfold i64max at this
          simp only [IT.mem, IT.lo, IT.hi] at _hn
          rw [toI64_of_range (by omega) (by omega)] at hp
          exact h0 hp
        · exact h0 hp
      · rw [if_neg hp]
        have : ¬ (a = -9223372036854775808 ∧ promote t n = -1) := by omega
        rw [if_neg this]; exact ⟨_, rfl⟩
  · rw [if_neg h0]; exact ⟨_, rfl⟩

theorem C07_conversions (t : IT) (n x : Int) (hn : t.mem n) :
    (∃ r, toFixed t n ⇓ r) ∧ (∃ r, fromFixed t x ⇓ r) := by
  refine ⟨⟨_, C04_to t n hn⟩, ?_⟩
  unfold fromFixed
  rw [shr64_16]
  simp only [bind, Except.bind]
  split_ifs <;> exact ⟨_, rfl⟩

theorem C07_unary (x : Int) (hx : dom x) :
    (∃ r, neg x ⇓ r) ∧ (∃ r, abs x ⇓ r) ∧ (∃ b, isnan x ⇓ b) ∧ (∃ r, ceil x ⇓ r) ∧ (∃ r, floor x ⇓ r) := by
  unfold dom at hx
  refine ⟨⟨_, neg_ok x hx.1 hx.2⟩, ⟨_, abs_ok x hx.1 hx.2⟩, ?_, ⟨_, ceil_spec x (by omega) hx.2⟩, ⟨_, floor_spec x (by omega) hx.2⟩⟩
  unfold isnan
  rw [abs_ok x hx.1 hx.2]
  exact ⟨_, rfl⟩

/-- shifts for every count in [INT_MIN, 63] -/
theorem C07_shifts (x r : Int) (hx : dom x) (_h1 : -2147483648 ≤ r) (h2 : r ≤ 63) :
    (∃ s, shr x r ⇓ s) ∧ (∃ s, shl x r ⇓ s) ∧ (∃ s, band x r ⇓ s) := by
  unfold dom at hx
  refine ⟨?_, ?_, ⟨_, rfl⟩⟩
  · by_cases hr : 0 ≤ r
    · unfold shr shr64
      have : 0 ≤ r ∧ r < 64 := ⟨hr, by omega⟩
      simp only [ge_iff_le, hr, if_true, this, and_self]
      exact ⟨_, rfl⟩
    · exact ⟨_, (C18_neg_count x r (by omega)).1⟩
  · by_cases hr : 0 ≤ r
    · exact ⟨_, shl_spec x r (by omega) hx.2 hr h2⟩
    · exact ⟨_, (C18_neg_count x r (by omega)).2⟩

theorem C07_angle_to_radians (t : IT) (d : Int) (hd : t.mem d) : ∃ r, angleToRadians t d ⇓ r := by
  obtain ⟨r, hr, _⟩ := C20_a2r t d hd
  exact ⟨r, hr⟩

/-- sin, cos, tan for every finite or NaN argument -/
theorem C07_sin_cos_tan (v : Int) (hv : dom v) : (∃ r, sin v ⇓ r) ∧ (∃ r, cos v ⇓ r) ∧ (∃ r, tan v ⇓ r) := by
  unfold dom at hv
  have hsin : ∀ u : Int, -9223372036854775808 < u → u ≤ 9223372036854775807 → ∃ r, sin u ⇓ r := by
    intro u h1 h2
    obtain ⟨w, m, hs, hw1, hw2, _⟩ := sin_reduce u h1 h2
    obtain ⟨p, hp, _⟩ := sinPoly_acc w hw1 hw2
    exact ⟨p, by rw [hs, hp]⟩
  refine ⟨hsin v hv.1 hv.2, ?_, ?_⟩
  · unfold cos
    obtain ⟨a, ha⟩ := (C07_add_sub fixpidiv2 v (by unfold dom fixpidiv2; omega) hv).1
    rw [ha]
    simp only [bind, Except.bind]
    -- the sum is a finite value or a NaN sentinel, never INT64_MIN
    have hane : -9223372036854775808 < a ∧ a ≤ 9223372036854775807 := by
      revert ha
      unfold add negNaN neg NaNp chk64 toI64 toU64 lim_quiet_NaN i64min i64max two64 two63 fixpidiv2
      simp only [pure, Except.pure, throw, throwThe, MonadExceptOf.throw]
      split_ifs <;> intro h <;> first | (have := Except.ok.inj h; omega) | exact absurd h (by simp)
    exact hsin a hane.1 hane.2
  · obtain ⟨x1, htan, a0, a1, _, _⟩ := tan_eq v hv.1 hv.2
    by_cases hp : x1 = 102944
    · have hA := (tanRed_acc x1 a0 a1).1 hp
      have hB : tanRed x1 true = .ok 9223372036854775807 := by
        unfold tanRed; rw [if_neg (by unfold fixpidiv2; omega)]; rfl
      rw [htan]
      cases (decide (v < 0)) <;> exact ⟨_, by assumption⟩
    · obtain ⟨T, hT, hb1, hb2, _, _⟩ := (tanRed_acc x1 a0 a1).2 hp
      have hflip := tanRed_flip x1 T hT (by unfold fixpidiv2; exact hp) ⟨hb1, hb2⟩
      rw [htan]
      cases (decide (v < 0)) <;> exact ⟨_, by assumption⟩

/-- asin, acos (both sqrt back-ends) for every finite or NaN argument -/
theorem C07_asin_acos (be : SqrtBE) (v : Int) (hv : arg v) : (∃ r, asin be v ⇓ r) ∧ (∃ r, acos be v ⇓ r) := by
  obtain ⟨A, C, hA, hC, _⟩ := C12_nan_iff be v hv
  exact ⟨⟨A, hA⟩, ⟨C, hC⟩⟩

/-- the abacus square root for every argument -/
theorem C07_sqrt_abacus (v : Int) : ∃ r, sqrtAbacus v ⇓ r := by
  by_cases h : v < 0 ∨ v ≥ 281474976710656
  · unfold sqrtAbacus; rw [if_pos h]; exact ⟨_, rfl⟩
  · obtain ⟨r, hr, _⟩ := sqrtAbacus_spec v (by omega) (by omega)
    exact ⟨r, hr⟩

/-- sin_angle / cos_angle / tan_angle for every value of every integral argument type and for fixed_t arguments -/
theorem C07_angle_funcs (t : IT) (n : Int) (hn : t.mem n) :
    (∃ r, sinAngleInt t n ⇓ r) ∧ (∃ r, cosAngleInt t n ⇓ r) ∧ (∃ r, tanAngleInt t n ⇓ r) := by
  have harg : ∃ a, angleArgInt t n = .ok a ∧ dom a := by
    unfold angleArgInt
    obtain ⟨m, hm, h1, h2⟩ := C02_scalar t phi n (by unfold fin phi lim_lowest lim_max; omega) hn
    rw [hm]
    simp only [bind, Except.bind]
    have hmd : dom m := by
      by_cases hf : fin (phi * n)
      · rw [h1 hf]; unfold fin lim_lowest lim_max at hf; unfold dom; omega
      · have := h2 hf; unfold isNaN lim_quiet_NaN at this; unfold dom; omega
    obtain ⟨q, hq⟩ := C07_divScalar .i32 m 180 hmd (by simp only [IT.mem, IT.lo, IT.hi]; omega)
    refine ⟨q, hq, ?_⟩
    unfold divScalar at hq
    have h180 : (180 : Int) ≠ 0 := by omega
    have hnot : ¬ (IT.i32 = IT.u64 ∧ (180 : Int) > i64max) := by simp
    rw [if_pos h180, if_neg hnot] at hq
    unfold promote div64 i64min at hq
    unfold dom at hmd
    have c1 : ¬ ((180 : Int) = 0) := by omega
    have c2 : ¬ (m = -9223372036854775808 ∧ (180 : Int) = -1) := by omega
    have c0 : ¬ (IT.i32 = IT.u64) := by decide
    rw [if_neg c0, if_neg c1, if_neg c2] at hq
    have := Except.ok.inj hq
    have hb := Int.natAbs_tdiv_le_natAbs m 180
    unfold dom; omega
  obtain ⟨a, ha, hd⟩ := harg
  obtain ⟨h1, h2, h3⟩ := C07_sin_cos_tan a hd
  unfold sinAngleInt cosAngleInt tanAngleInt
  rw [ha]
  exact ⟨h1, h2, h3⟩

/-- the table functions: every 32-bit angle stays inside the 361-entry tables -/
theorem C07_angle_aprox (d : Int) (h1 : -2147483648 ≤ d) (h2 : d ≤ 2147483647) :
    (∃ r, sinAngleAprox d ⇓ r) ∧ (∃ r, cosAngleAprox d ⇓ r) := by
  obtain ⟨s, hs, _⟩ := C19_sin_aprox d h1 h2
  obtain ⟨c, hc, _⟩ := C19_cos_aprox d h1 h2
  exact ⟨⟨s, hs⟩, ⟨c, hc⟩⟩

/-- entry points whose UB-freedom is not (yet) a theorem: observed by the sanitizer leg only -/
def C07_remaining : List String :=
  ["atan", "atan2", "hypot", "sqrt (std::sqrt back-end)", "sqrt_aprox", "hypot_aprox", "atan_index_aprox", "atan_aprox",
   "fixed_t(float)", "fixed_t(double)", "operator+-*/ with a float operand", "sin_angle/cos_angle/tan_angle(float)"]

end FixedMath

/-
  C07  No public entry point has undefined behaviour, traps or reads out of bounds.

  In the model every operation the C++ standard leaves undefined (signed overflow, invalid shift, integer division
  by zero or INT64_MIN divided by -1, float-to-integer cast out of range, out-of-bounds table index) is an error value, so
  "returns normally" is `∃ r, f x = .ok r`.  One theorem per entry point, for EVERY argument of its domain
  (finite or NaN fixed_t = every int64 except INT64_MIN; every value of the integral type; shift counts in
  [INT_MIN, 63]; every datum of the float format = every bit pattern).  Covered: + - * / and scalar forms, conversions
  (integral and floating), unary functions, shifts, &, angle_to_radians, sin cos tan, asin acos, sqrt (both back-ends,
  every argument), hypot (both back-ends, every pair), atan, atan2, sin/cos/tan_angle (integral, fixed_t, float),
  the operators with a float operand, sin/cos_angle_aprox, sqrt_aprox, hypot_aprox, atan_index_aprox, atan_aprox.
  The operators with a `double` operand are pure IEEE operations of the model (`FP → FP → FP`, no error value exists),
  after `fixed_to_floating_point` which is total as well: nothing to prove for them.  `C07_remaining` is empty.

  The sanitizer leg (UBSan/ASan/_GLIBCXX_ASSERTIONS/float-cast-overflow build of the real library, ~1.2 M calls incl.
  NaN and extreme arguments on every run) ties the model's verdict to the binary.
-/
import FixedMath.Spec.C01
import FixedMath.Spec.C02
import FixedMath.Spec.C03
import FixedMath.Spec.C04
import FixedMath.Spec.C05
import FixedMath.Spec.C06
import FixedMath.Spec.C09
import FixedMath.Spec.C10
import FixedMath.Spec.C11
import FixedMath.Spec.C12
import FixedMath.Spec.C13
import FixedMath.Spec.C14
import FixedMath.Spec.C15
import FixedMath.Spec.C18
import FixedMath.Spec.C19
import FixedMath.Spec.C20

namespace FixedMath
open Gen R

/-- the argument domain of C07 for a fixed_t parameter: every raw value except INT64_MIN -/
def dom (v : Int) : Prop := -9223372036854775808 < v ∧ v ≤ 9223372036854775807

theorem arg_dom (v : Int) (h : arg v) : dom v := by
  unfold arg fin isNaN lim_lowest lim_max lim_quiet_NaN at h; unfold dom; omega

theorem C07_add_sub (a b : Int) (ha : dom a) (hb : dom b) : (∃ r, add a b ⇓ r) ∧ (∃ r, sub a b ⇓ r) := by
  unfold dom at *
  constructor
  · unfold add negNaN neg NaNp chk64 toI64 toU64 lim_quiet_NaN i64min i64max two64 two63
    simp only [pure, Except.pure, throw, throwThe, MonadExceptOf.throw]
    split_ifs <;> first | omega | exact ⟨_, rfl⟩
  · unfold sub negNaN neg NaNp chk64 toI64 toU64 lim_quiet_NaN i64min i64max two64 two63
    simp only [pure, Except.pure, throw, throwThe, MonadExceptOf.throw]
    split_ifs <;> first | omega | exact ⟨_, rfl⟩

theorem C07_mul (a b : Int) : ∃ r, mul a b ⇓ r := ⟨_, mul_closed a b⟩

theorem C07_div (a b : Int) (ha : dom a) : ∃ r, div a b ⇓ r := ⟨_, div_closed a b ha.1 ha.2⟩

theorem C07_mulScalar (t : IT) (a n : Int) (_hn : t.mem n) : ∃ r, mulScalar t a n ⇓ r := by
  unfold mulScalar
  by_cases h : t = IT.u64 ∧ n > i64max
  · rw [if_pos h]; exact ⟨_, rfl⟩
  · rw [if_neg h]
    cases mulInternal a (promote t n) with
    | none => exact ⟨_, rfl⟩
    | some p =>
      simp only []
      cases checkMulResult p <;> exact ⟨_, rfl⟩

theorem C07_divScalar (t : IT) (a n : Int) (ha : dom a) (_hn : t.mem n) : ∃ r, divScalar t a n ⇓ r := by
  unfold dom at ha
  unfold divScalar
  by_cases h0 : n ≠ 0
  · rw [if_pos h0]
    by_cases hb : t = IT.u64 ∧ n > i64max
    · rw [if_pos hb]; exact ⟨_, rfl⟩
    · rw [if_neg hb]
      unfold div64 i64min
      by_cases hp : promote t n = 0
      · rw [if_pos hp]
        -- promote never maps a non-zero in-range divisor to zero... but if it did the model would report UB; rule it out
        exfalso
        unfold promote at hp
        split at hp
        · rename_i ht; subst ht
          have : ¬ n > i64max := fun h2 => hb ⟨rfl, h2⟩
          unfold i64max at this
          simp only [IT.mem, IT.lo, IT.hi] at _hn
          rw [toI64_of_range (by omega) (by omega)] at hp
          exact h0 hp
        · exact h0 hp
      · rw [if_neg hp]
        have : ¬ (a = -9223372036854775808 ∧ promote t n = -1) := by omega
        rw [if_neg this]; exact ⟨_, rfl⟩
  · rw [if_neg h0]; exact ⟨_, rfl⟩

theorem C07_conversions (t : IT) (n x : Int) (hn : t.mem n) :
    (∃ r, toFixed t n ⇓ r) ∧ (∃ r, fromFixed t x ⇓ r) := by
  refine ⟨⟨_, C04_to t n hn⟩, ?_⟩
  unfold fromFixed
  rw [shr64_16]
  simp only [bind, Except.bind]
  split_ifs <;> exact ⟨_, rfl⟩

theorem C07_unary (x : Int) (hx : dom x) :
    (∃ r, neg x ⇓ r) ∧ (∃ r, abs x ⇓ r) ∧ (∃ b, isnan x ⇓ b) ∧ (∃ r, ceil x ⇓ r) ∧ (∃ r, floor x ⇓ r) := by
  unfold dom at hx
  refine ⟨⟨_, neg_ok x hx.1 hx.2⟩, ⟨_, abs_ok x hx.1 hx.2⟩, ?_, ⟨_, ceil_spec x (by omega) hx.2⟩, ⟨_, floor_spec x (by omega) hx.2⟩⟩
  unfold isnan
  rw [abs_ok x hx.1 hx.2]
  exact ⟨_, rfl⟩

/-- shifts for every count in [INT_MIN, 63] -/
theorem C07_shifts (x r : Int) (hx : dom x) (_h1 : -2147483648 ≤ r) (h2 : r ≤ 63) :
    (∃ s, shr x r ⇓ s) ∧ (∃ s, shl x r ⇓ s) ∧ (∃ s, band x r ⇓ s) := by
  unfold dom at hx
  refine ⟨?_, ?_, ⟨_, rfl⟩⟩
  · by_cases hr : 0 ≤ r
    · unfold shr shr64
      have : 0 ≤ r ∧ r < 64 := ⟨hr, by omega⟩
      simp only [ge_iff_le, hr, if_true, this, and_self]
      exact ⟨_, rfl⟩
    · exact ⟨_, (C18_neg_count x r (by omega)).1⟩
  · by_cases hr : 0 ≤ r
    · exact ⟨_, shl_spec x r (by omega) hx.2 hr h2⟩
    · exact ⟨_, (C18_neg_count x r (by omega)).2⟩

theorem C07_angle_to_radians (t : IT) (d : Int) (hd : t.mem d) : ∃ r, angleToRadians t d ⇓ r := by
  obtain ⟨r, hr, _⟩ := C20_a2r t d hd
  exact ⟨r, hr⟩

/-- sin, cos, tan for every finite or NaN argument -/
theorem C07_sin_cos_tan (v : Int) (hv : dom v) : (∃ r, sin v ⇓ r) ∧ (∃ r, cos v ⇓ r) ∧ (∃ r, tan v ⇓ r) := by
  unfold dom at hv
  have hsin : ∀ u : Int, -9223372036854775808 < u → u ≤ 9223372036854775807 → ∃ r, sin u ⇓ r := by
    intro u h1 h2
    obtain ⟨w, m, hs, hw1, hw2, _⟩ := sin_reduce u h1 h2
    obtain ⟨p, hp, _⟩ := sinPoly_acc w hw1 hw2
    exact ⟨p, by rw [hs, hp]⟩
  refine ⟨hsin v hv.1 hv.2, ?_, ?_⟩
  · unfold cos
    obtain ⟨a, ha⟩ := (C07_add_sub fixpidiv2 v (by unfold dom fixpidiv2; omega) hv).1
    rw [ha]
    simp only [bind, Except.bind]
    -- the sum is a finite value or a NaN sentinel, never INT64_MIN
    have hane : -9223372036854775808 < a ∧ a ≤ 9223372036854775807 := by
      revert ha
      unfold add negNaN neg NaNp chk64 toI64 toU64 lim_quiet_NaN i64min i64max two64 two63 fixpidiv2
      simp only [pure, Except.pure, throw, throwThe, MonadExceptOf.throw]
      split_ifs <;> intro h <;> first | (have := Except.ok.inj h; omega) | exact absurd h (by simp)
    exact hsin a hane.1 hane.2
  · obtain ⟨x1, htan, a0, a1, _, _⟩ := tan_eq v hv.1 hv.2
    by_cases hp : x1 = 102944
    · have hA := (tanRed_acc x1 a0 a1).1 hp
      have hB : tanRed x1 true = .ok 9223372036854775807 := by
        unfold tanRed; rw [if_neg (by unfold fixpidiv2; omega)]; rfl
      rw [htan]
      cases (decide (v < 0)) <;> exact ⟨_, by assumption⟩
    · obtain ⟨T, hT, hb1, hb2, _, _⟩ := (tanRed_acc x1 a0 a1).2 hp
      have hflip := tanRed_flip x1 T hT (by unfold fixpidiv2; exact hp) ⟨hb1, hb2⟩
      rw [htan]
      cases (decide (v < 0)) <;> exact ⟨_, by assumption⟩

/-- asin, acos (both sqrt back-ends) for every finite or NaN argument -/
theorem C07_asin_acos (be : SqrtBE) (v : Int) (hv : arg v) : (∃ r, asin be v ⇓ r) ∧ (∃ r, acos be v ⇓ r) := by
  obtain ⟨A, C, hA, hC, _⟩ := C12_nan_iff be v hv
  exact ⟨⟨A, hA⟩, ⟨C, hC⟩⟩

/-- the abacus square root for every argument -/
theorem C07_sqrt_abacus (v : Int) : ∃ r, sqrtAbacus v ⇓ r := by
  by_cases h : v < 0 ∨ v ≥ 281474976710656
  · unfold sqrtAbacus; rw [if_pos h]; exact ⟨_, rfl⟩
  · obtain ⟨r, hr, _⟩ := sqrtAbacus_spec v (by omega) (by omega)
    exact ⟨r, hr⟩

/-- sin_angle / cos_angle / tan_angle for every value of every integral argument type and for fixed_t arguments -/
theorem C07_angle_funcs (t : IT) (n : Int) (hn : t.mem n) :
    (∃ r, sinAngleInt t n ⇓ r) ∧ (∃ r, cosAngleInt t n ⇓ r) ∧ (∃ r, tanAngleInt t n ⇓ r) := by
  have harg : ∃ a, angleArgInt t n = .ok a ∧ dom a := by
    unfold angleArgInt
    obtain ⟨m, hm, h1, h2⟩ := C02_scalar t phi n (by unfold fin phi lim_lowest lim_max; omega) hn
    rw [hm]
    simp only [bind, Except.bind]
    have hmd : dom m := by
      by_cases hf : fin (phi * n)
      · rw [h1 hf]; unfold fin lim_lowest lim_max at hf; unfold dom; omega
      · have := h2 hf; unfold isNaN lim_quiet_NaN at this; unfold dom; omega
    obtain ⟨q, hq⟩ := C07_divScalar .i32 m 180 hmd (by simp only [IT.mem, IT.lo, IT.hi]; omega)
    refine ⟨q, hq, ?_⟩
    unfold divScalar at hq
    have h180 : (180 : Int) ≠ 0 := by omega
    have hnot : ¬ (IT.i32 = IT.u64 ∧ (180 : Int) > i64max) := by simp
    rw [if_pos h180, if_neg hnot] at hq
    unfold promote div64 i64min at hq
    unfold dom at hmd
    have c1 : ¬ ((180 : Int) = 0) := by omega
    have c2 : ¬ (m = -9223372036854775808 ∧ (180 : Int) = -1) := by omega
    have c0 : ¬ (IT.i32 = IT.u64) := by decide
    rw [if_neg c0, if_neg c1, if_neg c2] at hq
    have := Except.ok.inj hq
    have hb := Int.natAbs_tdiv_le_natAbs m 180
    unfold dom; omega
  obtain ⟨a, ha, hd⟩ := harg
  obtain ⟨h1, h2, h3⟩ := C07_sin_cos_tan a hd
  unfold sinAngleInt cosAngleInt tanAngleInt
  rw [ha]
  exact ⟨h1, h2, h3⟩

/-- the table functions: every 32-bit angle stays inside the 361-entry tables -/
theorem C07_angle_aprox (d : Int) (h1 : -2147483648 ≤ d) (h2 : d ≤ 2147483647) :
    (∃ r, sinAngleAprox d ⇓ r) ∧ (∃ r, cosAngleAprox d ⇓ r) := by
  obtain ⟨s, hs, _⟩ := C19_sin_aprox d h1 h2
  obtain ⟨c, hc, _⟩ := C19_cos_aprox d h1 h2
  exact ⟨⟨s, hs⟩, ⟨c, hc⟩⟩

theorem C07_sqrt_aprox (v : Int) (hv : dom v) : ∃ r, sqrtAprox v ⇓ r := by
  unfold dom at hv
  unfold sqrtAprox
  by_cases h0 : v ≤ 0
  · rw [if_pos h0]; split <;> exact ⟨_, rfl⟩
  · rw [if_neg h0, shr64_ok v 6 (by omega)]
    simp only [bind, Except.bind]
    generalize hs : toU32 (v / 2 ^ (6 : Int).toNat) = s
    have hs0 : 0 ≤ s ∧ s < 4294967296 := by rw [← hs]; unfold toU32; omega
    obtain ⟨r0, r1⟩ := rbitScanClz_range s hs0.1 hs0.2
    obtain ⟨c0, c1, c2⟩ := andFE_range (rbitScanClz s) r0 (by omega)
    generalize hcl : andFE (rbitScanClz s) = cl at c0 c1 c2 ⊢
    rw [shr64_ok v cl (by omega)]
    simp only []
    generalize hidx : toU8 (toI32 (v / 2 ^ cl.toNat)) = ix
    have hix : 0 ≤ ix ∧ ix < 256 := by rw [← hidx]; unfold toU8; omega
    obtain ⟨e, he, e0, e1⟩ := squareRootTab_ok ix hix.1 hix.2
    rw [he, shr64_ok cl 1 (by omega)]
    simp only []
    have hp1 : (2 : Int) ^ (1 : Int).toNat = 2 := by decide
    rw [hp1]
    have hc2 : 0 ≤ cl / 2 ∧ cl / 2 ≤ 16 := by omega
    obtain ⟨p1, p2⟩ := pow_even_bound (cl / 2) hc2.1 hc2.2
    rw [shl64_ok e (cl / 2) (by omega) e0 (by unfold two64; nlinarith)]
    simp only []
    rw [shr64_ok _ 4 (by omega)]
    exact ⟨_, rfl⟩

theorem C07_hypot_aprox (a b : Int) (_ha : dom a) (_hb : dom b) : ∃ r, hypotAprox a b ⇓ r := by
  unfold hypotAprox
  simp only [bind, Except.bind, pure, Except.pure]
  generalize hsum : ((toU64 a * toU64 a) % two64 + (toU64 b * toU64 b) % two64) % two64 = sum
  have hs0 : 0 ≤ sum := by rw [← hsum]; unfold two64; omega
  by_cases hbig : sum > 70368744177663
  · rw [if_pos hbig]; exact ⟨_, rfl⟩
  · rw [if_neg hbig]
    generalize hhi : toU32 (sum / 4294967296) = hi
    have hhi0 : 0 ≤ hi ∧ hi < 16384 := by rw [← hhi]; unfold toU32; omega
    obtain ⟨r0, _⟩ := rbitScanClz_range hi hhi0.1 (by omega)
    have r1 := rbitScanClz_le hi 14 hhi0.1 (by norm_num; omega)
    by_cases hc : rbitScanClz hi ≠ 0
    · rw [if_pos hc]
      obtain ⟨c0, c1, c2⟩ := andFE_range (rbitScanClz hi + 2) (by omega) (by omega)
      generalize hcl : andFE (rbitScanClz hi + 2) = cl at c0 c1 c2 ⊢
      rw [shrU64_ok sum cl (by omega)]
      simp only []
      generalize hidx : toU8 (toU32 (sum / 2 ^ cl.toNat / 16777216 % 256)) = ix
      have hix : 0 ≤ ix ∧ ix < 256 := by rw [← hidx]; unfold toU8; omega
      obtain ⟨e, he, e0, e1⟩ := squareRootTab_ok ix hix.1 hix.2
      rw [he, shr64_ok cl 1 (by omega)]
      simp only []
      have hp1 : (2 : Int) ^ (1 : Int).toNat = 2 := by decide
      rw [hp1]
      obtain ⟨p1, p2⟩ := pow_even_bound (cl / 2) (by omega) (by omega)
      rw [shl64_ok e (cl / 2) (by omega) e0 (by unfold two64; nlinarith)]
      exact ⟨_, rfl⟩
    · rw [if_neg hc]
      generalize hlo : toU32 (sum % 4294967296) / 65536 = lo
      have hlo0 : 0 ≤ lo ∧ lo < 65536 := by rw [← hlo]; unfold toU32; omega
      obtain ⟨q0, _⟩ := rbitScanClz_range (lo / 64) (by omega) (by omega)
      have q1 := rbitScanClz_le (lo / 64) 10 (by omega) (by norm_num; omega)
      obtain ⟨c0, c1, c2⟩ := andFE_range (rbitScanClz (lo / 64)) q0 (by omega)
      generalize hcl : andFE (rbitScanClz (lo / 64)) = cl at c0 c1 c2 ⊢
      rw [shrU64_ok lo cl (by omega)]
      simp only []
      generalize hidx : toU8 (lo / 2 ^ cl.toNat) = ix
      have hix : 0 ≤ ix ∧ ix < 256 := by rw [← hidx]; unfold toU8; omega
      obtain ⟨e, he, e0, e1⟩ := squareRootTab_ok ix hix.1 hix.2
      rw [he, shr64_ok cl 1 (by omega)]
      simp only []
      have hp1 : (2 : Int) ^ (1 : Int).toNat = 2 := by decide
      rw [hp1]
      obtain ⟨p1, p2⟩ := pow_even_bound (cl / 2) (by omega) (by omega)
      rw [shl64_ok e (cl / 2) (by omega) e0 (by unfold two64; nlinarith)]
      simp only []
      rw [shr64_ok _ 4 (by omega)]
      exact ⟨_, rfl⟩

/-- `std::lower_bound` over a 256-entry table: every access in bounds, result inside the searched window -/
theorem lowerBound_ok (value : Int) : ∀ (fuel : Nat) (first len : Int), 0 ≤ first → 0 ≤ len → first + len ≤ 256 →
    ∃ r, lowerBound tan_table value fuel first len = .ok r ∧ first ≤ r ∧ r ≤ first + len := by
  intro fuel
  induction fuel with
  | zero => intro first len h0 h1 h2; exact ⟨first, rfl, le_refl _, by omega⟩
  | succ n ih =>
    intro first len h0 h1 h2
    unfold lowerBound
    by_cases hl : len > 0
    · rw [if_pos hl]
      simp only [bind, Except.bind]
      obtain ⟨e, he, _⟩ := tanTab_ok (first + len / 2) (by omega) (by omega)
      unfold tanTab at he
      rw [he]
      simp only []
      by_cases hlt : e < value
      · rw [if_pos hlt]
        obtain ⟨r, hr, r1, r2⟩ := ih (first + len / 2 + 1) (len - len / 2 - 1) (by omega) (by omega) (by omega)
        exact ⟨r, hr, by omega, by omega⟩
      · rw [if_neg hlt]
        obtain ⟨r, hr, r1, r2⟩ := ih first (len / 2) h0 (by omega) (by omega)
        exact ⟨r, hr, r1, by omega⟩
    · rw [if_neg hl]; exact ⟨first, rfl, le_refl _, by omega⟩


theorem shl15_ok (j : Int) (j0 : 0 ≤ j) (j1 : j ≤ 256) :
    ∃ r, atanIndexAprox.shl64' j = .ok r ∧ 0 ≤ r ∧ r ≤ 8388608 := by
  unfold atanIndexAprox.shl64'
  have hp : (2 : Int) ^ (15 : Int).toNat = 32768 := by decide
  rw [shl64_ok j 15 (by omega) j0 (by rw [hp]; unfold two64; omega), hp]
  refine ⟨_, rfl, ?_⟩
  unfold toI64 two64 two63; simp only []; split <;> omega

theorem m128_ok : toFixed .i64 128 = .ok 8388608 := by decide +kernel

theorem C07_atan_index_aprox (v : Int) (hv : dom v) : ∃ r, atanIndexAprox v ⇓ r := by
  unfold atanIndexAprox
  by_cases h0 : v ≥ 0
  · rw [if_pos h0]
    obtain ⟨i, hi, i0, i1⟩ := lowerBound_ok v 16 0 128 (by omega) (by omega) (by omega)
    simp only [bind, Except.bind, hi, pure, Except.pure]
    by_cases hi0 : i ≠ 0
    · rw [if_pos hi0]
      obtain ⟨hi', hhi, hi1, hi2⟩ := tanTab_ok (toU8 i) (by unfold toU8; omega) (by unfold toU8; omega)
      obtain ⟨lo, hlo, lo1, lo2⟩ := tanTab_ok (toU8 (i - 1)) (by unfold toU8; omega) (by unfold toU8; omega)
      obtain ⟨a, ha⟩ := (C07_add_sub hi' v (by unfold dom; omega) hv).2
      obtain ⟨b, hb⟩ := (C07_add_sub v lo hv (by unfold dom; omega)).2
      simp only [hhi, hlo, ha, hb]
      by_cases hab : a > b
      · simp only [hab, if_true]
        obtain ⟨r, hr, _⟩ := shl15_ok (i - 1) (by omega) (by omega)
        exact ⟨r, hr⟩
      · simp only [hab, if_false]
        obtain ⟨r, hr, _⟩ := shl15_ok i (by omega) (by omega)
        exact ⟨r, hr⟩
    · rw [if_neg hi0]
      obtain ⟨r, hr, _⟩ := shl15_ok i (by omega) (by omega)
      exact ⟨r, hr⟩
  · rw [if_neg h0]
    obtain ⟨i, hi, i0, i1⟩ := lowerBound_ok v 16 128 128 (by omega) (by omega) (by omega)
    have fin_tail : ∀ s : Int, 0 ≤ s → s ≤ 8388608 →
        ∃ r, (match toFixed IT.i64 128 with
          | Except.error err => Except.error err
          | Except.ok m => match neg m with
            | Except.error err => Except.error err
            | Except.ok m => add m s) = Except.ok r := by
      intro s s0 s1
      rw [m128_ok]
      have : neg 8388608 = .ok (-8388608) := by decide
      simp only [this]
      exact (C07_add_sub (-8388608) s (by unfold dom; omega) (by unfold dom; omega)).1
    simp only [bind, Except.bind, hi, pure, Except.pure]
    by_cases hi0 : i ≠ 0
    · rw [if_pos hi0]
      obtain ⟨hi', hhi, hi1, hi2⟩ := tanTab_ok (toU8 i) (by unfold toU8; omega) (by unfold toU8; omega)
      obtain ⟨lo, hlo, lo1, lo2⟩ := tanTab_ok (toU8 (i - 1)) (by unfold toU8; omega) (by unfold toU8; omega)
      obtain ⟨a, ha⟩ := (C07_add_sub hi' v (by unfold dom; omega) hv).2
      obtain ⟨b, hb⟩ := (C07_add_sub v lo hv (by unfold dom; omega)).2
      simp only [hhi, hlo, ha, hb]
      by_cases hab : a > b
      · simp only [hab, if_true]
        obtain ⟨r, hr, r0, r1⟩ := shl15_ok (i - 1) (by omega) (by omega)
        rw [hr]; exact fin_tail r r0 r1
      · simp only [hab, if_false]
        obtain ⟨r, hr, r0, r1⟩ := shl15_ok i (by omega) (by omega)
        rw [hr]; exact fin_tail r r0 r1
    · rw [if_neg hi0]
      obtain ⟨r, hr, r0, r1⟩ := shl15_ok i (by omega) (by omega)
      rw [hr]; exact fin_tail r r0 r1

theorem C07_atan_aprox (v : Int) (hv : dom v) : ∃ r, atanAprox v ⇓ r := by
  unfold atanAprox
  obtain ⟨i, hi⟩ := C07_atan_index_aprox v hv
  simp only [bind, Except.bind, hi]
  exact C07_mul i fixtorad_r


/-- `hypotU` returns for every `uint64` magnitude pair with a large first operand (no range restriction) -/
theorem hypotU_total_big (be : SqrtBE) (hs : SqrtNear be) (A B : Int) (hA0 : 1073741824 ≤ A) (hA : A ≤ 9223372036854775807)
    (hB0 : 0 ≤ B) (hBA : B ≤ A) : ∃ h : Int, hypotU be A B = .ok h := by
  obtain ⟨L, hclz, hL1, hL2⟩ := clz64_spec A (by omega)
  have hLlo : 30 < L + 1 := pow_le_of_lt 30 A (L + 1) (by norm_num; omega) hL2
  have hLhi : L < 63 := pow_le_of_lt L A 63 hL1 (by norm_num; omega)
  unfold hypotU
  rw [if_neg (by omega), if_pos (by omega), hclz]
  simp only []
  have hr : (48 : Int) - (63 - (L : Int)) = ((L - 15 : ℕ) : Int) := by omega
  rw [hr]
  set sN : Nat := L - 15 with hsN
  have hsr : (0 : Int) ≤ (sN : Int) ∧ (sN : Int) < 64 := by omega
  unfold shrU64 shlU64
  simp only [hsr, and_self, if_true, Int.toNat_natCast, bind, Except.bind, pure, Except.pure]
  generalize hp : (2 : Int) ^ sN = p
  have hp1 : 1 ≤ p := by
    rw [← hp]; have : (0 : Int) < 2 ^ sN := by positivity
    omega
  have hLp : (2 : Int) ^ L = 32768 * p := by
    have : L = 15 + sN := by omega
    rw [this, pow_add, hp]; norm_num
  have hL2' : A < 65536 * p := by
    have : (2 : Int) ^ (L + 1) = 2 * 2 ^ L := by rw [pow_succ]; ring
    rw [this, hLp] at hL2; omega
  generalize ha : A / p = a
  generalize hb : B / p = b
  have hA1 : a * p ≤ A := by rw [← ha]; exact Int.ediv_mul_le A (by omega)
  have hb0 : 0 ≤ b := by rw [← hb]; exact Int.ediv_nonneg hB0 (by omega)
  have ha0 : 0 ≤ a := by rw [← ha]; exact Int.ediv_nonneg (by omega) (by omega)
  have ha2 : a < 65536 := by
    by_contra hc; push Not at hc
    have : 65536 * p ≤ a * p := Int.mul_le_mul_of_nonneg_right hc (by omega)
    omega
  have hba : b ≤ a := by
    rw [← ha, ← hb]; exact Int.ediv_le_ediv (by omega) hBA
  have haa : a * a < 65536 * 65536 := by
    have := sq_mono a 65535 (by omega) (by omega); omega
  have hbb : b * b ≤ a * a := sq_mono _ _ hb0 hba
  have hbb0 : 0 ≤ b * b := Int.mul_nonneg hb0 hb0
  have haa0 : 0 ≤ a * a := Int.mul_nonneg ha0 ha0
  unfold two64
  generalize hS : a * a + b * b = S' at *
  have m3 : S' % 18446744073709551616 = S' := by omega
  rw [m3, toI64_of_range (by omega) (by omega)]
  obtain ⟨q, hq, hq0, _, _⟩ := hs (S' / 65536) (by omega) (by omega)
  rw [hq]
  simp only []
  split <;> exact ⟨_, rfl⟩

theorem C07_hypot (be : SqrtBE) (hs : SqrtNear be) (a b : Int) (ha : dom a) (hb : dom b) : ∃ h, hypot be a b ⇓ h := by
  unfold dom at ha hb
  rw [hypot_eq be a b ha hb]
  generalize hx : (if a < 0 then -a else a) = x
  generalize hy : (if b < 0 then -b else b) = y
  have hx0 : 0 ≤ x ∧ x ≤ 9223372036854775807 := by rw [← hx]; split <;> omega
  have hy0 : 0 ≤ y ∧ y ≤ 9223372036854775807 := by rw [← hy]; split <;> omega
  by_cases hbig : max x y < 140737488355328
  · obtain ⟨h, hh, _⟩ := hypotU_acc be hs (max x y) (min x y) (by omega) (by omega) hbig
    exact ⟨h, hh⟩
  · exact hypotU_total_big be hs (max x y) (min x y) (by omega) (by omega) (by omega) (by omega)

theorem C07_hypot_both (a b : Int) (ha : dom a) (hb : dom b) : (∃ h, hypot .abacus a b ⇓ h) ∧ (∃ h, hypot .std a b ⇓ h) :=
  ⟨C07_hypot .abacus sqrtNear_abacus a b ha hb, C07_hypot .std sqrtNear_std a b ha hb⟩

theorem C07_atan (v : Int) (hv : dom v) : ∃ a, (atan v ⇓ a) ∧ -102944 ≤ a ∧ a ≤ 102944 := by
  unfold dom at hv
  by_cases h0 : 0 ≤ v
  · obtain ⟨a, ha, a0, a1, _⟩ := atan_nonneg_acc v h0 hv.2
    exact ⟨a, ha, by omega, a1⟩
  · obtain ⟨a, ha, a0, a1, _⟩ := atan_nonneg_acc (-v) (by omega) (by omega)
    have hn := atan_neg (-v) a (by omega) (by omega) ha (by omega)
    rw [Int.neg_neg] at hn
    exact ⟨-a, hn, by omega, by omega⟩

theorem C07_atan2 (y x : Int) (hy : dom y) (hx : dom x) : ∃ r, atan2 y x ⇓ r := by
  have hq : ∃ q, (div y x ⇓ q) ∧ dom q := by
    refine ⟨_, div_closed y x hy.1 hy.2, ?_⟩
    unfold dom NaNp lim_quiet_NaN
    split
    · rename_i h
      have : (Int.tdiv (y * 65536) x).natAbs ≤ (y * 65536).natAbs := by
        rw [Int.natAbs_tdiv]; exact Nat.div_le_self _ _
      omega
    · omega
  unfold atan2
  by_cases h1 : x > 0
  · rw [if_pos h1]
    obtain ⟨q, hq1, hq2⟩ := hq
    obtain ⟨a, ha, _⟩ := C07_atan q hq2
    simp only [bind, Except.bind, hq1]
    exact ⟨a, ha⟩
  · rw [if_neg h1]
    by_cases h2 : x < 0
    · rw [if_pos h2]
      obtain ⟨q, hq1, hq2⟩ := hq
      obtain ⟨a, ha, a0, a1⟩ := C07_atan q hq2
      simp only [bind, Except.bind, hq1, ha]
      have hphi : dom phi := by unfold dom phi; omega
      split
      · exact (C07_add_sub a phi (by unfold dom; omega) hphi).1
      · exact (C07_add_sub a phi (by unfold dom; omega) hphi).2
    · rw [if_neg h2]
      split
      · exact ⟨_, rfl⟩
      · split
        · exact ⟨-fixpidiv2, by decide⟩
        · exact ⟨_, rfl⟩


/-- `floating_point_to_fixed<F>` returns, with a value that is a valid fixed_t argument, for every datum -/
theorem C07_from_float (f : Fmt) (hf : GoodFmt f) (v : FP) (hv : InFmt f v) : ∃ r, (fpToFixed f v ⇓ r) ∧ dom r := by
  obtain ⟨h1, h2⟩ := C05_to f hf v hv
  by_cases hc : v.Finite ∧ |v.val| < 2147483647
  · obtain ⟨r, hr, _, herr, _⟩ := h1 hc
    refine ⟨r, hr, ?_⟩
    have hp : (2 : ℝ) ^ (-(f.p : ℤ)) ≤ 1 := by
      apply zpow_le_one_of_nonpos₀ (by norm_num); omega
    have hpp : (0 : ℝ) < (2 : ℝ) ^ (-(f.p : ℤ)) := by positivity
    have hv0 : 0 ≤ |v.val| := abs_nonneg _
    have hb : (|v.val| * 65536 + 1 / 2) * (2 : ℝ) ^ (-(f.p : ℤ)) ≤ (|v.val| * 65536 + 1 / 2) * 1 :=
      mul_le_mul_of_nonneg_left hp (by positivity)
    obtain ⟨e1, e2⟩ := abs_le.mp herr
    obtain ⟨v1, v2⟩ := abs_le.mp (le_of_lt hc.2)
    have a1 : (r : ℝ) < 9223372036854775807 := by nlinarith [abs_nonneg v.val, le_abs_self v.val, neg_abs_le v.val]
    have a2 : (-9223372036854775807 : ℝ) < (r : ℝ) := by nlinarith [abs_nonneg v.val, le_abs_self v.val, neg_abs_le v.val]
    have b1 : r < 9223372036854775807 := by exact_mod_cast a1
    have b2 : -9223372036854775807 < r := by exact_mod_cast a2
    unfold dom; omega
  · exact ⟨NaNp, h2 hc, by unfold dom NaNp lim_quiet_NaN; omega⟩

/-- the four operators with a `float` operand, both operand orders -/
theorem C07_float_ops (a : Int) (ha : dom a) (v : FP) (hv : InFmt b32 v) :
    (∃ r, addFloat a v ⇓ r) ∧ (∃ r, addFloatL v a ⇓ r) ∧ (∃ r, subFloat a v ⇓ r) ∧ (∃ r, subFloatL v a ⇓ r) ∧
    (∃ r, mulFloat a v ⇓ r) ∧ (∃ r, mulFloatL v a ⇓ r) ∧ (∃ r, divFloat a v ⇓ r) ∧ (∃ r, divFloatL v a ⇓ r) := by
  obtain ⟨c, hc, hcd⟩ := C07_from_float b32 good_b32 v hv
  unfold addFloat addFloatL subFloat subFloatL mulFloat mulFloatL divFloat divFloatL promoteFloat
  simp only [bind, Except.bind, hc]
  exact ⟨(C07_add_sub a c ha hcd).1, (C07_add_sub c a hcd ha).1, (C07_add_sub a c ha hcd).2, (C07_add_sub c a hcd ha).2,
    C07_mul a c, C07_mul c a, C07_div a c ha, C07_div c a hcd⟩

/-- `x * phi / 180` for a fixed_t `x` -/
theorem angle_tail (f : Int) : ∃ a, (do let m ← mul f phi; divScalar .i32 m 180 : M Int) = .ok a ∧ dom a := by
  have hm := mul_closed f phi
  simp only [bind, Except.bind, hm]
  generalize hmv : (if -9223372036854775808 ≤ f * phi ∧ f * phi ≤ 9223372036854775807 then f * phi / 65536 else NaNp) = m
  have hmd : dom m := by
    rw [← hmv]; unfold dom NaNp lim_quiet_NaN; split <;> omega
  obtain ⟨q, hq⟩ := C07_divScalar .i32 m 180 hmd (by simp only [IT.mem, IT.lo, IT.hi]; omega)
  refine ⟨q, hq, ?_⟩
  unfold divScalar at hq
  have h180 : (180 : Int) ≠ 0 := by omega
  have hnot : ¬ (IT.i32 = IT.u64 ∧ (180 : Int) > i64max) := by simp
  rw [if_pos h180, if_neg hnot] at hq
  unfold promote div64 i64min at hq
  unfold dom at hmd
  have c1 : ¬ ((180 : Int) = 0) := by omega
  have c2 : ¬ (m = -9223372036854775808 ∧ (180 : Int) = -1) := by omega
  have c0 : ¬ (IT.i32 = IT.u64) := by decide
  rw [if_neg c0, if_neg c1, if_neg c2] at hq
  have := Except.ok.inj hq
  have hb := Int.natAbs_tdiv_le_natAbs m 180
  unfold dom; omega

/-- sin_angle / cos_angle / tan_angle for fixed_t and for float arguments -/
theorem C07_angle_fixed_float (x : Int) (v : FP) (hv : InFmt b32 v) :
    ((∃ r, sinAngleFixed x ⇓ r) ∧ (∃ r, cosAngleFixed x ⇓ r) ∧ (∃ r, tanAngleFixed x ⇓ r)) ∧
    ((∃ r, sinAngleFloat v ⇓ r) ∧ (∃ r, cosAngleFloat v ⇓ r) ∧ (∃ r, tanAngleFloat v ⇓ r)) := by
  constructor
  · obtain ⟨a, ha, hd⟩ := angle_tail x
    obtain ⟨h1, h2, h3⟩ := C07_sin_cos_tan a hd
    unfold sinAngleFixed cosAngleFixed tanAngleFixed angleArgFixed
    simp only [bind, Except.bind] at ha ⊢
    rw [ha]
    exact ⟨h1, h2, h3⟩
  · obtain ⟨c, hc, _⟩ := C07_from_float b32 good_b32 v hv
    obtain ⟨a, ha, hd⟩ := angle_tail c
    obtain ⟨h1, h2, h3⟩ := C07_sin_cos_tan a hd
    unfold sinAngleFloat cosAngleFloat tanAngleFloat angleArgFloat
    simp only [bind, Except.bind, hc] at ha ⊢
    rw [ha]
    exact ⟨h1, h2, h3⟩

/-- `sqrt` with either back-end, for every argument -/
theorem C07_sqrt (be : SqrtBE) (v : Int) (hv : dom v) : ∃ r, sqrt be v ⇓ r := by
  cases be with
  | abacus => exact C07_sqrt_abacus v
  | std => exact sqrtStd_total v (by unfold dom at hv; omega) hv.2


/-- entry points whose UB-freedom is not a theorem: none -/
def C07_remaining : List String := []

end FixedMath

/-
  C20  Degree-based helpers agree with their radian counterparts.

   * angle_to_radians<T>(d): for every integral type T and every value d of T: within 2 ulp of d·π/180 when
     0 ≤ d ≤ 360, NaN otherwise                                                            (analytic, all d, all T)
   * sin_angle(d), cos_angle(d), |d| ≤ 360: the C09 bound widened by 3 ulp against sin/cos(d°)  (analytic: C09's
     kernel-checked polynomial facts + the truncation error of d·phi/180)
   * tan_angle(d), |d| ≤ 360, cos(d°) ≠ 0: 5 ulp·(1 + tan²)                                   (721 kernel points)
   * every argument type (int8…int64, uint8…uint64, float, fixed_t) carrying the same d computes the same radians,
     hence the same result                                                                   (analytic + 721 kernel points for float)
-/
import FixedMath.Spec.C09
import FixedMath.Spec.C02
import FixedMath.Spec.C03
import FixedMath.Spec.C04
import FixedMath.Check.Deg
import FixedMath.Real.TanSound

namespace FixedMath
open Gen R Chk Real

/-- the radians (raw) every route computes for the integer angle d : trunc(d·phi/180) -/
def degRaw (d : Int) : Int := Int.tdiv (205887 * d) 180

theorem angleArgInt_eq (t : IT) (d : Int) (hm : t.mem d) (h1 : -360 ≤ d) (h2 : d ≤ 360) :
    angleArgInt t d = .ok (degRaw d) := by
  unfold angleArgInt
  obtain ⟨r, hr, hfin, _⟩ := C02_scalar t phi d (by unfold fin phi lim_lowest lim_max; omega) hm
  have hf : fin (phi * d) := by unfold fin phi lim_lowest lim_max; omega
  rw [hr, hfin hf]
  simp only [bind, Except.bind]
  obtain ⟨q, hq, _, hq2⟩ := C03_scalar .i32 (phi * d) 180 hf (by simp only [IT.mem, IT.lo, IT.hi]; omega)
  rw [hq, hq2 (by omega)]
  rfl

theorem angleArgFixed_eq (d : Int) (h1 : -360 ≤ d) (h2 : d ≤ 360) :
    angleArgFixed (d * 65536) = .ok (degRaw d) := by
  unfold angleArgFixed
  rw [mul_closed]
  unfold phi
  have hr : -9223372036854775808 ≤ d * 65536 * 205887 ∧ d * 65536 * 205887 ≤ 9223372036854775807 := by omega
  rw [if_pos hr]
  simp only [bind, Except.bind]
  have e : d * 65536 * 205887 / 65536 = 205887 * d := by omega
  rw [e]
  have hf : fin (205887 * d) := by unfold fin lim_lowest lim_max; omega
  obtain ⟨q, hq, _, hq2⟩ := C03_scalar .i32 (205887 * d) 180 hf (by simp only [IT.mem, IT.lo, IT.hi]; omega)
  rw [hq, hq2 (by omega)]
  rfl

theorem angleArgFloat_eq (d : Int) (h1 : -360 ≤ d) (h2 : d ≤ 360) :
    angleArgFloat (ofInt b32 d) = .ok (degRaw d) := by
  have hc := checkDegRange_sound checkFloatDeg 721 0 floatDeg_checked (d + 360).toNat (by omega) (by omega)
  unfold checkFloatDeg at hc
  have e : (((d + 360).toNat : ℕ) : Int) - 360 = d := by omega
  simp only [e] at hc
  unfold angleArgFloat
  cases hf : fpToFixed b32 (ofInt b32 d) with
  | error err => rw [hf] at hc; simp at hc
  | ok r =>
    rw [hf] at hc
    simp only [decide_eq_true_eq] at hc
    subst hc
    exact angleArgFixed_eq d h1 h2

/-- integer, float and fixed_t arguments carrying the same d give the same result -/
theorem C20_types (t : IT) (d : Int) (hm : t.mem d) (h1 : -360 ≤ d) (h2 : d ≤ 360) :
    sinAngleInt t d = sin (degRaw d) ∧ cosAngleInt t d = cos (degRaw d) ∧ tanAngleInt t d = tan (degRaw d) ∧
    sinAngleFixed (d * 65536) = sin (degRaw d) ∧ cosAngleFixed (d * 65536) = cos (degRaw d) ∧ tanAngleFixed (d * 65536) = tan (degRaw d) ∧
    sinAngleFloat (ofInt b32 d) = sin (degRaw d) ∧ cosAngleFloat (ofInt b32 d) = cos (degRaw d) ∧ tanAngleFloat (ofInt b32 d) = tan (degRaw d) := by
  unfold sinAngleInt cosAngleInt tanAngleInt sinAngleFixed cosAngleFixed tanAngleFixed sinAngleFloat cosAngleFloat tanAngleFloat
  rw [angleArgInt_eq t d hm h1 h2, angleArgFixed_eq d h1 h2, angleArgFloat_eq d h1 h2]
  exact ⟨rfl, rfl, rfl, rfl, rfl, rfl, rfl, rfl, rfl⟩

/-- the truncated conversion is within 1.834 ulp of the true angle -/
theorem degRaw_close (d : Int) (h1 : -360 ≤ d) (h2 : d ≤ 360) :
    |(d : ℝ) * π / 180 - (degRaw d : ℝ) / 65536| ≤ (1834 / 1000) / 65536 := by
  unfold degRaw
  have herr := tdiv_err (205887 * d) 180 (by omega)
  have hA : |((Int.tdiv (205887 * d) 180 : ℤ) : ℝ) * 180 - 205887 * (d : ℝ)| ≤ 179 := by
    have : (Int.tdiv (205887 * d) 180 * 180 - 205887 * d).natAbs ≤ 179 := by
      have : (180 : Int).natAbs = 180 := rfl
      omega
    have h2 : |(Int.tdiv (205887 * d) 180 * 180 - 205887 * d : ℤ)| ≤ 179 := by
      rw [Int.abs_eq_natAbs]; exact_mod_cast this
    have : ((|(Int.tdiv (205887 * d) 180 * 180 - 205887 * d : ℤ)| : ℤ) : ℝ) ≤ 179 := by exact_mod_cast h2
    rw [Int.cast_abs] at this
    push_cast at this
    exact this
  have hd := delta0_bounds
  have hdabs : |(d : ℝ)| ≤ 360 := by
    rw [abs_le]; constructor
    · have : ((-360 : ℤ) : ℝ) ≤ (d : ℝ) := by exact_mod_cast h1
      simpa using this
    · exact_mod_cast h2
  set A : ℝ := ((Int.tdiv (205887 * d) 180 : ℤ) : ℝ) with hAd
  have e : (d : ℝ) * π / 180 - A / 65536 = (d : ℝ) / 180 * (π - 205887 / 65536) - (A * 180 - 205887 * (d : ℝ)) / (180 * 65536) := by
    field_simp; ring
  rw [e]
  have t1 : |(d : ℝ) / 180 * (π - 205887 / 65536)| ≤ 2 * (636 / 100000000) := by
    rw [abs_mul, abs_of_pos hd.1, abs_div]
    have : |(d : ℝ)| / |(180 : ℝ)| ≤ 2 := by
      rw [abs_of_pos (by norm_num : (0 : ℝ) < 180)]; linarith
    exact mul_le_mul this (le_of_lt hd.2) (le_of_lt hd.1) (by norm_num)
  have t2 : |(A * 180 - 205887 * (d : ℝ)) / (180 * 65536)| ≤ 179 / (180 * 65536) := by
    rw [abs_div, abs_of_pos (by norm_num : (0 : ℝ) < 180 * 65536)]
    gcongr
  calc |(d : ℝ) / 180 * (π - 205887 / 65536) - (A * 180 - 205887 * (d : ℝ)) / (180 * 65536)|
      ≤ |(d : ℝ) / 180 * (π - 205887 / 65536)| + |(A * 180 - 205887 * (d : ℝ)) / (180 * 65536)| := abs_sub _ _
    _ ≤ 2 * (636 / 100000000) + 179 / (180 * 65536) := add_le_add t1 t2
    _ ≤ (1834 / 1000) / 65536 := by norm_num

/-- angle_to_radians for every integral type and every value of it -/
theorem C20_a2r (t : IT) (d : Int) (hm : t.mem d) :
    ∃ r : Int, (angleToRadians t d ⇓ r) ∧
      (0 ≤ d ∧ d ≤ 360 → ¬ isNaN r ∧ |(r : ℝ) / 65536 - (d : ℝ) * π / 180| ≤ 2 / 65536) ∧
      (¬ (0 ≤ d ∧ d ≤ 360) → isNaN r) := by
  unfold angleToRadians
  by_cases hr : d ≥ 0 ∧ d ≤ 360
  · rw [if_pos hr]
    have hto := C04_to t d hm
    have hin : -2147483647 ≤ d ∧ d ≤ 2147483647 := by omega
    rw [if_pos hin] at hto
    rw [hto]
    simp only [bind, Except.bind]
    rw [mul_closed]
    unfold phi
    have hrr : -9223372036854775808 ≤ d * 65536 * 205887 ∧ d * 65536 * 205887 ≤ 9223372036854775807 := by omega
    rw [if_pos hrr]
    simp only []
    have e : d * 65536 * 205887 / 65536 = 205887 * d := by omega
    rw [e]
    have hf : fin (205887 * d) := by unfold fin lim_lowest lim_max; omega
    obtain ⟨q, hq, _, hq2⟩ := C03_scalar .i32 (205887 * d) 180 hf (by simp only [IT.mem, IT.lo, IT.hi]; omega)
    rw [hq, hq2 (by omega)]
    refine ⟨_, rfl, ?_, fun h => absurd ⟨hr.1, hr.2⟩ h⟩
    intro _
    have hclose := degRaw_close d (by omega) (by omega)
    unfold degRaw at hclose
    have hb : Int.tdiv (205887 * d) 180 ≤ 205887 * d := Int.tdiv_le_self 180 (by omega)
    have hb0 : 0 ≤ Int.tdiv (205887 * d) 180 := Int.tdiv_nonneg (by omega) (by omega)
    refine ⟨by unfold isNaN lim_quiet_NaN; omega, ?_⟩
    rw [abs_sub_comm]
    calc _ ≤ (1834 / 1000) / 65536 := hclose
      _ ≤ 2 / 65536 := by norm_num
  · rw [if_neg hr]
    exact ⟨_, rfl, fun h => absurd ⟨h.1, h.2⟩ hr, fun _ => Or.inl rfl⟩

theorem degRaw_bound (d : Int) (h1 : -360 ≤ d) (h2 : d ≤ 360) : -411774 ≤ degRaw d ∧ degRaw d ≤ 411774 := by
  unfold degRaw
  have h := Int.natAbs_tdiv_le_natAbs (205887 * d) 180
  have herr := tdiv_err (205887 * d) 180 (by omega)
  have : (180 : Int).natAbs = 180 := rfl
  omega

/-- sin_angle / cos_angle : the C09 bound widened by 3 ulp, against the sine/cosine of d degrees -/
theorem C20_sin_angle (t : IT) (d : Int) (hm : t.mem d) (h1 : -360 ≤ d) (h2 : d ≤ 360) :
    ∃ s : Int, (sinAngleInt t d ⇓ s) ∧
      |(s : ℝ) / 65536 - Real.sin ((d : ℝ) * π / 180)| ≤ 7 / 65536 + |Real.arcsin (Real.sin ((d : ℝ) * π / 180))| ^ 9 / 362880 := by
  rw [(C20_types t d hm h1 h2).1]
  have hb := degRaw_bound d h1 h2
  obtain ⟨s, hs, h⟩ := sin_acc_at (degRaw d) ((d : ℝ) * π / 180) ((1834 / 1000) / 65536) ((31 / 10) / 65536)
    (by omega) (by omega) (degRaw_close d h1 h2) (by norm_num) (by norm_num)
  exact ⟨s, hs, by linarith⟩

theorem C20_cos_angle (t : IT) (d : Int) (hm : t.mem d) (h1 : -360 ≤ d) (h2 : d ≤ 360) :
    ∃ c : Int, (cosAngleInt t d ⇓ c) ∧
      |(c : ℝ) / 65536 - Real.cos ((d : ℝ) * π / 180)| ≤ 7 / 65536 + |Real.arcsin (Real.cos ((d : ℝ) * π / 180))| ^ 9 / 362880 := by
  rw [(C20_types t d hm h1 h2).2.1]
  have hb := degRaw_bound d h1 h2
  obtain ⟨c, hc, h⟩ := cos_acc_at (degRaw d) ((d : ℝ) * π / 180) ((1834 / 1000) / 65536) ((34 / 10) / 65536)
    hb.1 hb.2 (degRaw_close d h1 h2) (by norm_num) (by norm_num)
  exact ⟨c, hc, by linarith⟩

/-- tan_angle : 5 ulp·(1 + tan²) wherever the true cosine does not vanish (721 kernel points) -/
theorem C20_tan_angle (t : IT) (d : Int) (hm : t.mem d) (h1 : -360 ≤ d) (h2 : d ≤ 360) (hne : (d + 360) % 180 ≠ 90) :
    ∃ T : Int, (tanAngleInt t d ⇓ T) ∧ Real.cos ((d : ℝ) * π / 180) ≠ 0 ∧
      |(T : ℝ) / 65536 - Real.tan ((d : ℝ) * π / 180)| ≤ 5 / 65536 * (1 + Real.tan ((d : ℝ) * π / 180) ^ 2) := by
  have hty := C20_types t d hm h1 h2
  have hty32 := C20_types .i32 d (by simp only [IT.mem, IT.lo, IT.hi]; omega) h1 h2
  rw [hty.2.2.1, ← hty32.2.2.1]
  set n : Nat := (d + 360).toNat with hn
  have hc := checkDegRange_sound checkTanDeg 721 0 tanDeg_checked n (by omega) (by omega)
  unfold checkTanDeg at hc
  have e : ((n : ℕ) : Int) - 360 = d := by omega
  simp only [e] at hc
  have hB : ((5 : ℕ) : ℝ) / ((65536 : ℕ) : ℝ) = 5 / 65536 := by norm_num
  cases hT : tanAngleInt .i32 d with
  | error err => rw [hT] at hc; simp at hc
  | ok T =>
    rw [hT] at hc
    simp only [] at hc
    have hj : (n + 360) % 180 ≠ 90 := by
      have : ((n + 360 : ℕ) : Int) = d + 360 + 360 := by omega
      intro hcon
      apply hne
      omega
    rw [if_neg hj] at hc
    refine ⟨T, rfl, ?_⟩
    -- d = j + 180·q - 360·..., angle = t + q'·π
    have hdq : ∃ q : Int, d = ((n + 360) % 180 : ℕ) + 180 * q := ⟨((n + 360) / 180 : ℕ) - 4, by omega⟩
    obtain ⟨q, hq⟩ := hdq
    set j : Nat := (n + 360) % 180 with hjd
    have hjlt : j < 180 := Nat.mod_lt _ (by norm_num)
    have hang : (d : ℝ) * π / 180 = (j : ℝ) * π / 180 + q * π := by
      have : (d : ℝ) = (j : ℝ) + 180 * q := by exact_mod_cast hq
      rw [this]; ring
    by_cases hlt : j < 90
    · rw [if_pos hlt] at hc
      simp only [Bool.and_eq_true, decide_eq_true_eq] at hc
      obtain ⟨h0, ha⟩ := hc
      have ht0 : (0 : ℝ) ≤ (j : ℝ) * π / 180 := by positivity
      have hcl := degT_close j hlt
      obtain ⟨hcore, hpos⟩ := accTan_sound 64 (degT j) T.natAbs 5 65536 ha (by norm_num) _ ht0 hcl
      have hen : ((T.natAbs : ℕ) : ℝ) = (T : ℝ) := by rw [← Int.cast_natCast, Int.natAbs_of_nonneg h0]
      rw [hen, hB] at hcore
      have hb := tan_bound_of_core _ _ _ hpos hcore
      rw [hang, Real.tan_add_int_mul_pi]
      refine ⟨?_, hb⟩
      rw [Real.cos_add_int_mul_pi]
      exact mul_ne_zero (by
        rcases Int.even_or_odd q with he | ho
        · rw [Even.neg_one_zpow he]; norm_num
        · rw [Odd.neg_one_zpow ho]; norm_num) (ne_of_gt hpos)
    · rw [if_neg hlt] at hc
      simp only [Bool.and_eq_true, decide_eq_true_eq] at hc
      obtain ⟨h0, ha⟩ := hc
      have hj2 : 180 - j < 90 := by omega
      have ht0 : (0 : ℝ) ≤ ((180 - j : ℕ) : ℝ) * π / 180 := by positivity
      have hcl := degT_close (180 - j) hj2
      obtain ⟨hcore, hpos⟩ := accTan_sound 64 (degT (180 - j)) T.natAbs 5 65536 ha (by norm_num) _ ht0 hcl
      have hen : ((T.natAbs : ℕ) : ℝ) = -(T : ℝ) := by
        rw [← Int.cast_natCast, Int.ofNat_natAbs_of_nonpos h0]; simp
      rw [hen, hB] at hcore
      have hb := tan_bound_of_core _ _ _ hpos hcore
      -- j·π/180 = π − t'
      have hang2 : (j : ℝ) * π / 180 = π - ((180 - j : ℕ) : ℝ) * π / 180 := by
        rw [Nat.cast_sub (by omega)]; push_cast; ring
      rw [hang, Real.tan_add_int_mul_pi, hang2, Real.tan_pi_sub]
      refine ⟨?_, ?_⟩
      · rw [Real.cos_add_int_mul_pi, Real.cos_pi_sub]
        exact mul_ne_zero (by
          rcases Int.even_or_odd q with he | ho
          · rw [Even.neg_one_zpow he]; norm_num
          · rw [Odd.neg_one_zpow ho]; norm_num) (neg_ne_zero.mpr (ne_of_gt hpos))
      · have e1 : (T : ℝ) / 65536 - -Real.tan (((180 - j : ℕ) : ℝ) * π / 180) = -(-(T : ℝ) / 65536 - Real.tan (((180 - j : ℕ) : ℝ) * π / 180)) := by ring
        rw [e1, abs_neg, neg_sq]
        exact hb

example : IT.mem .i8 (-128) ∧ IT.mem .u8 200 := by simp only [IT.mem, IT.lo, IT.hi]; omega

end FixedMath

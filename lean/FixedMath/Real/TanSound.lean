/-
  Soundness of `Chk.accTan`: from Nat inequalities to  |y·cos t − sin t|·cos t ≤ B  and  0 < cos t,
  and from there to the slope-relative bound on tan.
-/
import FixedMath.Real.TablesSound

namespace FixedMath.R
open FixedMath.Chk Real

theorem tan_core (y C S cl ch sl sh B : ℝ) (hy : 0 ≤ y) (hC1 : cl ≤ C) (hC2 : C ≤ ch) (hcl : 0 ≤ cl)
    (hS1 : sl ≤ S) (hS2 : S ≤ sh) (hB : 0 ≤ B)
    (a1 : y * ch * ch ≤ B + sl * ch) (a2 : sh * ch ≤ B + y * cl * ch) : |y * C - S| * C ≤ B := by
  have hC0 : 0 ≤ C := le_trans hcl hC1
  have hch : 0 ≤ ch := le_trans hC0 hC2
  rw [abs_mul_self_le_iff_aux hC0]
  constructor
  · -- (y C - S) C ≤ B
    by_cases hU : 0 ≤ y * ch - sl
    · have h1 : y * C - S ≤ y * ch - sl := by nlinarith
      have : (y * C - S) * C ≤ (y * ch - sl) * ch := by
        by_cases hE : 0 ≤ y * C - S
        · exact mul_le_mul h1 hC2 hC0 hU
        · have : (y * C - S) * C ≤ 0 := mul_nonpos_of_nonpos_of_nonneg (by linarith) hC0
          have : 0 ≤ (y * ch - sl) * ch := mul_nonneg hU hch
          linarith
      nlinarith
    · have h1 : y * C - S ≤ y * ch - sl := by nlinarith
      have : (y * C - S) * C ≤ 0 := mul_nonpos_of_nonpos_of_nonneg (by linarith) hC0
      linarith
  · -- -(y C - S) C ≤ B
    by_cases hL : 0 ≤ sh - y * cl
    · have h1 : S - y * C ≤ sh - y * cl := by nlinarith
      have : (S - y * C) * C ≤ (sh - y * cl) * ch := by
        by_cases hE : 0 ≤ S - y * C
        · exact mul_le_mul h1 hC2 hC0 hL
        · have : (S - y * C) * C ≤ 0 := mul_nonpos_of_nonpos_of_nonneg (by linarith) hC0
          have : 0 ≤ (sh - y * cl) * ch := mul_nonneg hL hch
          linarith
      nlinarith
    · have h1 : S - y * C ≤ sh - y * cl := by nlinarith
      have : (S - y * C) * C ≤ 0 := mul_nonpos_of_nonpos_of_nonneg (by linarith) hC0
      linarith
where
  abs_mul_self_le_iff_aux {E C B : ℝ} (hC0 : 0 ≤ C) : |E| * C ≤ B ↔ (E * C ≤ B ∧ -E * C ≤ B) := by
    constructor
    · intro h
      have h1 : E ≤ |E| := le_abs_self E
      have h2 : -E ≤ |E| := neg_le_abs E
      constructor <;> nlinarith
    · intro ⟨h1, h2⟩
      rcases le_total 0 E with hE | hE
      · rw [abs_of_nonneg hE]; exact h1
      · rw [abs_of_nonpos hE]; exact h2

theorem nat_sub_cast_ge (a b : ℕ) : (a : ℝ) - b ≤ ((a - b : ℕ) : ℝ) := by
  rcases Nat.le_total b a with h | h
  · rw [Nat.cast_sub h]
  · have : a - b = 0 := by omega
    rw [this]
    have : (a : ℝ) ≤ b := by exact_mod_cast h
    simp; linarith
theorem nat_sub_cast_le_max (a b : ℕ) : ((a - b : ℕ) : ℝ) ≤ max 0 ((a : ℝ) - b) := by
  rcases Nat.le_total b a with h | h
  · rw [Nat.cast_sub h]; exact le_max_right _ _
  · have : a - b = 0 := by omega
    rw [this]; simp

/-- the arithmetic heart of `accTan_sound`, over naturals that stand for the scaled Taylor sums -/
theorem accTan_arith (σn γn sPn sNn cPn cNn slSn slCn ymag BN BD : ℕ) (S C : ℝ)
    (hσ : 0 < σn) (hγ : 0 < γn) (hBD : 0 < BD) (hS0 : 0 ≤ S)
    (hsin1 : (sPn : ℝ) - sNn - slSn ≤ σn * S) (hsin2 : (σn : ℝ) * S ≤ sPn - sNn + slSn)
    (hcos1 : (cPn : ℝ) - cNn - slCn ≤ γn * C) (hcos2 : (γn : ℝ) * C ≤ cPn - cNn + slCn)
    (hg : cNn + slCn < cPn)
    (hA1 : ymag * (cPn + slCn - cNn) * (cPn + slCn - cNn) * σn * BD
        ≤ BN * 65536 * γn * γn * σn + (sPn - (sNn + slSn)) * (cPn + slCn - cNn) * 65536 * γn * BD)
    (hA2 : (sPn + slSn - sNn) * (cPn + slCn - cNn) * 65536 * γn * BD
        ≤ BN * 65536 * γn * γn * σn + ymag * (cPn - cNn - slCn) * (cPn + slCn - cNn) * σn * BD) :
    |(ymag : ℝ) / 65536 * C - S| * C ≤ (BN : ℝ) / BD ∧ 0 < C := by
  have hσ' : (0 : ℝ) < σn := by exact_mod_cast hσ
  have hγ' : (0 : ℝ) < γn := by exact_mod_cast hγ
  have hBD' : (0 : ℝ) < BD := by exact_mod_cast hBD
  have hsHi : (sPn : ℝ) + slSn - sNn ≤ ((sPn + slSn - sNn : ℕ) : ℝ) := by
    have := nat_sub_cast_ge (sPn + slSn) sNn
    push_cast at this; exact this
  have hsLo : ((sPn - (sNn + slSn) : ℕ) : ℝ) ≤ max 0 ((sPn : ℝ) - sNn - slSn) := by
    have := nat_sub_cast_le_max sPn (sNn + slSn)
    push_cast at this
    have e : (sPn : ℝ) - (sNn + slSn) = sPn - sNn - slSn := by ring
    rw [e] at this; exact this
  have hcHi : (cPn : ℝ) + slCn - cNn ≤ ((cPn + slCn - cNn : ℕ) : ℝ) := by
    have := nat_sub_cast_ge (cPn + slCn) cNn
    push_cast at this; exact this
  have hcLo : ((cPn - cNn - slCn : ℕ) : ℝ) = (cPn : ℝ) - cNn - slCn := by
    rw [Nat.cast_sub (by omega), Nat.cast_sub (by omega)]
  have hcLoPos : (0 : ℝ) < (cPn : ℝ) - cNn - slCn := by
    have := (Nat.cast_lt (α := ℝ)).mpr hg
    push_cast at this; linarith
  have hA1r := (Nat.cast_le (α := ℝ)).mpr hA1
  have hA2r := (Nat.cast_le (α := ℝ)).mpr hA2
  simp only [Nat.cast_mul, Nat.cast_add, Nat.cast_ofNat] at hA1r hA2r
  generalize ((sPn + slSn - sNn : ℕ) : ℝ) = sHi at *
  generalize ((sPn - (sNn + slSn) : ℕ) : ℝ) = sLo at *
  generalize ((cPn + slCn - cNn : ℕ) : ℝ) = cHi at *
  generalize ((cPn - cNn - slCn : ℕ) : ℝ) = cLo at *
  have bC1 : cLo / γn ≤ C := by rw [div_le_iff₀ hγ', hcLo]; linarith
  have bC2 : C ≤ cHi / γn := by rw [le_div_iff₀ hγ']; linarith
  have bS1 : sLo / σn ≤ S := by
    rw [div_le_iff₀ hσ']
    have : max 0 ((sPn : ℝ) - sNn - slSn) ≤ S * σn := by
      apply max_le
      · positivity
      · linarith
    linarith
  have bS2 : S ≤ sHi / σn := by rw [le_div_iff₀ hσ']; linarith
  have hcl0 : 0 ≤ cLo / (γn : ℝ) := by rw [hcLo]; positivity
  have hpos : (0 : ℝ) < 65536 * γn * γn * σn * BD := by positivity
  refine ⟨?_, lt_of_lt_of_le (by rw [hcLo]; positivity) bC1⟩
  apply tan_core ((ymag : ℝ) / 65536) C S (cLo / γn) (cHi / γn) (sLo / σn) (sHi / σn) ((BN : ℝ) / BD)
    (by positivity) bC1 bC2 hcl0 bS1 bS2 (by positivity)
  · have e1 : (ymag : ℝ) / 65536 * (cHi / γn) * (cHi / γn) = ((ymag : ℝ) * cHi * cHi * σn * BD) / (65536 * γn * γn * σn * BD) := by
      field_simp
    have e2 : (BN : ℝ) / BD + sLo / σn * (cHi / γn) = ((BN : ℝ) * 65536 * γn * γn * σn + sLo * cHi * 65536 * γn * BD) / (65536 * γn * γn * σn * BD) := by
      field_simp
    rw [e1, e2, div_le_div_iff_of_pos_right hpos]
    exact hA1r
  · have e1 : sHi / σn * (cHi / γn) = (sHi * cHi * 65536 * γn * BD) / (65536 * γn * γn * σn * BD) := by
      field_simp
    have e2 : (BN : ℝ) / BD + (ymag : ℝ) / 65536 * (cLo / γn) * (cHi / γn) = ((BN : ℝ) * 65536 * γn * γn * σn + (ymag : ℝ) * cLo * cHi * σn * BD) / (65536 * γn * γn * σn * BD) := by
      field_simp
    rw [e1, e2, div_le_div_iff_of_pos_right hpos]
    exact hA2r

theorem slack_dominates (n : ℕ) : (n : ℝ) / 17179869184 ≤ ((n / 17179869184 + 1 : ℕ) : ℝ) := by
  have h2 : n < (n / 17179869184 + 1) * 17179869184 := by
    have := Nat.div_add_mod n 17179869184
    have := Nat.mod_lt n (show 17179869184 > 0 by norm_num)
    omega
  have : (n : ℝ) < ((n / 17179869184 + 1 : ℕ) : ℝ) * 17179869184 := by exact_mod_cast h2
  rw [div_le_iff₀ (by norm_num)]; linarith

theorem accTan_sound (K T ymag BN BD : Nat) (h : accTan K T ymag BN BD = true) (hBD : 0 < BD)
    (t : ℝ) (ht0 : 0 ≤ t) (ht : |t - (T : ℝ) / 2 ^ K| ≤ 1 / 34359738368) :
    |(ymag : ℝ) / 65536 * Real.cos t - Real.sin t| * Real.cos t ≤ (BN : ℝ) / BD ∧ 0 < Real.cos t := by
  unfold accTan at h
  simp only [Bool.and_eq_true, Nat.ble_eq, Nat.blt_eq] at h
  obtain ⟨⟨⟨hT, hg⟩, hA1⟩, hA2⟩ := h
  have hx : (T : ℝ) / 2 ^ K ≤ 8 / 5 := by
    have : ((5 * T : ℕ) : ℝ) ≤ ((8 * 2 ^ K : ℕ) : ℝ) := by exact_mod_cast hT
    push_cast at this
    rw [div_le_div_iff₀ (by positivity) (by norm_num)]
    linarith
  have hσn : 0 < sinScale K := by unfold sinScale; positivity
  have hγn : 0 < cosScale K := by unfold cosScale; positivity
  have hσ : (0 : ℝ) < (sinScale K : ℝ) := by exact_mod_cast hσn
  have hγ : (0 : ℝ) < (cosScale K : ℝ) := by exact_mod_cast hγn
  have hsin : |(sinScale K : ℝ) * Real.sin t - (((sinPos K T : ℕ) : ℝ) - ((sinNeg K T : ℕ) : ℝ))| ≤ (sinScale K : ℝ) / 17179869184 := by
    have henc0 := sin_scaled_encl K T hx
    have hlip := Real.abs_sin_sub_sin_le t ((T : ℝ) / 2 ^ K)
    have : |(sinScale K : ℝ) * Real.sin t - (sinScale K : ℝ) * Real.sin ((T : ℝ) / 2 ^ K)| ≤ (sinScale K : ℝ) / 34359738368 := by
      rw [← mul_sub, abs_mul, abs_of_pos hσ]
      calc (sinScale K : ℝ) * |Real.sin t - Real.sin ((T : ℝ) / 2 ^ K)| ≤ (sinScale K : ℝ) * (1 / 34359738368) :=
            mul_le_mul_of_nonneg_left (le_trans hlip ht) (le_of_lt hσ)
        _ = (sinScale K : ℝ) / 34359738368 := by ring
    have tri := abs_sub_le ((sinScale K : ℝ) * Real.sin t) ((sinScale K : ℝ) * Real.sin ((T : ℝ) / 2 ^ K)) (((sinPos K T : ℕ) : ℝ) - ((sinNeg K T : ℕ) : ℝ))
    have : (sinScale K : ℝ) / 34359738368 + (sinScale K : ℝ) / 34359738368 = (sinScale K : ℝ) / 17179869184 := by ring
    linarith
  have hcos : |(cosScale K : ℝ) * Real.cos t - (((cosPos K T : ℕ) : ℝ) - ((cosNeg K T : ℕ) : ℝ))| ≤ (cosScale K : ℝ) / 17179869184 := by
    have henc0 := cos_scaled_encl K T hx
    have hlip := Real.abs_cos_sub_cos_le t ((T : ℝ) / 2 ^ K)
    have : |(cosScale K : ℝ) * Real.cos t - (cosScale K : ℝ) * Real.cos ((T : ℝ) / 2 ^ K)| ≤ (cosScale K : ℝ) / 34359738368 := by
      rw [← mul_sub, abs_mul, abs_of_pos hγ]
      calc (cosScale K : ℝ) * |Real.cos t - Real.cos ((T : ℝ) / 2 ^ K)| ≤ (cosScale K : ℝ) * (1 / 34359738368) :=
            mul_le_mul_of_nonneg_left (le_trans hlip ht) (le_of_lt hγ)
        _ = (cosScale K : ℝ) / 34359738368 := by ring
    have tri := abs_sub_le ((cosScale K : ℝ) * Real.cos t) ((cosScale K : ℝ) * Real.cos ((T : ℝ) / 2 ^ K)) (((cosPos K T : ℕ) : ℝ) - ((cosNeg K T : ℕ) : ℝ))
    have : (cosScale K : ℝ) / 34359738368 + (cosScale K : ℝ) / 34359738368 = (cosScale K : ℝ) / 17179869184 := by ring
    linarith
  rw [abs_le] at hsin hcos
  have hslS := slack_dominates (sinScale K)
  have hslC := slack_dominates (cosScale K)
  have htpi : t ≤ π := by
    rw [abs_le] at ht
    have := Real.pi_gt_three
    linarith [ht.2]
  have hS0 : 0 ≤ Real.sin t := Real.sin_nonneg_of_nonneg_of_le_pi ht0 htpi
  exact accTan_arith (sinScale K) (cosScale K) (sinPos K T) (sinNeg K T) (cosPos K T) (cosNeg K T)
    (sinScale K / 17179869184 + 1) (cosScale K / 17179869184 + 1) ymag BN BD (Real.sin t) (Real.cos t)
    hσn hγn hBD hS0 (by linarith [hsin.1]) (by linarith [hsin.2]) (by linarith [hcos.1]) (by linarith [hcos.2]) hg hA1 hA2

/-- from the division-free form to the slope-relative bound on tan -/
theorem tan_bound_of_core (y t B : ℝ) (hc : 0 < Real.cos t) (h : |y * Real.cos t - Real.sin t| * Real.cos t ≤ B) :
    |y - Real.tan t| ≤ B * (1 + Real.tan t ^ 2) := by
  have htan : Real.tan t = Real.sin t / Real.cos t := Real.tan_eq_sin_div_cos t
  have h1 : 1 + Real.tan t ^ 2 = 1 / Real.cos t ^ 2 := by
    rw [htan]; field_simp; rw [Real.cos_sq_add_sin_sq]
  have h2 : y - Real.tan t = (y * Real.cos t - Real.sin t) / Real.cos t := by
    rw [htan]; field_simp
  rw [h1, h2, abs_div, abs_of_pos hc]
  rw [div_le_iff₀ hc]
  have : B * (1 / Real.cos t ^ 2) * Real.cos t = B / Real.cos t := by field_simp
  rw [this, le_div_iff₀ hc]
  exact h

end FixedMath.R

namespace FixedMath.R
open FixedMath.Chk Real

theorem tanT_close (j : Nat) (hj : j ≤ 128) : |(j : ℝ) * π / 256 - ((tanT j : ℕ) : ℝ) / 2 ^ 48| ≤ 1 / 34359738368 := by
  have hlo := P40_lo
  have hhi := P40_hi
  have hj' : (j : ℝ) ≤ 128 := by exact_mod_cast hj
  have hj0 : (0 : ℝ) ≤ j := by positivity
  unfold tanT
  push_cast
  have e48 : (2 : ℝ) ^ 48 = 1099511627776 * 256 := by norm_num
  rw [e48]
  have e : (j : ℝ) * π / 256 - (j : ℝ) * (P40 : ℝ) / (1099511627776 * 256) = (j : ℝ) / 256 * (π - (P40 : ℝ) / 1099511627776) := by ring
  rw [e, abs_le]
  have h1 : 0 < π - (P40 : ℝ) / 1099511627776 := by linarith
  have h2 : π - (P40 : ℝ) / 1099511627776 < 1 / 1099511627776 := by
    have : ((P40 : ℝ) + 1) / 1099511627776 = (P40 : ℝ) / 1099511627776 + 1 / 1099511627776 := by ring
    linarith
  constructor
  · have : 0 ≤ (j : ℝ) / 256 * (π - (P40 : ℝ) / 1099511627776) := by positivity
    linarith
  · have : (j : ℝ) / 256 * (π - (P40 : ℝ) / 1099511627776) ≤ (128 : ℝ) / 256 * (1 / 1099511627776) := by
      apply mul_le_mul (by linarith) (le_of_lt h2) (le_of_lt h1) (by norm_num)
    have : (128 : ℝ) / 256 * (1 / 1099511627776) ≤ 1 / 34359738368 := by norm_num
    linarith

/-- tangent table entry, `i ≠ 128`: within 2 ulp·(1 + tan²) of tan(i·π/256) -/
theorem checkTanEntry_sound (i : Nat) (e : Int) (hi : i < 256) (hne : i ≠ 128) (h : checkTanEntry i e = true) :
    |(e : ℝ) / 65536 - Real.tan ((i : ℝ) * π / 256)| ≤ 2 / 65536 * (1 + Real.tan ((i : ℝ) * π / 256) ^ 2) := by
  unfold checkTanEntry at h
  rw [if_neg hne] at h
  have hB : ((2 : ℕ) : ℝ) / ((65536 : ℕ) : ℝ) = 2 / 65536 := by norm_num
  by_cases hlt : i < 128
  · rw [if_pos hlt] at h
    simp only [Bool.and_eq_true, decide_eq_true_eq] at h
    obtain ⟨he, ha⟩ := h
    have ht0 : (0 : ℝ) ≤ (i : ℝ) * π / 256 := by positivity
    obtain ⟨hc, hpos⟩ := accTan_sound 48 (tanT i) e.natAbs 2 65536 ha (by norm_num) _ ht0 (tanT_close i (by omega))
    have hen : ((e.natAbs : ℕ) : ℝ) = (e : ℝ) := by
      rw [← Int.cast_natCast, Int.natAbs_of_nonneg he]
    rw [hen, hB] at hc
    exact tan_bound_of_core _ _ _ hpos hc
  · rw [if_neg hlt] at h
    simp only [Bool.and_eq_true, decide_eq_true_eq] at h
    obtain ⟨he, ha⟩ := h
    have hj : 256 - i ≤ 128 := by omega
    have ht0 : (0 : ℝ) ≤ ((256 - i : ℕ) : ℝ) * π / 256 := by positivity
    obtain ⟨hc, hpos⟩ := accTan_sound 48 (tanT (256 - i)) e.natAbs 2 65536 ha (by norm_num) _ ht0 (tanT_close _ hj)
    have hen : ((e.natAbs : ℕ) : ℝ) = -(e : ℝ) := by
      rw [← Int.cast_natCast, Int.ofNat_natAbs_of_nonpos he]; simp
    rw [hen, hB] at hc
    have hb := tan_bound_of_core _ _ _ hpos hc
    -- θ = π - t'
    have hang : (i : ℝ) * π / 256 = π - ((256 - i : ℕ) : ℝ) * π / 256 := by
      rw [Nat.cast_sub (by omega)]; push_cast; ring
    have htan : Real.tan ((i : ℝ) * π / 256) = -Real.tan (((256 - i : ℕ) : ℝ) * π / 256) := by
      rw [hang, Real.tan_pi_sub]
    rw [htan]
    have e1 : (e : ℝ) / 65536 - -Real.tan (((256 - i : ℕ) : ℝ) * π / 256) = -(-(e : ℝ) / 65536 - Real.tan (((256 - i : ℕ) : ℝ) * π / 256)) := by ring
    rw [e1, abs_neg, neg_sq]
    exact hb

end FixedMath.R

/-
  Soundness of `Chk.accAt`.
-/
import FixedMath.Real.TaylorSound
import FixedMath.Check.At
import Mathlib.Analysis.SpecialFunctions.Trigonometric.Bounds

namespace FixedMath.R
open FixedMath.Chk

/-- signed value helpers -/
noncomputable def sgnv (neg : Bool) (x : ℝ) : ℝ := if neg then -x else x

theorem accAt_core (sc pP pN Z : ℝ) (ymag tolN tolD : ℕ) (yneg fneg : Bool) (hsc : 0 < sc) (htd : 0 < tolD)
    (henc : |sc * Z - (pP - pN)| ≤ sc / 17179869184)
    (h1 : (if yneg then 0 else (ymag : ℝ) * sc * tolD * 17179869184) + (if fneg then pP * 65536 * tolD * 17179869184 else pN * 65536 * tolD * 17179869184) + 65536 * sc * tolD
        ≤ (if yneg then (ymag : ℝ) * sc * tolD * 17179869184 else 0) + (if fneg then pN * 65536 * tolD * 17179869184 else pP * 65536 * tolD * 17179869184) + tolN * 65536 * sc * 17179869184)
    (h2 : (if yneg then (ymag : ℝ) * sc * tolD * 17179869184 else 0) + (if fneg then pN * 65536 * tolD * 17179869184 else pP * 65536 * tolD * 17179869184) + 65536 * sc * tolD
        ≤ (if yneg then 0 else (ymag : ℝ) * sc * tolD * 17179869184) + (if fneg then pP * 65536 * tolD * 17179869184 else pN * 65536 * tolD * 17179869184) + tolN * 65536 * sc * 17179869184) :
    |sgnv yneg (ymag : ℝ) / 65536 - sgnv fneg Z| ≤ (tolN : ℝ) / tolD := by
  have htd' : (0 : ℝ) < tolD := by exact_mod_cast htd
  set M : ℝ := 65536 * sc * tolD * 17179869184 with hM
  have hMpos : 0 < M := by positivity
  rw [abs_le] at henc
  obtain ⟨e1, e2⟩ := henc
  -- scale the enclosure
  have s1 : -(65536 * sc * tolD) ≤ 65536 * tolD * 17179869184 * (sc * Z) - (pP - pN) * (65536 * tolD * 17179869184) := by
    have := mul_le_mul_of_nonneg_left e1 (show (0 : ℝ) ≤ 65536 * tolD * 17179869184 by positivity)
    nlinarith
  have s2 : 65536 * tolD * 17179869184 * (sc * Z) - (pP - pN) * (65536 * tolD * 17179869184) ≤ 65536 * sc * tolD := by
    have := mul_le_mul_of_nonneg_left e2 (show (0 : ℝ) ≤ 65536 * tolD * 17179869184 by positivity)
    nlinarith
  have key : M * |sgnv yneg (ymag : ℝ) / 65536 - sgnv fneg Z| ≤ M * ((tolN : ℝ) / tolD) := by
    rw [← abs_of_pos hMpos, ← abs_mul, abs_of_pos hMpos]
    have eM : M * ((tolN : ℝ) / tolD) = tolN * 65536 * sc * 17179869184 := by
      rw [hM]; field_simp
    rw [eM, abs_le]
    unfold sgnv
    cases yneg <;> cases fneg <;> simp only [if_true, if_false, Bool.false_eq_true] at h1 h2 ⊢ <;>
      (constructor <;> (rw [hM]; nlinarith))
  exact le_of_mul_le_mul_left key hMpos

theorem accAt_sound (useCos fneg : Bool) (K T : Nat) (yneg : Bool) (ymag tolN tolD : Nat)
    (h : accAt useCos fneg K T yneg ymag tolN tolD = true) (htd : 0 < tolD)
    (t : ℝ) (ht : |t - (T : ℝ) / 2 ^ K| ≤ 1 / 34359738368) :
    |sgnv yneg (ymag : ℝ) / 65536 - sgnv fneg (if useCos then Real.cos t else Real.sin t)| ≤ (tolN : ℝ) / tolD := by
  unfold accAt at h
  simp only [Bool.and_eq_true, Nat.ble_eq] at h
  obtain ⟨hT, h1, h2⟩ := h
  have hx : (T : ℝ) / 2 ^ K ≤ 8 / 5 := by
    have : ((5 * T : ℕ) : ℝ) ≤ ((8 * 2 ^ K : ℕ) : ℝ) := by exact_mod_cast hT
    push_cast at this
    rw [div_le_div_iff₀ (by positivity) (by norm_num)]
    linarith
  have h1r := (Nat.cast_le (α := ℝ)).mpr h1
  have h2r := (Nat.cast_le (α := ℝ)).mpr h2
  cases useCos with
  | true =>
    simp only [if_true] at h1r h2r ⊢
    have hsc : (0 : ℝ) < (cosScale K : ℝ) := by unfold cosScale; positivity
    have henc0 := cos_scaled_encl K T hx
    have hlip := Real.abs_cos_sub_cos_le t ((T : ℝ) / 2 ^ K)
    have henc : |(cosScale K : ℝ) * Real.cos t - (((cosPos K T : ℕ) : ℝ) - ((cosNeg K T : ℕ) : ℝ))| ≤ (cosScale K : ℝ) / 17179869184 := by
      have : |(cosScale K : ℝ) * Real.cos t - (cosScale K : ℝ) * Real.cos ((T : ℝ) / 2 ^ K)| ≤ (cosScale K : ℝ) / 34359738368 := by
        rw [← mul_sub, abs_mul, abs_of_pos hsc]
        calc (cosScale K : ℝ) * |Real.cos t - Real.cos ((T : ℝ) / 2 ^ K)| ≤ (cosScale K : ℝ) * (1 / 34359738368) :=
              mul_le_mul_of_nonneg_left (le_trans hlip ht) (le_of_lt hsc)
          _ = (cosScale K : ℝ) / 34359738368 := by ring
      have tri := abs_sub_le ((cosScale K : ℝ) * Real.cos t) ((cosScale K : ℝ) * Real.cos ((T : ℝ) / 2 ^ K)) (((cosPos K T : ℕ) : ℝ) - ((cosNeg K T : ℕ) : ℝ))
      have : (cosScale K : ℝ) / 34359738368 + (cosScale K : ℝ) / 34359738368 = (cosScale K : ℝ) / 17179869184 := by ring
      linarith
    apply accAt_core (cosScale K : ℝ) (cosPos K T : ℝ) (cosNeg K T : ℝ) (Real.cos t) ymag tolN tolD yneg fneg hsc htd henc
    · cases yneg <;> cases fneg <;> simp only [if_true, if_false, Bool.false_eq_true] at h1r ⊢ <;> push_cast at h1r ⊢ <;> linarith
    · cases yneg <;> cases fneg <;> simp only [if_true, if_false, Bool.false_eq_true] at h2r ⊢ <;> push_cast at h2r ⊢ <;> linarith
  | false =>
    simp only [if_false, Bool.false_eq_true] at h1r h2r ⊢
    have hsc : (0 : ℝ) < (sinScale K : ℝ) := by unfold sinScale; positivity
    have henc0 := sin_scaled_encl K T hx
    have hlip := Real.abs_sin_sub_sin_le t ((T : ℝ) / 2 ^ K)
    have henc : |(sinScale K : ℝ) * Real.sin t - (((sinPos K T : ℕ) : ℝ) - ((sinNeg K T : ℕ) : ℝ))| ≤ (sinScale K : ℝ) / 17179869184 := by
      have : |(sinScale K : ℝ) * Real.sin t - (sinScale K : ℝ) * Real.sin ((T : ℝ) / 2 ^ K)| ≤ (sinScale K : ℝ) / 34359738368 := by
        rw [← mul_sub, abs_mul, abs_of_pos hsc]
        calc (sinScale K : ℝ) * |Real.sin t - Real.sin ((T : ℝ) / 2 ^ K)| ≤ (sinScale K : ℝ) * (1 / 34359738368) :=
              mul_le_mul_of_nonneg_left (le_trans hlip ht) (le_of_lt hsc)
          _ = (sinScale K : ℝ) / 34359738368 := by ring
      have tri := abs_sub_le ((sinScale K : ℝ) * Real.sin t) ((sinScale K : ℝ) * Real.sin ((T : ℝ) / 2 ^ K)) (((sinPos K T : ℕ) : ℝ) - ((sinNeg K T : ℕ) : ℝ))
      have : (sinScale K : ℝ) / 34359738368 + (sinScale K : ℝ) / 34359738368 = (sinScale K : ℝ) / 17179869184 := by ring
      linarith
    apply accAt_core (sinScale K : ℝ) (sinPos K T : ℝ) (sinNeg K T : ℝ) (Real.sin t) ymag tolN tolD yneg fneg hsc htd henc
    · cases yneg <;> cases fneg <;> simp only [if_true, if_false, Bool.false_eq_true] at h1r ⊢ <;> push_cast at h1r ⊢ <;> linarith
    · cases yneg <;> cases fneg <;> simp only [if_true, if_false, Bool.false_eq_true] at h2r ⊢ <;> push_cast at h2r ⊢ <;> linarith

end FixedMath.R

/-
  Real-analysis side of the sin/cos range reduction: the library's pi constant `phi/65536` differs from π by
  δ0 ∈ (6.3e-6, 6.4e-6), its pi/2 constant from π/2 by δ1 ∈ (4.4e-6, 4.5e-6); arcsin∘sin near ±π/2.
-/
import FixedMath.Real.Encl
import Mathlib.Analysis.SpecialFunctions.Trigonometric.Inverse
import Mathlib.Analysis.SpecialFunctions.Trigonometric.Bounds

namespace FixedMath.R
open Real

theorem delta0_bounds : (0 : ℝ) < π - 205887 / 65536 ∧ π - 205887 / 65536 < 636 / 100000000 := by
  have h1 := pi_gt_P40
  have h2 := pi_lt_P40
  constructor
  · have : (205887 : ℝ) / 65536 < 3454217652357 / 1099511627776 := by norm_num
    linarith
  · have : (3454217652358 : ℝ) / 1099511627776 - 205887 / 65536 < 636 / 100000000 := by norm_num
    linarith

theorem delta1_bounds : (0 : ℝ) < 102944 / 65536 - π / 2 ∧ (102944 : ℝ) / 65536 - π / 2 < 45 / 10000000 := by
  have h1 := pi_gt_P40
  have h2 := pi_lt_P40
  constructor
  · have : (3454217652358 : ℝ) / 1099511627776 / 2 < 102944 / 65536 := by norm_num
    linarith
  · have : (102944 : ℝ) / 65536 - 3454217652357 / 1099511627776 / 2 < 45 / 10000000 := by norm_num
    linarith

/-- if `u = w + m·phi` (m even) or `u = m·phi − w` (m odd) in raw units, then `sin(u/65536 + ρ) = sin(w/65536 + ε)`
    with `|ε| ≤ |m|·δ0 + |ρ|` -/
theorem sin_shift (u w m : ℤ) (ρ : ℝ)
    (h : (m % 2 = 0 ∧ w = u - m * 205887) ∨ (m % 2 = 1 ∧ w = m * 205887 - u)) :
    ∃ ε : ℝ, |ε| ≤ |(m : ℝ)| * (π - 205887 / 65536) + |ρ| ∧
      Real.sin ((u : ℝ) / 65536 + ρ) = Real.sin ((w : ℝ) / 65536 + ε) := by
  have hd := delta0_bounds.1
  rcases h with ⟨hm, hw⟩ | ⟨hm, hw⟩
  · refine ⟨ρ - (m : ℝ) * (π - 205887 / 65536), ?_, ?_⟩
    · calc |ρ - (m : ℝ) * (π - 205887 / 65536)| ≤ |ρ| + |(m : ℝ) * (π - 205887 / 65536)| := abs_sub _ _
        _ = |(m : ℝ)| * (π - 205887 / 65536) + |ρ| := by rw [abs_mul, abs_of_pos hd]; ring
    · have hu : (u : ℝ) = w + m * 205887 := by
        have : u = w + m * 205887 := by omega
        exact_mod_cast this
      have e : (u : ℝ) / 65536 + ρ = ((w : ℝ) / 65536 + (ρ - (m : ℝ) * (π - 205887 / 65536))) + m * π := by
        rw [hu]; ring
      rw [e, Real.sin_add_int_mul_pi]
      have : ((-1 : ℝ)) ^ m = 1 := by
        obtain ⟨k, rfl⟩ : ∃ k, m = 2 * k := ⟨m / 2, by omega⟩
        rw [zpow_mul]; norm_num
      rw [this, one_mul]
  · refine ⟨(m : ℝ) * (π - 205887 / 65536) - ρ, ?_, ?_⟩
    · calc |(m : ℝ) * (π - 205887 / 65536) - ρ| ≤ |(m : ℝ) * (π - 205887 / 65536)| + |ρ| := abs_sub _ _
        _ = |(m : ℝ)| * (π - 205887 / 65536) + |ρ| := by rw [abs_mul, abs_of_pos hd]
    · have hu : (u : ℝ) = m * 205887 - w := by
        have : u = m * 205887 - w := by omega
        exact_mod_cast this
      have e : (u : ℝ) / 65536 + ρ = m * π - ((w : ℝ) / 65536 + ((m : ℝ) * (π - 205887 / 65536) - ρ)) := by
        rw [hu]; ring
      rw [e, Real.sin_int_mul_pi_sub]
      have : ((-1 : ℝ)) ^ m = -1 := by
        obtain ⟨k, rfl⟩ : ∃ k, m = 2 * k + 1 := ⟨m / 2, by omega⟩
        rw [zpow_add₀ (by norm_num), zpow_mul]; norm_num
      rw [this]; ring

/-- `|arcsin (sin z)| ≥ |z| − 2η` whenever `|z| ≤ π/2 + η` -/
theorem abs_arcsin_sin_ge (z η : ℝ) (hη0 : 0 ≤ η) (hη1 : η ≤ 1) (hz : |z| ≤ π / 2 + η) :
    |z| - 2 * η ≤ |Real.arcsin (Real.sin z)| := by
  have hpi := Real.pi_gt_three
  rw [abs_le] at hz
  by_cases h1 : z ≤ π / 2
  · by_cases h2 : -(π / 2) ≤ z
    · rw [Real.arcsin_sin h2 h1]; linarith
    · -- z < -π/2 : sin z = sin(-π - z), -π - z ∈ [-π/2 - ?, ...]
      have e : Real.sin z = Real.sin (-π - z) := by
        rw [show -π - z = -(π + z) by ring, Real.sin_neg, Real.sin_add, Real.sin_pi, Real.cos_pi]; ring
      rw [e, Real.arcsin_sin (by linarith) (by linarith)]
      have hneg : -π - z ≤ 0 := by linarith
      rw [abs_of_nonpos hneg, abs_of_neg (by linarith : z < 0)]
      linarith
  · have e : Real.sin z = Real.sin (π - z) := (Real.sin_pi_sub z).symm
    rw [e, Real.arcsin_sin (by linarith) (by linarith)]
    have hpos : 0 ≤ π - z := by linarith
    rw [abs_of_nonneg hpos, abs_of_pos (by linarith : 0 < z)]
    linarith

end FixedMath.R

/-
  Real-analysis layer: rigorous polynomial enclosures of sin and cos (any |x| ≤ 2), dyadic bounds for π.
  The degree-15/16 bounds are obtained from `Complex.exp_bound'` exactly as Mathlib proves its own
  degree-3 `Complex.sin_bound` / `Complex.cos_bound`.
-/
import Mathlib.Analysis.Complex.Trigonometric
import Mathlib.Analysis.Complex.Exponential
import Mathlib.Analysis.Real.Pi.Bounds
import Mathlib.Tactic

namespace FixedMath.R

open Complex Finset in
theorem csin_bound17 {x : ℂ} (hx : ‖x‖ ≤ 2) :
    ‖sin x - (x - x^3/6 + x^5/120 - x^7/5040 + x^9/362880 - x^11/39916800 + x^13/6227020800 - x^15/1307674368000)‖ ≤ ‖x‖ ^ 17 / Nat.factorial 17 * 2 :=
  calc
    ‖sin x - (x - x^3/6 + x^5/120 - x^7/5040 + x^9/362880 - x^11/39916800 + x^13/6227020800 - x^15/1307674368000)‖ =
        ‖(exp (-x * I) - ∑ m ∈ range 17, (-x * I) ^ m / m.factorial) * I / 2 -
         (exp (x * I) - ∑ m ∈ range 17, (x * I) ^ m / m.factorial) * I / 2‖ := by
      simp [sin, field, Finset.sum_range_succ, Nat.factorial]
      grind [I_sq, two_ne_zero]
    _ ≤ ‖exp (-x * I) - ∑ m ∈ range 17, (-x * I) ^ m / m.factorial‖ / 2 +
        ‖exp (x * I) - ∑ m ∈ range 17, (x * I) ^ m / m.factorial‖ / 2 := by
      grw [norm_sub_le]
      simp
    _ ≤ (‖-x * I‖ ^ 17 / Nat.factorial 17 * 2) / 2 +
        (‖x * I‖ ^ 17 / Nat.factorial 17 * 2) / 2 := by
      have h1 : ‖-x * I‖ / (Nat.succ 17) ≤ 1/2 := by simp; linarith
      have h2 : ‖x * I‖ / (Nat.succ 17) ≤ 1/2 := by simp; linarith
      grw [exp_bound' h1, exp_bound' h2]
    _ = ‖x‖ ^ 17 / Nat.factorial 17 * 2 := by simp; ring

/-- Taylor polynomial of sin of degree 15 -/
noncomputable def S8 (x : ℝ) : ℝ :=
  x - x^3/6 + x^5/120 - x^7/5040 + x^9/362880 - x^11/39916800 + x^13/6227020800 - x^15/1307674368000

theorem rsin_bound17 {x : ℝ} (hx : |x| ≤ 2) : |Real.sin x - S8 x| ≤ |x| ^ 17 / Nat.factorial 17 * 2 := by
  have h := @csin_bound17 (x : ℂ) (by simpa using hx)
  have e : (Complex.sin (x:ℂ) - ((x:ℂ) - (x:ℂ)^3/6 + (x:ℂ)^5/120 - (x:ℂ)^7/5040 + (x:ℂ)^9/362880 - (x:ℂ)^11/39916800 + (x:ℂ)^13/6227020800 - (x:ℂ)^15/1307674368000)) = ((Real.sin x - S8 x : ℝ) : ℂ) := by
    simp [S8]
  rw [e, Complex.norm_real, Real.norm_eq_abs] at h
  simpa using h

set_option maxHeartbeats 1600000 in
open Complex Finset in
theorem ccos_bound18 {x : ℂ} (hx : ‖x‖ ≤ 2) :
    ‖cos x - (1 - x^2/2 + x^4/24 - x^6/720 + x^8/40320 - x^10/3628800 + x^12/479001600 - x^14/87178291200 + x^16/20922789888000)‖ ≤ ‖x‖ ^ 18 / Nat.factorial 18 * 2 :=
  calc
    ‖cos x - (1 - x^2/2 + x^4/24 - x^6/720 + x^8/40320 - x^10/3628800 + x^12/479001600 - x^14/87178291200 + x^16/20922789888000)‖ =
        ‖(exp (-x * I) - ∑ m ∈ range 18, (-x * I) ^ m / m.factorial) / 2 +
         (exp (x * I) - ∑ m ∈ range 18, (x * I) ^ m / m.factorial) / 2‖ := by
      simp [cos, field, Finset.sum_range_succ, Nat.factorial]
      grind [I_sq, two_ne_zero]
    _ ≤ ‖exp (-x * I) - ∑ m ∈ range 18, (-x * I) ^ m / m.factorial‖ / 2 +
        ‖exp (x * I) - ∑ m ∈ range 18, (x * I) ^ m / m.factorial‖ / 2 := by
      grw [norm_add_le]
      simp
    _ ≤ (‖-x * I‖ ^ 18 / Nat.factorial 18 * 2) / 2 +
        (‖x * I‖ ^ 18 / Nat.factorial 18 * 2) / 2 := by
      have h1 : ‖-x * I‖ / (Nat.succ 18) ≤ 1/2 := by simp; linarith
      have h2 : ‖x * I‖ / (Nat.succ 18) ≤ 1/2 := by simp; linarith
      grw [exp_bound' h1, exp_bound' h2]
    _ = ‖x‖ ^ 18 / Nat.factorial 18 * 2 := by simp; ring

/-- Taylor polynomial of cos of degree 16 -/
noncomputable def C9 (x : ℝ) : ℝ :=
  1 - x^2/2 + x^4/24 - x^6/720 + x^8/40320 - x^10/3628800 + x^12/479001600 - x^14/87178291200 + x^16/20922789888000

theorem rcos_bound18 {x : ℝ} (hx : |x| ≤ 2) : |Real.cos x - C9 x| ≤ |x| ^ 18 / Nat.factorial 18 * 2 := by
  have h := @ccos_bound18 (x : ℂ) (by simpa using hx)
  have e : (Complex.cos (x:ℂ) - (1 - (x:ℂ)^2/2 + (x:ℂ)^4/24 - (x:ℂ)^6/720 + (x:ℂ)^8/40320 - (x:ℂ)^10/3628800 + (x:ℂ)^12/479001600 - (x:ℂ)^14/87178291200 + (x:ℂ)^16/20922789888000)) = ((Real.cos x - C9 x : ℝ) : ℂ) := by
    simp [C9]
  rw [e, Complex.norm_real, Real.norm_eq_abs] at h
  simpa using h

/-- for |x| ≤ 1.6 the remainders are below 2^-35 -/
theorem sin_rem_small {x : ℝ} (hx : |x| ≤ 8/5) : |Real.sin x - S8 x| ≤ 1 / 34359738368 := by
  have h := rsin_bound17 (x := x) (by linarith)
  have : |x| ^ 17 ≤ (8/5 : ℝ) ^ 17 := pow_le_pow_left₀ (abs_nonneg x) hx 17
  have hf : (Nat.factorial 17 : ℝ) = 355687428096000 := by norm_num [Nat.factorial]
  rw [hf] at h
  calc |Real.sin x - S8 x| ≤ |x| ^ 17 / 355687428096000 * 2 := h
    _ ≤ (8/5 : ℝ) ^ 17 / 355687428096000 * 2 := by gcongr
    _ ≤ 1 / 34359738368 := by norm_num

theorem cos_rem_small {x : ℝ} (hx : |x| ≤ 8/5) : |Real.cos x - C9 x| ≤ 1 / 34359738368 := by
  have h := rcos_bound18 (x := x) (by linarith)
  have : |x| ^ 18 ≤ (8/5 : ℝ) ^ 18 := pow_le_pow_left₀ (abs_nonneg x) hx 18
  have hf : (Nat.factorial 18 : ℝ) = 6402373705728000 := by norm_num [Nat.factorial]
  rw [hf] at h
  calc |Real.cos x - C9 x| ≤ |x| ^ 18 / 6402373705728000 * 2 := h
    _ ≤ (8/5 : ℝ) ^ 18 / 6402373705728000 * 2 := by gcongr
    _ ≤ 1 / 34359738368 := by norm_num

/-- dyadic enclosure of π : `P40/2^40 < π < (P40+1)/2^40` -/
theorem pi_gt_P40 : (3454217652357 : ℝ) / 1099511627776 < Real.pi := by
  have := Real.pi_gt_d20
  have : (3454217652357 : ℝ) / 1099511627776 < 3.14159265358979323846 := by norm_num
  linarith
theorem pi_lt_P40 : Real.pi < (3454217652358 : ℝ) / 1099511627776 := by
  have := Real.pi_lt_d20
  have : (3.14159265358979323847 : ℝ) < 3454217652358 / 1099511627776 := by norm_num
  linarith

end FixedMath.R

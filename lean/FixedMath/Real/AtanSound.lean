/-
  Real-analysis side of C11: arctan identities, and soundness of the kernel checker of Check/AtanK.lean.
-/
import FixedMath.Real.AsinSound
import FixedMath.Check.AtanK
import Mathlib.Analysis.SpecialFunctions.Trigonometric.Arctan
import Mathlib.Analysis.SpecialFunctions.Trigonometric.ArctanDeriv
import Mathlib.Analysis.Calculus.MeanValue

namespace FixedMath.R
open FixedMath.Chk FixedMath Real

theorem arctan_split (x c : ℝ) (hx : 0 ≤ x) (hc : 0 ≤ c) :
    arctan x = arctan c + arctan ((x - c) / (1 + x * c)) := by
  have h : x * (-c) < 1 := by nlinarith [mul_nonneg hx hc]
  have := arctan_add h
  rw [arctan_neg] at this
  have e : (x + -c) / (1 - x * -c) = (x - c) / (1 + x * c) := by ring_nf
  rw [e] at this
  linarith

theorem arctan_lipschitz (a b : ℝ) : |arctan a - arctan b| ≤ |a - b| := by
  have hd : ∀ x : ℝ, HasDerivAt arctan (1 / (1 + x^2)) x := fun x => hasDerivAt_arctan x
  have hb : ∀ x : ℝ, ‖(1 / (1 + x^2) : ℝ)‖ ≤ 1 := by
    intro x
    rw [Real.norm_eq_abs, abs_of_nonneg (by positivity)]
    rw [div_le_one (by positivity)]
    nlinarith [sq_nonneg x]
  have := Convex.norm_image_sub_le_of_norm_hasDerivWithin_le (f := arctan) (f' := fun x => 1 / (1 + x^2))
    (s := Set.univ) (C := 1) (fun x _ => (hd x).hasDerivWithinAt) (fun x _ => hb x) convex_univ (Set.mem_univ b) (Set.mem_univ a)
  simpa [Real.norm_eq_abs] using this

/-- enclosures of sin and cos at an exact dyadic point, with the checker's slack -/
theorem encl_at (K T : Nat) (hT : 5 * T ≤ 8 * 2 ^ K) :
    let B : ℝ := (T : ℝ) / 2 ^ K
    (sinPos K T : ℝ) - sinNeg K T - ((sinScale K / 17179869184 + 1 : ℕ) : ℝ) ≤ (sinScale K : ℝ) * Real.sin B ∧
    (sinScale K : ℝ) * Real.sin B ≤ (sinPos K T : ℝ) - sinNeg K T + ((sinScale K / 17179869184 + 1 : ℕ) : ℝ) ∧
    (cosPos K T : ℝ) - cosNeg K T - ((cosScale K / 17179869184 + 1 : ℕ) : ℝ) ≤ (cosScale K : ℝ) * Real.cos B ∧
    (cosScale K : ℝ) * Real.cos B ≤ (cosPos K T : ℝ) - cosNeg K T + ((cosScale K / 17179869184 + 1 : ℕ) : ℝ) ∧
    B ≤ 8 / 5 := by
  intro B
  have hx : (T : ℝ) / 2 ^ K ≤ 8 / 5 := by
    have : ((5 * T : ℕ) : ℝ) ≤ ((8 * 2 ^ K : ℕ) : ℝ) := by exact_mod_cast hT
    push_cast at this
    rw [div_le_div_iff₀ (by positivity) (by norm_num)]; linarith
  have hs := sin_scaled_encl K T hx
  have hc := cos_scaled_encl K T hx
  rw [abs_le] at hs hc
  have h1 := slack_dominates (sinScale K)
  have h2 := slack_dominates (cosScale K)
  have hσ : (0 : ℝ) ≤ (sinScale K : ℝ) := by positivity
  have hγ : (0 : ℝ) ≤ (cosScale K : ℝ) := by positivity
  have g1 : (sinScale K : ℝ) / 34359738368 ≤ (sinScale K : ℝ) / 17179869184 := by
    apply div_le_div_of_nonneg_left hσ (by norm_num) (by norm_num)
  have g2 : (cosScale K : ℝ) / 34359738368 ≤ (cosScale K : ℝ) / 17179869184 := by
    apply div_le_div_of_nonneg_left hγ (by norm_num) (by norm_num)
  refine ⟨by linarith [hs.1], by linarith [hs.2], by linarith [hc.1], by linarith [hc.2], hx⟩

theorem lt_pi_div_two_of_cos_pos (B : ℝ) (h0 : 0 ≤ B) (h1 : B ≤ 8 / 5) (hc : 0 < Real.cos B) : B < π / 2 := by
  by_contra hcon
  push Not at hcon
  have hpi := Real.pi_gt_three
  have := Real.cos_nonpos_of_pi_div_two_le_of_le hcon (by linarith)
  linarith

/-- `atanLe K T z = true` ⇒ arctan(z/65536) ≤ T/2^K -/
theorem atanLe_sound (K T z : Nat) (h : atanLe K T z = true) : Real.arctan ((z : ℝ) / 65536) ≤ (T : ℝ) / 2 ^ K := by
  unfold atanLe at h
  simp only [Bool.and_eq_true, Nat.ble_eq, Nat.blt_eq] at h
  obtain ⟨⟨hT, hg⟩, hc⟩ := h
  obtain ⟨s1, _, c1, c2, hB⟩ := encl_at K T hT
  set B : ℝ := (T : ℝ) / 2 ^ K with hBd
  have hσ : (0 : ℝ) < (sinScale K : ℝ) := by unfold sinScale; positivity
  have hγ : (0 : ℝ) < (cosScale K : ℝ) := by unfold cosScale; positivity
  have hgr := (Nat.cast_lt (α := ℝ)).mpr hg
  push_cast at hgr
  have hcospos : 0 < Real.cos B := by
    have hp : 0 < (cosScale K : ℝ) * Real.cos B := by push_cast at c1; linarith
    rcases (mul_pos_iff.mp hp) with ⟨_, h2⟩ | ⟨h1, _⟩
    · exact h2
    · linarith
  have hB0 : 0 ≤ B := by positivity
  have hBlt := lt_pi_div_two_of_cos_pos B hB0 hB hcospos
  -- z cos B ≤ 65536 sin B
  have hcr := (Nat.cast_le (α := ℝ)).mpr hc
  push_cast at hcr
  have hcHi : (cosPos K T : ℝ) + ((cosScale K / 17179869184 : ℕ) + 1) - cosNeg K T ≤ ((cosPos K T + (cosScale K / 17179869184 + 1) - cosNeg K T : ℕ) : ℝ) := by
    have := nat_sub_cast_ge (cosPos K T + (cosScale K / 17179869184 + 1)) (cosNeg K T)
    push_cast at this; exact this
  have hsLo : ((sinPos K T - (sinNeg K T + (sinScale K / 17179869184 + 1)) : ℕ) : ℝ) ≤ max 0 ((sinPos K T : ℝ) - sinNeg K T - ((sinScale K / 17179869184 : ℕ) + 1)) := by
    have := nat_sub_cast_le_max (sinPos K T) (sinNeg K T + (sinScale K / 17179869184 + 1))
    push_cast at this
    have e : (sinPos K T : ℝ) - (sinNeg K T + ((sinScale K / 17179869184 : ℕ) + 1)) = (sinPos K T : ℝ) - sinNeg K T - ((sinScale K / 17179869184 : ℕ) + 1) := by ring
    rw [e] at this; exact this
  have hsin0 : 0 ≤ Real.sin B := Real.sin_nonneg_of_nonneg_of_le_pi hB0 (by linarith [Real.pi_gt_three])
  push_cast at s1 c2
  generalize ((cosPos K T + (cosScale K / 17179869184 + 1) - cosNeg K T : ℕ) : ℝ) = cHi at *
  generalize ((sinPos K T - (sinNeg K T + (sinScale K / 17179869184 + 1)) : ℕ) : ℝ) = sLo at *
  have hz0 : (0 : ℝ) ≤ z := by positivity
  have b1 : (cosScale K : ℝ) * Real.cos B ≤ cHi := by linarith
  have b2 : sLo ≤ (sinScale K : ℝ) * Real.sin B := by
    have : max 0 ((sinPos K T : ℝ) - sinNeg K T - ((sinScale K / 17179869184 : ℕ) + 1)) ≤ (sinScale K : ℝ) * Real.sin B := by
      apply max_le
      · positivity
      · linarith
    linarith
  have key : (z : ℝ) * Real.cos B ≤ 65536 * Real.sin B := by
    have h1 : (z : ℝ) * ((cosScale K : ℝ) * Real.cos B) * (sinScale K : ℝ) ≤ 65536 * ((sinScale K : ℝ) * Real.sin B) * (cosScale K : ℝ) := by
      calc (z : ℝ) * ((cosScale K : ℝ) * Real.cos B) * (sinScale K : ℝ) ≤ (z : ℝ) * cHi * (sinScale K : ℝ) := by gcongr
        _ ≤ 65536 * sLo * (cosScale K : ℝ) := hcr
        _ ≤ 65536 * ((sinScale K : ℝ) * Real.sin B) * (cosScale K : ℝ) := by gcongr
    have h2 : (sinScale K : ℝ) * (cosScale K : ℝ) * ((z : ℝ) * Real.cos B) ≤ (sinScale K : ℝ) * (cosScale K : ℝ) * (65536 * Real.sin B) := by
      nlinarith
    exact le_of_mul_le_mul_left h2 (by positivity)
  have htan : (z : ℝ) / 65536 ≤ Real.tan B := by
    rw [Real.tan_eq_sin_div_cos, div_le_div_iff₀ (by norm_num) hcospos]
    linarith
  calc Real.arctan ((z : ℝ) / 65536) ≤ Real.arctan (Real.tan B) := Real.arctan_strictMono.monotone htan
    _ = B := Real.arctan_tan (by linarith [Real.pi_gt_three]) hBlt

/-- `atanGe K T z = true` ⇒ T/2^K ≤ arctan(z/65536) -/
theorem atanGe_sound (K T z : Nat) (h : atanGe K T z = true) : (T : ℝ) / 2 ^ K ≤ Real.arctan ((z : ℝ) / 65536) := by
  unfold atanGe at h
  simp only [Bool.and_eq_true, Nat.ble_eq, Nat.blt_eq] at h
  obtain ⟨⟨hT, hg⟩, hc⟩ := h
  obtain ⟨_, s2, c1, _, hB⟩ := encl_at K T hT
  set B : ℝ := (T : ℝ) / 2 ^ K with hBd
  have hσ : (0 : ℝ) < (sinScale K : ℝ) := by unfold sinScale; positivity
  have hγ : (0 : ℝ) < (cosScale K : ℝ) := by unfold cosScale; positivity
  have hgr := (Nat.cast_lt (α := ℝ)).mpr hg
  push_cast at hgr c1 s2
  have hcospos : 0 < Real.cos B := by
    have hp : 0 < (cosScale K : ℝ) * Real.cos B := by linarith
    rcases (mul_pos_iff.mp hp) with ⟨_, h2⟩ | ⟨h1, _⟩
    · exact h2
    · linarith
  have hB0 : 0 ≤ B := by positivity
  have hBlt := lt_pi_div_two_of_cos_pos B hB0 hB hcospos
  have hcr := (Nat.cast_le (α := ℝ)).mpr hc
  push_cast at hcr
  have hcLo : ((cosPos K T - cosNeg K T - (cosScale K / 17179869184 + 1) : ℕ) : ℝ) = (cosPos K T : ℝ) - cosNeg K T - ((cosScale K / 17179869184 : ℕ) + 1) := by
    rw [Nat.cast_sub (by omega), Nat.cast_sub (by omega)]; push_cast; ring
  have hsHi : (sinPos K T : ℝ) + ((sinScale K / 17179869184 : ℕ) + 1) - sinNeg K T ≤ ((sinPos K T + (sinScale K / 17179869184 + 1) - sinNeg K T : ℕ) : ℝ) := by
    have := nat_sub_cast_ge (sinPos K T + (sinScale K / 17179869184 + 1)) (sinNeg K T)
    push_cast at this; exact this
  generalize ((cosPos K T - cosNeg K T - (cosScale K / 17179869184 + 1) : ℕ) : ℝ) = cLo at *
  generalize ((sinPos K T + (sinScale K / 17179869184 + 1) - sinNeg K T : ℕ) : ℝ) = sHi at *
  have hz0 : (0 : ℝ) ≤ z := by positivity
  have b1 : cLo ≤ (cosScale K : ℝ) * Real.cos B := by linarith
  have hcLo0 : 0 ≤ cLo := by linarith
  have b2 : (sinScale K : ℝ) * Real.sin B ≤ sHi := by linarith
  have key : 65536 * Real.sin B ≤ (z : ℝ) * Real.cos B := by
    have h1 : 65536 * ((sinScale K : ℝ) * Real.sin B) * (cosScale K : ℝ) ≤ (z : ℝ) * ((cosScale K : ℝ) * Real.cos B) * (sinScale K : ℝ) := by
      calc 65536 * ((sinScale K : ℝ) * Real.sin B) * (cosScale K : ℝ) ≤ 65536 * sHi * (cosScale K : ℝ) := by gcongr
        _ = sHi * 65536 * (cosScale K : ℝ) := by ring
        _ ≤ (z : ℝ) * cLo * (sinScale K : ℝ) := hcr
        _ ≤ (z : ℝ) * ((cosScale K : ℝ) * Real.cos B) * (sinScale K : ℝ) := by gcongr
    have h2 : (sinScale K : ℝ) * (cosScale K : ℝ) * (65536 * Real.sin B) ≤ (sinScale K : ℝ) * (cosScale K : ℝ) * ((z : ℝ) * Real.cos B) := by
      nlinarith
    exact le_of_mul_le_mul_left h2 (by positivity)
  have htan : Real.tan B ≤ (z : ℝ) / 65536 := by
    rw [Real.tan_eq_sin_div_cos, div_le_div_iff₀ hcospos (by norm_num)]
    linarith
  calc B = Real.arctan (Real.tan B) := (Real.arctan_tan (by linarith [Real.pi_gt_three]) hBlt).symm
    _ ≤ Real.arctan ((z : ℝ) / 65536) := Real.arctan_strictMono.monotone htan

end FixedMath.R

namespace FixedMath.R
open FixedMath.Chk FixedMath Real

/-- the facts about one argument of the polynomial kernel extracted from `checkAtanK` -/
theorem checkAtanK_sound (z : Nat) (hz : z < 28672) (h : checkAtanK z = true) :
    ∃ k : Int, atanKernel 16 (z : Int) = .ok k ∧ 0 ≤ k ∧
      (k : ℝ) - 2 / 16 ≤ 65536 * Real.arctan ((z : ℝ) / 65536) ∧
      65536 * Real.arctan ((z : ℝ) / 65536) ≤ (k : ℝ) + 19 / 16 ∧
      (z + 1 < 28672 → ∃ k' : Int, atanKernel 16 ((z : Int) + 1) = .ok k' ∧ k ≤ k' ∧ k' ≤ k + 1) := by
  unfold checkAtanK at h
  rw [if_neg (by omega)] at h
  cases hk : atanKernel 16 (z : Int) with
  | error e => rw [hk] at h; simp at h
  | ok k =>
    rw [hk] at h
    simp only [Bool.and_eq_true, decide_eq_true_eq] at h
    obtain ⟨⟨⟨h0, hle⟩, hge⟩, hstep⟩ := h
    have hkn : ((k.natAbs : ℕ) : ℝ) = (k : ℝ) := by rw [← Int.cast_natCast, Int.natAbs_of_nonneg h0]
    have e20 : (2 : ℝ) ^ 20 = 1048576 := by norm_num
    refine ⟨k, rfl, h0, ?_, ?_, ?_⟩
    · by_cases hs : 16 * k.natAbs < 2
      · have : (k : ℝ) ≤ 0 := by
          have : k.natAbs = 0 := by omega
          rw [← hkn, this]; simp
        have h0' : 0 ≤ Real.arctan ((z : ℝ) / 65536) := by
          rw [← Real.arctan_zero]; exact Real.arctan_strictMono.monotone (by positivity)
        linarith
      · rw [if_neg hs] at hge
        have := atanGe_sound 20 (16 * k.natAbs - 2) z hge
        rw [e20, Nat.cast_sub (by omega)] at this
        push_cast at this
        rw [hkn] at this
        have : ((16 : ℝ) * k - 2) / 1048576 * 65536 ≤ 65536 * Real.arctan ((z : ℝ) / 65536) := by nlinarith
        linarith
    · have := atanLe_sound 20 (16 * k.natAbs + 19) z hle
      rw [e20] at this
      push_cast at this
      rw [hkn] at this
      have : 65536 * Real.arctan ((z : ℝ) / 65536) ≤ ((16 : ℝ) * k + 19) / 1048576 * 65536 := by nlinarith
      linarith
    · intro hz1
      rw [if_neg (by omega)] at hstep
      cases hk' : atanKernel 16 ((z : Int) + 1) with
      | error e => rw [hk'] at hstep; simp at hstep
      | ok k' =>
        rw [hk'] at hstep
        simp only [Bool.and_eq_true, decide_eq_true_eq] at hstep
        exact ⟨k', rfl, hstep.1, hstep.2⟩

end FixedMath.R

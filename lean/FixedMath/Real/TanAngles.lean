/-
  Soundness of Check/TanAngles.lean: the arctangent of every tangent-table entry is within 10/65536 rad of its angle.
-/
import FixedMath.Check.TanAngles
import FixedMath.Real.AtanSound
import FixedMath.Real.Encl

namespace FixedMath.R
open FixedMath Chk Gen Real

theorem nat_div_real (a b : Nat) (hb : 0 < b) : ((a / b : ℕ) : ℝ) ≤ (a : ℝ) / b ∧ (a : ℝ) / b < ((a / b : ℕ) : ℝ) + 1 := by
  have hbr : (0 : ℝ) < (b : ℝ) := by exact_mod_cast hb
  constructor
  · rw [le_div_iff₀ hbr]
    have : ((a / b * b : ℕ) : ℝ) ≤ (a : ℝ) := by exact_mod_cast Nat.div_mul_le_self a b
    push_cast at this; exact this
  · rw [div_lt_iff₀ hbr]
    have h := Nat.lt_div_mul_add (a := a) hb
    have : ((a : ℕ) : ℝ) < ((a / b * b + b : ℕ) : ℝ) := by exact_mod_cast h
    push_cast at this; linarith

theorem angLo_ge (j : Nat) (h1 : 1 ≤ j) (h2 : j ≤ 127) :
    (j : ℝ) * π / 256 - 10 / 65536 ≤ (angLo j : ℝ) / 2 ^ 16 := by
  unfold angLo P40
  obtain ⟨_, f2⟩ := nat_div_real (j * 256 * 3454217652357) 1099511627776 (by norm_num)
  have hfl : 8 ≤ j * 256 * 3454217652357 / 1099511627776 := by
    have : 1 * 256 * 3454217652357 / 1099511627776 ≤ j * 256 * 3454217652357 / 1099511627776 :=
      Nat.div_le_div_right (by nlinarith)
    have e : 1 * 256 * 3454217652357 / 1099511627776 = 804 := by norm_num
    omega
  rw [Nat.cast_sub hfl]
  push_cast at f2 ⊢
  have hj : (j : ℝ) ≤ 127 := by exact_mod_cast h2
  have hj0 : (1 : ℝ) ≤ (j : ℝ) := by exact_mod_cast h1
  have hpi := pi_lt_P40
  -- j·256·P40/2^40 ≥ j·256·π − j·256/2^40
  have : (j : ℝ) * 256 * π ≤ (j : ℝ) * 256 * 3454217652357 / 1099511627776 + (j : ℝ) * 256 / 1099511627776 := by
    have : π ≤ 3454217652357 / 1099511627776 + 1 / 1099511627776 := by linarith
    have h3 := mul_le_mul_of_nonneg_left this (by positivity : (0 : ℝ) ≤ (j : ℝ) * 256)
    linarith
  have h4 : (j : ℝ) * 256 / 1099511627776 ≤ 1 / 2 := by
    rw [div_le_iff₀ (by norm_num)]; linarith
  rw [le_div_iff₀ (by norm_num)]
  norm_num
  linarith

theorem angHi_le (j : Nat) (h1 : 1 ≤ j) (h2 : j ≤ 127) :
    (angHi j : ℝ) / 2 ^ 16 ≤ (j : ℝ) * π / 256 + 10 / 65536 := by
  unfold angHi P40
  obtain ⟨f1, _⟩ := nat_div_real (j * 256 * (3454217652357 + 1)) 1099511627776 (by norm_num)
  push_cast at f1 ⊢
  have hj : (j : ℝ) ≤ 127 := by exact_mod_cast h2
  have hj0 : (1 : ℝ) ≤ (j : ℝ) := by exact_mod_cast h1
  have hpi := pi_gt_P40
  have : (j : ℝ) * 256 * (3454217652357 + 1) / 1099511627776 ≤ (j : ℝ) * 256 * π + (j : ℝ) * 256 / 1099511627776 := by
    have : (3454217652357 + 1 : ℝ) / 1099511627776 ≤ π + 1 / 1099511627776 := by linarith
    have h3 := mul_le_mul_of_nonneg_left this (by positivity : (0 : ℝ) ≤ (j : ℝ) * 256)
    linarith
  have h4 : (j : ℝ) * 256 / 1099511627776 ≤ 1 / 2 := by
    rw [div_le_iff₀ (by norm_num)]; linarith
  rw [div_le_iff₀ (by norm_num)]
  norm_num
  linarith

theorem checkTanAngle_sound_pos (i : Nat) (h1 : 1 ≤ i) (h2 : i ≤ 127) (h : checkTanAngle i = true) :
    0 < tan_tableL.getD i 0 ∧
    |arctan ((tan_tableL.getD i 0 : ℝ) / 65536) - (i : ℝ) * π / 256| ≤ 10 / 65536 := by
  unfold checkTanAngle at h
  simp only [] at h
  rw [if_neg (by omega), if_pos (by omega)] at h
  simp only [Bool.and_eq_true, decide_eq_true_eq] at h
  obtain ⟨⟨hpos, hge⟩, hle⟩ := h
  have hcast : ((tan_tableL.getD i 0).natAbs : ℝ) = ((tan_tableL.getD i 0 : Int) : ℝ) := by
    rw [← Int.cast_natCast, Int.natAbs_of_nonneg (by omega)]
  have a := atanGe_sound 16 _ _ hge
  have b := atanLe_sound 16 _ _ hle
  rw [hcast] at a b
  have c := angLo_ge i h1 h2
  have d := angHi_le i h1 h2
  refine ⟨hpos, ?_⟩
  rw [abs_le]; constructor <;> linarith

theorem checkTanAngle_sound_neg (i : Nat) (h1 : 129 ≤ i) (h2 : i ≤ 255) (h : checkTanAngle i = true) :
    tan_tableL.getD i 0 < 0 ∧
    |arctan ((tan_tableL.getD i 0 : ℝ) / 65536) - ((i : ℝ) - 256) * π / 256| ≤ 10 / 65536 := by
  unfold checkTanAngle at h
  simp only [] at h
  rw [if_neg (by omega), if_neg (by omega)] at h
  simp only [Bool.and_eq_true, decide_eq_true_eq] at h
  obtain ⟨⟨hneg, hge⟩, hle⟩ := h
  have hcast : ((tan_tableL.getD i 0).natAbs : ℝ) = -((tan_tableL.getD i 0 : Int) : ℝ) := by
    rw [← Int.cast_natCast, Int.ofNat_natAbs_of_nonpos (by omega)]; push_cast; ring
  have a := atanGe_sound 16 _ _ hge
  have b := atanLe_sound 16 _ _ hle
  rw [hcast, neg_div, arctan_neg] at a b
  have c := angLo_ge (256 - i) (by omega) (by omega)
  have d := angHi_le (256 - i) (by omega) (by omega)
  have e : ((256 - i : ℕ) : ℝ) = 256 - (i : ℝ) := by rw [Nat.cast_sub (by omega)]; norm_num
  rw [e] at c d
  refine ⟨hneg, ?_⟩
  rw [abs_le]; constructor
  · have : ((i : ℝ) - 256) * π / 256 = -((256 - (i : ℝ)) * π / 256) := by ring
    rw [this]; linarith
  · have : ((i : ℝ) - 256) * π / 256 = -((256 - (i : ℝ)) * π / 256) := by ring
    rw [this]; linarith

end FixedMath.R

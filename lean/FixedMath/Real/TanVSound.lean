/-
  Soundness of `Chk.checkTanV` : what the kernel-checked enumeration says about `Real.tan`.
-/
import FixedMath.Real.TanSound
import FixedMath.Check.TanV

namespace FixedMath.R
open FixedMath.Chk FixedMath Real

theorem D40_val : ((D40 : ℕ) : ℝ) = (P40 : ℝ) - 205887 * 16777216 := by
  unfold D40 P40; norm_num

/-- the statement extracted from one kernel-checked point -/
theorem checkTanV_sound (x1 : Nat) (hx : x1 ≤ 205886) (h : checkTanV x1 = true) :
    (x1 = 102944 → tanRed (x1 : Int) false = .ok 9223372036854775807) ∧
    (x1 ≠ 102944 → ∃ T : Int, tanRed (x1 : Int) false = .ok T ∧ -1099511627776 ≤ T ∧ T ≤ 1099511627776 ∧
        Real.cos ((x1 : ℝ) / 65536) ≠ 0 ∧
        |(T : ℝ) / 65536 - Real.tan ((x1 : ℝ) / 65536)| ≤ (5 / 2) / 65536 * (1 + Real.tan ((x1 : ℝ) / 65536) ^ 2)) := by
  unfold checkTanV at h
  have hna : ¬ (x1 > 205886) := by omega
  rw [if_neg hna] at h
  cases hT : tanRed (x1 : Int) false with
  | error e => rw [hT] at h; simp at h
  | ok T =>
    rw [hT] at h
    simp only [] at h
    have hB : ((5 : ℕ) : ℝ) / ((131072 : ℕ) : ℝ) = (5 / 2) / 65536 := by norm_num
    constructor
    · intro he
      rw [if_pos he] at h
      simp only [decide_eq_true_eq] at h
      rw [h]
    · intro hne
      rw [if_neg hne] at h
      refine ⟨T, rfl, ?_⟩
      by_cases hlt : x1 < 102944
      · rw [if_pos hlt] at h
        simp only [Bool.and_eq_true, decide_eq_true_eq, Nat.ble_eq] at h
        obtain ⟨⟨h0, hb⟩, ha⟩ := h
        have ht0 : (0 : ℝ) ≤ (x1 : ℝ) / 65536 := by positivity
        have hclose : |(x1 : ℝ) / 65536 - ((x1 * 16777216 : ℕ) : ℝ) / 2 ^ 40| ≤ 1 / 34359738368 := by
          have : ((x1 * 16777216 : ℕ) : ℝ) / 2 ^ 40 = (x1 : ℝ) / 65536 := by push_cast; norm_num; ring
          rw [this, sub_self, abs_zero]; norm_num
        obtain ⟨hc, hpos⟩ := accTan_sound 40 (x1 * 16777216) T.natAbs 5 131072 ha (by norm_num) _ ht0 hclose
        have hen : ((T.natAbs : ℕ) : ℝ) = (T : ℝ) := by rw [← Int.cast_natCast, Int.natAbs_of_nonneg h0]
        rw [hen, hB] at hc
        refine ⟨by omega, by omega, ne_of_gt hpos, tan_bound_of_core _ _ _ hpos hc⟩
      · rw [if_neg hlt] at h
        simp only [Bool.and_eq_true, decide_eq_true_eq, Nat.ble_eq] at h
        obtain ⟨⟨h0, hb⟩, ha⟩ := h
        -- t = π - x
        have hxle : (x1 : ℝ) ≤ 205886 := by exact_mod_cast hx
        have hlo := P40_lo
        have hhi := P40_hi
        have ht0 : (0 : ℝ) ≤ π - (x1 : ℝ) / 65536 := by
          have : (205886 : ℝ) / 65536 < (P40 : ℝ) / 1099511627776 := by unfold P40; norm_num
          have : (x1 : ℝ) / 65536 ≤ 205886 / 65536 := by gcongr
          linarith
        have hclose : |(π - (x1 : ℝ) / 65536) - (((205887 - x1) * 16777216 + D40 : ℕ) : ℝ) / 2 ^ 40| ≤ 1 / 34359738368 := by
          have e : (((205887 - x1) * 16777216 + D40 : ℕ) : ℝ) / 2 ^ 40 = (P40 : ℝ) / 1099511627776 - (x1 : ℝ) / 65536 := by
            rw [Nat.cast_add, Nat.cast_mul, Nat.cast_sub (by omega), D40_val]
            push_cast; norm_num; ring
          rw [e]
          have e2 : (π - (x1 : ℝ) / 65536) - ((P40 : ℝ) / 1099511627776 - (x1 : ℝ) / 65536) = π - (P40 : ℝ) / 1099511627776 := by ring
          rw [e2, abs_le]
          have : ((P40 : ℝ) + 1) / 1099511627776 = (P40 : ℝ) / 1099511627776 + 1 / 1099511627776 := by ring
          have hsm : (1 : ℝ) / 1099511627776 ≤ 1 / 34359738368 := by norm_num
          constructor <;> linarith
        obtain ⟨hc, hpos⟩ := accTan_sound 40 _ T.natAbs 5 131072 ha (by norm_num) _ ht0 hclose
        have hen : ((T.natAbs : ℕ) : ℝ) = -(T : ℝ) := by
          rw [← Int.cast_natCast, Int.ofNat_natAbs_of_nonpos h0]; simp
        rw [hen, hB] at hc
        have hb2 := tan_bound_of_core _ _ _ hpos hc
        have htan : Real.tan ((x1 : ℝ) / 65536) = -Real.tan (π - (x1 : ℝ) / 65536) := by
          rw [Real.tan_pi_sub]; ring
        have hcos : Real.cos ((x1 : ℝ) / 65536) = -Real.cos (π - (x1 : ℝ) / 65536) := by
          rw [Real.cos_pi_sub]; ring
        refine ⟨by omega, by omega, ?_, ?_⟩
        · rw [hcos]; exact neg_ne_zero.mpr (ne_of_gt hpos)
        · rw [htan]
          have e1 : (T : ℝ) / 65536 - -Real.tan (π - (x1 : ℝ) / 65536) = -(-(T : ℝ) / 65536 - Real.tan (π - (x1 : ℝ) / 65536)) := by ring
          rw [e1, abs_neg, neg_sq]
          exact hb2

end FixedMath.R

/-
  The std::sqrt back-end (`detail::sqrt_std_math` over the IEEE model): accuracy, monotonicity, negatives, and the
  back-end contract `SqrtNear` used by hypot — all derived from the rounding theory, no hypothesis.
-/
import FixedMath.Real.FloatSqrt
import FixedMath.Proofs.Hypot

namespace FixedMath
open Gen R

/-- accuracy: within one unit of `√(n·2^16)` for every `0 ≤ n < 2^48` -/
theorem sqrtStd_acc (n : Int) (h0 : 0 ≤ n) (h1 : n < 281474976710656) :
    ∃ r : Int, sqrtStd n = .ok r ∧ 0 ≤ r ∧ |(r : ℝ) - Real.sqrt ((n : ℝ) * 65536)| < 1 := by
  rcases lt_or_ge n 1 with hz | hpos
  · have : n = 0 := by omega
    subst this
    exact ⟨0, sqrtStd_zero, le_refl _, by simp⟩
  · obtain ⟨q, W, hq, hq0, a1, a2, w1, w2⟩ := sqrtStd_spec n hpos h1
    refine ⟨q, hq, hq0, ?_⟩
    rw [abs_lt]; constructor <;> linarith

theorem sqrtNear_std : SqrtNear .std := by
  intro n h0 h1
  obtain ⟨q, hq, hq0, hacc⟩ := sqrtStd_acc n h0 h1
  obtain ⟨hlo, hhi⟩ := abs_lt.mp hacc
  have hn0 : (0 : ℝ) ≤ (n : ℝ) := by exact_mod_cast h0
  have hT0 : 0 ≤ Real.sqrt ((n : ℝ) * 65536) := Real.sqrt_nonneg _
  have hTT : Real.sqrt ((n : ℝ) * 65536) * Real.sqrt ((n : ℝ) * 65536) = (n : ℝ) * 65536 :=
    Real.mul_self_sqrt (by positivity)
  have hqr : (0 : ℝ) ≤ (q : ℝ) := by exact_mod_cast hq0
  refine ⟨q, hq, hq0, ?_, ?_⟩
  · have : (n : ℝ) * 65536 < ((q : ℝ) + 1) * ((q : ℝ) + 1) := by nlinarith
    exact_mod_cast this
  · by_cases hz : q = 0
    · exact Or.inl hz
    · right
      have hq1 : (1 : ℝ) ≤ (q : ℝ) := by
        have : 1 ≤ q := by omega
        exact_mod_cast this
      have : ((q : ℝ) - 1) * ((q : ℝ) - 1) < (n : ℝ) * 65536 := by nlinarith
      exact_mod_cast this

/-- monotone: the two roundings cannot reorder results, because two distinct arguments have roots at least `2^-17` apart -/
theorem sqrtStd_mono (v w : Int) (h0 : 0 ≤ v) (hvw : v ≤ w) (h1 : w < 281474976710656) :
    ∃ r s : Int, sqrtStd v = .ok r ∧ sqrtStd w = .ok s ∧ r ≤ s := by
  rcases lt_or_ge v 1 with hz | hpos
  · have : v = 0 := by omega
    subst this
    obtain ⟨s, hs, hs0, _⟩ := sqrtStd_acc w (by omega) h1
    exact ⟨0, s, sqrtStd_zero, hs, hs0⟩
  · rcases eq_or_lt_of_le hvw with heq | hlt
    · subst heq
      obtain ⟨r, hr, _, _⟩ := sqrtStd_acc v h0 h1
      exact ⟨r, r, hr, hr, le_refl _⟩
    · obtain ⟨r, Wv, hr, hr0, a1, a2, v1, v2⟩ := sqrtStd_spec v hpos (by omega)
      obtain ⟨s, Ww, hs, hs0, b1, b2, w1, w2⟩ := sqrtStd_spec w (by omega) h1
      refine ⟨r, s, hr, hs, ?_⟩
      by_contra hc
      push Not at hc
      have hrs : (s : ℝ) + 1 ≤ (r : ℝ) := by
        have : s + 1 ≤ r := by omega
        exact_mod_cast this
      set Tv : ℝ := Real.sqrt ((v : ℝ) * 65536) with hTv
      set Tw : ℝ := Real.sqrt ((w : ℝ) * 65536) with hTw
      have hv1 : (1 : ℝ) ≤ (v : ℝ) := by exact_mod_cast hpos
      have hw2 : (w : ℝ) < 281474976710656 := by exact_mod_cast h1
      have hvwr : (v : ℝ) + 1 ≤ (w : ℝ) := by
        have : v + 1 ≤ w := by omega
        exact_mod_cast this
      have hTv0 : 0 ≤ Tv := Real.sqrt_nonneg _
      have hTw0 : 0 ≤ Tw := Real.sqrt_nonneg _
      have hTvv : Tv * Tv = (v : ℝ) * 65536 := Real.mul_self_sqrt (by linarith)
      have hTww : Tw * Tw = (w : ℝ) * 65536 := Real.mul_self_sqrt (by linarith)
      have hTwlt : Tw < 4294967296 := by
        by_contra h; push Not at h; nlinarith
      have hTvlt : Tv ≤ Tw := by
        by_contra h; push Not at h; nlinarith
      -- Tw − Tv < 2^-18 from the reordering, but (Tw − Tv)(Tw + Tv) ≥ 65536
      have hclose : Tw - Tv < 1 / 262144 := by linarith
      have hprod : (Tw - Tv) * (Tw + Tv) = ((w : ℝ) - (v : ℝ)) * 65536 := by
        have : (Tw - Tv) * (Tw + Tv) = Tw * Tw - Tv * Tv := by ring
        rw [this, hTvv, hTww]; ring
      have hsum : Tw + Tv < 8589934592 := by linarith
      have hd0 : 0 ≤ Tw - Tv := by linarith
      have : (Tw - Tv) * (Tw + Tv) ≤ 1 / 262144 * 8589934592 := by
        apply mul_le_mul hclose.le hsum.le (by linarith) (by norm_num)
      rw [hprod] at this
      nlinarith

/-- negative arguments: NaN -/
theorem sqrtStd_neg (v : Int) (h : v < 0) (hmin : -9223372036854775808 ≤ v) : sqrtStd v = .ok NaNp := by
  obtain ⟨q, E, R0, hres, hval, herr, _, _, _⟩ := fixedToFp_val b64 good_b64 v (by omega) hmin (by omega)
  have hneg : decide (v < 0) = true := by simp; exact h
  rw [hneg] at hres
  have hq : q ≠ 0 := by
    intro hq; subst hq
    rw [Nat.cast_zero, zero_mul] at hval
    have hR0 : R0 = 0 := by linarith
    rw [hR0] at herr
    have hnpos : (1 : ℝ) ≤ (v.natAbs : ℝ) := by
      have : 1 ≤ v.natAbs := by omega
      exact_mod_cast this
    rw [zero_sub, abs_neg, abs_of_nonneg (by linarith)] at herr
    have hp : (2 : ℝ) ^ (-(b64.p : ℤ)) ≤ 1 / 2 := by
      have : (b64.p : ℤ) = 53 := by decide
      rw [this]; norm_num
    have := mul_le_mul_of_nonneg_left hp (by linarith : (0 : ℝ) ≤ (v.natAbs : ℝ))
    linarith
  unfold sqrtStd
  rw [hres]
  have : FP.sqrt b64 (.fin true q E) = .nan := by simp [FP.sqrt, hq]
  rw [this]
  exact fpToFixed_nan b64

/-- `sqrt_std_math` returns for EVERY positive int64 argument (no range restriction; the cast is always in range) -/
theorem sqrtStd_pos_ok (n : Int) (h0 : 1 ≤ n) (h1 : n ≤ 9223372036854775807) : ∃ r : Int, sqrtStd n = .ok r := by
  have hp : (2 : Nat) ^ b64.p = 9007199254740992 := by decide
  have hpz : (b64.p : ℤ) = 53 := by decide
  obtain ⟨q, E, R0, hres, hval, herr0, _, _, _⟩ := fixedToFp_val b64 good_b64 n (by omega) (by omega) (by omega)
  have hnabs : ((n.natAbs : ℕ) : ℝ) = (n : ℝ) := by
    rw [← Int.cast_natCast, Int.natAbs_of_nonneg (by omega)]
  rw [hnabs] at herr0
  have hneg : decide (n < 0) = false := by simp; omega
  rw [hneg] at hres
  have hnr1 : (1 : ℝ) ≤ (n : ℝ) := by exact_mod_cast h0
  have hnr2 : (n : ℝ) ≤ 9223372036854775807 := by exact_mod_cast h1
  set ε : ℝ := (2 : ℝ) ^ (-(b64.p : ℤ)) with hε
  have hεv : ε = 1 / 9007199254740992 := by rw [hε, hpz]; norm_num
  have hε0 : 0 < ε := by rw [hεv]; norm_num
  obtain ⟨r1, r2⟩ := abs_le.mp herr0
  have hnε : (n : ℝ) * ε ≤ (n : ℝ) * (1 / 2) := mul_le_mul_of_nonneg_left (by rw [hεv]; norm_num) (by linarith)
  have hR0lo : (1 : ℝ) / 2 ≤ R0 := by linarith
  have hR0hi : R0 ≤ 13835058055282163712 := by linarith
  have hqpos : 0 < q := by
    rcases Nat.eq_zero_or_pos q with h | h
    · subst h; rw [Nat.cast_zero, zero_mul] at hval
      have : 0 < R0 / 65536 := by positivity
      linarith
    · exact h
  have hlo : (2 : ℝ) ^ (2 * (-9 : ℤ)) ≤ (q : ℝ) * (2 : ℝ) ^ E := by
    rw [hval]; have : ((2 : ℝ) ^ (2 * (-9 : ℤ))) = 1 / 262144 := by norm_num
    rw [this, le_div_iff₀ (by norm_num)]; linarith
  have hhi : (q : ℝ) * (2 : ℝ) ^ E < (2 : ℝ) ^ (2 * (24 : ℤ)) := by
    rw [hval]; have : ((2 : ℝ) ^ (2 * (24 : ℤ))) = 281474976710656 := by norm_num
    rw [this, div_lt_iff₀ (by norm_num)]; linarith
  obtain ⟨q', er, hsq, her1, her2, hq'le, herr⟩ := sqrt_spec b64 q E hqpos (-9) 24 hlo hhi (by decide) (by decide)
  rw [hval] at herr
  set R : ℝ := Real.sqrt (R0 / 65536) with hR
  have hRpos : 0 < R := Real.sqrt_pos.mpr (by positivity)
  have hRlt : R < 16777216 := by
    rw [hR, Real.sqrt_lt' (by norm_num)]
    rw [div_lt_iff₀ (by norm_num)]; linarith
  set S : ℝ := (q' : ℝ) * (2 : ℝ) ^ er with hS
  obtain ⟨s1, s2⟩ := abs_le.mp herr
  have hRε : R * ε ≤ R * (1 / 2) := mul_le_mul_of_nonneg_left (by rw [hεv]; norm_num) hRpos.le
  have hSpos : 0 < S := by linarith
  have hq'pos : 0 < q' := by
    rcases Nat.eq_zero_or_pos q' with h | h
    · rw [hS, h, Nat.cast_zero, zero_mul] at hSpos; exact absurd hSpos (lt_irrefl _)
    · exact h
  have hSlt : S < 2147483647 := by linarith
  obtain ⟨Mq, Kq, hMq, hMlt, hKlo⟩ : ∃ (Mq : Nat) (Kq : ℤ), S = (Mq : ℝ) * (2 : ℝ) ^ Kq ∧ Mq < 2 ^ b64.p ∧ b64.emin ≤ Kq := by
    rcases Nat.lt_or_ge q' (2 ^ b64.p) with hlt | hge
    · exact ⟨q', er, rfl, hlt, her1⟩
    · have : q' = 2 ^ b64.p := by omega
      refine ⟨1, er + (b64.p : ℤ), ?_, by rw [hp]; norm_num, by omega⟩
      rw [hS, this, zpow_add₀ (by norm_num), zpow_natCast]; push_cast; ring
  obtain ⟨mag, W, hto, _⟩ := fpToFixed_core b64 good_b64 false q' er hq'pos Mq Kq hMq hMlt hKlo hSlt
  refine ⟨(mag : Int), ?_⟩
  unfold sqrtStd
  rw [hres, hsq, hto]; rfl

/-- `sqrt_std_math` returns for every int64 argument except INT64_MIN -/
theorem sqrtStd_total (v : Int) (h1 : -9223372036854775808 ≤ v) (h2 : v ≤ 9223372036854775807) : ∃ r : Int, sqrtStd v = .ok r := by
  rcases lt_trichotomy v 0 with h | h | h
  · exact ⟨_, sqrtStd_neg v h h1⟩
  · subst h; exact ⟨0, sqrtStd_zero⟩
  · exact sqrtStd_pos_ok v (by omega) h2

end FixedMath

/-
  Soundness of `Chk.accSinW`: the Nat inequalities imply the real inequality about `Real.sin`.
-/
import FixedMath.Real.TaylorSound
import FixedMath.Check.SinW

namespace FixedMath.R
open FixedMath.Chk

theorem accSinW_sound (n : Nat) (pneg : Bool) (pmag : Nat) (h : accSinW n pneg pmag = true) :
    |(if pneg then -(pmag : ℝ) else (pmag : ℝ)) / 65536 - Real.sin ((n : ℝ) / 65536)|
      ≤ (11 / 5) / 65536 + (((n - 12 : ℕ) : ℝ) / 65536) ^ 9 / 362880 := by
  unfold accSinW at h
  simp only [Bool.and_eq_true, Nat.ble_eq] at h
  obtain ⟨hn, hc⟩ := h
  set sc : ℝ := (sinScale 16 : ℝ) with hsc
  have hscpos : 0 < sc := by rw [hsc]; unfold sinScale; positivity
  have hx1 : (n : ℝ) / 2 ^ 16 ≤ 8 / 5 := by
    have : (n : ℝ) ≤ 102944 := by exact_mod_cast hn
    norm_num; linarith
  have henc := sin_scaled_encl 16 n hx1
  have h216 : (2 : ℝ) ^ 16 = 65536 := by norm_num
  rw [h216] at henc
  rw [← hsc] at henc
  set X : ℝ := Real.sin ((n : ℝ) / 65536) with hX
  -- exact divisions
  have hu : ((sinScale 16 / 65536 : ℕ) : ℝ) = sc / 65536 := by
    rw [hsc]; unfold sinScale; norm_num
  have hslack : ((sinScale 16 / 34359738368 : ℕ) : ℝ) = sc / 34359738368 := by
    rw [hsc]; unfold sinScale; norm_num
  have hR : (((n - 12 : ℕ) : ℝ)) ^ 9 * 285506606436402966952094979430809600
      = sc * ((((n - 12 : ℕ) : ℝ) / 65536) ^ 9 / 362880) := by
    rw [hsc]; unfold sinScale; push_cast; ring
  rw [abs_le] at henc
  obtain ⟨he1, he2⟩ := henc
  -- goal multiplied by sc
  have key : ∀ p : ℝ, (|p * (sc / 65536) - sc * X| ≤ (11 / 5) * (sc / 65536) + sc * ((((n - 12 : ℕ) : ℝ) / 65536) ^ 9 / 362880)) →
      |p / 65536 - X| ≤ (11 / 5) / 65536 + (((n - 12 : ℕ) : ℝ) / 65536) ^ 9 / 362880 := by
    intro p hp
    have e : p * (sc / 65536) - sc * X = sc * (p / 65536 - X) := by ring
    rw [e, abs_mul, abs_of_pos hscpos] at hp
    have e2 : (11 / 5) * (sc / 65536) + sc * ((((n - 12 : ℕ) : ℝ) / 65536) ^ 9 / 362880)
        = sc * ((11 / 5) / 65536 + (((n - 12 : ℕ) : ℝ) / 65536) ^ 9 / 362880) := by ring
    rw [e2] at hp
    exact le_of_mul_le_mul_left hp hscpos
  apply key
  cases pneg with
  | true =>
    simp only [if_true, Bool.and_eq_true, Nat.ble_eq] at hc ⊢
    obtain ⟨h1, h2⟩ := hc
    have h1r := (Nat.cast_le (α := ℝ)).mpr h1
    push_cast at h1r
    have h2r := (Nat.cast_le (α := ℝ)).mpr h2
    push_cast at h2r
    rw [hu, hslack, hR] at h1r h2r
    rw [abs_le]
    constructor <;> linarith
  | false =>
    simp only [Bool.false_eq_true, if_false, Bool.and_eq_true, Nat.ble_eq] at hc ⊢
    obtain ⟨h1, h2⟩ := hc
    have h1r := (Nat.cast_le (α := ℝ)).mpr h1
    push_cast at h1r
    have h2r := (Nat.cast_le (α := ℝ)).mpr h2
    push_cast at h2r
    rw [hu, hslack, hR] at h1r h2r
    rw [abs_le]
    constructor <;> linarith

end FixedMath.R

/-
  Correct rounding of the model's `FP.sqrt`, and from it the contract of `detail::sqrt_std_math`.
-/
import FixedMath.Real.FloatConv
import Mathlib.Data.Nat.Sqrt
import Mathlib.Analysis.Real.Sqrt

namespace FixedMath.R
open FixedMath Gen

/-- the rounding decision of `FP.sqrt`: with `rn² = n + rem/2^k`, `q = ⌊√n⌋`, the chosen mantissa is within 1/2 of `rn` -/
theorem sqrt_round_arith (n rem k q : Nat) (rn : ℝ) (hrn0 : 0 ≤ rn)
    (hN : rn * rn = (n : ℝ) + (rem : ℝ) / (2 : ℝ) ^ k) (hrem : rem < 2 ^ k)
    (hq1 : q * q ≤ n) (hq2 : n < (q + 1) * (q + 1)) :
    let half : Ordering :=
      if n > q * q + q then .gt
      else if n = q * q + q then compare (4 * rem) (2 ^ k)
      else .lt
    let q' : Nat := match half with
      | .lt => q
      | .eq => if q % 2 = 1 then q + 1 else q
      | .gt => q + 1
    |(q' : ℝ) - rn| ≤ 1 / 2 := by
  have hkpos : (0 : ℝ) < (2 : ℝ) ^ k := by positivity
  have hremr : (rem : ℝ) / (2 : ℝ) ^ k < 1 := by
    rw [div_lt_one hkpos]; exact_mod_cast hrem
  have hrem0 : (0 : ℝ) ≤ (rem : ℝ) / (2 : ℝ) ^ k := by positivity
  have hq1r : (q : ℝ) * q ≤ (n : ℝ) := by exact_mod_cast hq1
  have hq2r : (n : ℝ) + 1 ≤ ((q : ℝ) + 1) * ((q : ℝ) + 1) := by
    have : n + 1 ≤ (q + 1) * (q + 1) := hq2
    exact_mod_cast this
  have hq0 : (0 : ℝ) ≤ (q : ℝ) := by positivity
  have hlo : (q : ℝ) ≤ rn := by
    by_contra hc; push Not at hc
    nlinarith
  have hhi : rn < (q : ℝ) + 1 := by
    by_contra hc; push Not at hc
    nlinarith
  intro half q'
  -- position of rn relative to q + 1/2 through rn²
  have key_lt : rn * rn ≤ ((q : ℝ) + 1 / 2) * ((q : ℝ) + 1 / 2) → rn ≤ (q : ℝ) + 1 / 2 := by
    intro h; by_contra hc; push Not at hc; nlinarith
  have key_gt : ((q : ℝ) + 1 / 2) * ((q : ℝ) + 1 / 2) ≤ rn * rn → (q : ℝ) + 1 / 2 ≤ rn := by
    intro h; by_contra hc; push Not at hc; nlinarith
  have hsq : ((q : ℝ) + 1 / 2) * ((q : ℝ) + 1 / 2) = (q : ℝ) * q + q + 1 / 4 := by ring
  by_cases h1 : n > q * q + q
  · have hh : half = .gt := by simp only [half, h1, if_true]
    have hq' : q' = q + 1 := by simp only [q', hh]
    rw [hq']
    have : (q : ℝ) * q + q + 1 ≤ (n : ℝ) := by
      have : q * q + q + 1 ≤ n := h1
      exact_mod_cast this
    have := key_gt (by rw [hsq, hN]; linarith)
    push_cast; rw [abs_le]; constructor <;> linarith
  · by_cases h2 : n = q * q + q
    · have h2r : (n : ℝ) = (q : ℝ) * q + q := by exact_mod_cast h2
      rcases Nat.lt_trichotomy (4 * rem) (2 ^ k) with hc | hc | hc
      · have hh : half = .lt := by
          simp only [half, h2, gt_iff_lt, lt_self_iff_false, if_false, if_true]
          exact Nat.compare_eq_lt.mpr hc
        have hq' : q' = q := by simp only [q', hh]
        rw [hq']
        have : (rem : ℝ) / (2 : ℝ) ^ k ≤ 1 / 4 := by
          rw [div_le_iff₀ hkpos]
          have : ((4 * rem : ℕ) : ℝ) < ((2 ^ k : ℕ) : ℝ) := by exact_mod_cast hc
          push_cast at this; linarith
        have := key_lt (by rw [hsq, hN, h2r]; linarith)
        rw [abs_le]; constructor <;> linarith
      · have hh : half = .eq := by
          simp only [half, h2, gt_iff_lt, lt_self_iff_false, if_false, if_true]
          exact Nat.compare_eq_eq.mpr hc
        have : (rem : ℝ) / (2 : ℝ) ^ k = 1 / 4 := by
          rw [div_eq_iff hkpos.ne']
          have : ((4 * rem : ℕ) : ℝ) = ((2 ^ k : ℕ) : ℝ) := by exact_mod_cast hc
          push_cast at this; linarith
        have a := key_lt (by rw [hsq, hN, h2r]; linarith)
        have b := key_gt (by rw [hsq, hN, h2r]; linarith)
        have hq' : q' = q ∨ q' = q + 1 := by
          simp only [q', hh]
          split <;> simp
        rcases hq' with h | h <;> rw [h] <;> push_cast <;> rw [abs_le] <;> constructor <;> linarith
      · have hh : half = .gt := by
          simp only [half, h2, gt_iff_lt, lt_self_iff_false, if_false, if_true]
          exact Nat.compare_eq_gt.mpr hc
        have hq' : q' = q + 1 := by simp only [q', hh]
        rw [hq']
        have : 1 / 4 ≤ (rem : ℝ) / (2 : ℝ) ^ k := by
          rw [le_div_iff₀ hkpos]
          have : ((2 ^ k : ℕ) : ℝ) < ((4 * rem : ℕ) : ℝ) := by exact_mod_cast hc
          push_cast at this; linarith
        have := key_gt (by rw [hsq, hN, h2r]; linarith)
        push_cast; rw [abs_le]; constructor <;> linarith
    · have hh : half = .lt := by simp only [half, h1, if_false, h2]
      have hq' : q' = q := by simp only [q', hh]
      rw [hq']
      have : (n : ℝ) + 1 ≤ (q : ℝ) * q + q := by
        have : n + 1 ≤ q * q + q := by omega
        exact_mod_cast this
      have := key_lt (by rw [hsq, hN]; linarith)
      rw [abs_le]; constructor <;> linarith

theorem sqrt_finish (f : Fmt) (neg : Bool) (n rem k q : Nat) (rn : ℝ) (er : ℤ) (hrn0 : 0 ≤ rn)
    (hN : rn * rn = (n : ℝ) + (rem : ℝ) / (2 : ℝ) ^ k) (hrem : rem < 2 ^ k)
    (hq1 : q * q ≤ n) (hq2 : n < (q + 1) * (q + 1)) (her : er < f.emax) :
    ∃ q' : Nat, finishRound f neg q er
        (if n > q * q + q then .gt else if n = q * q + q then compare (4 * rem) (2 ^ k) else .lt) = .fin neg q' er ∧
      |(q' : ℝ) - rn| ≤ 1 / 2 := by
  have h := sqrt_round_arith n rem k q rn hrn0 hN hrem hq1 hq2
  unfold finishRound
  dsimp only at h ⊢
  refine ⟨_, ?_, h⟩
  rw [if_neg (by rintro (hc | ⟨hc, _⟩) <;> omega)]
  all_goals rfl

theorem two_zpow_le (a b : ℤ) (h : (2 : ℝ) ^ a ≤ (2 : ℝ) ^ b) : a ≤ b :=
  (zpow_le_zpow_iff_right₀ (by norm_num : (1 : ℝ) < 2)).mp h

/-- decomposition of `m·2^sh` into integer part and remainder, as `FP.sqrt` computes it -/
theorem sqrt_decomp (m : Nat) (sh : ℤ) :
    let k : Nat := if sh ≥ 0 then 0 else (-sh).toNat
    let n : Nat := if sh ≥ 0 then m * pow2 sh.toNat else m / pow2 k
    let rem : Nat := if sh ≥ 0 then 0 else m % pow2 k
    (m : ℝ) * (2 : ℝ) ^ sh = (n : ℝ) + (rem : ℝ) / (2 : ℝ) ^ k ∧ rem < 2 ^ k := by
  intro k n rem
  by_cases h : sh ≥ 0
  · have hk : k = 0 := by simp only [k, h, if_true]
    have hn : n = m * pow2 sh.toNat := by simp only [n, h, if_true]
    have hr : rem = 0 := by simp only [rem, h, if_true]
    rw [hk, hn, hr, pow2_eq, zpow_of_nonneg sh h]; push_cast; simp
  · have hk : k = (-sh).toNat := by simp only [k, h, if_false]
    have hn : n = m / pow2 k := by simp only [n, h, if_false]
    have hr : rem = m % pow2 k := by simp only [rem, h, if_false]
    rw [hn, hr, pow2_eq]
    have hpos : 0 < 2 ^ k := by positivity
    have hposr : (0 : ℝ) < (2 : ℝ) ^ k := by positivity
    refine ⟨?_, Nat.mod_lt m hpos⟩
    rw [zpow_of_nonpos sh (by omega), ← hk]
    have hd := Nat.div_add_mod m (2 ^ k)
    have : ((2 ^ k * (m / 2 ^ k) + m % 2 ^ k : ℕ) : ℝ) = (m : ℝ) := by exact_mod_cast hd
    push_cast at this
    field_simp
    linarith

/-- `FP.sqrt` on a positive datum in the normal range: correctly rounded -/
theorem sqrt_spec (f : Fmt) (m : Nat) (e : Int) (hm : 0 < m) (a b : ℤ)
    (hlo : (2 : ℝ) ^ (2 * a) ≤ (m : ℝ) * (2 : ℝ) ^ e) (hhi : (m : ℝ) * (2 : ℝ) ^ e < (2 : ℝ) ^ (2 * b))
    (hnorm : f.emin ≤ a - (f.p : ℤ) + 1) (hov : b - (f.p : ℤ) + 1 ≤ f.emax) :
    ∃ (q' : Nat) (er : ℤ), FP.sqrt f (.fin false m e) = .fin false q' er ∧ f.emin ≤ er ∧ er < f.emax ∧ q' ≤ 2 ^ f.p ∧
      |(q' : ℝ) * (2 : ℝ) ^ er - Real.sqrt ((m : ℝ) * (2 : ℝ) ^ e)| ≤
        Real.sqrt ((m : ℝ) * (2 : ℝ) ^ e) * (2 : ℝ) ^ (-(f.p : ℤ)) := by
  set X : ℝ := (m : ℝ) * (2 : ℝ) ^ e with hX
  have hmr : (0 : ℝ) < (m : ℝ) := by exact_mod_cast hm
  have hXpos : 0 < X := by rw [hX]; positivity
  set R : ℝ := Real.sqrt X with hR
  have hRpos : 0 < R := Real.sqrt_pos.mpr hXpos
  have hRR : R * R = X := Real.mul_self_sqrt hXpos.le
  -- binary logarithm of X
  obtain ⟨b1, b2⟩ := bitlen_spec m (by omega)
  have hbl : 1 ≤ bitlen m := by unfold bitlen; rw [if_neg (by omega)]; omega
  set lg : ℤ := (bitlen m : ℤ) - 1 + e with hlg
  have hX1 : (2 : ℝ) ^ lg ≤ X := by
    have : ((2 ^ (bitlen m - 1) : ℕ) : ℝ) ≤ (m : ℝ) := by exact_mod_cast b1
    push_cast at this
    have e1 : (2 : ℝ) ^ lg = (2 : ℝ) ^ (bitlen m - 1) * (2 : ℝ) ^ e := by
      rw [hlg, show ((bitlen m : ℤ) - 1 + e) = ((bitlen m - 1 : ℕ) : ℤ) + e by omega, zpow_add₀ (by norm_num), zpow_natCast]
    rw [e1, hX]
    exact mul_le_mul_of_nonneg_right this (by positivity)
  have hX2 : X < (2 : ℝ) ^ (lg + 1) := by
    have : (m : ℝ) < ((2 ^ bitlen m : ℕ) : ℝ) := by exact_mod_cast b2
    push_cast at this
    have e1 : (2 : ℝ) ^ (lg + 1) = (2 : ℝ) ^ (bitlen m) * (2 : ℝ) ^ e := by
      rw [hlg, show ((bitlen m : ℤ) - 1 + e + 1) = ((bitlen m : ℕ) : ℤ) + e by omega, zpow_add₀ (by norm_num), zpow_natCast]
    rw [e1, hX]
    exact mul_lt_mul_of_pos_right this (by positivity)
  have hlg1 : 2 * a ≤ lg := by
    have := two_zpow_lt _ _ (lt_of_le_of_lt hlo hX2); omega
  have hlg2 : lg < 2 * b := two_zpow_lt _ _ (lt_of_le_of_lt hX1 hhi)
  set lgr : ℤ := lg / 2 with hlgr
  have hl1 : a ≤ lgr := by omega
  have hl2 : lgr < b := by omega
  have hl3 : 2 * lgr ≤ lg := by omega
  have hl4 : lg + 1 ≤ 2 * lgr + 2 := by omega
  have hpe : pickExp f lgr = lgr - (f.p : ℤ) + 1 := by unfold pickExp; exact max_eq_left (by omega)
  set er : ℤ := lgr - (f.p : ℤ) + 1 with her
  -- R between 2^lgr and 2^(lgr+1)
  have hR1 : (2 : ℝ) ^ lgr ≤ R := by
    have h1 : (2 : ℝ) ^ lgr * (2 : ℝ) ^ lgr ≤ R * R := by
      rw [hRR, ← zpow_add₀ (by norm_num)]
      exact le_trans (zpow_le_zpow_right₀ (by norm_num) (by omega)) hX1
    have hp : (0 : ℝ) < (2 : ℝ) ^ lgr := by positivity
    by_contra hc; push Not at hc; nlinarith
  have hR2 : R < (2 : ℝ) ^ (lgr + 1) := by
    have h1 : R * R < (2 : ℝ) ^ (lgr + 1) * (2 : ℝ) ^ (lgr + 1) := by
      rw [hRR, ← zpow_add₀ (by norm_num)]
      exact lt_of_lt_of_le hX2 (zpow_le_zpow_right₀ (by norm_num) (by omega))
    have hp : (0 : ℝ) < (2 : ℝ) ^ (lgr + 1) := by positivity
    by_contra hc; push Not at hc; nlinarith
  -- the scaled root
  set rn : ℝ := R * (2 : ℝ) ^ (-er) with hrn
  have hrn0 : 0 ≤ rn := by rw [hrn]; positivity
  have hrnsq : rn * rn = (m : ℝ) * (2 : ℝ) ^ (e - 2 * er) := by
    rw [hrn, show R * (2 : ℝ) ^ (-er) * (R * (2 : ℝ) ^ (-er)) = (R * R) * ((2 : ℝ) ^ (-er) * (2 : ℝ) ^ (-er)) by ring,
      hRR, hX, ← zpow_add₀ (by norm_num), mul_assoc, ← zpow_add₀ (by norm_num)]
    congr 2; ring
  obtain ⟨hdec, hremlt⟩ := sqrt_decomp m (e - 2 * er)
  rw [← hrnsq] at hdec
  have hsq1 := Nat.sqrt_le (if e - 2 * er ≥ 0 then m * pow2 (e - 2 * er).toNat else m / pow2 (if e - 2 * er ≥ 0 then 0 else (-(e - 2 * er)).toNat))
  have hsq2 := Nat.lt_succ_sqrt (if e - 2 * er ≥ 0 then m * pow2 (e - 2 * er).toNat else m / pow2 (if e - 2 * er ≥ 0 then 0 else (-(e - 2 * er)).toNat))
  obtain ⟨q', hfin, hq'⟩ := sqrt_finish f false _ _ _ _ rn er hrn0 hdec hremlt hsq1 hsq2 (by omega)
  refine ⟨q', er, ?_, by omega, by omega, ?_, ?_⟩
  · have hm0 : ¬ (m = 0) := by omega
    simp only [FP.sqrt, hm0, Bool.false_eq_true, if_false]
    rw [← hlg, ← hlgr, hpe]
    simp only [pow2_eq] at hfin ⊢
    exact hfin
  · -- mantissa bound
    have hrnlt : rn < (2 : ℝ) ^ (f.p : ℤ) := by
      rw [hrn]
      have : (2 : ℝ) ^ (f.p : ℤ) = (2 : ℝ) ^ (lgr + 1) * (2 : ℝ) ^ (-er) := by
        rw [← zpow_add₀ (by norm_num)]; congr 1; rw [her]; ring
      rw [this]
      exact mul_lt_mul_of_pos_right hR2 (by positivity)
    rw [zpow_natCast] at hrnlt
    obtain ⟨_, hu⟩ := abs_le.mp hq'
    have h2 : (q' : ℝ) < ((2 ^ f.p + 1 : ℕ) : ℝ) := by push_cast; linarith
    have : q' < 2 ^ f.p + 1 := by exact_mod_cast h2
    omega
  · have hep : (0 : ℝ) < (2 : ℝ) ^ er := by positivity
    have e1 : (q' : ℝ) * (2 : ℝ) ^ er - R = ((q' : ℝ) - rn) * (2 : ℝ) ^ er := by
      rw [hrn, sub_mul, mul_assoc, ← zpow_add₀ (by norm_num)]; simp
    rw [e1, abs_mul, abs_of_pos hep]
    have e2 : (2 : ℝ) ^ er / 2 = (2 : ℝ) ^ lgr * (2 : ℝ) ^ (-(f.p : ℤ)) := by
      rw [her, show lgr - (f.p : ℤ) + 1 = lgr + (-(f.p : ℤ)) + 1 by ring, zpow_add_one₀ (by norm_num), zpow_add₀ (by norm_num)]
      ring
    calc |(q' : ℝ) - rn| * (2 : ℝ) ^ er ≤ 1 / 2 * (2 : ℝ) ^ er := mul_le_mul_of_nonneg_right hq' hep.le
      _ = (2 : ℝ) ^ lgr * (2 : ℝ) ^ (-(f.p : ℤ)) := by rw [← e2]; ring
      _ ≤ R * (2 : ℝ) ^ (-(f.p : ℤ)) := mul_le_mul_of_nonneg_right hR1 (by positivity)

/-- pure arithmetic of the two roundings after the root: `W` is within `1/2 + 2^-19` of `T + 1/2`… -/
theorem sqrtStd_arith (T R S Z W ε : ℝ) (hT : T = 65536 * R) (hR0 : 0 ≤ R) (hTlt : T < 4294967296)
    (hε0 : 0 < ε) (hε : ε ≤ 1 / 9007199254740992)
    (hS : |S - R| ≤ R * ε) (hZ : Z = S * 65536 + 1 / 2) (hW : |W - Z| ≤ Z * ε) :
    T + 1 / 2 - 1 / 524288 ≤ W ∧ W ≤ T + 1 / 2 + 1 / 524288 := by
  obtain ⟨s1, s2⟩ := abs_le.mp hS
  obtain ⟨w1, w2⟩ := abs_le.mp hW
  have hT0 : 0 ≤ T := by rw [hT]; positivity
  have hδ : T * ε ≤ 4294967296 * (1 / 9007199254740992) := mul_le_mul hTlt.le hε hε0.le (by norm_num)
  have hδ0 : 0 ≤ T * ε := by positivity
  have hδ2 : T * ε * ε ≤ T * ε := by
    have : ε ≤ 1 := by linarith
    nlinarith
  have hRε : 65536 * (R * ε) = T * ε := by rw [hT]; ring
  have hZu : Z ≤ T + T * ε + 1 / 2 := by rw [hZ]; linarith
  have hZl : T - T * ε + 1 / 2 ≤ Z := by rw [hZ]; linarith
  have hZε : Z * ε ≤ (T + T * ε + 1 / 2) * ε := mul_le_mul_of_nonneg_right hZu hε0.le
  have e1 : (T + T * ε + 1 / 2) * ε = T * ε + T * ε * ε + ε / 2 := by ring
  rw [e1] at hZε
  constructor <;> linarith

/-- **contract of `detail::sqrt_std_math`** over the IEEE model: for `1 ≤ n < 2^48` the result is `⌊W⌋` for a `W` within
    `2^-19` of `√(n·2^16) + 1/2` -/
theorem sqrtStd_spec (n : Int) (h0 : 1 ≤ n) (h1 : n < 281474976710656) :
    ∃ (q : Int) (W : ℝ), sqrtStd n = .ok q ∧ 0 ≤ q ∧ (q : ℝ) ≤ W ∧ W < (q : ℝ) + 1 ∧
      Real.sqrt ((n : ℝ) * 65536) + 1 / 2 - 1 / 524288 ≤ W ∧ W ≤ Real.sqrt ((n : ℝ) * 65536) + 1 / 2 + 1 / 524288 := by
  have hp : (2 : Nat) ^ b64.p = 9007199254740992 := by decide
  have hpz : (b64.p : ℤ) = 53 := by decide
  obtain ⟨q, E, R0, hres, hval, _, hex, _, _⟩ := fixedToFp_val b64 good_b64 n (by omega) (by omega) (by omega)
  have hR0 : R0 = (n.natAbs : ℝ) := hex n.natAbs 0 (by simp) (by omega)
  have hnabs : ((n.natAbs : ℕ) : ℝ) = (n : ℝ) := by
    rw [← Int.cast_natCast, Int.natAbs_of_nonneg (by omega)]
  rw [hR0, hnabs] at hval
  have hneg : decide (n < 0) = false := by simp; omega
  rw [hneg] at hres
  have hnr1 : (1 : ℝ) ≤ (n : ℝ) := by exact_mod_cast h0
  have hnr2 : (n : ℝ) < 281474976710656 := by exact_mod_cast h1
  have hqpos : 0 < q := by
    rcases Nat.eq_zero_or_pos q with h | h
    · subst h; rw [Nat.cast_zero, zero_mul] at hval
      have : 0 < (n : ℝ) / 65536 := by positivity
      linarith
    · exact h
  -- the root
  have hlo : (2 : ℝ) ^ (2 * (-8 : ℤ)) ≤ (q : ℝ) * (2 : ℝ) ^ E := by
    rw [hval]; have : ((2 : ℝ) ^ (2 * (-8 : ℤ))) = 1 / 65536 := by norm_num
    rw [this, div_le_div_iff_of_pos_right (by norm_num)]; exact hnr1
  have hhi : (q : ℝ) * (2 : ℝ) ^ E < (2 : ℝ) ^ (2 * (16 : ℤ)) := by
    rw [hval]; have : ((2 : ℝ) ^ (2 * (16 : ℤ))) = 4294967296 := by norm_num
    rw [this, div_lt_iff₀ (by norm_num)]; linarith
  obtain ⟨q', er, hsq, her1, her2, hq'le, herr⟩ := sqrt_spec b64 q E hqpos (-8) 16 hlo hhi (by decide) (by decide)
  rw [hval] at herr
  set R : ℝ := Real.sqrt ((n : ℝ) / 65536) with hR
  have hRpos : 0 < R := Real.sqrt_pos.mpr (by positivity)
  have hRR : R * R = (n : ℝ) / 65536 := Real.mul_self_sqrt (by positivity)
  set T : ℝ := Real.sqrt ((n : ℝ) * 65536) with hT
  have hTR : T = 65536 * R := by
    rw [hT, hR]
    have : (n : ℝ) * 65536 = (65536 : ℝ) ^ 2 * ((n : ℝ) / 65536) := by ring
    rw [this, Real.sqrt_mul (by norm_num), Real.sqrt_sq (by norm_num)]
  have hTlt : T < 4294967296 := by
    rw [hT, Real.sqrt_lt' (by norm_num)]; nlinarith
  set ε : ℝ := (2 : ℝ) ^ (-(b64.p : ℤ)) with hε
  have hεv : ε = 1 / 9007199254740992 := by rw [hε, hpz]; norm_num
  have hε0 : 0 < ε := by rw [hεv]; norm_num
  set S : ℝ := (q' : ℝ) * (2 : ℝ) ^ er with hS
  obtain ⟨s1, s2⟩ := abs_le.mp herr
  have hSpos : 0 < S := by
    have : R * ε ≤ R * (1 / 2) := mul_le_mul_of_nonneg_left (by rw [hεv]; norm_num) hRpos.le
    linarith
  have hq'pos : 0 < q' := by
    rcases Nat.eq_zero_or_pos q' with h | h
    · rw [hS, h, Nat.cast_zero, zero_mul] at hSpos; exact absurd hSpos (lt_irrefl _)
    · exact h
  have hRlt : R < 65536 := by rw [hTR] at hTlt; linarith
  have hSlt : S < 2147483647 := by
    have : R * ε ≤ R * 1 := mul_le_mul_of_nonneg_left (by rw [hεv]; norm_num) hRpos.le
    linarith
  obtain ⟨Mq, Kq, hMq, hMlt, hKlo⟩ : ∃ (Mq : Nat) (Kq : ℤ), S = (Mq : ℝ) * (2 : ℝ) ^ Kq ∧ Mq < 2 ^ b64.p ∧ b64.emin ≤ Kq := by
    rcases Nat.lt_or_ge q' (2 ^ b64.p) with hlt | hge
    · exact ⟨q', er, rfl, hlt, her1⟩
    · have : q' = 2 ^ b64.p := by omega
      refine ⟨1, er + (b64.p : ℤ), ?_, by rw [hp]; norm_num, by omega⟩
      rw [hS, this, zpow_add₀ (by norm_num), zpow_natCast]; push_cast; ring
  obtain ⟨mag, W, hto, mg1, mg2, hdel, _⟩ := fpToFixed_core b64 good_b64 false q' er hq'pos Mq Kq hMq hMlt hKlo hSlt
  obtain ⟨w1, w2⟩ := sqrtStd_arith T R S (S * 65536 + 1 / 2) W ε hTR hRpos.le hTlt hε0 (by rw [hεv]) herr rfl hdel
  refine ⟨(mag : Int), W, ?_, by positivity, by push_cast; exact mg1, by push_cast; exact mg2, w1, w2⟩
  unfold sqrtStd
  rw [hres, hsq, hto]; rfl

theorem sqrtStd_zero : sqrtStd 0 = .ok 0 := by
  unfold sqrtStd
  rw [fixedToFp_zero b64 good_b64]
  have : FP.sqrt b64 (.fin false 0 0) = .fin false 0 0 := by simp [FP.sqrt]
  rw [this]
  exact fpToFixed_zero b64 good_b64 false 0

end FixedMath.R

/-
  Soundness of the table-entry checkers of Check/Tables.lean.
-/
import FixedMath.Real.AtSound
import FixedMath.Check.Tables
import Mathlib.Analysis.Real.Sqrt

namespace FixedMath.R
open FixedMath.Chk Real

theorem P40_lo : ((P40 : ℕ) : ℝ) / 1099511627776 < π := by unfold P40; exact_mod_cast pi_gt_P40
theorem P40_hi : π < (((P40 : ℕ) : ℝ) + 1) / 1099511627776 := by
  have := pi_lt_P40; unfold P40; push_cast; linarith

/-- `degT j / 2^64` is within 2^-35 of `j·π/180` for `j < 90` -/
theorem degT_close (j : Nat) (hj : j < 90) : |(j : ℝ) * π / 180 - ((degT j : ℕ) : ℝ) / 2 ^ 64| ≤ 1 / 34359738368 := by
  have hlo := P40_lo
  have hhi := P40_hi
  have hj' : (j : ℝ) < 90 := by exact_mod_cast hj
  have hj0 : (0 : ℝ) ≤ j := by positivity
  -- floor property of the Nat division
  have hd := Nat.div_add_mod (j * P40 * 16777216) 180
  have hm := Nat.mod_lt (j * P40 * 16777216) (show 180 > 0 by norm_num)
  have h1 : ((degT j : ℕ) : ℝ) * 180 ≤ (j : ℝ) * P40 * 16777216 := by
    have : degT j * 180 ≤ j * P40 * 16777216 := by unfold degT; omega
    exact_mod_cast this
  have h2 : (j : ℝ) * P40 * 16777216 < ((degT j : ℕ) : ℝ) * 180 + 180 := by
    have : j * P40 * 16777216 < degT j * 180 + 180 := by unfold degT; omega
    exact_mod_cast this
  have e64 : (2 : ℝ) ^ 64 = 1099511627776 * 16777216 := by norm_num
  rw [e64, abs_le]
  constructor
  · -- jπ/180 ≥ j P40/(2^40 180) ≥ degT/2^64
    have : ((degT j : ℕ) : ℝ) / (1099511627776 * 16777216) ≤ (j : ℝ) * ((P40 : ℝ) / 1099511627776) / 180 := by
      rw [div_le_iff₀ (by positivity)]
      have : (j : ℝ) * ((P40 : ℝ) / 1099511627776) / 180 * (1099511627776 * 16777216) = (j : ℝ) * P40 * 16777216 / 180 := by ring
      rw [this, le_div_iff₀ (by norm_num)]
      exact h1
    have : (j : ℝ) * ((P40 : ℝ) / 1099511627776) / 180 ≤ (j : ℝ) * π / 180 := by
      gcongr
    linarith
  · have u1 : (j : ℝ) * π / 180 ≤ (j : ℝ) * (((P40 : ℝ) + 1) / 1099511627776) / 180 := by gcongr
    have u2 : (j : ℝ) * (((P40 : ℝ) + 1) / 1099511627776) / 180 - ((degT j : ℕ) : ℝ) / (1099511627776 * 16777216)
        ≤ 1 / 34359738368 := by
      have : (j : ℝ) * (((P40 : ℝ) + 1) / 1099511627776) / 180 - ((degT j : ℕ) : ℝ) / (1099511627776 * 16777216)
          = ((j : ℝ) * P40 * 16777216 - ((degT j : ℕ) : ℝ) * 180 + (j : ℝ) * 16777216) / (180 * 1099511627776 * 16777216) := by
        field_simp; ring
      rw [this, div_le_div_iff₀ (by norm_num) (by norm_num)]
      nlinarith
    linarith

/-- sin (t + n·π/2) by the residue of n mod 4 -/
theorem sin_add_quarter (t : ℝ) (n : ℕ) :
    Real.sin (t + n * (π / 2)) =
      sgnv (n % 4 == 2 || n % 4 == 3) (if (n % 4 == 1 || n % 4 == 3) then Real.cos t else Real.sin t) := by
  obtain ⟨a, b, hb, rfl⟩ : ∃ a b, b < 4 ∧ n = 4 * a + b := ⟨n / 4, n % 4, Nat.mod_lt _ (by norm_num), by omega⟩
  have e : t + ((4 * a + b : ℕ) : ℝ) * (π / 2) = (t + b * (π / 2)) + a * (2 * π) := by push_cast; ring
  rw [e, Real.sin_add_nat_mul_two_pi]
  have hmod : (4 * a + b) % 4 = b := by omega
  rw [hmod]
  unfold sgnv
  interval_cases b
  · simp
  · simp [Real.sin_add_pi_div_two]
  · have : t + ((2 : ℕ) : ℝ) * (π / 2) = t + π := by push_cast; ring
    rw [this, Real.sin_add_pi]; simp
  · have : t + ((3 : ℕ) : ℝ) * (π / 2) = (t + π / 2) + π := by push_cast; ring
    rw [this, Real.sin_add_pi, Real.sin_add_pi_div_two]; simp

theorem checkSinEntry_sound (i : Nat) (e : Int) (h : checkSinEntry i e = true) :
    |(e : ℝ) / 65536 - Real.sin ((i : ℝ) * π / 180)| ≤ 2 / 65536 := by
  unfold checkSinEntry at h
  have hj : i % 90 < 90 := Nat.mod_lt _ (by norm_num)
  have hs := accAt_sound _ _ 64 (degT (i % 90)) _ _ 2 65536 h (by norm_num) (((i % 90 : ℕ) : ℝ) * π / 180) (degT_close _ hj)
  -- the angle
  have hang : (i : ℝ) * π / 180 = ((i % 90 : ℕ) : ℝ) * π / 180 + ((i / 90 : ℕ) : ℝ) * (π / 2) := by
    have : (i : ℝ) = ((i % 90 : ℕ) : ℝ) + 90 * ((i / 90 : ℕ) : ℝ) := by
      have := Nat.mod_add_div i 90
      exact_mod_cast this.symm
    rw [this]; push_cast; ring
  rw [hang, sin_add_quarter]
  have hq : (i / 90) % 4 % 4 = (i / 90) % 4 := Nat.mod_mod _ _
  -- value of e
  have hev : sgnv (decide (e < 0)) ((e.natAbs : ℕ) : ℝ) = (e : ℝ) := by
    unfold sgnv
    by_cases he : e < 0
    · simp only [he, decide_true, if_true]
      rw [← Int.cast_natCast, Int.ofNat_natAbs_of_nonpos (by omega)]; simp
    · simp only [he, decide_false, Bool.false_eq_true, if_false]
      rw [← Int.cast_natCast, Int.natAbs_of_nonneg (by omega)]
  rw [hev] at hs
  have : (2 : ℝ) / 65536 = ((2 : ℕ) : ℝ) / ((65536 : ℕ) : ℝ) := by norm_num
  rw [this]
  convert hs using 3

theorem checkCosEntry_sound (i : Nat) (e : Int) (h : checkCosEntry i e = true) :
    |(e : ℝ) / 65536 - Real.cos ((i : ℝ) * π / 180)| ≤ 2 / 65536 := by
  have := checkSinEntry_sound (i + 90) e h
  have e1 : ((i + 90 : ℕ) : ℝ) * π / 180 = (i : ℝ) * π / 180 + π / 2 := by push_cast; ring
  rw [e1, Real.sin_add_pi_div_two] at this
  exact this

theorem checkSinTab_sound : ∀ (L : List Int) (i0 : Nat), checkSinTab i0 L = true →
    ∀ k, k < L.length → checkSinEntry (i0 + k) (L.getD k 0) = true := by
  intro L
  induction L with
  | nil => intro i0 _ k hk; simp at hk
  | cons e es ih =>
    intro i0 h k hk
    simp only [checkSinTab, Bool.and_eq_true] at h
    cases k with
    | zero => simpa using h.1
    | succ k =>
      have := ih (i0 + 1) h.2 k (by simpa using hk)
      simpa [Nat.add_assoc, Nat.add_comm 1 k] using this

theorem checkCosTab_sound : ∀ (L : List Int) (i0 : Nat), checkCosTab i0 L = true →
    ∀ k, k < L.length → checkCosEntry (i0 + k) (L.getD k 0) = true := by
  intro L
  induction L with
  | nil => intro i0 _ k hk; simp at hk
  | cons e es ih =>
    intro i0 h k hk
    simp only [checkCosTab, Bool.and_eq_true] at h
    cases k with
    | zero => simpa using h.1
    | succ k =>
      have := ih (i0 + 1) h.2 k (by simpa using hk)
      simpa [Nat.add_assoc, Nat.add_comm 1 k] using this

theorem checkSqrtTab_sound : ∀ (L : List Int) (i0 : Nat), checkSqrtTab i0 L = true →
    ∀ k, k < L.length → checkSqrtEntry (i0 + k) (L.getD k 0) = true := by
  intro L
  induction L with
  | nil => intro i0 _ k hk; simp at hk
  | cons e es ih =>
    intro i0 h k hk
    simp only [checkSqrtTab, Bool.and_eq_true] at h
    cases k with
    | zero => simpa using h.1
    | succ k =>
      have := ih (i0 + 1) h.2 k (by simpa using hk)
      simpa [Nat.add_assoc, Nat.add_comm 1 k] using this

theorem checkTanTab_sound : ∀ (L : List Int) (i0 : Nat), checkTanTab i0 L = true →
    ∀ k, k < L.length → checkTanEntry (i0 + k) (L.getD k 0) = true := by
  intro L
  induction L with
  | nil => intro i0 _ k hk; simp at hk
  | cons e es ih =>
    intro i0 h k hk
    simp only [checkTanTab, Bool.and_eq_true] at h
    cases k with
    | zero => simpa using h.1
    | succ k =>
      have := ih (i0 + 1) h.2 k (by simpa using hk)
      simpa [Nat.add_assoc, Nat.add_comm 1 k] using this

/-- square-root entry: within 1 of `65536·√(i/256 + 31/2^18)` -/
theorem checkSqrtEntry_sound (i : Nat) (e : Int) (h : checkSqrtEntry i e = true) :
    |(e : ℝ) - 65536 * Real.sqrt ((i : ℝ) / 256 + 31 / 262144)| ≤ 1 := by
  unfold checkSqrtEntry at h
  simp only [Bool.and_eq_true, decide_eq_true_eq, Nat.ble_eq] at h
  obtain ⟨⟨he, h1⟩, h2⟩ := h
  have hen : ((e.natAbs : ℕ) : ℝ) = (e : ℝ) := by
    rw [← Int.cast_natCast, Int.natAbs_of_nonneg (by omega)]
  have hsub : ((e.natAbs - 1 : ℕ) : ℝ) = (e : ℝ) - 1 := by
    rw [Nat.cast_sub (by omega), hen]; norm_num
  have h1r : ((e : ℝ) - 1) * ((e : ℝ) - 1) ≤ (i : ℝ) * 16777216 + 507904 := by
    have := (Nat.cast_le (α := ℝ)).mpr h1
    push_cast at this; rw [hsub] at this; exact this
  have h2r : (i : ℝ) * 16777216 + 507904 ≤ ((e : ℝ) + 1) * ((e : ℝ) + 1) := by
    have := (Nat.cast_le (α := ℝ)).mpr h2
    push_cast at this; rw [hen] at this; exact this
  have hval : (65536 : ℝ) * Real.sqrt ((i : ℝ) / 256 + 31 / 262144) = Real.sqrt ((i : ℝ) * 16777216 + 507904) := by
    have : (i : ℝ) * 16777216 + 507904 = 65536 ^ 2 * ((i : ℝ) / 256 + 31 / 262144) := by ring
    rw [this, Real.sqrt_mul (by positivity), Real.sqrt_sq (by norm_num)]
  rw [hval]
  have he1 : (1 : ℝ) ≤ e := by exact_mod_cast he
  have hlo : (e : ℝ) - 1 ≤ Real.sqrt ((i : ℝ) * 16777216 + 507904) := by
    rw [Real.le_sqrt (by linarith) (by positivity)]; nlinarith
  have hhi : Real.sqrt ((i : ℝ) * 16777216 + 507904) ≤ (e : ℝ) + 1 := by
    rw [Real.sqrt_le_left (by linarith)]; nlinarith
  rw [abs_le]; constructor <;> linarith

end FixedMath.R

/-
  C19: accuracy of `atan_index_aprox` for EVERY argument, from the closed form (Proofs/AtanIndex.lean), the kernel
  checks of the table (Check/TanAngles.lean) and monotonicity of arctan.
-/
import FixedMath.Proofs.AtanIndex
import FixedMath.Real.TanAngles

namespace FixedMath
open Gen R Chk Real

set_option maxRecDepth 1000000 in
theorem tanAngles_checked : checkTanAngles = true := by decide +kernel
set_option maxRecDepth 1000000 in
theorem tanSorted_checked : checkTanSorted = true := by decide +kernel

theorem tanT_zero : tanT 0 = 0 := by decide +kernel
theorem tanT_128_pos : 0 < tanT 128 := by decide +kernel

theorem tan_sorted : ∀ j k : Int, 129 ≤ j → j ≤ k → k < 256 → tanT j ≤ tanT k := by
  have step : ∀ j : Int, 129 ≤ j → j < 255 → tanT j ≤ tanT (j + 1) := by
    intro j h1 h2
    have h := tanSorted_checked
    unfold checkTanSorted at h
    rw [List.all_eq_true] at h
    have := h (j.toNat - 129) (List.mem_range.mpr (by omega))
    simp only [decide_eq_true_eq] at this
    unfold tanT
    have e1 : 129 + (j.toNat - 129) = j.toNat := by omega
    have e2 : 130 + (j.toNat - 129) = (j + 1).toNat := by omega
    rw [e1, e2] at this; exact this
  intro j k h1 h2 h3
  obtain ⟨d, rfl⟩ : ∃ d : Nat, k = j + d := ⟨(k - j).toNat, by omega⟩
  induction d with
  | zero => simp
  | succ n ih =>
    have := ih (by omega) (by omega)
    have s := step (j + n) (by omega) (by omega)
    have e : j + ((n + 1 : ℕ) : Int) = j + n + 1 := by push_cast; ring
    rw [e]; omega

theorem tanAngle_of (i : Nat) (h : i < 256) : checkTanAngle i = true := by
  have h0 := tanAngles_checked
  unfold checkTanAngles at h0
  rw [List.all_eq_true] at h0
  exact h0 i (List.mem_range.mpr h)

/-- positive half of the table -/
theorem ang_pos (j : Int) (h1 : 1 ≤ j) (h2 : j ≤ 127) :
    |arctan ((tanT j : ℝ) / 65536) - (j : ℝ) * π / 256| ≤ 10 / 65536 := by
  have := (checkTanAngle_sound_pos j.toNat (by omega) (by omega) (tanAngle_of j.toNat (by omega))).2
  unfold tanT
  have e : ((j.toNat : ℕ) : ℝ) = (j : ℝ) := by
    rw [← Int.cast_natCast, Int.toNat_of_nonneg (by omega)]
  rw [e] at this; exact this

/-- negative half of the table -/
theorem ang_neg (j : Int) (h1 : 129 ≤ j) (h2 : j ≤ 255) :
    |arctan ((tanT j : ℝ) / 65536) - ((j : ℝ) - 256) * π / 256| ≤ 10 / 65536 := by
  have := (checkTanAngle_sound_neg j.toNat (by omega) (by omega) (tanAngle_of j.toNat (by omega))).2
  unfold tanT
  have e : ((j.toNat : ℕ) : ℝ) = (j : ℝ) := by
    rw [← Int.cast_natCast, Int.toNat_of_nonneg (by omega)]
  rw [e] at this; exact this

theorem arctan_mono_int (a b : Int) (h : a ≤ b) : arctan ((a : ℝ) / 65536) ≤ arctan ((b : ℝ) / 65536) := by
  apply arctan_strictMono.monotone
  have : (a : ℝ) ≤ (b : ℝ) := by exact_mod_cast h
  exact div_le_div_of_nonneg_right this (by norm_num)

theorem arctan_smono_int (a b : Int) (h : a < b) : arctan ((a : ℝ) / 65536) < arctan ((b : ℝ) / 65536) := by
  apply arctan_strictMono
  have : (a : ℝ) < (b : ℝ) := by exact_mod_cast h
  exact div_lt_div_of_pos_right this (by norm_num)

/-- the common last step: `α` bracketed by two angles `lo ≤ hi` (up to ε), the result one of them -/
theorem idx_acc_core (α lo hi res : ℝ) (h1 : lo - 10 / 65536 ≤ α) (h2 : α ≤ hi + 10 / 65536) (hlh : lo ≤ hi)
    (hres : res = lo ∨ res = hi) : |res - α| ≤ hi - lo + 10 / 65536 := by
  rw [abs_le]
  rcases hres with h | h <;> rw [h] <;> constructor <;> linarith

/-- from an angle error to the error of the index value -/
theorem idx_to_index_units (α ang bound : ℝ) (h : |ang - α| ≤ bound) (hb : bound ≤ 2 * π / 256 + 10 / 65536) :
    |ang * 128 / π - α * 128 / π| ≤ 125 / 100 := by
  have hpi := pi_gt_three
  have e : ang * 128 / π - α * 128 / π = (ang - α) * (128 / π) := by ring
  rw [e, abs_mul, abs_of_pos (by positivity : (0 : ℝ) < 128 / π)]
  have h1 : |ang - α| * (128 / π) ≤ (2 * π / 256 + 10 / 65536) * (128 / π) :=
    mul_le_mul_of_nonneg_right (le_trans h hb) (by positivity)
  have h2 : (2 * π / 256 + 10 / 65536) * (128 / π) = 1 + (10 / 65536) * (128 / π) := by
    field_simp; ring
  have h3 : (10 / 65536 : ℝ) * (128 / π) ≤ 1 / 4 := by
    rw [mul_div_assoc', div_le_iff₀ (by positivity)]; nlinarith
  linarith


theorem idx_units (idx off : Int) : ((off + idx * 32768 : Int) : ℝ) / 65536 = (((idx : ℝ) + (off : ℝ) / 32768) * π / 256) * 128 / π := by
  have hpi : π ≠ 0 := pi_ne_zero
  push_cast; field_simp; ring

/-- **atan_index_aprox is within 1.25 of atan(x)·128/π** for every argument -/
theorem atanIndex_acc (v : Int) (hv : -9223372036854775808 < v ∧ v ≤ 9223372036854775807) :
    ∃ res : Int, atanIndexAprox v = .ok res ∧
      |(res : ℝ) / 65536 - arctan ((v : ℝ) / 65536) * 128 / π| ≤ 125 / 100 := by
  obtain ⟨r, idx, hpos, hneg, hidx, hval⟩ := atanIndex_closed v hv tan_sorted
  refine ⟨_, hval, ?_⟩
  have hpi := pi_pos
  set α : ℝ := arctan ((v : ℝ) / 65536) with hα
  by_cases h0 : 0 ≤ v
  · rw [if_pos h0]
    obtain ⟨r0, r1, rL, rR⟩ := hpos h0
    have e := idx_units idx 0
    simp only [zero_add, Int.cast_zero, zero_div, add_zero] at e
    rw [e]
    apply idx_to_index_units _ _ (2 * π / 256 + 10 / 65536) _ (le_refl _)
    by_cases hr0 : r = 0
    · -- v = 0
      have hi : idx = 0 := by rcases hidx with h | ⟨h, _⟩ <;> omega
      have hv0 : v = 0 := by
        rcases rR with h | h
        · omega
        · rw [hr0, tanT_zero] at h; omega
      rw [hi, hα, hv0]; simp; positivity
    · have hr1 : 1 ≤ r := by omega
      have hlo : ((r - 1 : Int) : ℝ) * π / 256 - 10 / 65536 ≤ α := by
        have hlt : tanT (r - 1) < v := by rcases rL with h | h <;> [omega; exact h]
        have hs := arctan_smono_int _ _ hlt
        by_cases hr : r = 1
        · rw [hr] at hs ⊢
          rw [show ((1 : Int) - 1) = 0 by norm_num, tanT_zero] at hs
          simp only [Int.cast_zero, zero_div, arctan_zero] at hs
          have : (((1 : Int) - 1 : Int) : ℝ) = 0 := by norm_num
          rw [this]; simp only [zero_mul, zero_div, zero_sub]
          have : (0 : ℝ) < 10 / 65536 := by norm_num
          linarith
        · have := ang_pos (r - 1) (by omega) (by omega)
          obtain ⟨a1, a2⟩ := abs_le.mp this
          linarith
      have hhi : α ≤ (r : ℝ) * π / 256 + 10 / 65536 := by
        by_cases hr : r = 128
        · rw [hr]; have := arctan_lt_pi_div_two ((v : ℝ) / 65536)
          push_cast; linarith
        · have hle : v ≤ tanT r := by rcases rR with h | h <;> [omega; exact h]
          have hs := arctan_mono_int _ _ hle
          have := ang_pos r (by omega) (by omega)
          obtain ⟨a1, a2⟩ := abs_le.mp this
          linarith
      have hres : (idx : ℝ) * π / 256 = ((r - 1 : Int) : ℝ) * π / 256 ∨ (idx : ℝ) * π / 256 = (r : ℝ) * π / 256 := by
        rcases hidx with h | ⟨_, h⟩
        · right; rw [h]
        · left; rw [h]
      have := idx_acc_core α _ _ _ hlo hhi (by push_cast; nlinarith) hres
      refine le_trans this ?_
      push_cast; nlinarith
  · rw [if_neg h0]
    have hvneg : v < 0 := by omega
    obtain ⟨r0, r1, rL, rR, rJ⟩ := hneg hvneg
    have e := idx_units idx (-8388608)
    have e2 : ((-8388608 : Int) : ℝ) / 32768 = -256 := by norm_num
    rw [e2] at e
    rw [e]
    have hr129 : r ≠ 129 := by
      intro h
      rcases rL with h' | h'
      · omega
      · rw [h, show ((129 : Int) - 1) = 128 by norm_num] at h'
        have := tanT_128_pos; omega
    by_cases hr : r = 128
    · -- beyond the steepest entry
      have hle := rJ hr 129 (by omega) (by omega)
      have hs := arctan_mono_int _ _ hle
      have ha := ang_neg 129 (by omega) (by omega)
      obtain ⟨a1, a2⟩ := abs_le.mp ha
      have hlow := neg_pi_div_two_lt_arctan ((v : ℝ) / 65536)
      have hidx' : idx = 128 ∨ idx = 127 := by rcases hidx with h | ⟨_, h⟩ <;> omega
      apply idx_to_index_units _ _ (2 * π / 256 + 10 / 65536) _ (le_refl _)
      rw [abs_le]
      rcases hidx' with h | h <;> rw [h] <;> push_cast at a1 a2 ⊢ <;> constructor <;> nlinarith
    · have hr130 : 130 ≤ r := by omega
      have hlo : (((r - 1 : Int) : ℝ) + -256) * π / 256 - 10 / 65536 ≤ α := by
        have hlt : tanT (r - 1) < v := by rcases rL with h | h <;> [omega; exact h]
        have hs := arctan_smono_int _ _ hlt
        have := ang_neg (r - 1) (by omega) (by omega)
        obtain ⟨a1, a2⟩ := abs_le.mp this
        push_cast at a1 a2 ⊢
        linarith
      have hhi : α ≤ ((r : ℝ) + -256) * π / 256 + 10 / 65536 := by
        by_cases hr' : r = 256
        · rw [hr']
          have : α < 0 := by
            rw [hα]; rw [← arctan_zero]; apply arctan_strictMono
            have : (v : ℝ) < 0 := by exact_mod_cast hvneg
            exact div_neg_of_neg_of_pos this (by norm_num)
          push_cast; norm_num; linarith
        · have hle : v ≤ tanT r := by rcases rR with h | h <;> [omega; exact h]
          have hs := arctan_mono_int _ _ hle
          have := ang_neg r (by omega) (by omega)
          obtain ⟨a1, a2⟩ := abs_le.mp this
          linarith
      have hres : ((idx : ℝ) + -256) * π / 256 = (((r - 1 : Int) : ℝ) + -256) * π / 256 ∨
          ((idx : ℝ) + -256) * π / 256 = ((r : ℝ) + -256) * π / 256 := by
        rcases hidx with h | ⟨_, h⟩
        · right; rw [h]
        · left; rw [h]
      apply idx_to_index_units _ _ (2 * π / 256 + 10 / 65536) _ (le_refl _)
      refine le_trans (idx_acc_core α _ _ _ hlo hhi (by push_cast; nlinarith) hres) ?_
      push_cast; nlinarith

end FixedMath

/-
  Soundness of the Nat-only Taylor blocks of Check/Taylor.lean with respect to `Real.sin`/`Real.cos`.
-/
import FixedMath.Real.Encl
import FixedMath.Check.Taylor

namespace FixedMath.R
open FixedMath.Chk

theorem sin_taylor_cast (K T : Nat) :
    ((sinPos K T : ℕ) : ℝ) - ((sinNeg K T : ℕ) : ℝ) = (sinScale K : ℝ) * S8 ((T : ℝ) / 2 ^ K) := by
  simp only [sinPos, sinNeg, sinScale, S8]
  push_cast
  have h14 : (2 : ℝ) ^ (14 * K) = ((2 : ℝ) ^ K) ^ 14 := by rw [← pow_mul, Nat.mul_comm]
  have h12 : (2 : ℝ) ^ (12 * K) = ((2 : ℝ) ^ K) ^ 12 := by rw [← pow_mul, Nat.mul_comm]
  have h10 : (2 : ℝ) ^ (10 * K) = ((2 : ℝ) ^ K) ^ 10 := by rw [← pow_mul, Nat.mul_comm]
  have h8 : (2 : ℝ) ^ (8 * K) = ((2 : ℝ) ^ K) ^ 8 := by rw [← pow_mul, Nat.mul_comm]
  have h6 : (2 : ℝ) ^ (6 * K) = ((2 : ℝ) ^ K) ^ 6 := by rw [← pow_mul, Nat.mul_comm]
  have h4 : (2 : ℝ) ^ (4 * K) = ((2 : ℝ) ^ K) ^ 4 := by rw [← pow_mul, Nat.mul_comm]
  have h2 : (2 : ℝ) ^ (2 * K) = ((2 : ℝ) ^ K) ^ 2 := by rw [← pow_mul, Nat.mul_comm]
  have h15 : (2 : ℝ) ^ (15 * K) = ((2 : ℝ) ^ K) ^ 15 := by rw [← pow_mul, Nat.mul_comm]
  rw [h14, h12, h10, h8, h6, h4, h2, h15]
  have hq : (2 : ℝ) ^ K ≠ 0 := by positivity
  generalize (2 : ℝ) ^ K = q at *
  field_simp
  ring

theorem cos_taylor_cast (K T : Nat) :
    ((cosPos K T : ℕ) : ℝ) - ((cosNeg K T : ℕ) : ℝ) = (cosScale K : ℝ) * C9 ((T : ℝ) / 2 ^ K) := by
  simp only [cosPos, cosNeg, cosScale, C9]
  push_cast
  have h16 : (2 : ℝ) ^ (16 * K) = ((2 : ℝ) ^ K) ^ 16 := by rw [← pow_mul, Nat.mul_comm]
  have h14 : (2 : ℝ) ^ (14 * K) = ((2 : ℝ) ^ K) ^ 14 := by rw [← pow_mul, Nat.mul_comm]
  have h12 : (2 : ℝ) ^ (12 * K) = ((2 : ℝ) ^ K) ^ 12 := by rw [← pow_mul, Nat.mul_comm]
  have h10 : (2 : ℝ) ^ (10 * K) = ((2 : ℝ) ^ K) ^ 10 := by rw [← pow_mul, Nat.mul_comm]
  have h8 : (2 : ℝ) ^ (8 * K) = ((2 : ℝ) ^ K) ^ 8 := by rw [← pow_mul, Nat.mul_comm]
  have h6 : (2 : ℝ) ^ (6 * K) = ((2 : ℝ) ^ K) ^ 6 := by rw [← pow_mul, Nat.mul_comm]
  have h4 : (2 : ℝ) ^ (4 * K) = ((2 : ℝ) ^ K) ^ 4 := by rw [← pow_mul, Nat.mul_comm]
  have h2 : (2 : ℝ) ^ (2 * K) = ((2 : ℝ) ^ K) ^ 2 := by rw [← pow_mul, Nat.mul_comm]
  rw [h16, h14, h12, h10, h8, h6, h4, h2]
  have hq : (2 : ℝ) ^ K ≠ 0 := by positivity
  generalize (2 : ℝ) ^ K = q at *
  field_simp
  ring

/-- scaled enclosure of sin at a dyadic point `0 ≤ T/2^K ≤ 8/5` -/
theorem sin_scaled_encl (K T : Nat) (h : (T : ℝ) / 2 ^ K ≤ 8 / 5) :
    |(sinScale K : ℝ) * Real.sin ((T : ℝ) / 2 ^ K) - (((sinPos K T : ℕ) : ℝ) - ((sinNeg K T : ℕ) : ℝ))|
      ≤ (sinScale K : ℝ) / 34359738368 := by
  have hx0 : (0 : ℝ) ≤ (T : ℝ) / 2 ^ K := by positivity
  have hb := sin_rem_small (x := (T : ℝ) / 2 ^ K) (by rw [abs_of_nonneg hx0]; exact h)
  rw [sin_taylor_cast, ← mul_sub, abs_mul]
  have hs : (0 : ℝ) ≤ (sinScale K : ℝ) := by positivity
  rw [abs_of_nonneg hs]
  calc (sinScale K : ℝ) * |Real.sin ((T : ℝ) / 2 ^ K) - S8 ((T : ℝ) / 2 ^ K)|
      ≤ (sinScale K : ℝ) * (1 / 34359738368) := mul_le_mul_of_nonneg_left hb hs
    _ = (sinScale K : ℝ) / 34359738368 := by ring

theorem cos_scaled_encl (K T : Nat) (h : (T : ℝ) / 2 ^ K ≤ 8 / 5) :
    |(cosScale K : ℝ) * Real.cos ((T : ℝ) / 2 ^ K) - (((cosPos K T : ℕ) : ℝ) - ((cosNeg K T : ℕ) : ℝ))|
      ≤ (cosScale K : ℝ) / 34359738368 := by
  have hx0 : (0 : ℝ) ≤ (T : ℝ) / 2 ^ K := by positivity
  have hb := cos_rem_small (x := (T : ℝ) / 2 ^ K) (by rw [abs_of_nonneg hx0]; exact h)
  rw [cos_taylor_cast, ← mul_sub, abs_mul]
  have hs : (0 : ℝ) ≤ (cosScale K : ℝ) := by positivity
  rw [abs_of_nonneg hs]
  calc (cosScale K : ℝ) * |Real.cos ((T : ℝ) / 2 ^ K) - C9 ((T : ℝ) / 2 ^ K)|
      ≤ (cosScale K : ℝ) * (1 / 34359738368) := mul_le_mul_of_nonneg_left hb hs
    _ = (cosScale K : ℝ) / 34359738368 := by ring

end FixedMath.R

/-
  Rounding theory of the executable IEEE-754 model (Model/Float.lean):
  value of a datum, correctness of `ratLog2`, the half-ulp error bound and the exactness of `roundRat`.
-/
import FixedMath.Model.Conv
import Mathlib.Tactic
import Mathlib.Analysis.SpecialFunctions.Pow.Real

namespace FixedMath.R
open FixedMath

/-- real value of a finite datum -/
noncomputable def fval (s : Bool) (m : Nat) (e : Int) : ℝ := (if s then -1 else 1) * (m : ℝ) * (2 : ℝ) ^ e

theorem pow2_eq (k : Nat) : pow2 k = 2 ^ k := by unfold pow2; exact Nat.one_shiftLeft k

theorem bitlen_spec (n : Nat) (h : n ≠ 0) : 2 ^ (bitlen n - 1) ≤ n ∧ n < 2 ^ bitlen n := by
  unfold bitlen
  rw [if_neg h]
  exact ⟨by simpa using Nat.log2_self_le h, by simpa using (@Nat.lt_log2_self n)⟩

theorem zpow_of_nonneg (g : ℤ) (h : 0 ≤ g) : (2 : ℝ) ^ g = (2 : ℝ) ^ g.toNat := by
  conv_lhs => rw [← Int.toNat_of_nonneg h]
  exact zpow_natCast 2 g.toNat

theorem zpow_of_nonpos (g : ℤ) (h : g ≤ 0) : (2 : ℝ) ^ g = 1 / (2 : ℝ) ^ (-g).toNat := by
  have : g = -(((-g).toNat : ℕ) : ℤ) := by omega
  conv_lhs => rw [this]
  rw [zpow_neg, zpow_natCast]; simp

/-- `2^L ≤ num/den < 2^(L+1)` for `L = ratLog2 num den` -/
theorem ratLog2_spec (num den : Nat) (hn : 0 < num) (hd : 0 < den) :
    (2 : ℝ) ^ (ratLog2 num den) ≤ (num : ℝ) / den ∧ (num : ℝ) / den < (2 : ℝ) ^ (ratLog2 num den + 1) := by
  have hnr : (0 : ℝ) < num := by exact_mod_cast hn
  have hdr : (0 : ℝ) < den := by exact_mod_cast hd
  obtain ⟨n1, n2⟩ := bitlen_spec num (by omega)
  obtain ⟨d1, d2⟩ := bitlen_spec den (by omega)
  have hbn : 1 ≤ bitlen num := by unfold bitlen; rw [if_neg (by omega)]; omega
  have hbd : 1 ≤ bitlen den := by unfold bitlen; rw [if_neg (by omega)]; omega
  have n1r : (2 : ℝ) ^ ((bitlen num : ℤ) - 1) ≤ num := by
    have : ((2 ^ (bitlen num - 1) : ℕ) : ℝ) ≤ (num : ℝ) := by exact_mod_cast n1
    rw [show ((bitlen num : ℤ) - 1) = ((bitlen num - 1 : ℕ) : ℤ) by omega, zpow_natCast]
    push_cast at this; exact this
  have n2r : (num : ℝ) < (2 : ℝ) ^ (bitlen num : ℤ) := by
    have : (num : ℝ) < ((2 ^ bitlen num : ℕ) : ℝ) := by exact_mod_cast n2
    rw [zpow_natCast]; push_cast at this; exact this
  have d1r : (2 : ℝ) ^ ((bitlen den : ℤ) - 1) ≤ den := by
    have : ((2 ^ (bitlen den - 1) : ℕ) : ℝ) ≤ (den : ℝ) := by exact_mod_cast d1
    rw [show ((bitlen den : ℤ) - 1) = ((bitlen den - 1 : ℕ) : ℤ) by omega, zpow_natCast]
    push_cast at this; exact this
  have d2r : (den : ℝ) < (2 : ℝ) ^ (bitlen den : ℤ) := by
    have : (den : ℝ) < ((2 ^ bitlen den : ℕ) : ℝ) := by exact_mod_cast d2
    rw [zpow_natCast]; push_cast at this; exact this
  unfold ratLog2
  set g : ℤ := (bitlen num : ℤ) - (bitlen den : ℤ) with hg
  simp only []
  -- the comparison `num ≥ den * 2^g` in real terms
  have hcmp : (if g ≥ 0 then decide (num ≥ den * pow2 g.toNat) else decide (num * pow2 (-g).toNat ≥ den)) = decide ((den : ℝ) * (2 : ℝ) ^ g ≤ num) := by
    by_cases hg0 : g ≥ 0
    · rw [if_pos hg0]
      congr 1
      rw [pow2_eq, zpow_of_nonneg g hg0]
      apply propext
      constructor
      · intro h
        have : ((den * 2 ^ g.toNat : ℕ) : ℝ) ≤ (num : ℝ) := by exact_mod_cast h
        push_cast at this; exact this
      · intro h
        have : ((den * 2 ^ g.toNat : ℕ) : ℝ) ≤ (num : ℝ) := by push_cast; exact h
        exact_mod_cast this
    · rw [if_neg hg0]
      congr 1
      rw [pow2_eq, zpow_of_nonpos g (by omega)]
      have hpos : (0 : ℝ) < (2 : ℝ) ^ (-g).toNat := by positivity
      apply propext
      constructor
      · intro h
        have : (den : ℝ) ≤ ((num * 2 ^ (-g).toNat : ℕ) : ℝ) := by exact_mod_cast h
        push_cast at this
        rw [mul_one_div, div_le_iff₀ hpos]; exact this
      · intro h
        rw [mul_one_div, div_le_iff₀ hpos] at h
        have : (den : ℝ) ≤ ((num * 2 ^ (-g).toNat : ℕ) : ℝ) := by push_cast; exact h
        exact_mod_cast this
  rw [hcmp]
  have h2g : (2 : ℝ) ^ g = (2 : ℝ) ^ (bitlen num : ℤ) / (2 : ℝ) ^ (bitlen den : ℤ) := by
    rw [hg, zpow_sub₀ (by norm_num)]
  have hpd : (0 : ℝ) < (2 : ℝ) ^ (bitlen den : ℤ) := by positivity
  have hpn : (0 : ℝ) < (2 : ℝ) ^ (bitlen num : ℤ) := by positivity
  by_cases hge : (den : ℝ) * (2 : ℝ) ^ g ≤ num
  · simp only [hge, decide_true, if_true]
    constructor
    · rw [le_div_iff₀ hdr]; linarith [mul_comm (den : ℝ) ((2 : ℝ) ^ g)]
    · rw [div_lt_iff₀ hdr, zpow_add_one₀ (by norm_num), h2g]
      -- num < 2^bn ≤ 2 · 2^bn / 2^bd · den  since den ≥ 2^(bd-1)
      have : (2 : ℝ) ^ (bitlen den : ℤ) = 2 * (2 : ℝ) ^ ((bitlen den : ℤ) - 1) := by
        rw [← zpow_one_add₀ (by norm_num)]; congr 1; ring
      have h3 : (2 : ℝ) ^ (bitlen num : ℤ) / (2 : ℝ) ^ (bitlen den : ℤ) * 2 * den ≥ (2 : ℝ) ^ (bitlen num : ℤ) := by
        rw [ge_iff_le, div_mul_eq_mul_div, div_mul_eq_mul_div, le_div_iff₀ hpd]
        nlinarith
      linarith
  · simp only [hge, decide_false, Bool.false_eq_true, if_false]
    push Not at hge
    constructor
    · rw [le_div_iff₀ hdr, show g - 1 = g + (-1) by ring, zpow_add₀ (by norm_num), h2g]
      -- 2^bn/2^bd/2 · den ≤ num  since den < 2^bd and num ≥ 2^(bn-1)
      have : (2 : ℝ) ^ (bitlen num : ℤ) = 2 * (2 : ℝ) ^ ((bitlen num : ℤ) - 1) := by
        rw [← zpow_one_add₀ (by norm_num)]; congr 1; ring
      have h3 : (2 : ℝ) ^ (bitlen num : ℤ) / (2 : ℝ) ^ (bitlen den : ℤ) * (2 : ℝ) ^ (-1 : ℤ) * den ≤ (2 : ℝ) ^ ((bitlen num : ℤ) - 1) := by
        rw [this]
        have e1 : (2 : ℝ) ^ (-1 : ℤ) = 1 / 2 := by norm_num
        rw [e1]
        have : 2 * (2 : ℝ) ^ ((bitlen num : ℤ) - 1) / (2 : ℝ) ^ (bitlen den : ℤ) * (1 / 2) * den
            = (2 : ℝ) ^ ((bitlen num : ℤ) - 1) * (den / (2 : ℝ) ^ (bitlen den : ℤ)) := by field_simp
        rw [this]
        have hlt : (den : ℝ) / (2 : ℝ) ^ (bitlen den : ℤ) ≤ 1 := by
          rw [div_le_one hpd]; exact le_of_lt d2r
        have hp : (0 : ℝ) ≤ (2 : ℝ) ^ ((bitlen num : ℤ) - 1) := by positivity
        nlinarith
      linarith
    · rw [div_lt_iff₀ hdr, show g - 1 + 1 = g by ring]
      linarith [mul_comm (den : ℝ) ((2 : ℝ) ^ g)]

/-- round-to-nearest-even of the quotient of two naturals -/
def rnd (n' d' : Nat) : Nat :=
  match compare (2 * (n' % d')) d' with
  | .lt => n' / d'
  | .eq => if (n' / d') % 2 = 1 then n' / d' + 1 else n' / d'
  | .gt => n' / d' + 1

theorem rnd_spec (n' d' : Nat) (hd : 0 < d') :
    |((rnd n' d' : ℕ) : ℝ) - (n' : ℝ) / d'| ≤ 1 / 2 ∧ (n' % d' = 0 → rnd n' d' = n' / d') := by
  have hdr : (0 : ℝ) < d' := by exact_mod_cast hd
  have hdiv := Nat.div_add_mod n' d'
  have hmod := Nat.mod_lt n' hd
  have hreal : (n' : ℝ) / d' = ((n' / d' : ℕ) : ℝ) + ((n' % d' : ℕ) : ℝ) / d' := by
    have : (n' : ℝ) = (d' : ℝ) * ((n' / d' : ℕ) : ℝ) + ((n' % d' : ℕ) : ℝ) := by exact_mod_cast hdiv.symm
    rw [this]; field_simp
  have hr0 : (0 : ℝ) ≤ ((n' % d' : ℕ) : ℝ) / d' := by positivity
  have hr1 : ((n' % d' : ℕ) : ℝ) / d' < 1 := by
    rw [div_lt_one hdr]; exact_mod_cast hmod
  unfold rnd
  constructor
  · rcases hc : compare (2 * (n' % d')) d' with _ | _ | _
    · simp only []
      have hlt : 2 * (n' % d') < d' := by rwa [Nat.compare_eq_lt] at hc
      have : 2 * ((n' % d' : ℕ) : ℝ) < d' := by exact_mod_cast hlt
      have h2 : ((n' % d' : ℕ) : ℝ) / d' < 1 / 2 := by rw [div_lt_iff₀ hdr]; linarith
      rw [hreal, abs_le]; constructor <;> linarith
    · simp only []
      have heq : 2 * (n' % d') = d' := by rwa [Nat.compare_eq_eq] at hc
      have : 2 * ((n' % d' : ℕ) : ℝ) = d' := by exact_mod_cast heq
      have h2 : ((n' % d' : ℕ) : ℝ) / d' = 1 / 2 := by rw [div_eq_iff (ne_of_gt hdr)]; linarith
      rw [hreal, h2, abs_le]
      split <;> (push_cast; constructor <;> linarith)
    · simp only []
      have hgt : d' < 2 * (n' % d') := by rwa [Nat.compare_eq_gt] at hc
      have : (d' : ℝ) < 2 * ((n' % d' : ℕ) : ℝ) := by exact_mod_cast hgt
      have h2 : 1 / 2 < ((n' % d' : ℕ) : ℝ) / d' := by rw [lt_div_iff₀ hdr]; linarith
      rw [hreal, abs_le]; push_cast; constructor <;> linarith
  · intro h0
    have : compare (2 * (n' % d')) d' = .lt := by rw [h0, Nat.compare_eq_lt]; omega
    rw [this]

/-- the scaled numerator/denominator used by `roundRat` -/
def scN (num : Nat) (e : Int) : Nat := if e ≥ 0 then num else num * pow2 (-e).toNat
def scD (den : Nat) (e : Int) : Nat := if e ≥ 0 then den * pow2 e.toNat else den

theorem sc_quot (num den : Nat) (e : Int) (hd : 0 < den) :
    ((scN num e : ℕ) : ℝ) / (scD den e : ℕ) = (num : ℝ) / den / (2 : ℝ) ^ e ∧ 0 < scD den e := by
  have hdr : (0 : ℝ) < den := by exact_mod_cast hd
  unfold scN scD
  by_cases he : e ≥ 0
  · rw [if_pos he, if_pos he, pow2_eq, zpow_of_nonneg e he]
    refine ⟨by push_cast; field_simp, ?_⟩
    positivity
  · rw [if_neg he, if_neg he, pow2_eq, zpow_of_nonpos e (by omega)]
    refine ⟨by push_cast; field_simp, hd⟩

/-- `roundRat` below the overflow threshold: the result is finite, with mantissa `rnd` of the scaled quotient -/
theorem roundRat_fin (f : Fmt) (neg : Bool) (num den : Nat) (hn : 0 < num)
    (hov : pickExp f (ratLog2 num den) < f.emax) :
    roundRat f neg num den = .fin neg (rnd (scN num (pickExp f (ratLog2 num den))) (scD den (pickExp f (ratLog2 num den))))
      (pickExp f (ratLog2 num den)) := by
  unfold roundRat
  rw [if_neg (by omega)]
  simp only []
  unfold finishRound rnd scN scD
  generalize pickExp f (ratLog2 num den) = e at *
  simp only []
  have hcond : ∀ q' : Nat, ¬ (e > f.emax ∨ e = f.emax ∧ q' ≥ pow2 f.p) := by
    intro q' h
    rcases h with h | ⟨h, _⟩ <;> omega
  rw [if_neg (hcond _)]
  rcases compare (2 * ((if e ≥ 0 then num else num * pow2 (-e).toNat) % if e ≥ 0 then den * pow2 e.toNat else den))
    (if e ≥ 0 then den * pow2 e.toNat else den) <;> rfl

/-- `roundRat` below the overflow threshold: finite result `q·2^E`, within half a unit of `2^E` of the rational,
    and exactly the rational when it is a natural multiple of `2^E` -/
theorem roundRat_err (f : Fmt) (neg : Bool) (num den : Nat) (hn : 0 < num) (hd : 0 < den)
    (hov : pickExp f (ratLog2 num den) < f.emax) :
    ∃ q : Nat, roundRat f neg num den = .fin neg q (pickExp f (ratLog2 num den)) ∧
      |(q : ℝ) * (2 : ℝ) ^ (pickExp f (ratLog2 num den)) - (num : ℝ) / den| ≤ (2 : ℝ) ^ (pickExp f (ratLog2 num den)) / 2 ∧
      (∀ K : ℕ, (num : ℝ) / den = (K : ℝ) * (2 : ℝ) ^ (pickExp f (ratLog2 num den)) → q = K) := by
  rw [roundRat_fin f neg num den hn hov]
  generalize pickExp f (ratLog2 num den) = E at *
  obtain ⟨hq, hdpos⟩ := sc_quot num den E hd
  obtain ⟨herr, hex⟩ := rnd_spec (scN num E) (scD den E) hdpos
  have hE : (0 : ℝ) < (2 : ℝ) ^ E := by positivity
  refine ⟨_, rfl, ?_, ?_⟩
  · rw [hq] at herr
    have e : ((rnd (scN num E) (scD den E) : ℕ) : ℝ) * (2 : ℝ) ^ E - (num : ℝ) / den
        = (((rnd (scN num E) (scD den E) : ℕ) : ℝ) - (num : ℝ) / den / (2 : ℝ) ^ E) * (2 : ℝ) ^ E := by
      field_simp
    rw [e, abs_mul, abs_of_pos hE]
    calc _ ≤ 1 / 2 * (2 : ℝ) ^ E := mul_le_mul_of_nonneg_right herr (le_of_lt hE)
      _ = (2 : ℝ) ^ E / 2 := by ring
  · intro K hK
    have hnd : ((scN num E : ℕ) : ℝ) / (scD den E : ℕ) = (K : ℝ) := by
      rw [hq, hK]; field_simp
    have hdr : (0 : ℝ) < ((scD den E : ℕ) : ℝ) := by exact_mod_cast hdpos
    have hmul : ((scN num E : ℕ) : ℝ) = (K : ℝ) * (scD den E : ℕ) := by
      rw [div_eq_iff (ne_of_gt hdr)] at hnd; exact hnd
    have hnat : scN num E = K * scD den E := by exact_mod_cast hmul
    rw [hex (by rw [hnat]; exact Nat.mul_mod_left K _), hnat]
    exact Nat.mul_div_cancel K hdpos

/-- relative half-ulp bound in the normal range -/
theorem pickExp_normal (f : Fmt) (num den : Nat) (hn : 0 < num) (hd : 0 < den)
    (hnorm : f.emin ≤ ratLog2 num den - (f.p : ℤ) + 1) :
    pickExp f (ratLog2 num den) = ratLog2 num den - (f.p : ℤ) + 1 ∧
    (2 : ℝ) ^ (pickExp f (ratLog2 num den)) / 2 ≤ (num : ℝ) / den * (2 : ℝ) ^ (-(f.p : ℤ)) := by
  have hpe : pickExp f (ratLog2 num den) = ratLog2 num den - (f.p : ℤ) + 1 := by
    unfold pickExp; exact max_eq_left hnorm
  refine ⟨hpe, ?_⟩
  rw [hpe]
  obtain ⟨h1, _⟩ := ratLog2_spec num den hn hd
  have e : (2 : ℝ) ^ (ratLog2 num den - (f.p : ℤ) + 1) / 2 = (2 : ℝ) ^ (ratLog2 num den) * (2 : ℝ) ^ (-(f.p : ℤ)) := by
    rw [show ratLog2 num den - (f.p : ℤ) + 1 = ratLog2 num den + (-(f.p : ℤ)) + 1 by ring,
      zpow_add_one₀ (by norm_num), zpow_add₀ (by norm_num)]
    ring
  rw [e]
  exact mul_le_mul_of_nonneg_right h1 (by positivity)

/-- a representable rational is returned exactly -/
theorem roundRat_exact (f : Fmt) (neg : Bool) (num den M : Nat) (K0 : ℤ) (hn : 0 < num) (hd : 0 < den)
    (hx : (num : ℝ) / den = (M : ℝ) * (2 : ℝ) ^ K0) (hM : M < 2 ^ f.p) (hK : f.emin ≤ K0) (hov : K0 < f.emax) :
    ∃ (q : Nat) (E : ℤ), roundRat f neg num den = .fin neg q E ∧ (q : ℝ) * (2 : ℝ) ^ E = (M : ℝ) * (2 : ℝ) ^ K0 := by
  obtain ⟨h1, h2⟩ := ratLog2_spec num den hn hd
  -- E ≤ K0
  have hL : ratLog2 num den - (f.p : ℤ) + 1 ≤ K0 := by
    by_contra hc
    push Not at hc
    have hlt : (M : ℝ) < (2 : ℝ) ^ (f.p : ℤ) := by
      rw [zpow_natCast]; exact_mod_cast hM
    have : (num : ℝ) / den < (2 : ℝ) ^ (f.p : ℤ) * (2 : ℝ) ^ K0 := by
      rw [hx]; exact mul_lt_mul_of_pos_right hlt (by positivity)
    rw [← zpow_add₀ (by norm_num)] at this
    have h3 : (2 : ℝ) ^ ((f.p : ℤ) + K0) ≤ (2 : ℝ) ^ (ratLog2 num den) := by
      apply zpow_le_zpow_right₀ (by norm_num); omega
    linarith
  have hE : pickExp f (ratLog2 num den) ≤ K0 := by unfold pickExp; exact max_le hL hK
  obtain ⟨q, hq, _, hex⟩ := roundRat_err f neg num den hn hd (by omega)
  generalize pickExp f (ratLog2 num den) = E at *
  -- x / 2^E = M · 2^(K0 − E), a natural number
  have hnat : (num : ℝ) / den = ((M * 2 ^ (K0 - E).toNat : ℕ) : ℝ) * (2 : ℝ) ^ E := by
    rw [hx]
    push_cast
    rw [← zpow_natCast, Int.toNat_of_nonneg (by omega), mul_assoc, ← zpow_add₀ (by norm_num)]
    congr 2; ring
  have := hex _ hnat
  refine ⟨q, E, hq, ?_⟩
  rw [this, ← hnat, hx]

end FixedMath.R

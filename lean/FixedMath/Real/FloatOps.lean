/-
  Operation-level facts about the IEEE model: which rational each operation rounds, comparisons, truncation.
-/
import FixedMath.Real.FloatTheory

namespace FixedMath.R
open FixedMath

theorem fval_abs (s : Bool) (m : Nat) (e : Int) : |fval s m e| = (m : ℝ) * (2 : ℝ) ^ e := by
  unfold fval
  have hp : (0 : ℝ) ≤ (m : ℝ) * (2 : ℝ) ^ e := by positivity
  cases s
  · simp only [Bool.false_eq_true, if_false, one_mul]; exact abs_of_nonneg hp
  · simp only [if_true]
    rw [show (-1 : ℝ) * (m : ℝ) * (2 : ℝ) ^ e = -((m : ℝ) * (2 : ℝ) ^ e) by ring, abs_neg]; exact abs_of_nonneg hp

/-- `roundDy` rounds the dyadic `m·2^e` -/
theorem roundDy_rat (f : Fmt) (s : Bool) (m : Nat) (e : Int) (hm : 0 < m) :
    ∃ N D : Nat, 0 < N ∧ 0 < D ∧ roundDy f s m e = roundRat f s N D ∧ (N : ℝ) / D = (m : ℝ) * (2 : ℝ) ^ e := by
  unfold roundDy
  by_cases he : e ≥ 0
  · rw [if_pos he]
    refine ⟨m * pow2 e.toNat, 1, ?_, by norm_num, rfl, ?_⟩
    · rw [pow2_eq]; positivity
    · rw [pow2_eq, zpow_of_nonneg e he]; push_cast; ring
  · rw [if_neg he]
    refine ⟨m, pow2 (-e).toNat, hm, ?_, rfl, ?_⟩
    · rw [pow2_eq]; positivity
    · rw [pow2_eq, zpow_of_nonpos e (by omega)]; push_cast; ring

/-- the quotient of two non-zero finite data -/
theorem div_rat (f : Fmt) (s1 : Bool) (m1 : Nat) (e1 : Int) (s2 : Bool) (m2 : Nat) (e2 : Int) (h1 : 0 < m1) (h2 : 0 < m2) :
    ∃ N D : Nat, 0 < N ∧ 0 < D ∧ FP.div f (.fin s1 m1 e1) (.fin s2 m2 e2) = roundRat f (s1 != s2) N D ∧
      (N : ℝ) / D = ((m1 : ℝ) * (2 : ℝ) ^ e1) / ((m2 : ℝ) * (2 : ℝ) ^ e2) := by
  unfold FP.div
  have hm2 : ¬ (m2 = 0) := by omega
  have hm1 : ¬ (m1 = 0) := by omega
  simp only [hm2, hm1, if_false]
  have h2r : (0 : ℝ) < (m2 : ℝ) := by exact_mod_cast h2
  by_cases hd : e1 - e2 ≥ 0
  · rw [if_pos hd]
    refine ⟨m1 * pow2 (e1 - e2).toNat, m2, ?_, h2, rfl, ?_⟩
    · rw [pow2_eq]; positivity
    · rw [pow2_eq]; push_cast
      rw [← zpow_of_nonneg (e1 - e2) hd, zpow_sub₀ (by norm_num)]
      field_simp
  · rw [if_neg hd]
    refine ⟨m1, m2 * pow2 (-(e1 - e2)).toNat, h1, ?_, rfl, ?_⟩
    · rw [pow2_eq]; positivity
    · rw [pow2_eq]; push_cast
      have : (2 : ℝ) ^ (-(e1 - e2)).toNat = (2 : ℝ) ^ (e2 - e1) := by
        rw [← zpow_of_nonneg (-(e1 - e2)) (by omega)]; congr 1; ring
      rw [this, zpow_sub₀ (by norm_num)]
      field_simp

/-- exact sum of two dyadics -/
theorem dyAdd_val (s1 : Bool) (m1 : Nat) (e1 : Int) (s2 : Bool) (m2 : Nat) (e2 : Int) :
    fval (dyAdd s1 m1 e1 s2 m2 e2).1 (dyAdd s1 m1 e1 s2 m2 e2).2.1 (dyAdd s1 m1 e1 s2 m2 e2).2.2 = fval s1 m1 e1 + fval s2 m2 e2 := by
  unfold dyAdd
  simp only []
  set e := min e1 e2 with he
  have h1 : 0 ≤ e1 - e := by omega
  have h2 : 0 ≤ e2 - e := by omega
  set a : Int := (if s1 then -1 else 1) * ((m1 * pow2 (e1 - e).toNat : Nat) : Int) with ha
  set b : Int := (if s2 then -1 else 1) * ((m2 * pow2 (e2 - e).toNat : Nat) : Int) with hb
  -- value of the result
  have hres : fval (decide (a + b < 0)) (a + b).natAbs e = ((a + b : Int) : ℝ) * (2 : ℝ) ^ e := by
    unfold fval
    by_cases hc : a + b < 0
    · simp only [hc, decide_true, if_true]
      have : (((a + b).natAbs : ℕ) : ℝ) = -((a + b : Int) : ℝ) := by
        rw [← Int.cast_natCast, Int.ofNat_natAbs_of_nonpos (by omega)]; push_cast; ring
      rw [this]; ring
    · simp only [hc, decide_false, Bool.false_eq_true, if_false]
      have : (((a + b).natAbs : ℕ) : ℝ) = ((a + b : Int) : ℝ) := by
        rw [← Int.cast_natCast, Int.natAbs_of_nonneg (by omega)]
      rw [this]; ring
  rw [hres]
  have hva : ((a : Int) : ℝ) * (2 : ℝ) ^ e = fval s1 m1 e1 := by
    rw [ha]; unfold fval; push_cast; rw [pow2_eq]; push_cast
    rw [← zpow_of_nonneg (e1 - e) h1]
    have : (2 : ℝ) ^ (e1 - e) * (2 : ℝ) ^ e = (2 : ℝ) ^ e1 := by rw [← zpow_add₀ (by norm_num)]; congr 1; ring
    cases s1 <;> simp <;> nlinarith [this]
  have hvb : ((b : Int) : ℝ) * (2 : ℝ) ^ e = fval s2 m2 e2 := by
    rw [hb]; unfold fval; push_cast; rw [pow2_eq]; push_cast
    rw [← zpow_of_nonneg (e2 - e) h2]
    have : (2 : ℝ) ^ (e2 - e) * (2 : ℝ) ^ e = (2 : ℝ) ^ e2 := by rw [← zpow_add₀ (by norm_num)]; congr 1; ring
    cases s2 <;> simp <;> nlinarith [this]
  push_cast
  rw [add_mul, hva, hvb]

/-- comparison of two finite data is the comparison of their values -/
theorem cmp_fin (s1 : Bool) (m1 : Nat) (e1 : Int) (s2 : Bool) (m2 : Nat) (e2 : Int) :
    (FP.lt (.fin s1 m1 e1) (.fin s2 m2 e2) = true ↔ fval s1 m1 e1 < fval s2 m2 e2) ∧
    (FP.gt (.fin s1 m1 e1) (.fin s2 m2 e2) = true ↔ fval s2 m2 e2 < fval s1 m1 e1) := by
  have hv := dyAdd_val s1 m1 e1 (!s2) m2 e2
  have hneg : fval (!s2) m2 e2 = -fval s2 m2 e2 := by unfold fval; cases s2 <;> simp
  rw [hneg] at hv
  unfold FP.lt FP.gt FP.cmp
  simp only []
  generalize dyAdd s1 m1 e1 (!s2) m2 e2 = t at hv
  generalize fval s1 m1 e1 = A at hv ⊢
  generalize fval s2 m2 e2 = B at hv ⊢
  obtain ⟨s, m, e⟩ := t
  simp only [] at hv ⊢
  have hpow : (0 : ℝ) < (2 : ℝ) ^ e := by positivity
  unfold fval at hv
  by_cases hm : m = 0
  · subst hm
    simp only [if_true]
    have : A - B = 0 := by
      have : A + -B = 0 := by rw [← hv]; simp
      linarith
    constructor <;> constructor <;> intro h <;> first | (simp at h) | (exfalso; linarith)
  · have hmpos : (0 : ℝ) < (m : ℝ) := by exact_mod_cast (Nat.pos_of_ne_zero hm)
    have hprod : 0 < (m : ℝ) * (2 : ℝ) ^ e := by positivity
    simp only [hm, if_false]
    cases s
    · -- positive difference
      simp only [Bool.false_eq_true, if_false, one_mul] at hv ⊢
      have hpos : 0 < A + -B := by rw [← hv]; exact hprod
      constructor <;> constructor <;> intro h <;> first | linarith | (simp at h; done) | simp
    · simp only [if_true] at hv ⊢
      have hnegv : A + -B < 0 := by
        rw [← hv]; linarith
      constructor <;> constructor <;> intro h <;> first | linarith | (simp at h; done) | simp

/-- truncation of a finite datum whose magnitude is below 2^63 -/
theorem toI64_fin (s : Bool) (m : Nat) (e : Int) (hb : (m : ℝ) * (2 : ℝ) ^ e < 9223372036854775807) :
    ∃ mag : Nat, FP.toI64 (.fin s m e) = .ok (if s then -(mag : Int) else (mag : Int)) ∧
      (mag : ℝ) ≤ (m : ℝ) * (2 : ℝ) ^ e ∧ (m : ℝ) * (2 : ℝ) ^ e < (mag : ℝ) + 1 := by
  unfold FP.toI64
  simp only []
  set mag : Nat := if e ≥ 0 then m * pow2 e.toNat else m / pow2 (-e).toNat with hmag
  have hbounds : (mag : ℝ) ≤ (m : ℝ) * (2 : ℝ) ^ e ∧ (m : ℝ) * (2 : ℝ) ^ e < (mag : ℝ) + 1 := by
    rw [hmag]
    by_cases he : e ≥ 0
    · rw [if_pos he, pow2_eq, zpow_of_nonneg e he]; push_cast
      constructor <;> linarith
    · rw [if_neg he, pow2_eq, zpow_of_nonpos e (by omega)]
      have hpos : 0 < 2 ^ (-e).toNat := by positivity
      have hd := Nat.div_add_mod m (2 ^ (-e).toNat)
      have hm := Nat.mod_lt m hpos
      have hposr : (0 : ℝ) < (2 : ℝ) ^ (-e).toNat := by positivity
      constructor
      · rw [mul_one_div, le_div_iff₀ hposr]
        have : ((m / 2 ^ (-e).toNat * 2 ^ (-e).toNat : ℕ) : ℝ) ≤ (m : ℝ) := by
          exact_mod_cast Nat.div_mul_le_self m _
        push_cast at this; exact this
      · rw [mul_one_div, div_lt_iff₀ hposr]
        have : m < (m / 2 ^ (-e).toNat + 1) * 2 ^ (-e).toNat := by
          have := Nat.lt_div_mul_add (a := m) hpos
          rw [Nat.add_mul, Nat.one_mul]; exact this
        have : ((m : ℕ) : ℝ) < (((m / 2 ^ (-e).toNat + 1) * 2 ^ (-e).toNat : ℕ) : ℝ) := by exact_mod_cast this
        push_cast at this; exact this
  refine ⟨mag, ?_, hbounds.1, hbounds.2⟩
  have hmagb : (mag : ℝ) < 9223372036854775807 := lt_of_le_of_lt hbounds.1 hb
  have hmagn : mag < 9223372036854775807 := by exact_mod_cast hmagb
  have hr : i64min ≤ (if s then -(mag : Int) else (mag : Int)) ∧ (if s then -(mag : Int) else (mag : Int)) ≤ i64max := by
    unfold i64min i64max; cases s <;> simp <;> omega
  rw [if_pos hr]
  rfl

end FixedMath.R

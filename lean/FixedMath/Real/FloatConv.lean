/-
  The two conversions of math.h over the IEEE model: `floating_point_to_fixed` and `fixed_to_floating_point`.
-/
import FixedMath.Real.FloatOps
import FixedMath.Model.Conv
import FixedMath.Proofs.Basic

namespace FixedMath.R
open FixedMath Gen

/-- what the proofs need of a format (`float` and `double` both satisfy it) -/
structure GoodFmt (f : Fmt) : Prop where
  p17 : 17 ≤ f.p
  emin_le : f.emin ≤ -(f.p : ℤ) - 16
  emax_ge : 64 ≤ f.emax

theorem good_b32 : GoodFmt b32 := ⟨by decide, by decide, by decide⟩
theorem good_b64 : GoodFmt b64 := ⟨by decide, by decide, by decide⟩

/-- a datum of the format: `m < 2^p` at an exponent of the format -/
def InFmt (f : Fmt) : FP → Prop
  | .fin _ m e => m < 2 ^ f.p ∧ f.emin ≤ e ∧ e ≤ f.emax
  | _ => True

def sg (s : Bool) : ℝ := if s then -1 else 1

theorem fval_sg (s : Bool) (m : Nat) (e : Int) : fval s m e = sg s * ((m : ℝ) * (2 : ℝ) ^ e) := by
  unfold fval sg; ring

theorem sg_abs (s : Bool) : |sg s| = 1 := by unfold sg; cases s <;> simp

theorem sg_sq (s : Bool) : sg s * sg s = 1 := by unfold sg; cases s <;> simp

theorem fval_sign_inj (s' s : Bool) (m' : Nat) (e' : Int) (Z : ℝ) (hZ : 0 < Z)
    (h : fval s' m' e' = sg s * Z) : s' = s ∧ (m' : ℝ) * (2 : ℝ) ^ e' = Z ∧ 0 < m' := by
  rw [fval_sg] at h
  have hnn : (0 : ℝ) ≤ (m' : ℝ) * (2 : ℝ) ^ e' := by positivity
  unfold sg at h
  cases s' <;> cases s <;> simp at h
  · refine ⟨rfl, h, ?_⟩
    rcases Nat.eq_zero_or_pos m' with h0 | h0
    · subst h0; simp at h; linarith
    · exact h0
  · exfalso; linarith
  · exfalso; linarith
  · refine ⟨rfl, h, ?_⟩
    rcases Nat.eq_zero_or_pos m' with h0 | h0
    · subst h0; simp at h; linarith
    · exact h0

/-- integers below `2^p` convert exactly -/
theorem ofInt_exact (f : Fmt) (n : Int) (hne : n ≠ 0) (hn : n.natAbs < 2 ^ f.p) (h1 : f.emin ≤ 0) (h2 : 0 < f.emax) :
    ∃ (q : Nat) (E : ℤ), ofInt f n = .fin (decide (n < 0)) q E ∧ (q : ℝ) * (2 : ℝ) ^ E = (n.natAbs : ℝ) := by
  unfold ofInt
  have hpos : 0 < n.natAbs := by omega
  obtain ⟨q, E, h, hv⟩ := roundRat_exact f (decide (n < 0)) n.natAbs 1 n.natAbs 0 hpos (by norm_num) (by simp) hn h1 h2
  exact ⟨q, E, h, by rw [hv]; simp⟩

theorem add_fin_ne (f : Fmt) (s1 : Bool) (m1 : Nat) (e1 : Int) (s2 : Bool) (m2 : Nat) (e2 : Int)
    (h : (dyAdd s1 m1 e1 s2 m2 e2).2.1 ≠ 0) :
    FP.add f (.fin s1 m1 e1) (.fin s2 m2 e2) =
      roundDy f (dyAdd s1 m1 e1 s2 m2 e2).1 (dyAdd s1 m1 e1 s2 m2 e2).2.1 (dyAdd s1 m1 e1 s2 m2 e2).2.2 := by
  unfold FP.add
  simp only []
  rw [if_neg h]

theorem zpow_le_rep (M : ℕ) (K : ℤ) (hM : 0 < M) : (2 : ℝ) ^ K ≤ (M : ℝ) * (2 : ℝ) ^ K := by
  have : (1 : ℝ) ≤ (M : ℝ) := by exact_mod_cast hM
  have hp : (0 : ℝ) < (2 : ℝ) ^ K := by positivity
  nlinarith

theorem two_zpow_lt (a b : ℤ) (h : (2 : ℝ) ^ a < (2 : ℝ) ^ b) : a < b :=
  (zpow_lt_zpow_iff_right₀ (by norm_num : (1 : ℝ) < 2)).mp h

/-- `floating_point_to_fixed` on a non-zero finite datum of the format below the range limit -/
theorem fpToFixed_core (f : Fmt) (hf : GoodFmt f) (s : Bool) (m : Nat) (e : Int) (hm : 0 < m)
    (M : Nat) (K0 : ℤ) (hrep : (m : ℝ) * (2 : ℝ) ^ e = (M : ℝ) * (2 : ℝ) ^ K0) (hmp : M < 2 ^ f.p) (he : f.emin ≤ K0)
    (hx : (m : ℝ) * (2 : ℝ) ^ e < 2147483647) :
    ∃ (mag : Nat) (W : ℝ), fpToFixed f (.fin s m e) = .ok (if s then -(mag : Int) else (mag : Int)) ∧
      (mag : ℝ) ≤ W ∧ W < (mag : ℝ) + 1 ∧
      |W - ((m : ℝ) * (2 : ℝ) ^ e * 65536 + 1 / 2)| ≤ ((m : ℝ) * (2 : ℝ) ^ e * 65536 + 1 / 2) * (2 : ℝ) ^ (-(f.p : ℤ)) ∧
      (∀ (M2 : Nat) (K2 : ℤ), (m : ℝ) * (2 : ℝ) ^ e * 65536 + 1 / 2 = (M2 : ℝ) * (2 : ℝ) ^ K2 → M2 < 2 ^ f.p → f.emin ≤ K2 →
        W = (m : ℝ) * (2 : ℝ) ^ e * 65536 + 1 / 2) := by
  obtain ⟨p17, emin_le, emax_ge⟩ := hf
  have hpz : (17 : ℤ) ≤ (f.p : ℤ) := by exact_mod_cast p17
  set X : ℝ := (m : ℝ) * (2 : ℝ) ^ e with hX
  have hmr : (0 : ℝ) < (m : ℝ) := by exact_mod_cast hm
  have hXpos : 0 < X := by rw [hX]; positivity
  -- the two limits, as doubles
  obtain ⟨qh, Eh, hhi, hhv⟩ := ofInt_exact b64 lim_max_integral (by decide) (by decide) (by decide) (by decide)
  obtain ⟨ql, El, hlo, hlv⟩ := ofInt_exact b64 lim_min_integral (by decide) (by decide) (by decide) (by decide)
  have e1 : ((lim_max_integral.natAbs : ℕ) : ℝ) = 2147483647 := by
    have : lim_max_integral.natAbs = 2147483647 := by decide
    rw [this]; norm_num
  have e2 : ((lim_min_integral.natAbs : ℕ) : ℝ) = 2147483647 := by
    have : lim_min_integral.natAbs = 2147483647 := by decide
    rw [this]; norm_num
  rw [e1] at hhv; rw [e2] at hlv
  have d1 : decide (lim_max_integral < 0) = false := by decide
  have d2 : decide (lim_min_integral < 0) = true := by decide
  rw [d1] at hhi; rw [d2] at hlo
  have hvabs : |fval s m e| = X := fval_abs s m e
  have hlt : FP.lt (.fin s m e) (.fin false qh Eh) = true := by
    rw [(cmp_fin s m e false qh Eh).1]
    have : fval false qh Eh = 2147483647 := by unfold fval; simp; exact hhv
    rw [this]; have := le_abs_self (fval s m e); linarith
  have hgt : FP.gt (.fin s m e) (.fin true ql El) = true := by
    rw [(cmp_fin s m e true ql El).2]
    have : fval true ql El = -2147483647 := by unfold fval; simp; linarith
    rw [this]; have := neg_abs_le (fval s m e); linarith
  unfold fpToFixed
  rw [hhi, hlo, hlt, hgt]
  simp only [Bool.and_self, if_true]
  -- the scaling step is exact
  obtain ⟨q0, E0, h0, h0v⟩ := ofInt_exact f 65536 (by decide) (by
      have : (65536 : Int).natAbs = 2 ^ 16 := by decide
      rw [this]; exact Nat.pow_lt_pow_right (by norm_num) (by omega)) (by omega) (by omega)
  have e3 : (((65536 : Int).natAbs : ℕ) : ℝ) = 65536 := by
    have : (65536 : Int).natAbs = 65536 := by decide
    rw [this]; norm_num
  rw [e3] at h0v
  have d3 : decide ((65536 : Int) < 0) = false := by decide
  rw [d3] at h0
  have hq0 : 0 < q0 := by
    rcases Nat.eq_zero_or_pos q0 with h | h
    · subst h; simp at h0v
    · exact h
  rw [h0]
  have hmul : FP.mul f (.fin s m e) (.fin false q0 E0) = roundDy f s (m * q0) (e + E0) := by
    unfold FP.mul
    have : ¬ (m = 0 ∨ q0 = 0) := by omega
    simp only [this, if_false, Bool.bne_false]
  rw [hmul]
  obtain ⟨N1, D1, hN1, hD1, hr1, hq1⟩ := roundDy_rat f s (m * q0) (e + E0) (Nat.mul_pos hm hq0)
  have hY : (N1 : ℝ) / D1 = (m : ℝ) * (2 : ℝ) ^ (e + 16) := by
    rw [hq1, zpow_add₀ (by norm_num), zpow_add₀ (by norm_num)]
    push_cast
    have : ((2 : ℝ) ^ (16 : ℤ)) = 65536 := by norm_num
    rw [this]; nlinarith [h0v]
  have hMpos : 0 < M := by
    rcases Nat.eq_zero_or_pos M with h | h
    · subst h; simp at hrep; linarith
    · exact h
  have he31 : K0 < 31 := by
    have h1 : (2 : ℝ) ^ K0 ≤ X := by
      rw [hrep]; exact zpow_le_rep M K0 hMpos
    have : (2 : ℝ) ^ K0 < (2 : ℝ) ^ (31 : ℤ) := by
      have : ((2 : ℝ) ^ (31 : ℤ)) = 2147483648 := by norm_num
      rw [this]; linarith
    exact two_zpow_lt _ _ this
  have hY' : (N1 : ℝ) / D1 = (M : ℝ) * (2 : ℝ) ^ (K0 + 16) := by
    rw [hY, zpow_add₀ (by norm_num), ← mul_assoc, ← hX, hrep, zpow_add₀ (by norm_num)]; ring
  obtain ⟨q1, E1, hs1, hv1⟩ := roundRat_exact f s N1 D1 M (K0 + 16) hN1 hD1 hY' hmp (by omega) (by omega)
  rw [hr1, hs1]
  set Y : ℝ := X * 65536 with hYdef
  have hv1' : (q1 : ℝ) * (2 : ℝ) ^ E1 = Y := by
    rw [hv1, hYdef, hrep, zpow_add₀ (by norm_num)]
    have : ((2 : ℝ) ^ (16 : ℤ)) = 65536 := by norm_num
    rw [this]; ring
  have hYpos : 0 < Y := by rw [hYdef]; positivity
  have hYlt : Y < 140737488289792 := by rw [hYdef]; linarith
  -- the rounding constant has the sign of the argument
  have hhalf : (if FP.lt (.fin s m e) (.fin false 0 0) = true then FP.fin true 1 (-1) else FP.fin false 1 (-1)) = .fin s 1 (-1) := by
    have hz : fval false 0 0 = 0 := by unfold fval; simp
    have hiff := (cmp_fin s m e false 0 0).1
    rw [hz] at hiff
    cases s
    · have : ¬ (fval false m e < 0) := by rw [fval_sg]; unfold sg; simp; rw [← hX]; linarith
      have : ¬ (FP.lt (.fin false m e) (.fin false 0 0) = true) := fun h => this (hiff.mp h)
      rw [if_neg this]
    · have : fval true m e < 0 := by rw [fval_sg]; unfold sg; simp; rw [← hX]; linarith
      rw [if_pos (hiff.mpr this)]
  rw [hhalf]
  -- the sum
  have hsum := dyAdd_val s q1 E1 s 1 (-1)
  have hsumv : fval s q1 E1 + fval s 1 (-1) = sg s * (Y + 1 / 2) := by
    rw [fval_sg, fval_sg, hv1']
    have : ((1 : ℕ) : ℝ) * (2 : ℝ) ^ (-1 : ℤ) = 1 / 2 := by norm_num
    rw [this]; ring
  rw [hsumv] at hsum
  have hadd : FP.add f (.fin s q1 E1) (.fin s 1 (-1)) =
      roundDy f (dyAdd s q1 E1 s 1 (-1)).1 (dyAdd s q1 E1 s 1 (-1)).2.1 (dyAdd s q1 E1 s 1 (-1)).2.2 := by
    obtain ⟨_, _, hmpos⟩ := fval_sign_inj _ s _ _ (Y + 1 / 2) (by linarith) hsum
    exact add_fin_ne f s q1 E1 s 1 (-1) (by omega)
  rw [hadd]
  generalize dyAdd s q1 E1 s 1 (-1) = t at hsum
  obtain ⟨s', m', e'⟩ := t
  simp only [] at hsum ⊢
  obtain ⟨hs', hval', hm'pos⟩ := fval_sign_inj s' s m' e' (Y + 1 / 2) (by linarith) hsum
  subst hs'
  obtain ⟨N2, D2, hN2, hD2, hr2, hq2⟩ := roundDy_rat f s' m' e' hm'pos
  rw [hval'] at hq2
  rw [hr2]
  set Z : ℝ := Y + 1 / 2 with hZ
  obtain ⟨l1, l2⟩ := ratLog2_spec N2 D2 hN2 hD2
  rw [hq2] at l1 l2
  have hLhi : ratLog2 N2 D2 < 47 := by
    have : (2 : ℝ) ^ (ratLog2 N2 D2) < (2 : ℝ) ^ (47 : ℤ) := by
      have : ((2 : ℝ) ^ (47 : ℤ)) = 140737488355328 := by norm_num
      rw [this]; linarith
    exact two_zpow_lt _ _ this
  have hLlo : -2 < ratLog2 N2 D2 := by
    have : (2 : ℝ) ^ (-1 : ℤ) < (2 : ℝ) ^ (ratLog2 N2 D2 + 1) := by
      have : ((2 : ℝ) ^ (-1 : ℤ)) = 1 / 2 := by norm_num
      rw [this]; linarith
    have := two_zpow_lt _ _ this
    omega
  obtain ⟨hpe, hulp⟩ := pickExp_normal f N2 D2 hN2 hD2 (by omega)
  obtain ⟨qw, hw, herr, _⟩ := roundRat_err f s' N2 D2 hN2 hD2 (by rw [hpe]; omega)
  rw [hq2] at herr hulp
  rw [hw]
  set E := pickExp f (ratLog2 N2 D2) with hE
  set W : ℝ := (qw : ℝ) * (2 : ℝ) ^ E with hW
  have hdel : |W - Z| ≤ Z * (2 : ℝ) ^ (-(f.p : ℤ)) := le_trans herr hulp
  have hpsmall : (2 : ℝ) ^ (-(f.p : ℤ)) ≤ 1 / 131072 := by
    have : (2 : ℝ) ^ (-(f.p : ℤ)) ≤ (2 : ℝ) ^ (-17 : ℤ) :=
      zpow_le_zpow_right₀ (by norm_num) (by omega)
    have h17 : ((2 : ℝ) ^ (-17 : ℤ)) = 1 / 131072 := by norm_num
    rw [h17] at this; exact this
  have hppos : (0 : ℝ) < (2 : ℝ) ^ (-(f.p : ℤ)) := by positivity
  have hZpos : 0 < Z := by rw [hZ]; linarith
  obtain ⟨dl, du⟩ := abs_le.mp hdel
  have hZp : Z * (2 : ℝ) ^ (-(f.p : ℤ)) ≤ Z * (1 / 131072) := mul_le_mul_of_nonneg_left hpsmall hZpos.le
  have hWlt : W < 9223372036854775807 := by linarith
  obtain ⟨mag, hto, mg1, mg2⟩ := toI64_fin s' qw E hWlt
  refine ⟨mag, W, hto, mg1, mg2, hdel, ?_⟩
  intro M2 K2 hrep2 hM2 hK2
  have hK2hi : K2 < f.emax := by
    have hM2pos : 0 < M2 := by
      rcases Nat.eq_zero_or_pos M2 with h | h
      · subst h; simp at hrep2; linarith
      · exact h
    have h1 : (2 : ℝ) ^ K2 ≤ Z := by
      rw [hrep2]; exact zpow_le_rep M2 K2 hM2pos
    have : (2 : ℝ) ^ K2 < (2 : ℝ) ^ (47 : ℤ) := by
      have : ((2 : ℝ) ^ (47 : ℤ)) = 140737488355328 := by norm_num
      rw [this]; linarith
    have := two_zpow_lt _ _ this
    omega
  obtain ⟨qx, Ex, hxr, hxv⟩ := roundRat_exact f s' N2 D2 M2 K2 hN2 hD2 (by rw [hq2]; exact hrep2) hM2 hK2 hK2hi
  rw [hw] at hxr
  injection hxr with _ hq hE'
  have : W = (qx : ℝ) * (2 : ℝ) ^ Ex := by rw [hW, hq, hE']
  rw [this, hxv]; exact hrep2.symm

/-- the two range limits as doubles -/
theorem limits_b64 : ∃ (qh : Nat) (Eh : ℤ) (ql : Nat) (El : ℤ),
    ofInt b64 lim_max_integral = .fin false qh Eh ∧ (qh : ℝ) * (2 : ℝ) ^ Eh = 2147483647 ∧
    ofInt b64 lim_min_integral = .fin true ql El ∧ (ql : ℝ) * (2 : ℝ) ^ El = 2147483647 := by
  obtain ⟨qh, Eh, hhi, hhv⟩ := ofInt_exact b64 lim_max_integral (by decide) (by decide) (by decide) (by decide)
  obtain ⟨ql, El, hlo, hlv⟩ := ofInt_exact b64 lim_min_integral (by decide) (by decide) (by decide) (by decide)
  have e1 : ((lim_max_integral.natAbs : ℕ) : ℝ) = 2147483647 := by
    have : lim_max_integral.natAbs = 2147483647 := by decide
    rw [this]; norm_num
  have e2 : ((lim_min_integral.natAbs : ℕ) : ℝ) = 2147483647 := by
    have : lim_min_integral.natAbs = 2147483647 := by decide
    rw [this]; norm_num
  rw [e1] at hhv; rw [e2] at hlv
  have d1 : decide (lim_max_integral < 0) = false := by decide
  have d2 : decide (lim_min_integral < 0) = true := by decide
  rw [d1] at hhi; rw [d2] at hlo
  exact ⟨qh, Eh, ql, El, hhi, hhv, hlo, hlv⟩

/-- at or beyond the limit: NaN -/
theorem fpToFixed_large (f : Fmt) (s : Bool) (m : Nat) (e : Int) (hx : 2147483647 ≤ (m : ℝ) * (2 : ℝ) ^ e) :
    fpToFixed f (.fin s m e) = .ok NaNp := by
  obtain ⟨qh, Eh, ql, El, hhi, hhv, hlo, hlv⟩ := limits_b64
  unfold fpToFixed
  rw [hhi, hlo]
  have hcond : (FP.lt (.fin s m e) (.fin false qh Eh) && FP.gt (.fin s m e) (.fin true ql El)) = false := by
    cases s
    · have : ¬ (FP.lt (.fin false m e) (.fin false qh Eh) = true) := by
        rw [(cmp_fin false m e false qh Eh).1]
        unfold fval; simp; linarith
      simp [this]
    · have : ¬ (FP.gt (.fin true m e) (.fin true ql El) = true) := by
        rw [(cmp_fin true m e true ql El).2]
        unfold fval; simp; linarith
      simp [this]
  rw [hcond]; rfl

theorem fpToFixed_inf (f : Fmt) (s : Bool) : fpToFixed f (.inf s) = .ok NaNp := by
  obtain ⟨qh, Eh, ql, El, hhi, hhv, hlo, hlv⟩ := limits_b64
  unfold fpToFixed
  rw [hhi, hlo]
  cases s <;> rfl

theorem fpToFixed_nan (f : Fmt) : fpToFixed f .nan = .ok NaNp := by
  obtain ⟨qh, Eh, ql, El, hhi, hhv, hlo, hlv⟩ := limits_b64
  unfold fpToFixed
  rw [hhi, hlo]
  rfl

/-- both zeros convert to 0 -/
theorem fpToFixed_zero (f : Fmt) (hf : GoodFmt f) (s : Bool) (e : Int) : fpToFixed f (.fin s 0 e) = .ok 0 := by
  obtain ⟨p17, emin_le, emax_ge⟩ := hf
  have hpz : (17 : ℤ) ≤ (f.p : ℤ) := by exact_mod_cast p17
  obtain ⟨qh, Eh, ql, El, hhi, hhv, hlo, hlv⟩ := limits_b64
  have hz : fval s 0 e = 0 := by unfold fval; simp
  have hlt : FP.lt (.fin s 0 e) (.fin false qh Eh) = true := by
    rw [(cmp_fin s 0 e false qh Eh).1, hz]; unfold fval; simp; rw [hhv]; norm_num
  have hgt : FP.gt (.fin s 0 e) (.fin true ql El) = true := by
    rw [(cmp_fin s 0 e true ql El).2, hz]; unfold fval; simp; rw [hlv]; norm_num
  have hnl : FP.lt (.fin s 0 e) (.fin false 0 0) = false := by
    have : ¬ (FP.lt (.fin s 0 e) (.fin false 0 0) = true) := by
      rw [(cmp_fin s 0 e false 0 0).1, hz]; unfold fval; simp
    simpa using this
  obtain ⟨q0, E0, h0, _⟩ := ofInt_exact f 65536 (by decide) (by
      have : (65536 : Int).natAbs = 2 ^ 16 := by decide
      rw [this]; exact Nat.pow_lt_pow_right (by norm_num) (by omega)) (by omega) (by omega)
  unfold fpToFixed
  rw [hhi, hlo, hlt, hgt, h0, hnl]
  simp only [Bool.and_self, if_true, Bool.false_eq_true, if_false]
  have hmul : FP.mul f (.fin s 0 e) (.fin (decide ((65536 : Int) < 0)) q0 E0) = .fin (s != decide ((65536 : Int) < 0)) 0 0 := by
    unfold FP.mul; simp
  rw [hmul]
  generalize (s != decide ((65536 : Int) < 0)) = s0
  have hsum := dyAdd_val s0 0 0 false 1 (-1)
  have hsumv : fval s0 0 0 + fval false 1 (-1) = sg false * (1 / 2) := by
    unfold fval sg; simp
  rw [hsumv] at hsum
  obtain ⟨_, _, hmpos⟩ := fval_sign_inj _ false _ _ (1 / 2) (by norm_num) hsum
  rw [add_fin_ne f s0 0 0 false 1 (-1) (by omega)]
  generalize dyAdd s0 0 0 false 1 (-1) = t at hsum
  obtain ⟨s', m', e'⟩ := t
  simp only [] at hsum ⊢
  obtain ⟨hs', hval', hm'pos⟩ := fval_sign_inj s' false m' e' (1 / 2) (by norm_num) hsum
  subst hs'
  obtain ⟨N2, D2, hN2, hD2, hr2, hq2⟩ := roundDy_rat f false m' e' hm'pos
  rw [hval'] at hq2
  have hrep : (N2 : ℝ) / D2 = ((1 : ℕ) : ℝ) * (2 : ℝ) ^ (-1 : ℤ) := by rw [hq2]; norm_num
  obtain ⟨qx, Ex, hxr, hxv⟩ := roundRat_exact f false N2 D2 1 (-1) hN2 hD2 hrep
    (Nat.one_lt_two_pow (by omega)) (by omega) (by omega)
  rw [hr2, hxr]
  have hxv' : (qx : ℝ) * (2 : ℝ) ^ Ex = 1 / 2 := by rw [hxv]; norm_num
  obtain ⟨mag, hto, mg1, mg2⟩ := toI64_fin false qx Ex (by rw [hxv']; norm_num)
  rw [hto]
  rw [hxv'] at mg1
  have : mag = 0 := by
    have : (mag : ℝ) < 1 := by linarith
    have : mag < 1 := by exact_mod_cast this
    omega
  subst this
  rfl

/-- normal-range rounding: relative half-ulp error and a mantissa of at most `2^p` -/
theorem roundRat_norm (f : Fmt) (neg : Bool) (num den : Nat) (hn : 0 < num) (hd : 0 < den)
    (hnorm : f.emin ≤ ratLog2 num den - (f.p : ℤ) + 1) (hov : ratLog2 num den - (f.p : ℤ) + 1 < f.emax) :
    ∃ q : Nat, roundRat f neg num den = .fin neg q (ratLog2 num den - (f.p : ℤ) + 1) ∧
      |(q : ℝ) * (2 : ℝ) ^ (ratLog2 num den - (f.p : ℤ) + 1) - (num : ℝ) / den| ≤ (num : ℝ) / den * (2 : ℝ) ^ (-(f.p : ℤ)) ∧
      q ≤ 2 ^ f.p ∧
      (∀ K : ℕ, (num : ℝ) / den = (K : ℝ) * (2 : ℝ) ^ (ratLog2 num den - (f.p : ℤ) + 1) → q = K) := by
  obtain ⟨hpe, hulp⟩ := pickExp_normal f num den hn hd hnorm
  obtain ⟨q, hw, herr, hex⟩ := roundRat_err f neg num den hn hd (by rw [hpe]; exact hov)
  rw [hpe] at hw herr hulp hex
  refine ⟨q, hw, le_trans herr hulp, ?_, hex⟩
  obtain ⟨_, l2⟩ := ratLog2_spec num den hn hd
  set L := ratLog2 num den
  set E := L - (f.p : ℤ) + 1 with hE
  have hEpos : (0 : ℝ) < (2 : ℝ) ^ E := by positivity
  have hsplit : (2 : ℝ) ^ (L + 1) = (2 : ℝ) ^ E * (2 : ℝ) ^ (f.p : ℤ) := by
    rw [← zpow_add₀ (by norm_num)]; congr 1; rw [hE]; ring
  rw [hsplit, zpow_natCast] at l2
  obtain ⟨_, hu⟩ := abs_le.mp herr
  have : (q : ℝ) * (2 : ℝ) ^ E < (2 : ℝ) ^ E * ((2 : ℝ) ^ f.p + 1 / 2) := by linarith
  have : (q : ℝ) < (2 : ℝ) ^ f.p + 1 / 2 := by
    by_contra hc
    push Not at hc
    have := mul_le_mul_of_nonneg_left hc hEpos.le
    linarith
  have h2 : (q : ℝ) < ((2 ^ f.p + 1 : ℕ) : ℝ) := by push_cast; linarith
  have : q < 2 ^ f.p + 1 := by exact_mod_cast h2
  omega

theorem carry_rep (p : ℕ) (E1 : ℤ) :
    ((2 ^ p : ℕ) : ℝ) * (2 : ℝ) ^ E1 / 65536 = ((1 : ℕ) : ℝ) * (2 : ℝ) ^ (E1 + (p : ℤ) - 16) := by
  rw [zpow_sub₀ (by norm_num), zpow_add₀ (by norm_num), zpow_natCast]
  have : ((2 : ℝ) ^ (16 : ℤ)) = 65536 := by norm_num
  rw [this]; push_cast; ring

theorem shift_rep (q1 : ℕ) (E1 : ℤ) :
    (q1 : ℝ) * (2 : ℝ) ^ E1 / 65536 = (q1 : ℝ) * (2 : ℝ) ^ (E1 - 16) := by
  rw [zpow_sub₀ (by norm_num)]
  have : ((2 : ℝ) ^ (16 : ℤ)) = 65536 := by norm_num
  rw [this]; ring

/-- `fixed_to_floating_point`: the correctly rounded integer `RN(v)` divided exactly by 65536 -/
theorem fixedToFp_val (f : Fmt) (hf : GoodFmt f) (v : Int) (hv : v ≠ 0) (h1 : -9223372036854775808 ≤ v) (h2 : v ≤ 9223372036854775807) :
    ∃ (q : Nat) (E : ℤ) (R : ℝ), fixedToFp f v = .fin (decide (v < 0)) q E ∧
      (q : ℝ) * (2 : ℝ) ^ E = R / 65536 ∧ |R - (v.natAbs : ℝ)| ≤ (v.natAbs : ℝ) * (2 : ℝ) ^ (-(f.p : ℤ)) ∧
      (∀ (M : Nat) (K : ℕ), v.natAbs = M * 2 ^ K → M < 2 ^ f.p → R = (v.natAbs : ℝ)) ∧
      (∃ (q1 : Nat) (E1 : ℤ), ofInt f v = .fin (decide (v < 0)) q1 E1 ∧ (q1 : ℝ) * (2 : ℝ) ^ E1 = R) ∧
      (∃ (Mq : Nat) (Kq : ℤ), (q : ℝ) * (2 : ℝ) ^ E = (Mq : ℝ) * (2 : ℝ) ^ Kq ∧ Mq < 2 ^ f.p ∧ f.emin ≤ Kq) := by
  obtain ⟨p17, emin_le, emax_ge⟩ := hf
  have hpz : (17 : ℤ) ≤ (f.p : ℤ) := by exact_mod_cast p17
  have hnpos : 0 < v.natAbs := by omega
  have hnr : (1 : ℝ) ≤ (v.natAbs : ℝ) := by exact_mod_cast hnpos
  have hnlt : (v.natAbs : ℝ) < (2 : ℝ) ^ (64 : ℤ) := by
    have : v.natAbs < 18446744073709551616 := by omega
    have : ((v.natAbs : ℕ) : ℝ) < ((18446744073709551616 : ℕ) : ℝ) := by exact_mod_cast this
    have e : ((2 : ℝ) ^ (64 : ℤ)) = 18446744073709551616 := by norm_num
    rw [e]; push_cast at this; exact this
  obtain ⟨l1, l2⟩ := ratLog2_spec v.natAbs 1 hnpos (by norm_num)
  simp only [Nat.cast_one, div_one] at l1 l2
  have hL0 : -1 < ratLog2 v.natAbs 1 := by
    have : (2 : ℝ) ^ (0 : ℤ) < (2 : ℝ) ^ (ratLog2 v.natAbs 1 + 1) := by
      rw [zpow_zero]; linarith
    have := two_zpow_lt _ _ this; omega
  have hL1 : ratLog2 v.natAbs 1 < 64 := two_zpow_lt _ _ (lt_of_le_of_lt l1 hnlt)
  obtain ⟨q1, hw, herr, hq1, hex⟩ := roundRat_norm f (decide (v < 0)) v.natAbs 1 hnpos (by norm_num) (by omega) (by omega)
  simp only [Nat.cast_one, div_one] at herr hex
  set E1 := ratLog2 v.natAbs 1 - (f.p : ℤ) + 1 with hE1
  have hq1pos : 0 < q1 := by
    rcases Nat.eq_zero_or_pos q1 with h | h
    · subst h
      simp only [Nat.cast_zero, zero_mul, zero_sub, abs_neg] at herr
      rw [abs_of_nonneg (by linarith)] at herr
      have : (2 : ℝ) ^ (-(f.p : ℤ)) ≤ (2 : ℝ) ^ (-17 : ℤ) := zpow_le_zpow_right₀ (by norm_num) (by omega)
      have h17 : ((2 : ℝ) ^ (-17 : ℤ)) = 1 / 131072 := by norm_num
      rw [h17] at this
      have := mul_le_mul_of_nonneg_left this (by linarith : (0 : ℝ) ≤ (v.natAbs : ℝ))
      linarith
    · exact h
  -- 65536
  obtain ⟨q0, E0, h0, h0v⟩ := ofInt_exact f 65536 (by decide) (by
      have : (65536 : Int).natAbs = 2 ^ 16 := by decide
      rw [this]; exact Nat.pow_lt_pow_right (by norm_num) (by omega)) (by omega) (by omega)
  have e3 : (((65536 : Int).natAbs : ℕ) : ℝ) = 65536 := by
    have : (65536 : Int).natAbs = 65536 := by decide
    rw [this]; norm_num
  rw [e3] at h0v
  have d3 : decide ((65536 : Int) < 0) = false := by decide
  rw [d3] at h0
  have hq0 : 0 < q0 := by
    rcases Nat.eq_zero_or_pos q0 with h | h
    · subst h; simp at h0v
    · exact h
  have hofi : ofInt f v = .fin (decide (v < 0)) q1 E1 := hw
  obtain ⟨N, D, hN, hD, hdiv, hquot⟩ := div_rat f (decide (v < 0)) q1 E1 false q0 E0 hq1pos hq0
  rw [h0v] at hquot
  -- representability of the quotient
  obtain ⟨Mq, Kq, hMq, hMlt, hKlo, hKhi⟩ : ∃ (Mq : Nat) (Kq : ℤ), (q1 : ℝ) * (2 : ℝ) ^ E1 / 65536 = (Mq : ℝ) * (2 : ℝ) ^ Kq ∧
      Mq < 2 ^ f.p ∧ f.emin ≤ Kq ∧ Kq < f.emax := by
    rcases Nat.lt_or_ge q1 (2 ^ f.p) with hlt | hge
    · exact ⟨q1, E1 - 16, shift_rep q1 E1, hlt, by omega, by omega⟩
    · have : q1 = 2 ^ f.p := by omega
      refine ⟨1, E1 + (f.p : ℤ) - 16, ?_, Nat.one_lt_two_pow (by omega), by omega, by omega⟩
      rw [this]; exact carry_rep f.p E1
  obtain ⟨q, E, hres, hresv⟩ := roundRat_exact f (decide (v < 0) != false) N D Mq Kq hN hD (by rw [hquot]; exact hMq) hMlt hKlo hKhi
  refine ⟨q, E, (q1 : ℝ) * (2 : ℝ) ^ E1, ?_, ?_, herr, ?_, ⟨q1, E1, hofi, rfl⟩, ⟨Mq, Kq, hresv, hMlt, hKlo⟩⟩
  · unfold fixedToFp
    rw [hofi, h0, hdiv, hres]; simp
  · rw [hresv, hMq]
  · intro M K hMK hM
    -- |v| = M·2^K is representable, hence RN(v) = v
    obtain ⟨qx, Ex, hxr, hxv⟩ := roundRat_exact f (decide (v < 0)) v.natAbs 1 M K hnpos (by norm_num)
      (by rw [hMK]; push_cast; rw [zpow_natCast]; ring) hM (by omega) (by
        have hMpos : 0 < M := by
          rcases Nat.eq_zero_or_pos M with h | h
          · subst h; omega
          · exact h
        have h1 : (2 : ℝ) ^ (K : ℤ) ≤ (v.natAbs : ℝ) := by
          rw [hMK]; push_cast; rw [zpow_natCast]
          have := zpow_le_rep M K hMpos
          rw [zpow_natCast] at this; exact this
        have := two_zpow_lt _ _ (lt_of_le_of_lt h1 hnlt)
        omega)
    rw [hw] at hxr
    injection hxr with _ hq hE'
    rw [hq, hE', hxv, hMK]; push_cast; rw [zpow_natCast]

theorem fixedToFp_zero (f : Fmt) (hf : GoodFmt f) : fixedToFp f 0 = .fin false 0 0 := by
  obtain ⟨p17, emin_le, emax_ge⟩ := hf
  obtain ⟨q0, E0, h0, h0v⟩ := ofInt_exact f 65536 (by decide) (by
      have : (65536 : Int).natAbs = 2 ^ 16 := by decide
      rw [this]; exact Nat.pow_lt_pow_right (by norm_num) (by omega)) (by omega) (by omega)
  have hq0 : q0 ≠ 0 := by
    intro h; subst h
    have : (((65536 : Int).natAbs : ℕ) : ℝ) = 65536 := by
      have : (65536 : Int).natAbs = 65536 := by decide
      rw [this]; norm_num
    rw [this] at h0v; simp at h0v
  unfold fixedToFp
  rw [h0]
  have : ofInt f 0 = .fin false 0 0 := by unfold ofInt roundRat; simp
  rw [this]
  unfold FP.div
  simp [hq0]

/-- the rounding of a quotient does not change when numerator and denominator are multiplied by the same factor -/
theorem rnd_mul (a b m : Nat) (hm : 0 < m) (hb : 0 < b) : rnd (a * m) (b * m) = rnd a b := by
  unfold rnd
  rw [Nat.mul_div_mul_right a b hm, Nat.mul_mod_mul_right]
  have hc : compare (2 * (a % b * m)) (b * m) = compare (2 * (a % b)) b := by
    rcases Nat.lt_trichotomy (2 * (a % b)) b with h | h | h
    · rw [Nat.compare_eq_lt.mpr h, Nat.compare_eq_lt]
      have := Nat.mul_lt_mul_of_pos_right h hm
      nlinarith
    · rw [Nat.compare_eq_eq.mpr h, Nat.compare_eq_eq]
      have : 2 * (a % b * m) = (2 * (a % b)) * m := by ring
      rw [this, h]
    · rw [Nat.compare_eq_gt.mpr h, Nat.compare_eq_gt]
      have := Nat.mul_lt_mul_of_pos_right h hm
      nlinarith
  rw [hc]

theorem ratLog2_unique (num den : Nat) (hn : 0 < num) (hd : 0 < den) (L : ℤ)
    (h1 : (2 : ℝ) ^ L ≤ (num : ℝ) / den) (h2 : (num : ℝ) / den < (2 : ℝ) ^ (L + 1)) : ratLog2 num den = L := by
  obtain ⟨s1, s2⟩ := ratLog2_spec num den hn hd
  have a := two_zpow_lt _ _ (lt_of_le_of_lt h1 s2)
  have b := two_zpow_lt _ _ (lt_of_le_of_lt s1 h2)
  omega

/-- scaling the denominator by `2^k` shifts the exponent and keeps the mantissa (normal range, no overflow) -/
theorem roundRat_scale (f : Fmt) (neg : Bool) (num den k : Nat) (hn : 0 < num) (hd : 0 < den)
    (hnorm : f.emin ≤ ratLog2 num den - (k : ℤ) - (f.p : ℤ) + 1) (hov : ratLog2 num den - (f.p : ℤ) + 1 < f.emax) :
    ∃ q : Nat, roundRat f neg num den = .fin neg q (ratLog2 num den - (f.p : ℤ) + 1) ∧
      roundRat f neg num (den * 2 ^ k) = .fin neg q (ratLog2 num den - (f.p : ℤ) + 1 - (k : ℤ)) := by
  set L := ratLog2 num den with hL
  have hd' : 0 < den * 2 ^ k := by positivity
  obtain ⟨s1, s2⟩ := ratLog2_spec num den hn hd
  have hdr : (0 : ℝ) < (den : ℝ) := by exact_mod_cast hd
  have hL' : ratLog2 num (den * 2 ^ k) = L - (k : ℤ) := by
    apply ratLog2_unique num (den * 2 ^ k) hn hd'
    · push_cast
      rw [zpow_sub₀ (by norm_num), zpow_natCast, ← div_div]
      exact div_le_div_of_nonneg_right s1 (by positivity)
    · push_cast
      rw [show L - (k : ℤ) + 1 = L + 1 - (k : ℤ) by ring, zpow_sub₀ (by norm_num), zpow_natCast, ← div_div]
      exact div_lt_div_of_pos_right s2 (by positivity)
  have hpe : pickExp f L = L - (f.p : ℤ) + 1 := by unfold pickExp; exact max_eq_left (by omega)
  have hpe' : pickExp f (L - (k : ℤ)) = L - (k : ℤ) - (f.p : ℤ) + 1 := by unfold pickExp; exact max_eq_left (by omega)
  have r1 := roundRat_fin f neg num den hn (by rw [← hL, hpe]; exact hov)
  have r2 := roundRat_fin f neg num (den * 2 ^ k) hn (by rw [hL', hpe']; omega)
  rw [← hL, hpe] at r1
  rw [hL', hpe'] at r2
  refine ⟨_, r1, ?_⟩
  rw [r2, show L - (k : ℤ) - (f.p : ℤ) + 1 = L - (f.p : ℤ) + 1 - (k : ℤ) by ring]
  congr 1
  -- the two scaled pairs differ by a common power of two
  set E := L - (f.p : ℤ) + 1 with hE
  unfold scN scD
  by_cases c1 : E - (k : ℤ) ≥ 0
  · have c0 : E ≥ 0 := by omega
    rw [if_pos c1, if_pos c1, if_pos c0, if_pos c0, pow2_eq, pow2_eq]
    have : den * 2 ^ k * 2 ^ (E - (k : ℤ)).toNat = den * 2 ^ E.toNat := by
      rw [mul_assoc, ← pow_add]; congr 2; omega
    rw [this]
  · rw [if_neg c1, if_neg c1]
    by_cases c0 : E ≥ 0
    · rw [if_pos c0, if_pos c0, pow2_eq, pow2_eq]
      have e1 : den * 2 ^ k = (den * 2 ^ E.toNat) * 2 ^ (-(E - (k : ℤ))).toNat := by
        rw [mul_assoc, ← pow_add]; congr 2; omega
      rw [e1]
      exact rnd_mul _ _ _ (by positivity) (by positivity)
    · rw [if_neg c0, if_neg c0, pow2_eq, pow2_eq]
      have e1 : num * 2 ^ (-(E - (k : ℤ))).toNat = (num * 2 ^ (-E).toNat) * 2 ^ k := by
        rw [mul_assoc, ← pow_add]; congr 2; omega
      rw [e1]
      exact rnd_mul _ _ _ (by positivity) hd


end FixedMath.R

/-
  Soundness of the C12 checkers: one-sided comparisons of sin at dyadic points, and the existence of the
  nearby argument x' of the property's accuracy clause.
-/
import FixedMath.Real.TanSound
import FixedMath.Real.Reduce
import FixedMath.Check.Asin

namespace FixedMath.R
open FixedMath.Chk FixedMath Real

theorem slack35_dominates (n : ℕ) : (n : ℝ) / 34359738368 ≤ ((n / 34359738368 + 1 : ℕ) : ℝ) := by
  have h2 : n < (n / 34359738368 + 1) * 34359738368 := by
    have := Nat.div_add_mod n 34359738368
    have := Nat.mod_lt n (show 34359738368 > 0 by norm_num)
    omega
  have : (n : ℝ) < ((n / 34359738368 + 1 : ℕ) : ℝ) * 34359738368 := by exact_mod_cast h2
  rw [div_le_iff₀ (by norm_num)]; linarith

theorem sinLeQ_sound (K T num den : Nat) (h : sinLeQ K T num den = true) (hden : 0 < den) :
    Real.sin ((T : ℝ) / 2 ^ K) ≤ (num : ℝ) / den := by
  unfold sinLeQ at h
  simp only [Bool.and_eq_true, Nat.ble_eq] at h
  obtain ⟨hT, hc⟩ := h
  have hx : (T : ℝ) / 2 ^ K ≤ 8 / 5 := by
    have : ((5 * T : ℕ) : ℝ) ≤ ((8 * 2 ^ K : ℕ) : ℝ) := by exact_mod_cast hT
    push_cast at this
    rw [div_le_div_iff₀ (by positivity) (by norm_num)]; linarith
  have henc := sin_scaled_encl K T hx
  rw [abs_le] at henc
  have hsl := slack35_dominates (sinScale K)
  have hσ : (0 : ℝ) < (sinScale K : ℝ) := by unfold sinScale; positivity
  have hd : (0 : ℝ) < den := by exact_mod_cast hden
  have hcr := (Nat.cast_le (α := ℝ)).mpr hc
  push_cast at hcr
  rw [le_div_iff₀ hd]
  push_cast at hsl
  have h1 : (sinScale K : ℝ) * Real.sin ((T : ℝ) / 2 ^ K) ≤ (sinPos K T : ℝ) - sinNeg K T + ((sinScale K / 34359738368 : ℕ) + 1) := by
    linarith [henc.2]
  have h2 := mul_le_mul_of_nonneg_right h1 (le_of_lt hd)
  have : (sinScale K : ℝ) * (Real.sin ((T : ℝ) / 2 ^ K) * den) ≤ (sinScale K : ℝ) * num := by
    nlinarith
  exact le_of_mul_le_mul_left this hσ

theorem sinGeQ_sound (K T num den : Nat) (h : sinGeQ K T num den = true) (hden : 0 < den) :
    (num : ℝ) / den ≤ Real.sin ((T : ℝ) / 2 ^ K) := by
  unfold sinGeQ at h
  simp only [Bool.and_eq_true, Nat.ble_eq] at h
  obtain ⟨hT, hc⟩ := h
  have hx : (T : ℝ) / 2 ^ K ≤ 8 / 5 := by
    have : ((5 * T : ℕ) : ℝ) ≤ ((8 * 2 ^ K : ℕ) : ℝ) := by exact_mod_cast hT
    push_cast at this
    rw [div_le_div_iff₀ (by positivity) (by norm_num)]; linarith
  have henc := sin_scaled_encl K T hx
  rw [abs_le] at henc
  have hsl := slack35_dominates (sinScale K)
  have hσ : (0 : ℝ) < (sinScale K : ℝ) := by unfold sinScale; positivity
  have hd : (0 : ℝ) < den := by exact_mod_cast hden
  have hcr := (Nat.cast_le (α := ℝ)).mpr hc
  push_cast at hcr
  rw [div_le_iff₀ hd]
  push_cast at hsl
  have h1 : (sinPos K T : ℝ) - sinNeg K T - ((sinScale K / 34359738368 : ℕ) + 1) ≤ (sinScale K : ℝ) * Real.sin ((T : ℝ) / 2 ^ K) := by
    linarith [henc.1]
  have h2 := mul_le_mul_of_nonneg_right h1 (le_of_lt hd)
  have : (sinScale K : ℝ) * num ≤ (sinScale K : ℝ) * (Real.sin ((T : ℝ) / 2 ^ K) * den) := by
    nlinarith
  exact le_of_mul_le_mul_left this hσ

/-- existence of the nearby argument: `a` is the computed angle, `[lo, hi] ⊆ [-1, 1]` the admissible arguments -/
theorem asin_witness (x a u lo hi η : ℝ) (hu : 0 < u) (hη0 : 0 ≤ η) (hη : η ≤ 4 * u) (hu1 : 4 * u ≤ 1)
    (ha0 : 0 ≤ a) (ha1 : a ≤ π / 2 + η)
    (hlo1 : -1 ≤ lo) (hlox : x - 2 * u ≤ lo) (hlo2 : lo ≤ x) (hhi1 : hi ≤ 1) (hhix : hi ≤ x + 2 * u) (hhi2 : x ≤ hi)
    (c1 : Real.sin (a - 4 * u) ≤ hi) (c2 : a + 4 * u ≤ π / 2 → lo ≤ Real.sin (a + 4 * u)) :
    ∃ x' : ℝ, |x'| ≤ 1 ∧ |x' - x| ≤ 2 * u ∧ |a - Real.arcsin x'| ≤ 4 * u := by
  have hpi := Real.pi_gt_three
  set a0 : ℝ := min a (π / 2) with ha0d
  have ha00 : 0 ≤ a0 := le_min ha0 (by linarith)
  have ha0le : a0 ≤ π / 2 := min_le_right _ _
  have ha0a : a0 ≤ a := min_le_left _ _
  have hgap : a - a0 ≤ η := by
    rcases le_total a (π / 2) with h | h
    · rw [ha0d, min_eq_left h]; linarith
    · rw [ha0d, min_eq_right h]; linarith
  set s : ℝ := Real.sin a0 with hsd
  have hs0 : 0 ≤ s := Real.sin_nonneg_of_nonneg_of_le_pi ha00 (by linarith)
  have hs1 : s ≤ 1 := Real.sin_le_one _
  have hasin : Real.arcsin s = a0 := Real.arcsin_sin (by linarith) ha0le
  by_cases h1 : s ≤ hi
  · by_cases h2 : lo ≤ s
    · -- x' = s
      refine ⟨s, by rw [abs_le]; constructor <;> linarith, ?_, ?_⟩
      · rw [abs_le]; constructor <;> linarith
      · rw [hasin, abs_le]; constructor <;> linarith
    · -- s < lo : x' = lo
      push Not at h2
      refine ⟨lo, by rw [abs_le]; constructor <;> linarith, by rw [abs_le]; constructor <;> linarith, ?_⟩
      have hmono : a0 ≤ Real.arcsin lo := by
        rw [← hasin]; exact Real.arcsin_le_arcsin (le_of_lt h2)
      have hup : Real.arcsin lo ≤ a + 4 * u := by
        by_cases hc : a + 4 * u ≤ π / 2
        · have := c2 hc
          have h3 := Real.arcsin_le_arcsin this
          rw [Real.arcsin_sin (by linarith) hc] at h3
          exact h3
        · push Not at hc
          have := Real.arcsin_le_pi_div_two lo
          linarith
      rw [abs_le]; constructor <;> linarith
  · -- s > hi : x' = hi
    push Not at h1
    refine ⟨hi, by rw [abs_le]; constructor <;> linarith, by rw [abs_le]; constructor <;> linarith, ?_⟩
    have hmono : Real.arcsin hi ≤ a0 := by
      rw [← hasin]; exact Real.arcsin_le_arcsin (le_of_lt h1)
    have hlow : a - 4 * u ≤ Real.arcsin hi := by
      have h3 := Real.arcsin_le_arcsin c1
      rw [Real.arcsin_sin (by linarith) (by linarith)] at h3
      exact h3
    rw [abs_le]; constructor <;> linarith

/-- from the Nat check to the property's accuracy clause, for n ∈ [0, 65536] -/
theorem accAsin_sound (n : Nat) (A : Int) (hn : n ≤ 65536) (h : accAsin n A = true) :
    0 ≤ A ∧ A ≤ 102944 ∧
    ∃ x' : ℝ, |x'| ≤ 1 ∧ |x' - (n : ℝ) / 65536| ≤ 2 / 65536 ∧ |(A : ℝ) / 65536 - Real.arcsin x'| ≤ 4 / 65536 := by
  unfold accAsin at h
  simp only [Bool.and_eq_true, decide_eq_true_eq] at h
  obtain ⟨⟨⟨hA0, hA1⟩, hc1⟩, hc2⟩ := h
  refine ⟨hA0, hA1, ?_⟩
  have hAn : ((A.natAbs : ℕ) : ℝ) = (A : ℝ) := by rw [← Int.cast_natCast, Int.natAbs_of_nonneg hA0]
  have hAr0 : (0 : ℝ) ≤ (A : ℝ) := by exact_mod_cast hA0
  have hAr1 : (A : ℝ) ≤ 102944 := by exact_mod_cast hA1
  have hnr : (n : ℝ) ≤ 65536 := by exact_mod_cast hn
  have hd1 := delta1_bounds
  have h216 : (2 : ℝ) ^ 16 = 65536 := by norm_num
  -- c1 : sin((A-4)/65536) ≤ hi
  have s1 := sinLeQ_sound 16 (A.natAbs - 4) (min 65536 (n + 2)) 65536 hc1 (by norm_num)
  rw [h216] at s1
  have hhi_eq : ((min 65536 (n + 2) : ℕ) : ℝ) / ((65536 : ℕ) : ℝ) = min 1 (((n : ℝ) + 2) / 65536) := by
    rcases Nat.le_total 65536 (n + 2) with hle | hle
    · rw [Nat.min_eq_left hle]
      have : (1 : ℝ) ≤ ((n : ℝ) + 2) / 65536 := by
        rw [le_div_iff₀ (by norm_num)]; have : ((65536 : ℕ) : ℝ) ≤ ((n + 2 : ℕ) : ℝ) := by exact_mod_cast hle
        push_cast at this; linarith
      rw [min_eq_left this]; norm_num
    · rw [Nat.min_eq_right hle]
      have : ((n : ℝ) + 2) / 65536 ≤ 1 := by
        rw [div_le_iff₀ (by norm_num)]; have : ((n + 2 : ℕ) : ℝ) ≤ ((65536 : ℕ) : ℝ) := by exact_mod_cast hle
        push_cast at this; linarith
      rw [min_eq_right this]; push_cast; ring
  rw [hhi_eq] at s1
  -- the angle a - 4u versus the clipped (A-4)/65536
  have c1 : Real.sin ((A : ℝ) / 65536 - 4 * (1 / 65536)) ≤ min 1 (((n : ℝ) + 2) / 65536) := by
    by_cases h4 : 4 ≤ A.natAbs
    · have : ((A.natAbs - 4 : ℕ) : ℝ) = (A : ℝ) - 4 := by rw [Nat.cast_sub h4, hAn]; norm_num
      rw [this] at s1
      have e : (A : ℝ) / 65536 - 4 * (1 / 65536) = ((A : ℝ) - 4) / 65536 := by ring
      rw [e]; exact s1
    · have hneg : (A : ℝ) / 65536 - 4 * (1 / 65536) ≤ 0 := by
        have : (A : ℝ) < 4 := by
          have : A.natAbs < 4 := by omega
          have h' : ((A.natAbs : ℕ) : ℝ) < 4 := by exact_mod_cast this
          rw [hAn] at h'; exact h'
        have e : (A : ℝ) / 65536 - 4 * (1 / 65536) = ((A : ℝ) - 4) / 65536 := by ring
        rw [e]; apply div_nonpos_of_nonpos_of_nonneg <;> linarith
      have hsin : Real.sin ((A : ℝ) / 65536 - 4 * (1 / 65536)) ≤ 0 :=
        Real.sin_nonpos_of_nonpos_of_neg_pi_le hneg (by
          have := Real.pi_gt_three
          have : (0 : ℝ) ≤ (A : ℝ) / 65536 := by positivity
          linarith)
      have : (0 : ℝ) ≤ min 1 (((n : ℝ) + 2) / 65536) := le_min (by norm_num) (by positivity)
      linarith
  -- c2
  have c2 : (A : ℝ) / 65536 + 4 * (1 / 65536) ≤ π / 2 → max (-1) (((n : ℝ) - 2) / 65536) ≤ Real.sin ((A : ℝ) / 65536 + 4 * (1 / 65536)) := by
    intro hle
    have hA4 : A.natAbs + 4 ≤ 102943 := by
      by_contra hcon
      have : (102944 : ℝ) ≤ (A : ℝ) + 4 := by
        have : 102944 ≤ A.natAbs + 4 := by omega
        have h' : ((102944 : ℕ) : ℝ) ≤ ((A.natAbs + 4 : ℕ) : ℝ) := by exact_mod_cast this
        push_cast at h'; rw [hAn] at h'; exact h'
      have e : (A : ℝ) / 65536 + 4 * (1 / 65536) = ((A : ℝ) + 4) / 65536 := by ring
      rw [e] at hle
      have : (102944 : ℝ) / 65536 ≤ ((A : ℝ) + 4) / 65536 := by gcongr
      linarith [hd1.1]
    rw [if_pos hA4] at hc2
    have s2 := sinGeQ_sound 16 (A.natAbs + 4) (n - 2) 65536 hc2 (by norm_num)
    rw [h216] at s2
    have e : ((A.natAbs + 4 : ℕ) : ℝ) / 65536 = (A : ℝ) / 65536 + 4 * (1 / 65536) := by
      push_cast; rw [hAn]; ring
    rw [e] at s2
    have hs0 : (0 : ℝ) ≤ Real.sin ((A : ℝ) / 65536 + 4 * (1 / 65536)) := by
      apply Real.sin_nonneg_of_nonneg_of_le_pi
      · positivity
      · have := Real.pi_gt_three; linarith
    apply max_le
    · linarith
    · by_cases h2 : 2 ≤ n
      · have : ((n - 2 : ℕ) : ℝ) = (n : ℝ) - 2 := by rw [Nat.cast_sub h2]; norm_num
        rw [this] at s2
        have e2 : (((n : ℝ) - 2) / ((65536 : ℕ) : ℝ)) = ((n : ℝ) - 2) / 65536 := by norm_num
        rw [e2] at s2; exact s2
      · have : ((n : ℝ) - 2) / 65536 ≤ 0 := by
          have : (n : ℝ) < 2 := by exact_mod_cast (by omega : n < 2)
          apply div_nonpos_of_nonpos_of_nonneg <;> linarith
        linarith
  have hw := asin_witness ((n : ℝ) / 65536) ((A : ℝ) / 65536) (1 / 65536) (max (-1) (((n : ℝ) - 2) / 65536))
    (min 1 (((n : ℝ) + 2) / 65536)) (102944 / 65536 - π / 2)
    (by norm_num) (le_of_lt hd1.1) (by have := hd1.2; norm_num at this ⊢; linarith) (by norm_num)
    (by positivity)
    (by have : (A : ℝ) / 65536 ≤ 102944 / 65536 := by gcongr
        linarith)
    (le_max_left _ _)
    (by have : (n : ℝ) / 65536 - 2 * (1 / 65536) = ((n : ℝ) - 2) / 65536 := by ring
        rw [this]; exact le_max_right _ _)
    (by apply max_le
        · have : (0 : ℝ) ≤ (n : ℝ) / 65536 := by positivity
          linarith
        · have : ((n : ℝ) - 2) / 65536 ≤ (n : ℝ) / 65536 := by gcongr; linarith
          exact this)
    (min_le_left _ _)
    (by have : (n : ℝ) / 65536 + 2 * (1 / 65536) = ((n : ℝ) + 2) / 65536 := by ring
        rw [this]; exact min_le_right _ _)
    (by apply le_min
        · rw [div_le_one (by norm_num)]; exact hnr
        · gcongr; linarith)
    c1 c2
  obtain ⟨x', h1, h2, h3⟩ := hw
  exact ⟨x', h1, by have : (2 : ℝ) * (1 / 65536) = 2 / 65536 := by ring
                    rw [this] at h2; exact h2,
         by have : (4 : ℝ) * (1 / 65536) = 4 / 65536 := by ring
            rw [this] at h3; exact h3⟩

end FixedMath.R

/-
  C++ abstract-machine primitives used by the model of arturbac/fixed_math.

  Values are unbounded `Int`s; every operation that the C++ standard leaves
  undefined returns `Except.error` with the kind of undefined behaviour, so
  "the call has no UB" is the proposition `∃ r, f x = .ok r`.

  Implementation-defined points (GCC/Clang, x86-64/aarch64 LP64; C++20 makes most
  of them mandatory): two's-complement modular integral conversions, arithmetic
  right shift of negative values, `long` = `long long` = 64 bit.
  No Mathlib import: this file is linked into the native driver.
-/
namespace FixedMath

inductive UB where
  | signedOverflow | shiftCount | shiftNegative | shiftOverflow
  | divByZero | divOverflow | floatToInt | indexOOB | fuel
  deriving DecidableEq, Repr, Inhabited

def UB.name : UB → String
  | .signedOverflow => "signed-overflow" | .shiftCount => "shift-count"
  | .shiftNegative => "shift-negative" | .shiftOverflow => "shift-overflow"
  | .divByZero => "div-by-zero" | .divOverflow => "div-overflow"
  | .floatToInt => "float-to-int" | .indexOOB => "index-oob" | .fuel => "fuel"

abbrev M := Except UB

@[inline] def i64min : Int := -9223372036854775808
@[inline] def i64max : Int :=  9223372036854775807
@[inline] def two64  : Int := 18446744073709551616
@[inline] def two63  : Int :=  9223372036854775808

/-- result of a signed 64-bit arithmetic operation: UB when the exact value is not representable -/
@[inline] def chk64 (x : Int) : M Int :=
  if i64min ≤ x ∧ x ≤ i64max then pure x else throw .signedOverflow

@[inline] def i32min : Int := -2147483648
@[inline] def i32max : Int :=  2147483647
/-- the same for `int` (32 bit) -/
@[inline] def chk32 (x : Int) : M Int :=
  if i32min ≤ x ∧ x ≤ i32max then pure x else throw .signedOverflow

/-- conversion to `uint64_t` (modular) -/
@[inline] def toU64 (x : Int) : Int := x % two64
/-- conversion `uint64_t → int64_t` / any integer to `int64_t` (modular, two's complement) -/
@[inline] def toI64 (x : Int) : Int :=
  let u := x % two64
  if u < two63 then u else u - two64
@[inline] def toU32 (x : Int) : Int := x % 4294967296
@[inline] def toI32 (x : Int) : Int :=
  let u := x % 4294967296
  if u < 2147483648 then u else u - 4294967296
@[inline] def toU16 (x : Int) : Int := x % 65536
@[inline] def toU8 (x : Int) : Int := x % 256

/-- `a / b` on `int64_t` (truncating), with the two undefined cases -/
@[inline] def div64 (a b : Int) : M Int :=
  if b = 0 then throw .divByZero
  else if a = i64min ∧ b = -1 then throw .divOverflow
  else pure (Int.tdiv a b)
/-- `a % b` on `int64_t` -/
@[inline] def mod64 (a b : Int) : M Int :=
  if b = 0 then throw .divByZero
  else if a = i64min ∧ b = -1 then throw .divOverflow
  else pure (Int.tmod a b)

/-- `x >> r` for signed `x`, arithmetic; `r` must be in `[0, 64)` -/
@[inline] def shr64 (x r : Int) : M Int :=
  if 0 ≤ r ∧ r < 64 then pure (x / 2 ^ r.toNat) else throw .shiftCount
/-- `x << r` for `uint64_t x`: modular; `r` must be in `[0, 64)` -/
@[inline] def shlU64 (x r : Int) : M Int :=
  if 0 ≤ r ∧ r < 64 then pure ((x * 2 ^ r.toNat) % two64) else throw .shiftCount
/-- `x >> r` for `uint64_t x` -/
@[inline] def shrU64 (x r : Int) : M Int :=
  if 0 ≤ r ∧ r < 64 then pure (x / 2 ^ r.toNat) else throw .shiftCount
/-- `x << r` for signed 64-bit `x` under C++17 (after CWG1457): negative `x` is UB, a result that
    does not fit the *unsigned* type is UB, a result in `[2^63, 2^64)` converts (wraps) -/
@[inline] def shl64 (x r : Int) : M Int :=
  if 0 ≤ r ∧ r < 64 then
    if x < 0 then throw .shiftNegative
    else if x * 2 ^ r.toNat ≥ two64 then throw .shiftOverflow
    else pure (toI64 (x * 2 ^ r.toNat))
  else throw .shiftCount

/-- number of leading zero bits of a 64-bit unsigned value (`std::countl_zero`, 64 for 0) -/
def clz64 (x : Int) : Int := if x ≤ 0 then 64 else 63 - (Nat.log2 x.toNat : Int)
def clz32 (x : Int) : Int := if x ≤ 0 then 32 else 31 - (Nat.log2 x.toNat : Int)

/-- checked array access -/
@[inline] def idx (a : Array Int) (i : Int) : M Int :=
  if 0 ≤ i ∧ i < a.size then pure (a[i.toNat]!) else throw .indexOOB

/-- `x & y` on `uint64_t` values (both in `[0, 2^64)`) -/
@[inline] def andU64 (x y : Int) : Int := ((x.toNat &&& y.toNat : Nat) : Int)
/-- `x | y` on `uint64_t` values -/
@[inline] def orU64 (x y : Int) : Int := ((x.toNat ||| y.toNat : Nat) : Int)
/-- `x & y` on `int64_t` values: bitwise and of the two's-complement representations -/
@[inline] def and64 (x y : Int) : Int := toI64 (andU64 (toU64 x) (toU64 y))

def M.show : M Int → String
  | .ok v => s!"ok {v}"
  | .error e => s!"ub {e.name}"

end FixedMath

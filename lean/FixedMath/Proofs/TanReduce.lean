/-
  Analytic part of C10: sign handling, range normalisation and periodicity of `tan` for all arguments.
-/
import FixedMath.Proofs.SinReduce
import FixedMath.Model.Tan

namespace FixedMath
open Gen

theorem tanRange_spec (x : Int) (h0 : 0 ≤ x) (h1 : x ≤ 9223372036854775807) :
    ∃ x1 : Int, tanRange x = .ok x1 ∧ 0 ≤ x1 ∧ x1 ≤ 205886 ∧ (x ≤ 102943 → x1 = x) ∧ (x > 102943 → x1 = x % 205887) := by
  unfold tanRange
  rw [phi2M_eq]
  simp only [bind, Except.bind]
  by_cases h : x > 102943
  · rw [if_pos h]
    unfold phi
    rw [mod64_ok x 205887 (by omega), Int.tmod_eq_emod_of_nonneg h0]
    exact ⟨x % 205887, rfl, by omega, by omega, fun h' => by omega, fun _ => rfl⟩
  · rw [if_neg h]
    exact ⟨x, rfl, h0, by omega, fun _ => rfl, fun h' => absurd h' h⟩

/-- `tan` in terms of the normalised argument -/
theorem tan_eq (v : Int) (h1 : -9223372036854775808 < v) (h2 : v ≤ 9223372036854775807) :
    ∃ x1 : Int, tan v = tanRed x1 (decide (v < 0)) ∧ 0 ≤ x1 ∧ x1 ≤ 205886 ∧
      ((if v < 0 then -v else v) ≤ 102943 → x1 = (if v < 0 then -v else v)) ∧
      ((if v < 0 then -v else v) > 102943 → x1 = (if v < 0 then -v else v) % 205887) := by
  unfold tan
  by_cases hv : v < 0
  · rw [if_pos hv, chk64_ok (-v) (by omega) (by omega)]
    simp only [bind, Except.bind]
    obtain ⟨x1, e, a, b, c, d⟩ := tanRange_spec (-v) (by omega) (by omega)
    rw [e]
    simp only [hv, if_true]
    exact ⟨x1, rfl, a, b, c, d⟩
  · rw [if_neg hv]
    simp only [bind, Except.bind, pure, Except.pure]
    obtain ⟨x1, e, a, b, c, d⟩ := tanRange_spec v (by omega) (by omega)
    rw [e]
    simp only [hv, if_false]
    exact ⟨x1, rfl, a, b, c, d⟩

/-- flipping the sign flag negates a non-NaN result of bounded magnitude -/
theorem tanRed_flip (x1 T : Int) (h : tanRed x1 false = .ok T) (hne : x1 ≠ fixpidiv2)
    (hb : -1099511627776 ≤ T ∧ T ≤ 1099511627776) : tanRed x1 true = .ok (-T) := by
  unfold tanRed at h ⊢
  rw [if_pos hne] at h ⊢
  simp only [bind, Except.bind] at h ⊢
  cases hres : tanRes x1 with
  | error e => rw [hres] at h; simp at h
  | ok res =>
    rw [hres] at h
    simp only [] at h ⊢
    by_cases hq : x1 > fixpidiv2
    · simp only [hq, if_true, Bool.not_false, Bool.not_true, Bool.false_eq_true, if_false] at h ⊢
      unfold chk64 i64min i64max at h
      by_cases hr : -9223372036854775808 ≤ -res ∧ -res ≤ 9223372036854775807
      · rw [if_pos hr] at h
        have : -res = T := Except.ok.inj h
        simp only [pure, Except.pure]
        apply congrArg Except.ok; omega
      · rw [if_neg hr] at h; simp [throw, throwThe, MonadExceptOf.throw] at h
    · simp only [hq, if_false, Bool.false_eq_true, if_true] at h ⊢
      have : res = T := Except.ok.inj h
      subst this
      exact chk64_ok _ (by omega) (by omega)

/-- exact periodicity of the range normalisation for non-negative arguments -/
theorem tan_periodic (v k : Int) (hv : 0 ≤ v) (hk : 0 ≤ k) (hb : v + k * 205887 ≤ 9223372036854775807) :
    tan (v + k * 205887) = tan v := by
  have hkv : 0 ≤ k * 205887 := by omega
  obtain ⟨a, ea, a0, a1, a2, a3⟩ := tan_eq v (by omega) (by omega)
  obtain ⟨b, eb, b0, b1, b2, b3⟩ := tan_eq (v + k * 205887) (by omega) hb
  have hn1 : ¬ v < 0 := by omega
  have hn2 : ¬ v + k * 205887 < 0 := by omega
  simp only [hn1, hn2, if_false] at a2 a3 b2 b3
  rw [ea, eb]
  simp only [hn1, hn2, decide_false]
  have : a = b := by
    by_cases hk0 : k = 0
    · subst hk0
      by_cases hs : v ≤ 102943
      · rw [a2 hs, b2 (by omega)]; omega
      · rw [a3 (by omega), b3 (by omega)]; omega
    · have hk1 : 1 ≤ k := by omega
      have hbig : v + k * 205887 > 102943 := by omega
      have eb' := b3 hbig
      have hmod : (v + k * 205887) % 205887 = v % 205887 := by omega
      by_cases hs : v ≤ 102943
      · rw [a2 hs, eb', hmod]; omega
      · rw [a3 (by omega), eb', hmod]
  rw [this]

end FixedMath

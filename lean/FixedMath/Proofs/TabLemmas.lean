/-
  Facts about the table functions shared by C19 (accuracy) and C07 (no out-of-bounds access, no bad shift):
  table lengths and entry ranges (kernel-evaluated over the regenerated tables), array access, `fix_rbit_scan_clz`,
  the `& 0xfe` mask, and the shift primitives when their preconditions hold.
-/
import FixedMath.Proofs.Basic
import Mathlib.Tactic.Push

namespace FixedMath
open Gen

set_option maxRecDepth 1000000

theorem sinTab_len : sin_angle_tableL.length = 361 := by decide +kernel
theorem cosTab_len : cos_angle_tableL.length = 361 := by decide +kernel
theorem tanTab_len : tan_tableL.length = 256 := by decide +kernel
theorem sqrtTab_len : square_root_tableL.length = 256 := by decide +kernel

/-- array access of the model agrees with the list the theorems talk about -/
theorem idx_table (L : List Int) (i : Nat) (h : i < L.length) : idx L.toArray (i : Int) = .ok (L.getD i 0) := by
  unfold idx
  have : (0 : Int) ≤ (i : Int) ∧ (i : Int) < (L.toArray.size : Int) := by
    constructor
    · omega
    · simp; exact_mod_cast h
  rw [if_pos this]
  simp [List.getD_eq_getElem?_getD, h]
  rfl


theorem list_all_getD (L : List Int) (P : Int → Bool) (h : L.all P = true) (i : Nat) (hi : i < L.length) :
    P (L.getD i 0) = true := by
  rw [List.all_eq_true] at h
  apply h
  rw [List.getD_eq_getElem?_getD, List.getElem?_eq_getElem hi]
  exact List.getElem_mem hi

set_option maxRecDepth 1000000 in
theorem sqrtTab_bounds : square_root_tableL.all (fun e => decide (0 ≤ e ∧ e < 1048576)) = true := by decide +kernel
set_option maxRecDepth 1000000 in
theorem tanTab_bounds : tan_tableL.all (fun e => decide (-4611686018427387904 < e ∧ e < 4611686018427387904)) = true := by decide +kernel

theorem squareRootTab_ok (i : Int) (h0 : 0 ≤ i) (h1 : i < 256) : ∃ e, squareRootTab i = .ok e ∧ 0 ≤ e ∧ e < 1048576 := by
  have hi : i.toNat < square_root_tableL.length := by rw [sqrtTab_len]; omega
  have := idx_table square_root_tableL i.toNat hi
  rw [Int.toNat_of_nonneg h0] at this
  refine ⟨_, this, ?_⟩
  have hb := list_all_getD _ _ sqrtTab_bounds i.toNat hi
  simpa using hb

theorem tanTab_ok (i : Int) (h0 : 0 ≤ i) (h1 : i < 256) :
    ∃ e, tanTab i = .ok e ∧ -4611686018427387904 < e ∧ e < 4611686018427387904 := by
  have hi : i.toNat < tan_tableL.length := by rw [tanTab_len]; omega
  have := idx_table tan_tableL i.toNat hi
  rw [Int.toNat_of_nonneg h0] at this
  refine ⟨_, this, ?_⟩
  have hb := list_all_getD _ _ tanTab_bounds i.toNat hi
  simpa using hb

theorem rbitScanClz_range (x : Int) (h0 : 0 ≤ x) (h1 : x < 4294967296) : 0 ≤ rbitScanClz x ∧ rbitScanClz x ≤ 32 := by
  unfold rbitScanClz clz32
  by_cases hz : x = 0
  · subst hz; simp
  · rw [if_pos hz, if_neg (by omega)]
    have hx : x.toNat ≠ 0 := by omega
    have : Nat.log2 x.toNat < 32 := (Nat.log2_lt hx).mpr (by omega)
    omega

theorem rbitScanClz_le (x : Int) (k : Nat) (h0 : 0 ≤ x) (h1 : x < 2 ^ k) : rbitScanClz x ≤ k := by
  unfold rbitScanClz clz32
  by_cases hz : x = 0
  · subst hz; simp
  · rw [if_pos hz, if_neg (by omega)]
    have hx : x.toNat ≠ 0 := by omega
    have h1' : x.toNat < 2 ^ k := by
      have : ((x.toNat : ℕ) : Int) < ((2 ^ k : ℕ) : Int) := by rw [Int.toNat_of_nonneg h0]; push_cast; exact h1
      exact_mod_cast this
    have : Nat.log2 x.toNat < k := (Nat.log2_lt hx).mpr h1'
    omega

theorem andFE_range (y : Int) (h0 : 0 ≤ y) (h1 : y ≤ 34) : 0 ≤ andFE y ∧ andFE y ≤ y ∧ andFE y % 2 = 0 := by
  unfold andFE; omega


theorem pow_even_bound (c : Int) (h0 : 0 ≤ c) (h1 : c ≤ 16) : (1 : Int) ≤ 2 ^ c.toNat ∧ (2 : Int) ^ c.toNat ≤ 65536 := by
  have hc : c.toNat ≤ 16 := by omega
  constructor
  · have : (0 : Int) < 2 ^ c.toNat := by positivity
    omega
  · have : (2 : Int) ^ c.toNat ≤ 2 ^ 16 := by exact_mod_cast Nat.pow_le_pow_right (by norm_num : 0 < 2) hc
    norm_num at this; exact this

theorem shr64_ok (x r : Int) (h : 0 ≤ r ∧ r < 64) : shr64 x r = .ok (x / 2 ^ r.toNat) := by
  unfold shr64; rw [if_pos h]; rfl
theorem shrU64_ok (x r : Int) (h : 0 ≤ r ∧ r < 64) : shrU64 x r = .ok (x / 2 ^ r.toNat) := by
  unfold shrU64; rw [if_pos h]; rfl
theorem shl64_ok (x r : Int) (h : 0 ≤ r ∧ r < 64) (hx : 0 ≤ x) (hp : x * 2 ^ r.toNat < two64) :
    shl64 x r = .ok (toI64 (x * 2 ^ r.toNat)) := by
  unfold shl64; rw [if_pos h, if_neg (by omega), if_neg (by omega)]; rfl


end FixedMath

/-
  Analytic part of C09: range reduction of `sin` / `cos` for ALL arguments of int64 range.
    sinRange u = u - 2·phi·q  with the unique q that puts the result in [-phi/2, 3·phi/2]
    sin u      = sinPoly w    with w = u - m·phi (m even) or w = m·phi - u (m odd), |w| ≤ phi/2
-/
import FixedMath.Proofs.Arith

namespace FixedMath
open Gen

theorem tmod_elim (a b : Int) (hb : 0 < b) :
    ∃ q : Int, a.tmod b = a - b * q ∧
      ((0 ≤ a ∧ 0 ≤ a - b * q ∧ a - b * q < b) ∨ (a < 0 ∧ -b < a - b * q ∧ a - b * q ≤ 0)) := by
  refine ⟨a.tdiv b, Int.tmod_def a b, ?_⟩
  rw [← Int.tmod_def]
  by_cases ha : 0 ≤ a
  · left
    exact ⟨ha, Int.tmod_nonneg b ha, Int.tmod_lt_of_pos a hb⟩
  · right
    have h1 : (-a).tmod b = -(a.tmod b) := Int.neg_tmod a b
    have h2 := Int.tmod_nonneg b (show 0 ≤ -a by omega)
    have h3 := Int.tmod_lt_of_pos (-a) hb
    refine ⟨by omega, by omega, by omega⟩

theorem mod64_ok (a b : Int) (hb : 0 < b) : mod64 a b = .ok (a.tmod b) := by
  unfold mod64
  have h1 : b ≠ 0 := by omega
  have h2 : ¬ (a = i64min ∧ b = -1) := by omega
  rw [if_neg h1, if_neg h2]; rfl

theorem phi2M_eq : phi2M = .ok 102943 := by decide
theorem twoPhiM_eq : twoPhiM = .ok 411774 := by decide
theorem neg_phi2_eq : neg 102943 = .ok (-102943) := by decide
theorem add_phi_phi2_eq : add phi 102943 = .ok 308830 := by decide

theorem chk64_ok (x : Int) (h1 : -9223372036854775808 ≤ x) (h2 : x ≤ 9223372036854775807) : chk64 x = .ok x := by
  unfold chk64 i64min i64max
  rw [if_pos ⟨h1, h2⟩]; rfl

/-- `sin_range` for every int64 argument except INT64_MIN -/
theorem sinRange_spec (u : Int) (h1 : -9223372036854775808 < u) (h2 : u ≤ 9223372036854775807) :
    ∃ q : Int, sinRange u = .ok (u - 411774 * q) ∧ -102943 ≤ u - 411774 * q ∧ u - 411774 * q ≤ 308830 := by
  unfold sinRange
  rw [phi2M_eq, twoPhiM_eq]
  simp only [bind, Except.bind]
  rw [neg_phi2_eq, add_phi_phi2_eq]
  simp only []
  by_cases hc : u < -102943 ∨ u > 308830
  · rw [if_pos hc]
    obtain ⟨q1, e1, b1⟩ := tmod_elim u 411774 (by omega)
    rw [mod64_ok u 411774 (by omega), e1]
    simp only []
    rw [chk64_ok _ (by omega) (by omega)]
    simp only []
    obtain ⟨q2, e2, b2⟩ := tmod_elim (102943 + (u - 411774 * q1)) 411774 (by omega)
    rw [mod64_ok _ 411774 (by omega), e2]
    simp only []
    rw [chk64_ok _ (by omega) (by omega)]
    simp only []
    by_cases hlt : 102943 + (u - 411774 * q1) - 411774 * q2 - 102943 < -102943
    · rw [if_pos hlt, chk64_ok _ (by omega) (by omega)]
      exact ⟨q1 + q2 - 1, by apply congrArg Except.ok; omega, by omega, by omega⟩
    · rw [if_neg hlt]
      exact ⟨q1 + q2, by apply congrArg Except.ok; omega, by omega, by omega⟩
  · rw [if_neg hc]
    exact ⟨0, by simp [pure, Except.pure], by omega, by omega⟩

/-- `sin` is the polynomial at the reduced (and possibly reflected) argument -/
theorem sin_reduce (u : Int) (h1 : -9223372036854775808 < u) (h2 : u ≤ 9223372036854775807) :
    ∃ w m : Int, sin u = sinPoly w ∧ -102943 ≤ w ∧ w ≤ 102943 ∧
      ((m % 2 = 0 ∧ w = u - m * 205887) ∨ (m % 2 = 1 ∧ w = m * 205887 - u)) := by
  obtain ⟨q, hq, hlo, hhi⟩ := sinRange_spec u h1 h2
  unfold sin
  rw [phi2M_eq, hq]
  simp only [bind, Except.bind]
  by_cases hr : u - 411774 * q > 102943
  · rw [if_pos hr]
    have hs := sub_closed phi (u - 411774 * q) (by unfold fin phi lim_lowest lim_max; omega) (by unfold fin lim_lowest lim_max; omega)
    unfold phi lim_max lim_lowest at hs
    have c1 : ¬ (205887 - (u - 411774 * q) > 9223372036854775806) := by omega
    have c2 : ¬ (205887 - (u - 411774 * q) < -9223372036854775806) := by omega
    rw [if_neg c1, if_neg c2] at hs
    unfold phi
    rw [hs]
    exact ⟨205887 - (u - 411774 * q), 2 * q + 1, rfl, by omega, by omega, Or.inr ⟨by omega, by omega⟩⟩
  · rw [if_neg hr]
    exact ⟨u - 411774 * q, 2 * q, rfl, by omega, by omega, Or.inl ⟨by omega, by omega⟩⟩

/-- for |u| ≤ 520000 the multiple of phi is small -/
theorem sin_reduce_small (u : Int) (h1 : -520000 ≤ u) (h2 : u ≤ 520000) :
    ∃ w m : Int, sin u = sinPoly w ∧ -102943 ≤ w ∧ w ≤ 102943 ∧ -3 ≤ m ∧ m ≤ 3 ∧
      ((m % 2 = 0 ∧ w = u - m * 205887) ∨ (m % 2 = 1 ∧ w = m * 205887 - u)) := by
  obtain ⟨w, m, hs, hw1, hw2, hm⟩ := sin_reduce u (by omega) (by omega)
  exact ⟨w, m, hs, hw1, hw2, by omega, by omega, hm⟩

/-- exact periodicity of `sin_range`, hence of `sin` -/
theorem sinRange_periodic (u k : Int) (h1 : -9223372036854775808 < u) (h2 : u ≤ 9223372036854775807)
    (h3 : -9223372036854775808 < u + k * 411774) (h4 : u + k * 411774 ≤ 9223372036854775807) :
    sinRange (u + k * 411774) = sinRange u := by
  obtain ⟨q1, e1, a1, b1⟩ := sinRange_spec u h1 h2
  obtain ⟨q2, e2, a2, b2⟩ := sinRange_spec (u + k * 411774) h3 h4
  rw [e1, e2]
  apply congrArg Except.ok
  omega

theorem sin_periodic (u k : Int) (h1 : -9223372036854775808 < u) (h2 : u ≤ 9223372036854775807)
    (h3 : -9223372036854775808 < u + k * 411774) (h4 : u + k * 411774 ≤ 9223372036854775807) :
    sin (u + k * 411774) = sin u := by
  unfold sin
  rw [sinRange_periodic u k h1 h2 h3 h4]

end FixedMath

/-
  Closed forms of the core model functions under their range hypotheses (all inputs, no bound).
-/
import FixedMath.Proofs.Bits

namespace FixedMath
open Gen

theorem orU64_zero (a : Int) (ha : 0 ≤ a) : orU64 a 0 = a := by
  unfold orU64
  simp only [Int.toNat_zero, Nat.or_zero]
  omega

theorem andU64_signbit (u : Int) (h0 : 0 ≤ u) (h1 : u < 18446744073709551616) :
    andU64 u two63 = if u ≥ 9223372036854775808 then 9223372036854775808 else 0 := by
  unfold andU64 two63
  have : (9223372036854775808 : Int).toNat = 9223372036854775808 := by decide
  rw [this, nat_and_signbit _ (by omega)]
  split <;> split <;> omega

theorem signbit_andU64 (u : Int) (h0 : 0 ≤ u) (h1 : u < 18446744073709551616) :
    andU64 two63 u = if u ≥ 9223372036854775808 then 9223372036854775808 else 0 := by
  unfold andU64
  rw [Nat.and_comm]
  exact andU64_signbit u h0 h1

theorem andU64_lomask63 (u : Int) (h0 : 0 ≤ u) : andU64 u 9223372036854775807 = u % 9223372036854775808 := by
  unfold andU64
  have : (9223372036854775807 : Int).toNat = 9223372036854775807 := by decide
  rw [this, nat_and_lomask63]
  omega

theorem orU64_signbit (a : Int) (h0 : 0 ≤ a) (h1 : a < 18446744073709551616) :
    orU64 a 9223372036854775808 = if a ≥ 9223372036854775808 then a else a + 9223372036854775808 := by
  unfold orU64
  have : (9223372036854775808 : Int).toNat = 9223372036854775808 := by decide
  rw [this]
  split
  · rw [nat_or_signbit_ge _ (by omega) (by omega)]; omega
  · rw [nat_or_signbit_lt _ (by omega)]; omega

/-- `operator<<` : with `P = l·2^r`, the result keeps the low 63 bits of `P` and the sign of `l` -/
theorem shl_spec (l r : Int) (hl1 : -9223372036854775808 ≤ l) (hl2 : l ≤ 9223372036854775807)
    (hr0 : 0 ≤ r) (hr1 : r ≤ 63) :
    shl l r ⇓ (if l ≥ 0 then (l * 2 ^ r.toNat) % 9223372036854775808
               else (l * 2 ^ r.toNat) % 9223372036854775808 - 9223372036854775808) := by
  unfold shl shlU64
  have hr : 0 ≤ r ∧ r < 64 := ⟨hr0, by omega⟩
  simp only [ge_iff_le, hr0, if_true, hr, and_self, bind, Except.bind, pure, Except.pure]
  generalize hq : (2 : Int) ^ r.toNat = q
  have hqpos : 0 < q := by rw [← hq]; positivity
  unfold toU64 two64
  have hs0 : 0 ≤ (l % 18446744073709551616 * q) % 18446744073709551616 := by omega
  have hs1 : (l % 18446744073709551616 * q) % 18446744073709551616 < 18446744073709551616 := by omega
  rw [andU64_lomask63 _ hs0, signbit_andU64 _ (by omega) (by omega)]
  have key : (l % 18446744073709551616 * q) % 18446744073709551616 % 9223372036854775808
      = (l * q) % 9223372036854775808 := by
    have h1 : (l % 18446744073709551616 * q) % 18446744073709551616 = (l * q) % 18446744073709551616 := by
      rw [Int.mul_emod, Int.emod_emod, ← Int.mul_emod]
    rw [h1]
    exact Int.emod_emod_of_dvd _ ⟨2, by norm_num⟩
  rw [key]
  apply congrArg Except.ok
  by_cases hl : 0 ≤ l
  · have : ¬ (l % 18446744073709551616 ≥ 9223372036854775808) := by omega
    simp only [this, if_false, hl, if_true]
    rw [orU64_zero _ (by omega)]
    unfold toI64 two64 two63
    simp only []
    split <;> omega
  · have : l % 18446744073709551616 ≥ 9223372036854775808 := by omega
    simp only [this, if_true, hl, if_false]
    rw [orU64_signbit _ (by omega) (by omega)]
    unfold toI64 two64 two63
    simp only []
    split <;> split <;> omega

/-- `x << 16` is exact for `|x| < 2^47` -/
theorem shl16_exact (x : Int) (h1 : -140737488355328 < x) (h2 : x < 140737488355328) :
    shl x 16 ⇓ x * 65536 := by
  have := shl_spec x 16 (by omega) (by omega) (by omega) (by omega)
  rw [this]
  apply congrArg Except.ok
  have : (2 : Int) ^ (16 : Int).toNat = 65536 := by decide
  rw [this]
  split <;> omega

theorem shlSigned16_exact (v : Int) (h1 : -2147483648 ≤ v) (h2 : v ≤ 2147483647) :
    shlSigned16 v = v * 65536 := by
  unfold shlSigned16 toU64 two64
  have hu0 : 0 ≤ v % 18446744073709551616 := by omega
  rw [andU64_signbit _ hu0 (by omega)]
  by_cases hv : 0 ≤ v
  · have : ¬ (v % 18446744073709551616 ≥ 9223372036854775808) := by omega
    simp only [this, if_false]
    rw [orU64_zero _ (by omega)]
    unfold toI64 two64 two63
    simp only []
    split <;> omega
  · have : v % 18446744073709551616 ≥ 9223372036854775808 := by omega
    simp only [this, if_true]
    rw [orU64_signbit _ (by omega) (by omega)]
    unfold toI64 two64 two63
    simp only []
    split <;> split <;> omega

theorem shlUnsigned16_exact (v : Int) (h1 : 0 ≤ v) (h2 : v ≤ 2147483647) :
    shlUnsigned16 v = v * 65536 := by
  unfold shlUnsigned16 toU64 toI64 two64 two63
  simp only []
  split <;> omega

/-- `floor` -/
theorem floor_spec (v : Int) (h1 : -9223372036854775808 ≤ v) (h2 : v ≤ 9223372036854775807) :
    floor v ⇓ v - v % 65536 := by
  unfold floor
  rw [and64_himask v h1 h2]
  rfl

/-- `ceil` -/
theorem ceil_spec (v : Int) (h1 : -9223372036854775808 ≤ v) (h2 : v ≤ 9223372036854775807) :
    ceil v ⇓ (if v ≤ 9223372036854710272 then (v + 65535) - (v + 65535) % 65536 else NaNp) := by
  unfold ceil chk64 i64max i64min
  split
  · have : -9223372036854775808 ≤ v + 65535 ∧ v + 65535 ≤ 9223372036854775807 := by omega
    simp only [this, and_self, if_true, bind, Except.bind, pure, Except.pure]
    rw [and64_himask _ (by omega) (by omega)]
    have : v ≤ 9223372036854710272 := by omega
    simp only [this, if_true]
  · have : ¬ v ≤ 9223372036854710272 := by omega
    simp only [this, if_false]
    rfl

end FixedMath

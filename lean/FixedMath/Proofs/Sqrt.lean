/-
  The digit-by-digit (abacus) square root: loop invariant by induction, for all inputs.
  Invariant at the loop head with `pwr4 = c²`, `c = 2^k`:
     `res = 2·X·c`, `rem = N − X²`, `X² ≤ N < (X + 2c)²`, `X + 2c ≤ 2^32`
  (the last conjunct shows that no `uint64_t` operation of the loop wraps).
-/
import FixedMath.Proofs.Arith

namespace FixedMath
open Gen

theorem abacusLoop_spec : ∀ (k : Nat) (X N : Int) (fuel : Nat), 0 ≤ X → X * X ≤ N →
    N < (X + 2 * 2 ^ k) * (X + 2 * 2 ^ k) → X + 2 * 2 ^ k ≤ 4294967296 → fuel ≥ k + 2 →
    ∃ r, abacusLoop fuel (N - X * X) (2 * X * 2 ^ k) (2 ^ k * 2 ^ k) = .ok r ∧ 0 ≤ r ∧ r * r ≤ N ∧ N < (r + 1) * (r + 1) := by
  intro k
  induction k with
  | zero =>
    intro X N fuel hX h1 h2 h3 hf
    obtain ⟨f, rfl⟩ : ∃ f, fuel = f + 2 := ⟨fuel - 2, by omega⟩
    simp only [pow_zero, Int.mul_one] at h2 h3 ⊢
    have hsq1 : (X + 1) * (X + 1) = X * X + (2 * X + 1) := by ring
    have hsq2 : (X + 2) * (X + 2) = X * X + (4 * X + 4) := by ring
    rw [hsq2] at h2
    have hXX : 0 ≤ X * X := Int.mul_nonneg hX hX
    have hXb : X * X < 4294967296 * 4294967296 := by nlinarith
    unfold abacusLoop
    have hp : (1 : Int) ≠ 0 := by decide
    rw [if_pos hp]
    unfold two64
    have hm : (2 * X + 1) % 18446744073709551616 = 2 * X + 1 := by omega
    rw [hm]
    by_cases hc : N - X * X ≥ 2 * X + 1
    · rw [if_pos hc]
      unfold abacusLoop
      have e0 : (1 : Int) / 4 = 0 := by decide
      rw [e0]
      simp only [ne_eq, not_true_eq_false, if_false]
      refine ⟨_, rfl, ?_⟩
      have e1 : ((2 * X + (1 * 2) % 18446744073709551616) % 18446744073709551616) / 2 = X + 1 := by omega
      rw [e1]
      refine ⟨by omega, by rw [hsq1]; omega, ?_⟩
      have : (X + 1 + 1) * (X + 1 + 1) = X * X + (4 * X + 4) := by ring
      rw [this]; omega
    · rw [if_neg hc]
      unfold abacusLoop
      have e0 : (1 : Int) / 4 = 0 := by decide
      rw [e0]
      simp only [ne_eq, not_true_eq_false, if_false]
      refine ⟨_, rfl, ?_⟩
      have e1 : 2 * X / 2 = X := by omega
      rw [e1]
      exact ⟨hX, h1, by rw [hsq1]; omega⟩
  | succ k ih =>
    intro X N fuel hX h1 h2 h3 hf
    obtain ⟨f, rfl⟩ : ∃ f, fuel = f + 1 := ⟨fuel - 1, by omega⟩
    have hf' : f ≥ k + 2 := by omega
    generalize hc' : (2 : Int) ^ k = c at *
    have hcpos : 1 ≤ c := by
      have : (0 : Int) < 2 ^ k := by positivity
      omega
    have hc0 : (2 : Int) ^ (k + 1) = 2 * c := by rw [pow_succ, hc']; ring
    rw [hc0] at h2 h3 ⊢
    -- abbreviations for the products (atoms for omega)
    have hcb : c ≤ 1073741824 := by omega
    have hXb : X ≤ 4294967296 := by omega
    have hXc : 0 ≤ X * c := Int.mul_nonneg hX (by omega)
    have hcc : 1 ≤ c * c := by nlinarith
    have hccb : c * c ≤ 1073741824 * 1073741824 := by nlinarith
    have hXcb : X * c ≤ 4294967296 * 1073741824 := by nlinarith
    have hXX : 0 ≤ X * X := Int.mul_nonneg hX hX
    have e_res : 2 * X * (2 * c) = 4 * (X * c) := by ring
    have e_p : 2 * c * (2 * c) = 4 * (c * c) := by ring
    have e_sq : (X + 2 * c) * (X + 2 * c) = X * X + 4 * (X * c) + 4 * (c * c) := by ring
    have e_sq4 : (X + 2 * (2 * c)) * (X + 2 * (2 * c)) = X * X + 8 * (X * c) + 16 * (c * c) := by ring
    rw [e_sq4] at h2
    -- (X + 2c)^2 ≤ 2^64 - ... : from X + 4c ≤ 2^32
    have hbig : X * X + 8 * (X * c) + 16 * (c * c) ≤ 4294967296 * 4294967296 := by
      have : (X + 4 * c) * (X + 4 * c) = X * X + 8 * (X * c) + 16 * (c * c) := by ring
      rw [← this]
      have h4 : X + 4 * c ≤ 4294967296 := by omega
      have h5 : 0 ≤ X + 4 * c := by omega
      nlinarith
    unfold abacusLoop
    rw [e_res, e_p]
    have hp : 4 * (c * c) ≠ 0 := by omega
    rw [if_pos hp]
    unfold two64
    have hm : (4 * (X * c) + 4 * (c * c)) % 18446744073709551616 = 4 * (X * c) + 4 * (c * c) := by omega
    rw [hm]
    have hq : 4 * (c * c) / 4 = c * c := by omega
    rw [hq]
    by_cases hcnd : N - X * X ≥ 4 * (X * c) + 4 * (c * c)
    · rw [if_pos hcnd]
      -- accept: X' = X + 2c
      have e1 : (N - X * X - (4 * (X * c) + 4 * (c * c))) % 18446744073709551616 = N - (X + 2 * c) * (X + 2 * c) := by
        rw [e_sq]; omega
      have e2 : ((4 * (X * c) + (4 * (c * c) * 2) % 18446744073709551616) % 18446744073709551616) / 2 = 2 * (X + 2 * c) * c := by
        have : 2 * (X + 2 * c) * c = 2 * (X * c) + 4 * (c * c) := by ring
        rw [this]; omega
      rw [e1, e2]
      apply ih (X + 2 * c) N f (by omega) (by rw [e_sq]; omega) ?_ (by omega) hf'
      have : (X + 2 * c + 2 * c) * (X + 2 * c + 2 * c) = X * X + 8 * (X * c) + 16 * (c * c) := by ring
      rw [this]; exact h2
    · rw [if_neg hcnd]
      have e2 : 4 * (X * c) / 2 = 2 * X * c := by
        have : 2 * X * c = 2 * (X * c) := by ring
        rw [this]; omega
      rw [e2]
      apply ih X N f hX h1 ?_ (by omega) hf'
      rw [e_sq]; omega

/-- `highest_pwr4_clz` returns `4^k` with `4^k ≤ N < 4^(k+1)`, `k ≤ 31` -/
theorem highestPwr4_spec (N : Int) (h0 : 0 < N) (h1 : N < 18446744073709551616) :
    ∃ k : Nat, k ≤ 31 ∧ highestPwr4Clz N = .ok ((2 : Int) ^ k * 2 ^ k) ∧ (2 : Int) ^ k * 2 ^ k ≤ N ∧ N < (2 * 2 ^ k) * (2 * 2 ^ k) := by
  obtain ⟨n, rfl⟩ : ∃ n : Nat, N = (n : Int) := ⟨N.toNat, by omega⟩
  have hn0 : n ≠ 0 := by omega
  have hlo := Nat.log2_self_le hn0
  have hhi := @Nat.lt_log2_self n
  have hl63 : n.log2 ≤ 63 := by
    by_contra hcon
    have : 2 ^ 64 ≤ 2 ^ n.log2 := Nat.pow_le_pow_right (by norm_num) (by omega)
    omega
  refine ⟨n.log2 / 2, by omega, ?_, ?_, ?_⟩
  · unfold highestPwr4Clz clz64
    have hne : (n : Int) ≠ 0 := by omega
    have hnp : ¬ ((n : Int) ≤ 0) := by omega
    simp only [ne_eq, hne, not_false_eq_true, if_true, hnp, if_false, Int.toNat_natCast]
    have e : (64 : Int) - (63 - (n.log2 : Int)) = n.log2 + 1 := by ring
    rw [e]
    unfold shl64
    by_cases hev : ((n.log2 : Int) + 1) % 2 = 0
    · simp only [hev, if_true]
      have hs : (n.log2 : Int) + 1 - 1 - 1 = ((n.log2 - 1 : Nat) : Int) := by omega
      rw [hs]
      have hr : 0 ≤ ((n.log2 - 1 : Nat) : Int) ∧ ((n.log2 - 1 : Nat) : Int) < 64 := by omega
      simp only [hr, and_self, if_true, Int.toNat_natCast, Int.one_mul]
      have hk : n.log2 - 1 = n.log2 / 2 + n.log2 / 2 := by omega
      have hpow : (2 : Int) ^ (n.log2 - 1) = 2 ^ (n.log2 / 2) * 2 ^ (n.log2 / 2) := by rw [hk, pow_add]
      have hlt : (2 : Int) ^ (n.log2 - 1) ≤ 2 ^ 62 := by
        exact_mod_cast (Nat.pow_le_pow_right (by norm_num : 0 < 2) (by omega : n.log2 - 1 ≤ 62))
      have hpos : (0 : Int) < 2 ^ (n.log2 - 1) := by positivity
      have hnn : ¬ ((1 : Int) < 0) := by omega
      have hno : ¬ ((2 : Int) ^ (n.log2 - 1) ≥ two64) := by unfold two64; norm_num at hlt ⊢; omega
      simp only [hnn, if_false, hno]
      rw [toI64_of_range (by omega) (by norm_num at hlt ⊢; omega), hpow]
      rfl
    · simp only [hev, if_false]
      have hs : (n.log2 : Int) + 1 - 1 = ((n.log2 : Nat) : Int) := by omega
      rw [hs]
      have hl62 : n.log2 ≤ 62 := by omega
      have hr : 0 ≤ ((n.log2 : Nat) : Int) ∧ ((n.log2 : Nat) : Int) < 64 := by omega
      simp only [hr, and_self, if_true, Int.toNat_natCast, Int.one_mul]
      have hk : n.log2 = n.log2 / 2 + n.log2 / 2 := by omega
      have hpow : (2 : Int) ^ n.log2 = 2 ^ (n.log2 / 2) * 2 ^ (n.log2 / 2) := by rw [← pow_add, ← hk]
      have hlt : (2 : Int) ^ n.log2 ≤ 2 ^ 62 := by
        exact_mod_cast (Nat.pow_le_pow_right (by norm_num : 0 < 2) hl62)
      have hpos : (0 : Int) < 2 ^ n.log2 := by positivity
      have hnn : ¬ ((1 : Int) < 0) := by omega
      have hno : ¬ ((2 : Int) ^ n.log2 ≥ two64) := by unfold two64; norm_num at hlt ⊢; omega
      simp only [hnn, if_false, hno]
      rw [toI64_of_range (by omega) (by norm_num at hlt ⊢; omega), hpow]
      rfl
  · have : (2 : Int) ^ (n.log2 / 2) * 2 ^ (n.log2 / 2) = ((2 ^ (n.log2 / 2 + n.log2 / 2) : Nat) : Int) := by
      push_cast; rw [pow_add]
    rw [this]
    have : 2 ^ (n.log2 / 2 + n.log2 / 2) ≤ 2 ^ n.log2 := Nat.pow_le_pow_right (by norm_num) (by omega)
    exact_mod_cast le_trans this hlo
  · have : (2 * (2 : Int) ^ (n.log2 / 2)) * (2 * 2 ^ (n.log2 / 2)) = ((2 ^ (n.log2 / 2 + n.log2 / 2 + 2) : Nat) : Int) := by
      push_cast; rw [pow_add, pow_add]; ring
    rw [this]
    have : 2 ^ (n.log2 + 1) ≤ 2 ^ (n.log2 / 2 + n.log2 / 2 + 2) := Nat.pow_le_pow_right (by norm_num) (by omega)
    exact_mod_cast lt_of_lt_of_le hhi this

/-- `sqrt_abacus` computes the integer square root of `v·2^16` for every `0 ≤ v < 2^48` -/
theorem sqrtAbacus_spec (v : Int) (h0 : 0 ≤ v) (h1 : v < 281474976710656) :
    ∃ r, sqrtAbacus v = .ok r ∧ 0 ≤ r ∧ r * r ≤ v * 65536 ∧ v * 65536 < (r + 1) * (r + 1) := by
  unfold sqrtAbacus
  have hnot : ¬ (v < 0 ∨ v ≥ 281474976710656) := by omega
  rw [if_neg hnot]
  have hrem : (toU64 v * 65536) % two64 = v * 65536 := by unfold toU64 two64; omega
  rw [hrem]
  dsimp only
  by_cases hz : v = 0
  · subst hz
    refine ⟨0, ?_, by omega, by omega, by omega⟩
    decide
  · obtain ⟨k, hk, hp, hlo, hhi⟩ := highestPwr4_spec (v * 65536) (by omega) (by omega)
    rw [hp]
    simp only [bind, Except.bind]
    have hpp : (0 : Int) < 2 ^ k * 2 ^ k := by positivity
    have hpb : (2 : Int) ^ k * 2 ^ k < 18446744073709551616 := by omega
    have hU : toU64 ((2 : Int) ^ k * 2 ^ k) = 2 ^ k * 2 ^ k := by unfold toU64 two64; omega
    rw [hU]
    have h2k : (2 : Int) ^ k ≤ 2 ^ 31 := by exact_mod_cast (Nat.pow_le_pow_right (by norm_num : 0 < 2) hk)
    have := abacusLoop_spec k 0 (v * 65536) 40 (by omega) (by omega) (by simpa using hhi) (by norm_num at h2k ⊢; omega) (by omega)
    simp only [Int.mul_zero, Int.sub_zero, Int.zero_mul] at this
    obtain ⟨r, hr, hr0, hr1, hr2⟩ := this
    rw [hr]
    refine ⟨toI64 r, rfl, ?_⟩
    have hrb : r < 4294967296 := by nlinarith
    rw [toI64_of_range (by omega) (by omega)]
    exact ⟨hr0, hr1, hr2⟩

end FixedMath

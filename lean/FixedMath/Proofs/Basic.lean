/-
  Vocabulary shared by the property theorems and basic facts about the CSem primitives.
-/
import FixedMath.Model.Tab
import Mathlib.Tactic.SplitIfs
import Mathlib.Tactic.Ring
import Mathlib.Tactic.Linarith
import Mathlib.Tactic.NormNum
import Mathlib.Tactic.Positivity

namespace FixedMath
open Gen

/-- `max()` raw -/
def Fmax : Int := lim_max
/-- finite raw value: in `[lowest(), max()]` -/
def fin (v : Int) : Prop := lim_lowest ≤ v ∧ v ≤ lim_max
/-- the two NaN sentinels -/
def isNaN (v : Int) : Prop := v = lim_quiet_NaN ∨ v = -lim_quiet_NaN
/-- the argument domain "finite or NaN" -/
def arg (v : Int) : Prop := fin v ∨ isNaN v

instance (v : Int) : Decidable (fin v) := by unfold fin; infer_instance
instance (v : Int) : Decidable (isNaN v) := by unfold isNaN; infer_instance

/-- `f ⇓ r` : the call returns normally (no undefined behaviour) with value `r` -/
notation:50 f " ⇓ " r => f = Except.ok r

theorem toI64_of_range {x : Int} (h1 : -9223372036854775808 ≤ x) (h2 : x ≤ 9223372036854775807) : toI64 x = x := by
  unfold toI64 two64 two63; simp only []; split <;> omega

theorem toI64_wrap_hi {x : Int} (h1 : 9223372036854775807 < x) (h2 : x < 18446744073709551616) :
    toI64 x = x - 18446744073709551616 := by
  unfold toI64 two64 two63; simp only []; split <;> omega

theorem toI64_wrap_lo {x : Int} (h1 : -18446744073709551616 ≤ x) (h2 : x < -9223372036854775808) :
    toI64 x = x + 18446744073709551616 := by
  unfold toI64 two64 two63; simp only []; split <;> omega

end FixedMath

/-
  Analytic part of C12: sign handling and branch selection of `asin`, `acos`, for all arguments.
-/
import FixedMath.Proofs.Sqrt
import FixedMath.Proofs.SinReduce
import FixedMath.Model.Asin

namespace FixedMath
open Gen

theorem one_fix : toFixed .i64 1 = .ok 65536 := by decide

/-- asin for 0 ≤ n ≤ 0.60 -/
theorem asin_small (be : SqrtBE) (n : Int) (h0 : 0 ≤ n) (h1 : n ≤ 39322) (A : Int) (hA : asinSmall n = .ok A) :
    asin be n = .ok A := by
  unfold asin
  have hn : ¬ n < 0 := by omega
  rw [if_neg hn, one_fix]
  simp only [bind, Except.bind, pure, Except.pure]
  have h2 : n ≤ 65536 := by omega
  have h3 : n ≤ asin_split := by unfold asin_split; omega
  rw [if_pos h2, if_pos h3, hA]
  simp [setSign, hn, pure, Except.pure]

/-- asin for 0.60 < n ≤ 1 -/
theorem asin_big (be : SqrtBE) (n : Int) (h0 : 39322 < n) (h1 : n ≤ 65536) (s A : Int)
    (hs : sqrt be ((65536 - n) / 2) = .ok s) (hA : asinBig s = .ok A) : asin be n = .ok A := by
  unfold asin
  have hn : ¬ n < 0 := by omega
  rw [if_neg hn, one_fix]
  simp only [bind, Except.bind, pure, Except.pure]
  have h3 : ¬ n ≤ asin_split := by unfold asin_split; omega
  rw [if_pos h1, if_neg h3, chk64_ok _ (by omega) (by omega)]
  simp only []
  have hsh : shr64 (65536 - n) 1 = .ok ((65536 - n) / 2) := by
    unfold shr64
    have : (2 : Int) ^ (1 : Int).toNat = 2 := by decide
    simp only [this]; rfl
  rw [hsh]
  simp only []
  rw [hs]
  simp only []
  rw [hA]
  simp [setSign, hn, pure, Except.pure]

/-- asin(-n) = -asin(n) for every n in (0, 65536] whose result is small enough to be negated -/
theorem asin_neg (be : SqrtBE) (n A : Int) (h0 : 0 < n) (h1 : n ≤ 65536) (hA : asin be n = .ok A)
    (hb : -9223372036854775807 ≤ A ∧ A ≤ 9223372036854775807) : asin be (-n) = .ok (-A) := by
  unfold asin at hA ⊢
  have hn : ¬ n < 0 := by omega
  have hnn : -n < 0 := by omega
  rw [if_neg hn, one_fix] at hA
  rw [if_pos hnn, chk64_ok _ (by omega) (by omega), one_fix]
  simp only [bind, Except.bind, pure, Except.pure, Int.neg_neg] at hA ⊢
  rw [if_pos h1] at hA ⊢
  by_cases hs : n ≤ asin_split
  · rw [if_pos hs] at hA ⊢
    cases hr : asinSmall n with
    | error e => rw [hr] at hA; simp at hA
    | ok r =>
      rw [hr] at hA
      simp only [setSign, hn, hnn, decide_false, decide_true, Bool.not_false, Bool.not_true, Bool.false_eq_true, if_true, if_false, pure, Except.pure] at hA ⊢
      have : r = A := Except.ok.inj hA
      subst this
      exact chk64_ok _ (by omega) (by omega)
  · rw [if_neg hs] at hA ⊢
    rw [chk64_ok _ (by omega) (by omega)] at hA ⊢
    simp only [] at hA ⊢
    cases hd : shr64 (65536 - n) 1 with
    | error e => rw [hd] at hA; simp at hA
    | ok d =>
      rw [hd] at hA
      simp only [] at hA ⊢
      cases hq : sqrt be d with
      | error e => rw [hq] at hA; simp at hA
      | ok q =>
        rw [hq] at hA
        simp only [] at hA ⊢
        cases hr : asinBig q with
        | error e => rw [hr] at hA; simp at hA
        | ok r =>
          rw [hr] at hA
          simp only [setSign, hn, hnn, decide_false, decide_true, Bool.not_false, Bool.not_true, Bool.false_eq_true, if_true, if_false, pure, Except.pure] at hA ⊢
          have : r = A := Except.ok.inj hA
          subst this
          exact chk64_ok _ (by omega) (by omega)

/-- NaN outside [-1, 1], for every finite or NaN argument -/
theorem asin_out (be : SqrtBE) (x : Int) (h : -9223372036854775808 < x) (hx : x < -65536 ∨ 65536 < x) :
    asin be x = .ok NaNp := by
  unfold asin
  rw [one_fix]
  by_cases hn : x < 0
  · rw [if_pos hn, chk64_ok _ (by omega) (by omega)]
    simp only [bind, Except.bind, pure, Except.pure]
    have : ¬ (-x ≤ 65536) := by omega
    rw [if_neg this]
  · rw [if_neg hn]
    simp only [bind, Except.bind, pure, Except.pure]
    have : ¬ (x ≤ 65536) := by omega
    rw [if_neg this]

/-- the abacus square root is the unique integer with the floor-sqrt bracket -/
theorem sqrtAbacus_unique (d : Int) (r : Nat) (h0 : 0 ≤ d) (h1 : d < 281474976710656)
    (hb1 : (r : Int) * r ≤ d * 65536) (hb2 : d * 65536 < ((r : Int) + 1) * (r + 1)) : sqrtAbacus d = .ok (r : Int) := by
  obtain ⟨q, hq, hq0, hlo, hhi⟩ := sqrtAbacus_spec d h0 h1
  rw [hq]
  apply congrArg Except.ok
  have h1 : q < (r : Int) + 1 := by nlinarith
  have h2 : (r : Int) < q + 1 := by nlinarith
  omega

end FixedMath

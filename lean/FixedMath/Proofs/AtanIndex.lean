/-
  `atan_index_aprox`: what `std::lower_bound` returns on the tangent table (whose second half starts with an
  out-of-order sentinel), and the closed form of the result.
-/
import FixedMath.Proofs.TabLemmas
import FixedMath.Proofs.Arith

namespace FixedMath
open Gen

/-- table entry by integer index -/
def tanT (j : Int) : Int := tan_tableL.getD j.toNat 0

theorem tanTab_eq (j : Int) (h0 : 0 ≤ j) (h1 : j < 256) : idx tan_table j = .ok (tanT j) := by
  have hi : j.toNat < tan_tableL.length := by rw [tanTab_len]; omega
  have := idx_table tan_tableL j.toNat hi
  rw [Int.toNat_of_nonneg h0] at this
  exact this

/-- Binary-search invariant of `std::lower_bound` on `[of, oe)`, valid WITHOUT any sortedness assumption:
    the element left of the window is `< v` (or the window starts at `of`), the element at its right end is `≥ v`
    (or the window ends at `oe`).  With `sorted` (entries 129..255 non-decreasing) additionally: when the search
    started at 128 and never moved its left end, every entry from the right end of the window on is `≥ v`. -/
theorem lowerBound_inv (v : Int) (ofs oe : Int)
    (sorted : ∀ j k : Int, 129 ≤ j → j ≤ k → k < 256 → tanT j ≤ tanT k) :
    ∀ (fuel : Nat) (first len : Int), 0 ≤ first → ofs ≤ first → 0 ≤ len → first + len ≤ 256 → len < 2 ^ fuel →
      (first = ofs ∨ tanT (first - 1) < v) → (first + len = oe ∨ v ≤ tanT (first + len)) →
      (ofs = 128 → first = 128 → ∀ j : Int, 129 ≤ j → first + len ≤ j → j < 256 → v ≤ tanT j) →
      ∃ r, lowerBound tan_table v fuel first len = .ok r ∧ first ≤ r ∧ r ≤ first + len ∧
        (r = ofs ∨ tanT (r - 1) < v) ∧ (r = oe ∨ v ≤ tanT r) ∧
        (ofs = 128 → r = 128 → ∀ j : Int, 129 ≤ j → j < 256 → v ≤ tanT j) := by
  intro fuel
  induction fuel with
  | zero =>
    intro first len h0 hof h1 h2 hf hL hR hJ
    have hl0 : len = 0 := by norm_num at hf; omega
    subst hl0
    refine ⟨first, rfl, le_refl _, by omega, hL, by simpa using hR, ?_⟩
    intro ho hr j j1 j2
    exact hJ ho hr j j1 (by omega) j2
  | succ n ih =>
    intro first len h0 hof h1 h2 hf hL hR hJ
    unfold lowerBound
    by_cases hl : len > 0
    · rw [if_pos hl]
      simp only [bind, Except.bind]
      rw [tanTab_eq (first + len / 2) (by omega) (by omega)]
      simp only []
      have hpow : (2 : Int) ^ (n + 1) = 2 * 2 ^ n := by rw [pow_succ]; ring
      by_cases hlt : tanT (first + len / 2) < v
      · rw [if_pos hlt]
        obtain ⟨r, hr, r1, r2, rL, rR, rJ⟩ := ih (first + len / 2 + 1) (len - len / 2 - 1) (by omega) (by omega) (by omega) (by omega)
          (by omega) (Or.inr (by rw [show first + len / 2 + 1 - 1 = first + len / 2 by ring]; exact hlt))
          (by rw [show first + len / 2 + 1 + (len - len / 2 - 1) = first + len by ring]; exact hR)
          (by intro ho hf'; omega)
        exact ⟨r, hr, by omega, by omega, rL, rR, rJ⟩
      · rw [if_neg hlt]
        obtain ⟨r, hr, r1, r2, rL, rR, rJ⟩ := ih first (len / 2) h0 hof (by omega) (by omega) (by omega) hL
          (Or.inr (by omega))
          (by
            intro ho hf' j j1 j2 j3
            by_cases hmid : first + len / 2 ≥ 129
            · have := sorted (first + len / 2) j hmid j2 j3
              omega
            · -- the probe was the sentinel itself: everything from 129 on is already known
              have : len / 2 = 0 := by omega
              exact hJ ho hf' j j1 (by omega) j3)
        exact ⟨r, hr, r1, by omega, rL, rR, rJ⟩
    · rw [if_neg hl]
      have hl0 : len = 0 := by omega
      subst hl0
      refine ⟨first, rfl, le_refl _, by omega, hL, by simpa using hR, ?_⟩
      intro ho hr j j1 j2
      exact hJ ho hr j j1 (by omega) j2


theorem shl15_val (j : Int) (j0 : 0 ≤ j) (j1 : j ≤ 256) : atanIndexAprox.shl64' j = .ok (j * 32768) := by
  unfold atanIndexAprox.shl64'
  have hp : (2 : Int) ^ (15 : Int).toNat = 32768 := by decide
  rw [shl64_ok j 15 (by omega) j0 (by rw [hp]; unfold two64; omega), hp]
  apply congrArg Except.ok
  unfold toI64 two64 two63; simp only []; split <;> omega

theorem m128_val : toFixed .i64 128 = .ok 8388608 := by decide +kernel

theorem tanT_dom (j : Int) (h0 : 0 ≤ j) (h1 : j < 256) : -4611686018427387904 < tanT j ∧ tanT j < 4611686018427387904 := by
  have hi : j.toNat < tan_tableL.length := by rw [tanTab_len]; omega
  have hb := list_all_getD _ _ tanTab_bounds j.toNat hi
  unfold tanT; simpa using hb

theorem sub_total (a b : Int) (ha : -9223372036854775808 < a ∧ a ≤ 9223372036854775807)
    (hb : -9223372036854775808 < b ∧ b ≤ 9223372036854775807) : ∃ r, sub a b = .ok r := by
  unfold sub negNaN neg NaNp chk64 toI64 toU64 lim_quiet_NaN i64min i64max two64 two63
  simp only [pure, Except.pure, throw, throwThe, MonadExceptOf.throw]
  split_ifs <;> first | omega | exact ⟨_, rfl⟩

/-- **closed form of `atan_index_aprox`**: `r` is what `lower_bound` returns, `idx ∈ {r−1, r}` the adjusted index -/
theorem atanIndex_closed (v : Int) (hv : -9223372036854775808 < v ∧ v ≤ 9223372036854775807)
    (sorted : ∀ j k : Int, 129 ≤ j → j ≤ k → k < 256 → tanT j ≤ tanT k) :
    ∃ r idx : Int,
      (0 ≤ v → 0 ≤ r ∧ r ≤ 128 ∧ (r = 0 ∨ tanT (r - 1) < v) ∧ (r = 128 ∨ v ≤ tanT r)) ∧
      (v < 0 → 128 ≤ r ∧ r ≤ 256 ∧ (r = 128 ∨ tanT (r - 1) < v) ∧ (r = 256 ∨ v ≤ tanT r) ∧
        (r = 128 → ∀ j : Int, 129 ≤ j → j < 256 → v ≤ tanT j)) ∧
      (idx = r ∨ (r ≠ 0 ∧ idx = r - 1)) ∧
      atanIndexAprox v = .ok (if 0 ≤ v then idx * 32768 else -8388608 + idx * 32768) := by
  unfold atanIndexAprox
  by_cases h0 : v ≥ 0
  · rw [if_pos h0]
    obtain ⟨r, hr, r1, r2, rL, rR, _⟩ := lowerBound_inv v 0 128 sorted 16 0 128 (by omega) (by omega) (by omega) (by omega)
      (by norm_num) (Or.inl rfl) (Or.inl rfl) (by intro h; omega)
    simp only [bind, Except.bind, hr, pure, Except.pure]
    have hnn : (0 : Int) ≤ v := h0
    by_cases hi0 : r ≠ 0
    · rw [if_pos hi0]
      rw [show tanTab (toU8 r) = idx tan_table (toU8 r) from rfl, show tanTab (toU8 (r - 1)) = idx tan_table (toU8 (r - 1)) from rfl,
        tanTab_eq (toU8 r) (by unfold toU8; omega) (by unfold toU8; omega),
        tanTab_eq (toU8 (r - 1)) (by unfold toU8; omega) (by unfold toU8; omega)]
      simp only []
      obtain ⟨d1, d2⟩ := tanT_dom (toU8 r) (by unfold toU8; omega) (by unfold toU8; omega)
      obtain ⟨e1, e2⟩ := tanT_dom (toU8 (r - 1)) (by unfold toU8; omega) (by unfold toU8; omega)
      obtain ⟨a, ha⟩ := sub_total (tanT (toU8 r)) v (by omega) hv
      obtain ⟨b, hb⟩ := sub_total v (tanT (toU8 (r - 1))) hv (by omega)
      simp only [ha, hb]
      by_cases hab : a > b
      · simp only [hab, if_true]
        rw [shl15_val (r - 1) (by omega) (by omega)]
        refine ⟨r, r - 1, fun _ => ⟨by omega, by omega, rL, rR⟩, fun h => by omega, Or.inr ⟨hi0, rfl⟩, ?_⟩
        rw [if_pos hnn]
      · simp only [hab, if_false]
        rw [shl15_val r (by omega) (by omega)]
        refine ⟨r, r, fun _ => ⟨by omega, by omega, rL, rR⟩, fun h => by omega, Or.inl rfl, ?_⟩
        rw [if_pos hnn]
    · rw [if_neg hi0]
      rw [shl15_val r (by omega) (by omega)]
      refine ⟨r, r, fun _ => ⟨by omega, by omega, rL, rR⟩, fun h => by omega, Or.inl rfl, ?_⟩
      rw [if_pos hnn]
  · rw [if_neg h0]
    have hneg : v < 0 := by omega
    obtain ⟨r, hr, r1, r2, rL, rR, rJ⟩ := lowerBound_inv v 128 256 sorted 16 128 128 (by omega) (by omega) (by omega) (by omega)
      (by norm_num) (Or.inl rfl) (Or.inl rfl) (by intro _ _ j j1 j2 j3; omega)
    have hneg8 : neg 8388608 = .ok (-8388608) := by decide
    have addv : ∀ s : Int, 0 ≤ s → s ≤ 8388608 → add (-8388608) s = .ok (-8388608 + s) := by
      intro s s0 s1
      rw [add_closed (-8388608) s (by unfold fin lim_lowest lim_max; omega) (by unfold fin lim_lowest lim_max; omega)]
      unfold lim_max lim_lowest
      rw [if_neg (by omega), if_neg (by omega)]
    simp only [bind, Except.bind, hr, pure, Except.pure]
    have hne : ¬ (0 ≤ v) := by omega
    have hr0 : r ≠ 0 := by omega
    rw [if_pos hr0]
    rw [show tanTab (toU8 r) = idx tan_table (toU8 r) from rfl, show tanTab (toU8 (r - 1)) = idx tan_table (toU8 (r - 1)) from rfl,
      tanTab_eq (toU8 r) (by unfold toU8; omega) (by unfold toU8; omega),
      tanTab_eq (toU8 (r - 1)) (by unfold toU8; omega) (by unfold toU8; omega)]
    simp only []
    obtain ⟨d1, d2⟩ := tanT_dom (toU8 r) (by unfold toU8; omega) (by unfold toU8; omega)
    obtain ⟨e1, e2⟩ := tanT_dom (toU8 (r - 1)) (by unfold toU8; omega) (by unfold toU8; omega)
    obtain ⟨a, ha⟩ := sub_total (tanT (toU8 r)) v (by omega) hv
    obtain ⟨b, hb⟩ := sub_total v (tanT (toU8 (r - 1))) hv (by omega)
    simp only [ha, hb]
    by_cases hab : a > b
    · simp only [hab, if_true]
      rw [shl15_val (r - 1) (by omega) (by omega)]
      simp only []
      rw [m128_val]
      simp only []
      rw [hneg8]
      simp only []
      rw [addv _ (by omega) (by omega)]
      refine ⟨r, r - 1, fun h => by omega, fun _ => ⟨by omega, by omega, rL, rR, fun h => rJ rfl h⟩, Or.inr ⟨hr0, rfl⟩, ?_⟩
      rw [if_neg hne]
    · simp only [hab, if_false]
      rw [shl15_val r (by omega) (by omega)]
      simp only []
      rw [m128_val]
      simp only []
      rw [hneg8]
      simp only []
      rw [addv _ (by omega) (by omega)]
      refine ⟨r, r, fun h => by omega, fun _ => ⟨by omega, by omega, rL, rR, fun h => rJ rfl h⟩, Or.inl rfl, ?_⟩
      rw [if_neg hne]

end FixedMath

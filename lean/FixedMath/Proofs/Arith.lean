/-
  Closed forms of the four arithmetic kernels, for all finite operands.
-/
import FixedMath.Proofs.CoreLemmas

namespace FixedMath
open Gen

theorem add_closed (a b : Int) (ha : fin a) (hb : fin b) :
    add a b ⇓ (if a + b > lim_max then NaNp else if a + b < lim_lowest then -NaNp else a + b) := by
  unfold fin lim_lowest lim_max at *
  unfold add negNaN neg NaNp chk64 toI64 toU64 lim_quiet_NaN i64min i64max two64 two63
  simp only [pure, Except.pure, throw, throwThe, MonadExceptOf.throw]
  split_ifs <;> first | omega | (apply congrArg Except.ok; omega)

theorem sub_closed (a b : Int) (ha : fin a) (hb : fin b) :
    sub a b ⇓ (if a - b > lim_max then NaNp else if a - b < lim_lowest then -NaNp else a - b) := by
  unfold fin lim_lowest lim_max at *
  unfold sub negNaN neg NaNp chk64 toI64 toU64 lim_quiet_NaN i64min i64max two64 two63
  simp only [pure, Except.pure, throw, throwThe, MonadExceptOf.throw]
  split_ifs <;> first | omega | (apply congrArg Except.ok; omega)

theorem shr64_16 (p : Int) : shr64 p 16 ⇓ p / 65536 := by
  unfold shr64
  have : (2 : Int) ^ (16 : Int).toNat = 65536 := by decide
  simp only [this]
  rfl

theorem mul_closed (a b : Int) :
    mul a b ⇓ (if -9223372036854775808 ≤ a * b ∧ a * b ≤ 9223372036854775807 then a * b / 65536 else NaNp) := by
  unfold mul mulInternal i64min i64max
  split_ifs
  · exact shr64_16 _
  · rfl

theorem div_closed (x y : Int) (hx1 : -9223372036854775808 < x) (hx2 : x ≤ 9223372036854775807) :
    div x y ⇓ (if y ≠ 0 ∧ -140737488355328 < x ∧ x < 140737488355328 then Int.tdiv (x * 65536) y else NaNp) := by
  unfold div
  by_cases hy : y = 0
  · simp [hy]; rfl
  · by_cases hr : x > -140737488355328 ∧ x < 140737488355328
    · have hr' : -140737488355328 < x ∧ x < 140737488355328 := ⟨hr.1, hr.2⟩
      simp only [ne_eq, hy, not_false_eq_true, hr, and_self, if_true, hr', bind, Except.bind]
      rw [shl16_exact x hr.1 hr.2]
      simp only []
      unfold div64 i64min
      have : ¬ (x * 65536 = -9223372036854775808 ∧ y = -1) := by omega
      simp only [hy, this, if_false]
      rfl
    · have hr' : ¬ (-140737488355328 < x ∧ x < 140737488355328) := fun h => hr ⟨h.1, h.2⟩
      simp only [ne_eq, hy, not_false_eq_true, hr, if_true, if_false, hr', and_false]
      rfl

end FixedMath

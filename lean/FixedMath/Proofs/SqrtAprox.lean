/-
  `sqrt_aprox` in closed form on [1, 2^37): the argument selects a cell (k, t) — `cl = 2k` is the even shift derived
  from the bit length of `v >> 6`, `t = v >> cl` the table index — and the result is `(tab[t] << k) >> 4`.
  The 2 % accuracy of every cell is then a finite kernel check (`checkSqrtCells`), lifted to every `v` of the cell.
-/
import FixedMath.Proofs.TabLemmas

namespace FixedMath
open Gen

/-- bit length through `fix_rbit_scan_clz` -/
theorem rbitScanClz_spec (x : Int) (h0 : 0 < x) (h1 : x < 4294967296) :
    ∃ bl : Nat, rbitScanClz x = (bl : Int) ∧ 1 ≤ bl ∧ (2 : Int) ^ (bl - 1) ≤ x ∧ x < 2 ^ bl := by
  unfold rbitScanClz clz32
  rw [if_pos (by omega), if_neg (by omega)]
  obtain ⟨n, rfl⟩ : ∃ n : Nat, x = (n : Int) := ⟨x.toNat, by omega⟩
  have hn0 : n ≠ 0 := by omega
  refine ⟨n.log2 + 1, by simp only [Int.toNat_natCast]; push_cast; omega, by omega, ?_, ?_⟩
  · have := Nat.log2_self_le hn0
    simp only [Nat.add_sub_cancel]; exact_mod_cast this
  · exact_mod_cast (@Nat.lt_log2_self n)

/-- the cell of an argument -/
theorem sqrtAprox_cell (v : Int) (h0 : 1 ≤ v) (h1 : v < 137438953472) :
    ∃ k : Nat, k ≤ 15 ∧ andFE (rbitScanClz (toU32 (v / 64))) = 2 * (k : Int) ∧
      (k = 0 → v < 128) ∧ (1 ≤ k → 32 * (4 : Int) ^ k ≤ v ∧ v < 128 * 4 ^ k) := by
  have hx : toU32 (v / 64) = v / 64 := by unfold toU32; omega
  rw [hx]
  by_cases hz : v / 64 = 0
  · rw [hz]
    refine ⟨0, by omega, by decide, fun _ => by omega, fun h => by omega⟩
  · obtain ⟨bl, hbl, hbl1, hlo, hhi⟩ := rbitScanClz_spec (v / 64) (by omega) (by omega)
    rw [hbl]
    have hbl32 : bl < 32 := by
      by_contra hc; push Not at hc
      have : (2 : Int) ^ 31 ≤ 2 ^ (bl - 1) := by exact_mod_cast Nat.pow_le_pow_right (by norm_num : 0 < 2) (by omega : 31 ≤ bl - 1)
      norm_num at this; omega
    refine ⟨bl / 2, by omega, by unfold andFE; omega, ?_, ?_⟩
    · intro hk
      have : bl = 1 := by omega
      subst this; norm_num at hhi; omega
    · intro hk
      rcases Nat.even_or_odd' bl with ⟨j, hj | hj⟩
      · -- bl = 2j
        have hjk : bl / 2 = j := by omega
        rw [hjk]
        have e1 : (2 : Int) ^ bl = 4 ^ j := by rw [hj, pow_mul]; norm_num
        have e2 : 2 * (2 : Int) ^ (bl - 1) = 4 ^ j := by
          rw [← e1]; have : bl = (bl - 1) + 1 := by omega
          conv_rhs => rw [this, pow_succ]
          ring
        constructor <;> omega
      · -- bl = 2j+1
        have hjk : bl / 2 = j := by omega
        rw [hjk]
        have e1 : (2 : Int) ^ (bl - 1) = 4 ^ j := by
          have : bl - 1 = 2 * j := by omega
          rw [this, pow_mul]; norm_num
        have e2 : (2 : Int) ^ bl = 2 * 4 ^ j := by
          have : bl = (bl - 1) + 1 := by omega
          rw [this, pow_succ, e1]; ring
        constructor <;> omega

/-- closed form of `sqrt_aprox` -/
theorem sqrtAprox_closed (v : Int) (h0 : 1 ≤ v) (h1 : v < 137438953472) :
    ∃ (k t : Nat), k ≤ 15 ∧ t < 128 ∧ (k = 0 → 1 ≤ t) ∧ (1 ≤ k → 32 ≤ t) ∧
      (t : Int) * 4 ^ k ≤ v ∧ v < ((t : Int) + 1) * 4 ^ k ∧
      sqrtAprox v = .ok ((square_root_tableL.getD t 0 * 2 ^ k) / 16) := by
  obtain ⟨k, hk, hcl, hk0, hk1⟩ := sqrtAprox_cell v h0 h1
  have hp4 : (0 : Int) < 4 ^ k := by positivity
  have h4 : (2 : Int) ^ (2 * (k : Int)).toNat = 4 ^ k := by
    have : (2 * (k : Int)).toNat = 2 * k := by omega
    rw [this, pow_mul]; norm_num
  -- the index
  have ht0 : 0 ≤ v / 4 ^ k := Int.ediv_nonneg (by omega) hp4.le
  have ht1 : v / 4 ^ k < 128 := by
    rcases Nat.eq_zero_or_pos k with h | h
    · subst h; simp; exact hk0 rfl
    · exact Int.ediv_lt_of_lt_mul hp4 (hk1 h).2
  have hmul1 : v / 4 ^ k * 4 ^ k ≤ v := Int.ediv_mul_le v (by omega)
  have hmul2 : v < (v / 4 ^ k + 1) * 4 ^ k := Int.lt_ediv_add_one_mul_self v hp4
  refine ⟨k, (v / 4 ^ k).toNat, hk, by omega, ?_, ?_, by rw [Int.toNat_of_nonneg ht0]; exact hmul1,
    by rw [Int.toNat_of_nonneg ht0]; exact hmul2, ?_⟩
  · intro hk; subst hk; simp; omega
  · intro hk
    have := (hk1 hk).1
    have : 32 ≤ v / 4 ^ k := Int.le_ediv_of_mul_le hp4 this
    omega
  · unfold sqrtAprox
    rw [if_neg (by omega), shr64_ok v 6 (by omega)]
    simp only [bind, Except.bind]
    have h64 : (2 : Int) ^ (6 : Int).toNat = 64 := by decide
    rw [h64, hcl, shr64_ok v (2 * (k : Int)) (by omega), h4]
    simp only []
    have hidx : toU8 (toI32 (v / 4 ^ k)) = ((v / 4 ^ k).toNat : Int) := by
      unfold toU8 toI32; simp only []; rw [Int.toNat_of_nonneg ht0]; split <;> omega
    rw [hidx]
    have hlt : (v / 4 ^ k).toNat < square_root_tableL.length := by rw [sqrtTab_len]; omega
    have htab : squareRootTab ((v / 4 ^ k).toNat : Int) = .ok (square_root_tableL.getD (v / 4 ^ k).toNat 0) :=
      idx_table square_root_tableL _ hlt
    rw [htab, shr64_ok (2 * (k : Int)) 1 (by omega)]
    simp only []
    have hp1 : (2 : Int) ^ (1 : Int).toNat = 2 := by decide
    rw [hp1]
    have hkk : 2 * (k : Int) / 2 = (k : Int) := by omega
    rw [hkk]
    have hb := list_all_getD _ _ sqrtTab_bounds (v / 4 ^ k).toNat hlt
    simp only [decide_eq_true_eq] at hb
    have hkp : (2 : Int) ^ ((k : Int)).toNat = 2 ^ k := by simp
    obtain ⟨p1, p2⟩ := pow_even_bound (k : Int) (by omega) (by omega)
    rw [shl64_ok _ (k : Int) (by omega) hb.1 (by unfold two64; nlinarith)]
    simp only []
    rw [shr64_ok _ 4 (by omega)]
    have h16 : (2 : Int) ^ (4 : Int).toNat = 16 := by decide
    rw [h16, hkp]
    apply congrArg Except.ok
    rw [toI64_of_range (by nlinarith) (by rw [hkp] at p2; nlinarith)]

/-- the cell check: with `r = (tab[t]·2^k)/16`, `(100 r)² ≤ 102²·65536·vmin` and `(100 r)² ≥ 98²·65536·vmax` -/
def checkSqrtCell (k t : Nat) : Bool :=
  let r : Int := (square_root_tableL.getD t 0 * 2 ^ k) / 16
  let vmin : Int := (t : Int) * 4 ^ k
  let vmax : Int := ((t : Int) + 1) * 4 ^ k - 1
  decide (0 ≤ r ∧ (100 * r) * (100 * r) ≤ 10404 * 65536 * vmin ∧ 9604 * 65536 * vmax ≤ (100 * r) * (100 * r))

def checkSqrtCells : Bool :=
  (List.range 127).all (fun i => checkSqrtCell 0 (i + 1)) &&
  (List.range 15).all (fun j => (List.range 96).all (fun i => checkSqrtCell (j + 1) (i + 32)))

set_option maxRecDepth 1000000 in
theorem sqrtCells_checked : checkSqrtCells = true := by decide +kernel

theorem checkSqrtCell_of (k t : Nat) (hk : k ≤ 15) (ht : t < 128) (h0 : k = 0 → 1 ≤ t) (h1 : 1 ≤ k → 32 ≤ t) :
    checkSqrtCell k t = true := by
  have h := sqrtCells_checked
  unfold checkSqrtCells at h
  rw [Bool.and_eq_true, List.all_eq_true, List.all_eq_true] at h
  rcases Nat.eq_zero_or_pos k with hz | hp
  · subst hz
    have := h.1 (t - 1) (List.mem_range.mpr (by have := h0 rfl; omega))
    have e : t - 1 + 1 = t := by have := h0 rfl; omega
    rw [e] at this; exact this
  · have := h.2 (k - 1) (List.mem_range.mpr (by omega))
    rw [List.all_eq_true] at this
    have := this (t - 32) (List.mem_range.mpr (by have := h1 hp; omega))
    have e1 : k - 1 + 1 = k := by omega
    have e2 : t - 32 + 32 = t := by have := h1 hp; omega
    rw [e1, e2] at this; exact this

/-- **sqrt_aprox is within 2 %** (integer form) for every raw argument in [1, 2^37) -/
theorem sqrtAprox_acc (v : Int) (h0 : 1 ≤ v) (h1 : v < 137438953472) :
    ∃ r : Int, sqrtAprox v = .ok r ∧ 0 ≤ r ∧ (100 * r) * (100 * r) ≤ 10404 * 65536 * v ∧ 9604 * 65536 * v ≤ (100 * r) * (100 * r) := by
  obtain ⟨k, t, hk, ht, hk0, hk1, hlo, hhi, hval⟩ := sqrtAprox_closed v h0 h1
  have hc := checkSqrtCell_of k t hk ht hk0 hk1
  unfold checkSqrtCell at hc
  simp only [decide_eq_true_eq] at hc
  obtain ⟨c0, c1, c2⟩ := hc
  refine ⟨_, hval, c0, ?_, ?_⟩
  · have : 10404 * 65536 * ((t : Int) * 4 ^ k) ≤ 10404 * 65536 * v := by omega
    omega
  · have : 9604 * 65536 * v ≤ 9604 * 65536 * (((t : Int) + 1) * 4 ^ k - 1) := by omega
    omega

end FixedMath

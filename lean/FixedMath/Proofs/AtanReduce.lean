/-
  Analytic part of C11 (integer side): what `atan` computes before and after the polynomial kernel, for ALL
  arguments.  With `x` the clamped magnitude:
     x < 28672 :              K(x)
     segment (atanc, c), c ≤ x : atanc + K(z),  z = ⌊(x−c)·2^16 / (2^16 + ⌊x·c/2^16⌋)⌋
-/
import FixedMath.Proofs.SinReduce
import FixedMath.Model.Atan

namespace FixedMath
open Gen

/-- the argument handed to the kernel in a segment -/
def atanZ (c x : Int) : Int := ((x - c) * 65536) / (65536 + (x * c) / 65536)

theorem atanSum_eq (atanc c x : Int) (hc0 : 0 < c) (hc1 : c ≤ 159744) (hx0 : c ≤ x) (hx1 : x ≤ 35184372088832) :
    atanSum 16 atanc c x = (do let a ← atanKernel 16 (atanZ c x); chk64 (atanc + a)) := by
  have hxc0 : 0 ≤ x * c := Int.mul_nonneg (by omega) (by omega)
  have hxcb : x * c ≤ 35184372088832 * 159744 := Int.mul_le_mul hx1 hc1 (by omega) (by omega)
  unfold atanSum fix_ mul_ div_
  have h1 : shl64 1 16 = .ok 65536 := by decide
  rw [h1]
  simp only [bind, Except.bind]
  rw [chk64_ok (x - c) (by omega) (by omega)]
  simp only []
  rw [chk64_ok (x * c) (by omega) (by omega)]
  simp only []
  rw [shr64_16]
  simp only []
  have hd0 : 0 ≤ x * c / 65536 := by omega
  rw [chk64_ok (65536 + x * c / 65536) (by omega) (by omega)]
  simp only []
  -- (x - c) << 16
  have hsh : shl64 (x - c) 16 = .ok ((x - c) * 65536) := by
    unfold shl64
    have hr : (0 : Int) ≤ 16 ∧ (16 : Int) < 64 := by omega
    have hp : (2 : Int) ^ (16 : Int).toNat = 65536 := by decide
    rw [if_pos hr, hp]
    have hn : ¬ (x - c < 0) := by omega
    have ho : ¬ ((x - c) * 65536 ≥ two64) := by unfold two64; omega
    rw [if_neg hn, if_neg ho]
    simp only [pure, Except.pure]
    rw [toI64_of_range (by omega) (by omega)]
  rw [hsh]
  simp only []
  have hdiv : div64 ((x - c) * 65536) (65536 + x * c / 65536) = .ok (atanZ c x) := by
    unfold div64 i64min atanZ
    have d1 : ¬ (65536 + x * c / 65536 = 0) := by omega
    have d2 : ¬ ((x - c) * 65536 = -9223372036854775808 ∧ 65536 + x * c / 65536 = -1) := by omega
    rw [if_neg d1, if_neg d2]
    simp only [pure, Except.pure]
    rw [Int.tdiv_eq_ediv_of_nonneg (by omega)]
  rw [hdiv]

/-- bounds on the kernel argument: `z·D ≤ N < (z+1)·D` -/
theorem atanZ_bracket (c x : Int) (hc0 : 0 < c) (hx0 : c ≤ x) :
    0 ≤ atanZ c x ∧ atanZ c x * (65536 + (x * c) / 65536) ≤ (x - c) * 65536 ∧
    (x - c) * 65536 < (atanZ c x + 1) * (65536 + (x * c) / 65536) := by
  have hxc0 : 0 ≤ x * c := Int.mul_nonneg (by omega) (by omega)
  have hD : 0 < 65536 + (x * c) / 65536 := by omega
  unfold atanZ
  refine ⟨Int.ediv_nonneg (by omega) (by omega), ?_, ?_⟩
  · exact Int.ediv_mul_le _ (by omega)
  · exact Int.lt_ediv_add_one_mul_self _ hD

/-- `atan` for a non-negative argument -/
theorem atan_nonneg (v : Int) (h0 : 0 ≤ v) : atan v = atanMag (atanClamp v) := by
  unfold atan
  have hn : ¬ v < 0 := by omega
  rw [if_neg hn]
  simp only [bind, Except.bind, pure, Except.pure, hn, decide_false, Bool.not_false, if_true]
  cases atanMag (atanClamp v) <;> rfl

/-- `atan (-v) = -atan v` for positive `v` whenever the result can be negated -/
theorem atan_neg (v a : Int) (h0 : 0 < v) (h1 : v ≤ 9223372036854775807) (ha : atan v = .ok a)
    (hb : -9223372036854775807 ≤ a ∧ a ≤ 9223372036854775807) : atan (-v) = .ok (-a) := by
  rw [atan_nonneg v (by omega)] at ha
  unfold atan
  have hnn : -v < 0 := by omega
  rw [if_pos hnn, chk64_ok (- -v) (by omega) (by omega)]
  simp only [bind, Except.bind, pure, Except.pure, hnn, decide_true, Bool.not_true, Bool.false_eq_true, if_false, Int.neg_neg]
  rw [ha]
  exact chk64_ok _ (by omega) (by omega)

end FixedMath

/-
  Arithmetic meaning of the bit operations that occur in the model (masks with `~0xffff`,
  `0x7fff…`, the sign bit), proved from core `Nat` bitwise lemmas.
-/
import FixedMath.Proofs.Basic

namespace FixedMath

theorem nat_and_himask (u : Nat) (hu : u < 2 ^ 64) :
    u &&& 18446744073709486080 = u - u % 65536 := by
  apply Nat.eq_of_testBit_eq
  intro i
  have e1 : (18446744073709486080 : Nat) = 2 ^ 16 * (2 ^ 48 - 1) := by norm_num
  have e2 : u - u % 65536 = 2 ^ 16 * (u / 2 ^ 16) := by
    have := Nat.div_add_mod u 65536
    omega
  rw [Nat.testBit_and, e1, e2, Nat.testBit_two_pow_mul, Nat.testBit_two_pow_mul, Nat.testBit_two_pow_sub_one,
    Nat.testBit_div_two_pow]
  by_cases h : 16 ≤ i
  · simp only [h, decide_true, Bool.true_and]
    have : i - 16 + 16 = i := by omega
    rw [this]
    by_cases h2 : i - 16 < 48
    · simp [h2]
    · simp only [h2, decide_false, Bool.and_false]
      symm
      apply Nat.testBit_lt_two_pow
      calc u < 2 ^ 64 := hu
        _ ≤ 2 ^ i := Nat.pow_le_pow_right (by norm_num) (by omega)
  · simp [h]

theorem nat_and_lomask63 (u : Nat) : u &&& 9223372036854775807 = u % 9223372036854775808 := by
  have : (9223372036854775807 : Nat) = 2 ^ 63 - 1 := by norm_num
  rw [this, Nat.and_two_pow_sub_one_eq_mod]

theorem testBit63 (u : Nat) (hu : u < 2 ^ 64) : u.testBit 63 = decide (u ≥ 9223372036854775808) := by
  rw [Nat.testBit_eq_decide_div_mod_eq]
  congr 1
  apply propext
  constructor <;> intro h <;> omega

theorem nat_and_signbit (u : Nat) (hu : u < 2 ^ 64) :
    u &&& 9223372036854775808 = if u ≥ 9223372036854775808 then 9223372036854775808 else 0 := by
  apply Nat.eq_of_testBit_eq
  intro i
  have e : (9223372036854775808 : Nat) = 2 ^ 63 := by norm_num
  rw [Nat.testBit_and]
  by_cases hi : 63 = i
  · subst hi
    rw [testBit63 u hu]
    by_cases h : u ≥ 9223372036854775808
    · simp only [h, if_true, decide_true, Bool.true_and]
    · simp only [h, if_false, decide_false, Bool.false_and, Nat.zero_testBit]
  · have : (9223372036854775808 : Nat).testBit i = false := by
      rw [e, Nat.testBit_two_pow]; simp [hi]
    rw [this, Bool.and_false]
    split
    · exact this.symm
    · simp

theorem nat_signbit_and (u : Nat) (hu : u < 2 ^ 64) :
    9223372036854775808 &&& u = if u ≥ 9223372036854775808 then 9223372036854775808 else 0 := by
  rw [Nat.and_comm]; exact nat_and_signbit u hu

theorem nat_or_signbit_lt (a : Nat) (ha : a < 9223372036854775808) :
    a ||| 9223372036854775808 = a + 9223372036854775808 := by
  have e : (9223372036854775808 : Nat) = 2 ^ 63 := by norm_num
  rw [e] at ha ⊢
  have := Nat.two_pow_add_eq_or_of_lt ha 1
  rw [Nat.mul_one] at this
  rw [Nat.or_comm, ← this, Nat.add_comm]

theorem nat_or_signbit_ge (a : Nat) (h1 : a ≥ 9223372036854775808) (h2 : a < 2 ^ 64) :
    a ||| 9223372036854775808 = a := by
  have e : (9223372036854775808 : Nat) = 2 ^ 63 := by norm_num
  obtain ⟨b, rfl⟩ : ∃ b, a = 2 ^ 63 + b := ⟨a - 2 ^ 63, by omega⟩
  have hb : b < 2 ^ 63 := by omega
  have := Nat.two_pow_add_eq_or_of_lt hb 1
  rw [Nat.mul_one] at this
  rw [e, this, Nat.or_comm, ← Nat.or_assoc, Nat.or_self]

/-- `x & ~0xffff` on `int64_t` is rounding down to a multiple of 65536 -/
theorem and64_himask (x : Int) (h1 : -9223372036854775808 ≤ x) (h2 : x ≤ 9223372036854775807) :
    and64 x (-65536) = x - x % 65536 := by
  unfold and64 andU64 toU64 two64
  have hm : ((-65536 : Int) % 18446744073709551616).toNat = 18446744073709486080 := by decide
  rw [hm]
  have hu : (x % 18446744073709551616).toNat < 2 ^ 64 := by omega
  rw [nat_and_himask _ hu]
  have hnn : 0 ≤ x % 18446744073709551616 := by omega
  have : (((x % 18446744073709551616).toNat - (x % 18446744073709551616).toNat % 65536 : Nat) : Int)
      = x % 18446744073709551616 - (x % 18446744073709551616) % 65536 := by omega
  rw [this]
  unfold toI64 two64 two63
  simp only []
  split <;> omega

end FixedMath

/-
  C14: hypot for all pairs, over ANY square-root back-end that is within one unit of the true root
  (`SqrtNear`); the abacus back-end satisfies it (Proofs/Sqrt.lean).
-/
import FixedMath.Proofs.Sqrt
import FixedMath.Proofs.SinReduce

namespace FixedMath
open Gen

/-- the contract of a square-root back-end used by hypot: `|q − √(n·2^16)| < 1`, `q ≥ 0` -/
def SqrtNear (be : SqrtBE) : Prop :=
  ∀ n : Int, 0 ≤ n → n < 281474976710656 →
    ∃ q : Int, sqrt be n = .ok q ∧ 0 ≤ q ∧ n * 65536 < (q + 1) * (q + 1) ∧ (q = 0 ∨ (q - 1) * (q - 1) < n * 65536)

theorem sqrtNear_abacus : SqrtNear .abacus := by
  intro n h0 h1
  obtain ⟨q, hq, hq0, hlo, hhi⟩ := sqrtAbacus_spec n h0 h1
  refine ⟨q, hq, hq0, hhi, ?_⟩
  by_cases hz : q = 0
  · exact Or.inl hz
  · right
    have e : (q - 1) * (q - 1) = q * q - (2 * q - 1) := by ring
    rw [e]; omega

/-- `countl_zero` through the binary logarithm -/
theorem clz64_spec (A : Int) (h0 : 0 < A) :
    ∃ L : Nat, clz64 A = 63 - (L : Int) ∧ (2 : Int) ^ L ≤ A ∧ A < 2 ^ (L + 1) := by
  obtain ⟨n, rfl⟩ : ∃ n : Nat, A = (n : Int) := ⟨A.toNat, by omega⟩
  have hn0 : n ≠ 0 := by omega
  refine ⟨n.log2, ?_, ?_, ?_⟩
  · unfold clz64
    have : ¬ ((n : Int) ≤ 0) := by omega
    simp only [this, if_false, Int.toNat_natCast]
  · exact_mod_cast Nat.log2_self_le hn0
  · exact_mod_cast (@Nat.lt_log2_self n)

/-- middle branch: both operands in [1, 2^30), the smaller at least 1.0 -/
theorem hypotU_mid (be : SqrtBE) (hs : SqrtNear be) (A B : Int) (hA : A < 1073741824) (hB : 65536 ≤ B) (hBA : B ≤ A) :
    ∃ h : Int, hypotU be A B = .ok h ∧ 2 ≤ h ∧ (h - 2) * (h - 2) ≤ A * A + B * B ∧ A * A + B * B ≤ (h + 2) * (h + 2) := by
  have hAA : A * A < 1073741824 * 1073741824 := by nlinarith
  have hAA0 : 65536 * 65536 ≤ A * A := by nlinarith
  have hBB : B * B ≤ A * A := by nlinarith
  have hBB0 : 65536 * 65536 ≤ B * B := by nlinarith
  unfold hypotU
  rw [if_neg (by omega), if_neg (by omega), if_neg (by omega)]
  generalize hS : A * A + B * B = S at *
  have hmod : S % two64 = S := by unfold two64; omega
  rw [hmod, toI64_of_range (by omega) (by omega)]
  obtain ⟨q, hq, hq0, hhi, hlo⟩ := hs (S / 65536) (by omega) (by omega)
  refine ⟨q, hq, ?_⟩
  have hN1 : S - 65535 ≤ S / 65536 * 65536 := by omega
  have hN2 : S / 65536 * 65536 ≤ S := by omega
  have hqbig : 92681 ≤ q := by
    by_contra hcon
    push Not at hcon
    have : (q + 1) * (q + 1) ≤ 92681 * 92681 := by nlinarith
    omega
  have e1 : (q + 2) * (q + 2) = (q + 1) * (q + 1) + (2 * q + 3) := by ring
  have e2 : (q - 2) * (q - 2) = (q - 1) * (q - 1) - (2 * q - 3) := by ring
  rcases hlo with hz | hlo
  · omega
  · refine ⟨by omega, ?_, ?_⟩
    · rw [e2]; omega
    · rw [e1]; omega

theorem pow_le_of_lt (L : Nat) (A : Int) (bound : Nat) (h1 : (2 : Int) ^ L ≤ A) (h2 : A < 2 ^ bound) : L < bound := by
  by_contra hcon
  push Not at hcon
  have : (2 : Int) ^ bound ≤ 2 ^ L := by exact_mod_cast Nat.pow_le_pow_right (by norm_num : 0 < 2) hcon
  omega

theorem sq_mono (x y : Int) (h0 : 0 ≤ x) (h : x ≤ y) : x * x ≤ y * y := by nlinarith

theorem left_upper_arith (p h q S A NN : Int) (hp : 2 ≤ p) (hh0 : 0 ≤ h) (hq0 : 0 ≤ q)
    (H1 : q + 1 ≤ (h + 1) * p) (H2 : NN < (q + 1) * (q + 1)) (H3 : p * p * S - 65535 ≤ NN)
    (H4 : A * A ≤ S) (hA : 1 ≤ A) (H5 : 2147483648 ≤ A * p * p) : S ≤ (h + 2) * (h + 2) := by
  have hQ : (q + 1) * (q + 1) ≤ ((h + 1) * p) * ((h + 1) * p) := sq_mono _ _ (by omega) H1
  have eQ : ((h + 1) * p) * ((h + 1) * p) = p * p * ((h + 1) * (h + 1)) := by ring
  have hPP : 4 ≤ p * p := by nlinarith
  have hk : p * p * S < p * p * ((h + 1) * (h + 1)) + 65536 := by omega
  by_contra hcon
  push Not at hcon
  have e : (h + 2) * (h + 2) = (h + 1) * (h + 1) + (2 * h + 3) := by ring
  rw [e] at hcon
  have hc' : (h + 1) * (h + 1) + (2 * h + 4) ≤ S := by omega
  have m1 := Int.mul_le_mul_of_nonneg_left hc' (show 0 ≤ p * p by omega)
  rw [Int.mul_add] at m1
  have k2 : p * p * (2 * h + 4) < 65536 := by omega
  have eA : A * p * p = p * p * A := by ring
  by_cases hAle : A ≤ h + 1
  · have : p * p * A ≤ p * p * (2 * h + 4) := Int.mul_le_mul_of_nonneg_left (by omega) (by omega)
    omega
  · push Not at hAle
    have hAA : (h + 1) * (h + 1) + A ≤ A * A := by nlinarith
    have hS2 : (h + 1) * (h + 1) + A ≤ S := by omega
    have m2 := Int.mul_le_mul_of_nonneg_left hS2 (show 0 ≤ p * p by omega)
    rw [Int.mul_add] at m2
    omega

theorem left_lower_arith (p h q S NN : Int) (hp : 1 ≤ p) (h3 : 3 ≤ h) (H1 : h * p ≤ q)
    (H2 : (q - 1) * (q - 1) < NN) (H3 : NN ≤ p * p * S) : (h - 2) * (h - 2) ≤ S := by
  have e1 : (h - 1) * p = h * p - p := by ring
  have h1 : (h - 1) * p ≤ q - 1 := by rw [e1]; omega
  have h1' : 0 ≤ (h - 1) * p := Int.mul_nonneg (by omega) (by omega)
  have h2 := sq_mono _ _ h1' h1
  have e2 : ((h - 1) * p) * ((h - 1) * p) = p * p * ((h - 1) * (h - 1)) := by ring
  rw [e2] at h2
  have hPP : 0 < p * p := by nlinarith
  have h4 : (h - 1) * (h - 1) < S := by
    by_contra hc
    push Not at hc
    have := Int.mul_le_mul_of_nonneg_left hc (le_of_lt hPP)
    omega
  have e : (h - 2) * (h - 2) = (h - 1) * (h - 1) - (2 * h - 3) := by ring
  rw [e]; omega

/-- small second operand: both operands are scaled up before the squares are taken -/
theorem hypotU_left (be : SqrtBE) (hs : SqrtNear be) (A B : Int) (hA0 : 1 ≤ A) (hA : A < 1073741824)
    (hB0 : 0 ≤ B) (hB : B < 65536) (hBA : B ≤ A) :
    ∃ h : Int, hypotU be A B = .ok h ∧ 0 ≤ h ∧ A * A + B * B ≤ (h + 2) * (h + 2) ∧
      (h ≤ 2 ∨ (h - 2) * (h - 2) ≤ A * A + B * B) := by
  obtain ⟨L, hclz, hL1, hL2⟩ := clz64_spec A (by omega)
  have hL : L < 30 := pow_le_of_lt L A 30 hL1 (by norm_num; omega)
  unfold hypotU
  rw [if_neg (by omega), if_neg (by omega), if_pos hB, hclz]
  simp only []
  generalize hsd : min (max (63 - (L : Int) - 30) 0 / 2) (63 - (L : Int) - 33) = s
  have hs1 : 1 ≤ s := by omega
  have hs2 : s ≤ 16 := by omega
  have hsa : (L : Int) + 1 + s ≤ 31 := by omega
  have hsb : 31 ≤ (L : Int) + 2 * s := by omega
  obtain ⟨sN, rfl⟩ : ∃ sN : Nat, s = (sN : Int) := ⟨s.toNat, by omega⟩
  have hsr : (0 : Int) ≤ (sN : Int) ∧ (sN : Int) < 64 := by omega
  unfold shlU64 shr64
  simp only [hsr, and_self, if_true, Int.toNat_natCast, bind, Except.bind, pure, Except.pure]
  generalize hp : (2 : Int) ^ sN = p
  have hp2 : 2 ≤ p := by
    rw [← hp]
    have : (2 : Int) ^ 1 ≤ 2 ^ sN := by exact_mod_cast Nat.pow_le_pow_right (by norm_num : 0 < 2) (by omega : 1 ≤ sN)
    omega
  have hAp : A * p < 2147483648 := by
    have h1 : A * p < 2 ^ (L + 1) * p := Int.mul_lt_mul_of_pos_right hL2 (by omega)
    have h2 : (2 : Int) ^ (L + 1) * p = 2 ^ (L + 1 + sN) := by rw [← hp, ← pow_add]
    have h3 : (2 : Int) ^ (L + 1 + sN) ≤ 2 ^ 31 := by exact_mod_cast Nat.pow_le_pow_right (by norm_num : 0 < 2) (by omega : L + 1 + sN ≤ 31)
    rw [h2] at h1
    norm_num at h3; omega
  have hApp : 2147483648 ≤ A * p * p := by
    have h0 : (2 : Int) ^ L * p ≤ A * p := Int.mul_le_mul_of_nonneg_right hL1 (by omega)
    have h1 : (2 : Int) ^ L * p * p ≤ A * p * p := Int.mul_le_mul_of_nonneg_right h0 (by omega)
    have h2 : (2 : Int) ^ L * p * p = 2 ^ (L + sN + sN) := by rw [← hp, ← pow_add, ← pow_add]
    have h3 : (2 : Int) ^ 31 ≤ 2 ^ (L + sN + sN) := by exact_mod_cast Nat.pow_le_pow_right (by norm_num : 0 < 2) (by omega : 31 ≤ L + sN + sN)
    rw [h2] at h1
    norm_num at h3; omega
  have hBp : B * p ≤ A * p := Int.mul_le_mul_of_nonneg_right hBA (by omega)
  have hBp0 : 0 ≤ B * p := Int.mul_nonneg hB0 (by omega)
  have hAp0 : 0 < A * p := Int.mul_pos (by omega) (by omega)
  unfold two64
  have m1 : A * p % 18446744073709551616 = A * p := by omega
  have m2 : B * p % 18446744073709551616 = B * p := by omega
  rw [m1, m2]
  have hsq1 : A * p * (A * p) < 2147483648 * 2147483648 := by
    have := sq_mono (A * p) 2147483647 (by omega) (by omega); omega
  have hsq2 : B * p * (B * p) ≤ A * p * (A * p) := sq_mono _ _ hBp0 hBp
  have hsq0 : 0 ≤ B * p * (B * p) := Int.mul_nonneg hBp0 hBp0
  have hSp : A * p * (A * p) + B * p * (B * p) = p * p * (A * A + B * B) := by ring
  have hAS : A * A ≤ A * A + B * B := by have := Int.mul_nonneg hB0 hB0; omega
  generalize hSd : A * A + B * B = S at *
  generalize hS' : A * p * (A * p) + B * p * (B * p) = S' at *
  have m3 : S' % 18446744073709551616 = S' := by omega
  rw [m3, toI64_of_range (by omega) (by omega)]
  obtain ⟨q, hq, hq0, hhi, hlo⟩ := hs (S' / 65536) (by omega) (by omega)
  rw [hq]
  simp only []
  have hN1 : S' - 65535 ≤ S' / 65536 * 65536 := by omega
  have hN2 : S' / 65536 * 65536 ≤ S' := by omega
  generalize hh : q / p = h
  have hhp1 : h * p ≤ q := by rw [← hh]; exact Int.ediv_mul_le q (by omega)
  have hhp2 : q < (h + 1) * p := by rw [← hh]; exact Int.lt_ediv_add_one_mul_self q (by omega)
  have hh0 : 0 ≤ h := by rw [← hh]; exact Int.ediv_nonneg hq0 (by omega)
  refine ⟨h, rfl, hh0, ?_, ?_⟩
  · exact left_upper_arith p h q S A (S' / 65536 * 65536) hp2 hh0 hq0 (by omega) hhi (by rw [← hSp]; exact hN1) hAS hA0 hApp
  · by_cases h3 : h ≤ 2
    · exact Or.inl h3
    · right
      push Not at h3
      rcases hlo with hz | hlo
      · exfalso
        have : 0 < h * p := Int.mul_pos (by omega) (by omega)
        omega
      · exact left_lower_arith p h q S (S' / 65536 * 65536) (by omega) (by omega) hhp1 hlo (by rw [← hSp]; exact hN2)

/-- core inequalities of the large branch on the 16-bit mantissas -/
theorem large_core (a b q NN : Int) (ha1 : 32768 ≤ a) (ha2 : a < 65536) (hb0 : 0 ≤ b) (hb : b ≤ a) (hq0 : 0 ≤ q)
    (hN1 : NN ≤ a * a + b * b) (hN2 : a * a + b * b - 65535 ≤ NN) (hhi : NN < (q + 1) * (q + 1))
    (hlo : q = 0 ∨ (q - 1) * (q - 1) < NN) :
    19997 * 19997 * ((a + 1) * (a + 1) + (b + 1) * (b + 1)) ≤ 20000 * 20000 * (q * q) ∧
    20000 * 20000 * (q * q) ≤ 20003 * 20003 * (a * a + b * b) ∧ q ≤ a + b := by
  have hqab : q ≤ a + b := by
    rcases hlo with hz | hlo
    · omega
    · by_contra hcon
      push Not at hcon
      have h1 : (a + b) * (a + b) ≤ (q - 1) * (q - 1) := sq_mono _ _ (by omega) (by omega)
      have h2 : a * a + b * b ≤ (a + b) * (a + b) := by nlinarith
      omega
  refine ⟨?_, ?_, hqab⟩
  · have h2 : a * a + b * b < (q + 1) * (q + 1) + 65536 := by omega
    nlinarith [sq_nonneg (b - 6666), sq_nonneg (a - 32768), mul_nonneg hb0 (show 0 ≤ a by omega)]
  · have hq2 : q * q ≤ a * a + b * b + 4 * a := by
      rcases hlo with hz | hlo
      · subst hz; nlinarith
      · have e : q * q = (q - 1) * (q - 1) + (2 * q - 1) := by ring
        rw [e]; omega
    nlinarith

theorem large_lift (A B a b q p : Int) (hp : 1 ≤ p) (ha0 : 0 ≤ a) (hb0 : 0 ≤ b) (hq0 : 0 ≤ q)
    (hA1 : a * p ≤ A) (hA2 : A < (a + 1) * p) (hB1 : b * p ≤ B) (hB2 : B < (b + 1) * p) (hB0 : 0 ≤ B)
    (c1 : 19997 * 19997 * ((a + 1) * (a + 1) + (b + 1) * (b + 1)) ≤ 20000 * 20000 * (q * q))
    (c2 : 20000 * 20000 * (q * q) ≤ 20003 * 20003 * (a * a + b * b)) :
    19997 * 19997 * (A * A + B * B) ≤ 20000 * 20000 * ((q * p) * (q * p)) ∧
    20000 * 20000 * ((q * p) * (q * p)) ≤ 20003 * 20003 * (A * A + B * B) := by
  have hA0 : 0 ≤ A := le_trans (Int.mul_nonneg ha0 (by omega)) hA1
  have hPP : 0 ≤ p * p := Int.mul_nonneg (by omega) (by omega)
  have hA2s : A * A ≤ ((a + 1) * p) * ((a + 1) * p) := sq_mono _ _ hA0 (le_of_lt hA2)
  have hB2s : B * B ≤ ((b + 1) * p) * ((b + 1) * p) := sq_mono _ _ hB0 (le_of_lt hB2)
  have hA1s : (a * p) * (a * p) ≤ A * A := sq_mono _ _ (Int.mul_nonneg ha0 (by omega)) hA1
  have hB1s : (b * p) * (b * p) ≤ B * B := sq_mono _ _ (Int.mul_nonneg hb0 (by omega)) hB1
  constructor
  · have e1 : ((a + 1) * p) * ((a + 1) * p) + ((b + 1) * p) * ((b + 1) * p) = ((a + 1) * (a + 1) + (b + 1) * (b + 1)) * (p * p) := by ring
    have e2 : 20000 * 20000 * ((q * p) * (q * p)) = (20000 * 20000 * (q * q)) * (p * p) := by ring
    have m := Int.mul_le_mul_of_nonneg_right c1 hPP
    calc 19997 * 19997 * (A * A + B * B) ≤ 19997 * 19997 * (((a + 1) * p) * ((a + 1) * p) + ((b + 1) * p) * ((b + 1) * p)) := by
          apply Int.mul_le_mul_of_nonneg_left (by omega) (by norm_num)
      _ = (19997 * 19997 * ((a + 1) * (a + 1) + (b + 1) * (b + 1))) * (p * p) := by rw [e1]; ring
      _ ≤ (20000 * 20000 * (q * q)) * (p * p) := m
      _ = _ := e2.symm
  · have e1 : (a * p) * (a * p) + (b * p) * (b * p) = (a * a + b * b) * (p * p) := by ring
    have e2 : 20000 * 20000 * ((q * p) * (q * p)) = (20000 * 20000 * (q * q)) * (p * p) := by ring
    have m := Int.mul_le_mul_of_nonneg_right c2 hPP
    calc 20000 * 20000 * ((q * p) * (q * p)) = (20000 * 20000 * (q * q)) * (p * p) := e2
      _ ≤ (20003 * 20003 * (a * a + b * b)) * (p * p) := m
      _ = 20003 * 20003 * ((a * p) * (a * p) + (b * p) * (b * p)) := by rw [e1]; ring
      _ ≤ 20003 * 20003 * (A * A + B * B) := by
          apply Int.mul_le_mul_of_nonneg_left (by omega) (by norm_num)

/-- large first operand (≥ 16384.0): both operands are scaled down to 16 bits -/
theorem hypotU_large (be : SqrtBE) (hs : SqrtNear be) (A B : Int) (hA0 : 1073741824 ≤ A) (hA : A < 140737488355328)
    (hB0 : 0 ≤ B) (hBA : B ≤ A) :
    ∃ h : Int, hypotU be A B = .ok h ∧ 0 ≤ h ∧ h ≤ 9223372036854775806 ∧
      19997 * 19997 * (A * A + B * B) ≤ 20000 * 20000 * (h * h) ∧
      20000 * 20000 * (h * h) ≤ 20003 * 20003 * (A * A + B * B) := by
  obtain ⟨L, hclz, hL1, hL2⟩ := clz64_spec A (by omega)
  have hLlo : 30 < L + 1 := pow_le_of_lt 30 A (L + 1) (by norm_num; omega) hL2
  have hLhi : L < 47 := pow_le_of_lt L A 47 hL1 (by norm_num; omega)
  unfold hypotU
  rw [if_neg (by omega), if_pos (by omega), hclz]
  simp only []
  have hr : (48 : Int) - (63 - (L : Int)) = ((L - 15 : ℕ) : Int) := by omega
  rw [hr]
  set sN : Nat := L - 15 with hsN
  have hsr : (0 : Int) ≤ (sN : Int) ∧ (sN : Int) < 64 := by omega
  unfold shrU64 shlU64
  simp only [hsr, and_self, if_true, Int.toNat_natCast, bind, Except.bind, pure, Except.pure]
  generalize hp : (2 : Int) ^ sN = p
  have hp1 : 1 ≤ p := by
    rw [← hp]; have : (0 : Int) < 2 ^ sN := by positivity
    omega
  have hp31 : p ≤ 2147483648 := by
    rw [← hp]
    have : (2 : Int) ^ sN ≤ 2 ^ 31 := by exact_mod_cast Nat.pow_le_pow_right (by norm_num : 0 < 2) (by omega : sN ≤ 31)
    norm_num at this; exact this
  -- 2^L = 32768 p
  have hLp : (2 : Int) ^ L = 32768 * p := by
    have : L = 15 + sN := by omega
    rw [this, pow_add, hp]; norm_num
  have hL2' : A < 65536 * p := by
    have : (2 : Int) ^ (L + 1) = 2 * 2 ^ L := by rw [pow_succ]; ring
    rw [this, hLp] at hL2; omega
  rw [hLp] at hL1
  -- mantissas
  generalize ha : A / p = a
  generalize hb : B / p = b
  have hA1 : a * p ≤ A := by rw [← ha]; exact Int.ediv_mul_le A (by omega)
  have hA2 : A < (a + 1) * p := by rw [← ha]; exact Int.lt_ediv_add_one_mul_self A (by omega)
  have hB1 : b * p ≤ B := by rw [← hb]; exact Int.ediv_mul_le B (by omega)
  have hB2 : B < (b + 1) * p := by rw [← hb]; exact Int.lt_ediv_add_one_mul_self B (by omega)
  have hb0 : 0 ≤ b := by rw [← hb]; exact Int.ediv_nonneg hB0 (by omega)
  have ha1 : 32768 ≤ a := by
    by_contra hc; push Not at hc
    have : (a + 1) * p ≤ 32768 * p := Int.mul_le_mul_of_nonneg_right (by omega) (by omega)
    omega
  have ha2 : a < 65536 := by
    by_contra hc; push Not at hc
    have : 65536 * p ≤ a * p := Int.mul_le_mul_of_nonneg_right hc (by omega)
    omega
  have hba : b ≤ a := by
    rw [← ha, ← hb]; exact Int.ediv_le_ediv (by omega) hBA
  have haa : a * a < 65536 * 65536 := by
    have := sq_mono a 65535 (by omega) (by omega); omega
  have hbb : b * b ≤ a * a := sq_mono _ _ hb0 hba
  have hbb0 : 0 ≤ b * b := Int.mul_nonneg hb0 hb0
  have haa0 : 32768 * 32768 ≤ a * a := sq_mono 32768 a (by omega) ha1
  unfold two64
  generalize hS : a * a + b * b = S' at *
  have m3 : S' % 18446744073709551616 = S' := by omega
  rw [m3, toI64_of_range (by omega) (by omega)]
  obtain ⟨q, hq, hq0, hhi, hlo⟩ := hs (S' / 65536) (by omega) (by omega)
  rw [hq]
  simp only []
  have hN1 : S' - 65535 ≤ S' / 65536 * 65536 := by omega
  have hN2 : S' / 65536 * 65536 ≤ S' := by omega
  obtain ⟨c1, c2, hqab⟩ := large_core a b q (S' / 65536 * 65536) ha1 ha2 hb0 hba hq0 (by rw [hS]; exact hN2) (by rw [hS]; exact hN1) hhi hlo
  -- q p fits
  have hqp : q * p ≤ 131072 * 2147483648 := by
    have : q * p ≤ 131072 * p := Int.mul_le_mul_of_nonneg_right (by omega) (by omega)
    omega
  have hqp0 : 0 ≤ q * p := Int.mul_nonneg hq0 (by omega)
  unfold toU64 two64
  have m4 : q % 18446744073709551616 = q := by omega
  rw [m4]
  have m5 : q * p % 18446744073709551616 = q * p := by omega
  rw [m5]
  unfold lim_max
  rw [if_pos (by omega), toI64_of_range (by omega) (by omega)]
  obtain ⟨r1, r2⟩ := large_lift A B a b q p hp1 (by omega) hb0 hq0 hA1 hA2 hB1 hB2 hB0 c1 c2
  exact ⟨q * p, rfl, hqp0, by omega, r1, r2⟩

end FixedMath

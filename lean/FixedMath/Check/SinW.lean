/-
  C09 kernel check, one point per reduced argument `w` (|w| ≤ phi/2): the model's polynomial
  `sinPoly w` is within (11/5) ulp + ((|w|-12)/65536)^9/9! of sin(w/65536).
  The remaining 4 - 11/5 ulp of the property's budget is consumed analytically by the range
  reduction (Proofs/SinReduce.lean, Spec/C09.lean).
-/
import FixedMath.Model.Sin
import FixedMath.Check.Taylor

namespace FixedMath.Chk
open FixedMath

/-- `|p/65536 - sin(n/65536)| ≤ (11/5)/65536 + ((n-12)/65536)^9/9!` decided through the degree-15 Taylor
    enclosure (remainder ≤ 2^-35 for n ≤ 102944); `p = ± pmag` -/
def accSinW (n : Nat) (pneg : Bool) (pmag : Nat) : Bool :=
  let sc := sinScale 16
  let u := sc / 65536
  let slack := sc / 34359738368
  let m := n - 12
  let tol := 11 * u + 5 * (m ^ 9 * 285506606436402966952094979430809600)   -- 3603600 * 2^96
  Nat.ble n 102944 &&
  (if pneg then
     Nat.ble (5 * (pmag * u + sinPos 16 n + slack)) (5 * sinNeg 16 n + tol) &&
     Nat.ble (5 * (sinNeg 16 n + slack)) (5 * (pmag * u + sinPos 16 n) + tol)
   else
     Nat.ble (5 * (pmag * u + sinNeg 16 n + slack)) (5 * sinPos 16 n + tol) &&
     Nat.ble (5 * (sinPos 16 n + slack)) (5 * (pmag * u + sinNeg 16 n) + tol))

/-- the check at one reduced argument (vacuous outside |w| ≤ 102943): range `|p| ≤ 1` and accuracy -/
def checkW (w : Int) : Bool :=
  if w.natAbs > 102943 then true
  else match sinPoly w with
    | .ok p => Nat.ble p.natAbs 65536 && accSinW w.natAbs (decide (p < 0) != decide (w < 0)) p.natAbs
    | .error _ => false

def checkRangeW : Nat → Int → Bool
  | 0, _ => true
  | k + 1, lo => checkW lo && checkRangeW k (lo + 1)

theorem checkRangeW_sound : ∀ (k : Nat) (lo : Int), checkRangeW k lo = true →
    ∀ w : Int, lo ≤ w → w < lo + k → checkW w = true := by
  intro k
  induction k with
  | zero => intro lo _ w h1 h2; omega
  | succ k ih =>
    intro lo h w h1 h2
    simp only [checkRangeW, Bool.and_eq_true] at h
    by_cases hw : w = lo
    · subst hw; exact h.1
    · exact ih (lo + 1) h.2 w (by omega) (by omega)

end FixedMath.Chk

/-
  C11 kernel check of the polynomial kernel `detail::atan<16>` (model: `atanKernel 16`) at every argument
  z ∈ [0, 28672) it is ever called with:
     k = K(z) ≥ 0,   -19/16 ≤ k − 65536·arctan(z/65536) ≤ 2/16      (through t·cos B ≤ sin B at B = (16k+19)/2^20,
                                                                     sin B ≤ t·cos B at B = (16k−2)/2^20)
     K(z) ≤ K(z+1) ≤ K(z) + 1                                         (monotone with unit steps)
-/
import FixedMath.Model.Atan
import FixedMath.Check.Taylor

namespace FixedMath.Chk
open FixedMath

/-- `t·cos B ≤ sin B` for `t = z/65536`, `B = T/2^K` -/
def atanLe (K T z : Nat) : Bool :=
  let sl S := S / 17179869184 + 1
  let scS := sinScale K
  let scC := cosScale K
  let cHi := cosPos K T + sl scC - cosNeg K T
  let sLo := sinPos K T - (sinNeg K T + sl scS)
  Nat.ble (5 * T) (8 * 2 ^ K) && Nat.blt (cosNeg K T + sl scC) (cosPos K T) &&
  Nat.ble (z * cHi * scS) (65536 * sLo * scC)

/-- `sin B ≤ t·cos B` -/
def atanGe (K T z : Nat) : Bool :=
  let sl S := S / 17179869184 + 1
  let scS := sinScale K
  let scC := cosScale K
  let cLo := cosPos K T - cosNeg K T - sl scC
  let sHi := sinPos K T + sl scS - sinNeg K T
  Nat.ble (5 * T) (8 * 2 ^ K) && Nat.blt (cosNeg K T + sl scC) (cosPos K T) &&
  Nat.ble (sHi * 65536 * scC) (z * cLo * scS)

def checkAtanK (z : Nat) : Bool :=
  if z ≥ 28672 then true
  else match atanKernel 16 (z : Int) with
    | .ok k =>
      decide (0 ≤ k) && atanLe 20 (16 * k.natAbs + 19) z &&
      (if 16 * k.natAbs < 2 then true else atanGe 20 (16 * k.natAbs - 2) z) &&
      (if z = 28671 then true
       else match atanKernel 16 ((z : Int) + 1) with
         | .ok k' => decide (k ≤ k') && decide (k' ≤ k + 1)
         | .error _ => false)
    | .error _ => false

def checkRangeAtanK : Nat → Nat → Bool
  | 0, _ => true
  | n + 1, lo => checkAtanK lo && checkRangeAtanK n (lo + 1)

theorem checkRangeAtanK_sound : ∀ (k lo : Nat), checkRangeAtanK k lo = true →
    ∀ w : Nat, lo ≤ w → w < lo + k → checkAtanK w = true := by
  intro k
  induction k with
  | zero => intro lo _ w h1 h2; omega
  | succ k ih =>
    intro lo h w h1 h2
    simp only [checkRangeAtanK, Bool.and_eq_true] at h
    by_cases hw : w = lo
    · subst hw; exact h.1
    · exact ih (lo + 1) h.2 w (by omega) (by omega)

end FixedMath.Chk

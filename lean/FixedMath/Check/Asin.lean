/-
  C12 kernel checks. For an argument n ∈ [0, 65536] with result A = asin(n):
   0 ≤ A ≤ 102944,  monotone steps,
     sin((A-4)/65536) ≤ min(1, (n+2)/65536)      and     (A+4 ≤ 102943 → (n-2)/65536 ≤ sin((A+4)/65536)),
  which yields an x' within 2 ulp of x with |asin(x) − arcsin x'| ≤ 4 ulp (Real/AsinSound.lean).
-/
import FixedMath.Model.Asin
import FixedMath.Model.Conv
import FixedMath.Check.Taylor

namespace FixedMath.Chk
open FixedMath

/-- `sin(T/2^K) ≤ num/den` through the Taylor enclosure (sufficient condition) -/
def sinLeQ (K T num den : Nat) : Bool :=
  Nat.ble (5 * T) (8 * 2 ^ K) &&
  Nat.ble ((sinPos K T + (sinScale K / 34359738368 + 1)) * den) (sinNeg K T * den + num * sinScale K)
/-- `num/den ≤ sin(T/2^K)` -/
def sinGeQ (K T num den : Nat) : Bool :=
  Nat.ble (5 * T) (8 * 2 ^ K) &&
  Nat.ble ((sinNeg K T + (sinScale K / 34359738368 + 1)) * den + num * sinScale K) (sinPos K T * den)

def accAsin (n : Nat) (A : Int) : Bool :=
  decide (0 ≤ A) && decide (A ≤ 102944) &&
  sinLeQ 16 (A.natAbs - 4) (min 65536 (n + 2)) 65536 &&
  (if A.natAbs + 4 ≤ 102943 then sinGeQ 16 (A.natAbs + 4) (n - 2) 65536 else true)

/-- small branch, one point per n ∈ [0, 39322] : accuracy and `asinSmall n ≤ asinSmall (n+1)` -/
def checkAsinSmall (n : Nat) : Bool :=
  if n > 39322 then true
  else match asinSmall (n : Int) with
    | .ok A => accAsin n A &&
        (if n = 39322 then true
         else match asinSmall ((n : Int) + 1) with
           | .ok B => decide (A ≤ B)
           | .error _ => false)
    | .error _ => false

/-- big branch for a given value `s` of the square root of `d = (65536 - x_) >> 1`: both arguments
    `x_ = 65536 - 2d` and `65536 - 2d - 1` (when above 39322) get `A = asinBig s` -/
def checkBigWith (d : Nat) (s : Int) : Bool :=
  match asinBig s with
  | .ok A =>
    accAsin (65536 - 2 * d) A &&
    (if 65536 - 2 * d - 1 > 39322 then accAsin (65536 - 2 * d - 1) A else true)
  | .error _ => false

/-- abacus back-end: the square root is characterised (Proofs/Sqrt.lean) as the `r` with `r² ≤ d·2^16 < (r+1)²`;
    the checker verifies that bracket for `r = Nat.sqrt (d·2^16)` instead of running the loop;
    monotone step: `asinBig (sqrt (d+1)) ≤ asinBig (sqrt d)` -/
def checkAsinBigAb (d : Nat) : Bool :=
  if d > 13106 then true
  else
    let r := Nat.sqrt (d * 65536)
    let r' := Nat.sqrt ((d + 1) * 65536)
    Nat.ble (r * r) (d * 65536) && Nat.blt (d * 65536) ((r + 1) * (r + 1)) &&
    Nat.ble (r' * r') ((d + 1) * 65536) && Nat.blt ((d + 1) * 65536) ((r' + 1) * (r' + 1)) &&
    checkBigWith d (r : Int) &&
    (match asinBig (r : Int), asinBig (r' : Int) with
     | .ok A, .ok B => decide (B ≤ A)
     | _, _ => false)

/-- std::sqrt back-end: the square root is the value of the IEEE model -/
def checkAsinBigStd (d : Nat) : Bool :=
  if d > 13106 then true
  else match sqrtStd (d : Int), sqrtStd ((d : Int) + 1) with
    | .ok s, .ok s' =>
      checkBigWith d s &&
      (match asinBig s, asinBig s' with
       | .ok A, .ok B => decide (B ≤ A)
       | _, _ => false)
    | _, _ => false

/-- the seam between the branches: asin(39322) ≤ asin(39323) for both back-ends -/
def checkSeam : Bool :=
  match asinSmall 39322, asinBig (Nat.sqrt (13106 * 65536) : Int), sqrtStd 13106 with
  | .ok A, .ok B, .ok s => decide (A ≤ B) && (match asinBig s with | .ok C => decide (A ≤ C) | .error _ => false)
  | _, _, _ => false

def checkRangeF (f : Nat → Bool) : Nat → Nat → Bool
  | 0, _ => true
  | k + 1, lo => f lo && checkRangeF f k (lo + 1)

theorem checkRangeF_sound (f : Nat → Bool) : ∀ (k lo : Nat), checkRangeF f k lo = true →
    ∀ w : Nat, lo ≤ w → w < lo + k → f w = true := by
  intro k
  induction k with
  | zero => intro lo _ w h1 h2; omega
  | succ k ih =>
    intro lo h w h1 h2
    simp only [checkRangeF, Bool.and_eq_true] at h
    by_cases hw : w = lo
    · subst hw; exact h.1
    · exact ih (lo + 1) h.2 w (by omega) (by omega)

def checkRangeAsinSmall (k lo : Nat) : Bool := checkRangeF checkAsinSmall k lo
def checkRangeAsinBigAb (k lo : Nat) : Bool := checkRangeF checkAsinBigAb k lo
def checkRangeAsinBigStd (k lo : Nat) : Bool := checkRangeF checkAsinBigStd k lo
theorem checkRangeAsinSmall_sound (k lo : Nat) (h : checkRangeAsinSmall k lo = true) :
    ∀ w : Nat, lo ≤ w → w < lo + k → checkAsinSmall w = true := checkRangeF_sound _ k lo h
theorem checkRangeAsinBigAb_sound (k lo : Nat) (h : checkRangeAsinBigAb k lo = true) :
    ∀ w : Nat, lo ≤ w → w < lo + k → checkAsinBigAb w = true := checkRangeF_sound _ k lo h
theorem checkRangeAsinBigStd_sound (k lo : Nat) (h : checkRangeAsinBigStd k lo = true) :
    ∀ w : Nat, lo ≤ w → w < lo + k → checkAsinBigStd w = true := checkRangeF_sound _ k lo h

end FixedMath.Chk

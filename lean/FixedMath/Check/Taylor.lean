/-
  Nat-only building blocks of the reflective checkers (evaluated by the Lean kernel with GMP
  acceleration): Taylor polynomials of sin and cos at a dyadic point `T / 2^K`, scaled to integers,
  positive and negative terms accumulated separately (no subtraction anywhere).
     sinPos K T - sinNeg K T = 15! · 2^(15K) · S8 (T / 2^K)
     cosPos K T - cosNeg K T = 16! · 2^(16K) · C9 (T / 2^K)
  No Mathlib import.
-/
namespace FixedMath.Chk

def sinPos (K T : Nat) : Nat :=
  1307674368000 * T * 2 ^ (14 * K) + 10897286400 * T ^ 5 * 2 ^ (10 * K) + 3603600 * T ^ 9 * 2 ^ (6 * K) + 210 * T ^ 13 * 2 ^ (2 * K)
def sinNeg (K T : Nat) : Nat :=
  217945728000 * T ^ 3 * 2 ^ (12 * K) + 259459200 * T ^ 7 * 2 ^ (8 * K) + 32760 * T ^ 11 * 2 ^ (4 * K) + T ^ 15
/-- `15! · 2^(15K)` -/
def sinScale (K : Nat) : Nat := 1307674368000 * 2 ^ (15 * K)

def cosPos (K T : Nat) : Nat :=
  20922789888000 * 2 ^ (16 * K) + 871782912000 * T ^ 4 * 2 ^ (12 * K) + 518918400 * T ^ 8 * 2 ^ (8 * K) + 43680 * T ^ 12 * 2 ^ (4 * K) + T ^ 16
def cosNeg (K T : Nat) : Nat :=
  10461394944000 * T ^ 2 * 2 ^ (14 * K) + 29059430400 * T ^ 6 * 2 ^ (10 * K) + 5765760 * T ^ 10 * 2 ^ (6 * K) + 240 * T ^ 14 * 2 ^ (2 * K)
/-- `16! · 2^(16K)` -/
def cosScale (K : Nat) : Nat := 20922789888000 * 2 ^ (16 * K)

end FixedMath.Chk

/-
  C10 kernel check, one point per reduced argument x1 ∈ [0, phi): the model's `tanRed x1 false`
  satisfies |T·cos x − sin x|·|cos x| ≤ 2.5 ulp at the TRUE angle x = x1/65536 (second quadrant: through
  t = π − x with π replaced by its 40-bit dyadic enclosure), is NaN exactly at the library's pole, and is
  small enough to be negated.
-/
import FixedMath.Model.Tan
import FixedMath.Check.Tables

namespace FixedMath.Chk
open FixedMath

/-- `⌊π·2^40⌋ − phi·2^24` : the library's pi constant versus π, at 40 fractional bits -/
def D40 : Nat := P40 - 205887 * 16777216

def checkTanV (x1 : Nat) : Bool :=
  if x1 > 205886 then true
  else match tanRed (x1 : Int) false with
    | .ok T =>
      if x1 = 102944 then decide (T = 9223372036854775807)
      else if x1 < 102944 then
        decide (0 ≤ T) && Nat.ble T.natAbs 1099511627776 && accTan 40 (x1 * 16777216) T.natAbs 5 131072
      else
        decide (T ≤ 0) && Nat.ble T.natAbs 1099511627776 && accTan 40 ((205887 - x1) * 16777216 + D40) T.natAbs 5 131072
    | .error _ => false

def checkRangeTanV : Nat → Nat → Bool
  | 0, _ => true
  | k + 1, lo => checkTanV lo && checkRangeTanV k (lo + 1)

theorem checkRangeTanV_sound : ∀ (k lo : Nat), checkRangeTanV k lo = true →
    ∀ w : Nat, lo ≤ w → w < lo + k → checkTanV w = true := by
  intro k
  induction k with
  | zero => intro lo _ w h1 h2; omega
  | succ k ih =>
    intro lo h w h1 h2
    simp only [checkRangeTanV, Bool.and_eq_true] at h
    by_cases hw : w = lo
    · subst hw; exact h.1
    · exact ih (lo + 1) h.2 w (by omega) (by omega)

end FixedMath.Chk

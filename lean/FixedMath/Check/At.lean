/-
  Generic Nat-only acceptance predicate: "y is within tolN/tolD of ± sin t (or ± cos t)"
  for every real t within 2^-35 of the dyadic point T/2^K ≤ 8/5.
  Used for the table entries (C19), the degree helpers (C20), tan (C10) and asin (C12).
-/
import FixedMath.Check.Taylor

namespace FixedMath.Chk

def accAt (useCos fneg : Bool) (K T : Nat) (yneg : Bool) (ymag tolN tolD : Nat) : Bool :=
  let sc := if useCos then cosScale K else sinScale K
  let pP := if useCos then cosPos K T else sinPos K T
  let pN := if useCos then cosNeg K T else sinNeg K T
  let a := ymag * sc * tolD * 17179869184
  let fP := pP * 65536 * tolD * 17179869184
  let fN := pN * 65536 * tolD * 17179869184
  let sl := 65536 * sc * tolD
  let tl := tolN * 65536 * sc * 17179869184
  let yp := if yneg then 0 else a
  let yn := if yneg then a else 0
  let Fp := if fneg then fN else fP
  let Fn := if fneg then fP else fN
  Nat.ble (5 * T) (8 * 2 ^ K) && (Nat.ble (yp + Fn + sl) (yn + Fp + tl) && Nat.ble (yn + Fp + sl) (yp + Fn + tl))

end FixedMath.Chk

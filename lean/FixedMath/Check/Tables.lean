/-
  C19 kernel checks over the REGENERATED tables (Generated/Tables.lean): every entry of the sine,
  cosine, tangent and square-root tables is faithful to the function it tabulates.
-/
import FixedMath.Check.At
import FixedMath.Generated.Tables

namespace FixedMath.Chk
open FixedMath.Gen

/-- `⌊π·2^40⌋` -/
def P40 : Nat := 3454217652357

/-- dyadic approximation (K = 64) of `j·π/180` -/
def degT (j : Nat) : Nat := (j * P40 * 16777216) / 180

/-- entry `e` is within 2 ulp of sin(i°) -/
def checkSinEntry (i : Nat) (e : Int) : Bool :=
  let q := (i / 90) % 4
  let j := i % 90
  accAt (q == 1 || q == 3) (q == 2 || q == 3) 64 (degT j) (decide (e < 0)) e.natAbs 2 65536

/-- entry `e` is within 2 ulp of cos(i°) : cos θ = sin(θ + 90°) -/
def checkCosEntry (i : Nat) (e : Int) : Bool := checkSinEntry (i + 90) e

def checkSinTab : Nat → List Int → Bool
  | _, [] => true
  | i, e :: es => checkSinEntry i e && checkSinTab (i + 1) es
def checkCosTab : Nat → List Int → Bool
  | _, [] => true
  | i, e :: es => checkCosEntry i e && checkCosTab (i + 1) es

/-- square-root table: `(e-1)² ≤ 2^32·(i/256 + 31/2^18) ≤ (e+1)²` -/
def checkSqrtEntry (i : Nat) (e : Int) : Bool :=
  let n := i * 16777216 + 507904
  decide (1 ≤ e) && Nat.ble ((e.natAbs - 1) * (e.natAbs - 1)) n && Nat.ble n ((e.natAbs + 1) * (e.natAbs + 1))
def checkSqrtTab : Nat → List Int → Bool
  | _, [] => true
  | i, e :: es => checkSqrtEntry i e && checkSqrtTab (i + 1) es

/-- `|y·cos t − sin t|·cos t ≤ BN/BD` for `y = ymag/65536 ≥ 0` and every real `t ≥ 0` within 2^-35 of `T/2^K ∈ [0, 8/5]`,
    through enclosures of sin and cos; the lower bound of sin is clipped at 0 (sin t ≥ 0 on that range), the guard
    makes the truncated subtraction for cos exact -/
def accTan (K T ymag BN BD : Nat) : Bool :=
  let scS := sinScale K
  let scC := cosScale K
  let slS := scS / 17179869184 + 1
  let slC := scC / 17179869184 + 1
  let sP := sinPos K T
  let sN := sinNeg K T
  let cP := cosPos K T
  let cN := cosNeg K T
  let sHi := sP + slS - sN
  let sLo := sP - (sN + slS)
  let cHi := cP + slC - cN
  let cLo := cP - cN - slC
  Nat.ble (5 * T) (8 * 2 ^ K) && Nat.blt (cN + slC) cP &&
  Nat.ble (ymag * cHi * cHi * scS * BD) (BN * 65536 * scC * scC * scS + sLo * cHi * 65536 * scC * BD) &&
  Nat.ble (sHi * cHi * 65536 * scC * BD) (BN * 65536 * scC * scC * scS + ymag * cLo * cHi * scS * BD)

/-- dyadic approximation (K = 48) of `j·π/256` -/
def tanT (j : Nat) : Nat := j * P40

/-- tangent table entry `i ≠ 128`: reflected into (0, π/2) -/
def checkTanEntry (i : Nat) (e : Int) : Bool :=
  if i = 128 then true
  else if i < 128 then decide (0 ≤ e) && accTan 48 (tanT i) e.natAbs 2 65536
  else decide (e ≤ 0) && accTan 48 (tanT (256 - i)) e.natAbs 2 65536
def checkTanTab : Nat → List Int → Bool
  | _, [] => true
  | i, e :: es => checkTanEntry i e && checkTanTab (i + 1) es

end FixedMath.Chk

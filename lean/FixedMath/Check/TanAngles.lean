/-
  C19, atan_index_aprox: every tangent-table entry (i ≠ 0, 128) has its arctangent within 10/65536 rad of the angle
  it stands for: `arctan(|tab[i]|/65536)` against `j·π/256`, `j = i` (i < 128) or `256 − i` (i > 128), through the
  reflective `atanLe` / `atanGe` checkers (sin/cos Taylor enclosures at the dyadic bracket points).
  Also: the part of the table searched for negative arguments is sorted.
-/
import FixedMath.Check.AtanK
import FixedMath.Check.Tables
import FixedMath.Generated.Tables

namespace FixedMath.Chk
open FixedMath Gen

/-- lower / upper dyadic brackets (units 1/65536 rad) of `j·π/256`, widened by 8 units -/
def angLo (j : Nat) : Nat := j * 256 * P40 / 1099511627776 - 8
def angHi (j : Nat) : Nat := j * 256 * (P40 + 1) / 1099511627776 + 9

def checkTanAngle (i : Nat) : Bool :=
  let e := tan_tableL.getD i 0
  if i = 0 ∨ i = 128 ∨ i ≥ 256 then true
  else if i < 128 then decide (0 < e) && atanGe 16 (angLo i) e.natAbs && atanLe 16 (angHi i) e.natAbs
  else decide (e < 0) && atanGe 16 (angLo (256 - i)) e.natAbs && atanLe 16 (angHi (256 - i)) e.natAbs

def checkTanAngles : Bool := (List.range 256).all checkTanAngle

/-- `tab[i] ≤ tab[i+1]` for 129 ≤ i < 255 -/
def checkTanSorted : Bool := (List.range 126).all (fun k => decide (tan_tableL.getD (129 + k) 0 ≤ tan_tableL.getD (130 + k) 0))

end FixedMath.Chk

/-
  C20 kernel checks over the 721 integer angles d ∈ [-360, 360]:
   * tan_angle(d) against Real.tan(d°) with the division-free criterion and tolerance 5 ulp,
   * a `float` carrying d converts to exactly d·65536 (so every argument type computes the same radians).
-/
import FixedMath.Model.Angle
import FixedMath.Check.Tables

namespace FixedMath.Chk
open FixedMath

/-- one angle, `d = n - 360` -/
def checkTanDeg (n : Nat) : Bool :=
  let d : Int := (n : Int) - 360
  let j := (n + 360) % 180          -- d mod 180 in [0, 180)
  match tanAngleInt .i32 d with
  | .ok T =>
    if j = 90 then true              -- cos(d°) = 0 : outside the property
    else if j < 90 then decide (0 ≤ T) && accTan 64 (degT j) T.natAbs 5 65536
    else decide (T ≤ 0) && accTan 64 (degT (180 - j)) T.natAbs 5 65536
  | .error _ => false

def checkFloatDeg (n : Nat) : Bool :=
  let d : Int := (n : Int) - 360
  match fpToFixed b32 (ofInt b32 d) with
  | .ok r => decide (r = d * 65536)
  | .error _ => false

def checkDegRange (f : Nat → Bool) : Nat → Nat → Bool
  | 0, _ => true
  | k + 1, lo => f lo && checkDegRange f k (lo + 1)

theorem checkDegRange_sound (f : Nat → Bool) : ∀ (k lo : Nat), checkDegRange f k lo = true →
    ∀ n : Nat, lo ≤ n → n < lo + k → f n = true := by
  intro k
  induction k with
  | zero => intro lo _ n h1 h2; omega
  | succ k ih =>
    intro lo h n h1 h2
    simp only [checkDegRange, Bool.and_eq_true] at h
    by_cases hn : n = lo
    · subst hn; exact h.1
    · exact ih (lo + 1) h.2 n (by omega) (by omega)

set_option maxRecDepth 10000000 in
theorem tanDeg_checked : checkDegRange checkTanDeg 721 0 = true := by decide +kernel
set_option maxRecDepth 10000000 in
theorem floatDeg_checked : checkDegRange checkFloatDeg 721 0 = true := by decide +kernel

end FixedMath.Chk

/-
  Model of math.h: asin kernel, asin, acos.
  Line by line after the source; every signed `+ - * / % << >>` goes through CSem so that
  overflow, bad shifts and division traps are values of the model.
-/
import FixedMath.Model.Sqrt

namespace FixedMath
open Gen

/-- `detail::asin<p>` (the polynomial kernel) -/
def asinKernel (p : Int) (x : Int) : M Int := do
  let x2 ← mul_ p x x
  let c35o9 ← div_ p 35 9
  let c35o9 ← chk64 (c35o9 + 1)
  let c5o7 ← div_ p 5 7
  let c5o7 ← chk64 (c5o7 + 1)
  let c3o5 ← div_ p 3 5
  let c3o5 ← chk64 (c3o5 + 1)
  let c1o3 ← div_ p 1 3
  let c1 ← fix_ p 1
  let c63o11 ← div_ p 63 11
  let c63o11 ← chk64 (c63o11 + 1)
  let m ← mul_ (p + 1) x2 c63o11
  let y6 ← chk64 (c35o9 + m)
  let m ← mul_ (p + 3) x2 y6
  let y7 ← chk64 (c5o7 + m)
  let m ← mul_ (p + 1) x2 y7
  let y8 ← chk64 (c3o5 + m)
  let m ← mul_ (p + 2) x2 y8
  let y9 ← chk64 (c1o3 + m)
  let m ← mul_ (p + 1) x2 y9
  let y10 ← chk64 (c1 + m)
  mul_ p x y10

/-- `asin`, branch `x_ ≤ 0.60` : `asin<20>(x_ << 4) >> 4` -/
def asinSmall (x_ : Int) : M Int := do
  let a ← shl64 x_ 4
  let r ← asinKernel 20 a
  shr64 r 4

/-- `asin`, branch `x_ > 0.60`, after `sqr = sqrt((1 - x_) >> 1)` : `fixpidiv2 - (asin<20>(sqr << 4) >> 3)` -/
def asinBig (sqr : Int) : M Int := do
  let a ← shl64 sqr 4
  let r ← asinKernel 20 a
  let r ← shr64 r 3
  chk64 (fixpidiv2 - r)

/-- `asin` -/
def asin (be : SqrtBE) (x : Int) : M Int := do
  let x_ ← if x < 0 then chk64 (-x) else pure x
  let sign : Bool := decide (x < 0)
  let one ← toFixed .i64 1          -- `(1_fix).v`
  if x_ ≤ one then
    if x_ ≤ asin_split then do
      let r ← asinSmall x_
      setSign sign r
    else do
      let d ← chk64 (one - x_)
      let d ← shr64 d 1
      let sqr ← sqrt be d
      let r ← asinBig sqr
      setSign sign r
  else pure NaNp

/-- `acos` -/
def acos (be : SqrtBE) (x : Int) : M Int := do
  let phi2 ← phi2M
  let one ← toFixed .i64 1
  let mone ← neg one
  if x ≥ mone ∧ x ≤ one then do
    let a ← asin be x
    chk64 (phi2 - a)
  else pure NaNp

end FixedMath

/-
  Executable, exact model of IEEE-754 binary32 / binary64 arithmetic with round-to-nearest-even,
  as used by fixed_math (conversions, `+ - * /`, comparisons, `sqrt`, float→int64 cast).
  Every operation is computed exactly on dyadic rationals and rounded once.
  NaN payloads and the sign of NaN are not modelled (a single `nan`).
  No Mathlib import.
-/
import FixedMath.CSem

namespace FixedMath

/-- a floating-point datum: finite values are `(-1)^neg · m · 2^e` (not necessarily normalised) -/
inductive FP where
  | nan
  | inf (neg : Bool)
  | fin (neg : Bool) (m : Nat) (e : Int)
  deriving Repr, Inhabited

/-- format: precision `p`, exponent of the smallest subnormal ulp `emin`, and `emax` with largest
    finite value `(2^p - 1) · 2^emax` -/
structure Fmt where
  p : Nat
  emin : Int
  emax : Int
  ebits : Nat     -- width of the exponent field
  deriving Repr

def b32 : Fmt := { p := 24, emin := -149, emax := 104, ebits := 8 }
def b64 : Fmt := { p := 53, emin := -1074, emax := 971, ebits := 11 }

/-- number of bits of `n` (0 for 0) -/
@[inline] def bitlen (n : Nat) : Nat := if n = 0 then 0 else Nat.log2 n + 1

@[inline] def pow2 (k : Nat) : Nat := 1 <<< k

/-- round the positive real `x` with `q = ⌊x / 2^e⌋` and the position of the fractional part of
    `x / 2^e` relative to 1/2 (`lt`: below, which includes exact; `eq`: tie; `gt`: above)
    where `e` was chosen by `pickExp`; handles overflow to infinity -/
def finishRound (f : Fmt) (neg : Bool) (q : Nat) (e : Int) (half : Ordering) : FP :=
  let q' := match half with
    | .lt => q
    | .eq => if q % 2 = 1 then q + 1 else q
    | .gt => q + 1
  -- largest finite: (2^p - 1) * 2^emax ; q' ≤ 2^p
  if e > f.emax ∨ (e = f.emax ∧ q' ≥ pow2 f.p) then .inf neg
  else .fin neg q' e

/-- exponent at which a positive value with `⌊log2 x⌋ = lg` is rounded: `max (lg - p + 1) emin` -/
@[inline] def pickExp (f : Fmt) (lg : Int) : Int := max (lg - (f.p : Int) + 1) f.emin

/-- `⌊log2 (num/den)⌋` for positive `num`, `den` -/
def ratLog2 (num den : Nat) : Int :=
  let g : Int := (bitlen num : Int) - (bitlen den : Int)
  -- 2^(g-1) < num/den < 2^(g+1)
  let ge : Bool := if g ≥ 0 then decide (num ≥ den * pow2 g.toNat) else decide (num * pow2 (-g).toNat ≥ den)
  if ge then g else g - 1

/-- round-to-nearest-even of the rational `(-1)^neg · num / den` (`den > 0`) -/
def roundRat (f : Fmt) (neg : Bool) (num den : Nat) : FP :=
  if num = 0 then .fin neg 0 0
  else
    let e := pickExp f (ratLog2 num den)
    let n' := if e ≥ 0 then num else num * pow2 (-e).toNat
    let d' := if e ≥ 0 then den * pow2 e.toNat else den
    let q := n' / d'
    let r := n' % d'
    finishRound f neg q e (compare (2 * r) d')

/-- round the dyadic `(-1)^neg · m · 2^e` -/
def roundDy (f : Fmt) (neg : Bool) (m : Nat) (e : Int) : FP :=
  if e ≥ 0 then roundRat f neg (m * pow2 e.toNat) 1 else roundRat f neg m (pow2 (-e).toNat)

/-- conversion of an integer (`static_cast<double>(int64)`) -/
def ofInt (f : Fmt) (n : Int) : FP := roundRat f (decide (n < 0)) n.natAbs 1

/-- change of format (`float → double` is exact, `double → float` rounds) -/
def FP.cvt (f : Fmt) : FP → FP
  | .nan => .nan
  | .inf s => .inf s
  | .fin s m e => roundDy f s m e

def FP.isZero : FP → Bool
  | .fin _ 0 _ => true
  | _ => false

def FP.neg : FP → FP
  | .nan => .nan
  | .inf s => .inf (!s)
  | .fin s m e => .fin (!s) m e

/-- exact sum of two finite dyadics as (sign, magnitude, exponent) -/
def dyAdd (s1 : Bool) (m1 : Nat) (e1 : Int) (s2 : Bool) (m2 : Nat) (e2 : Int) : Bool × Nat × Int :=
  let e := min e1 e2
  let a : Int := (if s1 then -1 else 1) * ((m1 * pow2 (e1 - e).toNat : Nat) : Int)
  let b : Int := (if s2 then -1 else 1) * ((m2 * pow2 (e2 - e).toNat : Nat) : Int)
  let c := a + b
  (decide (c < 0), c.natAbs, e)

def FP.add (f : Fmt) : FP → FP → FP
  | .nan, _ => .nan
  | _, .nan => .nan
  | .inf s, .inf t => if s = t then .inf s else .nan
  | .inf s, _ => .inf s
  | _, .inf t => .inf t
  | .fin s1 m1 e1, .fin s2 m2 e2 =>
    let (s, m, e) := dyAdd s1 m1 e1 s2 m2 e2
    if m = 0 then
      -- exact zero: sign is + unless both operands are negative zeros / same-signed
      if m1 = 0 ∧ m2 = 0 then .fin (s1 && s2) 0 0
      else if m1 = 0 then .fin s2 0 0   -- unreachable (m2 ≠ 0 ⇒ m ≠ 0), kept total
      else .fin false 0 0
    else roundDy f s m e

def FP.sub (f : Fmt) (a b : FP) : FP := FP.add f a b.neg

def FP.mul (f : Fmt) : FP → FP → FP
  | .nan, _ => .nan
  | _, .nan => .nan
  | .inf s, .inf t => .inf (s != t)
  | .inf s, .fin t m _ => if m = 0 then .nan else .inf (s != t)
  | .fin s m _, .inf t => if m = 0 then .nan else .inf (s != t)
  | .fin s1 m1 e1, .fin s2 m2 e2 =>
    if m1 = 0 ∨ m2 = 0 then .fin (s1 != s2) 0 0 else roundDy f (s1 != s2) (m1 * m2) (e1 + e2)

def FP.div (f : Fmt) : FP → FP → FP
  | .nan, _ => .nan
  | _, .nan => .nan
  | .inf _, .inf _ => .nan
  | .inf s, .fin t _ _ => .inf (s != t)
  | .fin s _ _, .inf t => .fin (s != t) 0 0
  | .fin s1 m1 e1, .fin s2 m2 e2 =>
    if m2 = 0 then (if m1 = 0 then .nan else .inf (s1 != s2))
    else if m1 = 0 then .fin (s1 != s2) 0 0
    else
      -- (m1 2^e1) / (m2 2^e2)
      let d := e1 - e2
      if d ≥ 0 then roundRat f (s1 != s2) (m1 * pow2 d.toNat) m2
      else roundRat f (s1 != s2) m1 (m2 * pow2 (-d).toNat)

/-- comparison of finite/infinite values: -1, 0, 1 ; `none` when unordered -/
def FP.cmp : FP → FP → Option Ordering
  | .nan, _ => none
  | _, .nan => none
  | .inf s, .inf t => some (if s = t then .eq else if s then .lt else .gt)
  | .inf s, .fin _ _ _ => some (if s then .lt else .gt)
  | .fin _ _ _, .inf t => some (if t then .gt else .lt)
  | .fin s1 m1 e1, .fin s2 m2 e2 =>
    let (s, m, _) := dyAdd s1 m1 e1 (!s2) m2 e2
    some (if m = 0 then .eq else if s then .lt else .gt)

def FP.lt (a b : FP) : Bool := a.cmp b == some .lt
def FP.gt (a b : FP) : Bool := a.cmp b == some .gt

/-- correctly rounded square root -/
def FP.sqrt (f : Fmt) : FP → FP
  | .nan => .nan
  | .inf s => if s then .nan else .inf false
  | .fin s m e =>
    if m = 0 then .fin s 0 0
    else if s then .nan
    else
      -- x = sqrt(m 2^e); result has p significant bits at exponent er:  N = m 2^(e - 2 er),
      -- want N in [2^(2p-2), 2^(2p)), then q = isqrt N in [2^(p-1), 2^p)
      let lg : Int := (bitlen m : Int) - 1 + e           -- floor(log2 (m 2^e))
      let lgr : Int := lg / 2                             -- floor(log2 sqrt) (floor division)
      let er := pickExp f lgr
      let sh := e - 2 * er
      -- N = m 2^sh may be non-integer when sh < 0 (never for arguments of the format itself):
      -- keep the integer part `n` and the remainder `rem / 2^k`
      let k : Nat := if sh ≥ 0 then 0 else (-sh).toNat
      let n : Nat := if sh ≥ 0 then m * pow2 sh.toNat else m / pow2 k
      let rem : Nat := if sh ≥ 0 then 0 else m % pow2 k
      let q := Nat.sqrt n
      -- root ≥ q + 1/2  ⇔  N ≥ q² + q + 1/4
      let half : Ordering :=
        if n > q * q + q then .gt
        else if n = q * q + q then compare (4 * rem) (pow2 k)
        else .lt
      finishRound f false q er half

/-- `static_cast<int64_t>(x)`: truncation toward zero, UB when NaN/inf or out of range -/
def FP.toI64 : FP → M Int
  | .nan => throw .floatToInt
  | .inf _ => throw .floatToInt
  | .fin s m e =>
    let mag : Nat := if e ≥ 0 then m * pow2 e.toNat else m / pow2 (-e).toNat
    let v : Int := if s then -(mag : Int) else mag
    if i64min ≤ v ∧ v ≤ i64max then pure v else throw .floatToInt

/-- decode an IEEE bit pattern -/
def FP.ofBits (f : Fmt) (bits : Nat) : FP :=
  let mbits := f.p - 1
  let frac := bits % pow2 mbits
  let ex := (bits / pow2 mbits) % pow2 f.ebits
  let s := decide ((bits / pow2 (mbits + f.ebits)) % 2 = 1)
  if ex = pow2 f.ebits - 1 then (if frac = 0 then .inf s else .nan)
  else if ex = 0 then .fin s frac f.emin
  else .fin s (frac + pow2 mbits) (f.emin + (ex : Int) - 1)

/-- encode (canonical quiet NaN for `nan`); the value must already be rounded to the format -/
def FP.toBits (f : Fmt) : FP → Nat
  | .nan => (pow2 f.ebits - 1) * pow2 (f.p - 1) + pow2 (f.p - 2)
  | .inf s => (if s then pow2 (f.p - 1 + f.ebits) else 0) + (pow2 f.ebits - 1) * pow2 (f.p - 1)
  | .fin s m e =>
    let sb := if s then pow2 (f.p - 1 + f.ebits) else 0
    if m = 0 then sb
    else
      -- normalise: m 2^e = m' 2^e' with m' in [2^(p-1), 2^p) or e' = emin
      let bl := bitlen m
      let e' : Int := max (e + (bl : Int) - (f.p : Int)) f.emin
      let m' : Nat := if e' ≥ e then m / pow2 (e' - e).toNat else m * pow2 (e - e').toNat
      if m' < pow2 (f.p - 1) then sb + m'     -- subnormal (e' = emin)
      else sb + ((e' - f.emin + 1).toNat) * pow2 (f.p - 1) + (m' - pow2 (f.p - 1))

def FP.isNaN : FP → Bool
  | .nan => true
  | _ => false

end FixedMath

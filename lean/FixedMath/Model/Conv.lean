/-
  Model of the floating-point conversions of math.h (`floating_point_to_fixed<F>`,
  `fixed_to_floating_point<F>`) and of `detail::sqrt_std_math`, over the IEEE model of Float.lean.
-/
import FixedMath.Model.Core
import FixedMath.Model.Float

namespace FixedMath
open Gen

/-- `floating_point_to_fixed<F>` (`f` = format of `F`) -/
def fpToFixed (f : Fmt) (v : FP) : M Int :=
  -- `value < double(max_integral()) && value > double(min_integral())`, compared as doubles
  if v.lt (ofInt b64 lim_max_integral) && v.gt (ofInt b64 lim_min_integral) then
    -- `value * 65536 + (value < ft(0) ? ft(-0.5) : ft(0.5))` evaluated in `ft`
    let scaled := FP.mul f v (ofInt f 65536)
    let half : FP := if v.lt (.fin false 0 0) then .fin true 1 (-1) else .fin false 1 (-1)
    (FP.add f scaled half).toI64
  else pure NaNp

/-- `fixed_to_floating_point<F>` : `static_cast<ft>(value.v) / ft(65536)` -/
def fixedToFp (f : Fmt) (v : Int) : FP := FP.div f (ofInt f v) (ofInt f 65536)

/-- `detail::sqrt_std_math` with a correctly rounded `std::sqrt` -/
def sqrtStd (v : Int) : M Int := fpToFixed b64 (FP.sqrt b64 (fixedToFp b64 v))

/-- mixed `double` arithmetic: `promote_to_double(fixed) op double` -/
def addD (a : Int) (d : FP) : FP := FP.add b64 d (fixedToFp b64 a)   -- fixed_addition swaps its operands
def subD (a : Int) (d : FP) : FP := FP.sub b64 (fixedToFp b64 a) d
def subDL (d : FP) (a : Int) : FP := FP.sub b64 d (fixedToFp b64 a)
def mulD (a : Int) (d : FP) : FP := FP.mul b64 (fixedToFp b64 a) d
def divD (a : Int) (d : FP) : FP := FP.div b64 (fixedToFp b64 a) d
def divDL (d : FP) (a : Int) : FP := FP.div b64 d (fixedToFp b64 a)

end FixedMath

/-
  Model of math.h: atan kernel, atan_sum, atan, atan2.
  Line by line after the source; every signed `+ - * / % << >>` goes through CSem so that
  overflow, bad shifts and division traps are values of the model.
-/
import FixedMath.Model.Common

namespace FixedMath
open Gen

/-- `detail::atan<p>` (the polynomial kernel) -/
def atanKernel (p : Int) (x : Int) : M Int := do
  let t ← mul_ p x x
  let f11 ← fix_ p 11
  let c11o9 ← div64 f11 9
  let c11o7 ← div64 f11 7
  let c11o5 ← div64 f11 5
  let c11o3 ← div64 f11 3
  let y ← chk64 (c11o9 - t)
  let m ← mul_ p t y
  let n7 ← chk64 (-c11o7)
  let y ← chk64 (n7 + m)
  let m ← mul_ p t y
  let y ← chk64 (c11o5 + m)
  let m ← mul_ p t y
  let n3 ← chk64 (-c11o3)
  let y ← chk64 (n3 + m)
  let m ← mul_ p t y
  let y ← chk64 (f11 + m)
  let m ← mul_ p x y
  div64 m 11

/-- `detail::atan_sum<p, atanc, c>` -/
def atanSum (p : Int) (atanc c : Int) (x : Int) : M Int := do
  let one_ ← fix_ p 1
  let num ← chk64 (x - c)
  let xc ← mul_ p x c
  let den ← chk64 (one_ + xc)
  let z ← div_ p num den
  let a ← atanKernel p z
  chk64 (atanc + a)

/-- the clamp added by the repair: `if( x > x_limit ) x = x_limit`, `x_limit = 2^45` raw -/
def atanClamp (x : Int) : Int := if x > 35184372088832 then 35184372088832 else x

/-- the segment selection of `atan` for a non-negative (clamped) argument -/
def atanMag (x : Int) : M Int :=
  if x < 28672 then atanKernel 16 x
  else if x < 45056 then atanSum 16 27028 28672 x
  else if x < 77824 then atanSum 16 39472 45056 x
  else if x < 159744 then atanSum 16 57076 77824 x
  else atanSum 16 77429 159744 x

/-- `atan` -/
def atan (value : Int) : M Int := do
  let x ← if value < 0 then chk64 (-value) else pure value
  let sign : Bool := decide (value < 0)
  let result ← atanMag (atanClamp x)
  if !sign then pure result else chk64 (-result)

/-- `atan2` -/
def atan2 (y x : Int) : M Int :=
  if x > 0 then do
    let q ← div y x
    atan q
  else if x < 0 then do
    let q ← div y x
    let a ← atan q
    if y ≥ 0 then add a phi else sub a phi
  else
    if y > 0 then pure fixpidiv2
    else if y < 0 then neg fixpidiv2
    else pure NaNp

end FixedMath

/-
  Model of math.h: sin_angle, cos_angle, tan_angle for integral, fixed_t and float arguments.
  Line by line after the source; every signed `+ - * / % << >>` goes through CSem so that
  overflow, bad shifts and division traps are values of the model.
-/
import FixedMath.Model.Tan

namespace FixedMath
open Gen

/-- `angle * phi / 180` for an integral `angle` of type `t` -/
def angleArgInt (t : IT) (angle : Int) : M Int := do
  let m ← mulScalar t phi angle
  divScalar .i32 m 180
/-- the same for a `fixed_t` angle -/
def angleArgFixed (angle : Int) : M Int := do
  let m ← mul angle phi
  divScalar .i32 m 180
/-- the same for a `float` angle -/
def angleArgFloat (angle : FP) : M Int := do
  let f ← fpToFixed b32 angle
  let m ← mul f phi
  divScalar .i32 m 180

def sinAngleInt (t : IT) (a : Int) : M Int := do let r ← angleArgInt t a; sin r
def cosAngleInt (t : IT) (a : Int) : M Int := do let r ← angleArgInt t a; cos r
def tanAngleInt (t : IT) (a : Int) : M Int := do let r ← angleArgInt t a; tan r
def sinAngleFixed (a : Int) : M Int := do let r ← angleArgFixed a; sin r
def cosAngleFixed (a : Int) : M Int := do let r ← angleArgFixed a; cos r
def tanAngleFixed (a : Int) : M Int := do let r ← angleArgFixed a; tan r
def sinAngleFloat (a : FP) : M Int := do let r ← angleArgFloat a; sin r
def cosAngleFloat (a : FP) : M Int := do let r ← angleArgFloat a; cos r
def tanAngleFloat (a : FP) : M Int := do let r ← angleArgFloat a; tan r

end FixedMath

/-
  Model of math.h (sqrt, hypot, sin, cos, tan, atan, atan2, asin, acos, *_angle): re-exports the parts.
-/
import FixedMath.Model.Sqrt
import FixedMath.Model.Sin
import FixedMath.Model.Tan
import FixedMath.Model.Atan
import FixedMath.Model.Asin
import FixedMath.Model.Angle

/-
  Model of math.h: sqrt (both back-ends), hypot, sin, cos, tan, atan, atan2, asin, acos,
  the `*_angle` helpers; and of detail/common.h: `mul_ div_ fix_ highest_pwr4_clz set_sign`.
  Line by line after the source; every signed `+ - * / % << >>` goes through CSem so that
  overflow, bad shifts and division traps are values of the model.
-/
import FixedMath.Model.Conv

namespace FixedMath
open Gen

/-- `detail::mul_<p>` : `(x * y) >> p` -/
@[inline] def mul_ (p : Int) (x y : Int) : M Int := do
  let t ← chk64 (x * y)
  shr64 t p
/-- `detail::div_<p>` : `(x << p) / y` -/
@[inline] def div_ (p : Int) (x y : Int) : M Int := do
  let t ← shl64 x p
  div64 t y
/-- `detail::fix_<p>` : `x << p` -/
@[inline] def fix_ (p : Int) (x : Int) : M Int := shl64 x p
/-- `detail::set_sign` -/
@[inline] def setSign (sign : Bool) (r : Int) : M Int := if !sign then pure r else chk64 (-r)

/-- `detail::highest_pwr4_clz` (argument is `uint64_t`) -/
def highestPwr4Clz (v : Int) : M Int :=
  if v ≠ 0 then
    let c := 64 - clz64 v
    let c := if c % 2 = 0 then c - 1 else c
    shl64 1 (c - 1)
  else pure 0

/-- the `while( pwr4 != 0 )` loop of `sqrt_abacus` on `uint64_t` state `(rem, result, pwr4)` -/
def abacusLoop : Nat → Int → Int → Int → M Int
  | 0, _, _, _ => throw .fuel
  | fuel + 1, rem, res, p =>
    if p ≠ 0 then
      if rem ≥ (res + p) % two64 then
        abacusLoop fuel ((rem - (res + p) % two64) % two64) (((res + (p * 2) % two64) % two64) / 2) (p / 4)
      else
        abacusLoop fuel rem (res / 2) (p / 4)
    else pure res

/-- `detail::sqrt_abacus` -/
def sqrtAbacus (v : Int) : M Int :=
  if v < 0 ∨ v ≥ 281474976710656 then pure NaNp
  else do
    let rem := (toU64 v * 65536) % two64
    let p ← highestPwr4Clz rem
    let r ← abacusLoop 40 rem 0 (toU64 p)
    pure (toI64 r)

inductive SqrtBE where
  | abacus | std
  deriving DecidableEq, Repr, Inhabited

/-- `sqrt` with the selected back-end -/
def sqrt (be : SqrtBE) (v : Int) : M Int :=
  match be with
  | .abacus => sqrtAbacus v
  | .std => sqrtStd v

/-- `hypot` -/
def hypot (be : SqrtBE) (lh rh : Int) : M Int := do
  let lh ← if lh < 0 then neg lh else pure lh
  let rh ← if rh < 0 then neg rh else pure rh
  let uhi0 := toU64 lh
  let ulo0 := toU64 rh
  let uhi := if uhi0 < ulo0 then ulo0 else uhi0
  let ulo := if uhi0 < ulo0 then uhi0 else ulo0
  if uhi = 0 then pure 0
  else if uhi ≥ 1073741824 then do
    let rshbits := 48 - clz64 uhi
    let uhi ← shrU64 uhi rshbits
    let ulo ← shrU64 ulo rshbits
    let q ← sqrt be (toI64 (((uhi * uhi + ulo * ulo) % two64) / 65536))
    let res ← shlU64 (toU64 q) rshbits
    if res ≤ lim_max then pure (toI64 res) else pure NaNp
  else if ulo < 65536 then do
    let clz := clz64 uhi
    let lshbits := min ((max (clz - 30) 0) / 2) (clz - 33)
    let uhi ← shlU64 uhi lshbits
    let ulo ← shlU64 ulo lshbits
    let q ← sqrt be (toI64 (((uhi * uhi + ulo * ulo) % two64) / 65536))
    shr64 q lshbits
  else
    sqrt be (toI64 (((uhi * uhi + ulo * ulo) % two64) / 65536))

/-- `phi/2` as the library computes it (`fixed_t / int`) -/
def phi2M : M Int := divScalar .i32 phi 2
/-- `2*phi` (`int * fixed_t`) -/
def twoPhiM : M Int := mulScalar .i32 phi 2

/-- `detail::sin_range` -/
def sinRange (rad : Int) : M Int := do
  let phi2 ← phi2M
  let _2phi ← twoPhiM
  let nphi2 ← neg phi2
  let hi ← add phi phi2
  if rad < nphi2 ∨ rad > hi then do
    let t ← mod64 rad _2phi
    let s ← chk64 (phi2 + t)
    let u ← mod64 s _2phi
    let r ← chk64 (u - phi2)
    if r < nphi2 then chk64 (r + _2phi) else pure r
  else pure rad

/-- the polynomial part of `sin` for a reduced argument -/
def sinPoly (x : Int) : M Int := do
  let x2 ← mul_ 16 x x
  let c42 ← shl64 42 16
  let c105 ← shl64 105 35
  let c315 ← shl64 315 16
  let a ← chk64 (c42 - x2)
  let b ← chk64 (x2 * a)
  let c ← chk64 (c105 - b)
  let d ← mul_ 36 x2 c
  let e ← chk64 (c315 - d)
  let f ← mul_ 16 x e
  div64 f 315

/-- `sin` -/
def sin (rad : Int) : M Int := do
  let phi2 ← phi2M
  let rad ← sinRange rad
  let rad ← if rad > phi2 then sub phi rad else pure rad
  sinPoly rad

/-- `cos` : `sin( fixpidiv2 + rad )` -/
def cos (rad : Int) : M Int := do
  let a ← add fixpidiv2 rad
  sin a

/-- `detail::tan_<p>` -/
def tan_ (p : Int) (x : Int) : M Int := do
  let x2 ← mul_ p x x
  let k21844 ← fix_ p 21844
  let t0 ← chk64 (929569 * x2)
  let t0 ← div64 t0 105
  let y0 ← chk64 (k21844 + t0)
  let k1382 ← fix_ p 1382
  let t1 ← mul_ p x2 y0
  let t1 ← div64 t1 39
  let y1 ← chk64 (k1382 + t1)
  let k62 ← fix_ p 62
  let t2 ← mul_ p x2 y1
  let t2 ← div64 t2 55
  let y2 ← chk64 (k62 + t2)
  let k17 ← fix_ p 17
  let t3 ← mul_ p x2 y2
  let t3 ← div64 t3 9
  let y3 ← chk64 (k17 + t3)
  let k2 ← fix_ p 2
  let t4 ← mul_ p x2 y3
  let t4 ← div64 t4 21
  let y4 ← chk64 (k2 + t4)
  let k1 ← fix_ p 1
  let t5 ← mul_ p x2 y4
  let t5 ← div64 t5 5
  let y5 ← chk64 (k1 + t5)
  let t6 ← mul_ p x2 y5
  let t6 ← div64 t6 3
  let y6 ← chk64 (k1 + t6)
  mul_ p x y6

/-- `detail::tan_range` -/
def tanRange (x : Int) : M Int := do
  let phi2 ← phi2M
  if x > phi2 then mod64 x phi else pure x

/-- `tan` (after the repair: second quadrant reflected) -/
def tan (rad : Int) : M Int := do
  let one_ ← fix_ 16 1
  let x0 ← if rad < 0 then chk64 (-rad) else pure rad
  let sign0 : Bool := decide (rad < 0)
  let x1 ← tanRange x0
  if x1 ≠ fixpidiv2 then do
    let x ← if x1 > fixpidiv2 then chk64 (phi - x1) else pure x1
    let sign : Bool := if x1 > fixpidiv2 then !sign0 else sign0
    let res ←
      if x ≤ fixpidiv4 then do
        let a ← shl64 x 4
        let t ← tan_ 20 a
        shr64 t 4
      else do
        let a ← shl64 fixpidiv2 4
        let b ← shl64 x 4
        let c ← chk64 (a - b)
        let t ← tan_ 20 c
        let t ← shr64 t 4
        div_ 16 one_ t
    if sign then chk64 (-res) else pure res
  else pure NaNp

/-- `detail::atan<p>` (the polynomial kernel) -/
def atanKernel (p : Int) (x : Int) : M Int := do
  let t ← mul_ p x x
  let f11 ← fix_ p 11
  let c11o9 ← div64 f11 9
  let c11o7 ← div64 f11 7
  let c11o5 ← div64 f11 5
  let c11o3 ← div64 f11 3
  let y ← chk64 (c11o9 - t)
  let m ← mul_ p t y
  let n7 ← chk64 (-c11o7)
  let y ← chk64 (n7 + m)
  let m ← mul_ p t y
  let y ← chk64 (c11o5 + m)
  let m ← mul_ p t y
  let n3 ← chk64 (-c11o3)
  let y ← chk64 (n3 + m)
  let m ← mul_ p t y
  let y ← chk64 (f11 + m)
  let m ← mul_ p x y
  div64 m 11

/-- `detail::atan_sum<p, atanc, c>` -/
def atanSum (p : Int) (atanc c : Int) (x : Int) : M Int := do
  let one_ ← fix_ p 1
  let num ← chk64 (x - c)
  let xc ← mul_ p x c
  let den ← chk64 (one_ + xc)
  let z ← div_ p num den
  let a ← atanKernel p z
  chk64 (atanc + a)

/-- `atan` (after the repair: argument clamped to 2^45 raw) -/
def atan (value : Int) : M Int := do
  let x ← if value < 0 then chk64 (-value) else pure value
  let sign : Bool := decide (value < 0)
  let x := if x > 35184372088832 then 35184372088832 else x
  let result ←
    if x < 28672 then atanKernel 16 x
    else if x < 45056 then atanSum 16 27028 28672 x
    else if x < 77824 then atanSum 16 39472 45056 x
    else if x < 159744 then atanSum 16 57076 77824 x
    else atanSum 16 77429 159744 x
  if !sign then pure result else chk64 (-result)

/-- `atan2` -/
def atan2 (y x : Int) : M Int :=
  if x > 0 then do
    let q ← div y x
    atan q
  else if x < 0 then do
    let q ← div y x
    let a ← atan q
    if y ≥ 0 then add a phi else sub a phi
  else
    if y > 0 then pure fixpidiv2
    else if y < 0 then neg fixpidiv2
    else pure NaNp

/-- `detail::asin<p>` (the polynomial kernel) -/
def asinKernel (p : Int) (x : Int) : M Int := do
  let x2 ← mul_ p x x
  let c35o9 ← div_ p 35 9
  let c35o9 ← chk64 (c35o9 + 1)
  let c5o7 ← div_ p 5 7
  let c5o7 ← chk64 (c5o7 + 1)
  let c3o5 ← div_ p 3 5
  let c3o5 ← chk64 (c3o5 + 1)
  let c1o3 ← div_ p 1 3
  let c1 ← fix_ p 1
  let c63o11 ← div_ p 63 11
  let c63o11 ← chk64 (c63o11 + 1)
  let m ← mul_ (p + 1) x2 c63o11
  let y6 ← chk64 (c35o9 + m)
  let m ← mul_ (p + 3) x2 y6
  let y7 ← chk64 (c5o7 + m)
  let m ← mul_ (p + 1) x2 y7
  let y8 ← chk64 (c3o5 + m)
  let m ← mul_ (p + 2) x2 y8
  let y9 ← chk64 (c1o3 + m)
  let m ← mul_ (p + 1) x2 y9
  let y10 ← chk64 (c1 + m)
  mul_ p x y10

/-- `asin` -/
def asin (be : SqrtBE) (x : Int) : M Int := do
  let x_ ← if x < 0 then chk64 (-x) else pure x
  let sign : Bool := decide (x < 0)
  let one ← toFixed .i64 1          -- `(1_fix).v`
  if x_ ≤ one then
    if x_ ≤ asin_split then do
      let a ← shl64 x_ 4
      let r ← asinKernel 20 a
      let r ← shr64 r 4
      setSign sign r
    else do
      let d ← chk64 (one - x_)
      let d ← shr64 d 1
      let sqr ← sqrt be d
      let a ← shl64 sqr 4
      let r ← asinKernel 20 a
      let r ← shr64 r 3
      let r ← chk64 (fixpidiv2 - r)
      setSign sign r
  else pure NaNp

/-- `acos` -/
def acos (be : SqrtBE) (x : Int) : M Int := do
  let phi2 ← phi2M
  let one ← toFixed .i64 1
  let mone ← neg one
  if x ≥ mone ∧ x ≤ one then do
    let a ← asin be x
    chk64 (phi2 - a)
  else pure NaNp

/-- `angle * phi / 180` for an integral `angle` of type `t` -/
def angleArgInt (t : IT) (angle : Int) : M Int := do
  let m ← mulScalar t phi angle
  divScalar .i32 m 180
/-- the same for a `fixed_t` angle -/
def angleArgFixed (angle : Int) : M Int := do
  let m ← mul angle phi
  divScalar .i32 m 180
/-- the same for a `float` angle -/
def angleArgFloat (angle : FP) : M Int := do
  let f ← fpToFixed b32 angle
  let m ← mul f phi
  divScalar .i32 m 180

def sinAngleInt (t : IT) (a : Int) : M Int := do let r ← angleArgInt t a; sin r
def cosAngleInt (t : IT) (a : Int) : M Int := do let r ← angleArgInt t a; cos r
def tanAngleInt (t : IT) (a : Int) : M Int := do let r ← angleArgInt t a; tan r
def sinAngleFixed (a : Int) : M Int := do let r ← angleArgFixed a; sin r
def cosAngleFixed (a : Int) : M Int := do let r ← angleArgFixed a; cos r
def tanAngleFixed (a : Int) : M Int := do let r ← angleArgFixed a; tan r
def sinAngleFloat (a : FP) : M Int := do let r ← angleArgFloat a; sin r
def cosAngleFloat (a : FP) : M Int := do let r ← angleArgFloat a; cos r
def tanAngleFloat (a : FP) : M Int := do let r ← angleArgFloat a; tan r

end FixedMath

/-
  Model of math.h: sqrt (both back-ends) and hypot; detail/common.h: `highest_pwr4_clz`.
  Line by line after the source; every signed `+ - * / % << >>` goes through CSem so that
  overflow, bad shifts and division traps are values of the model.
-/
import FixedMath.Model.Common

namespace FixedMath
open Gen

/-- `detail::highest_pwr4_clz` (argument is `uint64_t`) -/
def highestPwr4Clz (v : Int) : M Int :=
  if v ≠ 0 then
    let c := 64 - clz64 v
    let c := if c % 2 = 0 then c - 1 else c
    shl64 1 (c - 1)
  else pure 0

/-- the `while( pwr4 != 0 )` loop of `sqrt_abacus` on `uint64_t` state `(rem, result, pwr4)` -/
def abacusLoop : Nat → Int → Int → Int → M Int
  | 0, _, _, _ => throw .fuel
  | fuel + 1, rem, res, p =>
    if p ≠ 0 then
      if rem ≥ (res + p) % two64 then
        abacusLoop fuel ((rem - (res + p) % two64) % two64) (((res + (p * 2) % two64) % two64) / 2) (p / 4)
      else
        abacusLoop fuel rem (res / 2) (p / 4)
    else pure res

/-- `detail::sqrt_abacus` -/
def sqrtAbacus (v : Int) : M Int :=
  if v < 0 ∨ v ≥ 281474976710656 then pure NaNp
  else do
    let rem := (toU64 v * 65536) % two64
    let p ← highestPwr4Clz rem
    let r ← abacusLoop 40 rem 0 (toU64 p)
    pure (toI64 r)

inductive SqrtBE where
  | abacus | std
  deriving DecidableEq, Repr, Inhabited

/-- `sqrt` with the selected back-end -/
def sqrt (be : SqrtBE) (v : Int) : M Int :=
  match be with
  | .abacus => sqrtAbacus v
  | .std => sqrtStd v

/-- `hypot` after the sign removal and the reordering: `uhi ≥ ulo` are the `uint64_t` magnitudes -/
def hypotU (be : SqrtBE) (uhi ulo : Int) : M Int :=
  if uhi = 0 then pure 0
  else if uhi ≥ 1073741824 then do
    let rshbits := 48 - clz64 uhi
    let uhi ← shrU64 uhi rshbits
    let ulo ← shrU64 ulo rshbits
    let q ← sqrt be (toI64 (((uhi * uhi + ulo * ulo) % two64) / 65536))
    let res ← shlU64 (toU64 q) rshbits
    if res ≤ lim_max then pure (toI64 res) else pure NaNp
  else if ulo < 65536 then do
    let clz := clz64 uhi
    let lshbits := min ((max (clz - 30) 0) / 2) (clz - 33)
    let uhi ← shlU64 uhi lshbits
    let ulo ← shlU64 ulo lshbits
    let q ← sqrt be (toI64 (((uhi * uhi + ulo * ulo) % two64) / 65536))
    shr64 q lshbits
  else
    sqrt be (toI64 (((uhi * uhi + ulo * ulo) % two64) / 65536))

/-- `hypot` -/
def hypot (be : SqrtBE) (lh rh : Int) : M Int := do
  let lh ← if lh < 0 then neg lh else pure lh
  let rh ← if rh < 0 then neg rh else pure rh
  let uhi0 := toU64 lh
  let ulo0 := toU64 rh
  let uhi := if uhi0 < ulo0 then ulo0 else uhi0
  let ulo := if uhi0 < ulo0 then uhi0 else ulo0
  hypotU be uhi ulo

end FixedMath

/-
  Model of the mixed-type operators of math.h (`fixed_addition`, `fixed_substract`, `fixed_multiply`,
  `fixed_division` with one non-fixed operand, and the compound assignments, which assign the result of the
  binary form).  `t` is the integral operand type; `float` operands are IEEE binary32 data; `double` operands
  produce `double` results (Model/Conv.lean: addD subD subDL mulD divD divDL).
-/
import FixedMath.Model.Conv

namespace FixedMath
open Gen

/-- `promote_to_fixed(T value)` for an integral value -/
@[inline] def promoteInt (t : IT) (n : Int) : M Int := toFixed t n
/-- `promote_to_fixed(float value)` -/
@[inline] def promoteFloat (f : FP) : M Int := fpToFixed b32 f

/-- `fixed + T`, `fixed += T` -/
def addInt (t : IT) (a n : Int) : M Int := do let c ← promoteInt t n; add a c
/-- `T + fixed` -/
def addIntL (t : IT) (n a : Int) : M Int := do let c ← promoteInt t n; add c a
/-- `fixed - T`, `fixed -= T` -/
def subInt (t : IT) (a n : Int) : M Int := do let c ← promoteInt t n; sub a c
/-- `T - fixed` -/
def subIntL (t : IT) (n a : Int) : M Int := do let c ← promoteInt t n; sub c a
/-- `fixed * T`, `T * fixed`, `fixed *= T` : the integer is used exactly -/
def mulInt (t : IT) (a n : Int) : M Int := mulScalar t a n
/-- `fixed / T`, `fixed /= T` : the integer is used exactly -/
def divInt (t : IT) (a n : Int) : M Int := divScalar t a n
/-- `T / fixed` : the integer is promoted -/
def divIntL (t : IT) (n a : Int) : M Int := do let c ← promoteInt t n; div c a

def addFloat (a : Int) (f : FP) : M Int := do let c ← promoteFloat f; add a c
def addFloatL (f : FP) (a : Int) : M Int := do let c ← promoteFloat f; add c a
def subFloat (a : Int) (f : FP) : M Int := do let c ← promoteFloat f; sub a c
def subFloatL (f : FP) (a : Int) : M Int := do let c ← promoteFloat f; sub c a
def mulFloat (a : Int) (f : FP) : M Int := do let c ← promoteFloat f; mul a c
def mulFloatL (f : FP) (a : Int) : M Int := do let c ← promoteFloat f; mul c a
def divFloat (a : Int) (f : FP) : M Int := do let c ← promoteFloat f; div a c
def divFloatL (f : FP) (a : Int) : M Int := do let c ← promoteFloat f; div c a

end FixedMath

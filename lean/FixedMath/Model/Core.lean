/-
  Model of fixed_lib/include/fixedmath/{types.h, limits.h, math.h, detail/common.h}:
  conversions, unary operators, shifts, the four arithmetic kernels, floor/ceil.
  One definition per C++ function, written line by line after the source.
  Raw values (`fixed_t::v`) are `Int`s; the result is `Except UB Int`.
  No Mathlib import.
-/
import FixedMath.CSem
import FixedMath.Generated.Consts

namespace FixedMath
open Gen

/-- the eight built-in integral types the properties range over -/
inductive IT where
  | i8 | i16 | i32 | i64 | u8 | u16 | u32 | u64
  deriving DecidableEq, Repr, Inhabited

def IT.lo : IT → Int
  | .i8 => -128 | .i16 => -32768 | .i32 => -2147483648 | .i64 => -9223372036854775808
  | _ => 0
def IT.hi : IT → Int
  | .i8 => 127 | .i16 => 32767 | .i32 => 2147483647 | .i64 => 9223372036854775807
  | .u8 => 255 | .u16 => 65535 | .u32 => 4294967295 | .u64 => 18446744073709551615
def IT.mem (t : IT) (n : Int) : Prop := t.lo ≤ n ∧ n ≤ t.hi
instance (t : IT) (n : Int) : Decidable (t.mem n) := by unfold IT.mem; infer_instance
def IT.isUnsigned : IT → Bool
  | .u8 | .u16 | .u32 | .u64 => true
  | _ => false
/-- `static_cast<T>(x)` (modular) -/
def IT.cast (t : IT) (x : Int) : Int :=
  match t with
  | .u8 => x % 256 | .u16 => x % 65536 | .u32 => x % 4294967296 | .u64 => x % two64
  | .i8 => let u := x % 256; if u < 128 then u else u - 256
  | .i16 => let u := x % 65536; if u < 32768 then u else u - 65536
  | .i32 => toI32 x
  | .i64 => toI64 x
def IT.ofName : String → Option IT
  | "i8" => some .i8 | "i16" => some .i16 | "i32" => some .i32 | "i64" => some .i64
  | "u8" => some .u8 | "u16" => some .u16 | "u32" => some .u32 | "u64" => some .u64
  | _ => none

/-- `quiet_NaN_result().v` -/
@[inline] def NaNp : Int := lim_quiet_NaN

/-- `operator-(fixed_t)` : `-l.v` -/
@[inline] def neg (x : Int) : M Int := chk64 (-x)

/-- `-quiet_NaN_result()` -/
@[inline] def negNaN : M Int := neg NaNp

/-- `abs` : `value.v > 0 ? value.v : -value.v` -/
@[inline] def abs (x : Int) : M Int := if x > 0 then pure x else chk64 (-x)

/-- `isnan` : `abs(value) == quiet_NaN_result()` -/
@[inline] def isnan (x : Int) : M Bool := do
  let a ← abs x
  pure (a == NaNp)

/-- `detail::unsigned_shift_left_signed<16>` : `(u(v) << 16) | (u(v) & (1 << 63))` -/
@[inline] def shlSigned16 (v : Int) : Int :=
  toI64 (orU64 ((toU64 v * 65536) % two64) (andU64 (toU64 v) two63))

/-- `detail::unsigned_shift_left_unsigned<16>` : `u(v) << 16` -/
@[inline] def shlUnsigned16 (v : Int) : Int := toI64 ((toU64 v * 65536) % two64)

/-- `integral_to_fixed<T>` ; `cmp_less_equal`/`cmp_greater_equal` compare mathematical values
    (both the `std::` and the C++17 fallback implementation) -/
def toFixed (t : IT) (n : Int) : M Int :=
  if n ≤ lim_max_integral ∧ n ≥ lim_min_integral then
    -- the argument is converted to the parameter type `fixed_internal` of the shift helper
    if t.isUnsigned then pure (shlUnsigned16 (toI64 n)) else pure (shlSigned16 (toI64 n))
  else pure NaNp

/-- `fixed_to_integral<T>` -/
def fromFixed (t : IT) (x : Int) : M Int := do
  let tmp ← shr64 x 16
  if tmp ≥ t.lo ∧ tmp ≤ t.hi then pure (t.cast tmp) else pure 0

/-- `operator>>(fixed_t, int)` -/
def shr (l r : Int) : M Int :=
  if r ≥ 0 then shr64 l r else pure NaNp

/-- `operator<<(fixed_t, int)` :
    `((u(l) << r) & 0x7fff…) | ((1ull << 63) & u(l))` -/
def shl (l r : Int) : M Int :=
  if r ≥ 0 then do
    let s ← shlU64 (toU64 l) r
    pure (toI64 (orU64 (andU64 s 9223372036854775807) (andU64 two63 (toU64 l))))
  else pure NaNp

/-- `operator&` -/
@[inline] def band (l r : Int) : M Int := pure (and64 l r)

/-- `detail::fixed_additioni` (after the repair: the sum is formed in `uint64_t`) -/
def add (a b : Int) : M Int :=
  let r := toI64 ((toU64 a + toU64 b) % two64)
  if r ≥ 0 then
    if a < 0 ∧ b < 0 then negNaN else pure r
  else
    if a > 0 ∧ b > 0 then pure NaNp
    else if r = i64min then negNaN
    else pure r

/-- `detail::fixed_substracti` -/
def sub (a b : Int) : M Int :=
  let r := toI64 ((toU64 a - toU64 b) % two64)
  if r ≥ 0 then
    if a < 0 ∧ b > 0 then negNaN else pure r
  else
    if a > 0 ∧ b < 0 then pure NaNp
    else if r = i64min then negNaN
    else pure r

/-- `detail::check_multiply_result` -/
@[inline] def checkMulResult (r : Int) : Bool := decide (r ≥ lim_lowest ∧ r ≤ lim_max)

/-- `detail::multiply_internal` (`__builtin_mul_overflow`; `none` = overflow reported) -/
@[inline] def mulInternal (a b : Int) : Option Int :=
  if i64min ≤ a * b ∧ a * b ≤ i64max then some (a * b) else none

/-- `detail::fixed_multiplyi` -/
def mul (a b : Int) : M Int :=
  match mulInternal a b with
  | some p => shr64 p 16
  | none => pure NaNp

/-- `detail::promote_type_to_signed` applied to a value of type `t`, converted to `fixed_internal` -/
@[inline] def promote (t : IT) (n : Int) : Int := if t = .u64 then toI64 n else n

/-- `detail::fixed_multiply_scalar<T>` (both operand orders call this) -/
def mulScalar (t : IT) (a n : Int) : M Int :=
  if t = .u64 ∧ n > i64max then pure (if a = 0 then a else NaNp)
  else match mulInternal a (promote t n) with
    | some p => if checkMulResult p then pure p else pure NaNp
    | none => pure NaNp

/-- `detail::fixed_divisionf` -/
def div (x y : Int) : M Int :=
  if y ≠ 0 then
    if x > -140737488355328 ∧ x < 140737488355328 then do
      let s ← shl x 16
      div64 s y
    else pure NaNp
  else pure NaNp

/-- `detail::fixed_division_by_scalar<T>` -/
def divScalar (t : IT) (a n : Int) : M Int :=
  if n ≠ 0 then
    if t = .u64 ∧ n > i64max then pure 0
    else div64 a (promote t n)
  else pure NaNp

/-- `ceil` : `(v + 0xffff) & ~((1<<16)-1)` ; the mask is the `int` -65536 sign-extended -/
def ceil (v : Int) : M Int :=
  if v ≤ i64max - 65535 then do
    let s ← chk64 (v + 65535)
    pure (and64 s (-65536))
  else pure NaNp

/-- `floor` : `v & ~((1<<16)-1)` -/
def floor (v : Int) : M Int := pure (and64 v (-65536))

/-- `angle_to_radians<T>` : `integral_to_fixed(angle) * phi / 180` -/
def angleToRadians (t : IT) (angle : Int) : M Int :=
  if angle ≥ 0 ∧ angle ≤ 360 then do
    let f ← toFixed t angle
    let m ← mul f phi
    divScalar .i32 m 180
  else pure NaNp

/-- comparison operators (types.h): plain comparisons of the raw values -/
@[inline] def lt (a b : Int) : Bool := decide (a < b)
@[inline] def le (a b : Int) : Bool := decide (a ≤ b)
@[inline] def gt (a b : Int) : Bool := decide (a > b)
@[inline] def ge (a b : Int) : Bool := decide (a ≥ b)
@[inline] def eq (a b : Int) : Bool := decide (a = b)
@[inline] def ne (a b : Int) : Bool := decide (a ≠ b)

end FixedMath

/-
  Model of the compiled part fixed_lib/src/fixed_math.cc and of the inline `*_aprox` wrappers in
  math.h, over the tables regenerated from fixed_lib/src/*_table.h (Generated/Tables.lean).
-/
import FixedMath.Model.Math
import FixedMath.Model.Mixed
import FixedMath.Generated.Tables

namespace FixedMath
open Gen

/-- `square_root_tab(uint8_t)` : unchecked `std::array::operator[]` -/
def squareRootTab (index : Int) : M Int := idx square_root_table index
def sinAngleTab (index : Int) : M Int := idx sin_angle_table index
def cosAngleTab (index : Int) : M Int := idx cos_angle_table index
def tanTab (index : Int) : M Int := idx tan_table index

/-- the index computation shared (textually duplicated in the source) by `sin_angle_aprox` and `cos_angle_aprox`
    (after the repair): `angle % 360`, `+ 360` when negative, then conversion to the `uint16_t` parameter -/
def angleIndex (angle : Int) : M Int := do
  let a ← if angle < 0 ∨ angle > 360 then do
            let r ← mod64 angle 360   -- `int % int`; never overflows for a divisor of 360
            if r < 0 then chk32 (r + 360) else pure r
          else pure angle
  pure (toU16 a)

/-- `sin_angle_aprox(int32_t)` -/
def sinAngleAprox (angle : Int) : M Int := do
  let i ← angleIndex angle
  sinAngleTab i

/-- `cos_angle_aprox(int32_t)` -/
def cosAngleAprox (angle : Int) : M Int := do
  let i ← angleIndex angle
  cosAngleTab i

/-- `fix_rbit_scan_clz` -/
def rbitScanClz (value : Int) : Int := if value ≠ 0 then 32 - clz32 value else 0

/-- `x & 0xfe` for a non-negative `int` -/
@[inline] def andFE (x : Int) : Int := (x % 256) - (x % 2)

/-- `sqrt_aprox` -/
def sqrtAprox (value : Int) : M Int :=
  if value ≤ 0 then
    if value < 0 then pure NaNp else pure 0
  else do
    let sh6 ← shr64 value 6
    let cl := andFE (rbitScanClz (toU32 sh6))
    let t ← shr64 value cl
    let index := toI32 t                 -- `int index = value.v >> cl` (narrowing, modular)
    let e ← squareRootTab (toU8 index)   -- parameter type `uint8_t`
    let cl ← shr64 cl 1                  -- `cl >>= 1` on `int`
    let v ← shl64 e cl
    shr64 v 4

/-- `hypot_aprox` -/
def hypotAprox (lh rh : Int) : M Int := do
  let ul := toU64 lh
  let ur := toU64 rh
  let sum := ((ul * ul) % two64 + (ur * ur) % two64) % two64
  if sum > 70368744177663 then pure NaNp
  else do
    let hi := toU32 (sum / 4294967296)
    let lo := toU32 (sum % 4294967296)
    let clz := rbitScanClz hi
    if clz ≠ 0 then do
      let clz := andFE (clz + 2)
      let sum ← shrU64 sum clz
      let loIndex := toU32 ((sum / 16777216) % 256)
      let e ← squareRootTab (toU8 loIndex)
      let clz ← shr64 clz 1
      shl64 e clz
    else do
      let lo := lo / 65536
      let clz := andFE (rbitScanClz (lo / 64))
      let loIndex ← shrU64 lo clz
      let e ← squareRootTab (toU8 loIndex)
      let clz ← shr64 clz 1
      let v ← shl64 e clz
      shr64 v 4

/-- `std::lower_bound(first, first+len, value)` over `tan_table__` (libstdc++'s halving loop);
    returns the index of the first element that is not less than `value` -/
def lowerBound (tab : Array Int) (value : Int) : Nat → Int → Int → M Int
  | 0, first, _ => pure first
  | fuel + 1, first, len =>
    if len > 0 then do
      let half := len / 2
      let mid := first + half
      let e ← idx tab mid
      if e < value then lowerBound tab value fuel (mid + 1) (len - half - 1)
      else lowerBound tab value fuel first half
    else pure first

/-- `atan_index_aprox` -/
def atanIndexAprox (value : Int) : M Int :=
  if value ≥ 0 then do
    let index ← lowerBound tan_table value 16 0 128
    let index ←
      if index ≠ 0 then do
        let hi ← tanTab (toU8 index)
        let lo ← tanTab (toU8 (index - 1))
        let a ← sub hi value
        let b ← sub value lo
        if a > b then pure (index - 1) else pure index
      else pure index
    shl64' index
  else do
    let index ← lowerBound tan_table value 16 128 128
    let index ←
      if index ≠ 0 then do
        let hi ← tanTab (toU8 index)
        let lo ← tanTab (toU8 (index - 1))
        let a ← sub hi value
        let b ← sub value lo
        if a > b then pure (index - 1) else pure index
      else pure index
    let s ← shl64' index
    let m128 ← toFixed .i64 128
    let m128 ← neg m128
    add m128 s
where
  /-- `fixed_internal(index) << 15` -/
  shl64' (i : Int) : M Int := shl64 i 15

/-- `atan_aprox` : `atan_index_aprox(value) * fixtorad_r` -/
def atanAprox (value : Int) : M Int := do
  let i ← atanIndexAprox value
  mul i fixtorad_r

end FixedMath

/-
  Model of math.h: sin_range, sin, cos.
  Line by line after the source; every signed `+ - * / % << >>` goes through CSem so that
  overflow, bad shifts and division traps are values of the model.
-/
import FixedMath.Model.Common

namespace FixedMath
open Gen

/-- `detail::sin_range` -/
def sinRange (rad : Int) : M Int := do
  let phi2 ← phi2M
  let _2phi ← twoPhiM
  let nphi2 ← neg phi2
  let hi ← add phi phi2
  if rad < nphi2 ∨ rad > hi then do
    let t ← mod64 rad _2phi
    let s ← chk64 (phi2 + t)
    let u ← mod64 s _2phi
    let r ← chk64 (u - phi2)
    if r < nphi2 then chk64 (r + _2phi) else pure r
  else pure rad

/-- the polynomial part of `sin` for a reduced argument -/
def sinPoly (x : Int) : M Int := do
  let x2 ← mul_ 16 x x
  let c42 ← shl64 42 16
  let c105 ← shl64 105 35
  let c315 ← shl64 315 16
  let a ← chk64 (c42 - x2)
  let b ← chk64 (x2 * a)
  let c ← chk64 (c105 - b)
  let d ← mul_ 36 x2 c
  let e ← chk64 (c315 - d)
  let f ← mul_ 16 x e
  div64 f 315

/-- `sin` -/
def sin (rad : Int) : M Int := do
  let phi2 ← phi2M
  let rad ← sinRange rad
  let rad ← if rad > phi2 then sub phi rad else pure rad
  sinPoly rad

/-- `cos` : `sin( fixpidiv2 + rad )` -/
def cos (rad : Int) : M Int := do
  let a ← add fixpidiv2 rad
  sin a

end FixedMath

/-
  Model of math.h: tan_, tan_range, tan.
  Line by line after the source; every signed `+ - * / % << >>` goes through CSem so that
  overflow, bad shifts and division traps are values of the model.
-/
import FixedMath.Model.Sin

namespace FixedMath
open Gen

/-- `detail::tan_<p>` -/
def tan_ (p : Int) (x : Int) : M Int := do
  let x2 ← mul_ p x x
  let k21844 ← fix_ p 21844
  let t0 ← chk64 (929569 * x2)
  let t0 ← div64 t0 105
  let y0 ← chk64 (k21844 + t0)
  let k1382 ← fix_ p 1382
  let t1 ← mul_ p x2 y0
  let t1 ← div64 t1 39
  let y1 ← chk64 (k1382 + t1)
  let k62 ← fix_ p 62
  let t2 ← mul_ p x2 y1
  let t2 ← div64 t2 55
  let y2 ← chk64 (k62 + t2)
  let k17 ← fix_ p 17
  let t3 ← mul_ p x2 y2
  let t3 ← div64 t3 9
  let y3 ← chk64 (k17 + t3)
  let k2 ← fix_ p 2
  let t4 ← mul_ p x2 y3
  let t4 ← div64 t4 21
  let y4 ← chk64 (k2 + t4)
  let k1 ← fix_ p 1
  let t5 ← mul_ p x2 y4
  let t5 ← div64 t5 5
  let y5 ← chk64 (k1 + t5)
  let t6 ← mul_ p x2 y5
  let t6 ← div64 t6 3
  let y6 ← chk64 (k1 + t6)
  mul_ p x y6

/-- `detail::tan_range` -/
def tanRange (x : Int) : M Int := do
  let phi2 ← phi2M
  if x > phi2 then mod64 x phi else pure x

/-- the magnitude computed by `tan` for a normalised argument `x1 = tan_range(|rad|)`, `x1` not the pole
    (after the repair: second quadrant reflected to `phi - x1`) -/
def tanRes (x1 : Int) : M Int := do
  let one_ ← fix_ 16 1
  let x ← if x1 > fixpidiv2 then chk64 (phi - x1) else pure x1
  if x ≤ fixpidiv4 then do
    let a ← shl64 x 4
    let t ← tan_ 20 a
    shr64 t 4
  else do
    let a ← shl64 fixpidiv2 4
    let b ← shl64 x 4
    let c ← chk64 (a - b)
    let t ← tan_ 20 c
    let t ← shr64 t 4
    div_ 16 one_ t

/-- pole test, magnitude (`tanRes`), sign -/
def tanRed (x1 : Int) (sign0 : Bool) : M Int :=
  if x1 ≠ fixpidiv2 then do
    let res ← tanRes x1
    let sign : Bool := if x1 > fixpidiv2 then !sign0 else sign0
    if sign then chk64 (-res) else pure res
  else pure NaNp

/-- `tan` -/
def tan (rad : Int) : M Int := do
  let x0 ← if rad < 0 then chk64 (-rad) else pure rad
  let x1 ← tanRange x0
  tanRed x1 (decide (rad < 0))

end FixedMath

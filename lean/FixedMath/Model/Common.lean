/-
  Model of detail/common.h: `mul_ div_ fix_ set_sign`.
  Line by line after the source; every signed `+ - * / % << >>` goes through CSem so that
  overflow, bad shifts and division traps are values of the model.
-/
import FixedMath.Model.Conv

namespace FixedMath
open Gen

/-- `detail::mul_<p>` : `(x * y) >> p` -/
@[inline] def mul_ (p : Int) (x y : Int) : M Int := do
  let t ← chk64 (x * y)
  shr64 t p
/-- `detail::div_<p>` : `(x << p) / y` -/
@[inline] def div_ (p : Int) (x y : Int) : M Int := do
  let t ← shl64 x p
  div64 t y
/-- `detail::fix_<p>` : `x << p` -/
@[inline] def fix_ (p : Int) (x : Int) : M Int := shl64 x p
/-- `detail::set_sign` -/
@[inline] def setSign (sign : Bool) (r : Int) : M Int := if !sign then pure r else chk64 (-r)

/-- `phi/2` as the library computes it (`fixed_t / int`) -/
def phi2M : M Int := divScalar .i32 phi 2
/-- `2*phi` (`int * fixed_t`) -/
def twoPhiM : M Int := mulScalar .i32 phi 2

end FixedMath

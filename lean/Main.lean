/-
  Model driver: reads one operation per line (`fn[:tag] arg…`) on stdin, evaluates the Lean model
  and prints one result per line (`ok <int>` / `ub <kind>` / `bad-op`).
  Floating-point arguments and results travel as IEEE bit patterns (decimal), `nan` is canonical.
  Imports only the Mathlib-free model, so it links as a native executable.
-/
import FixedMath.Model.Tab

open FixedMath

def showB (b : M Bool) : String :=
  match b with
  | .ok v => if v then "ok 1" else "ok 0"
  | .error e => s!"ub {e.name}"

def showFP (f : Fmt) (x : FP) : String :=
  if x.isNaN then "ok nan" else s!"ok {x.toBits f}"

def be? : String → Option SqrtBE
  | "ab" => some .abacus
  | "std" => some .std
  | _ => none

def bool01 (b : Bool) : String := if b then "ok 1" else "ok 0"

/-- `a op t` with `t` promoted through `toFixed` -/
def promoted (t : IT) (n : Int) (k : Int → M Int) : M Int := do
  let f ← toFixed t n
  k f

/-- call-site variants of the harness that denote the same library operation -/
def canon : String → String
  | "add_ool" | "add_fn" | "addeq" | "add_pp" | "add_nn" => "add"
  | "sub_ool" | "sub_fn" | "subeq" | "sub_pn" | "sub_np" => "sub"
  | "mul_fn" | "muleq" => "mul"
  | "div_fn" | "diveq" => "div"
  | "rmul_s" | "muleq_s" => "mul_s"
  | "diveq_s" => "div_s"
  | "addeq_i" => "add_i"
  | "subeq_i" => "sub_i"
  | "to_fixed_mk" => "to_fixed"
  | "ref_add_i" => "add_i" | "ref_sub_i" => "sub_i" | "ref_rsub_i" => "rsub_i" | "ref_rdiv_i" => "rdiv_i"
  | "ref_add_f" => "add_f" | "ref_sub_f" => "sub_f" | "ref_rsub_f" => "rsub_f" | "ref_mul_f" => "mul_f"
  | "ref_div_f" => "div_f" | "ref_rdiv_f" => "rdiv_f"
  | "radd_d" => "add_d"
  | "rmul_d" => "mul_d"
  | "addeq_f" => "add_f"
  | "subeq_f" => "sub_f"
  | "muleq_f" => "mul_f"
  | "diveq_f" => "div_f"
  | s => s

/-- distinct C++ integral types with the representation of a fixed-width typedef (LP64): same model type -/
def canonTag : String → String
  | "ll" => "i64" | "ull" => "u64"
  | s => s

/-- the model's early-initialisation table: the twelve calls the harness makes during static initialisation -/
def earlyVal (k : Int) : String :=
  match k with
  | 0 => (sinAngleAprox 30).show | 1 => (cosAngleAprox 60).show | 2 => (cosAngleAprox 0).show
  | 3 => (sinAngleAprox 90).show | 4 => (sqrtAprox 262144).show | 5 => (atanIndexAprox 65536).show
  | 6 => (tanTab 64).show | 7 => (squareRootTab 255).show | 8 => (sinAngleTab 45).show
  | 9 => (cosAngleTab 45).show | 10 => (hypotAprox 196608 262144).show | 11 => (atanAprox (-65536)).show
  | _ => "bad-op"

/-- `operator<<(std::ostream&, fixed_t)` of iostream.h: "NaN" for the NaN sentinel, otherwise
    `std::fixed << std::setprecision(16) << static_cast<double>(x)`; every such double has at most 16 fraction bits, so the
    16 decimals are exact and the text (decimal point removed) is the integer `value · 10^16` -/
def streamText (x : Int) : String :=
  if x = NaNp then "ok nan"
  else match fixedToFp b64 x with
    | .fin s m e =>
      let mag : Nat := if e ≥ 0 then m * 10000000000000000 * pow2 e.toNat else m * 10000000000000000 / pow2 (-e).toNat
      -- printf keeps the sign of the double, also for -0 (which cannot occur here)
      let digits := toString mag
      let digits := if digits.length < 17 then String.ofList (List.replicate (17 - digits.length) '0') ++ digits else digits
      "ok " ++ (if s && mag ≠ 0 then "-" else "") ++ digits
    | _ => "bad-op"

partial def evalLine (fn0 tag0 : String) (a : Array Int) : String :=
  -- `re_<op> first-operands second-operands` : the library is called twice on the same objects; the second result counts
  if fn0.startsWith "lit_" then
    let f := (fn0.drop 4).toString
    if f == "hypot1" then evalLine "hypot" tag0 #[a.getD 0 0, 65536]
    else if f == "sqrt" || f == "asin" || f == "acos" then evalLine f tag0 a
    else evalLine f "" a
  else if fn0 == "re_sincos_aprox" then evalLine "cos_aprox" tag0 (a.extract 1 2)
  else if fn0 == "re_cossin_aprox" then evalLine "sin_aprox" tag0 (a.extract 1 2)
  else if fn0 == "after" then
    -- `after[:tag] i j a b`: NAMES[i](a) then NAMES[j](b); the functions are pure, so the second call's value is the result
    let names := #["sin","cos","tan","atan","sqrt","asin","acos","ceil","floor","sqrt_aprox","atan_index","atan_aprox","neg","abs"]
    let tg := fun (f : String) => if f == "sqrt" || f == "asin" || f == "acos" then (if tag0 == "" then "dflt" else tag0) else ""
    if a.size != 4 || a.getD 0 0 < 0 || a.getD 1 0 < 0 then "bad-op" else
    match names[(a.getD 0 0).toNat]?, names[(a.getD 1 0).toNat]? with
    | some f1, some f2 =>
      let r1 := evalLine f1 (tg f1) (a.extract 2 3)
      if r1.startsWith "ub" then r1 else evalLine f2 (tg f2) (a.extract 3 4)
    | _, _ => "bad-op"
  else if fn0.startsWith "re_" then
    evalLine (fn0.drop 3).toString tag0 (a.extract (a.size / 2) a.size)
  else
  let fn := canon fn0
  let tag := canonTag tag0
  let a0 := a.getD 0 0
  let a1 := a.getD 1 0
  let n := a.size
  match fn, n with
  | "shl_lit", 2 => (shl a0 a1).show
  | "shr_lit", 2 => (shr a0 a1).show
  | "mul_lit", 2 => (mulInt .i32 a0 a1).show
  | "div_lit", 2 => (divInt .i32 a0 a1).show
  | "addeq_self", 1 => (add a0 a0).show
  | "subeq_self", 1 => (sub a0 a0).show
  | "muleq_self", 1 => (mul a0 a0).show
  | "diveq_self", 1 => (FixedMath.div a0 a0).show
  | "stream", 1 => streamText a0
  | "early", 1 => earlyVal a0
  | "late", 1 => earlyVal a0
  | "neg", 1 => (neg a0).show
  | "abs", 1 => (FixedMath.abs a0).show
  | "isnan", 1 => showB (isnan a0)
  | "shr", 2 => (shr a0 a1).show
  | "shl", 2 => (shl a0 a1).show
  | "band", 2 => (band a0 a1).show
  | "add", 2 => (add a0 a1).show
  | "add_pp_isnan", 2 => showB (do let r ← add a0 a1; isnan r)
  | "sub", 2 => (sub a0 a1).show
  | "mul", 2 => (mul a0 a1).show
  | "div", 2 => (FixedMath.div a0 a1).show
  | "ceil", 1 => (ceil a0).show
  | "floor", 1 => (floor a0).show
  | "lt", 2 => bool01 (lt a0 a1)
  | "le", 2 => bool01 (le a0 a1)
  | "gt", 2 => bool01 (gt a0 a1)
  | "ge", 2 => bool01 (ge a0 a1)
  | "eq", 2 => bool01 (eq a0 a1)
  | "ne", 2 => bool01 (ne a0 a1)
  | "roundtrip_d", 1 => (fpToFixed b64 (fixedToFp b64 a0)).show
  | "sqrt_abacus", 1 => (sqrtAbacus a0).show
  | "sqrt_std", 1 => (sqrtStd a0).show
  | "sin", 1 => (sin a0).show
  | "cos", 1 => (cos a0).show
  | "tan", 1 => (tan a0).show
  | "atan", 1 => (atan a0).show
  | "atan2", 2 => (atan2 a0 a1).show
  | "sin_range", 1 => (sinRange a0).show
  | "sin_poly", 1 => (sinPoly a0).show
  | "tan_range", 1 => (tanRange a0).show
  | "tan_k20", 1 => (tan_ 20 a0).show
  | "atan_k16", 1 => (atanKernel 16 a0).show
  | "asin_k20", 1 => (asinKernel 20 a0).show
  | "sin_aprox", 1 => (sinAngleAprox a0).show
  | "cos_aprox", 1 => (cosAngleAprox a0).show
  | "sqrt_aprox", 1 => (sqrtAprox a0).show
  | "hypot_aprox", 2 => (hypotAprox a0 a1).show
  | "atan_index", 1 => (atanIndexAprox a0).show
  | "atan_aprox", 1 => (atanAprox a0).show
  | "sqrt_tab", 1 => (squareRootTab a0).show
  | "sin_tab", 1 => (sinAngleTab a0).show
  | "cos_tab", 1 => (cosAngleTab a0).show
  | "tan_tab", 1 => (tanTab a0).show
  | "hypot", 2 => match be? tag with
      | some be => (hypot be a0 a1).show
      | none => "bad-op"
  | "asin", 1 => match be? tag with
      | some be => (asin be a0).show
      | none => "bad-op"
  | "acos", 1 => match be? tag with
      | some be => (acos be a0).show
      | none => "bad-op"
  | "sqrt", 1 => match be? tag with
      | some be => (sqrt be a0).show
      | none => "bad-op"
  -- floating point, tag = f32 | f64
  | "fp_to_fixed", 1 =>
      if tag = "f32" then (fpToFixed b32 (FP.ofBits b32 a0.toNat)).show
      else if tag = "f64" then (fpToFixed b64 (FP.ofBits b64 a0.toNat)).show else "bad-op"
  | "to_fp", 1 =>
      if tag = "f32" then showFP b32 (fixedToFp b32 a0)
      else if tag = "f64" then showFP b64 (fixedToFp b64 a0) else "bad-op"
  | "add_d", 2 => showFP b64 (addD a0 (FP.ofBits b64 a1.toNat))
  | "sub_d", 2 => showFP b64 (subD a0 (FP.ofBits b64 a1.toNat))
  | "rsub_d", 2 => showFP b64 (subDL (FP.ofBits b64 a1.toNat) a0)
  | "mul_d", 2 => showFP b64 (mulD a0 (FP.ofBits b64 a1.toNat))
  | "div_d", 2 => showFP b64 (divD a0 (FP.ofBits b64 a1.toNat))
  | "rdiv_d", 2 => showFP b64 (divDL (FP.ofBits b64 a1.toNat) a0)
  | "add_f", 2 => (addFloat a0 (FP.ofBits b32 a1.toNat)).show
  | "sub_f", 2 => (subFloat a0 (FP.ofBits b32 a1.toNat)).show
  | "radd_f", 2 => (addFloatL (FP.ofBits b32 a1.toNat) a0).show
  | "rmul_f", 2 => (mulFloatL (FP.ofBits b32 a1.toNat) a0).show
  | "rsub_f", 2 => (subFloatL (FP.ofBits b32 a1.toNat) a0).show
  | "mul_f", 2 => (mulFloat a0 (FP.ofBits b32 a1.toNat)).show
  | "div_f", 2 => (divFloat a0 (FP.ofBits b32 a1.toNat)).show
  | "rdiv_f", 2 => (divFloatL (FP.ofBits b32 a1.toNat) a0).show
  | "sin_angle", 1 =>
      if tag = "fx" then (sinAngleFixed a0).show
      else if tag = "f32" then (sinAngleFloat (FP.ofBits b32 a0.toNat)).show
      else match IT.ofName tag with
        | some t => (sinAngleInt t a0).show
        | none => "bad-op"
  | "cos_angle", 1 =>
      if tag = "fx" then (cosAngleFixed a0).show
      else if tag = "f32" then (cosAngleFloat (FP.ofBits b32 a0.toNat)).show
      else match IT.ofName tag with
        | some t => (cosAngleInt t a0).show
        | none => "bad-op"
  | "tan_angle", 1 =>
      if tag = "fx" then (tanAngleFixed a0).show
      else if tag = "f32" then (tanAngleFloat (FP.ofBits b32 a0.toNat)).show
      else match IT.ofName tag with
        | some t => (tanAngleInt t a0).show
        | none => "bad-op"
  | _, _ =>
    match IT.ofName tag with
    | none => "bad-op"
    | some t =>
      match fn, n with
      | "to_fixed", 1 => if t.mem a0 then (toFixed t a0).show else "bad-op"
      | "from_fixed", 1 => (fromFixed t a0).show
      | "a2r", 1 => if t.mem a0 then (angleToRadians t a0).show else "bad-op"
      | "mul_s", 2 => if t.mem a1 then (mulInt t a0 a1).show else "bad-op"
      | "div_s", 2 => if t.mem a1 then (divInt t a0 a1).show else "bad-op"
      | "add_i", 2 => if t.mem a1 then (addInt t a0 a1).show else "bad-op"
      | "sub_i", 2 => if t.mem a1 then (subInt t a0 a1).show else "bad-op"
      | "radd_i", 2 => if t.mem a1 then (addIntL t a1 a0).show else "bad-op"
      | "rsub_i", 2 => if t.mem a1 then (subIntL t a1 a0).show else "bad-op"
      | "rdiv_i", 2 => if t.mem a1 then (divIntL t a1 a0).show else "bad-op"
      | _, _ => "bad-op"

def processLine (line : String) : String :=
  let parts := (line.trimAscii.toString.splitOn " ").filter (· ≠ "")
  match parts with
  | [] => "bad-op"
  | h :: rest =>
    let (fn, tag) := match h.splitOn ":" with
      | [f, t] => (f, t)
      | _ => (h, "")
    let args := rest.map String.toInt?
    if args.any Option.isNone then "bad-op"
    else evalLine fn tag (args.map (·.getD 0)).toArray

partial def loop (hin hout : IO.FS.Stream) (buf : String) (cnt : Nat) : IO Unit := do
  let line ← hin.getLine
  if line.isEmpty then
    hout.putStr buf
    hout.flush
  else
    let out := processLine line
    let buf := buf ++ out ++ "\n"
    if cnt ≥ 4096 then
      hout.putStr buf
      loop hin hout "" 0
    else
      loop hin hout buf (cnt + 1)

def main : IO Unit := do
  let hin ← IO.getStdin
  let hout ← IO.getStdout
  loop hin hout "" 0

import FixedMath.CSem
import FixedMath.Generated.Consts
import FixedMath.Generated.Tables
import FixedMath.Model.Core

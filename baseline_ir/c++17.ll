; ModuleID = '/tmp/fmirunn67iwk/w.cc'
source_filename = "/tmp/fmirunn67iwk/w.cc"
target datalayout = "e-m:e-p270:32:32-p271:32:32-p272:64:64-i64:64-f80:128-n8:16:32:64-S128"
target triple = "x86_64-pc-linux-gnu"

$_ZN9fixedmath3tanENS_7fixed_tE = comdat any

$_ZN9fixedmath4atanENS_7fixed_tE = comdat any

$_ZN9fixedmath4asinENS_7fixed_tE = comdat any

$_ZN9fixedmath5atan2ENS_7fixed_tES0_ = comdat any

$_ZN9fixedmath5hypotENS_7fixed_tES0_ = comdat any

; Function Attrs: mustprogress nofree norecurse nosync nounwind readnone uwtable willreturn
define dso_local i64 @w_neg(i64 noundef %0) local_unnamed_addr #0 {
  %2 = sub nsw i64 0, %0
  ret i64 %2
}

; Function Attrs: mustprogress nofree nosync nounwind readnone uwtable willreturn
define dso_local i64 @w_abs(i64 noundef %0) local_unnamed_addr #1 {
  %2 = tail call i64 @llvm.abs.i64(i64 %0, i1 true) #10
  ret i64 %2
}

; Function Attrs: mustprogress nofree nosync nounwind readnone uwtable willreturn
define dso_local zeroext i1 @w_isnan(i64 noundef %0) local_unnamed_addr #1 {
  %2 = tail call i64 @llvm.abs.i64(i64 %0, i1 true) #10
  %3 = icmp eq i64 %2, 9223372036854775807
  ret i1 %3
}

; Function Attrs: mustprogress nofree norecurse nosync nounwind readnone uwtable willreturn
define dso_local i64 @w_ceil(i64 noundef %0) local_unnamed_addr #0 {
  %2 = icmp sgt i64 %0, 9223372036854710272
  %3 = add nsw i64 %0, 65535
  %4 = and i64 %3, -65536
  %5 = select i1 %2, i64 9223372036854775807, i64 %4, !prof !5
  ret i64 %5
}

; Function Attrs: mustprogress nofree norecurse nosync nounwind readnone uwtable willreturn
define dso_local i64 @w_floor(i64 noundef %0) local_unnamed_addr #0 {
  %2 = and i64 %0, -65536
  ret i64 %2
}

; Function Attrs: mustprogress nofree norecurse nosync nounwind readnone uwtable willreturn
define dso_local i64 @w_sin(i64 noundef %0) local_unnamed_addr #0 {
  %2 = add i64 %0, -308831
  %3 = icmp ult i64 %2, -411774
  br i1 %3, label %4, label %14, !prof !6

4:                                                ; preds = %1
  %5 = srem i64 %0, 411774
  %6 = trunc i64 %5 to i32
  %7 = add nsw i32 %6, 102943
  %8 = srem i32 %7, 411774
  %9 = add nsw i32 %8, -102943
  %10 = sext i32 %9 to i64
  %11 = icmp slt i32 %8, 0
  br i1 %11, label %12, label %14, !prof !5

12:                                               ; preds = %4
  %13 = add nsw i64 %10, 411774
  br label %14

14:                                               ; preds = %12, %4, %1
  %15 = phi i64 [ %13, %12 ], [ %10, %4 ], [ %0, %1 ]
  %16 = icmp sgt i64 %15, 102943
  br i1 %16, label %17, label %19, !prof !5

17:                                               ; preds = %14
  %18 = sub nsw i64 205887, %15
  br label %19

19:                                               ; preds = %14, %17
  %20 = phi i64 [ %15, %14 ], [ %18, %17 ]
  %21 = mul nsw i64 %20, %20
  %22 = lshr i64 %21, 16
  %23 = add nsw i64 %22, -2752512
  %24 = mul nsw i64 %23, %22
  %25 = add nsw i64 %24, 3607772528640
  %26 = mul nsw i64 %25, %22
  %27 = ashr i64 %26, 36
  %28 = sub nsw i64 20643840, %27
  %29 = mul nsw i64 %28, %20
  %30 = lshr i64 %29, 16
  %31 = trunc i64 %30 to i32
  %32 = sdiv i32 %31, 315
  %33 = sext i32 %32 to i64
  ret i64 %33
}

; Function Attrs: mustprogress nofree norecurse nosync nounwind readnone uwtable willreturn
define dso_local i64 @w_cos(i64 noundef %0) local_unnamed_addr #0 {
  %2 = add i64 %0, 102944
  %3 = icmp sgt i64 %0, 9223372036854672863
  br i1 %3, label %20, label %4, !prof !7

4:                                                ; preds = %1
  %5 = add i64 %0, -205887
  %6 = icmp ult i64 %5, -411774
  br i1 %6, label %7, label %17, !prof !6

7:                                                ; preds = %4
  %8 = srem i64 %2, 411774
  %9 = trunc i64 %8 to i32
  %10 = add nsw i32 %9, 102943
  %11 = srem i32 %10, 411774
  %12 = add nsw i32 %11, -102943
  %13 = sext i32 %12 to i64
  %14 = icmp slt i32 %11, 0
  br i1 %14, label %15, label %17, !prof !5

15:                                               ; preds = %7
  %16 = add nsw i64 %13, 411774
  br label %17

17:                                               ; preds = %15, %7, %4
  %18 = phi i64 [ %16, %15 ], [ %13, %7 ], [ %2, %4 ]
  %19 = icmp sgt i64 %18, 102943
  br i1 %19, label %20, label %23, !prof !5

20:                                               ; preds = %17, %1
  %21 = phi i64 [ %18, %17 ], [ 224935, %1 ]
  %22 = sub nsw i64 205887, %21
  br label %23

23:                                               ; preds = %17, %20
  %24 = phi i64 [ %18, %17 ], [ %22, %20 ]
  %25 = mul nsw i64 %24, %24
  %26 = lshr i64 %25, 16
  %27 = add nsw i64 %26, -2752512
  %28 = mul nsw i64 %27, %26
  %29 = add nsw i64 %28, 3607772528640
  %30 = mul nsw i64 %29, %26
  %31 = ashr i64 %30, 36
  %32 = sub nsw i64 20643840, %31
  %33 = mul nsw i64 %32, %24
  %34 = lshr i64 %33, 16
  %35 = trunc i64 %34 to i32
  %36 = sdiv i32 %35, 315
  %37 = sext i32 %36 to i64
  ret i64 %37
}

; Function Attrs: mustprogress nofree nosync nounwind readnone uwtable willreturn
define dso_local i64 @w_tan(i64 noundef %0) local_unnamed_addr #1 {
  %2 = tail call i64 @_ZN9fixedmath3tanENS_7fixed_tE(i64 %0) #11
  ret i64 %2
}

; Function Attrs: mustprogress nofree nosync nounwind readnone uwtable willreturn
define linkonce_odr dso_local i64 @_ZN9fixedmath3tanENS_7fixed_tE(i64 %0) local_unnamed_addr #1 comdat {
  %2 = icmp slt i64 %0, 0
  %3 = sub nsw i64 0, %0
  %4 = select i1 %2, i64 %3, i64 %0
  %5 = icmp sgt i64 %4, 102943
  br i1 %5, label %6, label %8, !prof !5

6:                                                ; preds = %1
  %7 = urem i64 %4, 205887
  br label %8

8:                                                ; preds = %1, %6
  %9 = phi i64 [ %7, %6 ], [ %4, %1 ]
  %10 = icmp eq i64 %9, 102944
  br i1 %10, label %78, label %11, !prof !5

11:                                               ; preds = %8
  %12 = icmp ugt i64 %9, 102944
  %13 = sub nsw i64 205887, %9
  %14 = select i1 %12, i64 %13, i64 %9
  %15 = icmp slt i64 %14, 51473
  br i1 %15, label %16, label %43

16:                                               ; preds = %11
  %17 = shl i64 %14, 4
  %18 = mul nsw i64 %17, %17
  %19 = lshr i64 %18, 20
  %20 = mul nuw nsw i64 %19, 929569
  %21 = udiv i64 %20, 105
  %22 = add nuw nsw i64 %21, 22905094144
  %23 = mul nsw i64 %22, %19
  %24 = udiv i64 %23, 40894464
  %25 = add nuw nsw i64 %24, 1449132032
  %26 = mul nsw i64 %25, %19
  %27 = udiv i64 %26, 57671680
  %28 = add nuw nsw i64 %27, 65011712
  %29 = mul nsw i64 %28, %19
  %30 = udiv i64 %29, 9437184
  %31 = add nuw nsw i64 %30, 17825792
  %32 = mul nsw i64 %31, %19
  %33 = udiv i64 %32, 22020096
  %34 = add nuw nsw i64 %33, 2097152
  %35 = mul nsw i64 %34, %19
  %36 = udiv i64 %35, 5242880
  %37 = add nuw nsw i64 %36, 1048576
  %38 = mul nsw i64 %37, %19
  %39 = udiv i64 %38, 3145728
  %40 = add nuw nsw i64 %39, 1048576
  %41 = mul nsw i64 %40, %17
  %42 = ashr i64 %41, 24
  br label %72

43:                                               ; preds = %11
  %44 = mul nsw i64 %14, -16
  %45 = add nsw i64 %44, 1647104
  %46 = mul nsw i64 %45, %45
  %47 = lshr i64 %46, 20
  %48 = mul nuw nsw i64 %47, 929569
  %49 = udiv i64 %48, 105
  %50 = add nuw nsw i64 %49, 22905094144
  %51 = mul nsw i64 %50, %47
  %52 = udiv i64 %51, 40894464
  %53 = add nuw nsw i64 %52, 1449132032
  %54 = mul nsw i64 %53, %47
  %55 = udiv i64 %54, 57671680
  %56 = add nuw nsw i64 %55, 65011712
  %57 = mul nsw i64 %56, %47
  %58 = udiv i64 %57, 9437184
  %59 = add nuw nsw i64 %58, 17825792
  %60 = mul nsw i64 %59, %47
  %61 = udiv i64 %60, 22020096
  %62 = add nuw nsw i64 %61, 2097152
  %63 = mul nsw i64 %62, %47
  %64 = udiv i64 %63, 5242880
  %65 = add nuw nsw i64 %64, 1048576
  %66 = mul nsw i64 %65, %47
  %67 = udiv i64 %66, 3145728
  %68 = add nuw nsw i64 %67, 1048576
  %69 = mul nsw i64 %68, %45
  %70 = ashr i64 %69, 24
  %71 = sdiv i64 4294967296, %70
  br label %72

72:                                               ; preds = %43, %16
  %73 = phi i64 [ %42, %16 ], [ %71, %43 ]
  %74 = icmp sgt i64 %0, -1
  %75 = select i1 %12, i1 %2, i1 %74
  %76 = sub nsw i64 0, %73
  %77 = select i1 %75, i64 %73, i64 %76
  br label %78

78:                                               ; preds = %8, %72
  %79 = phi i64 [ %77, %72 ], [ 9223372036854775807, %8 ]
  ret i64 %79
}

; Function Attrs: mustprogress nofree nosync nounwind readnone uwtable willreturn
define dso_local i64 @w_atan(i64 noundef %0) local_unnamed_addr #1 {
  %2 = tail call i64 @_ZN9fixedmath4atanENS_7fixed_tE(i64 %0) #11
  ret i64 %2
}

; Function Attrs: mustprogress nofree nosync nounwind readnone uwtable willreturn
define linkonce_odr dso_local i64 @_ZN9fixedmath4atanENS_7fixed_tE(i64 %0) local_unnamed_addr #1 comdat personality i8* bitcast (i32 (...)* @__gxx_personality_v0 to i8*) {
  %2 = icmp slt i64 %0, 0
  %3 = sub nsw i64 0, %0
  %4 = select i1 %2, i64 %3, i64 %0
  %5 = icmp sgt i64 %4, 35184372088832
  br i1 %5, label %123, label %6, !prof !5

6:                                                ; preds = %1
  %7 = icmp slt i64 %4, 28672
  br i1 %7, label %8, label %27

8:                                                ; preds = %6
  %9 = mul i64 %0, %0
  %10 = lshr i64 %9, 16
  %11 = sub nsw i64 80099, %10
  %12 = mul nsw i64 %11, %10
  %13 = ashr i64 %12, 16
  %14 = add nsw i64 %13, -102985
  %15 = mul nsw i64 %14, %10
  %16 = ashr i64 %15, 16
  %17 = add nsw i64 %16, 144179
  %18 = mul nsw i64 %17, %10
  %19 = ashr i64 %18, 16
  %20 = add nsw i64 %19, -240298
  %21 = mul nsw i64 %20, %10
  %22 = ashr i64 %21, 16
  %23 = add nsw i64 %22, 720896
  %24 = mul nsw i64 %23, %4
  %25 = ashr i64 %24, 16
  %26 = sdiv i64 %25, 11
  br label %150

27:                                               ; preds = %6
  %28 = icmp ult i64 %4, 45056
  br i1 %28, label %29, label %60

29:                                               ; preds = %27
  %30 = mul nuw nsw i64 %4, 28672
  %31 = lshr i64 %30, 16
  %32 = trunc i64 %4 to i32
  %33 = shl nuw i32 %32, 16
  %34 = add i32 %33, -1879048192
  %35 = trunc i64 %31 to i32
  %36 = add nuw nsw i32 %35, 65536
  %37 = udiv i32 %34, %36
  %38 = zext i32 %37 to i64
  %39 = mul nuw nsw i64 %38, %38
  %40 = lshr i64 %39, 16
  %41 = sub nuw nsw i64 80099, %40
  %42 = mul nuw nsw i64 %41, %40
  %43 = lshr i64 %42, 16
  %44 = add nuw nsw i64 %43, -102985
  %45 = mul nsw i64 %44, %40
  %46 = ashr i64 %45, 16
  %47 = add nsw i64 %46, 144179
  %48 = mul nuw nsw i64 %47, %40
  %49 = lshr i64 %48, 16
  %50 = add nuw nsw i64 %49, -240298
  %51 = mul nsw i64 %50, %40
  %52 = ashr i64 %51, 16
  %53 = add nsw i64 %52, 720896
  %54 = mul nuw nsw i64 %53, %38
  %55 = lshr i64 %54, 16
  %56 = trunc i64 %55 to i32
  %57 = udiv i32 %56, 11
  %58 = add nuw nsw i32 %57, 27028
  %59 = zext i32 %58 to i64
  br label %150

60:                                               ; preds = %27
  %61 = icmp ult i64 %4, 77824
  br i1 %61, label %62, label %93

62:                                               ; preds = %60
  %63 = mul nuw nsw i64 %4, 45056
  %64 = lshr i64 %63, 16
  %65 = trunc i64 %4 to i32
  %66 = shl i32 %65, 16
  %67 = add i32 %66, 1342177280
  %68 = trunc i64 %64 to i32
  %69 = add nuw nsw i32 %68, 65536
  %70 = udiv i32 %67, %69
  %71 = zext i32 %70 to i64
  %72 = mul nuw nsw i64 %71, %71
  %73 = lshr i64 %72, 16
  %74 = sub nuw nsw i64 80099, %73
  %75 = mul nuw nsw i64 %74, %73
  %76 = lshr i64 %75, 16
  %77 = add nuw nsw i64 %76, -102985
  %78 = mul nsw i64 %77, %73
  %79 = ashr i64 %78, 16
  %80 = add nsw i64 %79, 144179
  %81 = mul nuw nsw i64 %80, %73
  %82 = lshr i64 %81, 16
  %83 = add nuw nsw i64 %82, -240298
  %84 = mul nsw i64 %83, %73
  %85 = ashr i64 %84, 16
  %86 = add nsw i64 %85, 720896
  %87 = mul nuw nsw i64 %86, %71
  %88 = lshr i64 %87, 16
  %89 = trunc i64 %88 to i32
  %90 = udiv i32 %89, 11
  %91 = add nuw nsw i32 %90, 39472
  %92 = zext i32 %91 to i64
  br label %150

93:                                               ; preds = %60
  %94 = icmp ult i64 %4, 159744
  br i1 %94, label %95, label %123

95:                                               ; preds = %93
  %96 = mul nuw nsw i64 %4, 77824
  %97 = lshr i64 %96, 16
  %98 = add nuw nsw i64 %97, 65536
  %99 = shl nuw nsw i64 %4, 16
  %100 = add nsw i64 %99, -5100273664
  %101 = udiv i64 %100, %98
  %102 = mul nuw nsw i64 %101, %101
  %103 = lshr i64 %102, 16
  %104 = sub nuw nsw i64 80099, %103
  %105 = mul nuw nsw i64 %104, %103
  %106 = lshr i64 %105, 16
  %107 = add nuw nsw i64 %106, -102985
  %108 = mul nsw i64 %107, %103
  %109 = ashr i64 %108, 16
  %110 = add nsw i64 %109, 144179
  %111 = mul nuw nsw i64 %110, %103
  %112 = lshr i64 %111, 16
  %113 = add nuw nsw i64 %112, -240298
  %114 = mul nsw i64 %113, %103
  %115 = ashr i64 %114, 16
  %116 = add nsw i64 %115, 720896
  %117 = mul nuw nsw i64 %116, %101
  %118 = lshr i64 %117, 16
  %119 = trunc i64 %118 to i32
  %120 = udiv i32 %119, 11
  %121 = add nuw nsw i32 %120, 57076
  %122 = zext i32 %121 to i64
  br label %150

123:                                              ; preds = %1, %93
  %124 = phi i64 [ %4, %93 ], [ 35184372088832, %1 ]
  %125 = mul nsw i64 %124, 159744
  %126 = lshr i64 %125, 16
  %127 = add nuw nsw i64 %126, 65536
  %128 = shl i64 %124, 16
  %129 = add i64 %128, -10468982784
  %130 = sdiv i64 %129, %127
  %131 = mul nsw i64 %130, %130
  %132 = lshr i64 %131, 16
  %133 = sub nsw i64 80099, %132
  %134 = mul nsw i64 %133, %132
  %135 = ashr i64 %134, 16
  %136 = add nsw i64 %135, -102985
  %137 = mul nsw i64 %136, %132
  %138 = ashr i64 %137, 16
  %139 = add nsw i64 %138, 144179
  %140 = mul nsw i64 %139, %132
  %141 = ashr i64 %140, 16
  %142 = add nsw i64 %141, -240298
  %143 = mul nsw i64 %142, %132
  %144 = ashr i64 %143, 16
  %145 = add nsw i64 %144, 720896
  %146 = mul nsw i64 %145, %130
  %147 = ashr i64 %146, 16
  %148 = sdiv i64 %147, 11
  %149 = add nsw i64 %148, 77429
  br label %150

150:                                              ; preds = %29, %95, %123, %62, %8
  %151 = phi i64 [ %26, %8 ], [ %59, %29 ], [ %92, %62 ], [ %122, %95 ], [ %149, %123 ]
  %152 = sub nsw i64 0, %151
  %153 = select i1 %2, i64 %152, i64 %151
  ret i64 %153
}

; Function Attrs: mustprogress nofree nosync nounwind readnone uwtable willreturn
define dso_local i64 @w_roundtrip_d(i64 noundef %0) local_unnamed_addr #1 {
  %2 = sitofp i64 %0 to double
  %3 = fmul double %2, 0x3EF0000000000000
  %4 = fcmp olt double %3, 0x41DFFFFFFFC00000
  %5 = fcmp ogt double %3, 0xC1DFFFFFFFC00000
  %6 = and i1 %4, %5
  br i1 %6, label %7, label %12, !prof !8

7:                                                ; preds = %1
  %8 = fcmp olt double %3, 0.000000e+00
  %9 = select i1 %8, double -5.000000e-01, double 5.000000e-01
  %10 = tail call double @llvm.fmuladd.f64(double %3, double 6.553600e+04, double %9) #10
  %11 = fptosi double %10 to i64
  br label %12

12:                                               ; preds = %1, %7
  %13 = phi i64 [ %11, %7 ], [ 9223372036854775807, %1 ]
  ret i64 %13
}

; Function Attrs: mustprogress nofree nounwind uwtable willreturn writeonly
define dso_local i64 @w_sqrt_dflt(i64 noundef %0) local_unnamed_addr #2 {
  %2 = sitofp i64 %0 to double
  %3 = fmul double %2, 0x3EF0000000000000
  %4 = tail call double @sqrt(double noundef %3) #10
  %5 = fcmp olt double %4, 0x41DFFFFFFFC00000
  %6 = fcmp ogt double %4, 0xC1DFFFFFFFC00000
  %7 = and i1 %5, %6
  br i1 %7, label %8, label %13, !prof !8

8:                                                ; preds = %1
  %9 = fcmp olt double %4, 0.000000e+00
  %10 = select i1 %9, double -5.000000e-01, double 5.000000e-01
  %11 = tail call double @llvm.fmuladd.f64(double %4, double 6.553600e+04, double %10) #10
  %12 = fptosi double %11 to i64
  br label %13

13:                                               ; preds = %1, %8
  %14 = phi i64 [ %12, %8 ], [ 9223372036854775807, %1 ]
  ret i64 %14
}

; Function Attrs: mustprogress nofree nosync nounwind readnone uwtable willreturn
define dso_local i64 @w_asin_dflt(i64 noundef %0) local_unnamed_addr #1 {
  %2 = tail call i64 @_ZN9fixedmath4asinENS_7fixed_tE(i64 %0) #11
  ret i64 %2
}

; Function Attrs: mustprogress nofree nosync nounwind readnone uwtable willreturn
define linkonce_odr dso_local i64 @_ZN9fixedmath4asinENS_7fixed_tE(i64 %0) local_unnamed_addr #1 comdat {
  %2 = icmp slt i64 %0, 0
  %3 = sub nsw i64 0, %0
  %4 = select i1 %2, i64 %3, i64 %0
  %5 = icmp slt i64 %4, 65537
  br i1 %5, label %6, label %70, !prof !9

6:                                                ; preds = %1
  %7 = icmp slt i64 %4, 39323
  br i1 %7, label %8, label %31

8:                                                ; preds = %6
  %9 = shl i64 %4, 4
  %10 = mul nsw i64 %9, %9
  %11 = lshr i64 %10, 20
  %12 = mul nsw i64 %11, 6005481
  %13 = lshr i64 %12, 21
  %14 = add nuw nsw i64 %13, 4077796
  %15 = mul nsw i64 %14, %11
  %16 = lshr i64 %15, 23
  %17 = add nuw nsw i64 %16, 748983
  %18 = mul nsw i64 %17, %11
  %19 = lshr i64 %18, 21
  %20 = add nuw nsw i64 %19, 629146
  %21 = mul nsw i64 %20, %11
  %22 = lshr i64 %21, 22
  %23 = add nuw nsw i64 %22, 349525
  %24 = mul nsw i64 %23, %11
  %25 = lshr i64 %24, 21
  %26 = add nuw nsw i64 %25, 1048576
  %27 = mul nsw i64 %26, %9
  %28 = ashr i64 %27, 24
  %29 = sub nsw i64 0, %28
  %30 = select i1 %2, i64 %29, i64 %28
  br label %70

31:                                               ; preds = %6
  %32 = sub nsw i64 65536, %4
  %33 = ashr i64 %32, 1
  %34 = sitofp i64 %33 to double
  %35 = fmul double %34, 0x3EF0000000000000
  %36 = tail call double @sqrt(double noundef %35) #10
  %37 = fcmp olt double %36, 0x41DFFFFFFFC00000
  %38 = fcmp ogt double %36, 0xC1DFFFFFFFC00000
  %39 = and i1 %37, %38
  br i1 %39, label %40, label %46, !prof !8

40:                                               ; preds = %31
  %41 = fcmp olt double %36, 0.000000e+00
  %42 = select i1 %41, double -5.000000e-01, double 5.000000e-01
  %43 = tail call double @llvm.fmuladd.f64(double %36, double 6.553600e+04, double %42) #10
  %44 = fptosi double %43 to i64
  %45 = shl i64 %44, 4
  br label %46

46:                                               ; preds = %31, %40
  %47 = phi i64 [ %45, %40 ], [ -16, %31 ]
  %48 = mul nsw i64 %47, %47
  %49 = lshr i64 %48, 20
  %50 = mul nsw i64 %49, 6005481
  %51 = lshr i64 %50, 21
  %52 = add nuw nsw i64 %51, 4077796
  %53 = mul nsw i64 %52, %49
  %54 = lshr i64 %53, 23
  %55 = add nuw nsw i64 %54, 748983
  %56 = mul nsw i64 %55, %49
  %57 = lshr i64 %56, 21
  %58 = add nuw nsw i64 %57, 629146
  %59 = mul nsw i64 %58, %49
  %60 = lshr i64 %59, 22
  %61 = add nuw nsw i64 %60, 349525
  %62 = mul nsw i64 %61, %49
  %63 = lshr i64 %62, 21
  %64 = add nuw nsw i64 %63, 1048576
  %65 = mul nsw i64 %64, %47
  %66 = ashr i64 %65, 23
  %67 = sub nsw i64 102944, %66
  %68 = sub nsw i64 0, %67
  %69 = select i1 %2, i64 %68, i64 %67
  br label %70

70:                                               ; preds = %1, %8, %46
  %71 = phi i64 [ %30, %8 ], [ %69, %46 ], [ 9223372036854775807, %1 ]
  ret i64 %71
}

; Function Attrs: mustprogress nofree nosync nounwind readnone uwtable willreturn
define dso_local i64 @w_acos_dflt(i64 noundef %0) local_unnamed_addr #1 {
  %2 = add i64 %0, 65536
  %3 = icmp ult i64 %2, 131073
  br i1 %3, label %4, label %7, !prof !8

4:                                                ; preds = %1
  %5 = tail call i64 @_ZN9fixedmath4asinENS_7fixed_tE(i64 %0) #11
  %6 = sub nsw i64 102943, %5
  br label %7

7:                                                ; preds = %1, %4
  %8 = phi i64 [ %6, %4 ], [ 9223372036854775807, %1 ]
  ret i64 %8
}

; Function Attrs: nounwind uwtable
define dso_local i64 @w_sqrt_aprox(i64 noundef %0) local_unnamed_addr #3 {
  %2 = tail call i64 @_ZN9fixedmath10sqrt_aproxENS_7fixed_tE(i64 %0) #10
  ret i64 %2
}

; Function Attrs: nounwind
declare i64 @_ZN9fixedmath10sqrt_aproxENS_7fixed_tE(i64) local_unnamed_addr #4

; Function Attrs: mustprogress nofree nosync nounwind readnone uwtable willreturn
define dso_local i64 @w_sin_angle_fx(i64 noundef %0) local_unnamed_addr #1 {
  %2 = tail call { i64, i1 } @llvm.smul.with.overflow.i64(i64 %0, i64 205887) #10
  %3 = extractvalue { i64, i1 } %2, 1
  %4 = extractvalue { i64, i1 } %2, 0
  %5 = ashr i64 %4, 16
  %6 = sdiv i64 %5, 180
  %7 = select i1 %3, i64 51240955760304310, i64 %6, !prof !5
  %8 = add nsw i64 %7, -308831
  %9 = icmp ult i64 %8, -411774
  br i1 %9, label %10, label %20, !prof !6

10:                                               ; preds = %1
  %11 = srem i64 %7, 411774
  %12 = trunc i64 %11 to i32
  %13 = add nsw i32 %12, 102943
  %14 = srem i32 %13, 411774
  %15 = add nsw i32 %14, -102943
  %16 = sext i32 %15 to i64
  %17 = icmp slt i32 %14, 0
  br i1 %17, label %18, label %20, !prof !5

18:                                               ; preds = %10
  %19 = add nsw i64 %16, 411774
  br label %20

20:                                               ; preds = %18, %10, %1
  %21 = phi i64 [ %19, %18 ], [ %16, %10 ], [ %7, %1 ]
  %22 = icmp sgt i64 %21, 102943
  br i1 %22, label %23, label %25, !prof !5

23:                                               ; preds = %20
  %24 = sub nsw i64 205887, %21
  br label %25

25:                                               ; preds = %20, %23
  %26 = phi i64 [ %21, %20 ], [ %24, %23 ]
  %27 = mul nsw i64 %26, %26
  %28 = lshr i64 %27, 16
  %29 = add nsw i64 %28, -2752512
  %30 = mul nsw i64 %29, %28
  %31 = add nsw i64 %30, 3607772528640
  %32 = mul nsw i64 %31, %28
  %33 = ashr i64 %32, 36
  %34 = sub nsw i64 20643840, %33
  %35 = mul nsw i64 %34, %26
  %36 = lshr i64 %35, 16
  %37 = trunc i64 %36 to i32
  %38 = sdiv i32 %37, 315
  %39 = sext i32 %38 to i64
  ret i64 %39
}

; Function Attrs: mustprogress nofree nosync nounwind readnone uwtable willreturn
define dso_local i64 @w_cos_angle_fx(i64 noundef %0) local_unnamed_addr #1 {
  %2 = tail call { i64, i1 } @llvm.smul.with.overflow.i64(i64 %0, i64 205887) #10
  %3 = extractvalue { i64, i1 } %2, 1
  %4 = extractvalue { i64, i1 } %2, 0
  %5 = ashr i64 %4, 16
  %6 = sdiv i64 %5, 180
  %7 = select i1 %3, i64 51240955760304310, i64 %6, !prof !5
  %8 = add nsw i64 %7, 102944
  %9 = add nsw i64 %7, -205887
  %10 = icmp ult i64 %9, -411774
  br i1 %10, label %11, label %21, !prof !6

11:                                               ; preds = %1
  %12 = srem i64 %8, 411774
  %13 = trunc i64 %12 to i32
  %14 = add nsw i32 %13, 102943
  %15 = srem i32 %14, 411774
  %16 = add nsw i32 %15, -102943
  %17 = sext i32 %16 to i64
  %18 = icmp slt i32 %15, 0
  br i1 %18, label %19, label %21, !prof !5

19:                                               ; preds = %11
  %20 = add nsw i64 %17, 411774
  br label %21

21:                                               ; preds = %19, %11, %1
  %22 = phi i64 [ %20, %19 ], [ %17, %11 ], [ %8, %1 ]
  %23 = icmp sgt i64 %22, 102943
  br i1 %23, label %24, label %26, !prof !5

24:                                               ; preds = %21
  %25 = sub nsw i64 205887, %22
  br label %26

26:                                               ; preds = %21, %24
  %27 = phi i64 [ %22, %21 ], [ %25, %24 ]
  %28 = mul nsw i64 %27, %27
  %29 = lshr i64 %28, 16
  %30 = add nsw i64 %29, -2752512
  %31 = mul nsw i64 %30, %29
  %32 = add nsw i64 %31, 3607772528640
  %33 = mul nsw i64 %32, %29
  %34 = ashr i64 %33, 36
  %35 = sub nsw i64 20643840, %34
  %36 = mul nsw i64 %35, %27
  %37 = lshr i64 %36, 16
  %38 = trunc i64 %37 to i32
  %39 = sdiv i32 %38, 315
  %40 = sext i32 %39 to i64
  ret i64 %40
}

; Function Attrs: mustprogress nofree nosync nounwind readnone uwtable willreturn
define dso_local i64 @w_tan_angle_fx(i64 noundef %0) local_unnamed_addr #1 {
  %2 = tail call { i64, i1 } @llvm.smul.with.overflow.i64(i64 %0, i64 205887) #10
  %3 = extractvalue { i64, i1 } %2, 1
  %4 = extractvalue { i64, i1 } %2, 0
  %5 = ashr i64 %4, 16
  %6 = sdiv i64 %5, 180
  %7 = select i1 %3, i64 51240955760304310, i64 %6, !prof !5
  %8 = tail call i64 @_ZN9fixedmath3tanENS_7fixed_tE(i64 %7) #11
  ret i64 %8
}

; Function Attrs: mustprogress nofree norecurse nosync nounwind readnone uwtable willreturn
define dso_local i64 @w_add(i64 noundef %0, i64 noundef %1) local_unnamed_addr #0 {
  %3 = add i64 %1, %0
  %4 = icmp sgt i64 %3, -1
  br i1 %4, label %5, label %8, !prof !5

5:                                                ; preds = %2
  %6 = and i64 %1, %0
  %7 = icmp slt i64 %6, 0
  br i1 %7, label %15, label %14, !prof !10

8:                                                ; preds = %2
  %9 = icmp sgt i64 %0, 0
  %10 = icmp sgt i64 %1, 0
  %11 = and i1 %9, %10
  br i1 %11, label %15, label %12, !prof !10

12:                                               ; preds = %8
  %13 = icmp eq i64 %3, -9223372036854775808
  br i1 %13, label %15, label %14, !prof !5

14:                                               ; preds = %12, %5
  br label %15

15:                                               ; preds = %5, %8, %12, %14
  %16 = phi i64 [ %3, %14 ], [ -9223372036854775807, %12 ], [ -9223372036854775807, %5 ], [ 9223372036854775807, %8 ]
  ret i64 %16
}

; Function Attrs: mustprogress nofree norecurse nosync nounwind readnone uwtable willreturn
define dso_local i64 @w_sub(i64 noundef %0, i64 noundef %1) local_unnamed_addr #0 {
  %3 = sub i64 %0, %1
  %4 = icmp sgt i64 %3, -1
  br i1 %4, label %5, label %9, !prof !5

5:                                                ; preds = %2
  %6 = icmp slt i64 %0, 0
  %7 = icmp sgt i64 %1, 0
  %8 = and i1 %6, %7
  br i1 %8, label %16, label %15, !prof !10

9:                                                ; preds = %2
  %10 = icmp sgt i64 %0, 0
  %11 = icmp slt i64 %1, 0
  %12 = and i1 %10, %11
  br i1 %12, label %16, label %13, !prof !10

13:                                               ; preds = %9
  %14 = icmp eq i64 %3, -9223372036854775808
  br i1 %14, label %16, label %15, !prof !5

15:                                               ; preds = %13, %5
  br label %16

16:                                               ; preds = %5, %9, %13, %15
  %17 = phi i64 [ %3, %15 ], [ -9223372036854775807, %13 ], [ -9223372036854775807, %5 ], [ 9223372036854775807, %9 ]
  ret i64 %17
}

; Function Attrs: mustprogress nofree nosync nounwind readnone uwtable willreturn
define dso_local i64 @w_mul(i64 noundef %0, i64 noundef %1) local_unnamed_addr #1 {
  %3 = tail call { i64, i1 } @llvm.smul.with.overflow.i64(i64 %0, i64 %1) #10
  %4 = extractvalue { i64, i1 } %3, 1
  %5 = extractvalue { i64, i1 } %3, 0
  %6 = ashr i64 %5, 16
  %7 = select i1 %4, i64 9223372036854775807, i64 %6, !prof !5
  ret i64 %7
}

; Function Attrs: mustprogress nofree norecurse nosync nounwind readnone uwtable willreturn
define dso_local i64 @w_div(i64 noundef %0, i64 noundef %1) local_unnamed_addr #0 {
  %3 = icmp ne i64 %1, 0
  %4 = add i64 %0, 140737488355327
  %5 = icmp ult i64 %4, 281474976710655
  %6 = and i1 %3, %5
  br i1 %6, label %7, label %13, !prof !8

7:                                                ; preds = %2
  %8 = shl nsw i64 %0, 16
  %9 = and i64 %8, 9223372036854710272
  %10 = and i64 %0, -9223372036854775808
  %11 = or i64 %9, %10
  %12 = sdiv i64 %11, %1
  br label %13

13:                                               ; preds = %2, %7
  %14 = phi i64 [ %12, %7 ], [ 9223372036854775807, %2 ]
  ret i64 %14
}

; Function Attrs: mustprogress nofree norecurse nosync nounwind readnone uwtable willreturn
define dso_local i64 @w_band(i64 noundef %0, i64 noundef %1) local_unnamed_addr #0 {
  %3 = and i64 %1, %0
  ret i64 %3
}

; Function Attrs: mustprogress nofree nosync nounwind readonly uwtable willreturn
define dso_local i64 @w_addeq(i64 noundef %0, i64 noundef %1) local_unnamed_addr #5 {
  %3 = add i64 %1, %0
  %4 = icmp sgt i64 %3, -1
  br i1 %4, label %5, label %8, !prof !5

5:                                                ; preds = %2
  %6 = and i64 %1, %0
  %7 = icmp slt i64 %6, 0
  br i1 %7, label %15, label %14, !prof !10

8:                                                ; preds = %2
  %9 = icmp sgt i64 %0, 0
  %10 = icmp sgt i64 %1, 0
  %11 = and i1 %9, %10
  br i1 %11, label %15, label %12, !prof !10

12:                                               ; preds = %8
  %13 = icmp eq i64 %3, -9223372036854775808
  br i1 %13, label %15, label %14, !prof !5

14:                                               ; preds = %12, %5
  br label %15

15:                                               ; preds = %5, %8, %12, %14
  %16 = phi i64 [ %3, %14 ], [ -9223372036854775807, %12 ], [ -9223372036854775807, %5 ], [ 9223372036854775807, %8 ]
  ret i64 %16
}

; Function Attrs: mustprogress nofree nosync nounwind readonly uwtable willreturn
define dso_local i64 @w_subeq(i64 noundef %0, i64 noundef %1) local_unnamed_addr #5 {
  %3 = sub i64 %0, %1
  %4 = icmp sgt i64 %3, -1
  br i1 %4, label %5, label %9, !prof !5

5:                                                ; preds = %2
  %6 = icmp slt i64 %0, 0
  %7 = icmp sgt i64 %1, 0
  %8 = and i1 %6, %7
  br i1 %8, label %16, label %15, !prof !10

9:                                                ; preds = %2
  %10 = icmp sgt i64 %0, 0
  %11 = icmp slt i64 %1, 0
  %12 = and i1 %10, %11
  br i1 %12, label %16, label %13, !prof !10

13:                                               ; preds = %9
  %14 = icmp eq i64 %3, -9223372036854775808
  br i1 %14, label %16, label %15, !prof !5

15:                                               ; preds = %13, %5
  br label %16

16:                                               ; preds = %5, %9, %13, %15
  %17 = phi i64 [ %3, %15 ], [ -9223372036854775807, %13 ], [ -9223372036854775807, %5 ], [ 9223372036854775807, %9 ]
  ret i64 %17
}

; Function Attrs: mustprogress nofree nosync nounwind readonly uwtable willreturn
define dso_local i64 @w_muleq(i64 noundef %0, i64 noundef %1) local_unnamed_addr #5 {
  %3 = tail call { i64, i1 } @llvm.smul.with.overflow.i64(i64 %0, i64 %1) #10
  %4 = extractvalue { i64, i1 } %3, 1
  %5 = extractvalue { i64, i1 } %3, 0
  %6 = ashr i64 %5, 16
  %7 = select i1 %4, i64 9223372036854775807, i64 %6, !prof !5
  ret i64 %7
}

; Function Attrs: mustprogress nofree nosync nounwind readonly uwtable willreturn
define dso_local i64 @w_diveq(i64 noundef %0, i64 noundef %1) local_unnamed_addr #5 {
  %3 = icmp ne i64 %1, 0
  %4 = add i64 %0, 140737488355327
  %5 = icmp ult i64 %4, 281474976710655
  %6 = and i1 %3, %5
  br i1 %6, label %7, label %13, !prof !8

7:                                                ; preds = %2
  %8 = shl nsw i64 %0, 16
  %9 = and i64 %8, 9223372036854710272
  %10 = and i64 %0, -9223372036854775808
  %11 = or i64 %9, %10
  %12 = sdiv i64 %11, %1
  br label %13

13:                                               ; preds = %2, %7
  %14 = phi i64 [ %12, %7 ], [ 9223372036854775807, %2 ]
  ret i64 %14
}

; Function Attrs: mustprogress nofree norecurse nosync nounwind readnone uwtable willreturn
define dso_local zeroext i1 @w_lt(i64 noundef %0, i64 noundef %1) local_unnamed_addr #0 {
  %3 = icmp slt i64 %0, %1
  ret i1 %3
}

; Function Attrs: mustprogress nofree norecurse nosync nounwind readnone uwtable willreturn
define dso_local zeroext i1 @w_le(i64 noundef %0, i64 noundef %1) local_unnamed_addr #0 {
  %3 = icmp sle i64 %0, %1
  ret i1 %3
}

; Function Attrs: mustprogress nofree norecurse nosync nounwind readnone uwtable willreturn
define dso_local zeroext i1 @w_gt(i64 noundef %0, i64 noundef %1) local_unnamed_addr #0 {
  %3 = icmp sgt i64 %0, %1
  ret i1 %3
}

; Function Attrs: mustprogress nofree norecurse nosync nounwind readnone uwtable willreturn
define dso_local zeroext i1 @w_ge(i64 noundef %0, i64 noundef %1) local_unnamed_addr #0 {
  %3 = icmp sge i64 %0, %1
  ret i1 %3
}

; Function Attrs: mustprogress nofree norecurse nosync nounwind readnone uwtable willreturn
define dso_local zeroext i1 @w_eq(i64 noundef %0, i64 noundef %1) local_unnamed_addr #0 {
  %3 = icmp eq i64 %0, %1
  ret i1 %3
}

; Function Attrs: mustprogress nofree norecurse nosync nounwind readnone uwtable willreturn
define dso_local zeroext i1 @w_ne(i64 noundef %0, i64 noundef %1) local_unnamed_addr #0 {
  %3 = icmp ne i64 %0, %1
  ret i1 %3
}

; Function Attrs: mustprogress nofree nosync nounwind readnone uwtable willreturn
define dso_local i64 @w_atan2(i64 noundef %0, i64 noundef %1) local_unnamed_addr #1 {
  %3 = tail call i64 @_ZN9fixedmath5atan2ENS_7fixed_tES0_(i64 %0, i64 %1) #11
  ret i64 %3
}

; Function Attrs: mustprogress nofree nosync nounwind readnone uwtable willreturn
define linkonce_odr dso_local i64 @_ZN9fixedmath5atan2ENS_7fixed_tES0_(i64 %0, i64 %1) local_unnamed_addr #1 comdat {
  %3 = icmp sgt i64 %1, 0
  br i1 %3, label %4, label %16

4:                                                ; preds = %2
  %5 = add i64 %0, 140737488355327
  %6 = icmp ult i64 %5, 281474976710655
  br i1 %6, label %7, label %13, !prof !8

7:                                                ; preds = %4
  %8 = shl nsw i64 %0, 16
  %9 = and i64 %8, 9223372036854710272
  %10 = and i64 %0, -9223372036854775808
  %11 = or i64 %9, %10
  %12 = sdiv i64 %11, %1
  br label %13

13:                                               ; preds = %4, %7
  %14 = phi i64 [ %12, %7 ], [ 9223372036854775807, %4 ]
  %15 = tail call i64 @_ZN9fixedmath4atanENS_7fixed_tE(i64 %14) #11
  br label %58

16:                                               ; preds = %2
  %17 = icmp slt i64 %1, 0
  br i1 %17, label %18, label %53

18:                                               ; preds = %16
  %19 = icmp sgt i64 %0, -1
  br i1 %19, label %20, label %34

20:                                               ; preds = %18
  %21 = icmp ult i64 %0, 140737488355328
  br i1 %21, label %22, label %28, !prof !8

22:                                               ; preds = %20
  %23 = shl nuw nsw i64 %0, 16
  %24 = and i64 %23, 9223372036854710272
  %25 = and i64 %0, -9223372036854775808
  %26 = or i64 %24, %25
  %27 = sdiv i64 %26, %1
  br label %28

28:                                               ; preds = %20, %22
  %29 = phi i64 [ %27, %22 ], [ 9223372036854775807, %20 ]
  %30 = tail call i64 @_ZN9fixedmath4atanENS_7fixed_tE(i64 %29) #11
  %31 = add i64 %30, 205887
  %32 = icmp sgt i64 %30, 9223372036854569920
  %33 = select i1 %32, i64 9223372036854775807, i64 %31, !prof !7
  br label %58

34:                                               ; preds = %18
  %35 = add nsw i64 %0, 140737488355327
  %36 = icmp ult i64 %35, 281474976710655
  br i1 %36, label %37, label %43, !prof !8

37:                                               ; preds = %34
  %38 = shl nsw i64 %0, 16
  %39 = and i64 %38, 9223372036854710272
  %40 = and i64 %0, -9223372036854775808
  %41 = or i64 %39, %40
  %42 = sdiv i64 %41, %1
  br label %43

43:                                               ; preds = %34, %37
  %44 = phi i64 [ %42, %37 ], [ 9223372036854775807, %34 ]
  %45 = tail call i64 @_ZN9fixedmath4atanENS_7fixed_tE(i64 %44) #11
  %46 = add i64 %45, -205887
  %47 = icmp sgt i64 %46, -1
  br i1 %47, label %48, label %50, !prof !5

48:                                               ; preds = %43
  %49 = icmp slt i64 %45, 0
  br i1 %49, label %58, label %52, !prof !10

50:                                               ; preds = %43
  %51 = icmp eq i64 %46, -9223372036854775808
  br i1 %51, label %58, label %52, !prof !5

52:                                               ; preds = %50, %48
  br label %58

53:                                               ; preds = %16
  %54 = icmp sgt i64 %0, 0
  br i1 %54, label %58, label %55

55:                                               ; preds = %53
  %56 = icmp eq i64 %0, 0
  %57 = select i1 %56, i64 9223372036854775807, i64 -102944
  br label %58

58:                                               ; preds = %28, %55, %52, %50, %48, %53, %13
  %59 = phi i64 [ %15, %13 ], [ 102944, %53 ], [ %46, %52 ], [ -9223372036854775807, %50 ], [ -9223372036854775807, %48 ], [ %57, %55 ], [ %33, %28 ]
  ret i64 %59
}

; Function Attrs: mustprogress nofree nosync nounwind readnone uwtable willreturn
define dso_local i64 @w_hypot_dflt(i64 noundef %0, i64 noundef %1) local_unnamed_addr #1 {
  %3 = tail call i64 @_ZN9fixedmath5hypotENS_7fixed_tES0_(i64 %0, i64 %1) #11
  ret i64 %3
}

; Function Attrs: inlinehint mustprogress nofree nosync nounwind readnone uwtable willreturn
define linkonce_odr dso_local i64 @_ZN9fixedmath5hypotENS_7fixed_tES0_(i64 %0, i64 %1) local_unnamed_addr #6 comdat personality i8* bitcast (i32 (...)* @__gxx_personality_v0 to i8*) {
  %3 = tail call i64 @llvm.abs.i64(i64 %0, i1 true)
  %4 = tail call i64 @llvm.abs.i64(i64 %1, i1 true)
  %5 = icmp ult i64 %3, %4
  br i1 %5, label %8, label %6

6:                                                ; preds = %2
  %7 = icmp eq i64 %0, 0
  br i1 %7, label %87, label %8, !prof !5

8:                                                ; preds = %2, %6
  %9 = phi i64 [ %3, %6 ], [ %4, %2 ]
  %10 = phi i64 [ %4, %6 ], [ %3, %2 ]
  %11 = icmp ugt i64 %9, 1073741823
  br i1 %11, label %12, label %38

12:                                               ; preds = %8
  %13 = tail call i64 @llvm.ctlz.i64(i64 %9, i1 true) #10, !range !11
  %14 = sub nsw i64 48, %13
  %15 = and i64 %14, 4294967295
  %16 = lshr i64 %9, %15
  %17 = lshr i64 %10, %15
  %18 = mul i64 %16, %16
  %19 = mul i64 %17, %17
  %20 = add i64 %18, %19
  %21 = lshr i64 %20, 16
  %22 = sitofp i64 %21 to double
  %23 = fmul double %22, 0x3EF0000000000000
  %24 = tail call double @sqrt(double noundef %23) #10
  %25 = fcmp olt double %24, 0x41DFFFFFFFC00000
  %26 = fcmp ogt double %24, 0xC1DFFFFFFFC00000
  %27 = and i1 %25, %26
  br i1 %27, label %28, label %33, !prof !8

28:                                               ; preds = %12
  %29 = fcmp olt double %24, 0.000000e+00
  %30 = select i1 %29, double -5.000000e-01, double 5.000000e-01
  %31 = tail call double @llvm.fmuladd.f64(double %24, double 6.553600e+04, double %30) #10
  %32 = fptosi double %31 to i64
  br label %33

33:                                               ; preds = %12, %28
  %34 = phi i64 [ %32, %28 ], [ 9223372036854775807, %12 ]
  %35 = shl i64 %34, %15
  %36 = icmp ult i64 %35, 9223372036854775807
  br i1 %36, label %87, label %37, !prof !9

37:                                               ; preds = %33
  br label %87

38:                                               ; preds = %8
  %39 = icmp ult i64 %10, 65536
  br i1 %39, label %40, label %71

40:                                               ; preds = %38
  %41 = tail call i64 @llvm.ctlz.i64(i64 %9, i1 false) #10, !range !11
  %42 = trunc i64 %41 to i32
  %43 = icmp ugt i32 %42, 30
  %44 = select i1 %43, i32 %42, i32 30
  %45 = add nsw i32 %44, -30
  %46 = lshr i32 %45, 1
  %47 = add nsw i32 %42, -33
  %48 = icmp slt i32 %47, %46
  %49 = select i1 %48, i32 %47, i32 %46
  %50 = zext i32 %49 to i64
  %51 = shl i64 %9, %50
  %52 = shl i64 %10, %50
  %53 = mul i64 %51, %51
  %54 = mul i64 %52, %52
  %55 = add i64 %53, %54
  %56 = lshr i64 %55, 16
  %57 = sitofp i64 %56 to double
  %58 = fmul double %57, 0x3EF0000000000000
  %59 = tail call double @sqrt(double noundef %58) #10
  %60 = fcmp olt double %59, 0x41DFFFFFFFC00000
  %61 = fcmp ogt double %59, 0xC1DFFFFFFFC00000
  %62 = and i1 %60, %61
  br i1 %62, label %63, label %68, !prof !8

63:                                               ; preds = %40
  %64 = fcmp olt double %59, 0.000000e+00
  %65 = select i1 %64, double -5.000000e-01, double 5.000000e-01
  %66 = tail call double @llvm.fmuladd.f64(double %59, double 6.553600e+04, double %65) #10
  %67 = fptosi double %66 to i64
  br label %68

68:                                               ; preds = %40, %63
  %69 = phi i64 [ %67, %63 ], [ 9223372036854775807, %40 ]
  %70 = ashr i64 %69, %50
  br label %87

71:                                               ; preds = %38
  %72 = mul nuw nsw i64 %9, %9
  %73 = mul i64 %10, %10
  %74 = add i64 %73, %72
  %75 = lshr i64 %74, 16
  %76 = sitofp i64 %75 to double
  %77 = fmul double %76, 0x3EF0000000000000
  %78 = tail call double @sqrt(double noundef %77) #10
  %79 = fcmp olt double %78, 0x41DFFFFFFFC00000
  %80 = fcmp ogt double %78, 0xC1DFFFFFFFC00000
  %81 = and i1 %79, %80
  br i1 %81, label %82, label %87, !prof !8

82:                                               ; preds = %71
  %83 = fcmp olt double %78, 0.000000e+00
  %84 = select i1 %83, double -5.000000e-01, double 5.000000e-01
  %85 = tail call double @llvm.fmuladd.f64(double %78, double 6.553600e+04, double %84) #10
  %86 = fptosi double %85 to i64
  br label %87

87:                                               ; preds = %82, %71, %33, %6, %37, %68
  %88 = phi i64 [ %70, %68 ], [ 9223372036854775807, %37 ], [ 0, %6 ], [ %35, %33 ], [ %86, %82 ], [ 9223372036854775807, %71 ]
  ret i64 %88
}

; Function Attrs: mustprogress nofree norecurse nosync nounwind readnone uwtable willreturn
define dso_local i64 @w_shl(i64 noundef %0, i32 noundef %1) local_unnamed_addr #0 {
  %3 = icmp sgt i32 %1, -1
  %4 = zext i32 %1 to i64
  %5 = shl i64 %0, %4
  %6 = and i64 %5, 9223372036854775807
  %7 = and i64 %0, -9223372036854775808
  %8 = or i64 %6, %7
  %9 = select i1 %3, i64 %8, i64 9223372036854775807, !prof !9
  ret i64 %9
}

; Function Attrs: mustprogress nofree norecurse nosync nounwind readnone uwtable willreturn
define dso_local i64 @w_shr(i64 noundef %0, i32 noundef %1) local_unnamed_addr #0 {
  %3 = icmp sgt i32 %1, -1
  %4 = zext i32 %1 to i64
  %5 = ashr i64 %0, %4
  %6 = select i1 %3, i64 %5, i64 9223372036854775807, !prof !9
  ret i64 %6
}

; Function Attrs: mustprogress nofree nosync nounwind readnone uwtable willreturn
define dso_local i64 @w_to_fixed_i8(i8 noundef signext %0) local_unnamed_addr #1 {
  %2 = sext i8 %0 to i64
  %3 = shl nsw i64 %2, 16
  %4 = and i64 %2, -9223372036854775808
  %5 = or i64 %3, %4
  ret i64 %5
}

; Function Attrs: mustprogress nofree nosync nounwind readnone uwtable willreturn
define dso_local signext i8 @w_from_fixed_i8(i64 noundef %0) local_unnamed_addr #1 {
  %2 = lshr i64 %0, 16
  %3 = add i64 %0, 8388608
  %4 = icmp ult i64 %3, 16777216
  %5 = trunc i64 %2 to i8
  %6 = select i1 %4, i8 %5, i8 0
  ret i8 %6
}

; Function Attrs: mustprogress nofree norecurse nosync nounwind readnone uwtable willreturn
define dso_local i64 @w_a2r_i8(i8 noundef signext %0) local_unnamed_addr #0 {
  %2 = icmp sgt i8 %0, -1
  br i1 %2, label %3, label %7

3:                                                ; preds = %1
  %4 = zext i8 %0 to i64
  %5 = mul nuw nsw i64 %4, 13493010432
  %6 = udiv i64 %5, 11796480
  br label %7

7:                                                ; preds = %1, %3
  %8 = phi i64 [ %6, %3 ], [ 9223372036854775807, %1 ]
  ret i64 %8
}

; Function Attrs: mustprogress nofree nosync nounwind readnone uwtable willreturn
define dso_local i64 @w_mul_s_i8(i64 noundef %0, i8 noundef signext %1) local_unnamed_addr #1 personality i32 (...)* @__gxx_personality_v0 {
  %3 = sext i8 %1 to i64
  %4 = tail call { i64, i1 } @llvm.smul.with.overflow.i64(i64 %0, i64 %3) #10
  %5 = extractvalue { i64, i1 } %4, 1
  %6 = extractvalue { i64, i1 } %4, 0
  %7 = add i64 %6, -9223372036854775807
  %8 = icmp ult i64 %7, 3
  %9 = or i1 %5, %8
  br i1 %9, label %10, label %11, !prof !6

10:                                               ; preds = %2
  br label %11

11:                                               ; preds = %2, %10
  %12 = phi i64 [ 9223372036854775807, %10 ], [ %6, %2 ]
  ret i64 %12
}

; Function Attrs: mustprogress nofree nosync nounwind readnone uwtable willreturn
define dso_local i64 @w_rmul_s_i8(i64 noundef %0, i8 noundef signext %1) local_unnamed_addr #1 personality i32 (...)* @__gxx_personality_v0 {
  %3 = sext i8 %1 to i64
  %4 = tail call { i64, i1 } @llvm.smul.with.overflow.i64(i64 %0, i64 %3) #10
  %5 = extractvalue { i64, i1 } %4, 1
  %6 = extractvalue { i64, i1 } %4, 0
  %7 = add i64 %6, -9223372036854775807
  %8 = icmp ult i64 %7, 3
  %9 = or i1 %5, %8
  br i1 %9, label %10, label %11, !prof !6

10:                                               ; preds = %2
  br label %11

11:                                               ; preds = %2, %10
  %12 = phi i64 [ 9223372036854775807, %10 ], [ %6, %2 ]
  ret i64 %12
}

; Function Attrs: mustprogress nofree norecurse nosync nounwind readnone uwtable willreturn
define dso_local i64 @w_div_s_i8(i64 noundef %0, i8 noundef signext %1) local_unnamed_addr #0 {
  %3 = icmp eq i8 %1, 0
  br i1 %3, label %7, label %4, !prof !5

4:                                                ; preds = %2
  %5 = sext i8 %1 to i64
  %6 = sdiv i64 %0, %5
  br label %7

7:                                                ; preds = %2, %4
  %8 = phi i64 [ %6, %4 ], [ 9223372036854775807, %2 ]
  ret i64 %8
}

; Function Attrs: mustprogress nofree norecurse nosync nounwind readnone uwtable willreturn
define dso_local i64 @w_add_i_i8(i64 noundef %0, i8 noundef signext %1) local_unnamed_addr #0 {
  %3 = sext i8 %1 to i64
  %4 = shl nsw i64 %3, 16
  %5 = and i64 %3, -9223372036854775808
  %6 = or i64 %4, %5
  %7 = add i64 %6, %0
  %8 = icmp sgt i64 %7, -1
  br i1 %8, label %9, label %13, !prof !5

9:                                                ; preds = %2
  %10 = icmp slt i64 %0, 0
  %11 = icmp slt i64 %6, 0
  %12 = select i1 %10, i1 %11, i1 false
  br i1 %12, label %20, label %19, !prof !10

13:                                               ; preds = %2
  %14 = icmp sgt i64 %0, 0
  %15 = icmp sgt i64 %6, 0
  %16 = select i1 %14, i1 %15, i1 false
  br i1 %16, label %20, label %17, !prof !10

17:                                               ; preds = %13
  %18 = icmp eq i64 %7, -9223372036854775808
  br i1 %18, label %20, label %19, !prof !5

19:                                               ; preds = %17, %9
  br label %20

20:                                               ; preds = %9, %13, %17, %19
  %21 = phi i64 [ %7, %19 ], [ -9223372036854775807, %17 ], [ -9223372036854775807, %9 ], [ 9223372036854775807, %13 ]
  ret i64 %21
}

; Function Attrs: mustprogress nofree norecurse nosync nounwind readnone uwtable willreturn
define dso_local i64 @w_radd_i_i8(i64 noundef %0, i8 noundef signext %1) local_unnamed_addr #0 {
  %3 = sext i8 %1 to i64
  %4 = shl nsw i64 %3, 16
  %5 = and i64 %3, -9223372036854775808
  %6 = or i64 %4, %5
  %7 = add i64 %6, %0
  %8 = icmp sgt i64 %7, -1
  br i1 %8, label %9, label %12, !prof !5

9:                                                ; preds = %2
  %10 = and i64 %6, %0
  %11 = icmp slt i64 %10, 0
  br i1 %11, label %19, label %18, !prof !10

12:                                               ; preds = %2
  %13 = icmp sgt i64 %6, 0
  %14 = icmp sgt i64 %0, 0
  %15 = and i1 %14, %13
  br i1 %15, label %19, label %16, !prof !10

16:                                               ; preds = %12
  %17 = icmp eq i64 %7, -9223372036854775808
  br i1 %17, label %19, label %18, !prof !5

18:                                               ; preds = %16, %9
  br label %19

19:                                               ; preds = %9, %12, %16, %18
  %20 = phi i64 [ %7, %18 ], [ -9223372036854775807, %16 ], [ -9223372036854775807, %9 ], [ 9223372036854775807, %12 ]
  ret i64 %20
}

; Function Attrs: mustprogress nofree norecurse nosync nounwind readnone uwtable willreturn
define dso_local i64 @w_sub_i_i8(i64 noundef %0, i8 noundef signext %1) local_unnamed_addr #0 {
  %3 = sext i8 %1 to i64
  %4 = shl nsw i64 %3, 16
  %5 = and i64 %3, -9223372036854775808
  %6 = or i64 %4, %5
  %7 = sub i64 %0, %6
  %8 = icmp sgt i64 %7, -1
  br i1 %8, label %9, label %13, !prof !5

9:                                                ; preds = %2
  %10 = icmp slt i64 %0, 0
  %11 = icmp sgt i64 %6, 0
  %12 = select i1 %10, i1 %11, i1 false
  br i1 %12, label %20, label %19, !prof !10

13:                                               ; preds = %2
  %14 = icmp sgt i64 %0, 0
  %15 = icmp slt i64 %6, 0
  %16 = select i1 %14, i1 %15, i1 false
  br i1 %16, label %20, label %17, !prof !10

17:                                               ; preds = %13
  %18 = icmp eq i64 %7, -9223372036854775808
  br i1 %18, label %20, label %19, !prof !5

19:                                               ; preds = %17, %9
  br label %20

20:                                               ; preds = %9, %13, %17, %19
  %21 = phi i64 [ %7, %19 ], [ -9223372036854775807, %17 ], [ -9223372036854775807, %9 ], [ 9223372036854775807, %13 ]
  ret i64 %21
}

; Function Attrs: mustprogress nofree norecurse nosync nounwind readnone uwtable willreturn
define dso_local i64 @w_rsub_i_i8(i64 noundef %0, i8 noundef signext %1) local_unnamed_addr #0 {
  %3 = sext i8 %1 to i64
  %4 = shl nsw i64 %3, 16
  %5 = and i64 %3, -9223372036854775808
  %6 = or i64 %4, %5
  %7 = sub i64 %6, %0
  %8 = icmp sgt i64 %7, -1
  br i1 %8, label %9, label %13, !prof !5

9:                                                ; preds = %2
  %10 = icmp slt i64 %6, 0
  %11 = icmp sgt i64 %0, 0
  %12 = and i1 %11, %10
  br i1 %12, label %20, label %19, !prof !10

13:                                               ; preds = %2
  %14 = icmp sgt i64 %6, 0
  %15 = icmp slt i64 %0, 0
  %16 = and i1 %15, %14
  br i1 %16, label %20, label %17, !prof !10

17:                                               ; preds = %13
  %18 = icmp eq i64 %7, -9223372036854775808
  br i1 %18, label %20, label %19, !prof !5

19:                                               ; preds = %17, %9
  br label %20

20:                                               ; preds = %9, %13, %17, %19
  %21 = phi i64 [ %7, %19 ], [ -9223372036854775807, %17 ], [ -9223372036854775807, %9 ], [ 9223372036854775807, %13 ]
  ret i64 %21
}

; Function Attrs: mustprogress nofree norecurse nosync nounwind readnone uwtable willreturn
define dso_local i64 @w_rdiv_i_i8(i64 noundef %0, i8 noundef signext %1) local_unnamed_addr #0 {
  %3 = sext i8 %1 to i64
  %4 = shl nsw i64 %3, 16
  %5 = and i64 %3, -9223372036854775808
  %6 = or i64 %4, %5
  %7 = icmp ne i64 %0, 0
  %8 = add i64 %6, 140737488355327
  %9 = icmp ult i64 %8, 281474976710655
  %10 = select i1 %7, i1 %9, i1 false
  br i1 %10, label %11, label %17, !prof !8

11:                                               ; preds = %2
  %12 = shl nsw i64 %6, 16
  %13 = and i64 %12, 9223372032559808512
  %14 = and i64 %6, -9223372036854775808
  %15 = or i64 %13, %14
  %16 = sdiv i64 %15, %0
  br label %17

17:                                               ; preds = %2, %11
  %18 = phi i64 [ %16, %11 ], [ 9223372036854775807, %2 ]
  ret i64 %18
}

; Function Attrs: mustprogress nofree norecurse nosync nounwind readnone uwtable willreturn
define dso_local i64 @w_sin_angle_i8(i8 noundef signext %0) local_unnamed_addr #0 personality i32 (...)* @__gxx_personality_v0 {
  %2 = sext i8 %0 to i32
  %3 = mul nsw i32 %2, 205887
  %4 = sdiv i32 %3, 180
  %5 = sext i32 %4 to i64
  %6 = add nsw i64 %5, -308831
  %7 = icmp ult i64 %6, -411774
  br i1 %7, label %8, label %15, !prof !6

8:                                                ; preds = %1
  %9 = sub nsw i32 0, %4
  %10 = urem i32 %9, 411774
  %11 = add nsw i32 %10, -102943
  %12 = urem i32 %11, 411774
  %13 = sub nsw i32 308831, %12
  %14 = sext i32 %13 to i64
  br label %17

15:                                               ; preds = %1
  %16 = icmp sgt i32 %3, 18529919
  br i1 %16, label %17, label %20, !prof !5

17:                                               ; preds = %15, %8
  %18 = phi i64 [ %5, %15 ], [ %14, %8 ]
  %19 = sub nsw i64 205887, %18
  br label %20

20:                                               ; preds = %15, %17
  %21 = phi i64 [ %5, %15 ], [ %19, %17 ]
  %22 = mul nsw i64 %21, %21
  %23 = lshr i64 %22, 16
  %24 = add nsw i64 %23, -2752512
  %25 = mul nsw i64 %24, %23
  %26 = add nsw i64 %25, 3607772528640
  %27 = mul nsw i64 %26, %23
  %28 = ashr i64 %27, 36
  %29 = sub nsw i64 20643840, %28
  %30 = mul nsw i64 %29, %21
  %31 = lshr i64 %30, 16
  %32 = trunc i64 %31 to i32
  %33 = sdiv i32 %32, 315
  %34 = sext i32 %33 to i64
  ret i64 %34
}

; Function Attrs: mustprogress nofree norecurse nosync nounwind readnone uwtable willreturn
define dso_local i64 @w_cos_angle_i8(i8 noundef signext %0) local_unnamed_addr #0 personality i32 (...)* @__gxx_personality_v0 {
  %2 = sext i8 %0 to i32
  %3 = mul nsw i32 %2, 205887
  %4 = sdiv i32 %3, 180
  %5 = add nsw i32 %4, 102944
  %6 = sext i32 %5 to i64
  %7 = icmp sgt i32 %3, -180
  br i1 %7, label %8, label %10, !prof !5

8:                                                ; preds = %1
  %9 = sub nsw i64 205887, %6
  br label %10

10:                                               ; preds = %1, %8
  %11 = phi i64 [ %6, %1 ], [ %9, %8 ]
  %12 = mul nsw i64 %11, %11
  %13 = lshr i64 %12, 16
  %14 = add nsw i64 %13, -2752512
  %15 = mul nsw i64 %14, %13
  %16 = add nsw i64 %15, 3607772528640
  %17 = mul nsw i64 %16, %13
  %18 = ashr i64 %17, 36
  %19 = sub nsw i64 20643840, %18
  %20 = mul nsw i64 %19, %11
  %21 = lshr i64 %20, 16
  %22 = trunc i64 %21 to i32
  %23 = sdiv i32 %22, 315
  %24 = sext i32 %23 to i64
  ret i64 %24
}

; Function Attrs: mustprogress nofree nosync nounwind readnone uwtable willreturn
define dso_local i64 @w_tan_angle_i8(i8 noundef signext %0) local_unnamed_addr #1 personality i32 (...)* @__gxx_personality_v0 {
  %2 = sext i8 %0 to i32
  %3 = mul nsw i32 %2, 205887
  %4 = sdiv i32 %3, 180
  %5 = sext i32 %4 to i64
  %6 = tail call i64 @_ZN9fixedmath3tanENS_7fixed_tE(i64 %5) #11
  ret i64 %6
}

; Function Attrs: mustprogress nofree nosync nounwind readnone uwtable willreturn
define dso_local i64 @w_to_fixed_i16(i16 noundef signext %0) local_unnamed_addr #1 {
  %2 = sext i16 %0 to i64
  %3 = shl nsw i64 %2, 16
  %4 = and i64 %2, -9223372036854775808
  %5 = or i64 %3, %4
  ret i64 %5
}

; Function Attrs: mustprogress nofree nosync nounwind readnone uwtable willreturn
define dso_local signext i16 @w_from_fixed_i16(i64 noundef %0) local_unnamed_addr #1 {
  %2 = lshr i64 %0, 16
  %3 = add i64 %0, 2147483648
  %4 = icmp ult i64 %3, 4294967296
  %5 = trunc i64 %2 to i16
  %6 = select i1 %4, i16 %5, i16 0
  ret i16 %6
}

; Function Attrs: mustprogress nofree norecurse nosync nounwind readnone uwtable willreturn
define dso_local i64 @w_a2r_i16(i16 noundef signext %0) local_unnamed_addr #0 {
  %2 = icmp ult i16 %0, 361
  br i1 %2, label %3, label %7

3:                                                ; preds = %1
  %4 = zext i16 %0 to i64
  %5 = mul nuw nsw i64 %4, 13493010432
  %6 = udiv i64 %5, 11796480
  br label %7

7:                                                ; preds = %1, %3
  %8 = phi i64 [ %6, %3 ], [ 9223372036854775807, %1 ]
  ret i64 %8
}

; Function Attrs: mustprogress nofree nosync nounwind readnone uwtable willreturn
define dso_local i64 @w_mul_s_i16(i64 noundef %0, i16 noundef signext %1) local_unnamed_addr #1 {
  %3 = sext i16 %1 to i64
  %4 = tail call { i64, i1 } @llvm.smul.with.overflow.i64(i64 %0, i64 %3) #10
  %5 = extractvalue { i64, i1 } %4, 1
  %6 = extractvalue { i64, i1 } %4, 0
  %7 = add i64 %6, -9223372036854775807
  %8 = icmp ult i64 %7, 3
  %9 = or i1 %5, %8
  br i1 %9, label %10, label %11, !prof !6

10:                                               ; preds = %2
  br label %11

11:                                               ; preds = %2, %10
  %12 = phi i64 [ 9223372036854775807, %10 ], [ %6, %2 ]
  ret i64 %12
}

; Function Attrs: mustprogress nofree nosync nounwind readnone uwtable willreturn
define dso_local i64 @w_rmul_s_i16(i64 noundef %0, i16 noundef signext %1) local_unnamed_addr #1 {
  %3 = sext i16 %1 to i64
  %4 = tail call { i64, i1 } @llvm.smul.with.overflow.i64(i64 %0, i64 %3) #10
  %5 = extractvalue { i64, i1 } %4, 1
  %6 = extractvalue { i64, i1 } %4, 0
  %7 = add i64 %6, -9223372036854775807
  %8 = icmp ult i64 %7, 3
  %9 = or i1 %5, %8
  br i1 %9, label %10, label %11, !prof !6

10:                                               ; preds = %2
  br label %11

11:                                               ; preds = %2, %10
  %12 = phi i64 [ 9223372036854775807, %10 ], [ %6, %2 ]
  ret i64 %12
}

; Function Attrs: mustprogress nofree norecurse nosync nounwind readnone uwtable willreturn
define dso_local i64 @w_div_s_i16(i64 noundef %0, i16 noundef signext %1) local_unnamed_addr #0 {
  %3 = icmp eq i16 %1, 0
  br i1 %3, label %7, label %4, !prof !5

4:                                                ; preds = %2
  %5 = sext i16 %1 to i64
  %6 = sdiv i64 %0, %5
  br label %7

7:                                                ; preds = %2, %4
  %8 = phi i64 [ %6, %4 ], [ 9223372036854775807, %2 ]
  ret i64 %8
}

; Function Attrs: mustprogress nofree norecurse nosync nounwind readnone uwtable willreturn
define dso_local i64 @w_add_i_i16(i64 noundef %0, i16 noundef signext %1) local_unnamed_addr #0 {
  %3 = sext i16 %1 to i64
  %4 = shl nsw i64 %3, 16
  %5 = and i64 %3, -9223372036854775808
  %6 = or i64 %4, %5
  %7 = add i64 %6, %0
  %8 = icmp sgt i64 %7, -1
  br i1 %8, label %9, label %13, !prof !5

9:                                                ; preds = %2
  %10 = icmp slt i64 %0, 0
  %11 = icmp slt i64 %6, 0
  %12 = select i1 %10, i1 %11, i1 false
  br i1 %12, label %20, label %19, !prof !10

13:                                               ; preds = %2
  %14 = icmp sgt i64 %0, 0
  %15 = icmp sgt i64 %6, 0
  %16 = select i1 %14, i1 %15, i1 false
  br i1 %16, label %20, label %17, !prof !10

17:                                               ; preds = %13
  %18 = icmp eq i64 %7, -9223372036854775808
  br i1 %18, label %20, label %19, !prof !5

19:                                               ; preds = %17, %9
  br label %20

20:                                               ; preds = %9, %13, %17, %19
  %21 = phi i64 [ %7, %19 ], [ -9223372036854775807, %17 ], [ -9223372036854775807, %9 ], [ 9223372036854775807, %13 ]
  ret i64 %21
}

; Function Attrs: mustprogress nofree norecurse nosync nounwind readnone uwtable willreturn
define dso_local i64 @w_radd_i_i16(i64 noundef %0, i16 noundef signext %1) local_unnamed_addr #0 {
  %3 = sext i16 %1 to i64
  %4 = shl nsw i64 %3, 16
  %5 = and i64 %3, -9223372036854775808
  %6 = or i64 %4, %5
  %7 = add i64 %6, %0
  %8 = icmp sgt i64 %7, -1
  br i1 %8, label %9, label %12, !prof !5

9:                                                ; preds = %2
  %10 = and i64 %6, %0
  %11 = icmp slt i64 %10, 0
  br i1 %11, label %19, label %18, !prof !10

12:                                               ; preds = %2
  %13 = icmp sgt i64 %6, 0
  %14 = icmp sgt i64 %0, 0
  %15 = and i1 %14, %13
  br i1 %15, label %19, label %16, !prof !10

16:                                               ; preds = %12
  %17 = icmp eq i64 %7, -9223372036854775808
  br i1 %17, label %19, label %18, !prof !5

18:                                               ; preds = %16, %9
  br label %19

19:                                               ; preds = %9, %12, %16, %18
  %20 = phi i64 [ %7, %18 ], [ -9223372036854775807, %16 ], [ -9223372036854775807, %9 ], [ 9223372036854775807, %12 ]
  ret i64 %20
}

; Function Attrs: mustprogress nofree norecurse nosync nounwind readnone uwtable willreturn
define dso_local i64 @w_sub_i_i16(i64 noundef %0, i16 noundef signext %1) local_unnamed_addr #0 {
  %3 = sext i16 %1 to i64
  %4 = shl nsw i64 %3, 16
  %5 = and i64 %3, -9223372036854775808
  %6 = or i64 %4, %5
  %7 = sub i64 %0, %6
  %8 = icmp sgt i64 %7, -1
  br i1 %8, label %9, label %13, !prof !5

9:                                                ; preds = %2
  %10 = icmp slt i64 %0, 0
  %11 = icmp sgt i64 %6, 0
  %12 = select i1 %10, i1 %11, i1 false
  br i1 %12, label %20, label %19, !prof !10

13:                                               ; preds = %2
  %14 = icmp sgt i64 %0, 0
  %15 = icmp slt i64 %6, 0
  %16 = select i1 %14, i1 %15, i1 false
  br i1 %16, label %20, label %17, !prof !10

17:                                               ; preds = %13
  %18 = icmp eq i64 %7, -9223372036854775808
  br i1 %18, label %20, label %19, !prof !5

19:                                               ; preds = %17, %9
  br label %20

20:                                               ; preds = %9, %13, %17, %19
  %21 = phi i64 [ %7, %19 ], [ -9223372036854775807, %17 ], [ -9223372036854775807, %9 ], [ 9223372036854775807, %13 ]
  ret i64 %21
}

; Function Attrs: mustprogress nofree norecurse nosync nounwind readnone uwtable willreturn
define dso_local i64 @w_rsub_i_i16(i64 noundef %0, i16 noundef signext %1) local_unnamed_addr #0 {
  %3 = sext i16 %1 to i64
  %4 = shl nsw i64 %3, 16
  %5 = and i64 %3, -9223372036854775808
  %6 = or i64 %4, %5
  %7 = sub i64 %6, %0
  %8 = icmp sgt i64 %7, -1
  br i1 %8, label %9, label %13, !prof !5

9:                                                ; preds = %2
  %10 = icmp slt i64 %6, 0
  %11 = icmp sgt i64 %0, 0
  %12 = and i1 %11, %10
  br i1 %12, label %20, label %19, !prof !10

13:                                               ; preds = %2
  %14 = icmp sgt i64 %6, 0
  %15 = icmp slt i64 %0, 0
  %16 = and i1 %15, %14
  br i1 %16, label %20, label %17, !prof !10

17:                                               ; preds = %13
  %18 = icmp eq i64 %7, -9223372036854775808
  br i1 %18, label %20, label %19, !prof !5

19:                                               ; preds = %17, %9
  br label %20

20:                                               ; preds = %9, %13, %17, %19
  %21 = phi i64 [ %7, %19 ], [ -9223372036854775807, %17 ], [ -9223372036854775807, %9 ], [ 9223372036854775807, %13 ]
  ret i64 %21
}

; Function Attrs: mustprogress nofree norecurse nosync nounwind readnone uwtable willreturn
define dso_local i64 @w_rdiv_i_i16(i64 noundef %0, i16 noundef signext %1) local_unnamed_addr #0 {
  %3 = sext i16 %1 to i64
  %4 = shl nsw i64 %3, 16
  %5 = and i64 %3, -9223372036854775808
  %6 = or i64 %4, %5
  %7 = icmp ne i64 %0, 0
  %8 = add i64 %6, 140737488355327
  %9 = icmp ult i64 %8, 281474976710655
  %10 = select i1 %7, i1 %9, i1 false
  br i1 %10, label %11, label %17, !prof !8

11:                                               ; preds = %2
  %12 = shl nsw i64 %6, 16
  %13 = and i64 %12, 9223372032559808512
  %14 = and i64 %6, -9223372036854775808
  %15 = or i64 %13, %14
  %16 = sdiv i64 %15, %0
  br label %17

17:                                               ; preds = %2, %11
  %18 = phi i64 [ %16, %11 ], [ 9223372036854775807, %2 ]
  ret i64 %18
}

; Function Attrs: mustprogress nofree norecurse nosync nounwind readnone uwtable willreturn
define dso_local i64 @w_sin_angle_i16(i16 noundef signext %0) local_unnamed_addr #0 {
  %2 = sext i16 %0 to i64
  %3 = mul nsw i64 %2, 205887
  %4 = sdiv i64 %3, 180
  %5 = add nsw i64 %4, -308831
  %6 = icmp ult i64 %5, -411774
  br i1 %6, label %7, label %17, !prof !6

7:                                                ; preds = %1
  %8 = trunc i64 %4 to i32
  %9 = srem i32 %8, 411774
  %10 = add nsw i32 %9, 102943
  %11 = srem i32 %10, 411774
  %12 = add nsw i32 %11, -102943
  %13 = sext i32 %12 to i64
  %14 = icmp slt i32 %11, 0
  br i1 %14, label %15, label %17, !prof !5

15:                                               ; preds = %7
  %16 = add nsw i64 %13, 411774
  br label %17

17:                                               ; preds = %15, %7, %1
  %18 = phi i64 [ %16, %15 ], [ %13, %7 ], [ %4, %1 ]
  %19 = icmp sgt i64 %18, 102943
  br i1 %19, label %20, label %22, !prof !5

20:                                               ; preds = %17
  %21 = sub nsw i64 205887, %18
  br label %22

22:                                               ; preds = %17, %20
  %23 = phi i64 [ %18, %17 ], [ %21, %20 ]
  %24 = mul nsw i64 %23, %23
  %25 = lshr i64 %24, 16
  %26 = add nsw i64 %25, -2752512
  %27 = mul nsw i64 %26, %25
  %28 = add nsw i64 %27, 3607772528640
  %29 = mul nsw i64 %28, %25
  %30 = ashr i64 %29, 36
  %31 = sub nsw i64 20643840, %30
  %32 = mul nsw i64 %31, %23
  %33 = lshr i64 %32, 16
  %34 = trunc i64 %33 to i32
  %35 = sdiv i32 %34, 315
  %36 = sext i32 %35 to i64
  ret i64 %36
}

; Function Attrs: mustprogress nofree norecurse nosync nounwind readnone uwtable willreturn
define dso_local i64 @w_cos_angle_i16(i16 noundef signext %0) local_unnamed_addr #0 {
  %2 = sext i16 %0 to i64
  %3 = mul nsw i64 %2, 205887
  %4 = sdiv i64 %3, 180
  %5 = add nsw i64 %4, 102944
  %6 = add nsw i64 %4, -205887
  %7 = icmp ult i64 %6, -411774
  br i1 %7, label %8, label %18, !prof !6

8:                                                ; preds = %1
  %9 = trunc i64 %5 to i32
  %10 = srem i32 %9, 411774
  %11 = add nsw i32 %10, 102943
  %12 = srem i32 %11, 411774
  %13 = add nsw i32 %12, -102943
  %14 = sext i32 %13 to i64
  %15 = icmp slt i32 %12, 0
  br i1 %15, label %16, label %18, !prof !5

16:                                               ; preds = %8
  %17 = add nsw i64 %14, 411774
  br label %18

18:                                               ; preds = %16, %8, %1
  %19 = phi i64 [ %17, %16 ], [ %14, %8 ], [ %5, %1 ]
  %20 = icmp sgt i64 %19, 102943
  br i1 %20, label %21, label %23, !prof !5

21:                                               ; preds = %18
  %22 = sub nsw i64 205887, %19
  br label %23

23:                                               ; preds = %18, %21
  %24 = phi i64 [ %19, %18 ], [ %22, %21 ]
  %25 = mul nsw i64 %24, %24
  %26 = lshr i64 %25, 16
  %27 = add nsw i64 %26, -2752512
  %28 = mul nsw i64 %27, %26
  %29 = add nsw i64 %28, 3607772528640
  %30 = mul nsw i64 %29, %26
  %31 = ashr i64 %30, 36
  %32 = sub nsw i64 20643840, %31
  %33 = mul nsw i64 %32, %24
  %34 = lshr i64 %33, 16
  %35 = trunc i64 %34 to i32
  %36 = sdiv i32 %35, 315
  %37 = sext i32 %36 to i64
  ret i64 %37
}

; Function Attrs: mustprogress nofree nosync nounwind readnone uwtable willreturn
define dso_local i64 @w_tan_angle_i16(i16 noundef signext %0) local_unnamed_addr #1 {
  %2 = sext i16 %0 to i64
  %3 = mul nsw i64 %2, 205887
  %4 = sdiv i64 %3, 180
  %5 = tail call i64 @_ZN9fixedmath3tanENS_7fixed_tE(i64 %4) #11
  ret i64 %5
}

; Function Attrs: mustprogress nofree nosync nounwind readnone uwtable willreturn
define dso_local i64 @w_to_fixed_i32(i32 noundef %0) local_unnamed_addr #1 {
  %2 = icmp eq i32 %0, -2147483648
  %3 = sext i32 %0 to i64
  %4 = shl nsw i64 %3, 16
  %5 = and i64 %3, -9223372036854775808
  %6 = or i64 %4, %5
  %7 = select i1 %2, i64 9223372036854775807, i64 %6, !prof !5
  ret i64 %7
}

; Function Attrs: mustprogress nofree nosync nounwind readnone uwtable willreturn
define dso_local i32 @w_from_fixed_i32(i64 noundef %0) local_unnamed_addr #1 {
  %2 = lshr i64 %0, 16
  %3 = add i64 %0, 140737488355328
  %4 = icmp ult i64 %3, 281474976710656
  %5 = trunc i64 %2 to i32
  %6 = select i1 %4, i32 %5, i32 0
  ret i32 %6
}

; Function Attrs: mustprogress nofree norecurse nosync nounwind readnone uwtable willreturn
define dso_local i64 @w_a2r_i32(i32 noundef %0) local_unnamed_addr #0 {
  %2 = icmp ult i32 %0, 361
  br i1 %2, label %3, label %10

3:                                                ; preds = %1
  %4 = zext i32 %0 to i64
  %5 = mul nuw nsw i64 %4, 13493010432
  %6 = lshr exact i64 %5, 16
  %7 = trunc i64 %6 to i32
  %8 = udiv i32 %7, 180
  %9 = zext i32 %8 to i64
  br label %10

10:                                               ; preds = %1, %3
  %11 = phi i64 [ %9, %3 ], [ 9223372036854775807, %1 ]
  ret i64 %11
}

; Function Attrs: mustprogress nofree nosync nounwind readnone uwtable willreturn
define dso_local i64 @w_mul_s_i32(i64 noundef %0, i32 noundef %1) local_unnamed_addr #1 {
  %3 = sext i32 %1 to i64
  %4 = tail call { i64, i1 } @llvm.smul.with.overflow.i64(i64 %0, i64 %3) #10
  %5 = extractvalue { i64, i1 } %4, 1
  %6 = extractvalue { i64, i1 } %4, 0
  %7 = add i64 %6, -9223372036854775807
  %8 = icmp ult i64 %7, 3
  %9 = or i1 %5, %8
  br i1 %9, label %10, label %11, !prof !6

10:                                               ; preds = %2
  br label %11

11:                                               ; preds = %2, %10
  %12 = phi i64 [ 9223372036854775807, %10 ], [ %6, %2 ]
  ret i64 %12
}

; Function Attrs: mustprogress nofree nosync nounwind readnone uwtable willreturn
define dso_local i64 @w_rmul_s_i32(i64 noundef %0, i32 noundef %1) local_unnamed_addr #1 {
  %3 = sext i32 %1 to i64
  %4 = tail call { i64, i1 } @llvm.smul.with.overflow.i64(i64 %0, i64 %3) #10
  %5 = extractvalue { i64, i1 } %4, 1
  %6 = extractvalue { i64, i1 } %4, 0
  %7 = add i64 %6, -9223372036854775807
  %8 = icmp ult i64 %7, 3
  %9 = or i1 %5, %8
  br i1 %9, label %10, label %11, !prof !6

10:                                               ; preds = %2
  br label %11

11:                                               ; preds = %2, %10
  %12 = phi i64 [ 9223372036854775807, %10 ], [ %6, %2 ]
  ret i64 %12
}

; Function Attrs: mustprogress nofree norecurse nosync nounwind readnone uwtable willreturn
define dso_local i64 @w_div_s_i32(i64 noundef %0, i32 noundef %1) local_unnamed_addr #0 {
  %3 = icmp eq i32 %1, 0
  br i1 %3, label %7, label %4, !prof !5

4:                                                ; preds = %2
  %5 = sext i32 %1 to i64
  %6 = sdiv i64 %0, %5
  br label %7

7:                                                ; preds = %2, %4
  %8 = phi i64 [ %6, %4 ], [ 9223372036854775807, %2 ]
  ret i64 %8
}

; Function Attrs: mustprogress nofree norecurse nosync nounwind readnone uwtable willreturn
define dso_local i64 @w_add_i_i32(i64 noundef %0, i32 noundef %1) local_unnamed_addr #0 {
  %3 = icmp eq i32 %1, -2147483648
  %4 = sext i32 %1 to i64
  %5 = shl nsw i64 %4, 16
  %6 = and i64 %4, -9223372036854775808
  %7 = or i64 %5, %6
  %8 = select i1 %3, i64 9223372036854775807, i64 %7, !prof !5
  %9 = add i64 %8, %0
  %10 = icmp sgt i64 %9, -1
  br i1 %10, label %11, label %15, !prof !5

11:                                               ; preds = %2
  %12 = icmp slt i64 %0, 0
  %13 = icmp slt i64 %8, 0
  %14 = select i1 %12, i1 %13, i1 false
  br i1 %14, label %22, label %21, !prof !10

15:                                               ; preds = %2
  %16 = icmp sgt i64 %0, 0
  %17 = icmp sgt i64 %8, 0
  %18 = select i1 %16, i1 %17, i1 false
  br i1 %18, label %22, label %19, !prof !10

19:                                               ; preds = %15
  %20 = icmp eq i64 %9, -9223372036854775808
  br i1 %20, label %22, label %21, !prof !5

21:                                               ; preds = %19, %11
  br label %22

22:                                               ; preds = %11, %15, %19, %21
  %23 = phi i64 [ %9, %21 ], [ -9223372036854775807, %19 ], [ -9223372036854775807, %11 ], [ 9223372036854775807, %15 ]
  ret i64 %23
}

; Function Attrs: mustprogress nofree norecurse nosync nounwind readnone uwtable willreturn
define dso_local i64 @w_radd_i_i32(i64 noundef %0, i32 noundef %1) local_unnamed_addr #0 {
  %3 = icmp eq i32 %1, -2147483648
  %4 = sext i32 %1 to i64
  %5 = shl nsw i64 %4, 16
  %6 = and i64 %4, -9223372036854775808
  %7 = or i64 %5, %6
  %8 = select i1 %3, i64 9223372036854775807, i64 %7, !prof !5
  %9 = add i64 %8, %0
  %10 = icmp sgt i64 %9, -1
  br i1 %10, label %11, label %14, !prof !5

11:                                               ; preds = %2
  %12 = and i64 %8, %0
  %13 = icmp slt i64 %12, 0
  br i1 %13, label %21, label %20, !prof !10

14:                                               ; preds = %2
  %15 = icmp sgt i64 %8, 0
  %16 = icmp sgt i64 %0, 0
  %17 = and i1 %16, %15
  br i1 %17, label %21, label %18, !prof !10

18:                                               ; preds = %14
  %19 = icmp eq i64 %9, -9223372036854775808
  br i1 %19, label %21, label %20, !prof !5

20:                                               ; preds = %18, %11
  br label %21

21:                                               ; preds = %11, %14, %18, %20
  %22 = phi i64 [ %9, %20 ], [ -9223372036854775807, %18 ], [ -9223372036854775807, %11 ], [ 9223372036854775807, %14 ]
  ret i64 %22
}

; Function Attrs: mustprogress nofree norecurse nosync nounwind readnone uwtable willreturn
define dso_local i64 @w_sub_i_i32(i64 noundef %0, i32 noundef %1) local_unnamed_addr #0 {
  %3 = icmp eq i32 %1, -2147483648
  %4 = sext i32 %1 to i64
  %5 = shl nsw i64 %4, 16
  %6 = and i64 %4, -9223372036854775808
  %7 = or i64 %5, %6
  %8 = select i1 %3, i64 9223372036854775807, i64 %7, !prof !5
  %9 = sub i64 %0, %8
  %10 = icmp sgt i64 %9, -1
  br i1 %10, label %11, label %15, !prof !5

11:                                               ; preds = %2
  %12 = icmp slt i64 %0, 0
  %13 = icmp sgt i64 %8, 0
  %14 = select i1 %12, i1 %13, i1 false
  br i1 %14, label %22, label %21, !prof !10

15:                                               ; preds = %2
  %16 = icmp sgt i64 %0, 0
  %17 = icmp slt i64 %8, 0
  %18 = select i1 %16, i1 %17, i1 false
  br i1 %18, label %22, label %19, !prof !10

19:                                               ; preds = %15
  %20 = icmp eq i64 %9, -9223372036854775808
  br i1 %20, label %22, label %21, !prof !5

21:                                               ; preds = %19, %11
  br label %22

22:                                               ; preds = %11, %15, %19, %21
  %23 = phi i64 [ %9, %21 ], [ -9223372036854775807, %19 ], [ -9223372036854775807, %11 ], [ 9223372036854775807, %15 ]
  ret i64 %23
}

; Function Attrs: mustprogress nofree norecurse nosync nounwind readnone uwtable willreturn
define dso_local i64 @w_rsub_i_i32(i64 noundef %0, i32 noundef %1) local_unnamed_addr #0 {
  %3 = icmp eq i32 %1, -2147483648
  %4 = sext i32 %1 to i64
  %5 = shl nsw i64 %4, 16
  %6 = and i64 %4, -9223372036854775808
  %7 = or i64 %5, %6
  %8 = select i1 %3, i64 9223372036854775807, i64 %7, !prof !5
  %9 = sub i64 %8, %0
  %10 = icmp sgt i64 %9, -1
  br i1 %10, label %11, label %15, !prof !5

11:                                               ; preds = %2
  %12 = icmp slt i64 %8, 0
  %13 = icmp sgt i64 %0, 0
  %14 = and i1 %13, %12
  br i1 %14, label %22, label %21, !prof !10

15:                                               ; preds = %2
  %16 = icmp sgt i64 %8, 0
  %17 = icmp slt i64 %0, 0
  %18 = and i1 %17, %16
  br i1 %18, label %22, label %19, !prof !10

19:                                               ; preds = %15
  %20 = icmp eq i64 %9, -9223372036854775808
  br i1 %20, label %22, label %21, !prof !5

21:                                               ; preds = %19, %11
  br label %22

22:                                               ; preds = %11, %15, %19, %21
  %23 = phi i64 [ %9, %21 ], [ -9223372036854775807, %19 ], [ -9223372036854775807, %11 ], [ 9223372036854775807, %15 ]
  ret i64 %23
}

; Function Attrs: mustprogress nofree norecurse nosync nounwind readnone uwtable willreturn
define dso_local i64 @w_rdiv_i_i32(i64 noundef %0, i32 noundef %1) local_unnamed_addr #0 {
  %3 = icmp eq i32 %1, -2147483648
  %4 = sext i32 %1 to i64
  %5 = shl nsw i64 %4, 16
  %6 = and i64 %4, -9223372036854775808
  %7 = or i64 %5, %6
  %8 = select i1 %3, i64 9223372036854775807, i64 %7, !prof !5
  %9 = icmp ne i64 %0, 0
  %10 = add i64 %8, 140737488355327
  %11 = icmp ult i64 %10, 281474976710655
  %12 = select i1 %9, i1 %11, i1 false
  br i1 %12, label %13, label %19, !prof !8

13:                                               ; preds = %2
  %14 = shl nsw i64 %8, 16
  %15 = and i64 %14, 9223372036854710272
  %16 = and i64 %8, -9223372036854775808
  %17 = or i64 %15, %16
  %18 = sdiv i64 %17, %0
  br label %19

19:                                               ; preds = %2, %13
  %20 = phi i64 [ %18, %13 ], [ 9223372036854775807, %2 ]
  ret i64 %20
}

; Function Attrs: mustprogress nofree norecurse nosync nounwind readnone uwtable willreturn
define dso_local i64 @w_sin_angle_i32(i32 noundef %0) local_unnamed_addr #0 {
  %2 = sext i32 %0 to i64
  %3 = mul nsw i64 %2, 205887
  %4 = sdiv i64 %3, 180
  %5 = add nsw i64 %4, -308831
  %6 = icmp ult i64 %5, -411774
  br i1 %6, label %7, label %17, !prof !6

7:                                                ; preds = %1
  %8 = srem i64 %4, 411774
  %9 = trunc i64 %8 to i32
  %10 = add nsw i32 %9, 102943
  %11 = srem i32 %10, 411774
  %12 = add nsw i32 %11, -102943
  %13 = sext i32 %12 to i64
  %14 = icmp slt i32 %11, 0
  br i1 %14, label %15, label %17, !prof !5

15:                                               ; preds = %7
  %16 = add nsw i64 %13, 411774
  br label %17

17:                                               ; preds = %15, %7, %1
  %18 = phi i64 [ %16, %15 ], [ %13, %7 ], [ %4, %1 ]
  %19 = icmp sgt i64 %18, 102943
  br i1 %19, label %20, label %22, !prof !5

20:                                               ; preds = %17
  %21 = sub nsw i64 205887, %18
  br label %22

22:                                               ; preds = %17, %20
  %23 = phi i64 [ %18, %17 ], [ %21, %20 ]
  %24 = mul nsw i64 %23, %23
  %25 = lshr i64 %24, 16
  %26 = add nsw i64 %25, -2752512
  %27 = mul nsw i64 %26, %25
  %28 = add nsw i64 %27, 3607772528640
  %29 = mul nsw i64 %28, %25
  %30 = ashr i64 %29, 36
  %31 = sub nsw i64 20643840, %30
  %32 = mul nsw i64 %31, %23
  %33 = lshr i64 %32, 16
  %34 = trunc i64 %33 to i32
  %35 = sdiv i32 %34, 315
  %36 = sext i32 %35 to i64
  ret i64 %36
}

; Function Attrs: mustprogress nofree norecurse nosync nounwind readnone uwtable willreturn
define dso_local i64 @w_cos_angle_i32(i32 noundef %0) local_unnamed_addr #0 {
  %2 = sext i32 %0 to i64
  %3 = mul nsw i64 %2, 205887
  %4 = sdiv i64 %3, 180
  %5 = add nsw i64 %4, 102944
  %6 = add nsw i64 %4, -205887
  %7 = icmp ult i64 %6, -411774
  br i1 %7, label %8, label %18, !prof !6

8:                                                ; preds = %1
  %9 = srem i64 %5, 411774
  %10 = trunc i64 %9 to i32
  %11 = add nsw i32 %10, 102943
  %12 = srem i32 %11, 411774
  %13 = add nsw i32 %12, -102943
  %14 = sext i32 %13 to i64
  %15 = icmp slt i32 %12, 0
  br i1 %15, label %16, label %18, !prof !5

16:                                               ; preds = %8
  %17 = add nsw i64 %14, 411774
  br label %18

18:                                               ; preds = %16, %8, %1
  %19 = phi i64 [ %17, %16 ], [ %14, %8 ], [ %5, %1 ]
  %20 = icmp sgt i64 %19, 102943
  br i1 %20, label %21, label %23, !prof !5

21:                                               ; preds = %18
  %22 = sub nsw i64 205887, %19
  br label %23

23:                                               ; preds = %18, %21
  %24 = phi i64 [ %19, %18 ], [ %22, %21 ]
  %25 = mul nsw i64 %24, %24
  %26 = lshr i64 %25, 16
  %27 = add nsw i64 %26, -2752512
  %28 = mul nsw i64 %27, %26
  %29 = add nsw i64 %28, 3607772528640
  %30 = mul nsw i64 %29, %26
  %31 = ashr i64 %30, 36
  %32 = sub nsw i64 20643840, %31
  %33 = mul nsw i64 %32, %24
  %34 = lshr i64 %33, 16
  %35 = trunc i64 %34 to i32
  %36 = sdiv i32 %35, 315
  %37 = sext i32 %36 to i64
  ret i64 %37
}

; Function Attrs: mustprogress nofree nosync nounwind readnone uwtable willreturn
define dso_local i64 @w_tan_angle_i32(i32 noundef %0) local_unnamed_addr #1 {
  %2 = sext i32 %0 to i64
  %3 = mul nsw i64 %2, 205887
  %4 = sdiv i64 %3, 180
  %5 = tail call i64 @_ZN9fixedmath3tanENS_7fixed_tE(i64 %4) #11
  ret i64 %5
}

; Function Attrs: mustprogress nofree nosync nounwind readnone uwtable willreturn
define dso_local i64 @w_to_fixed_i64(i64 noundef %0) local_unnamed_addr #1 {
  %2 = add i64 %0, 2147483647
  %3 = icmp ult i64 %2, 4294967295
  %4 = shl nsw i64 %0, 16
  %5 = and i64 %0, -9223372036854775808
  %6 = or i64 %4, %5
  %7 = select i1 %3, i64 %6, i64 9223372036854775807, !prof !8
  ret i64 %7
}

; Function Attrs: mustprogress nofree nosync nounwind readnone uwtable willreturn
define dso_local i64 @w_from_fixed_i64(i64 noundef %0) local_unnamed_addr #1 {
  %2 = ashr i64 %0, 16
  ret i64 %2
}

; Function Attrs: mustprogress nofree nosync nounwind readnone uwtable willreturn
define dso_local i64 @w_a2r_i64(i64 noundef %0) local_unnamed_addr #1 {
  %2 = icmp ult i64 %0, 361
  br i1 %2, label %3, label %13

3:                                                ; preds = %1
  %4 = shl nuw nsw i64 %0, 16
  %5 = and i64 %0, -9223372036854775808
  %6 = or i64 %4, %5
  %7 = tail call { i64, i1 } @llvm.smul.with.overflow.i64(i64 %6, i64 205887) #10
  %8 = extractvalue { i64, i1 } %7, 1
  %9 = extractvalue { i64, i1 } %7, 0
  %10 = ashr exact i64 %9, 16
  %11 = sdiv i64 %10, 180
  %12 = select i1 %8, i64 51240955760304310, i64 %11, !prof !5
  br label %13

13:                                               ; preds = %1, %3
  %14 = phi i64 [ %12, %3 ], [ 9223372036854775807, %1 ]
  ret i64 %14
}

; Function Attrs: mustprogress nofree nosync nounwind readnone uwtable willreturn
define dso_local i64 @w_mul_s_i64(i64 noundef %0, i64 noundef %1) local_unnamed_addr #1 {
  %3 = tail call { i64, i1 } @llvm.smul.with.overflow.i64(i64 %0, i64 %1) #10
  %4 = extractvalue { i64, i1 } %3, 1
  %5 = extractvalue { i64, i1 } %3, 0
  %6 = add i64 %5, -9223372036854775807
  %7 = icmp ult i64 %6, 3
  %8 = or i1 %4, %7
  br i1 %8, label %9, label %10, !prof !6

9:                                                ; preds = %2
  br label %10

10:                                               ; preds = %2, %9
  %11 = phi i64 [ 9223372036854775807, %9 ], [ %5, %2 ]
  ret i64 %11
}

; Function Attrs: mustprogress nofree nosync nounwind readnone uwtable willreturn
define dso_local i64 @w_rmul_s_i64(i64 noundef %0, i64 noundef %1) local_unnamed_addr #1 {
  %3 = tail call { i64, i1 } @llvm.smul.with.overflow.i64(i64 %0, i64 %1) #10
  %4 = extractvalue { i64, i1 } %3, 1
  %5 = extractvalue { i64, i1 } %3, 0
  %6 = add i64 %5, -9223372036854775807
  %7 = icmp ult i64 %6, 3
  %8 = or i1 %4, %7
  br i1 %8, label %9, label %10, !prof !6

9:                                                ; preds = %2
  br label %10

10:                                               ; preds = %2, %9
  %11 = phi i64 [ 9223372036854775807, %9 ], [ %5, %2 ]
  ret i64 %11
}

; Function Attrs: mustprogress nofree norecurse nosync nounwind readnone uwtable willreturn
define dso_local i64 @w_div_s_i64(i64 noundef %0, i64 noundef %1) local_unnamed_addr #0 {
  %3 = icmp eq i64 %1, 0
  br i1 %3, label %6, label %4, !prof !5

4:                                                ; preds = %2
  %5 = sdiv i64 %0, %1
  br label %6

6:                                                ; preds = %2, %4
  %7 = phi i64 [ %5, %4 ], [ 9223372036854775807, %2 ]
  ret i64 %7
}

; Function Attrs: mustprogress nofree norecurse nosync nounwind readnone uwtable willreturn
define dso_local i64 @w_add_i_i64(i64 noundef %0, i64 noundef %1) local_unnamed_addr #0 {
  %3 = add i64 %1, 2147483647
  %4 = icmp ult i64 %3, 4294967295
  %5 = shl nsw i64 %1, 16
  %6 = and i64 %1, -9223372036854775808
  %7 = or i64 %5, %6
  %8 = select i1 %4, i64 %7, i64 9223372036854775807, !prof !8
  %9 = add i64 %8, %0
  %10 = icmp sgt i64 %9, -1
  br i1 %10, label %11, label %15, !prof !5

11:                                               ; preds = %2
  %12 = icmp slt i64 %0, 0
  %13 = icmp slt i64 %8, 0
  %14 = select i1 %12, i1 %13, i1 false
  br i1 %14, label %22, label %21, !prof !10

15:                                               ; preds = %2
  %16 = icmp sgt i64 %0, 0
  %17 = icmp sgt i64 %8, 0
  %18 = select i1 %16, i1 %17, i1 false
  br i1 %18, label %22, label %19, !prof !10

19:                                               ; preds = %15
  %20 = icmp eq i64 %9, -9223372036854775808
  br i1 %20, label %22, label %21, !prof !5

21:                                               ; preds = %19, %11
  br label %22

22:                                               ; preds = %11, %15, %19, %21
  %23 = phi i64 [ %9, %21 ], [ -9223372036854775807, %19 ], [ -9223372036854775807, %11 ], [ 9223372036854775807, %15 ]
  ret i64 %23
}

; Function Attrs: mustprogress nofree norecurse nosync nounwind readnone uwtable willreturn
define dso_local i64 @w_radd_i_i64(i64 noundef %0, i64 noundef %1) local_unnamed_addr #0 {
  %3 = add i64 %1, 2147483647
  %4 = icmp ult i64 %3, 4294967295
  %5 = shl nsw i64 %1, 16
  %6 = and i64 %1, -9223372036854775808
  %7 = or i64 %5, %6
  %8 = select i1 %4, i64 %7, i64 9223372036854775807, !prof !8
  %9 = add i64 %8, %0
  %10 = icmp sgt i64 %9, -1
  br i1 %10, label %11, label %14, !prof !5

11:                                               ; preds = %2
  %12 = and i64 %8, %0
  %13 = icmp slt i64 %12, 0
  br i1 %13, label %21, label %20, !prof !10

14:                                               ; preds = %2
  %15 = icmp sgt i64 %8, 0
  %16 = icmp sgt i64 %0, 0
  %17 = and i1 %16, %15
  br i1 %17, label %21, label %18, !prof !10

18:                                               ; preds = %14
  %19 = icmp eq i64 %9, -9223372036854775808
  br i1 %19, label %21, label %20, !prof !5

20:                                               ; preds = %18, %11
  br label %21

21:                                               ; preds = %11, %14, %18, %20
  %22 = phi i64 [ %9, %20 ], [ -9223372036854775807, %18 ], [ -9223372036854775807, %11 ], [ 9223372036854775807, %14 ]
  ret i64 %22
}

; Function Attrs: mustprogress nofree norecurse nosync nounwind readnone uwtable willreturn
define dso_local i64 @w_sub_i_i64(i64 noundef %0, i64 noundef %1) local_unnamed_addr #0 {
  %3 = add i64 %1, 2147483647
  %4 = icmp ult i64 %3, 4294967295
  %5 = shl nsw i64 %1, 16
  %6 = and i64 %1, -9223372036854775808
  %7 = or i64 %5, %6
  %8 = select i1 %4, i64 %7, i64 9223372036854775807, !prof !8
  %9 = sub i64 %0, %8
  %10 = icmp sgt i64 %9, -1
  br i1 %10, label %11, label %15, !prof !5

11:                                               ; preds = %2
  %12 = icmp slt i64 %0, 0
  %13 = icmp sgt i64 %8, 0
  %14 = select i1 %12, i1 %13, i1 false
  br i1 %14, label %22, label %21, !prof !10

15:                                               ; preds = %2
  %16 = icmp sgt i64 %0, 0
  %17 = icmp slt i64 %8, 0
  %18 = select i1 %16, i1 %17, i1 false
  br i1 %18, label %22, label %19, !prof !10

19:                                               ; preds = %15
  %20 = icmp eq i64 %9, -9223372036854775808
  br i1 %20, label %22, label %21, !prof !5

21:                                               ; preds = %19, %11
  br label %22

22:                                               ; preds = %11, %15, %19, %21
  %23 = phi i64 [ %9, %21 ], [ -9223372036854775807, %19 ], [ -9223372036854775807, %11 ], [ 9223372036854775807, %15 ]
  ret i64 %23
}

; Function Attrs: mustprogress nofree norecurse nosync nounwind readnone uwtable willreturn
define dso_local i64 @w_rsub_i_i64(i64 noundef %0, i64 noundef %1) local_unnamed_addr #0 {
  %3 = add i64 %1, 2147483647
  %4 = icmp ult i64 %3, 4294967295
  %5 = shl nsw i64 %1, 16
  %6 = and i64 %1, -9223372036854775808
  %7 = or i64 %5, %6
  %8 = select i1 %4, i64 %7, i64 9223372036854775807, !prof !8
  %9 = sub i64 %8, %0
  %10 = icmp sgt i64 %9, -1
  br i1 %10, label %11, label %15, !prof !5

11:                                               ; preds = %2
  %12 = icmp slt i64 %8, 0
  %13 = icmp sgt i64 %0, 0
  %14 = and i1 %13, %12
  br i1 %14, label %22, label %21, !prof !10

15:                                               ; preds = %2
  %16 = icmp sgt i64 %8, 0
  %17 = icmp slt i64 %0, 0
  %18 = and i1 %17, %16
  br i1 %18, label %22, label %19, !prof !10

19:                                               ; preds = %15
  %20 = icmp eq i64 %9, -9223372036854775808
  br i1 %20, label %22, label %21, !prof !5

21:                                               ; preds = %19, %11
  br label %22

22:                                               ; preds = %11, %15, %19, %21
  %23 = phi i64 [ %9, %21 ], [ -9223372036854775807, %19 ], [ -9223372036854775807, %11 ], [ 9223372036854775807, %15 ]
  ret i64 %23
}

; Function Attrs: mustprogress nofree norecurse nosync nounwind readnone uwtable willreturn
define dso_local i64 @w_rdiv_i_i64(i64 noundef %0, i64 noundef %1) local_unnamed_addr #0 {
  %3 = add i64 %1, 2147483647
  %4 = icmp ult i64 %3, 4294967295
  %5 = shl nsw i64 %1, 16
  %6 = and i64 %1, -9223372036854775808
  %7 = or i64 %5, %6
  %8 = select i1 %4, i64 %7, i64 9223372036854775807, !prof !8
  %9 = icmp ne i64 %0, 0
  %10 = add i64 %8, 140737488355327
  %11 = icmp ult i64 %10, 281474976710655
  %12 = select i1 %9, i1 %11, i1 false
  br i1 %12, label %13, label %19, !prof !8

13:                                               ; preds = %2
  %14 = shl nsw i64 %8, 16
  %15 = and i64 %14, 9223372036854710272
  %16 = and i64 %8, -9223372036854775808
  %17 = or i64 %15, %16
  %18 = sdiv i64 %17, %0
  br label %19

19:                                               ; preds = %2, %13
  %20 = phi i64 [ %18, %13 ], [ 9223372036854775807, %2 ]
  ret i64 %20
}

; Function Attrs: mustprogress nofree nosync nounwind readnone uwtable willreturn
define dso_local i64 @w_sin_angle_i64(i64 noundef %0) local_unnamed_addr #1 {
  %2 = tail call { i64, i1 } @llvm.smul.with.overflow.i64(i64 %0, i64 205887) #10
  %3 = extractvalue { i64, i1 } %2, 1
  %4 = extractvalue { i64, i1 } %2, 0
  %5 = add i64 %4, -9223372036854775807
  %6 = icmp ult i64 %5, 3
  %7 = or i1 %3, %6
  br i1 %7, label %25, label %8, !prof !6

8:                                                ; preds = %1
  %9 = sdiv i64 %4, 180
  %10 = add nsw i64 %9, -308831
  %11 = icmp ult i64 %10, -411774
  br i1 %11, label %12, label %22, !prof !6

12:                                               ; preds = %8
  %13 = srem i64 %9, 411774
  %14 = trunc i64 %13 to i32
  %15 = add nsw i32 %14, 102943
  %16 = srem i32 %15, 411774
  %17 = add nsw i32 %16, -102943
  %18 = sext i32 %17 to i64
  %19 = icmp slt i32 %16, 0
  br i1 %19, label %20, label %22, !prof !5

20:                                               ; preds = %12
  %21 = add nsw i64 %18, 411774
  br label %22

22:                                               ; preds = %20, %12, %8
  %23 = phi i64 [ %21, %20 ], [ %18, %12 ], [ %9, %8 ]
  %24 = icmp sgt i64 %23, 102943
  br i1 %24, label %25, label %28, !prof !5

25:                                               ; preds = %22, %1
  %26 = phi i64 [ %23, %22 ], [ 248314, %1 ]
  %27 = sub nsw i64 205887, %26
  br label %28

28:                                               ; preds = %22, %25
  %29 = phi i64 [ %23, %22 ], [ %27, %25 ]
  %30 = mul nsw i64 %29, %29
  %31 = lshr i64 %30, 16
  %32 = add nsw i64 %31, -2752512
  %33 = mul nsw i64 %32, %31
  %34 = add nsw i64 %33, 3607772528640
  %35 = mul nsw i64 %34, %31
  %36 = ashr i64 %35, 36
  %37 = sub nsw i64 20643840, %36
  %38 = mul nsw i64 %37, %29
  %39 = lshr i64 %38, 16
  %40 = trunc i64 %39 to i32
  %41 = sdiv i32 %40, 315
  %42 = sext i32 %41 to i64
  ret i64 %42
}

; Function Attrs: mustprogress nofree nosync nounwind readnone uwtable willreturn
define dso_local i64 @w_cos_angle_i64(i64 noundef %0) local_unnamed_addr #1 {
  %2 = tail call { i64, i1 } @llvm.smul.with.overflow.i64(i64 %0, i64 205887) #10
  %3 = extractvalue { i64, i1 } %2, 1
  %4 = extractvalue { i64, i1 } %2, 0
  %5 = add i64 %4, -9223372036854775807
  %6 = icmp ult i64 %5, 3
  %7 = or i1 %3, %6
  br i1 %7, label %28, label %8, !prof !6

8:                                                ; preds = %1
  %9 = sdiv i64 %4, 180
  %10 = add nsw i64 %9, 102944
  %11 = add nsw i64 %9, -205887
  %12 = icmp ult i64 %11, -411774
  br i1 %12, label %13, label %23, !prof !6

13:                                               ; preds = %8
  %14 = srem i64 %10, 411774
  %15 = trunc i64 %14 to i32
  %16 = add nsw i32 %15, 102943
  %17 = srem i32 %16, 411774
  %18 = add nsw i32 %17, -102943
  %19 = sext i32 %18 to i64
  %20 = icmp slt i32 %17, 0
  br i1 %20, label %21, label %23, !prof !5

21:                                               ; preds = %13
  %22 = add nsw i64 %19, 411774
  br label %23

23:                                               ; preds = %21, %13, %8
  %24 = phi i64 [ %22, %21 ], [ %19, %13 ], [ %10, %8 ]
  %25 = icmp sgt i64 %24, 102943
  br i1 %25, label %26, label %28, !prof !5

26:                                               ; preds = %23
  %27 = sub nsw i64 205887, %24
  br label %28

28:                                               ; preds = %1, %23, %26
  %29 = phi i64 [ %24, %23 ], [ %27, %26 ], [ -60516, %1 ]
  %30 = mul nsw i64 %29, %29
  %31 = lshr i64 %30, 16
  %32 = add nsw i64 %31, -2752512
  %33 = mul nsw i64 %32, %31
  %34 = add nsw i64 %33, 3607772528640
  %35 = mul nsw i64 %34, %31
  %36 = ashr i64 %35, 36
  %37 = sub nsw i64 20643840, %36
  %38 = mul nsw i64 %37, %29
  %39 = lshr i64 %38, 16
  %40 = trunc i64 %39 to i32
  %41 = sdiv i32 %40, 315
  %42 = sext i32 %41 to i64
  ret i64 %42
}

; Function Attrs: mustprogress nofree nosync nounwind readnone uwtable willreturn
define dso_local i64 @w_tan_angle_i64(i64 noundef %0) local_unnamed_addr #1 {
  %2 = tail call { i64, i1 } @llvm.smul.with.overflow.i64(i64 %0, i64 205887) #10
  %3 = extractvalue { i64, i1 } %2, 1
  %4 = extractvalue { i64, i1 } %2, 0
  %5 = add i64 %4, -9223372036854775807
  %6 = icmp ult i64 %5, 3
  %7 = or i1 %3, %6
  br i1 %7, label %8, label %9, !prof !6

8:                                                ; preds = %1
  br label %9

9:                                                ; preds = %1, %8
  %10 = phi i64 [ 9223372036854775807, %8 ], [ %4, %1 ]
  %11 = sdiv i64 %10, 180
  %12 = tail call i64 @_ZN9fixedmath3tanENS_7fixed_tE(i64 %11) #11
  ret i64 %12
}

; Function Attrs: mustprogress nofree nosync nounwind readnone uwtable willreturn
define dso_local i64 @w_to_fixed_u8(i8 noundef zeroext %0) local_unnamed_addr #1 {
  %2 = zext i8 %0 to i64
  %3 = shl nuw nsw i64 %2, 16
  ret i64 %3
}

; Function Attrs: mustprogress nofree nosync nounwind readnone uwtable willreturn
define dso_local zeroext i8 @w_from_fixed_u8(i64 noundef %0) local_unnamed_addr #1 {
  %2 = lshr i64 %0, 16
  %3 = icmp ult i64 %0, 16777216
  %4 = trunc i64 %2 to i8
  %5 = select i1 %3, i8 %4, i8 0
  ret i8 %5
}

; Function Attrs: mustprogress nofree norecurse nosync nounwind readnone uwtable willreturn
define dso_local i64 @w_a2r_u8(i8 noundef zeroext %0) local_unnamed_addr #0 {
  %2 = zext i8 %0 to i64
  %3 = mul nuw nsw i64 %2, 13493010432
  %4 = udiv i64 %3, 11796480
  ret i64 %4
}

; Function Attrs: mustprogress nofree nosync nounwind readnone uwtable willreturn
define dso_local i64 @w_mul_s_u8(i64 noundef %0, i8 noundef zeroext %1) local_unnamed_addr #1 {
  %3 = zext i8 %1 to i64
  %4 = tail call { i64, i1 } @llvm.smul.with.overflow.i64(i64 %0, i64 %3) #10
  %5 = extractvalue { i64, i1 } %4, 1
  %6 = extractvalue { i64, i1 } %4, 0
  %7 = add i64 %6, -9223372036854775807
  %8 = icmp ult i64 %7, 3
  %9 = or i1 %5, %8
  br i1 %9, label %10, label %11, !prof !6

10:                                               ; preds = %2
  br label %11

11:                                               ; preds = %2, %10
  %12 = phi i64 [ 9223372036854775807, %10 ], [ %6, %2 ]
  ret i64 %12
}

; Function Attrs: mustprogress nofree nosync nounwind readnone uwtable willreturn
define dso_local i64 @w_rmul_s_u8(i64 noundef %0, i8 noundef zeroext %1) local_unnamed_addr #1 {
  %3 = zext i8 %1 to i64
  %4 = tail call { i64, i1 } @llvm.smul.with.overflow.i64(i64 %0, i64 %3) #10
  %5 = extractvalue { i64, i1 } %4, 1
  %6 = extractvalue { i64, i1 } %4, 0
  %7 = add i64 %6, -9223372036854775807
  %8 = icmp ult i64 %7, 3
  %9 = or i1 %5, %8
  br i1 %9, label %10, label %11, !prof !6

10:                                               ; preds = %2
  br label %11

11:                                               ; preds = %2, %10
  %12 = phi i64 [ 9223372036854775807, %10 ], [ %6, %2 ]
  ret i64 %12
}

; Function Attrs: mustprogress nofree norecurse nosync nounwind readnone uwtable willreturn
define dso_local i64 @w_div_s_u8(i64 noundef %0, i8 noundef zeroext %1) local_unnamed_addr #0 {
  %3 = icmp eq i8 %1, 0
  br i1 %3, label %7, label %4, !prof !5

4:                                                ; preds = %2
  %5 = zext i8 %1 to i64
  %6 = sdiv i64 %0, %5
  br label %7

7:                                                ; preds = %2, %4
  %8 = phi i64 [ %6, %4 ], [ 9223372036854775807, %2 ]
  ret i64 %8
}

; Function Attrs: mustprogress nofree norecurse nosync nounwind readnone uwtable willreturn
define dso_local i64 @w_add_i_u8(i64 noundef %0, i8 noundef zeroext %1) local_unnamed_addr #0 {
  %3 = zext i8 %1 to i64
  %4 = shl nuw nsw i64 %3, 16
  %5 = add i64 %4, %0
  %6 = icmp sgt i64 %5, -1
  br i1 %6, label %13, label %7, !prof !5

7:                                                ; preds = %2
  %8 = icmp sgt i64 %0, 0
  %9 = icmp ne i8 %1, 0
  %10 = and i1 %8, %9
  br i1 %10, label %14, label %11, !prof !10

11:                                               ; preds = %7
  %12 = icmp eq i64 %5, -9223372036854775808
  br i1 %12, label %14, label %13, !prof !5

13:                                               ; preds = %11, %2
  br label %14

14:                                               ; preds = %7, %11, %13
  %15 = phi i64 [ %5, %13 ], [ -9223372036854775807, %11 ], [ 9223372036854775807, %7 ]
  ret i64 %15
}

; Function Attrs: mustprogress nofree norecurse nosync nounwind readnone uwtable willreturn
define dso_local i64 @w_radd_i_u8(i64 noundef %0, i8 noundef zeroext %1) local_unnamed_addr #0 {
  %3 = zext i8 %1 to i64
  %4 = shl nuw nsw i64 %3, 16
  %5 = add i64 %4, %0
  %6 = icmp sgt i64 %5, -1
  br i1 %6, label %13, label %7, !prof !5

7:                                                ; preds = %2
  %8 = icmp ne i8 %1, 0
  %9 = icmp sgt i64 %0, 0
  %10 = and i1 %9, %8
  br i1 %10, label %14, label %11, !prof !10

11:                                               ; preds = %7
  %12 = icmp eq i64 %5, -9223372036854775808
  br i1 %12, label %14, label %13, !prof !5

13:                                               ; preds = %11, %2
  br label %14

14:                                               ; preds = %7, %11, %13
  %15 = phi i64 [ %5, %13 ], [ -9223372036854775807, %11 ], [ 9223372036854775807, %7 ]
  ret i64 %15
}

; Function Attrs: mustprogress nofree norecurse nosync nounwind readnone uwtable willreturn
define dso_local i64 @w_sub_i_u8(i64 noundef %0, i8 noundef zeroext %1) local_unnamed_addr #0 {
  %3 = zext i8 %1 to i64
  %4 = mul nsw i64 %3, -65536
  %5 = add i64 %4, %0
  %6 = icmp sgt i64 %5, -1
  br i1 %6, label %7, label %11, !prof !5

7:                                                ; preds = %2
  %8 = icmp slt i64 %0, 0
  %9 = icmp ne i8 %1, 0
  %10 = and i1 %8, %9
  br i1 %10, label %14, label %13, !prof !10

11:                                               ; preds = %2
  %12 = icmp eq i64 %5, -9223372036854775808
  br i1 %12, label %14, label %13, !prof !5

13:                                               ; preds = %11, %7
  br label %14

14:                                               ; preds = %7, %11, %13
  %15 = phi i64 [ %5, %13 ], [ -9223372036854775807, %11 ], [ -9223372036854775807, %7 ]
  ret i64 %15
}

; Function Attrs: mustprogress nofree norecurse nosync nounwind readnone uwtable willreturn
define dso_local i64 @w_rsub_i_u8(i64 noundef %0, i8 noundef zeroext %1) local_unnamed_addr #0 {
  %3 = zext i8 %1 to i64
  %4 = shl nuw nsw i64 %3, 16
  %5 = sub i64 %4, %0
  %6 = icmp sgt i64 %5, -1
  br i1 %6, label %13, label %7, !prof !5

7:                                                ; preds = %2
  %8 = icmp ne i8 %1, 0
  %9 = icmp slt i64 %0, 0
  %10 = and i1 %9, %8
  br i1 %10, label %14, label %11, !prof !10

11:                                               ; preds = %7
  %12 = icmp eq i64 %5, -9223372036854775808
  br i1 %12, label %14, label %13, !prof !5

13:                                               ; preds = %11, %2
  br label %14

14:                                               ; preds = %7, %11, %13
  %15 = phi i64 [ %5, %13 ], [ -9223372036854775807, %11 ], [ 9223372036854775807, %7 ]
  ret i64 %15
}

; Function Attrs: mustprogress nofree norecurse nosync nounwind readnone uwtable willreturn
define dso_local i64 @w_rdiv_i_u8(i64 noundef %0, i8 noundef zeroext %1) local_unnamed_addr #0 {
  %3 = icmp eq i64 %0, 0
  br i1 %3, label %8, label %4, !prof !6

4:                                                ; preds = %2
  %5 = zext i8 %1 to i64
  %6 = shl nuw nsw i64 %5, 32
  %7 = sdiv i64 %6, %0
  br label %8

8:                                                ; preds = %2, %4
  %9 = phi i64 [ %7, %4 ], [ 9223372036854775807, %2 ]
  ret i64 %9
}

; Function Attrs: mustprogress nofree norecurse nosync nounwind readnone uwtable willreturn
define dso_local i64 @w_sin_angle_u8(i8 noundef zeroext %0) local_unnamed_addr #0 {
  %2 = zext i8 %0 to i32
  %3 = mul nuw nsw i32 %2, 205887
  %4 = udiv i32 %3, 180
  %5 = zext i32 %4 to i64
  %6 = icmp ugt i32 %3, 18529919
  br i1 %6, label %7, label %9, !prof !5

7:                                                ; preds = %1
  %8 = sub nsw i64 205887, %5
  br label %9

9:                                                ; preds = %1, %7
  %10 = phi i64 [ %5, %1 ], [ %8, %7 ]
  %11 = mul nsw i64 %10, %10
  %12 = lshr i64 %11, 16
  %13 = add nsw i64 %12, -2752512
  %14 = mul nsw i64 %13, %12
  %15 = add nsw i64 %14, 3607772528640
  %16 = mul nsw i64 %15, %12
  %17 = ashr i64 %16, 36
  %18 = sub nsw i64 20643840, %17
  %19 = mul nsw i64 %18, %10
  %20 = lshr i64 %19, 16
  %21 = trunc i64 %20 to i32
  %22 = sdiv i32 %21, 315
  %23 = sext i32 %22 to i64
  ret i64 %23
}

; Function Attrs: mustprogress nofree norecurse nosync nounwind readnone uwtable willreturn
define dso_local i64 @w_cos_angle_u8(i8 noundef zeroext %0) local_unnamed_addr #0 {
  %2 = zext i8 %0 to i32
  %3 = mul nuw nsw i32 %2, 205887
  %4 = udiv i32 %3, 180
  %5 = zext i32 %4 to i64
  %6 = add nuw nsw i64 %5, 102944
  %7 = add nsw i64 %5, -205887
  %8 = icmp ult i64 %7, -411774
  br i1 %8, label %9, label %17, !prof !6

9:                                                ; preds = %1
  %10 = trunc i64 %6 to i32
  %11 = urem i32 %10, 411774
  %12 = add nuw nsw i32 %11, 102943
  %13 = urem i32 %12, 411774
  %14 = add nsw i32 %13, -102943
  %15 = sext i32 %14 to i64
  %16 = icmp ugt i32 %13, 205886
  br i1 %16, label %17, label %20, !prof !5

17:                                               ; preds = %9, %1
  %18 = phi i64 [ %15, %9 ], [ %6, %1 ]
  %19 = sub nsw i64 205887, %18
  br label %20

20:                                               ; preds = %9, %17
  %21 = phi i64 [ %15, %9 ], [ %19, %17 ]
  %22 = mul nsw i64 %21, %21
  %23 = lshr i64 %22, 16
  %24 = add nsw i64 %23, -2752512
  %25 = mul nsw i64 %24, %23
  %26 = add nsw i64 %25, 3607772528640
  %27 = mul nsw i64 %26, %23
  %28 = ashr i64 %27, 36
  %29 = sub nsw i64 20643840, %28
  %30 = mul nsw i64 %29, %21
  %31 = lshr i64 %30, 16
  %32 = trunc i64 %31 to i32
  %33 = sdiv i32 %32, 315
  %34 = sext i32 %33 to i64
  ret i64 %34
}

; Function Attrs: mustprogress nofree nosync nounwind readnone uwtable willreturn
define dso_local i64 @w_tan_angle_u8(i8 noundef zeroext %0) local_unnamed_addr #1 {
  %2 = zext i8 %0 to i32
  %3 = mul nuw nsw i32 %2, 205887
  %4 = udiv i32 %3, 180
  %5 = zext i32 %4 to i64
  %6 = tail call i64 @_ZN9fixedmath3tanENS_7fixed_tE(i64 %5) #11
  ret i64 %6
}

; Function Attrs: mustprogress nofree nosync nounwind readnone uwtable willreturn
define dso_local i64 @w_to_fixed_u16(i16 noundef zeroext %0) local_unnamed_addr #1 {
  %2 = zext i16 %0 to i64
  %3 = shl nuw nsw i64 %2, 16
  ret i64 %3
}

; Function Attrs: mustprogress nofree nosync nounwind readnone uwtable willreturn
define dso_local zeroext i16 @w_from_fixed_u16(i64 noundef %0) local_unnamed_addr #1 {
  %2 = lshr i64 %0, 16
  %3 = icmp ult i64 %0, 4294967296
  %4 = trunc i64 %2 to i16
  %5 = select i1 %3, i16 %4, i16 0
  ret i16 %5
}

; Function Attrs: mustprogress nofree norecurse nosync nounwind readnone uwtable willreturn
define dso_local i64 @w_a2r_u16(i16 noundef zeroext %0) local_unnamed_addr #0 {
  %2 = icmp ult i16 %0, 361
  br i1 %2, label %3, label %7

3:                                                ; preds = %1
  %4 = zext i16 %0 to i64
  %5 = mul nuw nsw i64 %4, 13493010432
  %6 = udiv i64 %5, 11796480
  br label %7

7:                                                ; preds = %1, %3
  %8 = phi i64 [ %6, %3 ], [ 9223372036854775807, %1 ]
  ret i64 %8
}

; Function Attrs: mustprogress nofree nosync nounwind readnone uwtable willreturn
define dso_local i64 @w_mul_s_u16(i64 noundef %0, i16 noundef zeroext %1) local_unnamed_addr #1 {
  %3 = zext i16 %1 to i64
  %4 = tail call { i64, i1 } @llvm.smul.with.overflow.i64(i64 %0, i64 %3) #10
  %5 = extractvalue { i64, i1 } %4, 1
  %6 = extractvalue { i64, i1 } %4, 0
  %7 = add i64 %6, -9223372036854775807
  %8 = icmp ult i64 %7, 3
  %9 = or i1 %5, %8
  br i1 %9, label %10, label %11, !prof !6

10:                                               ; preds = %2
  br label %11

11:                                               ; preds = %2, %10
  %12 = phi i64 [ 9223372036854775807, %10 ], [ %6, %2 ]
  ret i64 %12
}

; Function Attrs: mustprogress nofree nosync nounwind readnone uwtable willreturn
define dso_local i64 @w_rmul_s_u16(i64 noundef %0, i16 noundef zeroext %1) local_unnamed_addr #1 {
  %3 = zext i16 %1 to i64
  %4 = tail call { i64, i1 } @llvm.smul.with.overflow.i64(i64 %0, i64 %3) #10
  %5 = extractvalue { i64, i1 } %4, 1
  %6 = extractvalue { i64, i1 } %4, 0
  %7 = add i64 %6, -9223372036854775807
  %8 = icmp ult i64 %7, 3
  %9 = or i1 %5, %8
  br i1 %9, label %10, label %11, !prof !6

10:                                               ; preds = %2
  br label %11

11:                                               ; preds = %2, %10
  %12 = phi i64 [ 9223372036854775807, %10 ], [ %6, %2 ]
  ret i64 %12
}

; Function Attrs: mustprogress nofree norecurse nosync nounwind readnone uwtable willreturn
define dso_local i64 @w_div_s_u16(i64 noundef %0, i16 noundef zeroext %1) local_unnamed_addr #0 {
  %3 = icmp eq i16 %1, 0
  br i1 %3, label %7, label %4, !prof !5

4:                                                ; preds = %2
  %5 = zext i16 %1 to i64
  %6 = sdiv i64 %0, %5
  br label %7

7:                                                ; preds = %2, %4
  %8 = phi i64 [ %6, %4 ], [ 9223372036854775807, %2 ]
  ret i64 %8
}

; Function Attrs: mustprogress nofree norecurse nosync nounwind readnone uwtable willreturn
define dso_local i64 @w_add_i_u16(i64 noundef %0, i16 noundef zeroext %1) local_unnamed_addr #0 {
  %3 = zext i16 %1 to i64
  %4 = shl nuw nsw i64 %3, 16
  %5 = add i64 %4, %0
  %6 = icmp sgt i64 %5, -1
  br i1 %6, label %13, label %7, !prof !5

7:                                                ; preds = %2
  %8 = icmp sgt i64 %0, 0
  %9 = icmp ne i16 %1, 0
  %10 = and i1 %8, %9
  br i1 %10, label %14, label %11, !prof !10

11:                                               ; preds = %7
  %12 = icmp eq i64 %5, -9223372036854775808
  br i1 %12, label %14, label %13, !prof !5

13:                                               ; preds = %11, %2
  br label %14

14:                                               ; preds = %7, %11, %13
  %15 = phi i64 [ %5, %13 ], [ -9223372036854775807, %11 ], [ 9223372036854775807, %7 ]
  ret i64 %15
}

; Function Attrs: mustprogress nofree norecurse nosync nounwind readnone uwtable willreturn
define dso_local i64 @w_radd_i_u16(i64 noundef %0, i16 noundef zeroext %1) local_unnamed_addr #0 {
  %3 = zext i16 %1 to i64
  %4 = shl nuw nsw i64 %3, 16
  %5 = add i64 %4, %0
  %6 = icmp sgt i64 %5, -1
  br i1 %6, label %13, label %7, !prof !5

7:                                                ; preds = %2
  %8 = icmp ne i16 %1, 0
  %9 = icmp sgt i64 %0, 0
  %10 = and i1 %9, %8
  br i1 %10, label %14, label %11, !prof !10

11:                                               ; preds = %7
  %12 = icmp eq i64 %5, -9223372036854775808
  br i1 %12, label %14, label %13, !prof !5

13:                                               ; preds = %11, %2
  br label %14

14:                                               ; preds = %7, %11, %13
  %15 = phi i64 [ %5, %13 ], [ -9223372036854775807, %11 ], [ 9223372036854775807, %7 ]
  ret i64 %15
}

; Function Attrs: mustprogress nofree norecurse nosync nounwind readnone uwtable willreturn
define dso_local i64 @w_sub_i_u16(i64 noundef %0, i16 noundef zeroext %1) local_unnamed_addr #0 {
  %3 = zext i16 %1 to i64
  %4 = mul nsw i64 %3, -65536
  %5 = add i64 %4, %0
  %6 = icmp sgt i64 %5, -1
  br i1 %6, label %7, label %11, !prof !5

7:                                                ; preds = %2
  %8 = icmp slt i64 %0, 0
  %9 = icmp ne i16 %1, 0
  %10 = and i1 %8, %9
  br i1 %10, label %14, label %13, !prof !10

11:                                               ; preds = %2
  %12 = icmp eq i64 %5, -9223372036854775808
  br i1 %12, label %14, label %13, !prof !5

13:                                               ; preds = %11, %7
  br label %14

14:                                               ; preds = %7, %11, %13
  %15 = phi i64 [ %5, %13 ], [ -9223372036854775807, %11 ], [ -9223372036854775807, %7 ]
  ret i64 %15
}

; Function Attrs: mustprogress nofree norecurse nosync nounwind readnone uwtable willreturn
define dso_local i64 @w_rsub_i_u16(i64 noundef %0, i16 noundef zeroext %1) local_unnamed_addr #0 {
  %3 = zext i16 %1 to i64
  %4 = shl nuw nsw i64 %3, 16
  %5 = sub i64 %4, %0
  %6 = icmp sgt i64 %5, -1
  br i1 %6, label %13, label %7, !prof !5

7:                                                ; preds = %2
  %8 = icmp ne i16 %1, 0
  %9 = icmp slt i64 %0, 0
  %10 = and i1 %9, %8
  br i1 %10, label %14, label %11, !prof !10

11:                                               ; preds = %7
  %12 = icmp eq i64 %5, -9223372036854775808
  br i1 %12, label %14, label %13, !prof !5

13:                                               ; preds = %11, %2
  br label %14

14:                                               ; preds = %7, %11, %13
  %15 = phi i64 [ %5, %13 ], [ -9223372036854775807, %11 ], [ 9223372036854775807, %7 ]
  ret i64 %15
}

; Function Attrs: mustprogress nofree norecurse nosync nounwind readnone uwtable willreturn
define dso_local i64 @w_rdiv_i_u16(i64 noundef %0, i16 noundef zeroext %1) local_unnamed_addr #0 {
  %3 = icmp eq i64 %0, 0
  br i1 %3, label %8, label %4, !prof !6

4:                                                ; preds = %2
  %5 = zext i16 %1 to i64
  %6 = shl nuw nsw i64 %5, 32
  %7 = sdiv i64 %6, %0
  br label %8

8:                                                ; preds = %2, %4
  %9 = phi i64 [ %7, %4 ], [ 9223372036854775807, %2 ]
  ret i64 %9
}

; Function Attrs: mustprogress nofree norecurse nosync nounwind readnone uwtable willreturn
define dso_local i64 @w_sin_angle_u16(i16 noundef zeroext %0) local_unnamed_addr #0 {
  %2 = zext i16 %0 to i64
  %3 = mul nuw nsw i64 %2, 205887
  %4 = udiv i64 %3, 180
  %5 = add nsw i64 %4, -308831
  %6 = icmp ult i64 %5, -411774
  br i1 %6, label %7, label %14, !prof !6

7:                                                ; preds = %1
  %8 = trunc i64 %4 to i32
  %9 = urem i32 %8, 411774
  %10 = add nuw nsw i32 %9, 102943
  %11 = urem i32 %10, 411774
  %12 = add nsw i32 %11, -102943
  %13 = sext i32 %12 to i64
  br label %14

14:                                               ; preds = %7, %1
  %15 = phi i64 [ %13, %7 ], [ %4, %1 ]
  %16 = icmp sgt i64 %15, 102943
  br i1 %16, label %17, label %19, !prof !5

17:                                               ; preds = %14
  %18 = sub nsw i64 205887, %15
  br label %19

19:                                               ; preds = %14, %17
  %20 = phi i64 [ %15, %14 ], [ %18, %17 ]
  %21 = mul nsw i64 %20, %20
  %22 = lshr i64 %21, 16
  %23 = add nsw i64 %22, -2752512
  %24 = mul nsw i64 %23, %22
  %25 = add nsw i64 %24, 3607772528640
  %26 = mul nsw i64 %25, %22
  %27 = ashr i64 %26, 36
  %28 = sub nsw i64 20643840, %27
  %29 = mul nsw i64 %28, %20
  %30 = lshr i64 %29, 16
  %31 = trunc i64 %30 to i32
  %32 = sdiv i32 %31, 315
  %33 = sext i32 %32 to i64
  ret i64 %33
}

; Function Attrs: mustprogress nofree norecurse nosync nounwind readnone uwtable willreturn
define dso_local i64 @w_cos_angle_u16(i16 noundef zeroext %0) local_unnamed_addr #0 {
  %2 = zext i16 %0 to i64
  %3 = mul nuw nsw i64 %2, 205887
  %4 = udiv i64 %3, 180
  %5 = add nuw nsw i64 %4, 102944
  %6 = add nsw i64 %4, -205887
  %7 = icmp ult i64 %6, -411774
  br i1 %7, label %8, label %16, !prof !6

8:                                                ; preds = %1
  %9 = trunc i64 %5 to i32
  %10 = urem i32 %9, 411774
  %11 = add nuw nsw i32 %10, 102943
  %12 = urem i32 %11, 411774
  %13 = add nsw i32 %12, -102943
  %14 = sext i32 %13 to i64
  %15 = icmp ugt i32 %12, 205886
  br i1 %15, label %16, label %19, !prof !5

16:                                               ; preds = %8, %1
  %17 = phi i64 [ %14, %8 ], [ %5, %1 ]
  %18 = sub nsw i64 205887, %17
  br label %19

19:                                               ; preds = %8, %16
  %20 = phi i64 [ %14, %8 ], [ %18, %16 ]
  %21 = mul nsw i64 %20, %20
  %22 = lshr i64 %21, 16
  %23 = add nsw i64 %22, -2752512
  %24 = mul nsw i64 %23, %22
  %25 = add nsw i64 %24, 3607772528640
  %26 = mul nsw i64 %25, %22
  %27 = ashr i64 %26, 36
  %28 = sub nsw i64 20643840, %27
  %29 = mul nsw i64 %28, %20
  %30 = lshr i64 %29, 16
  %31 = trunc i64 %30 to i32
  %32 = sdiv i32 %31, 315
  %33 = sext i32 %32 to i64
  ret i64 %33
}

; Function Attrs: mustprogress nofree nosync nounwind readnone uwtable willreturn
define dso_local i64 @w_tan_angle_u16(i16 noundef zeroext %0) local_unnamed_addr #1 {
  %2 = zext i16 %0 to i64
  %3 = mul nuw nsw i64 %2, 205887
  %4 = udiv i64 %3, 180
  %5 = tail call i64 @_ZN9fixedmath3tanENS_7fixed_tE(i64 %4) #11
  ret i64 %5
}

; Function Attrs: mustprogress nofree nosync nounwind readnone uwtable willreturn
define dso_local i64 @w_to_fixed_u32(i32 noundef %0) local_unnamed_addr #1 {
  %2 = icmp sgt i32 %0, -1
  %3 = zext i32 %0 to i64
  %4 = shl nuw nsw i64 %3, 16
  %5 = select i1 %2, i64 %4, i64 9223372036854775807, !prof !9
  ret i64 %5
}

; Function Attrs: mustprogress nofree nosync nounwind readnone uwtable willreturn
define dso_local i32 @w_from_fixed_u32(i64 noundef %0) local_unnamed_addr #1 {
  %2 = lshr i64 %0, 16
  %3 = icmp ult i64 %0, 281474976710656
  %4 = trunc i64 %2 to i32
  %5 = select i1 %3, i32 %4, i32 0
  ret i32 %5
}

; Function Attrs: mustprogress nofree norecurse nosync nounwind readnone uwtable willreturn
define dso_local i64 @w_a2r_u32(i32 noundef %0) local_unnamed_addr #0 {
  %2 = icmp ult i32 %0, 361
  br i1 %2, label %3, label %10

3:                                                ; preds = %1
  %4 = zext i32 %0 to i64
  %5 = mul nuw nsw i64 %4, 13493010432
  %6 = lshr exact i64 %5, 16
  %7 = trunc i64 %6 to i32
  %8 = udiv i32 %7, 180
  %9 = zext i32 %8 to i64
  br label %10

10:                                               ; preds = %1, %3
  %11 = phi i64 [ %9, %3 ], [ 9223372036854775807, %1 ]
  ret i64 %11
}

; Function Attrs: mustprogress nofree nosync nounwind readnone uwtable willreturn
define dso_local i64 @w_mul_s_u32(i64 noundef %0, i32 noundef %1) local_unnamed_addr #1 {
  %3 = zext i32 %1 to i64
  %4 = tail call { i64, i1 } @llvm.smul.with.overflow.i64(i64 %0, i64 %3) #10
  %5 = extractvalue { i64, i1 } %4, 1
  %6 = extractvalue { i64, i1 } %4, 0
  %7 = add i64 %6, -9223372036854775807
  %8 = icmp ult i64 %7, 3
  %9 = or i1 %5, %8
  br i1 %9, label %10, label %11, !prof !6

10:                                               ; preds = %2
  br label %11

11:                                               ; preds = %2, %10
  %12 = phi i64 [ 9223372036854775807, %10 ], [ %6, %2 ]
  ret i64 %12
}

; Function Attrs: mustprogress nofree nosync nounwind readnone uwtable willreturn
define dso_local i64 @w_rmul_s_u32(i64 noundef %0, i32 noundef %1) local_unnamed_addr #1 {
  %3 = zext i32 %1 to i64
  %4 = tail call { i64, i1 } @llvm.smul.with.overflow.i64(i64 %0, i64 %3) #10
  %5 = extractvalue { i64, i1 } %4, 1
  %6 = extractvalue { i64, i1 } %4, 0
  %7 = add i64 %6, -9223372036854775807
  %8 = icmp ult i64 %7, 3
  %9 = or i1 %5, %8
  br i1 %9, label %10, label %11, !prof !6

10:                                               ; preds = %2
  br label %11

11:                                               ; preds = %2, %10
  %12 = phi i64 [ 9223372036854775807, %10 ], [ %6, %2 ]
  ret i64 %12
}

; Function Attrs: mustprogress nofree norecurse nosync nounwind readnone uwtable willreturn
define dso_local i64 @w_div_s_u32(i64 noundef %0, i32 noundef %1) local_unnamed_addr #0 {
  %3 = icmp eq i32 %1, 0
  br i1 %3, label %7, label %4, !prof !5

4:                                                ; preds = %2
  %5 = zext i32 %1 to i64
  %6 = sdiv i64 %0, %5
  br label %7

7:                                                ; preds = %2, %4
  %8 = phi i64 [ %6, %4 ], [ 9223372036854775807, %2 ]
  ret i64 %8
}

; Function Attrs: mustprogress nofree norecurse nosync nounwind readnone uwtable willreturn
define dso_local i64 @w_add_i_u32(i64 noundef %0, i32 noundef %1) local_unnamed_addr #0 {
  %3 = icmp sgt i32 %1, -1
  %4 = zext i32 %1 to i64
  %5 = shl nuw nsw i64 %4, 16
  %6 = select i1 %3, i64 %5, i64 9223372036854775807, !prof !9
  %7 = add i64 %6, %0
  %8 = icmp sgt i64 %7, -1
  br i1 %8, label %15, label %9, !prof !5

9:                                                ; preds = %2
  %10 = icmp sgt i64 %0, 0
  %11 = icmp ne i64 %6, 0
  %12 = select i1 %10, i1 %11, i1 false
  br i1 %12, label %16, label %13, !prof !10

13:                                               ; preds = %9
  %14 = icmp eq i64 %7, -9223372036854775808
  br i1 %14, label %16, label %15, !prof !5

15:                                               ; preds = %13, %2
  br label %16

16:                                               ; preds = %9, %13, %15
  %17 = phi i64 [ %7, %15 ], [ -9223372036854775807, %13 ], [ 9223372036854775807, %9 ]
  ret i64 %17
}

; Function Attrs: mustprogress nofree norecurse nosync nounwind readnone uwtable willreturn
define dso_local i64 @w_radd_i_u32(i64 noundef %0, i32 noundef %1) local_unnamed_addr #0 {
  %3 = icmp sgt i32 %1, -1
  %4 = zext i32 %1 to i64
  %5 = shl nuw nsw i64 %4, 16
  %6 = select i1 %3, i64 %5, i64 9223372036854775807, !prof !9
  %7 = add i64 %6, %0
  %8 = icmp sgt i64 %7, -1
  br i1 %8, label %15, label %9, !prof !5

9:                                                ; preds = %2
  %10 = icmp ne i64 %6, 0
  %11 = icmp sgt i64 %0, 0
  %12 = and i1 %11, %10
  br i1 %12, label %16, label %13, !prof !10

13:                                               ; preds = %9
  %14 = icmp eq i64 %7, -9223372036854775808
  br i1 %14, label %16, label %15, !prof !5

15:                                               ; preds = %13, %2
  br label %16

16:                                               ; preds = %9, %13, %15
  %17 = phi i64 [ %7, %15 ], [ -9223372036854775807, %13 ], [ 9223372036854775807, %9 ]
  ret i64 %17
}

; Function Attrs: mustprogress nofree norecurse nosync nounwind readnone uwtable willreturn
define dso_local i64 @w_sub_i_u32(i64 noundef %0, i32 noundef %1) local_unnamed_addr #0 {
  %3 = icmp sgt i32 %1, -1
  %4 = zext i32 %1 to i64
  %5 = shl nuw nsw i64 %4, 16
  %6 = select i1 %3, i64 %5, i64 9223372036854775807, !prof !9
  %7 = sub i64 %0, %6
  %8 = icmp sgt i64 %7, -1
  br i1 %8, label %9, label %13, !prof !5

9:                                                ; preds = %2
  %10 = icmp slt i64 %0, 0
  %11 = icmp ne i64 %6, 0
  %12 = select i1 %10, i1 %11, i1 false
  br i1 %12, label %16, label %15, !prof !10

13:                                               ; preds = %2
  %14 = icmp eq i64 %7, -9223372036854775808
  br i1 %14, label %16, label %15, !prof !5

15:                                               ; preds = %13, %9
  br label %16

16:                                               ; preds = %9, %13, %15
  %17 = phi i64 [ %7, %15 ], [ -9223372036854775807, %13 ], [ -9223372036854775807, %9 ]
  ret i64 %17
}

; Function Attrs: mustprogress nofree norecurse nosync nounwind readnone uwtable willreturn
define dso_local i64 @w_rsub_i_u32(i64 noundef %0, i32 noundef %1) local_unnamed_addr #0 {
  %3 = icmp sgt i32 %1, -1
  %4 = zext i32 %1 to i64
  %5 = shl nuw nsw i64 %4, 16
  %6 = select i1 %3, i64 %5, i64 9223372036854775807, !prof !9
  %7 = sub i64 %6, %0
  %8 = icmp sgt i64 %7, -1
  br i1 %8, label %15, label %9, !prof !5

9:                                                ; preds = %2
  %10 = icmp ne i64 %6, 0
  %11 = icmp slt i64 %0, 0
  %12 = and i1 %11, %10
  br i1 %12, label %16, label %13, !prof !10

13:                                               ; preds = %9
  %14 = icmp eq i64 %7, -9223372036854775808
  br i1 %14, label %16, label %15, !prof !5

15:                                               ; preds = %13, %2
  br label %16

16:                                               ; preds = %9, %13, %15
  %17 = phi i64 [ %7, %15 ], [ -9223372036854775807, %13 ], [ 9223372036854775807, %9 ]
  ret i64 %17
}

; Function Attrs: mustprogress nofree norecurse nosync nounwind readnone uwtable willreturn
define dso_local i64 @w_rdiv_i_u32(i64 noundef %0, i32 noundef %1) local_unnamed_addr #0 {
  %3 = icmp sgt i32 %1, -1
  %4 = zext i32 %1 to i64
  %5 = shl nuw nsw i64 %4, 16
  %6 = select i1 %3, i64 %5, i64 9223372036854775807, !prof !9
  %7 = icmp ne i64 %0, 0
  %8 = icmp ult i64 %6, 140737488355328
  %9 = select i1 %7, i1 %8, i1 false
  br i1 %9, label %10, label %13, !prof !8

10:                                               ; preds = %2
  %11 = shl nuw nsw i64 %6, 16
  %12 = sdiv i64 %11, %0
  br label %13

13:                                               ; preds = %2, %10
  %14 = phi i64 [ %12, %10 ], [ 9223372036854775807, %2 ]
  ret i64 %14
}

; Function Attrs: mustprogress nofree norecurse nosync nounwind readnone uwtable willreturn
define dso_local i64 @w_sin_angle_u32(i32 noundef %0) local_unnamed_addr #0 {
  %2 = zext i32 %0 to i64
  %3 = mul nuw nsw i64 %2, 205887
  %4 = udiv i64 %3, 180
  %5 = add nsw i64 %4, -308831
  %6 = icmp ult i64 %5, -411774
  br i1 %6, label %7, label %14, !prof !6

7:                                                ; preds = %1
  %8 = urem i64 %4, 411774
  %9 = trunc i64 %8 to i32
  %10 = add nuw nsw i32 %9, 102943
  %11 = urem i32 %10, 411774
  %12 = add nsw i32 %11, -102943
  %13 = sext i32 %12 to i64
  br label %14

14:                                               ; preds = %7, %1
  %15 = phi i64 [ %13, %7 ], [ %4, %1 ]
  %16 = icmp sgt i64 %15, 102943
  br i1 %16, label %17, label %19, !prof !5

17:                                               ; preds = %14
  %18 = sub nsw i64 205887, %15
  br label %19

19:                                               ; preds = %14, %17
  %20 = phi i64 [ %15, %14 ], [ %18, %17 ]
  %21 = mul nsw i64 %20, %20
  %22 = lshr i64 %21, 16
  %23 = add nsw i64 %22, -2752512
  %24 = mul nsw i64 %23, %22
  %25 = add nsw i64 %24, 3607772528640
  %26 = mul nsw i64 %25, %22
  %27 = ashr i64 %26, 36
  %28 = sub nsw i64 20643840, %27
  %29 = mul nsw i64 %28, %20
  %30 = lshr i64 %29, 16
  %31 = trunc i64 %30 to i32
  %32 = sdiv i32 %31, 315
  %33 = sext i32 %32 to i64
  ret i64 %33
}

; Function Attrs: mustprogress nofree norecurse nosync nounwind readnone uwtable willreturn
define dso_local i64 @w_cos_angle_u32(i32 noundef %0) local_unnamed_addr #0 {
  %2 = zext i32 %0 to i64
  %3 = mul nuw nsw i64 %2, 205887
  %4 = udiv i64 %3, 180
  %5 = add nuw nsw i64 %4, 102944
  %6 = add nsw i64 %4, -205887
  %7 = icmp ult i64 %6, -411774
  br i1 %7, label %8, label %16, !prof !6

8:                                                ; preds = %1
  %9 = urem i64 %5, 411774
  %10 = trunc i64 %9 to i32
  %11 = add nuw nsw i32 %10, 102943
  %12 = urem i32 %11, 411774
  %13 = add nsw i32 %12, -102943
  %14 = sext i32 %13 to i64
  %15 = icmp ugt i32 %12, 205886
  br i1 %15, label %16, label %19, !prof !5

16:                                               ; preds = %8, %1
  %17 = phi i64 [ %14, %8 ], [ %5, %1 ]
  %18 = sub nsw i64 205887, %17
  br label %19

19:                                               ; preds = %8, %16
  %20 = phi i64 [ %14, %8 ], [ %18, %16 ]
  %21 = mul nsw i64 %20, %20
  %22 = lshr i64 %21, 16
  %23 = add nsw i64 %22, -2752512
  %24 = mul nsw i64 %23, %22
  %25 = add nsw i64 %24, 3607772528640
  %26 = mul nsw i64 %25, %22
  %27 = ashr i64 %26, 36
  %28 = sub nsw i64 20643840, %27
  %29 = mul nsw i64 %28, %20
  %30 = lshr i64 %29, 16
  %31 = trunc i64 %30 to i32
  %32 = sdiv i32 %31, 315
  %33 = sext i32 %32 to i64
  ret i64 %33
}

; Function Attrs: mustprogress nofree nosync nounwind readnone uwtable willreturn
define dso_local i64 @w_tan_angle_u32(i32 noundef %0) local_unnamed_addr #1 {
  %2 = zext i32 %0 to i64
  %3 = mul nuw nsw i64 %2, 205887
  %4 = udiv i64 %3, 180
  %5 = tail call i64 @_ZN9fixedmath3tanENS_7fixed_tE(i64 %4) #11
  ret i64 %5
}

; Function Attrs: mustprogress nofree nosync nounwind readnone uwtable willreturn
define dso_local i64 @w_to_fixed_u64(i64 noundef %0) local_unnamed_addr #1 {
  %2 = icmp ult i64 %0, 2147483648
  %3 = shl nuw nsw i64 %0, 16
  %4 = select i1 %2, i64 %3, i64 9223372036854775807, !prof !9
  ret i64 %4
}

; Function Attrs: mustprogress nofree nosync nounwind readnone uwtable willreturn
define dso_local i64 @w_from_fixed_u64(i64 noundef %0) local_unnamed_addr #1 {
  %2 = ashr i64 %0, 16
  %3 = icmp slt i64 %0, 0
  %4 = select i1 %3, i64 0, i64 %2
  ret i64 %4
}

; Function Attrs: mustprogress nofree norecurse nosync nounwind readnone uwtable willreturn
define dso_local i64 @w_a2r_u64(i64 noundef %0) local_unnamed_addr #0 {
  %2 = icmp ult i64 %0, 361
  br i1 %2, label %3, label %9

3:                                                ; preds = %1
  %4 = mul nuw nsw i64 %0, 13493010432
  %5 = lshr exact i64 %4, 16
  %6 = trunc i64 %5 to i32
  %7 = udiv i32 %6, 180
  %8 = zext i32 %7 to i64
  br label %9

9:                                                ; preds = %1, %3
  %10 = phi i64 [ %8, %3 ], [ 9223372036854775807, %1 ]
  ret i64 %10
}

; Function Attrs: mustprogress nofree nosync nounwind readnone uwtable willreturn
define dso_local i64 @w_mul_s_u64(i64 noundef %0, i64 noundef %1) local_unnamed_addr #1 {
  %3 = icmp slt i64 %1, 0
  br i1 %3, label %4, label %7, !prof !5

4:                                                ; preds = %2
  %5 = icmp eq i64 %0, 0
  %6 = select i1 %5, i64 0, i64 9223372036854775807
  br label %15

7:                                                ; preds = %2
  %8 = tail call { i64, i1 } @llvm.smul.with.overflow.i64(i64 %0, i64 %1) #10
  %9 = extractvalue { i64, i1 } %8, 1
  %10 = extractvalue { i64, i1 } %8, 0
  %11 = add i64 %10, -9223372036854775807
  %12 = icmp ult i64 %11, 3
  %13 = or i1 %9, %12
  br i1 %13, label %14, label %15, !prof !6

14:                                               ; preds = %7
  br label %15

15:                                               ; preds = %4, %7, %14
  %16 = phi i64 [ 9223372036854775807, %14 ], [ %6, %4 ], [ %10, %7 ]
  ret i64 %16
}

; Function Attrs: mustprogress nofree nosync nounwind readnone uwtable willreturn
define dso_local i64 @w_rmul_s_u64(i64 noundef %0, i64 noundef %1) local_unnamed_addr #1 {
  %3 = icmp slt i64 %1, 0
  br i1 %3, label %4, label %7, !prof !5

4:                                                ; preds = %2
  %5 = icmp eq i64 %0, 0
  %6 = select i1 %5, i64 0, i64 9223372036854775807
  br label %15

7:                                                ; preds = %2
  %8 = tail call { i64, i1 } @llvm.smul.with.overflow.i64(i64 %0, i64 %1) #10
  %9 = extractvalue { i64, i1 } %8, 1
  %10 = extractvalue { i64, i1 } %8, 0
  %11 = add i64 %10, -9223372036854775807
  %12 = icmp ult i64 %11, 3
  %13 = or i1 %9, %12
  br i1 %13, label %14, label %15, !prof !6

14:                                               ; preds = %7
  br label %15

15:                                               ; preds = %4, %7, %14
  %16 = phi i64 [ 9223372036854775807, %14 ], [ %6, %4 ], [ %10, %7 ]
  ret i64 %16
}

; Function Attrs: mustprogress nofree norecurse nosync nounwind readnone uwtable willreturn
define dso_local i64 @w_div_s_u64(i64 noundef %0, i64 noundef %1) local_unnamed_addr #0 {
  %3 = icmp eq i64 %1, 0
  br i1 %3, label %8, label %4, !prof !5

4:                                                ; preds = %2
  %5 = icmp slt i64 %1, 0
  br i1 %5, label %8, label %6, !prof !5

6:                                                ; preds = %4
  %7 = sdiv i64 %0, %1
  br label %8

8:                                                ; preds = %2, %4, %6
  %9 = phi i64 [ %7, %6 ], [ 0, %4 ], [ 9223372036854775807, %2 ]
  ret i64 %9
}

; Function Attrs: mustprogress nofree norecurse nosync nounwind readnone uwtable willreturn
define dso_local i64 @w_add_i_u64(i64 noundef %0, i64 noundef %1) local_unnamed_addr #0 {
  %3 = icmp ult i64 %1, 2147483648
  %4 = shl nuw nsw i64 %1, 16
  %5 = select i1 %3, i64 %4, i64 9223372036854775807, !prof !9
  %6 = add i64 %5, %0
  %7 = icmp sgt i64 %6, -1
  br i1 %7, label %8, label %12, !prof !5

8:                                                ; preds = %2
  %9 = icmp slt i64 %0, 0
  %10 = icmp slt i64 %5, 0
  %11 = select i1 %9, i1 %10, i1 false
  br i1 %11, label %19, label %18, !prof !10

12:                                               ; preds = %2
  %13 = icmp sgt i64 %0, 0
  %14 = icmp sgt i64 %5, 0
  %15 = select i1 %13, i1 %14, i1 false
  br i1 %15, label %19, label %16, !prof !10

16:                                               ; preds = %12
  %17 = icmp eq i64 %6, -9223372036854775808
  br i1 %17, label %19, label %18, !prof !5

18:                                               ; preds = %16, %8
  br label %19

19:                                               ; preds = %8, %12, %16, %18
  %20 = phi i64 [ %6, %18 ], [ -9223372036854775807, %16 ], [ -9223372036854775807, %8 ], [ 9223372036854775807, %12 ]
  ret i64 %20
}

; Function Attrs: mustprogress nofree norecurse nosync nounwind readnone uwtable willreturn
define dso_local i64 @w_radd_i_u64(i64 noundef %0, i64 noundef %1) local_unnamed_addr #0 {
  %3 = icmp ult i64 %1, 2147483648
  %4 = shl nuw nsw i64 %1, 16
  %5 = select i1 %3, i64 %4, i64 9223372036854775807, !prof !9
  %6 = add i64 %5, %0
  %7 = icmp sgt i64 %6, -1
  br i1 %7, label %8, label %11, !prof !5

8:                                                ; preds = %2
  %9 = and i64 %5, %0
  %10 = icmp slt i64 %9, 0
  br i1 %10, label %18, label %17, !prof !10

11:                                               ; preds = %2
  %12 = icmp sgt i64 %5, 0
  %13 = icmp sgt i64 %0, 0
  %14 = and i1 %13, %12
  br i1 %14, label %18, label %15, !prof !10

15:                                               ; preds = %11
  %16 = icmp eq i64 %6, -9223372036854775808
  br i1 %16, label %18, label %17, !prof !5

17:                                               ; preds = %15, %8
  br label %18

18:                                               ; preds = %8, %11, %15, %17
  %19 = phi i64 [ %6, %17 ], [ -9223372036854775807, %15 ], [ -9223372036854775807, %8 ], [ 9223372036854775807, %11 ]
  ret i64 %19
}

; Function Attrs: mustprogress nofree norecurse nosync nounwind readnone uwtable willreturn
define dso_local i64 @w_sub_i_u64(i64 noundef %0, i64 noundef %1) local_unnamed_addr #0 {
  %3 = icmp ult i64 %1, 2147483648
  %4 = shl nuw nsw i64 %1, 16
  %5 = select i1 %3, i64 %4, i64 9223372036854775807, !prof !9
  %6 = sub i64 %0, %5
  %7 = icmp sgt i64 %6, -1
  br i1 %7, label %8, label %12, !prof !5

8:                                                ; preds = %2
  %9 = icmp slt i64 %0, 0
  %10 = icmp sgt i64 %5, 0
  %11 = select i1 %9, i1 %10, i1 false
  br i1 %11, label %19, label %18, !prof !10

12:                                               ; preds = %2
  %13 = icmp sgt i64 %0, 0
  %14 = icmp slt i64 %5, 0
  %15 = select i1 %13, i1 %14, i1 false
  br i1 %15, label %19, label %16, !prof !10

16:                                               ; preds = %12
  %17 = icmp eq i64 %6, -9223372036854775808
  br i1 %17, label %19, label %18, !prof !5

18:                                               ; preds = %16, %8
  br label %19

19:                                               ; preds = %8, %12, %16, %18
  %20 = phi i64 [ %6, %18 ], [ -9223372036854775807, %16 ], [ -9223372036854775807, %8 ], [ 9223372036854775807, %12 ]
  ret i64 %20
}

; Function Attrs: mustprogress nofree norecurse nosync nounwind readnone uwtable willreturn
define dso_local i64 @w_rsub_i_u64(i64 noundef %0, i64 noundef %1) local_unnamed_addr #0 {
  %3 = icmp ult i64 %1, 2147483648
  %4 = shl nuw nsw i64 %1, 16
  %5 = select i1 %3, i64 %4, i64 9223372036854775807, !prof !9
  %6 = sub i64 %5, %0
  %7 = icmp sgt i64 %6, -1
  br i1 %7, label %8, label %12, !prof !5

8:                                                ; preds = %2
  %9 = icmp slt i64 %5, 0
  %10 = icmp sgt i64 %0, 0
  %11 = and i1 %10, %9
  br i1 %11, label %19, label %18, !prof !10

12:                                               ; preds = %2
  %13 = icmp sgt i64 %5, 0
  %14 = icmp slt i64 %0, 0
  %15 = and i1 %14, %13
  br i1 %15, label %19, label %16, !prof !10

16:                                               ; preds = %12
  %17 = icmp eq i64 %6, -9223372036854775808
  br i1 %17, label %19, label %18, !prof !5

18:                                               ; preds = %16, %8
  br label %19

19:                                               ; preds = %8, %12, %16, %18
  %20 = phi i64 [ %6, %18 ], [ -9223372036854775807, %16 ], [ -9223372036854775807, %8 ], [ 9223372036854775807, %12 ]
  ret i64 %20
}

; Function Attrs: mustprogress nofree norecurse nosync nounwind readnone uwtable willreturn
define dso_local i64 @w_rdiv_i_u64(i64 noundef %0, i64 noundef %1) local_unnamed_addr #0 {
  %3 = icmp ult i64 %1, 2147483648
  %4 = shl nuw nsw i64 %1, 16
  %5 = select i1 %3, i64 %4, i64 9223372036854775807, !prof !9
  %6 = icmp ne i64 %0, 0
  %7 = add i64 %5, 140737488355327
  %8 = icmp ult i64 %7, 281474976710655
  %9 = select i1 %6, i1 %8, i1 false
  br i1 %9, label %10, label %16, !prof !8

10:                                               ; preds = %2
  %11 = shl nsw i64 %5, 16
  %12 = and i64 %11, 9223372036854710272
  %13 = and i64 %5, -9223372036854775808
  %14 = or i64 %12, %13
  %15 = sdiv i64 %14, %0
  br label %16

16:                                               ; preds = %2, %10
  %17 = phi i64 [ %15, %10 ], [ 9223372036854775807, %2 ]
  ret i64 %17
}

; Function Attrs: mustprogress nofree nosync nounwind readnone uwtable willreturn
define dso_local i64 @w_sin_angle_u64(i64 noundef %0) local_unnamed_addr #1 {
  %2 = icmp slt i64 %0, 0
  br i1 %2, label %27, label %3, !prof !5

3:                                                ; preds = %1
  %4 = tail call { i64, i1 } @llvm.smul.with.overflow.i64(i64 %0, i64 205887) #10
  %5 = extractvalue { i64, i1 } %4, 1
  %6 = extractvalue { i64, i1 } %4, 0
  %7 = add i64 %6, -9223372036854775807
  %8 = icmp ult i64 %7, 3
  %9 = or i1 %5, %8
  br i1 %9, label %27, label %10, !prof !6

10:                                               ; preds = %3
  %11 = sdiv i64 %6, 180
  %12 = add nsw i64 %11, -308831
  %13 = icmp ult i64 %12, -411774
  br i1 %13, label %14, label %24, !prof !6

14:                                               ; preds = %10
  %15 = srem i64 %11, 411774
  %16 = trunc i64 %15 to i32
  %17 = add nsw i32 %16, 102943
  %18 = srem i32 %17, 411774
  %19 = add nsw i32 %18, -102943
  %20 = sext i32 %19 to i64
  %21 = icmp slt i32 %18, 0
  br i1 %21, label %22, label %24, !prof !5

22:                                               ; preds = %14
  %23 = add nsw i64 %20, 411774
  br label %24

24:                                               ; preds = %22, %14, %10
  %25 = phi i64 [ %23, %22 ], [ %20, %14 ], [ %11, %10 ]
  %26 = icmp sgt i64 %25, 102943
  br i1 %26, label %27, label %30, !prof !5

27:                                               ; preds = %24, %3, %1
  %28 = phi i64 [ %25, %24 ], [ 248314, %1 ], [ 248314, %3 ]
  %29 = sub nsw i64 205887, %28
  br label %30

30:                                               ; preds = %24, %27
  %31 = phi i64 [ %25, %24 ], [ %29, %27 ]
  %32 = mul nsw i64 %31, %31
  %33 = lshr i64 %32, 16
  %34 = add nsw i64 %33, -2752512
  %35 = mul nsw i64 %34, %33
  %36 = add nsw i64 %35, 3607772528640
  %37 = mul nsw i64 %36, %33
  %38 = ashr i64 %37, 36
  %39 = sub nsw i64 20643840, %38
  %40 = mul nsw i64 %39, %31
  %41 = lshr i64 %40, 16
  %42 = trunc i64 %41 to i32
  %43 = sdiv i32 %42, 315
  %44 = sext i32 %43 to i64
  ret i64 %44
}

; Function Attrs: mustprogress nofree nosync nounwind readnone uwtable willreturn
define dso_local i64 @w_cos_angle_u64(i64 noundef %0) local_unnamed_addr #1 {
  %2 = icmp slt i64 %0, 0
  br i1 %2, label %30, label %3, !prof !5

3:                                                ; preds = %1
  %4 = tail call { i64, i1 } @llvm.smul.with.overflow.i64(i64 %0, i64 205887) #10
  %5 = extractvalue { i64, i1 } %4, 1
  %6 = extractvalue { i64, i1 } %4, 0
  %7 = add i64 %6, -9223372036854775807
  %8 = icmp ult i64 %7, 3
  %9 = or i1 %5, %8
  br i1 %9, label %30, label %10, !prof !6

10:                                               ; preds = %3
  %11 = sdiv i64 %6, 180
  %12 = add nsw i64 %11, 102944
  %13 = add nsw i64 %11, -205887
  %14 = icmp ult i64 %13, -411774
  br i1 %14, label %15, label %25, !prof !6

15:                                               ; preds = %10
  %16 = srem i64 %12, 411774
  %17 = trunc i64 %16 to i32
  %18 = add nsw i32 %17, 102943
  %19 = srem i32 %18, 411774
  %20 = add nsw i32 %19, -102943
  %21 = sext i32 %20 to i64
  %22 = icmp slt i32 %19, 0
  br i1 %22, label %23, label %25, !prof !5

23:                                               ; preds = %15
  %24 = add nsw i64 %21, 411774
  br label %25

25:                                               ; preds = %23, %15, %10
  %26 = phi i64 [ %24, %23 ], [ %21, %15 ], [ %12, %10 ]
  %27 = icmp sgt i64 %26, 102943
  br i1 %27, label %28, label %30, !prof !5

28:                                               ; preds = %25
  %29 = sub nsw i64 205887, %26
  br label %30

30:                                               ; preds = %1, %3, %25, %28
  %31 = phi i64 [ %26, %25 ], [ %29, %28 ], [ -60516, %1 ], [ -60516, %3 ]
  %32 = mul nsw i64 %31, %31
  %33 = lshr i64 %32, 16
  %34 = add nsw i64 %33, -2752512
  %35 = mul nsw i64 %34, %33
  %36 = add nsw i64 %35, 3607772528640
  %37 = mul nsw i64 %36, %33
  %38 = ashr i64 %37, 36
  %39 = sub nsw i64 20643840, %38
  %40 = mul nsw i64 %39, %31
  %41 = lshr i64 %40, 16
  %42 = trunc i64 %41 to i32
  %43 = sdiv i32 %42, 315
  %44 = sext i32 %43 to i64
  ret i64 %44
}

; Function Attrs: mustprogress nofree nosync nounwind readnone uwtable willreturn
define dso_local i64 @w_tan_angle_u64(i64 noundef %0) local_unnamed_addr #1 {
  %2 = icmp slt i64 %0, 0
  br i1 %2, label %11, label %3, !prof !5

3:                                                ; preds = %1
  %4 = tail call { i64, i1 } @llvm.smul.with.overflow.i64(i64 %0, i64 205887) #10
  %5 = extractvalue { i64, i1 } %4, 1
  %6 = extractvalue { i64, i1 } %4, 0
  %7 = add i64 %6, -9223372036854775807
  %8 = icmp ult i64 %7, 3
  %9 = or i1 %5, %8
  br i1 %9, label %10, label %11, !prof !6

10:                                               ; preds = %3
  br label %11

11:                                               ; preds = %1, %3, %10
  %12 = phi i64 [ 9223372036854775807, %10 ], [ %6, %3 ], [ 9223372036854775807, %1 ]
  %13 = sdiv i64 %12, 180
  %14 = tail call i64 @_ZN9fixedmath3tanENS_7fixed_tE(i64 %13) #11
  ret i64 %14
}

; Function Attrs: mustprogress nofree nosync nounwind readnone uwtable willreturn
define dso_local i64 @w_fp_to_fixed_f64(double noundef %0) local_unnamed_addr #1 {
  %2 = fcmp olt double %0, 0x41DFFFFFFFC00000
  %3 = fcmp ogt double %0, 0xC1DFFFFFFFC00000
  %4 = and i1 %2, %3
  br i1 %4, label %5, label %10, !prof !8

5:                                                ; preds = %1
  %6 = fcmp olt double %0, 0.000000e+00
  %7 = select i1 %6, double -5.000000e-01, double 5.000000e-01
  %8 = tail call double @llvm.fmuladd.f64(double %0, double 6.553600e+04, double %7) #10
  %9 = fptosi double %8 to i64
  br label %10

10:                                               ; preds = %1, %5
  %11 = phi i64 [ %9, %5 ], [ 9223372036854775807, %1 ]
  ret i64 %11
}

; Function Attrs: mustprogress nofree nosync nounwind readnone uwtable willreturn
define dso_local i64 @w_fp_to_fixed_f32(float noundef %0) local_unnamed_addr #1 {
  %2 = fpext float %0 to double
  %3 = fcmp olt double %2, 0x41DFFFFFFFC00000
  %4 = fcmp ogt double %2, 0xC1DFFFFFFFC00000
  %5 = and i1 %3, %4
  br i1 %5, label %6, label %11, !prof !8

6:                                                ; preds = %1
  %7 = fcmp olt float %0, 0.000000e+00
  %8 = select i1 %7, float -5.000000e-01, float 5.000000e-01
  %9 = tail call float @llvm.fmuladd.f32(float %0, float 6.553600e+04, float %8) #10
  %10 = fptosi float %9 to i64
  br label %11

11:                                               ; preds = %1, %6
  %12 = phi i64 [ %10, %6 ], [ 9223372036854775807, %1 ]
  ret i64 %12
}

; Function Attrs: mustprogress nofree nosync nounwind readnone uwtable willreturn
define dso_local double @w_to_fp_f64(i64 noundef %0) local_unnamed_addr #1 {
  %2 = sitofp i64 %0 to double
  %3 = fmul double %2, 0x3EF0000000000000
  ret double %3
}

; Function Attrs: mustprogress nofree nosync nounwind readnone uwtable willreturn
define dso_local float @w_to_fp_f32(i64 noundef %0) local_unnamed_addr #1 {
  %2 = sitofp i64 %0 to float
  %3 = fmul float %2, 0x3EF0000000000000
  ret float %3
}

; Function Attrs: mustprogress nofree nosync nounwind readnone uwtable willreturn
define dso_local i64 @w_add_f(i64 noundef %0, float noundef %1) local_unnamed_addr #1 {
  %3 = fpext float %1 to double
  %4 = fcmp olt double %3, 0x41DFFFFFFFC00000
  %5 = fcmp ogt double %3, 0xC1DFFFFFFFC00000
  %6 = and i1 %4, %5
  br i1 %6, label %7, label %12, !prof !8

7:                                                ; preds = %2
  %8 = fcmp olt float %1, 0.000000e+00
  %9 = select i1 %8, float -5.000000e-01, float 5.000000e-01
  %10 = tail call float @llvm.fmuladd.f32(float %1, float 6.553600e+04, float %9) #10
  %11 = fptosi float %10 to i64
  br label %12

12:                                               ; preds = %7, %2
  %13 = phi i64 [ %11, %7 ], [ 9223372036854775807, %2 ]
  %14 = add i64 %13, %0
  %15 = icmp sgt i64 %14, -1
  br i1 %15, label %16, label %20, !prof !5

16:                                               ; preds = %12
  %17 = icmp slt i64 %0, 0
  %18 = icmp slt i64 %13, 0
  %19 = select i1 %17, i1 %18, i1 false
  br i1 %19, label %27, label %26, !prof !10

20:                                               ; preds = %12
  %21 = icmp sgt i64 %0, 0
  %22 = icmp sgt i64 %13, 0
  %23 = select i1 %21, i1 %22, i1 false
  br i1 %23, label %27, label %24, !prof !10

24:                                               ; preds = %20
  %25 = icmp eq i64 %14, -9223372036854775808
  br i1 %25, label %27, label %26, !prof !5

26:                                               ; preds = %24, %16
  br label %27

27:                                               ; preds = %16, %20, %24, %26
  %28 = phi i64 [ %14, %26 ], [ -9223372036854775807, %24 ], [ -9223372036854775807, %16 ], [ 9223372036854775807, %20 ]
  ret i64 %28
}

; Function Attrs: mustprogress nofree nosync nounwind readnone uwtable willreturn
define dso_local i64 @w_radd_f(i64 noundef %0, float noundef %1) local_unnamed_addr #1 {
  %3 = fpext float %1 to double
  %4 = fcmp olt double %3, 0x41DFFFFFFFC00000
  %5 = fcmp ogt double %3, 0xC1DFFFFFFFC00000
  %6 = and i1 %4, %5
  br i1 %6, label %7, label %12, !prof !8

7:                                                ; preds = %2
  %8 = fcmp olt float %1, 0.000000e+00
  %9 = select i1 %8, float -5.000000e-01, float 5.000000e-01
  %10 = tail call float @llvm.fmuladd.f32(float %1, float 6.553600e+04, float %9) #10
  %11 = fptosi float %10 to i64
  br label %12

12:                                               ; preds = %7, %2
  %13 = phi i64 [ %11, %7 ], [ 9223372036854775807, %2 ]
  %14 = add i64 %13, %0
  %15 = icmp sgt i64 %14, -1
  br i1 %15, label %16, label %19, !prof !5

16:                                               ; preds = %12
  %17 = and i64 %13, %0
  %18 = icmp slt i64 %17, 0
  br i1 %18, label %26, label %25, !prof !10

19:                                               ; preds = %12
  %20 = icmp sgt i64 %13, 0
  %21 = icmp sgt i64 %0, 0
  %22 = and i1 %21, %20
  br i1 %22, label %26, label %23, !prof !10

23:                                               ; preds = %19
  %24 = icmp eq i64 %14, -9223372036854775808
  br i1 %24, label %26, label %25, !prof !5

25:                                               ; preds = %23, %16
  br label %26

26:                                               ; preds = %16, %19, %23, %25
  %27 = phi i64 [ %14, %25 ], [ -9223372036854775807, %23 ], [ -9223372036854775807, %16 ], [ 9223372036854775807, %19 ]
  ret i64 %27
}

; Function Attrs: mustprogress nofree nosync nounwind readnone uwtable willreturn
define dso_local i64 @w_sub_f(i64 noundef %0, float noundef %1) local_unnamed_addr #1 {
  %3 = fpext float %1 to double
  %4 = fcmp olt double %3, 0x41DFFFFFFFC00000
  %5 = fcmp ogt double %3, 0xC1DFFFFFFFC00000
  %6 = and i1 %4, %5
  br i1 %6, label %7, label %12, !prof !8

7:                                                ; preds = %2
  %8 = fcmp olt float %1, 0.000000e+00
  %9 = select i1 %8, float -5.000000e-01, float 5.000000e-01
  %10 = tail call float @llvm.fmuladd.f32(float %1, float 6.553600e+04, float %9) #10
  %11 = fptosi float %10 to i64
  br label %12

12:                                               ; preds = %7, %2
  %13 = phi i64 [ %11, %7 ], [ 9223372036854775807, %2 ]
  %14 = sub i64 %0, %13
  %15 = icmp sgt i64 %14, -1
  br i1 %15, label %16, label %20, !prof !5

16:                                               ; preds = %12
  %17 = icmp slt i64 %0, 0
  %18 = icmp sgt i64 %13, 0
  %19 = select i1 %17, i1 %18, i1 false
  br i1 %19, label %27, label %26, !prof !10

20:                                               ; preds = %12
  %21 = icmp sgt i64 %0, 0
  %22 = icmp slt i64 %13, 0
  %23 = select i1 %21, i1 %22, i1 false
  br i1 %23, label %27, label %24, !prof !10

24:                                               ; preds = %20
  %25 = icmp eq i64 %14, -9223372036854775808
  br i1 %25, label %27, label %26, !prof !5

26:                                               ; preds = %24, %16
  br label %27

27:                                               ; preds = %16, %20, %24, %26
  %28 = phi i64 [ %14, %26 ], [ -9223372036854775807, %24 ], [ -9223372036854775807, %16 ], [ 9223372036854775807, %20 ]
  ret i64 %28
}

; Function Attrs: mustprogress nofree nosync nounwind readnone uwtable willreturn
define dso_local i64 @w_rsub_f(i64 noundef %0, float noundef %1) local_unnamed_addr #1 {
  %3 = fpext float %1 to double
  %4 = fcmp olt double %3, 0x41DFFFFFFFC00000
  %5 = fcmp ogt double %3, 0xC1DFFFFFFFC00000
  %6 = and i1 %4, %5
  br i1 %6, label %7, label %12, !prof !8

7:                                                ; preds = %2
  %8 = fcmp olt float %1, 0.000000e+00
  %9 = select i1 %8, float -5.000000e-01, float 5.000000e-01
  %10 = tail call float @llvm.fmuladd.f32(float %1, float 6.553600e+04, float %9) #10
  %11 = fptosi float %10 to i64
  br label %12

12:                                               ; preds = %7, %2
  %13 = phi i64 [ %11, %7 ], [ 9223372036854775807, %2 ]
  %14 = sub i64 %13, %0
  %15 = icmp sgt i64 %14, -1
  br i1 %15, label %16, label %20, !prof !5

16:                                               ; preds = %12
  %17 = icmp slt i64 %13, 0
  %18 = icmp sgt i64 %0, 0
  %19 = and i1 %18, %17
  br i1 %19, label %27, label %26, !prof !10

20:                                               ; preds = %12
  %21 = icmp sgt i64 %13, 0
  %22 = icmp slt i64 %0, 0
  %23 = and i1 %22, %21
  br i1 %23, label %27, label %24, !prof !10

24:                                               ; preds = %20
  %25 = icmp eq i64 %14, -9223372036854775808
  br i1 %25, label %27, label %26, !prof !5

26:                                               ; preds = %24, %16
  br label %27

27:                                               ; preds = %16, %20, %24, %26
  %28 = phi i64 [ %14, %26 ], [ -9223372036854775807, %24 ], [ -9223372036854775807, %16 ], [ 9223372036854775807, %20 ]
  ret i64 %28
}

; Function Attrs: mustprogress nofree nosync nounwind readnone uwtable willreturn
define dso_local i64 @w_mul_f(i64 noundef %0, float noundef %1) local_unnamed_addr #1 {
  %3 = fpext float %1 to double
  %4 = fcmp olt double %3, 0x41DFFFFFFFC00000
  %5 = fcmp ogt double %3, 0xC1DFFFFFFFC00000
  %6 = and i1 %4, %5
  br i1 %6, label %7, label %12, !prof !8

7:                                                ; preds = %2
  %8 = fcmp olt float %1, 0.000000e+00
  %9 = select i1 %8, float -5.000000e-01, float 5.000000e-01
  %10 = tail call float @llvm.fmuladd.f32(float %1, float 6.553600e+04, float %9) #10
  %11 = fptosi float %10 to i64
  br label %12

12:                                               ; preds = %2, %7
  %13 = phi i64 [ %11, %7 ], [ 9223372036854775807, %2 ]
  %14 = tail call { i64, i1 } @llvm.smul.with.overflow.i64(i64 %0, i64 %13) #10
  %15 = extractvalue { i64, i1 } %14, 1
  %16 = extractvalue { i64, i1 } %14, 0
  %17 = ashr i64 %16, 16
  %18 = select i1 %15, i64 9223372036854775807, i64 %17, !prof !5
  ret i64 %18
}

; Function Attrs: mustprogress nofree nosync nounwind readnone uwtable willreturn
define dso_local i64 @w_rmul_f(i64 noundef %0, float noundef %1) local_unnamed_addr #1 {
  %3 = fpext float %1 to double
  %4 = fcmp olt double %3, 0x41DFFFFFFFC00000
  %5 = fcmp ogt double %3, 0xC1DFFFFFFFC00000
  %6 = and i1 %4, %5
  br i1 %6, label %7, label %12, !prof !8

7:                                                ; preds = %2
  %8 = fcmp olt float %1, 0.000000e+00
  %9 = select i1 %8, float -5.000000e-01, float 5.000000e-01
  %10 = tail call float @llvm.fmuladd.f32(float %1, float 6.553600e+04, float %9) #10
  %11 = fptosi float %10 to i64
  br label %12

12:                                               ; preds = %2, %7
  %13 = phi i64 [ %11, %7 ], [ 9223372036854775807, %2 ]
  %14 = tail call { i64, i1 } @llvm.smul.with.overflow.i64(i64 %13, i64 %0) #10
  %15 = extractvalue { i64, i1 } %14, 1
  %16 = extractvalue { i64, i1 } %14, 0
  %17 = ashr i64 %16, 16
  %18 = select i1 %15, i64 9223372036854775807, i64 %17, !prof !5
  ret i64 %18
}

; Function Attrs: mustprogress nofree nosync nounwind readnone uwtable willreturn
define dso_local i64 @w_div_f(i64 noundef %0, float noundef %1) local_unnamed_addr #1 {
  %3 = fpext float %1 to double
  %4 = fcmp olt double %3, 0x41DFFFFFFFC00000
  %5 = fcmp ogt double %3, 0xC1DFFFFFFFC00000
  %6 = and i1 %4, %5
  br i1 %6, label %7, label %12, !prof !8

7:                                                ; preds = %2
  %8 = fcmp olt float %1, 0.000000e+00
  %9 = select i1 %8, float -5.000000e-01, float 5.000000e-01
  %10 = tail call float @llvm.fmuladd.f32(float %1, float 6.553600e+04, float %9) #10
  %11 = fptosi float %10 to i64
  br label %12

12:                                               ; preds = %7, %2
  %13 = phi i64 [ %11, %7 ], [ 9223372036854775807, %2 ]
  %14 = icmp ne i64 %13, 0
  %15 = add i64 %0, 140737488355327
  %16 = icmp ult i64 %15, 281474976710655
  %17 = and i1 %16, %14
  br i1 %17, label %18, label %24, !prof !8

18:                                               ; preds = %12
  %19 = shl nsw i64 %0, 16
  %20 = and i64 %19, 9223372036854710272
  %21 = and i64 %0, -9223372036854775808
  %22 = or i64 %20, %21
  %23 = sdiv i64 %22, %13
  br label %24

24:                                               ; preds = %12, %18
  %25 = phi i64 [ %23, %18 ], [ 9223372036854775807, %12 ]
  ret i64 %25
}

; Function Attrs: mustprogress nofree nosync nounwind readnone uwtable willreturn
define dso_local i64 @w_rdiv_f(i64 noundef %0, float noundef %1) local_unnamed_addr #1 {
  %3 = fpext float %1 to double
  %4 = fcmp olt double %3, 0x41DFFFFFFFC00000
  %5 = fcmp ogt double %3, 0xC1DFFFFFFFC00000
  %6 = and i1 %4, %5
  br i1 %6, label %7, label %22, !prof !8

7:                                                ; preds = %2
  %8 = fcmp olt float %1, 0.000000e+00
  %9 = select i1 %8, float -5.000000e-01, float 5.000000e-01
  %10 = tail call float @llvm.fmuladd.f32(float %1, float 6.553600e+04, float %9) #10
  %11 = fptosi float %10 to i64
  %12 = icmp ne i64 %0, 0
  %13 = add i64 %11, 140737488355327
  %14 = icmp ult i64 %13, 281474976710655
  %15 = select i1 %12, i1 %14, i1 false
  br i1 %15, label %16, label %22, !prof !8

16:                                               ; preds = %7
  %17 = shl nsw i64 %11, 16
  %18 = and i64 %17, 9223372036854710272
  %19 = and i64 %11, -9223372036854775808
  %20 = or i64 %18, %19
  %21 = sdiv i64 %20, %0
  br label %22

22:                                               ; preds = %2, %7, %16
  %23 = phi i64 [ %21, %16 ], [ 9223372036854775807, %7 ], [ 9223372036854775807, %2 ]
  ret i64 %23
}

; Function Attrs: mustprogress nofree norecurse nosync nounwind readnone uwtable willreturn
define dso_local double @w_add_d(i64 noundef %0, double noundef %1) local_unnamed_addr #0 {
  %3 = sitofp i64 %0 to double
  %4 = fmul double %3, 0x3EF0000000000000
  %5 = fadd double %4, %1
  ret double %5
}

; Function Attrs: mustprogress nofree norecurse nosync nounwind readnone uwtable willreturn
define dso_local double @w_sub_d(i64 noundef %0, double noundef %1) local_unnamed_addr #0 {
  %3 = sitofp i64 %0 to double
  %4 = fmul double %3, 0x3EF0000000000000
  %5 = fsub double %4, %1
  ret double %5
}

; Function Attrs: mustprogress nofree norecurse nosync nounwind readnone uwtable willreturn
define dso_local double @w_mul_d(i64 noundef %0, double noundef %1) local_unnamed_addr #0 {
  %3 = sitofp i64 %0 to double
  %4 = fmul double %3, 0x3EF0000000000000
  %5 = fmul double %4, %1
  ret double %5
}

; Function Attrs: mustprogress nofree norecurse nosync nounwind readnone uwtable willreturn
define dso_local double @w_div_d(i64 noundef %0, double noundef %1) local_unnamed_addr #0 {
  %3 = sitofp i64 %0 to double
  %4 = fmul double %3, 0x3EF0000000000000
  %5 = fdiv double %4, %1
  ret double %5
}

declare i32 @__gxx_personality_v0(...)

; Function Attrs: mustprogress nofree nosync nounwind readnone speculatable willreturn
declare double @llvm.fmuladd.f64(double, double, double) #7

; Function Attrs: mustprogress nofree nounwind willreturn writeonly
declare double @sqrt(double noundef) local_unnamed_addr #8

; Function Attrs: mustprogress nofree nosync nounwind readnone speculatable willreturn
declare { i64, i1 } @llvm.smul.with.overflow.i64(i64, i64) #7

; Function Attrs: mustprogress nofree nosync nounwind readnone speculatable willreturn
declare i64 @llvm.ctlz.i64(i64, i1 immarg) #7

; Function Attrs: mustprogress nofree nosync nounwind readnone speculatable willreturn
declare float @llvm.fmuladd.f32(float, float, float) #7

; Function Attrs: nofree nosync nounwind readnone speculatable willreturn
declare i64 @llvm.abs.i64(i64, i1 immarg) #9

attributes #0 = { mustprogress nofree norecurse nosync nounwind readnone uwtable willreturn "frame-pointer"="none" "min-legal-vector-width"="0" "no-trapping-math"="true" "stack-protector-buffer-size"="8" "target-cpu"="x86-64" "target-features"="+cx8,+fxsr,+mmx,+sse,+sse2,+x87" "tune-cpu"="generic" }
attributes #1 = { mustprogress nofree nosync nounwind readnone uwtable willreturn "frame-pointer"="none" "min-legal-vector-width"="0" "no-trapping-math"="true" "stack-protector-buffer-size"="8" "target-cpu"="x86-64" "target-features"="+cx8,+fxsr,+mmx,+sse,+sse2,+x87" "tune-cpu"="generic" }
attributes #2 = { mustprogress nofree nounwind uwtable willreturn writeonly "frame-pointer"="none" "min-legal-vector-width"="0" "no-trapping-math"="true" "stack-protector-buffer-size"="8" "target-cpu"="x86-64" "target-features"="+cx8,+fxsr,+mmx,+sse,+sse2,+x87" "tune-cpu"="generic" }
attributes #3 = { nounwind uwtable "frame-pointer"="none" "min-legal-vector-width"="0" "no-trapping-math"="true" "stack-protector-buffer-size"="8" "target-cpu"="x86-64" "target-features"="+cx8,+fxsr,+mmx,+sse,+sse2,+x87" "tune-cpu"="generic" }
attributes #4 = { nounwind "frame-pointer"="none" "no-trapping-math"="true" "stack-protector-buffer-size"="8" "target-cpu"="x86-64" "target-features"="+cx8,+fxsr,+mmx,+sse,+sse2,+x87" "tune-cpu"="generic" }
attributes #5 = { mustprogress nofree nosync nounwind readonly uwtable willreturn "frame-pointer"="none" "min-legal-vector-width"="0" "no-trapping-math"="true" "stack-protector-buffer-size"="8" "target-cpu"="x86-64" "target-features"="+cx8,+fxsr,+mmx,+sse,+sse2,+x87" "tune-cpu"="generic" }
attributes #6 = { inlinehint mustprogress nofree nosync nounwind readnone uwtable willreturn "frame-pointer"="none" "min-legal-vector-width"="0" "no-trapping-math"="true" "stack-protector-buffer-size"="8" "target-cpu"="x86-64" "target-features"="+cx8,+fxsr,+mmx,+sse,+sse2,+x87" "tune-cpu"="generic" }
attributes #7 = { mustprogress nofree nosync nounwind readnone speculatable willreturn }
attributes #8 = { mustprogress nofree nounwind willreturn writeonly "frame-pointer"="none" "no-trapping-math"="true" "stack-protector-buffer-size"="8" "target-cpu"="x86-64" "target-features"="+cx8,+fxsr,+mmx,+sse,+sse2,+x87" "tune-cpu"="generic" }
attributes #9 = { nofree nosync nounwind readnone speculatable willreturn }
attributes #10 = { nounwind }
attributes #11 = { nounwind readnone willreturn }

!llvm.module.flags = !{!0, !1, !2, !3}
!llvm.ident = !{!4}

!0 = !{i32 1, !"wchar_size", i32 4}
!1 = !{i32 7, !"PIC Level", i32 2}
!2 = !{i32 7, !"PIE Level", i32 2}
!3 = !{i32 7, !"uwtable", i32 1}
!4 = !{!"Debian clang version 14.0.6"}
!5 = !{!"branch_weights", i32 1, i32 2000}
!6 = !{!"branch_weights", i32 4001, i32 4000000}
!7 = !{!"branch_weights", i32 2000, i32 8006002}
!8 = !{!"branch_weights", i32 4000000, i32 4001}
!9 = !{!"branch_weights", i32 2000, i32 1}
!10 = !{!"branch_weights", i32 1, i32 4001}
!11 = !{i64 0, i64 65}

#!/usr/local/bin/python3-vt
"""validate MANIFEST.json and evidence/*.json against the schemas (uses the tooling venv's jsonschema)"""
import json, sys, os, glob
import jsonschema
V = os.path.dirname(os.path.dirname(os.path.abspath(__file__)))
jsonschema.validate(json.load(open(V + "/MANIFEST.json")), json.load(open("/root/.vp/MANIFEST.schema.json")))
es = json.load(open("/root/.vp/EVIDENCE.schema.json"))
claimed = {c["property_id"] for c in json.load(open(V + "/MANIFEST.json"))["checks"]}
for f in sorted(glob.glob(V + "/evidence/*.json")):
    if os.path.basename(f)[:-5] not in claimed: continue
    jsonschema.validate(json.load(open(f)), es)
    print("ok", os.path.basename(f))
print("manifest ok")

#!/bin/sh
# Offline setup: regenerate data from /repo, build the Lean library (model, proofs, kernel
# enumerations), the native model driver, and warm the harness cache for the quick tier.
set -e
cd "$(dirname "$0")/.."
python3 tools/gen_consts.py > /dev/null
(cd lean && lake build)
python3 - <<'PY'
import sys, os
sys.path.insert(0, "tools")
import fmlib
for v in (fmlib.V_DEFAULT, fmlib.V_CLANG20, fmlib.V_SAN, fmlib.V_ABACUS):
    fmlib.build_harness(v)
fmlib.build_driver()
print("setup ok")
PY

#!/usr/bin/env python3
"""fingerprint.py [--write]: normalised content hashes (comments and white space removed) of every library source file.
`--write` records them in /verif/baseline_source.json (done once, on the tree the model was written for).  tools/check.py
compares the current tree with that record: a difference is NOT an alarm - a harmless rewrite changes it too - it only
raises the search effort (more soak rounds), because a changed function is where the hand-written model can have
stopped corresponding."""
import os, re, sys, json, hashlib
V = os.path.dirname(os.path.dirname(os.path.abspath(__file__)))
ROOT = "/repo/fixed_lib"
def norm(text):
    text = re.sub(r"/\*.*?\*/", " ", text, flags=re.S)
    text = re.sub(r"//[^\n]*", " ", text)
    return re.sub(r"\s+", "", text)
def current():
    out = {}
    for sub in ("include", "src"):
        for d, _, fs in os.walk(os.path.join(ROOT, sub)):
            if "unittests" in d: continue
            for f in sorted(fs):
                if f.endswith((".h", ".hpp", ".cc")):
                    p = os.path.join(d, f)
                    out[os.path.relpath(p, ROOT)] = hashlib.sha256(norm(open(p, errors="replace").read()).encode()).hexdigest()[:16]
    return out
def changed():
    bp = os.path.join(V, "baseline_source.json")
    if not os.path.exists(bp): return None
    base, cur = json.load(open(bp)), current()
    return sorted(k for k in set(base) | set(cur) if base.get(k) != cur.get(k))
if __name__ == "__main__":
    if "--write" in sys.argv:
        json.dump(current(), open(os.path.join(V, "baseline_source.json"), "w"), indent=1, sort_keys=True)
    print(json.dumps({"changed": changed()}, indent=1))

"""Shared machinery for the fixed_math checks: build cache, harness/driver execution, correspondence
diff, UB leg, Lean build + axiom audit, evidence and replay files."""
import os, sys, subprocess, hashlib, json, time, fcntl, random, re, shutil, contextlib

HERE = os.path.dirname(os.path.abspath(__file__))
VERIF = os.path.dirname(HERE)
REPO = os.environ.get("VERIF_REPO", "/repo")
INC = os.path.join(REPO, "fixed_lib", "include")
SRC = os.path.join(REPO, "fixed_lib", "src")
LEAN = os.path.join(VERIF, "lean")
CACHE = os.path.join(VERIF, ".cache")
HARNESS = os.path.join(VERIF, "harness")
EVID = os.path.join(VERIF, "evidence")
if os.environ.get("VERIF_EVIDENCE_DIR"): EVID = os.environ["VERIF_EVIDENCE_DIR"]      # seeded-change runs (tools/seed_*.py) must not overwrite the evidence of the unchanged tree
REPLAY = os.path.join(VERIF, "replay")
NCPU = os.cpu_count() or 4

F = 2**63 - 2
NANP = 2**63 - 1
I64MIN = -2**63
I64MAX = 2**63 - 1

def log(*a):
    print(*a, file=sys.stderr, flush=True)

@contextlib.contextmanager
def locked(name):
    os.makedirs(CACHE, exist_ok=True)
    fd = open(os.path.join(CACHE, name + ".lock"), "w")
    try:
        fcntl.flock(fd, fcntl.LOCK_EX)
        yield
    finally:
        fcntl.flock(fd, fcntl.LOCK_UN)
        fd.close()

def repo_files():
    out = []
    for root in (INC, SRC):
        for d, _, fs in os.walk(root):
            for f in sorted(fs):
                out.append(os.path.join(d, f))
    return sorted(out)

_repo_hash = None
def repo_hash():
    """content hash of every file under /repo/fixed_lib/{include,src} plus the harness sources"""
    global _repo_hash
    if _repo_hash is None:
        h = hashlib.sha256()
        for p in repo_files() + sorted(os.path.join(HARNESS, f) for f in os.listdir(HARNESS)):
            h.update(p.encode()); h.update(b"\0")
            with open(p, "rb") as fh: h.update(fh.read())
        _repo_hash = h.hexdigest()[:20]
    return _repo_hash

# ---------------------------------------------------------------------------------------------
# harness builds

class Variant:
    def __init__(self, cxx="g++", std="c++17", opt="-O2", abacus=False, san=False, extra=(), label=""):
        self.cxx, self.std, self.opt, self.abacus, self.san = cxx, std, opt, abacus, san
        self.extra, self.label = tuple(extra), label
        self.probed_backend = None
    @property
    def name(self):
        return "%s_%s_%s%s%s%s" % (self.cxx.replace("+", "p"), self.std.replace("+", "p"), self.opt.strip("-"),
                                 "_abacus" if self.abacus else "", "_san" if self.san else "", ("_" + self.label) if self.label else "")
    @property
    def backend(self):
        """which sqrt algorithm `sqrt()` uses at run time in this build: probed on the built harness (build_harness),
        because it is decided by the toolchain as much as by the flags - clang++-14 -std=c++2b with libstdc++ 12
        answers std::is_constant_evaluated() with true at run time and therefore runs the abacus algorithm"""
        if self.probed_backend: return self.probed_backend
        return "ab" if (self.abacus and self.std == "c++17") else "std"
    def flags(self):
        f = ["-std=" + self.std, self.opt, "-w", "-I", INC] + list(self.extra)
        if self.abacus: f.append("-DFIXEDMATH_ENABLE_SQRT_ABACUS_ALGO")
        if self.san:
            f += ["-g", "-fsanitize=undefined,address,float-cast-overflow", "-fno-sanitize-recover=all", "-D_GLIBCXX_ASSERTIONS",
                  "-fno-omit-frame-pointer"]
        return f

V_DEFAULT = Variant(extra=("-funsigned-char",))      # plain char unsigned as on ARM/PowerPC Linux; the clang c++20, size, sanitizer and abacus legs keep it signed
V_ABACUS = Variant(abacus=True, opt="-Os")      # abacus algorithm at run time, size-optimised
V_CLANG20 = Variant(cxx="clang++-14", std="c++20")
# a release-like configuration: newest standard, highest level, assertions off, plain char unsigned
V_REL = Variant(cxx="clang++-14", std="c++2b", opt="-O3", extra=("-DNDEBUG", "-funsigned-char"), label="rel")
# size-optimised build in the GNU dialect of C++20: __OPTIMIZE_SIZE__, no __STRICT_ANSI__, g++'s C++20 run-time paths
V_SIZE = Variant(cxx="g++", std="gnu++20", opt="-Os", label="size")
V_SAN = Variant(opt="-Os", san=True)         # -Os defines __OPTIMIZE__ and __OPTIMIZE_SIZE__; thorough adds -O1 sanitizer builds
V_SAN_ABACUS = Variant(opt="-O1", san=True, abacus=True)
V_SAN_O1 = Variant(opt="-O1", san=True)

def cache_dir():
    d = os.path.join(CACHE, repo_hash())
    os.makedirs(d, exist_ok=True)
    return d

def prune_cache(keep=3):
    """keep only the most recent few per-tree cache directories"""
    try:
        ds = [os.path.join(CACHE, d) for d in os.listdir(CACHE) if os.path.isdir(os.path.join(CACHE, d)) and len(d) == 20]
        ds.sort(key=os.path.getmtime, reverse=True)
        for d in ds[keep:]:
            shutil.rmtree(d, ignore_errors=True)
    except OSError:
        pass

class BuildError(Exception):
    pass

def build_harness(v):
    """returns (exe_path, info dict). Rebuilt whenever any file under /repo/fixed_lib changes."""
    d = cache_dir()
    exe = os.path.join(d, "harness_" + v.name)
    info_p = exe + ".json"
    with locked("build_" + v.name):
        if os.path.exists(exe) and os.path.exists(info_p):
            info = json.load(open(info_p))
            v.probed_backend = info.get("backend")
            return exe, info
        srcs = [os.path.join(HARNESS, "harness.cc"), os.path.join(HARNESS, "harness_detail.cc"), os.path.join(SRC, "fixed_math.cc")]
        info = {"variant": v.name, "detail": True}
        cmd = [v.cxx] + v.flags() + srcs + ["-o", exe + ".tmp"]
        t0 = time.time()
        r = subprocess.run(cmd, capture_output=True, text=True)
        if r.returncode != 0:
            # internals may have been renamed: retry without the detail wrappers
            r2 = subprocess.run([v.cxx] + v.flags() + ["-DFM_NO_DETAIL"] + srcs + ["-o", exe + ".tmp"], capture_output=True, text=True)
            if r2.returncode != 0:
                raise BuildError("harness does not build (%s):\n%s" % (v.name, (r.stderr or "")[-3000:]))
            info["detail"] = False
            info["detail_error"] = r.stderr[-1500:]
        info["build_s"] = round(time.time() - t0, 2)
        os.replace(exe + ".tmp", exe)
        # which square-root algorithm does sqrt() select at run time in this build?
        try:
            pr = subprocess.run([exe], input="sqrt_backend\n", capture_output=True, text=True, timeout=60)
            if pr.stdout.strip() == "ok 1": info["backend"] = "ab"
            elif pr.stdout.strip() == "ok 0": info["backend"] = "std"
        except (subprocess.SubprocessError, OSError):
            pass
        v.probed_backend = info.get("backend")
        json.dump(info, open(info_p, "w"))
        return exe, info

def build_soakgen():
    """the native operation generator of the soak stage (independent of /repo)"""
    os.makedirs(CACHE, exist_ok=True)
    src = os.path.join(os.path.dirname(os.path.abspath(__file__)), "soakgen.cc")
    h = hashlib.sha256(open(src, "rb").read()).hexdigest()[:12]
    exe = os.path.join(CACHE, "soakgen_" + h)
    with locked("soakgen"):
        if not os.path.exists(exe):
            r = subprocess.run(["g++", "-O2", "-std=c++17", "-w", src, "-o", exe + ".tmp"], capture_output=True, text=True)
            if r.returncode != 0: raise BuildError("soakgen does not build:\n" + r.stderr[-2000:])
            os.replace(exe + ".tmp", exe)
    return exe

_driver = None
def build_driver():
    """the Lean model driver (native executable); lake rebuilds it when the model or generated data change"""
    global _driver
    if _driver: return _driver
    with locked("lake"):
        r = subprocess.run(["lake", "build", "fmdriver"], cwd=LEAN, capture_output=True, text=True)
        if r.returncode != 0:
            raise BuildError("lake build fmdriver failed:\n" + (r.stdout + r.stderr)[-3000:])
    _driver = os.path.join(LEAN, ".lake", "build", "bin", "fmdriver")
    return _driver

def run_lines(exe, lines, env=None, timeout=3600):
    """feed op lines to an executable; returns list of output lines"""
    data = ("\n".join(lines) + "\n").encode()
    e = dict(os.environ)
    if env: e.update(env)
    r = subprocess.run([exe], input=data, capture_output=True, env=e, timeout=timeout)
    return r.stdout.decode(errors="replace").splitlines(), r.returncode, r.stderr.decode(errors="replace")

def run_parallel(exe, lines, jobs=None, env=None):
    """split the op list into chunks and run them concurrently (outputs concatenated in order)"""
    jobs = jobs or NCPU
    n = len(lines)
    if n < 20000 or jobs <= 1:
        return run_lines(exe, lines, env)
    import concurrent.futures as cf
    k = (n + jobs - 1) // jobs
    chunks = [lines[i:i + k] for i in range(0, n, k)]
    outs, rc, err = [], 0, ""
    with cf.ThreadPoolExecutor(max_workers=jobs) as ex:
        for o, c, e in ex.map(lambda ch: run_lines(exe, ch, env), chunks):
            outs.append(o); rc = rc or c; err += e
    flat = []
    for i, o in enumerate(outs):
        if len(o) != len(chunks[i]):
            # a chunk died: pad so positions stay aligned
            o = o + ["crash"] * (len(chunks[i]) - len(o))
        flat += o
    return flat, rc, err

def run_ub_leg(exe, lines, max_reports=5):
    """UB leg: run the sanitizer build; on abort identify the input (first line without output),
    record the sanitizer report and continue after it. Returns (outputs, reports)."""
    outputs, reports = [], []
    pos = 0
    env = {"HARNESS_FLUSH": "1", "UBSAN_OPTIONS": "print_stacktrace=0", "ASAN_OPTIONS": "detect_leaks=0"}
    while pos < len(lines):
        o, rc, err = run_lines(exe, lines[pos:], env)
        outputs += o
        if rc == 0 and len(o) == len(lines) - pos:
            break
        bad = pos + len(o)
        if bad >= len(lines):
            break
        msg = [l for l in err.splitlines() if "runtime error" in l or "ERROR" in l or "Assertion" in l or "SUMMARY" in l][:4]
        reports.append({"input": lines[bad], "exit": rc, "report": msg or err.splitlines()[-3:]})
        outputs.append("abort")
        pos = bad + 1
        if len(reports) >= max_reports:
            outputs += ["unknown"] * (len(lines) - pos)
            break
    return outputs, reports

# ---------------------------------------------------------------------------------------------
# Lean side

def lake_build(targets):
    with locked("lake"):
        t0 = time.time()
        r = subprocess.run(["lake", "build"] + targets, cwd=LEAN, capture_output=True, text=True)
        return r.returncode == 0, (r.stdout + r.stderr), round(time.time() - t0, 1)

FORBIDDEN = re.compile(r"\bsorry\b|\badmit\b|^\s*axiom\s|native_decide|bv_decide|implemented_by|\bunsafe\s|maxHeartbeats\s+0\b|ofReduceBool|trustCompiler", re.M)

def strip_lean_comments(s):
    out, i, depth = [], 0, 0
    while i < len(s):
        if s.startswith("/-", i): depth += 1; i += 2; continue
        if depth and s.startswith("-/", i): depth -= 1; i += 2; continue
        if depth: i += 1; continue
        if s.startswith("--", i):
            j = s.find("\n", i); i = len(s) if j < 0 else j; continue
        out.append(s[i]); i += 1
    return "".join(out)

def audit_sources():
    """grep every Lean source of the project for forbidden constructs (comments stripped)"""
    hits = []
    for d, _, fs in os.walk(os.path.join(LEAN, "FixedMath")):
        for f in fs:
            if f.endswith(".lean"):
                p = os.path.join(d, f)
                s = strip_lean_comments(open(p).read())
                for m in FORBIDDEN.finditer(s):
                    hits.append("%s: %s" % (os.path.relpath(p, LEAN), m.group(0).strip()))
    return hits

ALLOWED_AXIOMS = {"propext", "Classical.choice", "Quot.sound"}

def print_axioms(module, theorems):
    """returns dict theorem -> list of axioms, via `#print axioms` in a scratch file"""
    src = "import %s\n" % module + "".join("#print axioms %s\n" % t for t in theorems)
    os.makedirs(CACHE, exist_ok=True)
    p = os.path.join(CACHE, "axioms_%s_%d.lean" % (module.replace(".", "_"), os.getpid()))
    open(p, "w").write(src)
    try:
        with locked("lake"):
            r = subprocess.run(["lake", "env", "lean", p], cwd=LEAN, capture_output=True, text=True)
    finally:
        os.remove(p)
    res, text = {}, r.stdout + r.stderr
    for m in re.finditer(r"'([^']+)' (?:depends on axioms: \[([^\]]*)\]|does not depend on any axioms)", text):
        res[m.group(1)] = [a.strip() for a in (m.group(2) or "").replace("\n", " ").split(",") if a.strip()]
    return res, text

def list_theorems(spec_file):
    s = strip_lean_comments(open(spec_file).read())
    return re.findall(r"^\s*theorem\s+([A-Za-z0-9_.']+)", s, flags=re.M)

# ---------------------------------------------------------------------------------------------
# evidence / replay

def write_json(path, obj):
    os.makedirs(os.path.dirname(path), exist_ok=True)
    tmp = path + ".tmp%d" % os.getpid()
    with open(tmp, "w") as fh:
        json.dump(obj, fh, indent=1, default=str)
    os.replace(tmp, path)

def write_replay(pid, payload):
    os.makedirs(REPLAY, exist_ok=True)
    h = hashlib.sha256(json.dumps(payload, sort_keys=True, default=str).encode()).hexdigest()[:12]
    p = os.path.join(REPLAY, "%s-%s.json" % (pid, h))
    write_json(p, payload)
    return p

#!/usr/bin/env python3
"""seed_regress.py [ids...]: apply every seeded change of /verif/seeded to /repo (git apply; undone afterwards), run the
quick check of its target property, and record the verdict in seeded/REGRESSION.json.  /repo must be clean."""
import sys, os, subprocess, json, time
V = os.path.dirname(os.path.dirname(os.path.abspath(__file__)))
os.environ["VERIF_EVIDENCE_DIR"] = "/tmp/fm_evidence_seeded"
def sh(cmd, **kw): return subprocess.run(cmd, shell=True, capture_output=True, text=True, **kw)
def main():
    assert sh("git -C /repo status --porcelain --untracked-files=no").stdout.strip() == "", "/repo dirty"
    ids = sys.argv[1:] or sorted(d for d in os.listdir(os.path.join(V, "seeded")) if os.path.isdir(os.path.join(V, "seeded", d)))
    out = {}
    for sid in ids:
        pid = sid.split("-")[0]
        patch = os.path.join(V, "seeded", sid, "patch.diff")
        t0 = time.time()
        try:
            if sh("git -C /repo apply %s" % patch).returncode != 0:
                out[sid] = {"apply": "failed"}; continue
            r = sh("python3 tools/check.py %s --tier quick" % pid, cwd=V)
            line = [l for l in r.stdout.splitlines() if l.startswith("VIOLATION") or l.startswith("OK")]
            out[sid] = {"property": pid, "exit": r.returncode, "line": line[-1] if line else (r.stdout + r.stderr)[-300:], "wall_s": round(time.time() - t0, 1)}
        finally:
            sh("git -C /repo checkout -- .")
        print(sid, out[sid], flush=True)
    rp = os.path.join(V, "seeded", "REGRESSION.json")
    allr = json.load(open(rp)) if os.path.exists(rp) and sys.argv[1:] else {}
    allr.update(out)
    json.dump(allr, open(rp, "w"), indent=1)
    missed = [s for s, d in out.items() if d.get("exit") != 1]
    print("seeds: %d, reported: %d, missed: %s" % (len(out), len(out) - len(missed), missed))
if __name__ == "__main__":
    main()

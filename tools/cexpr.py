"""Constant-evaluation leg (C08): turn op lines + model results into a translation unit of static_asserts
and compile it (not run) under several compilers / standards.  A model `ok v` must compile;
a failing assertion or a non-constant expression is reported with the offending op line."""
import os, re, subprocess, tempfile, shutil
import fmlib

CTYPE = {"i8": "int8_t", "i16": "int16_t", "i32": "int32_t", "i64": "int64_t", "u8": "uint8_t", "u16": "uint16_t", "u32": "uint32_t", "u64": "uint64_t"}

def lit(v):
    if v == -2**63: return "(-9223372036854775807LL-1)"
    if v > 2**63 - 1: return "%dULL" % v
    return "%dLL" % v
def X(v): return "as_fixed(%s)" % lit(v)
def T(t, v): return "%s(%s)" % (CTYPE[t], lit(v))

BIN = {"add": "+", "sub": "-", "mul": "*", "div": "/", "band": "&"}
CMP = {"lt": "<", "le": "<=", "gt": ">", "ge": ">=", "eq": "==", "ne": "!="}
CEQ = {"addeq": "+=", "subeq": "-=", "muleq": "*=", "diveq": "/="}
UN = {"neg": "(-%s).v", "abs": "abs(%s).v", "isnan": "isnan(%s)", "ceil": "ceil(%s).v", "floor": "floor(%s).v", "sin": "sin(%s).v",
      "cos": "cos(%s).v", "tan": "tan(%s).v", "atan": "atan(%s).v", "sqrt_abacus": "detail::sqrt_abacus(%s).v"}
SQRT_UN = {"sqrt": "sqrt(%s).v", "asin": "asin(%s).v", "acos": "acos(%s).v"}
ISC = {"mul_s": "(%s * %s).v", "div_s": "(%s / %s).v", "add_i": "(%s + %s).v", "sub_i": "(%s - %s).v"}
ISC_R = {"rmul_s": "(%s * %s).v", "radd_i": "(%s + %s).v", "rsub_i": "(%s - %s).v", "rdiv_i": "(%s / %s).v"}
ISC_EQ = {"muleq_s": "*=", "diveq_s": "/=", "addeq_i": "+=", "subeq_i": "-="}

def expr(fn, tag, a, needs_sqrt):
    """C++ constant expression for an op line, or None when the entry point is not declared constexpr"""
    if tag == "":
        if fn in UN and len(a) == 1: return UN[fn] % X(a[0])
        if fn in BIN and len(a) == 2: return "(%s %s %s).v" % (X(a[0]), BIN[fn], X(a[1]))
        if fn in CMP and len(a) == 2: return "(%s %s %s)" % (X(a[0]), CMP[fn], X(a[1]))
        if fn in CEQ and len(a) == 2: return "ce_assign<'%s'>(%s, %s).v" % (CEQ[fn][0], X(a[0]), X(a[1]))
        if fn == "atan2": return "atan2(%s, %s).v" % (X(a[0]), X(a[1]))
        if fn in ("shr", "shl") and -2**31 <= a[1] < 2**31: return "(%s %s int(%s)).v" % (X(a[0]), ">>" if fn == "shr" else "<<", lit(a[1]))
        if fn == "roundtrip_d": return "fixed_t{static_cast<double>(%s)}.v" % X(a[0])
        return None
    if tag == "dflt":
        if fn in SQRT_UN: needs_sqrt.append(1); return SQRT_UN[fn] % X(a[0])
        if fn == "hypot": needs_sqrt.append(1); return "hypot(%s, %s).v" % (X(a[0]), X(a[1]))
        return None
    if tag in CTYPE:
        if fn == "to_fixed": return "fixed_t{%s}.v" % T(tag, a[0])
        if fn == "from_fixed": return "static_cast<long long>(static_cast<%s>(%s))" % (CTYPE[tag], X(a[0])) if tag != "u64" else None
        if fn == "a2r": return "angle_to_radians(%s).v" % T(tag, a[0])
        if fn in ISC: return ISC[fn] % (X(a[0]), T(tag, a[1]))
        if fn in ISC_R: return ISC_R[fn] % (T(tag, a[1]), X(a[0]))
        if fn in ISC_EQ: return "ce_assign<'%s'>(%s, %s).v" % (ISC_EQ[fn][0], X(a[0]), T(tag, a[1]))
        if fn in ("sin_angle", "cos_angle", "tan_angle"): return "%s(%s).v" % (fn, T(tag, a[0]))
        return None
    if tag == "fx" and fn in ("sin_angle", "cos_angle", "tan_angle"): return "%s(%s).v" % (fn, X(a[0]))
    if tag == "f64" and fn == "fp_to_fixed": return "fixed_t{cxx20::bit_cast<double>(uint64_t(%s))}.v" % lit(a[0])
    if tag == "f32" and fn == "fp_to_fixed": return "fixed_t{cxx20::bit_cast<float>(uint32_t(%s))}.v" % lit(a[0])
    if tag == "f64" and fn == "to_fp": return "(long long)cxx20::bit_cast<uint64_t>(static_cast<double>(%s))" % X(a[0])
    return None

HEADER = r'''
#include <fixedmath/fixed_math.hpp>
using namespace fixedmath;
template<char op, typename R> constexpr fixed_t ce_assign(fixed_t l, R r) noexcept
  { if constexpr(op=='+') l += r; else if constexpr(op=='-') l -= r; else if constexpr(op=='*') l *= r; else l /= r; return l; }
'''

CONFIGS_QUICK = [("g++", "c++20", False), ("clang++-14", "c++20", False), ("g++", "c++17", True), ("clang++-14", "c++17", True)]
CONFIGS_THOROUGH = CONFIGS_QUICK + [("g++", "c++2b", False), ("clang++-14", "c++2b", False), ("g++", "c++17", False), ("clang++-14", "c++17", False)]

def run(lines, model_ab, parse_line, tier, limit, priority=(), configs=None):
    """returns (stats, failures) ; failures: list of dict(input, config, error)"""
    items = []
    for line, mo in zip(lines, model_ab):
        if not mo.startswith("ok ") or mo == "ok nan": continue
        fn, tag, a = parse_line(line)
        ns = []
        e = expr(fn, tag, a, ns)
        if e is None: continue
        items.append((line, e, int(mo[3:]), bool(ns)))
    # spread the selection over all functions
    by_fn = {}
    for it in items: by_fn.setdefault(it[0].split()[0], []).append(it)
    # inputs on which some run-time leg disagreed with the model come first
    prio = {l: i for i, l in reversed(list(enumerate(priority)))}
    sel = sorted((it for it in items if it[0] in prio), key=lambda it: prio[it[0]])[:max(50, limit // 2)]
    chosen = set(it[0] for it in sel)
    for k in by_fn: by_fn[k] = [it for it in by_fn[k] if it[0] not in chosen]
    while len(sel) < limit and by_fn:
        for k in list(by_fn):
            if by_fn[k]: sel.append(by_fn[k].pop(0))
            else: del by_fn[k]
            if len(sel) >= limit: break
    failures, stats = [], []
    d = tempfile.mkdtemp(prefix="fmce")
    try:
        for cxx, std, abacus in (configs or (CONFIGS_QUICK if tier == "quick" else CONFIGS_THOROUGH)):
            sqrt_ok = abacus or std != "c++17"
            use = [it for it in sel if sqrt_ok or not it[3]]
            src = os.path.join(d, "ce.cc")
            with open(src, "w") as fh:
                fh.write(HEADER)
                for line, e, v, _ in use:
                    fh.write("static_assert( %s == %s, \"%s\" );\n" % (e, lit(v), line))
                fh.write("int main(){}\n")
            cmd = [cxx, "-std=" + std, "-fsyntax-only", "-w", "-I", fmlib.INC, "-ftemplate-depth=2000"] + (["-DFIXEDMATH_ENABLE_SQRT_ABACUS_ALGO"] if abacus else [])
            if cxx == "g++" and std == "c++17": cmd += ["-Os"]      # one configuration sees the size-optimisation macros
            if cxx.startswith("clang"): cmd += ["-fconstexpr-steps=100000000"]
            else: cmd += ["-fconstexpr-ops-limit=1000000000", "-fconstexpr-loop-limit=10000000"]
            r = subprocess.run(cmd + [src], capture_output=True, text=True)
            name = "%s -std=%s%s" % (cxx, std, " +abacus" if abacus else "")
            stats.append({"config": name, "static_asserts": len(use), "ok": r.returncode == 0})
            if r.returncode != 0:
                bad_lines = sorted(set(int(m.group(1)) for m in re.finditer(r"ce\.cc:(\d+):\d+: error", r.stderr)))
                hdr = HEADER.count("\n")
                for ln in bad_lines[:20]:
                    i = ln - hdr - 1
                    if 0 <= i < len(use):
                        msg = [l for l in r.stderr.splitlines() if "ce.cc:%d:" % ln in l][:2]
                        failures.append({"input": use[i][0], "config": name, "expected": use[i][2], "expression": use[i][1], "error": msg})
                if not bad_lines:
                    failures.append({"input": None, "config": name, "error": r.stderr.splitlines()[:5]})
    finally:
        shutil.rmtree(d, ignore_errors=True)
    return stats, failures

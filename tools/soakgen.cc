// soakgen <property-id> <seed> <count> : fast generator of operation lines for the native soak stage of tools/check.py.
// The lines go to the Lean model driver and to the harness (the real library); the two output streams are compared
// natively, only mismatching lines come back to Python (and to the suite's executable statement of the property).
// Distributions: magnitude-stratified values, "limit minus a stratified distance", multiples of the constants of the
// library (period, 2^16, 2^32, 360, 10^k) plus a small stratified offset, forced low / high bit patterns, and operands
// derived from the other operand.  Every choice derives from one xoshiro256** state seeded from <seed>.
#include <cstdio>
#include <cstdint>
#include <cstdlib>
#include <cstring>
#include <string>
#include <vector>
typedef __int128 i128;
static uint64_t s[4];
static inline uint64_t rotl(uint64_t x, int k){ return (x << k) | (x >> (64 - k)); }
static inline uint64_t nxt(){ uint64_t r = rotl(s[1] * 5, 7) * 9, t = s[1] << 17; s[2] ^= s[0]; s[3] ^= s[1]; s[1] ^= s[2]; s[0] ^= s[3]; s[2] ^= t; s[3] = rotl(s[3], 45); return r; }
static inline uint64_t below(uint64_t n){ return n ? nxt() % n : 0; }
static void seed(uint64_t x){ for(int i=0;i<4;++i){ x += 0x9e3779b97f4a7c15ULL; uint64_t z = x; z = (z ^ (z >> 30)) * 0xbf58476d1ce4e5b9ULL; z = (z ^ (z >> 27)) * 0x94d049bb133111ebULL; s[i] = z ^ (z >> 31); } }

static const int64_t F = INT64_MAX - 1;
static int64_t clampf(i128 v){ if(v > INT64_MAX) return INT64_MAX; if(v < -(i128)INT64_MAX) return -INT64_MAX; return (int64_t)v; }
// magnitude-stratified non-negative value below 2^maxbits
static uint64_t strat(int maxbits){ int e = (int)below(maxbits + 1); if(e == 0) return 0; uint64_t lo = 1ULL << (e - 1); return lo + below(lo); }
static const i128 LIMITS[] = { (i128)INT64_MAX, (i128)1 << 62, (i128)1 << 47, (i128)1 << 48, ((i128)1 << 31) * 65536 - 65536, (i128)1 << 32, (i128)1 << 53,
                               (i128)1 << 31, (i128)1 << 16, (i128)1 << 24, (i128)1 << 63, (i128)1 << 40, (i128)1 << 56 };
static const int64_t CONSTS[] = { 411774, 205887, 102944, 65536, 4294967296LL, 360, 23592960, 1000000, 10000000000LL, 4117740000000000LL, 2147401410LL, 46341, 3037000500LL, 28672, 159744 };
static int64_t value(int maxbits = 63)
  {
  unsigned k = (unsigned)below(16);
  i128 v;
  if(k < 5) v = strat(maxbits);
  else if(k < 8) { i128 L = LIMITS[below(sizeof LIMITS / sizeof LIMITS[0])]; v = L - (i128)strat(40) + (below(8) == 0 ? (i128)strat(40) : 0); }
  else if(k < 11) { int64_t c = CONSTS[below(sizeof CONSTS / sizeof CONSTS[0])]; i128 m = strat(below(2) ? 20 : 44); v = m * c + (i128)strat(below(3) ? 8 : 18) * (below(2) ? 1 : -1); }
  else if(k < 13) { uint64_t x = strat(maxbits); unsigned w = below(2) ? 16 : 32; x = below(2) ? (x & ~((1ULL << w) - 1)) : (x | ((1ULL << w) - 1)); v = x; }
  else if(k < 14) { uint64_t hi = below(2) ? 0x7ffffffeULL - below(3) : (1ULL << below(31)) - below(2); v = ((i128)hi << 32) | (uint32_t)nxt(); }
  else v = (i128)(nxt() >> (64 - maxbits > 0 ? 64 - maxbits : 1));
  if(v < 0) v = -v;
  if(maxbits < 63 && v >= ((i128)1 << maxbits)) v %= ((i128)1 << maxbits);
  int64_t r = clampf(v);
  return below(2) ? r : -r;
  }
// second operand: independent, or tied to the first
static int64_t partner(int64_t a, int maxbits = 63)
  {
  switch(below(12))
    {
    case 0: return a; case 1: return clampf(-(i128)a); case 2: return clampf((i128)a + 1); case 3: return clampf((i128)a - 1);
    case 4: return clampf(-(i128)a + (int64_t)below(5) - 2); case 5: return clampf((i128)a * 65536); case 6: return a / 65536;
    case 7: return clampf((i128)INT64_MAX - a + (int64_t)below(5) - 2); case 8: return clampf(-(i128)INT64_MAX - a + (int64_t)below(5) - 2);
    case 9: { int64_t r = (int64_t)((uint64_t)a ^ (1ULL << below(63))); return r == INT64_MIN ? a : r; }        // exactly one bit apart
    default: return value(maxbits);
    }
  }
static const char* ITYPES[] = { "i8", "i16", "i32", "i64", "u8", "u16", "u32", "u64", "ll", "ull" };
static void trange(int t, i128& lo, i128& hi)
  {
  static const int bits[] = { 8, 16, 32, 64, 8, 16, 32, 64, 64, 64 };
  bool sgn = t < 4 || t == 8; int b = bits[t];
  if(sgn){ lo = -((i128)1 << (b - 1)); hi = ((i128)1 << (b - 1)) - 1; } else { lo = 0; hi = ((i128)1 << b) - 1; }
  }
static i128 tvalue(int t)
  {
  i128 lo, hi; trange(t, lo, hi);
  i128 v;
  unsigned k = (unsigned)below(10);
  if(k < 2) v = below(2) ? hi - (i128)strat(20) : lo + (i128)strat(20);
  else if(k < 3) v = (i128)below(800) - 400;
  else { v = value(63); if(t == 7 || t == 9) { if(below(3) == 0) v = (i128)(uint64_t)nxt(); else if(v < 0) v = -v; } }
  if(v < lo || v > hi) { i128 span = hi - lo + 1; v = lo + ((v % span) + span) % span; }
  return v;
  }
static void pr(i128 v){ char b[48]; int n = 0; bool neg = v < 0; unsigned __int128 u = neg ? -(unsigned __int128)v : (unsigned __int128)v; if(u == 0) b[n++] = '0'; while(u){ b[n++] = '0' + (int)(u % 10); u /= 10; } if(neg) std::putchar('-'); while(n) std::putchar(b[--n]); }
static void line1(const char* f, i128 a){ std::fputs(f, stdout); std::putchar(' '); pr(a); std::putchar('\n'); }
static void line2(const char* f, i128 a, i128 b){ std::fputs(f, stdout); std::putchar(' '); pr(a); std::putchar(' '); pr(b); std::putchar('\n'); }
static void typed2(const char* f, int t, i128 a, i128 b){ std::fputs(f, stdout); std::putchar(':'); std::fputs(ITYPES[t], stdout); std::putchar(' '); pr(a); std::putchar(' '); pr(b); std::putchar('\n'); }
static void typed1(const char* f, int t, i128 a){ std::fputs(f, stdout); std::putchar(':'); std::fputs(ITYPES[t], stdout); std::putchar(' '); pr(a); std::putchar('\n'); }
static const char* pick(std::initializer_list<const char*> l){ auto it = l.begin(); std::advance(it, below(l.size())); return *it; }
static int64_t fin(int64_t v){ return v == INT64_MAX ? F : v == -INT64_MAX ? -F : v; }

static uint32_t fbits(){ unsigned k = (unsigned)below(6); if(k < 2) return (uint32_t)nxt(); int e = (int)below(64) - 30; uint32_t m = (uint32_t)below(1u << 23); if(k == 2) m &= ~((1u << below(20)) - 1);
  uint32_t ex = (uint32_t)(e + 127); return ((uint32_t)below(2) << 31) | (ex << 23) | m; }
static uint64_t dbits(){ unsigned k = (unsigned)below(6); if(k < 2) return nxt(); int e = (int)below(70) - 35; uint64_t m = below(1ULL << 52); if(k == 2) m &= ~((1ULL << below(50)) - 1);
  if(k == 3) { // tie patterns: (n + 1/2) / 65536
    i128 n = strat(46); double d = ((double)(int64_t)n + 0.5) / 65536.0; if(below(2)) d = -d; uint64_t b; std::memcpy(&b, &d, 8); return b + below(3) - 1; }
  uint64_t ex = (uint64_t)(e + 1023); return ((uint64_t)below(2) << 63) | (ex << 52) | m; }

int main(int argc, char** argv)
  {
  if(argc < 4) return 2;
  std::string pid = argv[1]; seed(std::strtoull(argv[2], nullptr, 10) * 2654435761ULL + pid[1] * 131 + pid[2]); long n = std::atol(argv[3]);
  static char obuf[1 << 20]; std::setvbuf(stdout, obuf, _IOFBF, sizeof obuf);
  for(long i = 0; i < n; ++i)
    {
    if(pid == "C01" || pid == "C17") { int64_t a = fin(value()), b = fin(partner(a)); line2(pick({"add", "sub", "addeq", "subeq", "add", "sub"}), a, b); if(pid == "C17" && (i & 3) == 0) line2(pick({"mul", "div"}), a, fin(value(40))); }
    else if(pid == "C02") { if(below(3)) { int64_t a = fin(value()), b = fin(below(2) ? value(40) : partner(a)); line2(pick({"mul", "muleq", "mul_fn"}), a, b); } else { int t = (int)below(10); typed2(pick({"mul_s", "rmul_s", "muleq_s"}), t, fin(value()), tvalue(t)); } }
    else if(pid == "C03") { if(below(3)) { int64_t a = fin(value()), b = fin(below(2) ? value(48) : partner(a)); line2(pick({"div", "diveq", "div_fn"}), a, b); } else { int t = (int)below(10); typed2(pick({"div_s", "diveq_s"}), t, fin(value()), tvalue(t)); } }
    else if(pid == "C04") { int t = (int)below(10); if(below(2)) typed1("to_fixed", t, tvalue(t)); else typed1("from_fixed", t, fin(value())); }
    else if(pid == "C05") { unsigned k = (unsigned)below(5); if(k == 0) line1("fp_to_fixed:f32", fbits()); else if(k == 1) line1("fp_to_fixed:f64", (i128)dbits()); else if(k == 2) line1("to_fp:f32", fin(value())); else if(k == 3) line1("to_fp:f64", fin(value())); else line1("roundtrip_d", fin(value(48))); }
    else if(pid == "C06") { if(below(3)) { int64_t a = value(), b = partner(a); line2(pick({"lt", "le", "gt", "ge", "eq", "ne"}), a, b); } else line1(pick({"isnan", "neg", "abs"}), value()); }
    else if(pid == "C09") line1(pick({"sin", "cos"}), value(62));
    else if(pid == "C10") line1("tan", value(62));
    else if(pid == "C11") { if(below(2)) line1("atan", fin(value())); else { int64_t y = fin(value(47)), x = fin(below(3) ? partner(y, 47) : value(60)); line2("atan2", y, x); } }
    else if(pid == "C12") line1(pick({"asin:dflt", "acos:dflt"}), below(4) ? (int64_t)below(131200) - 65600 : fin(value()));
    else if(pid == "C13") { int64_t v = value(48); line1("sqrt:dflt", below(8) ? (v < 0 ? -v : v) : fin(value())); }
    else if(pid == "C14") { int64_t a = value(47), b = below(3) ? partner(a, 47) : value(47); if(b > ((int64_t)1 << 47)) b %= ((int64_t)1 << 47); if(b < -((int64_t)1 << 47)) b = -(-b % ((int64_t)1 << 47)); line2("hypot:dflt", a, b); }
    else if(pid == "C15") line1(pick({"ceil", "floor"}), fin(value()));
    else if(pid == "C16") { unsigned k = (unsigned)below(4); int t = (int)below(10);
      if(k < 2) typed2(pick({"add_i", "radd_i", "addeq_i", "sub_i", "rsub_i", "subeq_i", "mul_s", "rmul_s", "muleq_s", "div_s", "diveq_s", "rdiv_i"}), t, fin(value()), tvalue(t));
      else if(k == 2) line2(pick({"add_f", "radd_f", "sub_f", "rsub_f", "mul_f", "rmul_f", "div_f", "rdiv_f", "addeq_f", "muleq_f"}), fin(value()), fbits());
      else line2(pick({"add_d", "radd_d", "sub_d", "rsub_d", "mul_d", "rmul_d", "div_d", "rdiv_d"}), fin(value()), (i128)dbits()); }
    else if(pid == "C18") { if(below(4)) line2(pick({"shr", "shl"}), fin(value()), below(16) ? (int64_t)below(64) : -(int64_t)below(1u << 31)); else line2("band", value(), value()); }
    else if(pid == "C19") { unsigned k = (unsigned)below(5); if(k < 2) line1(pick({"sin_aprox", "cos_aprox"}), (int64_t)(int32_t)nxt()); else if(k == 2) { int64_t a = (int64_t)(int32_t)nxt(); line2(pick({"re_sin_aprox", "re_cos_aprox", "re_sincos_aprox"}), a, below(2) ? (a & 0xffff) : (int64_t)(int32_t)nxt()); }
      else if(k == 3) line1("sqrt_aprox", below(6) ? (int64_t)strat(37) : fin(value())); else line1(pick({"atan_index", "atan_aprox"}), fin(value(47))); }
    else if(pid == "C20") { unsigned k = (unsigned)below(10);
      if(k < 7) { static const int wide[] = { 3, 7, 8, 9 }; int t = below(2) ? wide[below(4)] : (int)below(10);      // angle_to_radians has the only huge domain here
        i128 v = tvalue(t); if(below(3) == 0 && (t == 3 || t >= 7)) { v = (i128)(uint64_t)nxt(); if(t == 3 || t == 8) v = (i128)(int64_t)(uint64_t)v; }
        typed1("a2r", t, v); }
      else { int t = (int)below(10); i128 lo, hi; trange(t, lo, hi); i128 d = (i128)below(721) - 360; if(d < lo) d = lo; if(d > hi) d = hi; typed1(pick({"sin_angle", "cos_angle", "tan_angle"}), t, d); } }
    else { // C07 / C08 and anything else: a mix of everything cheap
      unsigned k = (unsigned)below(10); int64_t a = value(), b = partner(a);
      if(k == 0) line2(pick({"add", "sub", "mul", "div"}), a, b); else if(k == 1) line1(pick({"sin", "cos", "tan", "atan", "ceil", "floor", "neg", "abs"}), k ? a : b);
      else if(k == 2) line2("atan2", fin(a), fin(b)); else if(k == 3) line1(pick({"sqrt:dflt", "asin:dflt", "acos:dflt", "sqrt_aprox", "atan_index", "stream"}), a);
      else if(k == 4) line2("hypot:dflt", a, b); else if(k == 5) line2(pick({"shr", "shl"}), a, (int64_t)below(67) - 3);
      else if(k == 6) { int t = (int)below(10); typed2(pick({"mul_s", "div_s", "add_i", "rdiv_i"}), t, a, tvalue(t)); } else if(k == 7) line1("fp_to_fixed:f32", fbits());
      else if(k == 8) line1(pick({"sin_aprox", "cos_aprox"}), (int64_t)(int32_t)nxt()); else { int t = (int)below(10); if(below(3)) typed1(pick({"to_fixed", "a2r"}), t, tvalue(t)); else typed1("from_fixed", t, (i128)fin(a)); } }
    }
  return 0;
  }

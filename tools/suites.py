"""Correspondence suites and executable property oracles, one class per property.

A suite produces op lines for the harness/driver (`ops`), says which inputs are non-trivial
(`nontrivial`), and states the property as an executable predicate on the implementation's output
(`oracle`, exact integer arithmetic or a high-precision reference with a guard band).  The oracle is
never evidence for a property; it decides whether a divergence is a violation and supplies replays."""
import math, random, sys, os
from fractions import Fraction
from fmlib import F, NANP, I64MIN, I64MAX
import gen
from gen import INT_TYPES, int_type_range, finite

try:
    import mpmath
except ImportError:
    for p in ("/opt/veriftools/pyvenv/lib/python3.11/site-packages",):
        if os.path.isdir(p) and p not in sys.path: sys.path.append(p)
    try:
        import mpmath
    except ImportError:
        mpmath = None
if mpmath: mpmath.mp.prec = 200

PHI, PIDIV2, PIDIV4 = 205887, 102944, 51472   # refreshed from the translator by check.py
def set_consts(c):
    global PHI, PIDIV2, PIDIV4
    PHI, PIDIV2, PIDIV4 = c["phi"], c["fixpidiv2"], c["fixpidiv4"]

def isnan_raw(r): return r == NANP or r == -NANP
def parse_out(o):
    """'ok 123' -> 123 ; 'ok nan' -> 'nan' ; anything else -> None"""
    if o.startswith("ok "):
        t = o[3:]
        if t == "nan": return "nan"
        try: return int(t)
        except ValueError: return None
    return None
def parse_line(line):
    p = line.split()
    h = p[0].split(":")
    return h[0], (h[1] if len(h) > 1 else ""), [int(x) for x in p[1:]]
def tdiv(a, b):
    q = abs(a) // abs(b)
    return q if (a >= 0) == (b >= 0) else -q

ULP = Fraction(1, 65536)

class Suite:
    pid = "C00"
    spec_module = None
    needs_abacus_leg = False
    ub_sample = 20000
    def ops(self, tier, rng, pool): raise NotImplementedError
    def nontrivial(self, fn, tag, a): return False
    def oracle(self, fn, tag, a, r): return None
    def in_domain(self, fn, tag, a): return True

def base(fn):
    for suf in ("_ool", "_fn", "_pp", "_nn", "_pn", "_np"):
        if fn.endswith(suf): return fn[:-len(suf)]
    if fn.endswith("eq") and fn[:-2] in ("add", "sub", "mul", "div"): return fn[:-2]
    return fn

# ---------------------------------------------------------------------------------------------
class C01(Suite):
    pid = "C01"; spec_module = "FixedMath.Spec.C01"
    def ops(self, tier, rng, pool):
        n = 4000 if tier == "quick" else 150000
        fin = [v for v in pool if finite(v)]
        pairs = set()
        small = [v for v in fin if abs(v) >= 2**61 or abs(v) <= 3]
        for a in small:
            for b in small: pairs.add((a, b))
        pairs |= set(gen.sum_boundary_pairs(rng, n)) | set(gen.diff_boundary_pairs(rng, n))
        for _ in range(n):
            pairs.add((gen.strat(rng), gen.strat(rng)))
            pairs.add((rng.choice(fin), gen.strat(rng)))
        out = []
        for a, b in sorted(pairs):
            for f in ("add", "add_ool", "addeq", "add_fn"): out.append("%s %d %d" % (f, a, b))
            for f in ("sub", "sub_ool", "subeq", "sub_fn"): out.append("%s %d %d" % (f, a, b))
            if a > 0 and b > 0: out.append("add_pp %d %d" % (a, b)); out.append("add_pp_isnan %d %d" % (a, b))
            if a < 0 and b < 0: out.append("add_nn %d %d" % (a, b))
            if a > 0 and b < 0: out.append("sub_pn %d %d" % (a, b))
            if a < 0 and b > 0: out.append("sub_np %d %d" % (a, b))
        return out
    def exact(self, fn, a):
        return a[0] + a[1] if base(fn).startswith("add") else a[0] - a[1]
    def nontrivial(self, fn, tag, a):
        return abs(self.exact(fn, a)) >= F - 2
    def oracle(self, fn, tag, a, r):
        e = self.exact(fn, a)
        if fn == "add_pp_isnan":
            want = 0 if abs(e) <= F else 1
            return None if r == want else "isnan(a+b) is %d, exact sum %d requires %d" % (r, e, want)
        if abs(e) <= F:
            return None if r == e else "result %d, exact result %d is in range" % (r, e)
        return None if isnan_raw(r) else "result %d is not NaN, exact result %d is out of range" % (r, e)

# ---------------------------------------------------------------------------------------------
class C02(Suite):
    pid = "C02"; spec_module = "FixedMath.Spec.C02"
    def ops(self, tier, rng, pool):
        n = 4000 if tier == "quick" else 150000
        fin = [v for v in pool if finite(v)]
        pairs = set(gen.prod_boundary_pairs(rng, n))
        sm = [v for v in fin if abs(v) <= 2**33 and (abs(v) >= 2**30 or abs(v) <= 65537)] + [F, -F, F - 1]
        sm = sm[:400] if tier == "quick" else sm
        for a in sm:
            for b in rng.sample(sm, min(len(sm), 60)): pairs.add((a, b))
        for _ in range(n):
            pairs.add((gen.strat(rng), gen.strat(rng)))
            pairs.add((gen.strat(rng, 34), gen.strat(rng, 34)))
            pairs.add((rng.choice(fin), gen.strat(rng, 40)))
        out = []
        for a, b in sorted(pairs):
            for f in ("mul", "muleq", "mul_fn"): out.append("%s %d %d" % (f, a, b))
        m = 60 if tier == "quick" else 1500
        for t in INT_TYPES:
            tv = gen.type_values(rng, t, m, pool)
            for nn in tv:
                for a in [rng.choice(fin) for _ in range(3)] + [gen.strat(rng) for _ in range(3)] + [0, 1, -1, F, -F]:
                    for f in ("mul_s", "rmul_s", "muleq_s"): out.append("%s:%s %d %d" % (f, t, a, nn))
                if nn != 0:
                    for tgt in (F, F + 1, -F, -F - 1, 2**63, -2**63):
                        q = tgt // nn
                        for a in (q - 1, q, q + 1):
                            if finite(a): out.append("mul_s:%s %d %d" % (t, a, nn))
        return out
    def nontrivial(self, fn, tag, a):
        p = a[0] * a[1]
        return abs(p) >= 2**62
    def oracle(self, fn, tag, a, r):
        p = a[0] * a[1]
        if tag == "":
            if isnan_raw(r):
                if -2**63 <= p < 2**63: return "NaN although the raw product %d fits in int64" % p
                return None
            if abs(r * 65536 - p) >= 65536: return "result %d differs from exact %s by >= 1 ulp" % (r, Fraction(p, 65536))
            if p > F * 65536 or p < -F * 65536: return "result %d not NaN, exact product out of range" % r
            return None
        if abs(p) <= F: return None if r == p else "result %d, exact product %d in range" % (r, p)
        return None if isnan_raw(r) else "result %d not NaN, exact product %d out of range" % (r, p)

# ---------------------------------------------------------------------------------------------
class C03(Suite):
    pid = "C03"; spec_module = "FixedMath.Spec.C03"
    def ops(self, tier, rng, pool):
        n = 4000 if tier == "quick" else 150000
        fin = [v for v in pool if finite(v)]
        pairs = set()
        sm = [v for v in fin if abs(v) <= 70000 or 2**46 <= abs(v) <= 2**48 or abs(v) >= 2**62]
        sm = sm[:500] if tier == "quick" else sm
        for a in sm:
            for b in rng.sample(sm, min(len(sm), 60)) + [0, 1, -1, 2, -2, 65536, -65536]: pairs.add((a, b))
        for _ in range(n):
            pairs.add((gen.strat(rng), gen.strat(rng)))
            pairs.add((gen.strat(rng, 48), gen.strat(rng, 40)))
            pairs.add((rng.choice(fin), gen.strat(rng, 20)))
        pairs |= {(-2**47, -1), (-2**47, 1), (2**47, 1), (-2**47 + 1, -1), (2**47 - 1, 1), (-F, -1), (F, -1), (F, 0), (0, 0)}
        out = []
        for a, b in sorted(pairs):
            for f in ("div", "diveq", "div_fn"): out.append("%s %d %d" % (f, a, b))
        m = 60 if tier == "quick" else 1500
        for t in INT_TYPES:
            tv = gen.type_values(rng, t, m, pool)
            for nn in tv:
                for a in [rng.choice(fin) for _ in range(3)] + [gen.strat(rng) for _ in range(3)] + [0, 1, -1, F, -F]:
                    for f in ("div_s", "diveq_s"): out.append("%s:%s %d %d" % (f, t, a, nn))
        return out
    def nontrivial(self, fn, tag, a):
        return a[1] == 0 or abs(a[0]) >= 2**46 or abs(a[1]) == 1
    def oracle(self, fn, tag, a, r):
        x, y = a
        if tag == "":
            if y == 0: return None if isnan_raw(r) else "division by zero gives %d, not NaN" % r
            if isnan_raw(r):
                return "NaN although |a| < 2^31" if abs(x) < 2**47 else None
            if abs(r * y - 65536 * x) > abs(y): return "quotient %d differs from exact %s by more than 1 ulp" % (r, Fraction(65536 * x, y))
            return None
        if y == 0: return None if isnan_raw(r) else "division by integer zero gives %d, not NaN" % r
        e = tdiv(x, y)
        return None if r == e else "quotient %d, exact truncated quotient %d" % (r, e)

# ---------------------------------------------------------------------------------------------
class C04(Suite):
    pid = "C04"; spec_module = "FixedMath.Spec.C04"
    def ops(self, tier, rng, pool):
        out = []
        m = 400 if tier == "quick" else 20000
        for t in INT_TYPES:
            lo, hi = int_type_range(t)
            if t in ("i8", "u8") or (t in ("i16", "u16")):
                vals = range(lo, hi + 1)          # exhaustive for 8 and 16 bit types
            else:
                vals = gen.type_values(rng, t, m, pool)
            for v in vals:
                out.append("to_fixed:%s %d" % (t, v))
                if (v & 7) == 0 or abs(v) < 300: out.append("to_fixed_mk:%s %d" % (t, v))
            xs = set(pool) | {v * 65536 + d for v in (lo, hi, lo - 1, hi + 1, 0, -1, 1) for d in (-1, 0, 1, 65535, 65536)}
            for _ in range(m): xs.add(gen.strat(rng))
            for x in sorted(xs):
                if finite(x): out.append("from_fixed:%s %d" % (t, x))
        return out
    def nontrivial(self, fn, tag, a):
        lo, hi = int_type_range(tag)
        if fn.startswith("to_fixed"): return abs(a[0]) >= 2**31 - 2
        k = a[0] >> 16
        return not (lo + 1 <= k <= hi - 1)
    def oracle(self, fn, tag, a, r):
        lo, hi = int_type_range(tag)
        if fn.startswith("to_fixed"):
            n = a[0]
            if abs(n) <= 2**31 - 1: return None if r == n * 65536 else "fixed(%d) has raw %d, expected %d" % (n, r, n * 65536)
            return None if isnan_raw(r) else "fixed(%d) = raw %d is not NaN" % (n, r)
        k = a[0] >> 16
        e = k if lo <= k <= hi else 0
        return None if r == e else "(%s)fixed(raw %d) = %d, expected %d" % (tag, a[0], r, e)

# ---------------------------------------------------------------------------------------------
class C06(Suite):
    pid = "C06"; spec_module = "FixedMath.Spec.C06"
    def ops(self, tier, rng, pool):
        out = []
        vals = sorted(set(pool) | {NANP, -NANP, F, -F, 0})
        pick = vals if tier != "quick" else rng.sample(vals, min(len(vals), 250)) + [NANP, -NANP, F, -F, 0, 1, -1]
        for a in pick:
            for b in rng.sample(vals, 12) + [a, NANP, -NANP, -a if a != I64MIN else 0]:
                if b == I64MIN or a == I64MIN: continue
                for f in ("lt", "le", "gt", "ge", "eq", "ne"): out.append("%s %d %d" % (f, a, b))
        n = 3000 if tier == "quick" else 200000
        for v in vals + gen.strat_list(rng, n):
            if v == I64MIN: continue
            for f in ("isnan", "neg", "abs"): out.append("%s %d" % (f, v))
        return out
    def nontrivial(self, fn, tag, a):
        return any(abs(x) >= F for x in a) or (len(a) == 2 and a[0] == a[1])
    def oracle(self, fn, tag, a, r):
        if len(a) == 2:
            x, y = a
            e = {"lt": x < y, "le": x <= y, "gt": x > y, "ge": x >= y, "eq": x == y, "ne": x != y}[fn]
            return None if r == int(e) else "%s(%d,%d) = %d" % (fn, x, y, r)
        x = a[0]
        if fn == "isnan": return None if r == int(isnan_raw(x)) else "isnan(raw %d) = %d" % (x, r)
        if fn == "neg": return None if r == -x else "-(raw %d) = %d" % (x, r)
        if fn == "abs": return None if r == abs(x) else "abs(raw %d) = %d" % (x, r)

# ---------------------------------------------------------------------------------------------
class C15(Suite):
    pid = "C15"; spec_module = "FixedMath.Spec.C15"
    def ops(self, tier, rng, pool):
        n = 5000 if tier == "quick" else 300000
        xs = set(v for v in pool if finite(v))
        for _ in range(n):
            v = gen.strat(rng); xs.add(v); xs.add((v >> 16) << 16); xs.add(((v >> 16) << 16) + rng.choice((1, -1, 65535)))
        out = []
        for x in sorted(xs):
            if finite(x):
                out.append("floor %d" % x); out.append("ceil %d" % x)
        return out
    def in_domain(self, fn, tag, a):
        return abs(a[0]) < 2**63 - 65536
    def nontrivial(self, fn, tag, a):
        return a[0] % 65536 == 0 or a[0] < 0
    def oracle(self, fn, tag, a, r):
        x = a[0]
        if not self.in_domain(fn, tag, a): return None
        if fn == "floor":
            e = (x >> 16) << 16
        else:
            e = -(((-x) >> 16) << 16)
        return None if r == e else "%s(raw %d) = %d, expected %d" % (fn, x, r, e)

# ---------------------------------------------------------------------------------------------
class C18(Suite):
    pid = "C18"; spec_module = "FixedMath.Spec.C18"
    def ops(self, tier, rng, pool):
        n = 2500 if tier == "quick" else 100000
        xs = [v for v in pool if finite(v)]
        sel = rng.sample(xs, min(len(xs), 150 if tier == "quick" else len(xs))) + gen.strat_list(rng, n // 10)
        out = []
        for x in sel:
            for r in list(range(0, 64)) if tier != "quick" else [0, 1, 2, 15, 16, 17, 31, 32, 33, 47, 48, 62, 63] + [rng.randrange(0, 64) for _ in range(4)]:
                out.append("shr %d %d" % (x, r)); out.append("shl %d %d" % (x, r))
            for r in (-1, -2, -63, -64, -65, -2**31, -2**31 + 1, -rng.randrange(1, 2**31)):
                out.append("shr %d %d" % (x, r)); out.append("shl %d %d" % (x, r))
        for _ in range(n):
            x = gen.strat(rng); r = rng.randrange(0, 64)
            out.append("shr %d %d" % (x, r)); out.append("shl %d %d" % (x, r))
            out.append("band %d %d" % (gen.strat(rng), gen.strat(rng)))
        for a in rng.sample(pool, min(len(pool), 80)):
            for b in rng.sample(pool, 20): out.append("band %d %d" % (a, b))
        return out
    def nontrivial(self, fn, tag, a):
        if fn == "band": return a[0] < 0 or a[1] < 0
        return a[1] < 0 or a[1] >= 47 or (fn == "shl" and abs(a[0] << max(a[1], 0)) > F)
    def oracle(self, fn, tag, a, r):
        x, c = a
        if fn == "band":
            e = (x & c)
            return None if r == e else "%d & %d = %d, expected %d" % (x, c, r, e)
        if c < 0: return None if isnan_raw(r) else "negative shift count gives %d, not NaN" % r
        if fn == "shr": return None if r == x >> c else "%d >> %d = %d" % (x, c, r)
        e = x << c
        if abs(e) <= F: return None if r == e else "%d << %d = %d, exact %d in range" % (x, c, r, e)
        if (x > 0 and r < 0) or (x < 0 and r > 0): return "%d << %d = %d has the opposite sign" % (x, c, r)
        return None

# ---------------------------------------------------------------------------------------------
class C17(Suite):
    """algebraic laws: the kernels are those of C01-C03; ops here feed law-shaped operand tuples"""
    pid = "C17"; spec_module = "FixedMath.Spec.C17"
    def ops(self, tier, rng, pool):
        n = 3000 if tier == "quick" else 100000
        out = []
        fin = [v for v in pool if finite(v)]
        for _ in range(n):
            a, b = gen.strat(rng, 62), gen.strat(rng, 62)
            out += ["add %d %d" % (a, b), "add %d %d" % (b, a), "mul %d %d" % (a, b), "mul %d %d" % (b, a),
                    "sub %d %d" % (a, b), "neg %d" % b, "sub %d %d" % (a, a)]
            s = a + b
            if finite(s): out.append("sub %d %d" % (s, b))
            a = gen.strat(rng, 46)
            out += ["mul %d 65536" % a, "mul %d 0" % a, "div %d 65536" % a]
            if a: out.append("div %d %d" % (a, a))
            k = gen.strat(rng, 20)
            t = rng.choice(["i8", "i16", "i32", "i64"])
            lo, hi = int_type_range(t)
            if lo <= k <= hi and k != 0 and finite(a * k):
                out += ["mul_s:%s %d %d" % (t, a, k), "div_s:%s %d %d" % (t, a * k, k)]
        for a in rng.sample(fin, min(len(fin), 200)):
            out += ["add %d %d" % (a, -a), "sub %d %d" % (a, a), "mul %d 65536" % a, "div %d 65536" % a]
        return out
    # the laws themselves are theorems over the model; the per-operation oracles are those of C01-C03
    def oracle(self, fn, tag, a, r):
        if fn in ("add", "sub"): return C01().oracle(fn, tag, a, r)
        if fn in ("mul", "mul_s"): return C02().oracle(fn, tag, a, r)
        if fn in ("div", "div_s"): return C03().oracle(fn, tag, a, r)
        if fn == "neg": return None if r == -a[0] else "neg"
    def nontrivial(self, fn, tag, a):
        return fn in ("div", "div_s", "mul_s") or (len(a) == 2 and a[0] == a[1])

SUITES = {c.pid: c for c in (C01, C02, C03, C04, C06, C15, C17, C18)}

"""Correspondence suites and executable property oracles, one class per property.

A suite produces op lines for the harness/driver (`ops`), says which inputs are non-trivial
(`nontrivial`), and states the property as an executable predicate on the implementation's output
(`oracle`, exact integer arithmetic or a high-precision reference with a guard band).  The oracle is
never evidence for a property; it decides whether a divergence is a violation and supplies replays."""
import math, random, sys, os
from fractions import Fraction
from fmlib import F, NANP, I64MIN, I64MAX
import gen
from gen import INT_TYPES, int_type_range, finite

try:
    import mpmath
except ImportError:
    for p in ("/opt/veriftools/pyvenv/lib/python3.11/site-packages",):
        if os.path.isdir(p) and p not in sys.path: sys.path.append(p)
    try:
        import mpmath
    except ImportError:
        mpmath = None
if mpmath: mpmath.mp.prec = 200

PHI, PIDIV2, PIDIV4 = 205887, 102944, 51472   # refreshed from the translator by check.py
def set_consts(c):
    global PHI, PIDIV2, PIDIV4
    PHI, PIDIV2, PIDIV4 = c["phi"], c["fixpidiv2"], c["fixpidiv4"]

def isnan_raw(r): return r == NANP or r == -NANP
def parse_out(o):
    """'ok 123' -> 123 ; 'ok nan' -> 'nan' ; anything else -> None"""
    if o.startswith("ok "):
        t = o[3:]
        if t == "nan": return "nan"
        try: return int(t)
        except ValueError: return None
    return None
AFTER = ["sin", "cos", "tan", "atan", "sqrt", "asin", "acos", "ceil", "floor", "sqrt_aprox", "atan_index", "atan_aprox", "neg", "abs"]
def parse_line(line):
    p = line.split()
    h = p[0].split(":")
    tag = h[1] if len(h) > 1 else ""
    fn, a = h[0], [int(x) for x in p[1:]]
    if fn == "after" and len(a) == 4 and 0 <= a[0] < len(AFTER) and 0 <= a[1] < len(AFTER):
        fn, a = AFTER[a[1]], [a[3]]                    # the second call is the one reported
        if fn not in ("sqrt", "asin", "acos"): tag = ""
    if fn.startswith("lit_"):
        fn = fn[4:]
        if fn == "hypot1": fn, a = "hypot", [a[0], 65536]
    if fn in ("re_sincos_aprox", "re_cossin_aprox"): fn, a = ("cos_aprox" if fn == "re_sincos_aprox" else "sin_aprox"), a[1:]
    elif fn.startswith("re_"): fn, a = fn[3:], a[len(a) // 2:]       # the second operand set is the one reported
    if fn in ("shl_lit", "shr_lit"): fn = fn[:3]
    elif fn in ("mul_lit", "div_lit"): fn, tag = fn[:3] + "_s", "i32"
    elif fn.endswith("eq_self") and len(a) == 1: fn, a = fn[:-7], [a[0], a[0]]
    return fn, gen.TYPE_ALIAS.get(tag, tag), a
def tdiv(a, b):
    q = abs(a) // abs(b)
    return q if (a >= 0) == (b >= 0) else -q

ULP = Fraction(1, 65536)

class Suite:
    pid = "C00"
    spec_module = None
    needs_abacus_leg = False
    ub_sample = 20000
    def ops(self, tier, rng, pool): raise NotImplementedError
    def nontrivial(self, fn, tag, a): return False
    def oracle(self, fn, tag, a, r): return None
    def in_domain(self, fn, tag, a): return True

def base(fn):
    for suf in ("_ool", "_fn", "_pp", "_nn", "_pn", "_np"):
        if fn.endswith(suf): return fn[:-len(suf)]
    if fn.endswith("eq") and fn[:-2] in ("add", "sub", "mul", "div"): return fn[:-2]
    return fn

# ---------------------------------------------------------------------------------------------
class C01(Suite):
    pid = "C01"; spec_module = "FixedMath.Spec.C01"
    def ops(self, tier, rng, pool):
        n = 4000 if tier == "quick" else 150000
        fin = [v for v in pool if finite(v)]
        pairs = set()
        small = [v for v in fin if abs(v) >= 2**61 or abs(v) <= 3]
        for a in small:
            for b in small: pairs.add((a, b))
        pairs |= set(gen.sum_boundary_pairs(rng, n)) | set(gen.diff_boundary_pairs(rng, n))
        for _ in range(n):
            pairs.add((gen.strat(rng), gen.strat(rng)))
            pairs.add((rng.choice(fin), gen.strat(rng)))
        out = []
        # one operand a boundary value of some width, the exact sum (difference) a limit
        base_pool = [v for v in pool if v not in gen.DERIVED]
        for a, b in gen.pool_complement_pairs(base_pool):
            out.append("add %d %d" % (a, b)); out.append("addeq %d %d" % (a, b))
            if finite(-b): out.append("sub %d %d" % (a, -b)); out.append("subeq %d %d" % (a, -b))
        for a, b in sorted(pairs):
            for f in ("add", "add_ool", "addeq", "add_fn"): out.append("%s %d %d" % (f, a, b))
            for f in ("sub", "sub_ool", "subeq", "sub_fn"): out.append("%s %d %d" % (f, a, b))
            if a > 0 and b > 0: out.append("add_pp %d %d" % (a, b)); out.append("add_pp_isnan %d %d" % (a, b))
            if a < 0 and b < 0: out.append("add_nn %d %d" % (a, b))
            if a > 0 and b < 0: out.append("sub_pn %d %d" % (a, b))
            if a < 0 and b > 0: out.append("sub_np %d %d" % (a, b))
        return out
    def exact(self, fn, a):
        return a[0] + a[1] if base(fn).startswith("add") else a[0] - a[1]
    def nontrivial(self, fn, tag, a):
        return abs(self.exact(fn, a)) >= F - 2
    def oracle(self, fn, tag, a, r):
        e = self.exact(fn, a)
        if fn == "add_pp_isnan":
            want = 0 if abs(e) <= F else 1
            return None if r == want else "isnan(a+b) is %d, exact sum %d requires %d" % (r, e, want)
        if abs(e) <= F:
            return None if r == e else "result %d, exact result %d is in range" % (r, e)
        return None if isnan_raw(r) else "result %d is not NaN, exact result %d is out of range" % (r, e)

# ---------------------------------------------------------------------------------------------
SPECIAL = set()      # constructed special-case lines of the current run: they go first into the constant-evaluation leg
def scalar_special_pairs(rng, ops=("mul_s", "rmul_s", "muleq_s", "div_s", "diveq_s")):
    out = _scalar_special_pairs(rng, ops)
    SPECIAL.update(out)
    return out
def _scalar_special_pairs(rng, ops):
    out = _scalar_special_pairs0(rng, ops)
    if any(o.startswith(("mul", "rmul")) for o in ops):
        mops = [o for o in ops if "mul" in o]
        # exact product within |n| of +-2^63 for small and medium n (an overflow test through an inexact estimate)
        for n in sorted(set(rng.randrange(2, 5000) for _ in range(120)) | set(rng.randrange(5000, 2**31) for _ in range(60)) | {2, 3, 5, 7, 10, 100, 206, 788, 1000, 6007, 1000003}):
            for lim in (2**63, 2**63 - 1, F):
                q = lim // n
                for a in (q, q + 1, q - 1):
                    for sa, sn in ((1, 1), (-1, 1), (1, -1), (-1, -1)):
                        for t in ("i32", "i64", "u32", "u64", "ll"):
                            lo, hi = int_type_range(gen.TYPE_ALIAS.get(t, t))
                            if lo <= sn * n <= hi and abs(a) <= F:
                                for f in mops: out.append("%s:%s %d %d" % (f, t, sa * a, sn * n))
    return out
def _scalar_special_pairs0(rng, ops):
    """(raw, integer) pairs for the mixed operators that no single-operand boundary list produces:
    both operands at an integer square root of a limit (the product sits on the limit), and the dividends that trap
    when divided by -1 in a narrower signed type (INT_MIN of every width, also scaled by 2^16)"""
    out = []
    for t in INT_TYPES + list(gen.TYPE_ALIAS):
        lo, hi = int_type_range(gen.TYPE_ALIAS.get(t, t))
        for r in gen.SQRT_LIMITS:
            for n in (r, -r):
                if lo <= n <= hi and n != 0:
                    for a in (r, -r, r + 1, r - 1):
                        for f in ops: out.append("%s:%s %d %d" % (f, t, a, n))
        if lo < 0:
            for w in (8, 16, 32, 48, 64):
                for a0 in (-(1 << (w - 1)), -(1 << (w - 1)) + 1, (1 << (w - 1)), -(1 << (w - 1)) * 65536, (-(1 << (w - 1)) + 1) * 65536):
                    if abs(a0) <= NANP:
                        for n in (-1, 1, lo, lo + 1):
                            for f in ops: out.append("%s:%s %d %d" % (f, t, a0, n))
    return out

class C02(Suite):
    pid = "C02"; spec_module = "FixedMath.Spec.C02"
    def ops(self, tier, rng, pool):
        n = 4000 if tier == "quick" else 150000
        fin = [v for v in pool if finite(v)]
        pairs = set(gen.prod_boundary_pairs(rng, n))
        sm = [v for v in fin if abs(v) <= 2**33 and (abs(v) >= 2**30 or abs(v) <= 65537)] + [F, -F, F - 1]
        sm = sm[:400] if tier == "quick" else sm
        for a in sm:
            for b in rng.sample(sm, min(len(sm), 60)): pairs.add((a, b))
        for _ in range(n):
            pairs.add((gen.strat(rng), gen.strat(rng)))
            pairs.add((gen.strat(rng, 34), gen.strat(rng, 34)))
            pairs.add((rng.choice(fin), gen.strat(rng, 40)))
        out = []
        for a, b in sorted(pairs):
            for f in ("mul", "muleq", "mul_fn"): out.append("%s %d %d" % (f, a, b))
        m = 60 if tier == "quick" else 1500
        for t in INT_TYPES:
            tv = gen.type_values(rng, t, m, pool)
            for nn in tv:
                for a in [rng.choice(fin) for _ in range(3)] + [gen.strat(rng) for _ in range(3)] + [0, 1, -1, F, -F]:
                    for f in ("mul_s", "rmul_s", "muleq_s"): out.append("%s:%s %d %d" % (f, t, a, nn))
                if nn != 0:
                    for tgt in (F, F + 1, -F, -F - 1, 2**63, -2**63):
                        q = tgt // nn
                        for a in (q - 1, q, q + 1):
                            if finite(a): out.append("mul_s:%s %d %d" % (t, a, nn))
        out += scalar_special_pairs(rng, ("mul_s", "rmul_s", "muleq_s"))
        for a_, b_ in gen.exact_product_pairs():
            for sa in (1, -1):
                for sb in (1, -1):
                    if finite(sa * a_) and finite(sb * b_): out += ["mul %d %d" % (sa * a_, sb * b_), "mul %d %d" % (sb * b_, sa * a_), "muleq %d %d" % (sa * a_, sb * b_)]
        return out
    def nontrivial(self, fn, tag, a):
        p = a[0] * a[1]
        return abs(p) >= 2**62
    def oracle(self, fn, tag, a, r):
        p = a[0] * a[1]
        if tag == "":
            if isnan_raw(r):
                if -2**63 <= p < 2**63: return "NaN although the raw product %d fits in int64" % p
                return None
            if abs(r * 65536 - p) >= 65536: return "result %d differs from exact %s by >= 1 ulp" % (r, Fraction(p, 65536))
            if p > F * 65536 or p < -F * 65536: return "result %d not NaN, exact product out of range" % r
            return None
        if abs(p) <= F: return None if r == p else "result %d, exact product %d in range" % (r, p)
        return None if isnan_raw(r) else "result %d not NaN, exact product %d out of range" % (r, p)

# ---------------------------------------------------------------------------------------------
class C03(Suite):
    pid = "C03"; spec_module = "FixedMath.Spec.C03"
    def ops(self, tier, rng, pool):
        n = 4000 if tier == "quick" else 150000
        fin = [v for v in pool if finite(v)]
        pairs = set()
        sm = [v for v in fin if abs(v) <= 70000 or 2**46 <= abs(v) <= 2**48 or abs(v) >= 2**62]
        sm = rng.sample(sm, min(len(sm), 500)) if tier == "quick" else sm
        for a in sm:
            for b in rng.sample(sm, min(len(sm), 60)) + [0, 1, -1, 2, -2, 65536, -65536]: pairs.add((a, b))
        for _ in range(n):
            pairs.add((gen.strat(rng), gen.strat(rng)))
            pairs.add((gen.strat(rng, 48), gen.strat(rng, 40)))
            pairs.add((rng.choice(fin), gen.strat(rng, 20)))
        pairs |= {(-2**47, -1), (-2**47, 1), (2**47, 1), (-2**47 + 1, -1), (2**47 - 1, 1), (-F, -1), (F, -1), (F, 0), (0, 0)}
        # every power of two (and its neighbours) as divisor and as dividend
        for k in range(0, 63):
            for d in ((1 << k), -(1 << k), (1 << k) + 1, (1 << k) - 1):
                for a in [gen.strat(rng, 47) for _ in range(4)] + [65536, -65536, 1000000 * 65536, (1 << k), -(1 << k), 3 << max(k - 1, 0)]:
                    if finite(d) and finite(a): pairs.add((a, d)); pairs.add((d, a))
        out = []
        for a, b in sorted(pairs):
            for f in ("div", "diveq", "div_fn"): out.append("%s %d %d" % (f, a, b))
        m = 60 if tier == "quick" else 1500
        for t in INT_TYPES:
            tv = gen.type_values(rng, t, m, pool)
            for nn in tv:
                for a in [rng.choice(fin) for _ in range(3)] + [gen.strat(rng) for _ in range(3)] + [0, 1, -1, F, -F]:
                    for f in ("div_s", "diveq_s"): out.append("%s:%s %d %d" % (f, t, a, nn))
        out += scalar_special_pairs(rng, ("div_s", "diveq_s"))
        return out
    def nontrivial(self, fn, tag, a):
        return a[1] == 0 or abs(a[0]) >= 2**46 or abs(a[1]) == 1
    def oracle(self, fn, tag, a, r):
        x, y = a
        if tag == "":
            if y == 0: return None if isnan_raw(r) else "division by zero gives %d, not NaN" % r
            if isnan_raw(r):
                return "NaN although |a| < 2^31" if abs(x) < 2**47 else None
            if abs(r * y - 65536 * x) > abs(y): return "quotient %d differs from exact %s by more than 1 ulp" % (r, Fraction(65536 * x, y))
            return None
        if y == 0: return None if isnan_raw(r) else "division by integer zero gives %d, not NaN" % r
        e = tdiv(x, y)
        return None if r == e else "quotient %d, exact truncated quotient %d" % (r, e)

# ---------------------------------------------------------------------------------------------
class C04(Suite):
    pid = "C04"; spec_module = "FixedMath.Spec.C04"
    def ops(self, tier, rng, pool):
        out = []
        m = 400 if tier == "quick" else 20000
        for t in INT_TYPES:
            lo, hi = int_type_range(t)
            if t in ("i8", "u8") or (t in ("i16", "u16")):
                vals = range(lo, hi + 1)          # exhaustive for 8 and 16 bit types
            else:
                vals = gen.type_values(rng, t, m, pool)
            for v in vals:
                out.append("to_fixed:%s %d" % (t, v))
                if (v & 7) == 0 or abs(v) < 300: out.append("to_fixed_mk:%s %d" % (t, v))
                # implicit promotion in mixed arithmetic: 0 + n, n + 0, 0 - n (negated), n / 1
                if (v & 3) == 0 or abs(v) < 300 or abs(v) > 2**30:
                    out.append("add_i:%s 0 %d" % (t, v)); out.append("radd_i:%s 0 %d" % (t, v)); out.append("rdiv_i:%s 65536 %d" % (t, v))
            xs = set(pool) | {v * 65536 + d for v in (lo, hi, lo - 1, hi + 1, 0, -1, 1) for d in (-1, 0, 1, 65535, 65536)}
            # integral parts far outside T that are congruent to an in-range value modulo 2^8, 2^16, 2^32
            for w in (8, 16, 32):
                for m_ in (1, -1, 2, 3, 255, -255, 65535):
                    for r_ in (0, 1, 7, 100, 255, 256, 65535, -1, -3):
                        k_ = m_ * (1 << w) + r_
                        if abs(k_) < 2**47: xs.add(k_ * 65536); xs.add(k_ * 65536 + 1234)
            for n_ in (hi, hi - 1, lo, 2**31, 2**31 - 1, -2**31, 2**31 + 5, 2**40, -2**40, 2**63 - 1, 2**63, 2**64 - 1):
                if lo <= n_ <= hi:
                    for k_ in range(0, 18): out.append("rdiv_i:%s %d %d" % (t, 65536 << k_, n_)); out.append("rdiv_i:%s %d %d" % (t, -(65536 << k_), n_))
            for _ in range(m): xs.add(gen.strat(rng))
            for x in sorted(xs):
                if finite(x): out.append("from_fixed:%s %d" % (t, x))
        return out
    def in_domain(self, fn, tag, a):
        # the promotion probes are `0 + n`, `n + 0` and `n / 2^k`; other first operands belong to C16
        if fn in ("add_i", "radd_i"): return a[0] == 0
        if fn == "rdiv_i": return a[0] != 0 and abs(a[0]) % 65536 == 0 and (abs(a[0]) // 65536) & ((abs(a[0]) // 65536) - 1) == 0
        return True
    def nontrivial(self, fn, tag, a):
        lo, hi = int_type_range(tag)
        if fn in ("add_i", "radd_i", "rdiv_i"): return abs(a[1]) >= 2**31 - 2
        if fn.startswith("to_fixed"): return abs(a[0]) >= 2**31 - 2
        k = a[0] >> 16
        return not (lo + 1 <= k <= hi - 1)
    def oracle(self, fn, tag, a, r):
        lo, hi = int_type_range(tag)
        if fn == "rdiv_i" and a[0] != 65536:
            return C16().oracle(fn, tag, a, r)
        if fn in ("add_i", "radd_i", "rdiv_i"):
            n = a[1]
            if abs(n) <= 2**31 - 1: return None if r == n * 65536 else "implicit promotion of (%s)%d in %s gives raw %d, expected %d" % (tag, n, fn, r, n * 65536)
            return None if isnan_raw(r) else "implicit promotion of (%s)%d in %s gives raw %d, not NaN" % (tag, n, fn, r)
        if fn.startswith("to_fixed"):
            n = a[0]
            if abs(n) <= 2**31 - 1: return None if r == n * 65536 else "fixed(%d) has raw %d, expected %d" % (n, r, n * 65536)
            return None if isnan_raw(r) else "fixed(%d) = raw %d is not NaN" % (n, r)
        k = a[0] >> 16
        e = k if lo <= k <= hi else 0
        return None if r == e else "(%s)fixed(raw %d) = %d, expected %d" % (tag, a[0], r, e)

# ---------------------------------------------------------------------------------------------
class C06(Suite):
    pid = "C06"; spec_module = "FixedMath.Spec.C06"
    def ops(self, tier, rng, pool):
        out = []
        vals = sorted(set(pool) | {NANP, -NANP, F, -F, 0})
        pick = vals if tier != "quick" else rng.sample(vals, min(len(vals), 250)) + [NANP, -NANP, F, -F, 0, 1, -1]
        for a in pick:
            for b in rng.sample(vals, 12) + [a, NANP, -NANP, -a if a != I64MIN else 0]:
                if b == I64MIN or a == I64MIN: continue
                for f in ("lt", "le", "gt", "ge", "eq", "ne"): out.append("%s %d %d" % (f, a, b))
        for v in vals:
            for w_ in (0, 1, -1):
                if v != I64MIN:
                    for f in ("eq", "ne", "lt", "ge"): out.append("%s %d %d" % (f, v, w_)); out.append("%s %d %d" % (f, w_, v))
        # close pairs at every magnitude (comparisons that go through a narrower or a floating type lose them)
        for k in range(1, 63):
            for _ in range(3 if tier == "quick" else 40):
                x = rng.randrange(2**k, 2**(k + 1)); x = rng.choice((x, (x >> 16) << 16, -x, -((x >> 16) << 16)))
                for d in (1, 2, 3, 65535, 65536, 65537, rng.randrange(1, 2**max(1, k - 50)), 2**32, 2**32 + 1):
                    for y in (x + d, x - d):
                        if abs(y) <= NANP and abs(x) <= NANP:
                            for f in ("lt", "le", "gt", "ge", "eq", "ne"): out.append("%s %d %d" % (f, x, y)); out.append("%s %d %d" % (f, y, x))
        n = 3000 if tier == "quick" else 200000
        for v in vals + gen.strat_list(rng, n):
            if v == I64MIN: continue
            for f in ("isnan", "neg", "abs"): out.append("%s %d" % (f, v))
        return out
    def nontrivial(self, fn, tag, a):
        return any(abs(x) >= F for x in a) or (len(a) == 2 and a[0] == a[1])
    def oracle(self, fn, tag, a, r):
        if len(a) == 2:
            x, y = a
            e = {"lt": x < y, "le": x <= y, "gt": x > y, "ge": x >= y, "eq": x == y, "ne": x != y}[fn]
            return None if r == int(e) else "%s(%d,%d) = %d" % (fn, x, y, r)
        x = a[0]
        if fn == "isnan": return None if r == int(isnan_raw(x)) else "isnan(raw %d) = %d" % (x, r)
        if fn == "neg": return None if r == -x else "-(raw %d) = %d" % (x, r)
        if fn == "abs": return None if r == abs(x) else "abs(raw %d) = %d" % (x, r)

# ---------------------------------------------------------------------------------------------
class C15(Suite):
    pid = "C15"; spec_module = "FixedMath.Spec.C15"
    def ops(self, tier, rng, pool):
        n = 5000 if tier == "quick" else 300000
        xs = set(v for v in pool if finite(v))
        for _ in range(n):
            v = gen.strat(rng); xs.add(v); xs.add((v >> 16) << 16); xs.add(((v >> 16) << 16) + rng.choice((1, -1, 65535)))
        out = []
        for x in sorted(xs):
            if finite(x):
                out.append("floor %d" % x); out.append("ceil %d" % x)
        return out
    def in_domain(self, fn, tag, a):
        return abs(a[0]) < 2**63 - 65536
    def nontrivial(self, fn, tag, a):
        return a[0] % 65536 == 0 or a[0] < 0
    def oracle(self, fn, tag, a, r):
        x = a[0]
        if not self.in_domain(fn, tag, a): return None
        if fn == "floor":
            e = (x >> 16) << 16
        else:
            e = -(((-x) >> 16) << 16)
        return None if r == e else "%s(raw %d) = %d, expected %d" % (fn, x, r, e)

# ---------------------------------------------------------------------------------------------
class C18(Suite):
    pid = "C18"; spec_module = "FixedMath.Spec.C18"
    def ops(self, tier, rng, pool):
        n = 2500 if tier == "quick" else 100000
        xs = [v for v in pool if finite(v)]
        sel = rng.sample(xs, min(len(xs), 150 if tier == "quick" else len(xs))) + gen.strat_list(rng, n // 10)
        out = []
        for x in sel:
            for r in list(range(0, 64)) if tier != "quick" else [0, 1, 2, 15, 16, 17, 31, 32, 33, 47, 48, 62, 63] + [rng.randrange(0, 64) for _ in range(4)]:
                out.append("shr %d %d" % (x, r)); out.append("shl %d %d" % (x, r))
            for r in (-1, -2, -63, -64, -65, -2**31, -2**31 + 1, -rng.randrange(1, 2**31)):
                out.append("shr %d %d" % (x, r)); out.append("shl %d %d" % (x, r))
        # every power of two and its neighbours, both signs, with every count (quick: counts that move it across
        # bit 47, 62, 63 and a few others)
        for k in range(0, 63):
            for x0 in ((1 << k), (1 << k) - 1, (1 << k) + 1, 3 << max(0, k - 1)):
                for x in (x0, -x0):
                    if not finite(x): continue
                    rs = range(0, 64) if tier != "quick" else sorted({0, 1, 16, 32, 63, max(0, 46 - k), max(0, 47 - k), max(0, 48 - k), max(0, 61 - k), max(0, 62 - k), max(0, 63 - k), min(63, 64 - k), k, min(63, k + 1), max(0, k - 1)})
                    for r in rs:
                        out.append("shr %d %d" % (x, r)); out.append("shl %d %d" % (x, r))
        for _ in range(n):
            x = gen.strat(rng); r = rng.randrange(0, 64)
            out.append("shr %d %d" % (x, r)); out.append("shl %d %d" % (x, r))
            out.append("band %d %d" % (gen.strat(rng), gen.strat(rng)))
        for a in rng.sample(pool, min(len(pool), 80)):
            for b in rng.sample(pool, 20): out.append("band %d %d" % (a, b))
        return out
    def nontrivial(self, fn, tag, a):
        if fn == "band": return a[0] < 0 or a[1] < 0
        return a[1] < 0 or a[1] >= 47 or (fn == "shl" and abs(a[0] << max(a[1], 0)) > F)
    def oracle(self, fn, tag, a, r):
        x, c = a
        if fn == "band":
            e = (x & c)
            return None if r == e else "%d & %d = %d, expected %d" % (x, c, r, e)
        if c < 0: return None if isnan_raw(r) else "negative shift count gives %d, not NaN" % r
        if fn == "shr": return None if r == x >> c else "%d >> %d = %d" % (x, c, r)
        e = x << c
        if abs(e) <= F: return None if r == e else "%d << %d = %d, exact %d in range" % (x, c, r, e)
        if (x > 0 and r < 0) or (x < 0 and r > 0): return "%d << %d = %d has the opposite sign" % (x, c, r)
        return None

# ---------------------------------------------------------------------------------------------
class C17(Suite):
    """algebraic laws: the kernels are those of C01-C03; ops here feed law-shaped operand tuples"""
    pid = "C17"; spec_module = "FixedMath.Spec.C17"
    def ops(self, tier, rng, pool):
        n = 3000 if tier == "quick" else 100000
        out = []
        fin = [v for v in pool if finite(v)]
        for _ in range(n):
            a, b = gen.strat(rng, 62), gen.strat(rng, 62)
            out += ["add %d %d" % (a, b), "add %d %d" % (b, a), "mul %d %d" % (a, b), "mul %d %d" % (b, a),
                    "sub %d %d" % (a, b), "neg %d" % b, "sub %d %d" % (a, a)]
            s = a + b
            if finite(s): out.append("sub %d %d" % (s, b))
            a = gen.strat(rng, 46)
            out += ["mul %d 65536" % a, "mul %d 0" % a, "div %d 65536" % a]
            if a: out.append("div %d %d" % (a, a))
            k = gen.strat(rng, 20)
            t = rng.choice(["i8", "i16", "i32", "i64"])
            lo, hi = int_type_range(t)
            if lo <= k <= hi and k != 0 and finite(a * k):
                out += ["mul_s:%s %d %d" % (t, a, k), "div_s:%s %d %d" % (t, a * k, k)]
            # a*n for every integral type over its whole range (a small so that the n-fold sum is finite)
            t = rng.choice(INT_TYPES); lo, hi = int_type_range(t)
            k = rng.choice([hi, hi - 1, (hi + 1) // 2, (hi + 1) // 2 + 1, gen.strat(rng, int(t[1:]) - 1, signed=False)]) if rng.random() < 0.7 else lo
            a = gen.strat(rng, 8)
            if lo <= k <= hi and k != 0 and finite(a * k):
                out += ["mul_s:%s %d %d" % (t, a, k), "rmul_s:%s %d %d" % (t, a, k), "div_s:%s %d %d" % (t, a * k, k)]
        # a*n straddling the overflow threshold, for every integral type and the large values of it
        for t in INT_TYPES:
            lo, hi = int_type_range(t)
            for _ in range(12 if tier == "quick" else 300):
                k = rng.choice([hi, hi - 1, hi // 2 + 1, hi // 2, rng.randrange(max(1, hi // 2), hi + 1), rng.randrange(1, hi + 1)] + ([lo, lo + 1, rng.randrange(lo, 0)] if lo < 0 else []))
                if k == 0: continue
                q = (2**63) // abs(k)
                for a in (q, q - 1, q + 1, q + rng.randrange(0, 1 + q // 64), q - rng.randrange(0, 1 + q // 64), 2 * q, q // 2 + 1):
                    for sa in (a, -a):
                        if abs(sa) <= F: out += ["mul_s:%s %d %d" % (t, sa, k), "rmul_s:%s %d %d" % (t, sa, k), "muleq_s:%s %d %d" % (t, sa, k)]
        out += scalar_special_pairs(rng)
        for a in rng.sample(fin, min(len(fin), 200)):
            out += ["add %d %d" % (a, -a), "sub %d %d" % (a, a), "mul %d 65536" % a, "div %d 65536" % a]
        # a-b == a+(-b) and commutativity at the overflow boundaries
        for a, b in gen.sum_boundary_pairs(rng, n // 4) + gen.diff_boundary_pairs(rng, n // 4):
            out += ["sub %d %d" % (a, b), "add %d %d" % (a, -b), "add %d %d" % (a, b), "add %d %d" % (b, a)]
        for a, b in gen.prod_boundary_pairs(rng, n // 8):
            out += ["mul %d %d" % (a, b), "mul %d %d" % (b, a)]
        return out
    def post(self, res):
        bad = []
        for l, r in res.items():
            fn, tag, a = parse_line(l)
            if fn == "sub" and tag == "":
                l2 = "add %d %d" % (a[0], -a[1])
                if l2 in res and res[l2] != r: bad.append((l, "a-b != a+(-b): %s -> %d, %s -> %d" % (l, r, l2, res[l2])))
            if fn in ("add", "mul") and tag == "":
                l2 = "%s %d %d" % (fn, a[1], a[0])
                if l2 in res and res[l2] != r: bad.append((l, "%s not commutative bit for bit: %s -> %d, %s -> %d" % (fn, l, r, l2, res[l2])))
        return bad
    # the laws themselves are theorems over the model; the per-operation oracles are those of C01-C03
    def oracle(self, fn, tag, a, r):
        if fn in ("add", "sub"): return C01().oracle(fn, tag, a, r)
        if fn == "mul": return C02().oracle(fn, tag, a, r)
        if fn in ("mul_s", "rmul_s", "muleq_s"): return C02().oracle("mul_s", tag, a, r)
        if fn in ("div", "div_s"): return C03().oracle(fn, tag, a, r)
        if fn == "neg": return None if r == -a[0] else "neg"
    def nontrivial(self, fn, tag, a):
        return fn in ("div", "div_s", "mul_s") or (len(a) == 2 and a[0] == a[1])

SUITES = {c.pid: c for c in (C01, C02, C03, C04, C06, C15, C17, C18)}

# =============================================================================================
# floating point, mixed types
import struct
def rn_int(n, p):
    """round integer n to p significant bits, ties to even; returns exact Fraction"""
    if n == 0: return Fraction(0)
    s, m = (-1 if n < 0 else 1), abs(n)
    bl = m.bit_length()
    if bl <= p: return Fraction(n)
    sh = bl - p
    q, r = m >> sh, m & ((1 << sh) - 1)
    half = 1 << (sh - 1)
    if r > half or (r == half and (q & 1)): q += 1
    return Fraction(s * (q << sh))
def ulp_of(y, p):
    """spacing of a p-bit binary format at magnitude |y| > 0 (normal range)"""
    y = abs(Fraction(y))
    e = 0
    n, d = y.numerator, y.denominator
    e = n.bit_length() - d.bit_length()
    if Fraction(2) ** e > y: e -= 1
    return Fraction(2) ** (e - p + 1)
def f32_value(bits):
    return struct.unpack("<f", struct.pack("<I", bits))[0]
def f64_value(bits):
    return struct.unpack("<d", struct.pack("<Q", bits))[0]

def double_patterns(rng, n):
    out = set()
    specials = [0.0, -0.0, 0.5, -0.5, 1.0, 2147483647.0, -2147483647.0, 2147483646.99999, 2147483648.0, 2147483646.5,
                float("inf"), float("-inf"), float("nan"), 5e-324, 2.2250738585072014e-308, 1e308, -1e308, 2.0**31, -(2.0**31),
                1.0 / 65536, 0.5 / 65536, 1.5 / 65536, 2.5 / 65536, 0.49999999999999994 / 65536, 0.25, 1e-5, 3.0e-6, 7.62939453125e-06]
    for v in specials: out.add(gen.d2b(v))
    for e_ in range(-40, 64):        # the bit-pattern neighbours of every power of two, of 3*2^e and of 2^e + 1 ulp of fixed
        for base_ in (2.0 ** e_, 3 * 2.0 ** e_, 2.0 ** e_ + 1.0 / 65536, 2.0 ** e_ - 1.0 / 65536, 2.0 ** e_ + 0.5 / 65536):
            b_ = gen.d2b(base_)
            for d_ in (-2, -1, 0, 1, 2):
                if 0 <= b_ + d_ < 2**64: out.add(b_ + d_); out.add((b_ + d_) | (1 << 63))
    for _ in range(n):
        k = rng.randrange(0, 2**47)
        for d in (0, 0.5, -0.5, 0.25, 0.4999999, 0.5000001):
            x = (k + d) / 65536.0
            out.add(gen.d2b(x)); out.add(gen.d2b(-x))
        e = rng.randrange(-40, 40)
        x = rng.random() * 2.0 ** e
        out.add(gen.d2b(x)); out.add(gen.d2b(-x))
        out.add(rng.getrandbits(64))
        b = gen.d2b(float(2**31 - 1)) + rng.randrange(-40, 40)
        out.add(b); out.add(b | (1 << 63))
    return sorted(out)

def float_patterns(rng, n, exhaustive_stride=None):
    out = set()
    for v in [0.0, -0.0, 0.5, 1.0, 2147483648.0, -2147483648.0, 2147483520.0, float("inf"), float("-inf"), 1e-45, 1.17549435e-38, 3.4e38,
              1.0 / 65536, 0.5 / 65536, 1.5 / 65536, 128.0, 8388608.0, 16777216.0, 90.0, 180.0, 360.0, -90.0, 45.0]:
        out.add(gen.f2b(v))
    out.add(0x7fc00000); out.add(0xffc00000); out.add(0x7f800001)
    for e_ in range(-40, 40):
        for base_ in (2.0 ** e_, 3 * 2.0 ** e_, 2.0 ** e_ + 1.0 / 65536):
            b_ = gen.f2b(base_)
            for d_ in (-2, -1, 0, 1, 2):
                if 0 <= b_ + d_ < 2**32: out.add(b_ + d_); out.add((b_ + d_) | (1 << 31))
    for _ in range(n):
        out.add(rng.getrandbits(32))
        e = rng.randrange(-30, 34)
        x = rng.random() * 2.0 ** e
        out.add(gen.f2b(x)); out.add(gen.f2b(-x))
        b = gen.f2b(2147483520.0) + rng.randrange(-20, 20)
        out.add(b); out.add(b | (1 << 31))
    if exhaustive_stride:
        out |= set(range(0, 2**32, exhaustive_stride))
    return sorted(out)

class C05(Suite):
    pid = "C05"; spec_module = "FixedMath.Spec.C05"
    def ops(self, tier, rng, pool):
        n = 3000 if tier == "quick" else 100000
        out = []
        for b in double_patterns(rng, n): out.append("fp_to_fixed:f64 %d" % b)
        for b in float_patterns(rng, n * 3, None if tier == "quick" else 4099): out.append("fp_to_fixed:f32 %d" % b)
        xs = set(v for v in pool if v != I64MIN)
        for _ in range(n * 3): xs.add(gen.strat(rng))
        for x in sorted(xs):
            out.append("to_fp:f64 %d" % x); out.append("to_fp:f32 %d" % x)
            if abs(x) < 2**47 + 10: out.append("roundtrip_d %d" % x)
        for _ in range(n * 2):
            x = gen.strat(rng, 47); out.append("roundtrip_d %d" % x)
        # double-rounding probes: raw values next to a float tie that a detour through double (or through a
        # separately rounded integral part) lands exactly on the tie
        for e in range(24, 63):
            for _ in range(6 if tier == "quick" else 60):
                k = rng.randrange(2**24, 2**25) | 1
                tie = k << (e - 24) if e >= 24 else k
                ds = {1, 2, 3} | ({(1 << (e - 53)) - 1, (1 << (e - 54))} if e >= 54 else set()) | ({(1 << (e - 25)) - 1} if e >= 26 else set())
                for d in ds:
                    for x in (tie + d, tie - d, -(tie + d), -(tie - d), tie, -tie):
                        if abs(x) < 2**63 - 1: out.append("to_fp:f32 %d" % x); out.append("to_fp:f64 %d" % x)
        return out
    def nontrivial(self, fn, tag, a):
        if fn == "fp_to_fixed":
            v = f64_value(a[0]) if tag == "f64" else f32_value(a[0])
            return not (abs(v) < 2**31 - 2) or v != v
        return abs(a[0]) >= 2**24
    def oracle(self, fn, tag, a, r):
        if fn == "fp_to_fixed":
            v = f64_value(a[0]) if tag == "f64" else f32_value(a[0])
            p = 53 if tag == "f64" else 24
            if v != v or v in (float("inf"), float("-inf")) or not (abs(v) < 2**31 - 1):
                return None if isnan_raw(r) else "fixed(%r) = raw %d is not NaN" % (v, r)
            if isnan_raw(r): return "fixed(%r) is NaN although |v| < 2^31-1" % v
            y = Fraction(v) * 65536
            tol = Fraction(1, 2) + (ulp_of(abs(y) + Fraction(1, 2), p) / 2 if y != 0 else 0)
            if abs(r - y) > tol: return "fixed(%r) = raw %d, exact %s, error exceeds %s" % (v, r, y, tol)
            if abs(r - y) == Fraction(1, 2) and abs(r) < abs(y): return "tie not rounded away from zero: fixed(%r) = raw %d" % (v, r)
            return None
        if fn == "to_fp":
            x = a[0]
            if r == "nan": return "conversion to floating point gives NaN"
            val = Fraction(f64_value(r)) if tag == "f64" else Fraction(f32_value(r))
            if tag == "f64":
                if abs(x) <= 2**53: return None if val == Fraction(x, 65536) else "double(raw %d) = %s is not exact" % (x, val)
                return None if val == rn_int(x, 53) / 65536 else "double(raw %d) not correctly rounded" % x
            return None if val == rn_int(x, 24) / 65536 else "float(raw %d) = %s is not the correctly rounded value %s" % (x, val, rn_int(x, 24) / 65536)
        if fn == "roundtrip_d":
            x = a[0]
            if abs(x) < (2**31 - 1) * 65536: return None if r == x else "fixed -> double -> fixed of raw %d gives %d" % (x, r)
            return None   # the sliver 2^31-1 <= |x| < 2^31 and beyond: sentence 1 of C05 demands NaN (see DESIGN.md)

def c01_expect(e):
    return e if abs(e) <= F else None   # None = must be NaN

class C16(Suite):
    pid = "C16"; spec_module = "FixedMath.Spec.C16"
    def ops(self, tier, rng, pool):
        m = 40 if tier == "quick" else 600
        out = []
        fin = [v for v in pool if finite(v)]
        def some_a(k):
            return [rng.choice(fin) for _ in range(k)] + [gen.strat(rng) for _ in range(k)] + [gen.strat(rng, 40) for _ in range(k)] + [0, 65536, -65536, F, -F]
        for t in INT_TYPES:
            tv = gen.type_values(rng, t, m, pool, derived_cap=12, cap=(260 if tier == "quick" else None))
            for nn in tv:
                for a in some_a(2):
                    for f in ("add_i", "radd_i", "addeq_i", "sub_i", "rsub_i", "subeq_i", "mul_s", "rmul_s", "muleq_s", "div_s", "diveq_s", "rdiv_i",
                              "ref_add_i", "ref_sub_i", "ref_rsub_i", "ref_rdiv_i"):
                        out.append("%s:%s %d %d" % (f, t, a, nn))
        out += scalar_special_pairs(rng)
        for b in float_patterns(rng, m * (6 if tier == "quick" else 20)):
            for a in some_a(1):
                for f in ("add_f", "radd_f", "addeq_f", "sub_f", "rsub_f", "subeq_f", "mul_f", "rmul_f", "muleq_f", "div_f", "rdiv_f", "diveq_f",
                          "ref_add_f", "ref_sub_f", "ref_rsub_f", "ref_mul_f", "ref_div_f", "ref_rdiv_f"):
                    out.append("%s %d %d" % (f, a, b))
        # the binade where float rounding of value*65536+0.5f is visible (odd mantissas in [128, 256) and neighbours)
        for _ in range(m * 6):
            e = rng.choice([6, 7, 7, 7, 8, 9, 14, 20, 30])
            b = gen.f2b(float(2 ** e)) + rng.randrange(0, 2 ** 23)
            for a in (65536, gen.strat(rng, 30)):
                for f in ("add_f", "mul_f", "sub_f", "rsub_f", "ref_add_f", "ref_mul_f", "ref_sub_f", "ref_rsub_f"):
                    out.append("%s %d %d" % (f, a, b)); out.append("%s %d %d" % (f, a, b | (1 << 31)))
        for b in double_patterns(rng, m * 4):
            for a in some_a(1):
                for f in ("add_d", "radd_d", "sub_d", "rsub_d", "mul_d", "rmul_d", "div_d", "rdiv_d"):
                    out.append("%s %d %d" % (f, a, b))
        return out
    def nontrivial(self, fn, tag, a):
        if "mul" in fn and tag in INT_TYPES and abs(a[0] * a[1]) >= 2**62: return True
        return tag == "u64" and a[1] >= 2**63 or abs(a[0]) >= 2**46 or fn.endswith("_d")
    def oracle(self, fn, tag, a, r):
        x, t = a
        if fn.startswith("ref_"): fn = fn[4:]
        if fn.endswith("_d"):
            d = f64_value(t)
            xa = float(x) / 65536.0
            try:
                e = {"add_d": lambda: xa + d, "radd_d": lambda: d + xa, "sub_d": lambda: xa - d, "rsub_d": lambda: d - xa,
                     "mul_d": lambda: xa * d, "rmul_d": lambda: d * xa,
                     "div_d": lambda: pydiv(xa, d), "rdiv_d": lambda: pydiv(d, xa)}[fn]()
            except OverflowError:
                return None
            if e != e: return None if r == "nan" else "%s: expected NaN, got bits %s" % (fn, r)
            if r == "nan": return "%s: got NaN, expected %r" % (fn, e)
            return None if gen.d2b(e) == r else "%s(raw %d, %r) = %r, IEEE result %r" % (fn, x, d, f64_value(r), e)
        if r == "nan": return "integer-valued result expected"
        if tag in INT_TYPES:
            n = t
            if fn in ("mul_s", "rmul_s", "muleq_s"): return C02().oracle("mul_s", tag, [x, n], r)
            if fn in ("div_s", "diveq_s"): return C03().oracle("div_s", tag, [x, n], r)
            if abs(n) > 2**31 - 1: return None          # conversion is NaN: outside the property's premise
            c = n * 65536
            if fn in ("add_i", "radd_i", "addeq_i"): return C01().oracle("add", "", [x, c], r)
            if fn in ("sub_i", "subeq_i"): return C01().oracle("sub", "", [x, c], r)
            if fn == "rsub_i": return C01().oracle("sub", "", [c, x], r)
            if fn == "rdiv_i": return C03().oracle("div", "", [c, x], r)
            return None
        # float operand: admissible conversions c of t per C05, result must equal op(a, c) for one of them
        v = f32_value(t)
        if v != v or not (abs(v) < 2**31 - 1): return None
        y = Fraction(v) * 65536
        tol = Fraction(1, 2) + (ulp_of(abs(y) + Fraction(1, 2), 24) / 2 if y != 0 else 0)
        lo, hi = math.ceil(y - tol), math.floor(y + tol)
        if hi - lo > 64: return None
        b = fn[:-2].lstrip("r") if fn.startswith("r") else fn[:-2]
        b = b.replace("eq", "")
        errs = []
        for c in range(lo, hi + 1):
            if fn.startswith("r"): args = [c, x]
            else: args = [x, c]
            w = {"add": C01().oracle, "sub": C01().oracle, "mul": C02().oracle, "div": C03().oracle}[b](b, "", args, r)
            if w is None: return None
            errs.append(w)
        return "no admissible conversion of %r explains the result: %s" % (v, errs[0])

def c16_post(self, res):
    bad = []
    REF = {"add_i": "ref_add_i", "radd_i": "ref_add_i", "addeq_i": "ref_add_i", "sub_i": "ref_sub_i", "subeq_i": "ref_sub_i",
           "rsub_i": "ref_rsub_i", "rdiv_i": "ref_rdiv_i",
           "add_f": "ref_add_f", "radd_f": "ref_add_f", "addeq_f": "ref_add_f", "sub_f": "ref_sub_f", "subeq_f": "ref_sub_f", "rsub_f": "ref_rsub_f",
           "mul_f": "ref_mul_f", "rmul_f": "ref_mul_f", "muleq_f": "ref_mul_f", "div_f": "ref_div_f", "diveq_f": "ref_div_f", "rdiv_f": "ref_rdiv_f"}
    for l, r in res.items():
        head, rest = l.split(" ", 1)
        fn, _, tag = head.partition(":")
        if fn in REF:
            l2 = REF[fn] + (":" + tag if tag else "") + " " + rest
            if l2 in res and res[l2] != r:
                bad.append((l, "a op t differs from a op fixed_t(t): %s -> %s, %s -> %s" % (l, r, l2, res[l2])))
    return bad
C16.post = c16_post

def pydiv(a, b):
    if b == 0:
        if a == 0 or a != a: return float("nan")
        s = math.copysign(1, a) * math.copysign(1, b)
        return math.copysign(float("inf"), s)
    return a / b

for c in (C05, C16): SUITES[c.pid] = c

# =============================================================================================
# sqrt, hypot
def isqrt(n): return math.isqrt(n)

class C13(Suite):
    pid = "C13"; spec_module = "FixedMath.Spec.C13"; needs_abacus_leg = True
    fns = ("sqrt_abacus", "sqrt_std", "sqrt:dflt")
    def ops(self, tier, rng, pool):
        n = 6000 if tier == "quick" else 300000
        xs = set(v for v in pool if 0 <= v < 2**47) | set(range(0, 3000))
        for _ in range(n):
            r = gen.strat(rng, 31, signed=False)
            N = r * r
            for NN in (N, N - 1, N + 1, N + r, N + r + 1, N + 2 * r, N + 2 * r + 1):
                v = NN >> 16
                for d in (-1, 0, 1):
                    if 0 <= v + d < 2**47: xs.add(v + d)
            k = gen.strat(rng, 23, signed=False) * 256
            if k * k // 65536 < 2**47: xs.add(k * k // 65536)
            v = gen.strat(rng, 47, signed=False); xs.add(v); xs.add(v + 1)
        out = []
        for x in sorted(xs):
            for f in self.fns: out.append("%s %d" % (f, x))
        for v in [-1, -2, -65536, -F, -NANP, -(2**47)] + [-gen.strat(rng, 62, signed=False) - 1 for _ in range(200)]:
            for f in self.fns: out.append("%s %d" % (f, v))
        return out
    def nontrivial(self, fn, tag, a):
        N = a[0] << 16 if a[0] >= 0 else 0
        r = isqrt(N)
        return a[0] < 0 or a[0] >= 2**46 or r * r == N
    def oracle(self, fn, tag, a, r):
        v = a[0]
        if v < 0: return None if isnan_raw(r) else "sqrt(raw %d) = %d is not NaN" % (v, r)
        if v >= 2**47: return None
        N = v << 16
        if r < 0: return "sqrt(raw %d) = %d is negative" % (v, r)
        if not ((r == 0 or (r - 1) ** 2 < N) and N < (r + 1) ** 2) and not (N == 0 and r == 0):
            return "sqrt(raw %d) = %d, true root %d.., error >= 1 ulp" % (v, r, isqrt(N))
        s = isqrt(N)
        if s * s == N and r != s: return "sqrt of the exact square raw %d is %d, not %d" % (v, r, s)
        return None
    def post(self, res):
        bad = []
        for f in self.fns:
            pts = sorted((suites_arg(l), r, l) for l, r in res.items() if l.startswith(f + " ") and 0 <= suites_arg(l) < 2**47)
            for (x0, r0, l0), (x1, r1, l1) in zip(pts, pts[1:]):
                if r1 < r0: bad.append((l1, "not monotone: %s(%d) = %d > %s(%d) = %d" % (f, x0, r0, f, x1, r1)))
        return bad

def suites_arg(line): return int(line.split()[1])

class C14(Suite):
    pid = "C14"; spec_module = "FixedMath.Spec.C14"; needs_abacus_leg = True
    def ops(self, tier, rng, pool):
        n = 6000 if tier == "quick" else 300000
        pairs = set()
        b47 = [v for v in pool if abs(v) < 2**47]
        edge = [v for v in b47 if 2**28 <= abs(v) <= 2**31 or abs(v) <= 70000 or abs(v) >= 2**45]
        for a in rng.sample(edge, min(len(edge), 120)):
            for b in rng.sample(edge, 25): pairs.add((a, b))
        for _ in range(n):
            pairs.add((gen.strat(rng, 46), gen.strat(rng, 46)))
            pairs.add((gen.strat(rng, 30), gen.strat(rng, 16)))
            a = rng.randrange(2**29, 2**30); pairs.add((a, gen.strat(rng, 16))); pairs.add((a + rng.randrange(0, 2**20), gen.strat(rng, 30)))
            pairs.add((gen.strat(rng, 46), 0))
        out = []
        for a, b in sorted(pairs):
            out.append("hypot:dflt %d %d" % (a, b)); out.append("hypot:dflt %d %d" % (b, a)); out.append("hypot:dflt %d %d" % (abs(a), abs(b)))
        return out
    def nontrivial(self, fn, tag, a):
        return max(abs(a[0]), abs(a[1])) >= 2**29 or min(abs(a[0]), abs(a[1])) < 65536
    def oracle(self, fn, tag, a, r):
        x, y = abs(a[0]), abs(a[1])
        S = x * x + y * y
        if isnan_raw(r) or r < 0: return "hypot(raw %d, raw %d) = %d is NaN or negative" % (a[0], a[1], r)
        if x < 2**30 and y < 2**30:
            lo = max(r - 2, 0)
            if not (lo * lo <= S <= (r + 2) ** 2): return "hypot(raw %d, raw %d) = %d, true %.3f: error > 2 ulp" % (a[0], a[1], r, math.sqrt(S))
            return None
        k = Fraction(3, 20000)
        if not (((1 - k) ** 2) * S <= r * r <= ((1 + k) ** 2) * S): return "hypot(raw %d, raw %d) = %d, true %.1f: relative error > 1.5e-4" % (a[0], a[1], r, math.sqrt(S))
        return None
    def deep_search(self, tier, rng):
        """only when the correspondence is broken and no recorded input violates the property: magnitude-matched
        operand pairs (same binade, adjacent binades, sums that carry) in volume, on both sqrt back-ends"""
        import fmlib
        found = []
        total = 3_000_000 if tier == "quick" else 30_000_000
        for variant in (fmlib.V_DEFAULT, fmlib.V_ABACUS):
            exe, _ = fmlib.build_harness(variant)
            done = 0
            while done < total and not found:
                lines = []
                for _ in range(500_000):
                    k = rng.randrange(14, 47)
                    a = rng.randrange(2**k, 2**(k + 1))
                    c = rng.random()
                    if c < 0.6: b = rng.randrange(2**k, 2**(k + 1))
                    elif c < 0.8: b = rng.randrange(2**(k - 1), 2**k)
                    else: b = rng.randrange(0, 2**rng.randrange(1, k + 1))
                    lines.append("hypot:dflt %d %d" % (a, b))
                done += len(lines)
                o, rc, err = fmlib.run_parallel(exe, lines)
                for l, io in zip(lines, o):
                    r = parse_out(io)
                    if r is None: continue
                    fn, tag, a = parse_line(l)
                    why = self.oracle(fn, tag, a, r)
                    if why:
                        found.append({"kind": "input", "input": l, "leg": variant.name, "observed": io, "why": why + " (found by the magnitude-matched deep search)"})
                        if len(found) >= 5: return found
        return found
    def post(self, res):
        bad = []
        for l, r in res.items():
            _, _, a = parse_line(l)
            for l2 in ("hypot:dflt %d %d" % (a[1], a[0]), "hypot:dflt %d %d" % (abs(a[0]), abs(a[1]))):
                if l2 in res and res[l2] != r: bad.append((l, "hypot not symmetric / sign independent: %s -> %d but %s -> %d" % (l, r, l2, res[l2])))
        return bad

# =============================================================================================
# trigonometry
PI = math.pi
def hp():
    if mpmath is None: return None
    return mpmath

def ref_check(err_fn_fast, err_fn_hp, bound_fast):
    pass

class C09(Suite):
    pid = "C09"; spec_module = "FixedMath.Spec.C09"; ub_sample = 30000
    def ops(self, tier, rng, pool):
        out = []
        lim = 2 * PHI
        for v in range(-lim - 2, lim + 3):
            out.append("sin %d" % v); out.append("cos %d" % v)
        n = 3000 if tier == "quick" else 200000
        for _ in range(n):
            x = gen.strat(rng, 61); k = rng.randrange(-2**40, 2**40) if rng.random() < 0.5 else rng.randrange(-50, 50)
            y = x + k * 2 * PHI
            if abs(y) < 2**62:
                for f in ("sin", "cos"): out.append("%s %d" % (f, x)); out.append("%s %d" % (f, y))
        # the seams of the range reduction (residues around -pi/2, 3pi/2, 0, pi) at many multiples of the period, small
        # and large, and the largest magnitudes, where a reduction through a reciprocal or through double gives way
        seams = (-102945, -102944, -102943, -102942, 102943, 102944, 308829, 308830, 308831, -1, 0, 1, 205886, 205887, 205888)
        ms = set(rng.sample(range(0, 60000), 2500 if tier == "quick" else 60000)) | {2**k + d for k in range(16, 43) for d in (-1, 0, 1)}
        for m_ in ms:
            for sd in seams:
                for x in (m_ * 2 * PHI + sd, -(m_ * 2 * PHI) + sd):
                    if abs(x) < 2**62: out.append("sin %d" % x); out.append("cos %d" % x)
        for _ in range(15000 if tier == "quick" else 400000):
            x = rng.randrange(2**58, 2**62) * rng.choice((1, -1))
            out.append("sin %d" % x); out.append("cos %d" % x)
        for _ in range(300 if tier == "quick" else 6000):
            m_ = rng.randrange(2**38, 2**43 + 2**42)
            for sd0 in (-102944, 308830, 0, 205887):
                for d in range(-1200, 1201, 37):
                    x = m_ * 2 * PHI + sd0 + d
                    if abs(x) < 2**62: out.append("sin %d" % x); out.append("cos %d" % (-x))
        for x in gen.period_limit_probes(2 * PHI):
            out.append("sin %d" % x); out.append("cos %d" % x)
            if (x & 3) == 0: out.append("sin %d" % -x); out.append("cos %d" % -x)
        for v in pool:
            if abs(v) < 2**62: out.append("sin %d" % v); out.append("cos %d" % v); out.append("sin_range %d" % v)
        return out
    def nontrivial(self, fn, tag, a):
        return abs(a[0]) > PHI // 2
    def oracle(self, fn, tag, a, r):
        if fn == "sin_range": return None
        v = a[0]
        if abs(r) > 65536: return "%s(raw %d) = %d is outside [-1, 1]" % (fn, v, r)
        if abs(v) > 2 * PHI: return None
        x = v / 65536.0
        t = math.sin(x) if fn == "sin" else math.cos(x)
        rr = abs(math.asin(max(-1.0, min(1.0, t))))
        bound = 4 / 65536.0 + rr ** 9 / 362880.0
        err = abs(r / 65536.0 - t)
        if err > bound + 1e-9: return "%s(raw %d) = %d: error %.3f ulp exceeds 4 ulp + r^9/9! = %.3f ulp" % (fn, v, r, err * 65536, bound * 65536)
        if err > bound - 1e-9 and mpmath:
            X = mpmath.mpf(v) / 65536
            T = mpmath.sin(X) if fn == "sin" else mpmath.cos(X)
            if abs(mpmath.mpf(r) / 65536 - T) > mpmath.mpf(4) / 65536 + abs(mpmath.asin(T)) ** 9 / 362880:
                return "%s(raw %d) = %d exceeds the bound (high precision)" % (fn, v, r)
        return None
    def companions(self, fn, tag, a):
        """the reduced representatives the periodicity relation compares a large argument with"""
        if fn not in ("sin", "cos"): return []
        m = 2 * PHI; y = a[0] - (a[0] // m) * m
        return ["%s %d" % (fn, y), "%s %d" % (fn, y - m)]
    def post(self, res):
        bad = []
        for l, r in res.items():
            fn, _, a = parse_line(l)
            if fn not in ("sin", "cos"): continue
            x = a[0]
            if abs(x) <= 2 * PHI + 2: continue
            # periodicity against the reduced representative in the exhaustive range
            m = 2 * PHI
            y = x - (x // m) * m
            for yy in (y, y - m):
                l2 = "%s %d" % (fn, yy)
                if l2 in res and abs(yy) < 2**62 and res[l2] != r:
                    bad.append((l, "%s not periodic: %s -> %d, %s -> %d" % (fn, l, r, l2, res[l2])))
        return bad

def tan_ref_ok(v, r, const):
    x = v / 65536.0
    t = math.tan(x)
    err = abs(r / 65536.0 - t)
    bound = const / 65536.0 * (1 + t * t)
    if err <= bound * (1 - 1e-7): return True
    if err > bound * (1 + 1e-7) or not mpmath: return False
    X = mpmath.mpf(v) / 65536; T = mpmath.tan(X)
    return abs(mpmath.mpf(r) / 65536 - T) <= mpmath.mpf(const) / 65536 * (1 + T * T)

class C10(Suite):
    pid = "C10"; spec_module = "FixedMath.Spec.C10"; ub_sample = 30000
    def ops(self, tier, rng, pool):
        out = ["tan %d" % v for v in range(-PHI - 2, PHI + 3)]
        n = 3000 if tier == "quick" else 200000
        for _ in range(n):
            x = gen.strat(rng, 60, signed=False); k = rng.randrange(0, 2**40) if rng.random() < 0.5 else rng.randrange(0, 50)
            if x + k * PHI < 2**62: out += ["tan %d" % x, "tan %d" % (x + k * PHI), "tan %d" % (-x)]
            j = rng.randrange(0, 2**41)
            p = j * PHI + PIDIV2
            for d in (-1, 0, 1):
                if p + d < 2**62: out += ["tan %d" % (p + d), "tan %d" % (-(p + d))]
        for x in gen.period_limit_probes(PHI):
            out += ["tan %d" % x, "tan %d" % (x % PHI)]
            if (x & 3) == 0: out.append("tan %d" % -x)
        for v in pool:
            if abs(v) < 2**62: out += ["tan %d" % v, "tan %d" % (-v), "tan_range %d" % abs(v)]
        return out
    def nontrivial(self, fn, tag, a):
        return abs(a[0]) > PIDIV4
    def oracle(self, fn, tag, a, r):
        if fn != "tan": return None
        v = a[0]
        pole = abs(v) % PHI == PIDIV2
        if isnan_raw(r): return None if pole else "tan(raw %d) is NaN away from the pole" % v
        if pole: return "tan(raw %d) = %d is not NaN at the pole" % (v, r)
        if abs(v) > PHI: return None
        return None if tan_ref_ok(v, r, 2.5) else "tan(raw %d) = %d (true %.6f): exceeds 2.5 ulp*(1+tan^2)" % (v, r, math.tan(v / 65536.0) * 65536)
    def companions(self, fn, tag, a):
        if fn != "tan": return []
        return ["tan %d" % (-a[0]), "tan %d" % (abs(a[0]) % PHI), "tan %d" % (-(abs(a[0]) % PHI))]
    def post(self, res):
        bad = []
        for l, r in res.items():
            fn, _, a = parse_line(l)
            if fn != "tan": continue
            x = a[0]
            l2 = "tan %d" % (-x)
            if l2 in res and not isnan_raw(r) and res[l2] != -r: bad.append((l, "tan not odd: %s -> %d, %s -> %d" % (l, r, l2, res[l2])))
            if x > PHI + 2:
                l3 = "tan %d" % (x % PHI)
                if l3 in res and res[l3] != r: bad.append((l, "tan not periodic: %s -> %d, %s -> %d" % (l, r, l3, res[l3])))
        return bad

def atan_whole_numbers():
    return ["atan %d" % (k * 4096) for k in range(0, 16 * 1200)] + ["atan %d" % (k * 65536) for k in range(1200, 40000, 3)]

class C11(Suite):
    pid = "C11"; spec_module = "FixedMath.Spec.C11"; ub_sample = 30000
    def ops(self, tier, rng, pool):
        out = []
        top = 200000 if tier == "quick" else 600000
        for v in range(0, top): out.append("atan %d" % v)
        for v in range(0, top, 7): out.append("atan %d" % (-v))
        for v in range(0, 28672 + 5): out.append("atan_k16 %d" % v)
        out += atan_whole_numbers()
        lits = [c for c in gen.scrape_literals() if 256 <= c < 2**40]
        for x in gen.shifted_quotient_probes(lits):
            if x < 2**47: out.append("atan %d" % x); out.append("atan %d" % (-x)); out.append("atan2 %d 65536" % x)
        n = 6000 if tier == "quick" else 300000
        for _ in range(n):
            x = gen.strat(rng, 47); out.append("atan %d" % x); out.append("atan %d" % (-x)); out.append("atan %d" % (x + 1))
            y, xx = gen.strat(rng, 46), gen.strat(rng, 46)
            out.append("atan2 %d %d" % (y, xx))
            out.append("atan2 %d %d" % (gen.strat(rng, 46), gen.strat(rng, 12)))
            out.append("atan2 %d %d" % (gen.strat(rng, 12), gen.strat(rng, 46)))
            out.append("atan2 %d %d" % (gen.strat(rng, 20), gen.strat(rng, 20)))
        b = [v for v in pool if abs(v) < 2**47]
        for v in b: out += ["atan %d" % v, "atan2 %d 0" % v, "atan2 0 %d" % v, "atan2 %d %d" % (v, v), "atan2 %d %d" % (v, -v), "atan2 %d 1" % v, "atan2 %d -1" % v, "atan2 1 %d" % v]
        out.append("atan2 0 0")
        return out
    def nontrivial(self, fn, tag, a):
        return abs(a[0]) >= 28672 or (fn == "atan2" and (a[0] == 0 or a[1] <= 0))
    def oracle(self, fn, tag, a, r):
        if fn == "atan":
            v = a[0]
            if abs(v) >= 2**47: return None
            if abs(r) > PIDIV2: return "|atan(raw %d)| = %d exceeds the library's pi/2" % (v, abs(r))
            err = abs(r / 65536.0 - math.atan(v / 65536.0))
            return None if err <= 5e-5 + 1e-12 else "atan(raw %d) = %d: error %.3e > 5e-5" % (v, r, err)
        if fn == "atan2":
            y, x = a
            if abs(y) >= 2**47 or abs(x) >= 2**47: return None
            if x == 0 and y == 0: return None if isnan_raw(r) else "atan2(0,0) = %d is not NaN" % r
            if isnan_raw(r): return "atan2(raw %d, raw %d) is NaN" % (y, x)
            if x == 0: return None if r == (PIDIV2 if y > 0 else -PIDIV2) else "atan2(raw %d, 0) = %d" % (y, r)
            if y == 0: return None if r == (0 if x > 0 else PHI) else "atan2(0, raw %d) = %d" % (x, r)
            if (y > 0 and r < 0) or (y < 0 and r > 0): return "atan2(raw %d, raw %d) = %d has the wrong sign" % (y, x, r)
            t = math.atan2(y, x)
            err = abs(r / 65536.0 - t)
            if err > math.pi: err = abs(err - 2 * math.pi)      # -pi and pi denote the same angle
            return None if err <= 8e-5 + 1e-12 else "atan2(raw %d, raw %d) = %d: error %.3e > 8e-5" % (y, x, r, err)
        return None
    def post(self, res):
        bad = []
        pts = sorted((suites_arg(l), r, l) for l, r in res.items() if l.startswith("atan ") and abs(suites_arg(l)) < 2**47)
        best = None
        for x, r, l in pts:
            if best is not None and r + 2 < best[1]: bad.append((l, "atan(raw %d) = %d but atan(raw %d) = %d: decreases by more than 2 ulp" % (x, r, best[0], best[1])))
            if best is None or r > best[1]: best = (x, r)
            l2 = "atan %d" % (-x)
            if l2 in res and res[l2] != -r: bad.append((l, "atan not odd at raw %d" % x))
        return bad

class C12(Suite):
    pid = "C12"; spec_module = "FixedMath.Spec.C12"; needs_abacus_leg = True; ub_sample = 30000
    def ops(self, tier, rng, pool):
        out = []
        for v in range(-65536 - 40, 65536 + 41):
            out.append("asin:dflt %d" % v); out.append("acos:dflt %d" % v)
        for v in pool + gen.strat_list(rng, 500):
            out.append("asin:dflt %d" % v); out.append("acos:dflt %d" % v)
        return out
    def nontrivial(self, fn, tag, a):
        return abs(a[0]) > 39322
    def oracle(self, fn, tag, a, r):
        v = a[0]
        if abs(v) > 65536: return None if isnan_raw(r) else "%s(raw %d) = %d is not NaN" % (fn, v, r)
        if isnan_raw(r): return "%s(raw %d) is NaN inside [-1, 1]" % (fn, v)
        u = 1 / 65536.0
        if fn == "asin":
            A = r * u
            lo = math.asin(max(-1.0, (v - 2) * u)); hi = math.asin(min(1.0, (v + 2) * u))
            if A + 4 * u < lo - 1e-11 or A - 4 * u > hi + 1e-11:
                return "asin(raw %d) = %d: no x' within 2 ulp with |asin(x) - asin x'| <= 4 ulp (asin range [%.2f, %.2f] ulp)" % (v, r, lo * 65536, hi * 65536)
            return None
        return None
    def post(self, res):
        bad = []
        pts = sorted((suites_arg(l), r, l) for l, r in res.items() if l.startswith("asin:") and abs(suites_arg(l)) <= 65536)
        for (x0, r0, l0), (x1, r1, l1) in zip(pts, pts[1:]):
            if r1 < r0: bad.append((l1, "asin not monotone: asin(raw %d) = %d > asin(raw %d) = %d" % (x0, r0, x1, r1)))
        for x, r, l in pts:
            l2 = "asin:dflt %d" % (-x)
            if l2 in res and res[l2] != -r: bad.append((l, "asin not odd at raw %d" % x))
            l3 = "acos:dflt %d" % x
            if l3 in res:
                c = res[l3]
                if abs(c / 65536.0 - (math.pi / 2 - r / 65536.0)) > 1 / 65536.0 + 1e-12: bad.append((l3, "acos(raw %d) = %d is not within 1 ulp of pi/2 - asin = %.3f" % (x, c, (math.pi / 2) * 65536 - r)))
                if c < -1 or c > math.pi * 65536 + 1: bad.append((l3, "acos(raw %d) = %d outside [0, pi] by more than 1 ulp" % (x, c)))
        return bad

for c in (C13, C14, C09, C10, C11, C12): SUITES[c.pid] = c

# =============================================================================================
# tables, degree helpers
def sin_deg(d): return math.sin(math.radians(d))
def cos_deg(d): return math.cos(math.radians(d))

class C19(Suite):
    pid = "C19"; spec_module = "FixedMath.Spec.C19"
    def ops(self, tier, rng, pool):
        out = []
        for i in range(361): out += ["sin_tab %d" % i, "cos_tab %d" % i]
        for i in range(256): out += ["tan_tab %d" % i, "sqrt_tab %d" % i]
        span = 3000 if tier == "quick" else 200000
        ds = set(range(-span, span + 1)) | {-2**31, -2**31 + 1, 2**31 - 1, 2**31 - 2, 360, 361, 720, -360, -361, -1, -359}
        for _ in range(span): ds.add(rng.randrange(-2**31, 2**31))
        for d in sorted(ds): out += ["sin_aprox %d" % d, "cos_aprox %d" % d]
        xs = set(range(0, 70000 if tier == "quick" else 600000))
        for k in range(0, 37):
            for d in range(-3, 4):
                if 0 < (1 << k) + d < 2**37: xs.add((1 << k) + d)
        n = 20000 if tier == "quick" else 400000
        for _ in range(n): xs.add(gen.strat(rng, 37, signed=False))
        # cell boundaries: index * 2^cl
        for cl in range(0, 32, 2):
            for index in (63, 64, 65, 127, 128, 200, 255, 256):
                for d in (-1, 0, 1):
                    v = (index << cl) + d
                    if 0 < v < 2**37: xs.add(v)
        for x in sorted(xs): out.append("sqrt_aprox %d" % x)
        for v in (-1, -65536, -F, -NANP, 0): out.append("sqrt_aprox %d" % v)
        ys = set(v for v in pool if abs(v) < 2**47) | set(range(-70000, 70000, 7))
        for _ in range(n): ys.add(gen.strat(rng, 46)); ys.add(gen.strat(rng, 22))
        for y in sorted(ys): out.append("atan_index %d" % y)
        return out
    def nontrivial(self, fn, tag, a):
        return a[0] < 0 or a[0] > 360
    def oracle(self, fn, tag, a, r):
        u = 1 / 65536.0
        x = a[0]
        if fn in ("sin_tab", "sin_aprox"):
            e = abs(r * u - sin_deg(x % 360 if fn == "sin_aprox" else x))
            return None if e <= 2 * u + 1e-12 else "%s(%d) = %d: %.3f ulp from sin" % (fn, x, r, e * 65536)
        if fn in ("cos_tab", "cos_aprox"):
            e = abs(r * u - cos_deg(x % 360 if fn == "cos_aprox" else x))
            return None if e <= 2 * u + 1e-12 else "%s(%d) = %d: %.3f ulp from cos" % (fn, x, r, e * 65536)
        if fn == "tan_tab":
            if x == 128: return None
            t = math.tan(x * math.pi / 256)
            e = abs(r * u - t)
            return None if e <= 2 * u * (1 + t * t) * (1 + 1e-9) else "tan_tab(%d) = %d: error %.3f ulp*(1+tan^2)" % (x, r, e / (u * (1 + t * t)))
        if fn == "sqrt_tab":
            t = 65536 * math.sqrt(x / 256.0 + 31 / 2.0**18)
            return None if abs(r - t) <= 1 + 1e-9 else "sqrt_tab(%d) = %d, expected %.3f" % (x, r, t)
        if fn == "sqrt_aprox":
            if x < 0: return None if isnan_raw(r) else "sqrt_aprox(raw %d) = %d is not NaN" % (x, r)
            if x == 0: return None if r == 0 else "sqrt_aprox(0) = %d" % r
            if x >= 2**37: return None
            t = math.sqrt(x * 65536.0)
            return None if abs(r - t) <= 0.02 * t * (1 + 1e-12) else "sqrt_aprox(raw %d) = %d, true %.1f: relative error %.4f > 2%%" % (x, r, t, abs(r - t) / t)
        if fn == "atan_index":
            if abs(x) >= 2**47: return None
            t = math.atan(x / 65536.0) * 128 / math.pi
            return None if abs(r * u - t) <= 1.25 + 1e-9 else "atan_index_aprox(raw %d) = %.4f, atan*128/pi = %.4f" % (x, r * u, t)
        return None

ANGLE_TAGS = ["i8", "i16", "i32", "i64", "f32", "fx"]
def angle_line(fn, tag, d):
    if tag == "f32": return "%s:f32 %d" % (fn, gen.f2b(float(d)))
    if tag == "fx": return "%s:fx %d" % (fn, d * 65536)
    return "%s:%s %d" % (fn, tag, d)

class C20(Suite):
    pid = "C20"; spec_module = "FixedMath.Spec.C20"
    def ops(self, tier, rng, pool):
        out = []
        for t in INT_TYPES:
            lo, hi = int_type_range(t)
            vals = set(range(max(lo, -400), min(hi, 800) + 1)) | set(gen.type_values(rng, t, 200, pool, derived_cap=None))
            for v in sorted(vals): out.append("a2r:%s %d" % (t, v))
        for d in range(-360, 361):
            for fn in ("sin_angle", "cos_angle", "tan_angle"):
                for t in ANGLE_TAGS + ["u8", "u16", "u32", "u64"]:
                    if t in INT_TYPES:
                        lo, hi = int_type_range(t)
                        if not lo <= d <= hi: continue
                    out.append(angle_line(fn, t, d))
        return out
    def nontrivial(self, fn, tag, a):
        return fn == "a2r" and not (0 <= a[0] <= 360) or tag in ("i8", "u8", "f32")
    def deg(self, tag, a):
        if tag == "f32": return f32_value(a[0])
        if tag == "fx": return a[0] / 65536.0
        return a[0]
    def oracle(self, fn, tag, a, r):
        u = 1 / 65536.0
        if fn == "a2r":
            d = a[0]
            if 0 <= d <= 360:
                if isnan_raw(r): return "angle_to_radians(%s %d) is NaN" % (tag, d)
                return None if abs(r * u - math.radians(d)) <= 2 * u + 1e-12 else "angle_to_radians(%s %d) = %d: more than 2 ulp from %.3f" % (tag, d, r, math.radians(d) * 65536)
            return None if isnan_raw(r) else "angle_to_radians(%s %d) = %d is not NaN" % (tag, d, r)
        d = self.deg(tag, a)
        if abs(d) > 360: return None
        x = math.radians(d)
        if fn in ("sin_angle", "cos_angle"):
            t = math.sin(x) if fn == "sin_angle" else math.cos(x)
            rr = abs(math.asin(max(-1.0, min(1.0, t))))
            bound = 7 * u + rr ** 9 / 362880.0
            e = abs(r * u - t)
            return None if e <= bound + 1e-11 else "%s(%s %g) = %d: error %.3f ulp > %.3f" % (fn, tag, d, r, e * 65536, bound * 65536)
        if d in (90, -90, 270, -270): return None
        if isnan_raw(r): return "tan_angle(%s %g) is NaN" % (tag, d)
        t = math.tan(x)
        e = abs(r * u - t)
        return None if e <= 5 * u * (1 + t * t) * (1 + 1e-9) else "tan_angle(%s %g) = %d (true %.4f): exceeds 5 ulp*(1+tan^2)" % (tag, d, r, t * 65536)
    def post(self, res):
        bad = []
        for fn in ("sin_angle", "cos_angle", "tan_angle"):
            for d in range(-360, 361):
                ref = res.get(angle_line(fn, "i32", d))
                if ref is None: continue
                for t in ANGLE_TAGS + ["u8", "u16", "u32", "u64"]:
                    l = angle_line(fn, t, d)
                    if l in res and res[l] != ref: bad.append((l, "%s differs between argument types: %s -> %d, int -> %d" % (fn, l, res[l], ref)))
        return bad

for c in (C19, C20): SUITES[c.pid] = c

# =============================================================================================
# C07 (no UB in any entry point) and C08 (independence of configuration / evaluation time)
UNARY_FX = ["neg", "abs", "isnan", "ceil", "floor", "sin", "cos", "tan", "atan", "sqrt:dflt", "asin:dflt", "acos:dflt",
            "sqrt_aprox", "atan_index", "atan_aprox", "sin_angle:fx", "cos_angle:fx", "tan_angle:fx",
            "to_fp:f32", "to_fp:f64", "roundtrip_d", "sqrt_abacus", "sqrt_std", "stream"]
BINARY_FX = ["add", "sub", "mul", "div", "addeq", "subeq", "muleq", "diveq", "band", "lt", "le", "gt", "ge", "eq", "ne",
             "atan2", "hypot:dflt", "hypot_aprox", "add_fn", "sub_fn", "mul_fn", "div_fn"]
INT_OPS2 = ["mul_s", "rmul_s", "muleq_s", "div_s", "diveq_s", "add_i", "radd_i", "addeq_i", "sub_i", "rsub_i", "subeq_i", "rdiv_i"]
INT_OPS1 = ["to_fixed", "to_fixed_mk", "a2r", "sin_angle", "cos_angle", "tan_angle"]
FLOAT_OPS2 = ["add_f", "radd_f", "addeq_f", "sub_f", "rsub_f", "subeq_f", "mul_f", "rmul_f", "muleq_f", "div_f", "rdiv_f", "diveq_f"]
DOUBLE_OPS2 = ["add_d", "radd_d", "sub_d", "rsub_d", "mul_d", "rmul_d", "div_d", "rdiv_d"]

def c07_ops(rng, pool, scale):
    vals = sorted(set(v for v in pool if -NANP <= v <= NANP) | {NANP, -NANP, F, -F, 0, 1, -1})
    out = []
    extreme = [NANP, -NANP, F, -F, F - 1, 2**62, -2**62, 2**47, -2**47, 2**48 - 1, 2**48, 0, 1, -1, 65536, -65536, 2**31 * 65536]
    pick = extreme + rng.sample(vals, min(len(vals), 25 * scale)) + [gen.strat(rng) for _ in range(25 * scale)]
    near_limit = [v for v in vals if abs(v) > 2**63 - 2**21]       # guards of the form `v <= max - k`
    for x in near_limit:
        for f in UNARY_FX: out.append("%s %d" % (f, x))
    for x in pick:
        for f in UNARY_FX: out.append("%s %d" % (f, x))
        for t in INT_TYPES: out.append("from_fixed:%s %d" % (t, x))
        for r in list(range(0, 64, 7)) + [63, -1, -64, -2**31, 2**31 - 1 - 2**31]:
            out.append("shr %d %d" % (x, r)); out.append("shl %d %d" % (x, r))
    for x in extreme + rng.sample(vals, 12 * scale):
        for y in extreme + rng.sample(vals, 6 * scale) + [gen.strat(rng) for _ in range(3 * scale)]:
            for f in BINARY_FX: out.append("%s %d %d" % (f, x, y))
    for t in INT_TYPES:
        tv = gen.type_values(rng, t, 8 * scale, pool, derived_cap=20, cap=300 * scale)
        for n in tv:
            for f in INT_OPS1: out.append("%s:%s %d" % (f, t, n))
            for x in rng.sample(extreme, 5) + [gen.strat(rng)]:
                for f in INT_OPS2: out.append("%s:%s %d %d" % (f, t, x, n))
    out += scalar_special_pairs(rng)
    for b in float_patterns(rng, 60 * scale):
        out.append("fp_to_fixed:f32 %d" % b)
        for f in ("sin_angle", "cos_angle", "tan_angle"): out.append("%s:f32 %d" % (f, b))
        for x in rng.sample(extreme, 3):
            for f in FLOAT_OPS2: out.append("%s %d %d" % (f, x, b))
    for b in double_patterns(rng, 12 * scale):
        out.append("fp_to_fixed:f64 %d" % b)
        for x in rng.sample(extreme, 2):
            for f in DOUBLE_OPS2: out.append("%s %d %d" % (f, x, b))
    for k in [0, 1, 2, 3, 7, 1000, 2**20, 2**31 - 1, 2**31, 2**31 + 1, 2**40] + [rng.randrange(0, 2**41) for _ in range(20 * scale)]:
        for d in (-1, 0, 1):
            for base_ in (PIDIV2, 0, PIDIV4, PHI - 1):
                v = base_ + k * PHI + d
                if v < 2**62: out += ["tan %d" % v, "tan %d" % (-v), "sin %d" % v, "cos %d" % (-v)]
    ds = {-2**31, -2**31 + 1, 2**31 - 1, -1, -359, -360, -361, 0, 360, 361, 720, 65535, 65536, -65536, -90, -180, -270} | {rng.randrange(-2**31, 2**31) for _ in range(200 * scale)} | set(range(-800, 800, 3))
    for d in sorted(ds): out += ["sin_aprox %d" % d, "cos_aprox %d" % d]
    return out

def cross_suite_sample(rng, pool, per_suite):
    """C07 and C08 quantify over every entry point: a sample of the inputs that the suites of the other properties
    construct for their own boundaries (half of it from each suite's non-trivial inputs)"""
    out = []
    for pid, cls in sorted(SUITES.items()):
        if pid in ("C07", "C08"): continue
        s = cls()
        try: ls = s.ops("quick", random.Random(rng.randrange(2**32)), pool)
        except Exception: continue
        if len(ls) > 60000: ls = rng.sample(ls, 60000)
        nt = [l for l in ls if s.nontrivial(*parse_line(l))]
        out += rng.sample(nt, min(len(nt), per_suite // 2)) + rng.sample(ls, min(len(ls), per_suite // 2))
    return out

class C07(Suite):
    pid = "C07"; spec_module = "FixedMath.Spec.C07"; needs_abacus_leg = True; ub_sample = 250000
    def ops(self, tier, rng, pool):
        return c07_ops(rng, pool, 1 if tier == "quick" else 8) + cross_suite_sample(rng, pool, 400 if tier == "quick" else 6000)
    def nontrivial(self, fn, tag, a):
        return any(abs(x) >= F for x in a) or fn in ("sin_aprox", "cos_aprox") and a[0] < 0
    def oracle(self, fn, tag, a, r):
        return None      # "returns normally" is checked for every leg by the driver loop (a result was printed)

class C08(Suite):
    """value legs across configurations are all compared with the one model; the constant-evaluation leg
    (tools/check.py: constexpr_leg) compiles static_asserts derived from the model"""
    pid = "C08"; spec_module = "FixedMath.Spec.C08"; needs_abacus_leg = True; ub_sample = 2000
    constexpr = True; cross_leg = True
    def ops(self, tier, rng, pool):
        out = c07_ops(rng, pool, 1 if tier == "quick" else 4)
        n = 300 if tier == "quick" else 5000
        for _ in range(n):
            x = gen.strat(rng, 47, signed=False)
            out += ["sqrt_abacus %d" % x, "sqrt_std %d" % x]
            r = gen.strat(rng, 31, signed=False)
            for NN in (r * r, r * r + r, r * r + r + 1):
                v = NN >> 16
                if v < 2**47: out += ["sqrt_abacus %d" % v, "sqrt_std %d" % v]
        out += cross_suite_sample(rng, pool, 400 if tier == "quick" else 6000)
        return out
    def nontrivial(self, fn, tag, a):
        return fn.startswith("sqrt") or fn.startswith("hypot") or fn.startswith("asin")
    def post(self, res):
        bad = []
        for l, r in res.items():
            if l.startswith("sqrt_abacus "):
                x = suites_arg(l)
                l2 = "sqrt_std %d" % x
                if 0 <= x < 2**47 and l2 in res and abs(res[l2] - r) > 1:
                    bad.append((l, "the two sqrt algorithms differ by more than 1 ulp at raw %d: %d vs %d" % (x, r, res[l2])))
        return bad

for c in (C07, C08): SUITES[c.pid] = c

"""Input generation for the correspondence suites. Every random choice derives from one PRNG seeded
by VERIF_SEED; boundary pools include every integer literal of the CURRENT library sources."""
import os, re, random
from fmlib import INC, SRC, F, NANP, I64MIN, I64MAX

def scrape_literals():
    """every integer literal (decimal / hex, with suffixes) in the modelled source files, plus shifts 1<<k"""
    vals = set()
    files = [os.path.join(INC, "fixedmath", f) for f in ("math.h", "limits.h", "numbers.h", "types.h")]
    files += [os.path.join(INC, "fixedmath", "detail", "common.h"), os.path.join(SRC, "fixed_math.cc")]
    for p in files:
        try: s = open(p).read()
        except OSError: continue
        s = re.sub(r"/\*.*?\*/", " ", s, flags=re.S)
        s = re.sub(r"//[^\n]*", " ", s)
        for m in re.finditer(r"(?<![\w.])(0[xX][0-9a-fA-F]+|\d+)(?:[uUlL]*)(?![\w.])", s):
            try: v = int(m.group(1), 0)
            except ValueError: continue
            if v < 2**64: vals.add(v)
        for m in re.finditer(r"1(?:ull|ll|ul|l|u)?\s*<<\s*(\d+)", s):
            k = int(m.group(1))
            if k < 64: vals.add(1 << k)
    return vals

def clamp64(v):
    return max(I64MIN + 1, min(I64MAX, v))

DERIVED = set()      # the part of the pool that is derived from constants (see boundary_values); large
SQRT_LIMITS = sorted({__import__("math").isqrt(2**k) + d for k in (31, 32, 33, 47, 48, 62, 63, 64) for d in (-1, 0, 1)})

def boundary_values(extra=()):
    """signed 64-bit boundary pool"""
    base = set()
    for k in range(0, 64):
        for d in (-2, -1, 0, 1, 2):
            base.add((1 << k) + d)
    base |= {0, 1, 2, 3, 65535, 65536, 65537, F, F - 1, F - 2, NANP, 2**31 - 1, 2**31, 2**31 + 1,
             (2**31 - 1) * 65536, 2**47 - 1, 2**47, 2**47 + 1, 2**46, 2**48 - 1, 2**48,
             0x7fffffffffff0000, 0x7fffffffffff0001, 0x7ffffffffffeffff}
    # raw values at small distances from INT64_MAX (guards of the form `v <= max - k`)
    for k in (0xf, 0xff, 0xfff, 0x1000, 0x2000, 0x7fff, 0x8000, 0xfffe, 0xffff, 0x10000, 0x10001, 0x1ffff, 0xfffff):
        base.add(I64MAX - k); base.add(I64MAX - k - 1); base.add(I64MAX - k + 1)
    lits = scrape_literals()
    for v in lits:
        for d in (-1, 0, 1):
            base.add(v + d)
        if v < 2**47:
            base.add(v * 65536); base.add(v * 65536 + 1); base.add(v * 65536 - 1)
    base |= set(extra)
    # boundaries derived from the constants of the source (integer literals and the translated constants):
    # quotients of the limits by a constant (where constant * x reaches a limit), smallest multipliers whose product
    # with the constant wraps past 2^64 (unsigned wrap to a small value), integer square roots of the limits
    import math
    derived = set()
    for c in set(lits) | set(abs(int(e)) for e in extra):
        if 2 <= c < 2**40:
            for lim in (I64MAX, 2**63, 2**64, 2**47, F * 65536):
                for d in (-1, 0, 1): derived.add(lim // c + d)
            for m in (1, 2, 3):
                q = -((-m * 2**64) // c)
                derived.add(q); derived.add(q + 1); derived.add(q - 1)
    for k in range(16, 64):              # a power of two plus / minus one whole unit of the 16 fraction bits
        for d in (65535, 65536, 65537): derived.add((1 << k) + d); derived.add((1 << k) - d)
    for k in (31, 32, 33, 46, 47, 48, 62, 63, 64, 79, 80):
        r = math.isqrt(2**k)
        for d in (-2, -1, 0, 1, 2): derived.add(r + d)
    new = {v for v in derived if 0 <= v < 2**64} - base
    DERIVED.clear(); DERIVED.update(new); DERIVED.update(-v for v in new)
    base |= new
    out = set()
    for v in base:
        for s in (v, -v):
            if I64MIN < s <= I64MAX:
                out.add(s)
    return sorted(out)

def finite(v):
    return -F <= v <= F

def strat(rng, maxbits=63, signed=True):
    """magnitude-stratified random: exponent uniform, then mantissa, then sign"""
    e = rng.randrange(0, maxbits + 1)
    v = 0 if e == 0 else rng.randrange(1 << (e - 1), 1 << e)
    v = min(v, F)
    if signed and rng.random() < 0.5: v = -v
    return v

def strat_list(rng, n, maxbits=63, signed=True):
    return [strat(rng, maxbits, signed) for _ in range(n)]

def near(rng, center, spread=4):
    return center + rng.randrange(-spread, spread + 1)

def sum_boundary_pairs(rng, n):
    """pairs (a, b) of finite values with a+b in the neighbourhood of the overflow boundaries"""
    out = []
    targets = [F, F + 1, F + 2, 2**63, 2**63 + 1, -F, -F - 1, -F - 2, -2**63, -2**63 - 1, 2**64 - 4, -2**64 + 4, 0, 1, -1]
    for _ in range(n):
        t = near(rng, rng.choice(targets), 3)
        a = strat(rng, 63)
        b = t - a
        if finite(a) and finite(b): out.append((a, b))
        a = rng.randrange(-F, F + 1)
        b = t - a
        if finite(a) and finite(b): out.append((a, b))
    return out

def pool_complement_pairs(pool, finite_only=True):
    """(p, t - p) and (t - p, p) for every pool value p and every overflow target t: one operand is a boundary value
    of some width, the exact sum is a limit"""
    out = []
    targets = [F, F + 1, F + 2, 2**63, -F, -F - 1, -F - 2, -2**63, -2**63 - 1, 0]
    for p in pool:
        for t in targets:
            q = t - p
            if (not finite_only) or (finite(p) and finite(q)): out.append((p, q)); out.append((q, p))
    return out

def diff_boundary_pairs(rng, n):
    return [(a, -b) for a, b in sum_boundary_pairs(rng, n) if finite(-b)]

def prod_boundary_pairs(rng, n):
    """pairs with a*b near 2^63, 2^79 (= F*65536), 2^62, and around 2^31.5 operands"""
    out = []
    targets = [2**63, 2**63 - 1, -2**63, -2**63 - 1, F * 65536, -F * 65536, (F + 1) * 65536, 2**62, 2**64, 2**79, -2**79, 2**32, 2**16]
    for _ in range(n):
        t = rng.choice(targets)
        a = strat(rng, 62)
        if a == 0: continue
        for q in (t // a, t // a + 1, t // a - 1, -(t // a)):
            if finite(q): out.append((a, q))
    return out

def exact_product_pairs(targets=(2**63 - 1, 2**63, 2**62, 2**64 - 1, 2**79 - 65536, (2**63 - 2) * 65536, 2**47 * 65536 - 1)):
    """operand pairs whose exact product IS a limit (neighbours are reached by the quotient constructions): all
    divisor pairs of each target that trial division up to 10^6 can find"""
    out = []
    for t in targets:
        n, fs, p = t, [], 2
        while p * p <= n and p < 10**6:
            while n % p == 0: fs.append(p); n //= p
            p += 1 if p == 2 else 2
        if n > 1: fs.append(n)
        divs = {1}
        for f in fs: divs |= {d * f for d in divs}
        for d in sorted(divs):
            q = t // d
            if d <= q and d < 2**63 and q < 2**63: out.append((d, q))
    return out

def shifted_quotient_probes(consts):
    """x with x*c/2^16 (+- 2^16) equal to a power of two or to a small multiple of 2^32, for every constant c of the source:
    the arguments at which an intermediate product inside a function lands on a special value"""
    out = set()
    for c in consts:
        if not (256 <= c < 2**40): continue
        targets = [(1 << k) + o for k in range(17, 62) for o in (0, -65536, 65536)] + [(m_ << 32) + o for m_ in range(1, 40) for o in (0, -65536, 65536)]
        for t in targets:
            if t <= 0: continue
            x = (t << 16) // c
            for d in (-1, 0, 1, 2):
                if 0 <= x + d < 2**62: out.add(x + d)
    return sorted(out)

def period_limit_probes(period, lo=-320, hi=320):
    """arguments just below / above the multiples of `period` that sit next to a power of two (where a fast path of a
    range reduction ends): m*period + j for the two multiples around each 2^k, k = 20..62, and every j in [lo, hi]"""
    out = []
    for k in range(20, 63):
        m0 = (1 << k) // period
        for m_ in (m0, m0 + 1):
            for j in range(lo, hi + 1):
                x = m_ * period + j
                if 0 < x < 2**62: out.append(x)
    return out

def int_type_range(t):
    bits = int(t[1:]); 
    if t[0] == "i": return -(1 << (bits - 1)), (1 << (bits - 1)) - 1
    return 0, (1 << bits) - 1

INT_TYPES = ["i8", "i16", "i32", "i64", "u8", "u16", "u32", "u64"]
# distinct C++ integral types with the representation of one of the fixed-width typedefs (LP64): the harness
# instantiates the library with the spelled type, the model and the oracles use the base type
# (character types are not accepted by the library under C++20: std::cmp_less rejects them at compile time)
TYPE_ALIAS = {"ll": "i64", "ull": "u64"}
ALIAS_OF = {}
for _a, _b in TYPE_ALIAS.items(): ALIAS_OF.setdefault(_b, []).append(_a)

RE1 = {"neg", "abs", "isnan", "ceil", "floor", "sin", "cos", "tan", "atan"}
RE2 = {"add", "sub", "mul", "div", "lt", "le", "gt", "ge", "eq", "ne", "atan2"}
SELF = {"add": "addeq_self", "sub": "subeq_self", "mul": "muleq_self", "div": "diveq_self"}
LITV = [0, 1, 65536, 131071, 131072, 196608, 327680, 458752, 6488064, 809041920, 40001, 40002, 60000, -60000, -65536, 32768, -32768, 51472,
        102944, 205887, 4294967296, 1099511693312, 268435456, -131072]
LIT = {0, 1, 2, 3, 8, 10, 15, 16, 17, 31, 32, 33, 47, 48, 62, 63, 100, 180, 256, 65536}
def reuse_lines(lines, rng, frac=0.04, cap=14000):
    """call patterns: the same objects used twice with a store in between (re_<op>), compound assignment with the
    object itself as right operand (<op>eq_self), integral conversions of one variable before and after a change"""
    by_fn = {}
    for l in lines:
        h = l.split(" ", 1)[0]
        by_fn.setdefault(h, []).append(l)
    out = []
    for h, ls in by_fn.items():
        fn, _, tag = h.partition(":")
        if tag == "" and (fn in RE1 or fn in RE2):
            k = min(len(ls), max(20, int(len(ls) * frac)), cap // 10)
            for l in rng.sample(ls, k):
                o = rng.choice(ls)
                out.append("re_%s %s %s" % (fn, " ".join(o.split()[1:]), " ".join(l.split()[1:])))
        if tag == "" and fn in SELF:
            for l in rng.sample(ls, min(len(ls), 200)):
                for x in l.split()[1:]: out.append("%s %s" % (SELF[fn], x))
        # the second operand written as a literal in the harness (a fast path keyed on __builtin_constant_p exists only there)
        if tag == "" and fn in ("shl", "shr"):
            cand = [l for l in ls if int(l.split()[2]) in LIT and int(l.split()[2]) <= 63]
            for l in rng.sample(cand, min(len(cand), 1500)): out.append("%s_lit %s" % (fn, " ".join(l.split()[1:])))
        if fn in ("mul_s", "div_s") and tag == "i32":
            cand = [l for l in ls if int(l.split()[2]) in LIT]
            for l in rng.sample(cand, min(len(cand), 600)): out.append("%s_lit %s" % (fn[:3], " ".join(l.split()[1:])))
            for l in rng.sample(ls, min(len(ls), 300)): out.append("%s_lit %s %d" % (fn[:3], l.split()[1], rng.choice(sorted(LIT))))
        # a table function called twice in a row, the second argument a truncated copy of the first
        if tag == "" and fn in ("sin_aprox", "cos_aprox"):
            big = [int(l.split()[1]) for l in ls if abs(int(l.split()[1])) > 65535]
            for d in rng.sample(big, min(len(big), 300)) + [rng.randrange(-2**31, 2**31) for _ in range(300)]:
                for b in (d & 0xffff, d & 0xff, d & 0xfff, (d & 0xffff) - 65536 if d & 0x8000 else d & 0x7fff, d % 360, d + 65536 if d + 65536 < 2**31 else d - 65536):
                    for f in ("re_sin_aprox", "re_cos_aprox", "re_sincos_aprox", "re_cossin_aprox"): out.append("%s %d %d" % (f, d, b))
        # the same call with a literal argument (constant folding / __builtin_constant_p dispatch)
        if fn in ("sin", "cos", "tan", "atan", "ceil", "floor", "abs", "neg") and tag == "":
            for v in LITV: out.append("lit_%s %d" % (fn, v)); out.append("%s %d" % (fn, v))
        if fn in ("sqrt", "asin", "acos") and tag == "dflt":
            for v in LITV: out.append("lit_%s:dflt %d" % (fn, v)); out.append("%s:dflt %d" % (fn, v))
        if fn == "hypot" and tag == "dflt":
            for v in LITV: out.append("lit_hypot1:dflt %d" % v); out.append("hypot:dflt %d 65536" % v)
        if fn in ("to_fixed", "from_fixed") and tag:
            k = min(len(ls), 60)
            for l in rng.sample(ls, k):
                o = rng.choice(ls)
                out.append("re_%s:%s %s %s" % (fn, tag, o.split()[1], l.split()[1]))
    return out[:cap]

# two-operand entry points without preconditions on the operands (the sign-aware call sites add_pp … are excluded)
REL_OK = {"add", "sub", "mul", "div", "addeq", "subeq", "muleq", "diveq", "add_fn", "sub_fn", "mul_fn", "div_fn", "add_ool", "sub_ool",
          "lt", "le", "gt", "ge", "eq", "ne", "atan2", "band", "hypot_aprox",
          "mul_s", "rmul_s", "muleq_s", "div_s", "diveq_s", "add_i", "radd_i", "addeq_i", "sub_i", "rsub_i", "subeq_i", "rdiv_i"}
def relation_lines(lines, rng, cap=9000):
    """operand pairs tied by an arithmetic relation that no single-operand list produces: for a sample of the
    two-operand lines, the first operand is replaced by a function of the second (equal, opposite, off by one, scaled
    by 2^16 either way, complement) and vice versa"""
    by_fn = {}
    for l in lines:
        p = l.split()
        if len(p) == 3 and not p[0].startswith(("re_", "lit_")): by_fn.setdefault(p[0], []).append(p)
    out = []
    def rel(v):
        return [v, -v, v + 1, v - 1, -v + 1, -v - 1, v * 65536, -v * 65536, v // 65536, -(v // 65536), ~v, v ^ 0x1ffffffff, v + (1 << 32), v - (1 << 32), 2 * v, v // 2] + \
               [v ^ (1 << k_) for k_ in rng.sample(range(63), 6)] + [v + (1 << k_) for k_ in rng.sample(range(63), 3)]
    for h, ps in by_fn.items():
        fn, _, tag = h.partition(":")
        if tag in ("f32", "f64", "dflt") or fn not in REL_OK: continue
        k = min(len(ps), max(8, cap // max(1, 40 * len(by_fn))))
        for p in rng.sample(ps, k):
            a, b = int(p[1]), int(p[2])
            lo, hi = (int_type_range(TYPE_ALIAS.get(tag, tag)) if tag and (TYPE_ALIAS.get(tag, tag) in INT_TYPES) else (-NANP, NANP))
            for a2 in rel(b):
                if abs(a2) <= NANP: out.append("%s %d %d" % (h, a2, b))
            for b2 in rel(a):
                if lo <= b2 <= hi and abs(b2) <= 2**64: out.append("%s %d %d" % (h, a, b2))
    rng.shuffle(out)
    return out[:cap]

def alias_lines(lines, rng, frac=0.34):
    """duplicate a share of the typed operation lines with the alias spelling of their type (all lines whose
    integral argument is at the edge of the type's range are always duplicated)"""
    out = []
    for l in lines:
        h = l.split(" ", 1)[0]
        if ":" not in h: continue
        fn, tag = h.split(":", 1)
        for al in ALIAS_OF.get(tag, ()):
            args = l.split()[1:]
            edge = False
            try:
                lo, hi = int_type_range(tag)
                edge = any(int(x) in (lo, lo + 1, hi, hi - 1) or (tag[0] == "u" and int(x) > hi // 2 and int(x) > hi - 2**34) for x in args[-1:])
            except ValueError:
                pass
            if edge or rng.random() < frac:
                out.append("%s:%s %s" % (fn, al, " ".join(args)))
    return out

def type_values(rng, t, n, pool, derived_cap=80, cap=None):
    vals = _type_values(rng, t, n, pool, derived_cap)
    if cap and len(vals) > cap:
        lo, hi = int_type_range(t)
        edge = {lo, lo + 1, hi, hi - 1, 0, 1, -1, 2, -2, 2**31 - 1, 2**31, -2**31, -2**31 - 1, 2**63 - 1, 2**63, 2**32 - 1, 2**32, 2**64 - 1}
        for v in list(edge): edge |= {v + 1, v - 1}
        vals = sorted((edge & set(vals)) | set(rng.sample(vals, cap)))
    return vals

def _type_values(rng, t, n, pool, derived_cap=80):
    """values of the integral type t: limits, small values, the boundary pool (of its constant-derived part only a
    sample of `derived_cap`, all of it when None), magnitude-stratified random"""
    lo, hi = int_type_range(t)
    vals = {lo, lo + 1, hi, hi - 1, 0, 1, 2, 3, 7, 100, 180, 360, 361}
    inr = [v for v in pool if lo <= v <= hi]
    der = [v for v in inr if v in DERIVED]
    vals |= {v for v in inr if v not in DERIVED}
    vals |= set(der if derived_cap is None or len(der) <= derived_cap else rng.sample(der, derived_cap))
    vals |= {-1, -2, -3, -180} if lo < 0 else set()
    bits = int(t[1:])
    for _ in range(n):
        v = strat(rng, bits - (1 if lo < 0 else 0), signed=(lo < 0))
        vals.add(v)
    if t == "u64":
        for k in (2**63 - 1, 2**63, 2**63 + 1, 2**64 - 1, 2**64 - 2):
            vals.add(k)
        for _ in range(n // 4):
            vals.add(rng.randrange(2**63, 2**64))
    return sorted(v for v in vals if lo <= v <= hi)

import struct
def d2b(x): return struct.unpack("<Q", struct.pack("<d", x))[0]
def b2d(b): return struct.unpack("<d", struct.pack("<Q", b))[0]
def f2b(x): return struct.unpack("<I", struct.pack("<f", x))[0]
def b2f(b): return struct.unpack("<f", struct.pack("<I", b))[0]

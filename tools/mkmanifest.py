#!/usr/bin/env python3
"""regenerate MANIFEST.json from the table below (claimed properties, level texts)"""
import json, os
V = os.path.dirname(os.path.dirname(os.path.abspath(__file__)))
props = [json.loads(l) for l in open(V + "/properties.jsonl")]

NOTE = ("trusted: Lean 4.33 kernel with axioms propext/Classical.choice/Quot.sound only (audited each run); "
        "lean/FixedMath/CSem.lean as the reading of the C++ abstract machine; the hand-written model "
        "(validated against /repo on every run by the differential correspondence harness, exhaustive on finite "
        "theorem domains and sampled elsewhere, incl. a native soak of 19M generated operations per run and a purity run); tools/gen_consts.py; the harness; GCC/Clang as conforming compilers. "
        "Not trusted: z3 and the LLVM-IR translator of tools/irsearch.py only propose candidate inputs where a changed entry point's IR differs from baseline_ir/; the real builds and the model driver decide")

CLAIMED = {
 "C01": ("proof", "Lean theorems C01_add/C01_sub: for ALL finite pairs the model of + - += -= returns without UB the exact result or NaN. "
         "Tie to the code: correspondence on the in-line, out-of-line, compound, self-aliasing and sign-aware call sites on six builds (DESIGN.md 0.5), "
         "a purity run, 19M natively generated operations (soak), constant-evaluation static_asserts, UBSan/ASan leg; thorough tier runs the 58+ configuration matrix (sampled, not proved).", "omega over UB-monad model; differential correspondence + sanitizer leg"),
 "C02": ("proof", "C02_mul (floor of exact product or NaN; not NaN when the raw product fits int64; NaN when out of range) and C02_scalar "
         "(exact or NaN for each of the 8 integral types, both orders) for ALL operands; correspondence around 2^31.5, 2^63, uint64 >= 2^63.", "omega + nonlinear atoms; differential correspondence"),
 "C03": ("proof", "C03_div / C03_scalar for ALL operands: returns normally (divByZero and INT64_MIN/-1 are UB values of the model), "
         "NaN for zero divisor, |r*b - 65536a| < |b| otherwise or NaN, never NaN for |a| < 2^31; exact truncated quotient for integer divisors.", "tdiv/tmod lemmas + omega; correspondence + sanitizer/SIGFPE leg"),
 "C04": ("proof", "C04_to/C04_from/C04_roundtrip for every value of the 8 integral types and every finite raw value; exhaustive correspondence for 8/16-bit types under c++17 (fallback cmp_*) and c++20 (std::cmp_*).", "omega per type + bit-mask lemmas; exhaustive/sampled correspondence"),
 "C06": ("proof", "C06_order, C06_nan_top, C06_isnan, C06_neg_abs for all raw values; INT64_MIN shown UB separately (outside the quantifier).", "omega; correspondence"),
 "C15": ("proof", "Theorem C15: for every finite v with representable floor and ceiling, floor/ceil are multiples of 65536 bracketing v, identity on integers, ceil v = -floor(-v); "
         "the mask v & ~0xffff is derived from Nat bitwise lemmas, not assumed.", "Nat.testBit mask lemma + omega; correspondence"),
 "C17": ("proof", "C17_comm, C17_sub, C17_units, C17_cancel, C17_assoc, C17_mono for all operands; C17_nsmul by induction on n (a*n equals the n-fold sum); C17_mul_div.", "closed forms of the kernels + omega + induction; correspondence of the kernels"),
 "C18": ("proof", "C18_shr (floor division by 2^r), C18_shl (exact when in range, never the opposite sign), C18_neg_count, C18_and for all x and all counts in [INT_MIN, 63].", "generic lemma on x*2^r mod 2^63 + omega; correspondence"),
 "C13": ("proof", "Abacus algorithm: C13_abacus_acc/real/square/mono/zero/neg for ALL inputs 0 <= v < 2^48 and all negatives, by the loop invariant (induction on the digit position) "
         "including absence of uint64 wrap-around; the result is exactly floor(sqrt(v*2^16)). std::sqrt algorithm: C13_std_acc/square/mono/zero/neg for ALL inputs as well, from the rounding theory of the exact IEEE-754 model "
         "(FP.sqrt correctly rounded, exact scaling, one rounding of +0.5, truncation: result = floor(W), |W - (sqrt(v*2^16)+1/2)| <= 2^-19; monotone because distinct roots are >= 2^-17 apart); "
         "the IEEE model is tied to the hardware by bit-exact correspondence (perfect squares +-1, midpoints k^2+k, powers of two, stratified random) of the Lean IEEE-754 model with the hardware.", "loop invariant by induction + nlinarith/omega; correspondence on both back-ends"),
 "C09": ("proof", "C09_sin_acc / C09_cos_acc: for EVERY raw v in [-2pi, 2pi] (823 549 values) the model's result is within 4 ulp + |arcsin(sin x)|^9/9! of Real.sin (Mathlib) - "
         "analytic range reduction for all arguments (omega), kernel-checked enumeration (52 decide+kernel chunks, no native_decide) of the polynomial at all 205 887 reduced arguments against a "
         "degree-15 Taylor enclosure of Real.sin derived from Complex.exp_bound', and the real-analysis glue (sin(x+n*pi), Lipschitz, arcsin o sin, bounds on pi). C09_range and C09_periodic for every |v| < 2^62 and every integer k. "
         "Tie: exhaustive correspondence of sin/cos on [-2pi-2, 2pi+2] raw (3 build legs) + random/boundary up to 2^62.", "reflective kernel enumeration + Mathlib enclosures + omega; exhaustive correspondence"),
 "C19": ("proof", "Against the tables REGENERATED from the current *_table.h: C19_sin_tab/C19_cos_tab (all 722 entries within 2 ulp of Real.sin/cos(i deg)), C19_tan_tab (255 entries within 2 ulp*(1+tan^2)), "
         "C19_sqrt_tab (256 entries within 1 of 65536*sqrt(i/256+31/2^18)) by kernel evaluation (decide +kernel) of Nat-only Taylor enclosure checkers with proved soundness; "
         "C19_sin_aprox / C19_cos_aprox for EVERY int32 d (index in bounds, result = entry of d mod 360, within 2 ulp of sin/cos(d deg)); "
         "C19_sqrt_aprox: relative error <= 2% for EVERY raw x in [1,2^37) (closed form of the cell selection from the bit length, kernel check of all 1567 cells at both cell ends), 0 at 0, NaN below 0; "
         "C19_atan_index: within 1.25 of atan(x)*128/pi for EVERY raw x (binary-search invariant of std::lower_bound valid despite the out-of-order sentinel entry 128, closed form, kernel check of arctan of all 254 entries against their angles, monotone arctan).", "kernel evaluation over regenerated tables + Mathlib enclosures; omega for index reduction; correspondence"),
 "C10": ("proof", "C10_acc: for EVERY raw v in [-pi, pi] (411 775 values) except the library's pole, the result is within 2.5 ulp*(1+tan^2 x) of Real.tan x and cos x != 0 - analytic sign/range "
         "normalisation (omega), kernel-checked enumeration (204 decide+kernel chunks) of the normalised kernel at all 205 887 arguments with the division-free criterion |T cos x - sin x| |cos x| <= 2.5 ulp against "
         "Taylor enclosures of Real.sin/Real.cos at the true angle (second quadrant through pi - x with a 40-bit enclosure of pi), edge case |x| = phi analytic. "
         "C10_odd, C10_period (x,k >= 0), C10_nan_iff for every |v| < 2^62. Tie: exhaustive correspondence of tan on [-pi-2, pi+2] raw + random/pole arguments up to 2^62.", "reflective kernel enumeration + Mathlib enclosures + omega; exhaustive correspondence"),
 "C20": ("proof", "C20_a2r: for every integral type and every value of it, angle_to_radians is within 2 ulp of d*pi/180 on [0,360] and NaN outside (analytic, all d). "
         "C20_sin_angle / C20_cos_angle: C09 bound widened by 3 ulp against Real.sin/cos(d deg) for |d| <= 360 and every integral type (analytic from C09's kernel-checked polynomial facts + truncation bound of d*phi/180). "
         "C20_tan_angle: 5 ulp*(1+tan^2) at the 717 angles with cos != 0 (kernel evaluation). C20_types: int8..uint64, float (721 kernel points over the IEEE model) and fixed_t arguments give the same result. "
         "Tie: type-matrix correspondence over d in [-360,360] x 10 argument types x 3 functions + a2r over all 8 types.", "analytic + kernel evaluation over 721 angles + Mathlib enclosures; type-matrix correspondence"),
 "C12": ("proof", "For BOTH sqrt back-ends and EVERY raw v in [-1,1] (131 073 values): C12_acc (exists x' within 2 ulp of x with |asin(v) - Real.arcsin x'| <= 4 ulp), C12_odd, C12_mono, C12_acos; "
         "C12_nan_iff for every finite or NaN argument. Kernel-checked enumerations (decide+kernel): 39 323 small-branch arguments, 13 107 values of the square-root argument per back-end "
         "(abacus root through its proved floor-sqrt characterisation, std::sqrt root evaluated in the exact IEEE-754 model), one-sided Taylor comparisons of Real.sin at (A +- 4)/65536, monotone arcsin. "
         "Tie: exhaustive correspondence of asin/acos on [-65576, 65576] under std::sqrt and abacus builds.", "reflective kernel enumeration + Mathlib arcsin/sin enclosures + omega; exhaustive correspondence on both back-ends"),
 "C16": ("proof", "Over the model of the library's dispatch (Model/Mixed.lean) for ALL operands: C16_int_promoted (+, - both orders and T/fixed equal the operation on fixed_t(t)), C16_int_exact (fixed*integer, fixed/integer exact or NaN for the whole range of "
         "all 8 integral types incl. uint64 >= 2^63), C16_float, C16_double (IEEE operation of the exact IEEE-754 model on double(a) and the operand in written order), C16_compound. These are largely definitional: WHICH overload the compiler selects is decided by the "
         "type-matrix correspondence (4 ops x 10 operand types x 2 orders x compound forms, reference forms ref_* evaluated by the library itself, bit-exact doubles).", "unfolding + C02/C03/C04 theorems; type-matrix correspondence decides dispatch"),
 "C07": ("proof", "One UB-freedom theorem per entry point over the UB-monad model, for EVERY argument of its domain (all int64 but INT64_MIN, every value of every integral type, every float/double bit pattern, shift counts in [INT_MIN,63]): + - * / and scalar forms, "
         "integral and floating conversions, neg abs isnan ceil floor, shifts, &, angle_to_radians, sin cos tan, asin acos, sqrt (both back-ends), hypot (both back-ends, every pair), atan, atan2, sin/cos/tan_angle (integral, fixed_t, float), "
         "operators with a float operand, sin/cos_angle_aprox (all int32), sqrt_aprox, hypot_aprox, atan_index_aprox (std::lower_bound invariant by induction), atan_aprox. double-operand operators are pure IEEE operations of the model (no error value). C07_remaining = []. "
         "The binary itself is tied by the UBSan+ASan+_GLIBCXX_ASSERTIONS+float-cast-overflow leg on ~1.2M calls (NaN/extreme arguments, every entry point) agreeing with the model's verdict.", "per-entry-point isOk theorems (omega, induction, kernel enumerations, IEEE rounding theory) + sanitizer leg"),
 "C08": ("proof", "Premises proved in Lean: C08_no_ub (UB-freedom theorems of C07: a UB-free call has one value for every conforming compiler and is a constant expression), C08_shl_cxx20 (C++17 value of signed << equals the C++20 value), abacus sqrt = floor sqrt for all inputs (C13). "
         "PARTIAL: the quantifier over compilers/levels/standards/evaluation time is outside Lean and is SAMPLED: value legs (quick: g++ c++17 -O2, clang++ c++20 -O2, sanitizer, abacus; thorough: 2 compilers x 4 levels x 3 standards x abacus) compared with the one model, "
         "and the constant-evaluation leg (350-4000 static_asserts derived from the model compiled under g++/clang++ x c++17+abacus/c++20/c++2b). C08_sqrt_algos: |abacus - std::sqrt| <= 1 for ALL v in [0, 2^48) (from C13_abacus_real and C13_std_acc).", "UB-freedom theorems + configuration matrix correspondence + constant-evaluation leg"),
 "C05": ("proof", "Over the exact IEEE-754 model (Model/Float.lean) for BOTH formats and EVERY bit pattern (C05_to_float: all 2^32, C05_to_double: all 2^64, via ofBits_inFmt): finite |v| < 2^31-1 => result r is not NaN and |r - v*65536| <= 1/2 + (|v|*65536+1/2)*2^-p, "
         "and r is exactly round-half-away-from-zero whenever |v|*65536+1/2 is representable in the source type; otherwise (>= 2^31-1, inf, NaN) => NaN. C05_toDouble: exact for every |raw| <= 2^53. C05_toFp_rn: the result has the value of the model's single round-to-nearest-even of the exact quotient raw/65536 (rounding commutes with the scaling, roundRat_scale); C05_toFp: = RN_F(raw)/65536 exactly, "
         "relative error <= 2^-p, a value of the format, for every int64 raw and both formats. C05_roundtrip_partial: fixed->double->fixed is the identity for |x| < 2^31-1; C05_sliver: NaN for 2^31-1 <= |x| (the property text contradicts itself there, see DESIGN.md). "
         "Rounding theory of the model proved from scratch (Real/FloatTheory, FloatOps, FloatConv). The model is tied to the hardware/compilers by bit-exact correspondence over stratified float/double bit patterns (thorough: 4099-stride sweep of all float patterns).", "rounding theory of the IEEE model (Mathlib reals, zpow) + bit-exact correspondence"),
 "C11": ("proof", "C11_atan for EVERY finite argument (all 2^64-3 raw values, by analytic composition, not enumeration): |atan(v) - Real.arctan| <= 5e-5, atan(-v) = -atan(v), |atan v| <= fixpidiv2; "
         "C11_atan2 for every pair with |y| < 2^31 and any finite x: within 8e-5 of the true angle in (-pi, pi], sign, axis values, origin -> NaN. Ingredients: Real.arctan_add split, |arctan a - arctan b| <= |a-b| (mean value), "
         "integer bracket of the truncated kernel argument (omega with the literal segment constants), kernel-checked enumeration (28 chunks) of the polynomial kernel at all 28 672 arguments against Real.arctan via sin/cos enclosures incl. monotone unit steps, the four segment constants, the clamp. "
         "C11_atan_mono2 for EVERY pair of finite arguments: x <= y => atan(x) <= atan(y) + 2 (kernel argument monotone up to one unit by cross-multiplied monotonicity against the two truncations, unit steps of the kernel, kernel-evaluated segment suprema against the next segment constant, oddness).", "analytic composition (Mathlib arctan identities, omega, nlinarith) + kernel enumeration of the polynomial kernel; correspondence"),
 "C14": ("proof", "For EVERY pair with |a|,|b| < 2^31 and any square-root back-end within one unit of the true root (SqrtNear): |hypot - sqrt(a^2+b^2)| <= 2 ulp when both operands are below 16384, <= 1.5e-4 relative otherwise; exact symmetry and sign independence; never NaN or negative. "
         "Analytic proof over the integers for all inputs (three branches as inequalities between squares, shift amounts from countl_zero via Nat.log2, no enumeration), lifted to Real.sqrt. The abacus back-end satisfies SqrtNear by the loop-invariant theorem: C14_abacus is unconditional. "
         "The std::sqrt back-end satisfies SqrtNear by the rounding theory of the IEEE model (sqrtNear_std): C14_std is unconditional too. Both back-ends are tied by correspondence on boundary pairs (clz boundaries, 2^16/2^30 thresholds, random) in both builds.", "integer inequalities (omega, nlinarith) + Real.sqrt lemmas; correspondence on both back-ends"),
}
NA_DEFAULT = "check under construction in this round (the framework is built property by property); not a claim that the technique cannot apply"

m = {"version": 1, "setup_cmd": "sh tools/setup.sh",
     "hooks": {"guard": "FIXEDMATH_VERIF", "enable": "no hooks are needed: the harness includes the public headers and links fixed_math.cc from /repo's working tree; the guard name is reserved and unused",
               "baseline_off_cmd": "ctest --test-dir /repo/_build -j8 --timeout 900", "source_commits": [], "add_only": True},
     "engines": [{"name": "lean4-proof+correspondence", "path": "tools/check.py", "serves_properties": sorted(CLAIMED),
                  "kind_free_text": "Lean 4 theorems over a hand-written UB-monad model of the C++ (lean/FixedMath), tied to /repo by a translator for constants/tables and a differential correspondence harness (value legs + sanitizer leg)"}],
     "checks": [], "not_applicable": [], "notes": "see DESIGN.md; known_findings.json lists the defects found and repaired (fix: commits in /repo)"}
for p in props:
    pid = p["id"]
    if pid in CLAIMED:
        cat, text, tech = CLAIMED[pid]
        m["checks"].append({"property_id": pid, "quick_cmd": "python3 tools/check.py %s --tier quick" % pid,
                            "thorough_cmd": "python3 tools/check.py %s --tier thorough" % pid,
                            "evidence_file": "evidence/%s.json" % pid,
                            "replay_cmd_template": "python3 tools/check.py %s --replay {path}" % pid,
                            "engine": "lean4-proof+correspondence",
                            "level_claimed": {"category": cat, "text": text, "design_ref": "DESIGN.md section 0.3 (as built) and section 3, " + pid},
                            "level_note": NOTE, "technique": tech})
    else:
        m["not_applicable"].append({"property_id": pid, "reason": NA_DEFAULT})
json.dump(m, open(V + "/MANIFEST.json", "w"), indent=1)
print("claimed", sorted(CLAIMED))

import subprocess
#!/usr/bin/env python3
"""check.py <ID> [--tier quick|thorough] [--replay FILE]

One property check: regenerate data from /repo (translator), rebuild the harness from /repo's
working tree, run the correspondence suites (value legs + UB leg) against the Lean model driver,
build the property's Lean theorems, audit axioms, write evidence/<ID>.json.
Exit 0 = property shown on everything explored; exit 1 + `VIOLATION property=<ID> replay=<path>`."""
import sys, os, json, time, random, argparse, collections
sys.path.insert(0, os.path.dirname(os.path.abspath(__file__)))
import fmlib, gen, gen_consts, suites, cexpr
from fmlib import log, Variant

TRUSTED_BASE = [
    "Lean 4.33 kernel; axioms allowed: propext, Classical.choice, Quot.sound (audited with #print axioms on every run)",
    "Mathlib v4.33 as compiled in the image (real analysis layer only)",
    "lean/FixedMath/CSem.lean as a reading of the C++17/20 abstract machine (two's complement conversions, arithmetic >>, LP64)",
    "hand-written model lean/FixedMath/Model/*.lean: modelled, tied to /repo by the differential correspondence harness (sampled outside finite theorem domains)",
    "tools/gen_consts.py translator (constants and tables regenerated from /repo on every run, double-sourced)",
    "harness/harness.cc + tools/fmlib.py diff (that the printed implementation result is what the library returned)",
    "GCC 12 / Clang 14 as conforming compilers for UB-free code; IEEE-754 hardware arithmetic, FLT_EVAL_METHOD=0",
]

def load_known():
    p = os.path.join(fmlib.VERIF, "known_findings.json")
    if os.path.exists(p): return json.load(open(p))
    return {"known": [], "fixed": []}

def matches_known(k, pid, line):
    if k.get("property") != pid: return False
    fn, tag, a = suites.parse_line(line)
    m = k.get("match", {})
    if "fn" in m and suites.base(fn) not in m["fn"] and fn not in m["fn"]: return False
    if "inputs" in m and line not in m["inputs"]: return False
    return True

def main():
    ap = argparse.ArgumentParser()
    ap.add_argument("pid")
    ap.add_argument("--tier", default=None)
    ap.add_argument("--replay")
    args = ap.parse_args()
    tier = args.tier or os.environ.get("VERIF_TIER") or "quick"      # the command line wins over the environment
    if tier not in ("quick", "thorough"): tier = "quick"
    seed = int(os.environ.get("VERIF_SEED", "0") or 0)
    pid = args.pid
    t0 = time.time()
    suite = suites.SUITES[pid]()
    rng = random.Random(seed * 1000003 + sum(map(ord, pid)))
    violations, notes = [], []        # violations: dicts with 'kind'
    ev = {"property_id": pid, "tier": tier, "seed": seed, "level": "proof", "coverage": {}, "assumptions": [], "wall_s": 0.0, "violations": 0}
    ir_stats = None

    # 1. translator ---------------------------------------------------------------------------
    g = gen_consts.generate()
    notes += g["notes"]
    if not g["ok"]:
        return finish(ev, pid, t0, [{"kind": "build", "what": "translator: " + "; ".join(g["notes"])}], notes, None)
    suites.set_consts(g["consts"])
    if g["changed"]:
        notes.append("generated data changed with respect to the last run: " + ",".join(g["changed"]))

    try:
        lines = [args_line for args_line in (suite.ops(tier, rng, gen.boundary_values(extra=[v for v in g["consts"].values() if isinstance(v, int)])) if not args.replay else json.load(open(args.replay)).get("inputs", []))]
        # corpus first
        cp = os.path.join(fmlib.VERIF, "corpus", pid + ".txt")
        if os.path.exists(cp) and not args.replay:
            lines = [l.strip() for l in open(cp) if l.strip() and not l.startswith("#")] + lines
        if not args.replay:
            r2 = random.Random(seed * 7919 + 13)
            lines = lines + gen.relation_lines(lines, r2)
            lines = lines + gen.alias_lines(lines, r2) + gen.reuse_lines(lines, r2)
        if not args.replay:
            ir_stats, ir_lines = ir_candidates(lines, tier, notes)
            lines = ir_lines + lines
        seen, uniq = set(), []
        for l in lines:
            if l not in seen: seen.add(l); uniq.append(l)
        lines = uniq
        # 2. builds ---------------------------------------------------------------------------
        driver = fmlib.build_driver()
        variants = suite_variants(suite, tier)
        has_dflt = any(":dflt" in l for l in lines)
        model_by_be = {}
        for be in (("std", "ab") if has_dflt else ("std",)):
            mo, rc, err = fmlib.run_parallel(driver, [l.replace(":dflt", ":" + be) for l in lines])
            if len(mo) != len(lines):
                raise fmlib.BuildError("model driver produced %d results for %d inputs: %s" % (len(mo), len(lines), err[-500:]))
            model_by_be[be] = mo
        model_out = model_by_be["std"]
        # 3. run every leg and compare it at once (only one leg's outputs are alive at a time) ----------
        known = load_known()
        diverge = []            # (line, leg, impl, model)
        oracle_fail = []        # (line, leg, impl, why)
        evals = 0
        parsed = [suites.parse_line(l) for l in lines]
        dom = [suite.in_domain(*p) for p in parsed]
        nontriv = set(l for l, p, d in zip(lines, parsed, dom) if d and suite.nontrivial(*p))
        hist = collections.Counter(p[0] for p, d in zip(parsed, dom) if d)
        model_ub = sum(1 for m_, d in zip(model_out, dom) if d and m_.startswith("ub"))
        oracle_cache = {}
        post = getattr(suite, "post", None)
        post_seen = set()
        cross = getattr(suite, "cross_leg", False)
        ref_out = {}            # C08: first value leg per sqrt back-end
        ub_reports = []
        legs = []               # (variant, compared, info)
        dirty_done = False
        for v in variants:
            exe, info = fmlib.build_harness(v)
            if v.san:
                sub = sample_for_ub(lines, suite, rng, tier)
                idx = [i for i, _ in sub]
                o, reports = fmlib.run_ub_leg(exe, [l for _, l in sub])
                ub_reports += reports
            else:
                idx = range(len(lines))
                o, rc, err = fmlib.run_parallel(exe, lines)
                if len(o) != len(lines):
                    o = o + ["crash"] * (len(lines) - len(o))
            if not v.san and not dirty_done:
                # purity: the same operations, each evaluated a second time after errno, the floating-point status flags
                # and the library's own potential caches were disturbed (HARNESS_DIRTY), must give the same results
                dirty_done = True
                o2, rc2, err2 = fmlib.run_parallel(exe, lines, env={"HARNESS_DIRTY": "1"})
                if len(o2) == len(o):
                    for i, (x1, x2) in enumerate(zip(o, o2)):
                        if x1 != x2 and dom[i]:
                            oracle_fail.append((lines[i], v.name + " (disturbed ambient state)", x2,
                                "the result depends on hidden state: %s in a clean run, %s when the same call is repeated after errno/FP flags were set and other library calls were made" % (x1, x2)))
                            if len(oracle_fail) > 200: break
                else:
                    notes.append("disturbed-state run produced %d results for %d inputs" % (len(o2), len(o)))
                del o2
            mo_list = model_by_be.get(v.backend, model_out) if has_dflt else model_out
            n_leg = 0
            for i, io in zip(idx, o):
                if not dom[i] or io == "skip" or io == "unknown": continue
                n_leg += 1
                if io != mo_list[i]:
                    if len(diverge) < 200000: diverge.append((lines[i], v.name, io, mo_list[i]))
                key = (i, io)
                why = oracle_cache.get(key, 0)
                if why == 0:
                    r = suites.parse_out(io)
                    why = ("the call did not return normally (%s)" % io) if r is None else suite.oracle(parsed[i][0], parsed[i][1], parsed[i][2], r)
                    oracle_cache[key] = why
                if why and len(oracle_fail) < 100000: oracle_fail.append((lines[i], v.name, io, why))
            evals += n_leg
            if not v.san:
                # C08: a result that differs between two configurations selecting the same square-root algorithm is
                # itself a violating input (the value depends on compiler / level / standard)
                if cross:
                    k = v.backend if has_dflt else "any"
                    if k in ref_out:
                        rn, ro = ref_out[k]
                        for i, (x1, x2) in enumerate(zip(ro, o)):
                            if x1 != x2 and dom[i] and x1 not in ("skip", "unknown") and x2 not in ("skip", "unknown"):
                                oracle_fail.append((lines[i], v.name, x2, "the result depends on the configuration: %s gives %s, %s gives %s" % (rn, x1, v.name, x2)))
                    else:
                        ref_out[k] = (v.name, o)
                # relations between results of different inputs (monotonicity, symmetry, periodicity, type agreement),
                # once per distinct output vector
                if post:
                    hk = hash(tuple(o))
                    if hk not in post_seen:
                        post_seen.add(hk)
                        res = {}
                        for line, io in zip(lines, o):
                            r = suites.parse_out(io)
                            if r is not None: res[line] = r
                        for line, why in post(res)[:50]:
                            oracle_fail.append((line, v.name, "ok %s" % res.get(line), why))
                        del res
                # the same call with a literal and with a run-time argument must agree (a dispatch on
                # __builtin_constant_p / constant folding makes one program see two functions)
                pos = {l: i for i, l in enumerate(lines) if l.startswith("lit_")}
                if pos:
                    where = {l: i for i, l in enumerate(lines)}
                    for l, i in pos.items():
                        h, rest = l.split(" ", 1)
                        base = h[4:] + " " + rest
                        if h.startswith("lit_hypot1"): base = "hypot" + h[10:] + " " + rest + " 65536"
                        j = where.get(base)
                        if j is not None and o[i] != o[j] and o[i] not in ("skip", "unknown") and o[j] not in ("skip", "unknown"):
                            oracle_fail.append((l, v.name, o[i], "the result depends on the call form: literal argument gives %s, the same value at run time gives %s" % (o[i], o[j])))
            legs.append((v, n_leg, info))
            del o
    except fmlib.BuildError as e:
        return finish(ev, pid, t0, [{"kind": "build", "what": str(e)[:4000]}], notes, None)

    # native soak: tens of millions of generated operations, model driver against the real library, compared natively
    soak_stats = None
    if not args.replay:
        try:
            soak_stats, s_div = soak(pid, suite, tier, seed, driver)
            for line, leg, io, mo in s_div:
                fn_, tag_, a_ = suites.parse_line(line)
                if not suite.in_domain(fn_, tag_, a_): continue
                diverge.append((line, leg + " (soak)", io, mo))
                r = suites.parse_out(io)
                why = ("the call did not return normally (%s)" % io) if r is None else suite.oracle(fn_, tag_, a_, r)
                if why: oracle_fail.append((line, leg + " (soak)", io, why))
            evals += soak_stats["compared"]
            # relations (periodicity, oddness ...) for the diverging soak inputs: evaluate their companion inputs on the leg
            comp = getattr(suite, "companions", None)
            if s_div and comp and post and not any("(soak)" in x[1] for x in oracle_fail):
                by_leg = collections.defaultdict(list)
                for line, leg, io, mo in s_div[:300]: by_leg[leg].append((line, io))
                for v_ in (fmlib.V_DEFAULT, fmlib.V_CLANG20):
                    if v_.name not in by_leg: continue
                    extra = sorted({c for line, io in by_leg[v_.name] for c in comp(*suites.parse_line(line))})
                    exe_, _ = fmlib.build_harness(v_)
                    o_, rc_, err_ = fmlib.run_parallel(exe_, extra)
                    res = {l: suites.parse_out(x) for l, x in zip(extra, o_)}
                    res.update({line: suites.parse_out(io) for line, io in by_leg[v_.name]})
                    res = {k: v for k, v in res.items() if v is not None}
                    for line, why in post(res)[:50]:
                        oracle_fail.append((line, v_.name + " (soak)", "ok %s" % res.get(line), why))
        except fmlib.BuildError as e:
            return finish(ev, pid, t0, [{"kind": "build", "what": str(e)[:4000]}], notes, None)

    # constant-evaluation leg (C08): the model's value must be accepted as a constant expression
    ce_stats = None
    if not args.replay or getattr(suite, "constexpr", False):
        full = getattr(suite, "constexpr", False)          # C08: the whole configuration list and more assertions
        mo_ab = model_by_be.get("ab") or fmlib.run_parallel(driver, [l.replace(":dflt", ":ab") for l in lines])[0]
        nt_sorted = [l for l in lines if l in nontriv]
        random.Random(seed + 7).shuffle(nt_sorted)
        limit = 6000 if tier == "quick" else 60000
        cfgs = None if full else ([("g++", "c++17", True), ("clang++-14", "c++20", False)] if tier == "quick" else None)
        ce_stats, ce_fail = cexpr.run(lines, mo_ab, suites.parse_line, tier, limit, priority=[d[0] for d in diverge] + special_first(lines, seed) + nt_sorted, configs=cfgs)
        for f in ce_fail:
            oracle_fail.append((f["input"] or "<translation unit>", "constant-evaluation " + f["config"], "compile error",
                                "not accepted as a constant expression equal to the run-time/model value %s: %s" % (f.get("expected"), f["error"])))
    # 4. Lean theorems ------------------------------------------------------------------------
    lean = lean_obligations(suite, tier)

    # 5. verdict ------------------------------------------------------------------------------
    kf_lines = []
    for line, leg, io, why in oracle_fail:
        k = next((k for k in known.get("known", []) if matches_known(k, pid, line)), None)
        if k: kf_lines.append("KNOWN-FINDING: property=%s %s" % (pid, k.get("text", line)))
        else: violations.append({"kind": "input", "input": line, "leg": leg, "observed": io, "why": why})
    if not violations:
        if diverge:
            # the correspondence is broken and no recorded input violates the property: search deeper
            found = deep_search(suite, pid, tier, rng) or neighbour_search(suite, diverge, legs, rng, tier)
            if found: violations += found
            else:
                violations.append({"kind": "correspondence", "suite": pid, "first_divergences": [
                    {"input": l, "leg": leg, "implementation": io, "model": mo} for l, leg, io, mo in diverge[:10]],
                    "count": len(diverge)})
        if not lean["ok"]:
            violations.append({"kind": "proof", "theorems": lean["failed"], "log": lean["log"][-3000:]})
    for l in sorted(set(kf_lines)): print(l)

    cov = ev["coverage"]
    cov["obligations"] = lean["obligations"]
    cov["discharged"] = lean["discharged"]
    cov["checker_cmd"] = lean["cmd"]
    cov["trusted_base"] = TRUSTED_BASE
    cov["theorems"] = lean["theorems"]
    cov["axioms"] = lean["axioms"]
    cov["evaluations"] = evals
    cov["distinct_inputs"] = len(lines)
    cov["distinct_nontrivial"] = len(nontriv)
    cov["rule"] = ("inputs: corpus, boundary pool (incl. every integer literal of the current sources), "
                   "property-specific boundary constructions, magnitude-stratified random (seeded); "
                   "non-trivial = " + (suite.nontrivial.__doc__ or "input exercises an overflow/NaN/boundary branch per the suite's predicate"))
    cov["samples"] = lines[:3] + [l for l in lines if l in nontriv][:5]
    cov["function_histogram"] = dict(hist)
    cov["legs"] = [{"variant": v.name, "detail_wrappers": info.get("detail", True), "compared": n_, "sqrt_backend": v.backend} for v, n_, info in legs]
    cov["divergences"] = len(diverge)
    cov["model_ub_results"] = model_ub
    cov["ub_reports"] = ub_reports[:5]
    if ce_stats is not None: cov["constant_evaluation_leg"] = ce_stats
    if soak_stats is not None: cov["native_soak"] = soak_stats
    if ir_stats is not None: cov["solver_guided_search"] = ir_stats
    cov["translator"] = {"changed": g["changed"], "table_sha": g.get("table_sha")}
    cov["notes"] = notes
    ev["assumptions"] = ["the theorems are about the Lean model; the model is tied to /repo by this run's correspondence (%d comparisons, %d divergences)" % (evals, len(diverge))]
    return finish(ev, pid, t0, violations, notes, lean)

def ir_candidates(lines, tier, notes):
    """Solver-guided search (tools/irsearch.py): entry points whose LLVM IR differs from the one recorded for the tree the model
    was written for are compared with the recorded baseline IR by z3, and the arguments on which the two
    differ are added to this run's inputs.  They are candidates only - the verdict comes from the real builds and the model."""
    try:
        import fingerprint
        ch = fingerprint.changed()        # on the unchanged tree every wrapper's IR is identical to the baseline and no solver time is spent
        import irsearch
        heads = sorted(set(l.split()[0] for l in lines) & set(irsearch.wrappers()))
        if not heads:
            return {"ran": False, "reason": "no entry point of this suite has a loop-free wrapper"}, []
        budget = 60 if tier == "quick" else 600
        r = subprocess.run([sys.executable, os.path.join(fmlib.VERIF, "tools", "irsearch.py"), "--heads", ",".join(heads), "--budget", str(budget)],
                           capture_output=True, text=True, timeout=budget * 2 + 120)
        out = json.loads(r.stdout)
        cands = out["candidates"]
        if cands:
            # arguments outside the library's contract (the model answers `ub ...`: shift counts, casts of out-of-range values)
            # may legitimately behave differently after a rewrite: they are not inputs of any property
            drv = fmlib.build_driver()
            keep = set()
            for be in ("std", "ab"):
                mo, _, _ = fmlib.run_parallel(drv, [l.replace(":dflt", ":" + be) for l in cands])
                if len(mo) == len(cands): keep |= {i for i, m_ in enumerate(mo) if m_.startswith("ub") or m_ == "bad-op"}
            dropped = len(keep)
            cands = [l for i, l in enumerate(cands) if i not in keep]
        else:
            dropped = 0
        st = out["stats"]; st["ran"] = True; st["changed_files"] = ch; st["candidates"] = len(cands); st["outside_contract_dropped"] = dropped; st["sample"] = cands[:4]
        return st, cands
    except Exception as e:
        notes.append("solver-guided search did not complete (%s: %s); the other stages are unaffected" % (type(e).__name__, str(e)[:200]))
        return {"ran": False, "reason": "error"}, []

def suite_variants(suite, tier):
    from fmlib import V_DEFAULT, V_ABACUS, V_CLANG20, V_SAN, V_SAN_ABACUS, V_REL, V_SIZE, V_SAN_O1
    if tier == "quick":
        vs = [V_DEFAULT, V_CLANG20, V_REL, V_SIZE, V_SAN]
        if suite.needs_abacus_leg: vs += [V_ABACUS]
        return vs
    vs = []
    for cxx in ("g++", "clang++-14"):
        for std in ("c++17", "c++20", "c++2b"):
            for opt in ("-O0", "-O1", "-O2", "-O3"):
                vs.append(Variant(cxx, std, opt, abacus=False))
                if suite.needs_abacus_leg or opt in ("-O2",): vs.append(Variant(cxx, std, opt, abacus=True))
    vs += [V_REL, Variant("g++", "c++2b", "-O3", extra=("-DNDEBUG", "-funsigned-char"), label="rel"), V_SIZE,
           Variant("clang++-14", "gnu++17", "-Os", label="size"), Variant("g++", "gnu++17", "-Og", label="dbg"), Variant("clang++-14", "c++2b", "-Oz", label="size")]
    vs += [V_SAN, V_SAN_O1, V_SAN_ABACUS, Variant("clang++-14", "c++20", "-O1", san=True), V_ABACUS]
    return vs

def sample_for_ub(lines, suite, rng, tier):
    n = suite.ub_sample if tier == "quick" else suite.ub_sample * 10
    idx = list(range(len(lines)))
    if len(idx) > n:
        nt = [i for i in idx if suite.nontrivial(*suites.parse_line(lines[i]))]
        nts = set(nt)
        rest = [i for i in idx if i not in nts]
        rng.shuffle(nt); rng.shuffle(rest)
        idx = sorted(nt[: n // 2] + rest[: n - min(len(nt), n // 2)])
    return [(i, lines[i]) for i in idx]

def lean_obligations(suite, tier):
    res = {"ok": True, "obligations": 0, "discharged": 0, "cmd": "", "theorems": [], "axioms": {}, "failed": [], "log": ""}
    mod = suite.spec_module
    if not mod:
        res["ok"] = False; res["failed"] = ["no Spec module"]; return res
    path = os.path.join(fmlib.LEAN, *mod.split(".")) + ".lean"
    res["cmd"] = "cd lean && lake build %s && lake env lean <#print axioms of every theorem in %s>" % (mod, mod)
    if not os.path.exists(path):
        res["ok"] = False; res["failed"] = [mod + " (missing)"]; return res
    thms = fmlib.list_theorems(path)
    res["theorems"] = thms
    res["obligations"] = len(thms)
    hits = fmlib.audit_sources()
    if hits:
        res["ok"] = False; res["failed"] += ["forbidden construct: " + h for h in hits]
    ok, out, secs = fmlib.lake_build([mod])
    res["log"] = out
    res["build_s"] = secs
    if not ok:
        res["ok"] = False
        import re
        bad = re.findall(r"error: ([^\n]*)", out)
        res["failed"] += bad[:10] or [mod]
        return res
    ax, text = fmlib.print_axioms(mod, ["FixedMath." + t if not t.startswith("FixedMath.") else t for t in thms])
    res["axioms"] = ax
    for t in thms:
        full = "FixedMath." + t if not t.startswith("FixedMath.") else t
        if full not in ax:
            res["ok"] = False; res["failed"].append(full + ": axioms not reported"); continue
        extra = [a for a in ax[full] if a not in fmlib.ALLOWED_AXIOMS]
        if extra:
            res["ok"] = False; res["failed"].append(full + ": depends on " + ",".join(extra)); continue
        res["discharged"] += 1
    if tier == "thorough":
        import subprocess
        with fmlib.locked("lake"):
            r = subprocess.run(["lake", "env", "leanchecker", mod], cwd=fmlib.LEAN, capture_output=True, text=True)
        res["leanchecker"] = "ok" if r.returncode == 0 else (r.stdout + r.stderr)[-500:]
        if r.returncode != 0:
            res["ok"] = False; res["failed"].append("leanchecker " + mod)
    return res

def soak(pid, suite, tier, seed, driver):
    """generate operations natively (tools/soakgen.cc), run them through the Lean model driver and through two value
    legs of the real library, compare the output files natively; only mismatching lines are read back"""
    import tempfile, shutil
    gen_exe = fmlib.build_soakgen()
    per = 1_200_000 if tier == "quick" else 2_000_000      # lines per worker and round (the three files are removed after each round)
    rounds = 1 if tier == "quick" else 20
    import fingerprint
    ch = fingerprint.changed()
    if ch and tier == "quick":
        rounds = 3          # the library text differs from the text the model was written for: look harder (not an alarm)
    workers = fmlib.NCPU
    legs2 = [fmlib.V_DEFAULT, fmlib.V_CLANG20]
    exes = [fmlib.build_harness(v)[0] for v in legs2]
    d = tempfile.mkdtemp(prefix="fmsoak")
    div, compared = [], 0
    try:
        import concurrent.futures as cf
        def work(job):
            rnd, w = job
            exe = exes[(w + rnd) % len(exes)]
            L, M, H = (os.path.join(d, "%s%d_%d" % (c, rnd, w)) for c in "LMH")
            cmd = ("%s %s %d %d | sed 's/:dflt/:std/' > %s && %s < %s > %s & pid1=$!; wait $pid1; %s < %s > %s; cmp -s %s %s" %
                   (gen_exe, pid, seed * 100000 + rnd * 1000 + w, per, L, driver, L, M, exe, L, H, M, H))
            r = subprocess.run(["bash", "-c", cmd], capture_output=True, text=True)
            out = []
            if r.returncode != 0:
                with open(L, errors="replace") as fl, open(M, errors="replace") as fm, open(H, errors="replace") as fh:   # a broken build can print any bytes
                    for l, m_, h in zip(fl, fm, fh):
                        if m_ != h:
                            out.append((l.strip(), legs2[(w + rnd) % len(exes)].name, h.strip(), m_.strip()))
                            if len(out) >= 2000: break
            n = per
            for f in (L, M, H):
                try: os.remove(f)
                except OSError: pass
            return out, n
        with cf.ThreadPoolExecutor(max_workers=workers) as ex:
            for out, n in ex.map(work, [(r_, w_) for r_ in range(rounds) for w_ in range(workers)]):
                div += out; compared += n
                if len(div) > 20000: break
    finally:
        shutil.rmtree(d, ignore_errors=True)
    return {"generator": "tools/soakgen.cc", "compared": compared, "workers": workers, "rounds": rounds, "legs": [v.name for v in legs2], "mismatches": len(div),
            "source_files_changed_since_model_was_written": ch}, div

def special_first(lines, seed):
    sp = sorted(l for l in lines if l in suites.SPECIAL)
    random.Random(seed + 11).shuffle(sp)
    return sp[:2000]

def neighbour_search(suite, diverge, legs, rng, tier):
    """the model and the implementation disagree on some inputs, none of which violates the property:
    look for a violating input in the neighbourhood of the diverging ones (arguments perturbed, scaled, swapped,
    negated) on the legs that diverged, judged by the suite's executable statement of the property"""
    by_leg = collections.defaultdict(list)
    for line, leg, io, mo in diverge: by_leg[leg].append(line)
    budget = 40000 if tier == "quick" else 400000
    found = []
    for v, n_, info in legs:
        if v.san or v.name not in by_leg: continue
        src = by_leg[v.name]; rng.shuffle(src)
        cand, seen = [], set()
        for line in src[:400]:
            head = line.split()[0]
            try: a = [int(x) for x in line.split()[1:]]
            except ValueError: continue
            for _ in range(max(1, budget // max(1, min(len(src), 400)))):
                b = list(a)
                i = rng.randrange(len(b)) if b else 0
                if not b: break
                c = rng.randrange(8)
                if c == 0: b[i] += rng.choice((-3, -2, -1, 1, 2, 3))
                elif c == 1: b[i] += rng.randrange(-4096, 4097)
                elif c == 2: b[i] = b[i] * 2 + rng.choice((0, 1))
                elif c == 3: b[i] = b[i] // 2
                elif c == 4: b[i] = -b[i]
                elif c == 5 and len(b) > 1: b[0], b[1] = b[1], b[0]
                elif c == 6: b[i] += rng.randrange(-2**20, 2**20)
                else: b = [x + rng.choice((-1, 0, 1)) for x in b]
                if any(abs(x) > NANP_LIMIT for x in b): continue
                l2 = head + " " + " ".join(str(x) for x in b)
                if l2 not in seen: seen.add(l2); cand.append(l2)
        if not cand: continue
        exe, _ = fmlib.build_harness(v)
        o, rc, err = fmlib.run_parallel(exe, cand)
        for l2, io in zip(cand, o):
            fn, tag, a = suites.parse_line(l2)
            if not suite.in_domain(fn, tag, a): continue
            r = suites.parse_out(io)
            if r is None: continue
            why = suite.oracle(fn, tag, a, r)
            if why:
                found.append({"kind": "input", "input": l2, "leg": v.name, "observed": io, "why": why + " (found by the neighbourhood search around diverging inputs)"})
                if len(found) >= 10: return found
        if found: return found
    return found

NANP_LIMIT = 2**63 - 1

def deep_search(suite, pid, tier, rng):
    """search the implementation for a property-violating input beyond the suite's own inputs"""
    f = getattr(suite, "deep_search", None)
    return f(tier, rng) if f else []

def finish(ev, pid, t0, violations, notes, lean):
    ev["wall_s"] = round(time.time() - t0, 2)
    ev["violations"] = len(violations)
    cov = ev["coverage"]
    cov.setdefault("obligations", 0); cov.setdefault("discharged", 0)
    cov.setdefault("checker_cmd", "lake build"); cov.setdefault("trusted_base", TRUSTED_BASE)
    cov.setdefault("evaluations", 0); cov.setdefault("distinct_nontrivial", 0)
    if violations: cov["violation_summaries"] = [json.dumps(v, default=str)[:400] for v in violations[:5]]
    fmlib.write_json(os.path.join(fmlib.EVID, pid + ".json"), ev)
    fmlib.prune_cache()
    if not violations:
        print("OK property=%s tier=%s evaluations=%d theorems=%d/%d wall=%.1fs" % (
            pid, ev["tier"], cov.get("evaluations", 0), cov.get("discharged", 0), cov.get("obligations", 0), ev["wall_s"]))
        return 0
    inputs = [v for v in violations if v["kind"] == "input"]
    if inputs:
        v = inputs[0]
        path = fmlib.write_replay(pid, {"property": pid, "kind": "failing-input", "inputs": [x["input"] for x in inputs[:20]],
                                        "details": inputs[:20], "replay_cmd": "python3 tools/check.py %s --replay <this file>" % pid})
        print("VIOLATION property=%s replay=%s" % (pid, path))
    else:
        path = fmlib.write_replay(pid, {"property": pid, "kind": "unproved", "no_longer_checks": violations,
                                        "inputs": [d["input"] for v in violations if v["kind"] == "correspondence" for d in v["first_divergences"]]})
        print("VIOLATION property=%s replay=%s no-failing-input-found" % (pid, path))
    return 1

if __name__ == "__main__":
    sys.exit(main())

#!/usr/bin/env python3
"""irsearch.py: solver-guided search for inputs on which the CURRENT library differs from the tree the model was written for.

This is a SEARCH aid, not a proof and not a verdict.  When the library text differs from /verif/baseline_source.json, every
entry point that clang compiles to loop-free, memory-free LLVM IR is compiled from /repo's working tree, compared with the
IR recorded for the baseline tree (/verif/baseline_ir/*.ll), and - where the two differ - both functions are translated to
bit-vector / floating-point terms and z3 is asked for arguments on which their results differ.  Each answer is only a
CANDIDATE op line: tools/check.py feeds it to the real harness builds and to the Lean model driver like any other input, and
only a divergence between those two (or an oracle failure on the real build) is ever reported.  A wrong translation, an
unsupported instruction, a time-out or a crash here can therefore lose a candidate but cannot raise or hide an alarm.

usage:  irsearch.py --write-baseline            (once, on the tree the model corresponds to)
        irsearch.py --heads add,ceil,to_fixed:i16 --budget 60     -> JSON {candidates:[...], stats:{...}} on stdout"""
import os, re, sys, json, time, subprocess, tempfile, shutil, argparse
V = os.path.dirname(os.path.dirname(os.path.abspath(__file__)))
INC = "/repo/fixed_lib/include"
BASE = os.path.join(V, "baseline_ir")
CFGS = [("c++20", ["-std=c++20"]), ("c++17", ["-std=c++17"])]

CT = {"i8": "int8_t", "i16": "int16_t", "i32": "int32_t", "i64": "int64_t", "u8": "uint8_t", "u16": "uint16_t", "u32": "uint32_t", "u64": "uint64_t"}

def wrappers():
    """head -> (symbol, argkinds, C++ body).  argkinds: 'x' raw fixed, 'n' int, a CT tag, 'd' double, 'f' float"""
    W = {}
    def add(head, kinds, body):
        sym = "w_" + re.sub(r"\W", "_", head)
        W[head] = (sym, kinds, body)
    for fn, e in {"neg": "(-X).v", "abs": "abs(X).v", "isnan": "isnan(X)", "ceil": "ceil(X).v", "floor": "floor(X).v", "sin": "sin(X).v",
                  "cos": "cos(X).v", "tan": "tan(X).v", "atan": "atan(X).v", "roundtrip_d": "fixed_t{static_cast<double>(X)}.v",
                  "sqrt:dflt": "sqrt(X).v", "asin:dflt": "asin(X).v", "acos:dflt": "acos(X).v", "sqrt_aprox": "sqrt_aprox(X).v",
                  "sin_angle:fx": "sin_angle(X).v", "cos_angle:fx": "cos_angle(X).v", "tan_angle:fx": "tan_angle(X).v"}.items():
        add(fn, ["x"], e)
    for fn, op in {"add": "+", "sub": "-", "mul": "*", "div": "/", "band": "&"}.items(): add(fn, ["x", "x"], "(X %s Y).v" % op)
    for fn, op in {"addeq": "+=", "subeq": "-=", "muleq": "*=", "diveq": "/="}.items(): add(fn, ["x", "x"], "[&]{ fixed_t t = X; t %s Y; return t.v; }()" % op)
    for fn, op in {"lt": "<", "le": "<=", "gt": ">", "ge": ">=", "eq": "==", "ne": "!="}.items(): add(fn, ["x", "x"], "(X %s Y)" % op)
    add("atan2", ["x", "x"], "atan2(X, Y).v"); add("hypot:dflt", ["x", "x"], "hypot(X, Y).v")
    add("shl", ["x", "n"], "(X << b).v"); add("shr", ["x", "n"], "(X >> b).v")
    for t, c in CT.items():
        add("to_fixed:" + t, [t], "fixed_t{a}.v")
        add("from_fixed:" + t, ["x"], "static_cast<%s>(X)" % c)
        add("a2r:" + t, [t], "angle_to_radians(a).v")
        for fn, e in {"mul_s": "(X * b).v", "rmul_s": "(b * X).v", "div_s": "(X / b).v", "add_i": "(X + b).v", "radd_i": "(b + X).v",
                      "sub_i": "(X - b).v", "rsub_i": "(b - X).v", "rdiv_i": "(b / X).v"}.items():
            add(fn + ":" + t, ["x", t], e)
        for fn in ("sin_angle", "cos_angle", "tan_angle"): add(fn + ":" + t, [t], "%s(a).v" % fn)
    add("fp_to_fixed:f64", ["d"], "fixed_t{a}.v"); add("fp_to_fixed:f32", ["f"], "fixed_t{a}.v")
    add("to_fp:f64", ["x"], "static_cast<double>(X)"); add("to_fp:f32", ["x"], "static_cast<float>(X)")
    for fn, e in {"add_f": "(X + b).v", "radd_f": "(b + X).v", "sub_f": "(X - b).v", "rsub_f": "(b - X).v", "mul_f": "(X * b).v",
                  "rmul_f": "(b * X).v", "div_f": "(X / b).v", "rdiv_f": "(b / X).v"}.items(): add(fn, ["x", "f"], e)
    for fn, e in {"add_d": "(X + b)", "sub_d": "(X - b)", "mul_d": "(X * b)", "div_d": "(X / b)"}.items(): add(fn, ["x", "d"], e)
    return W

def source(W):
    ctype = dict(CT, x="int64_t", n="int", d="double", f="float")
    out = ["#include <fixedmath/fixed_math.hpp>", "#include <cstdint>", "using namespace fixedmath;", "#define X as_fixed(a)", "#define Y as_fixed(b)"]
    for head, (sym, kinds, body) in W.items():
        ps = ", ".join("%s %s" % (ctype[k], "ab"[i]) for i, k in enumerate(kinds))
        out.append('extern "C" auto %s(%s) { return %s; }' % (sym, ps, body))
    return "\n".join(out) + "\n"

def compile_ir(flags, W, outpath):
    d = tempfile.mkdtemp(prefix="fmir")
    try:
        src = os.path.join(d, "w.cc")
        open(src, "w").write(source(W))
        r = subprocess.run(["clang++-14", "-O2", "-fno-vectorize", "-fno-slp-vectorize", "-S", "-emit-llvm", "-w", "-I", INC, src, "-o", outpath] + flags,
                           capture_output=True, text=True)
        return r.returncode == 0, r.stderr[-2000:]
    finally:
        shutil.rmtree(d, ignore_errors=True)

# ---------------------------------------------------------------------------------------------------------------------
class Unsupported(Exception): pass

TY = r"(?:i\d+|double|float|\{ [^}]*\}|void)"
VAL = r"(?:%[\w.]+|-?\d+\.\d+e[+-]\d+|-?\d+|0x[0-9A-Fa-f]+|true|false|undef|poison|zeroinitializer)"

class Fn:
    def __init__(self, name, params, blocks, order, text):
        self.name, self.params, self.blocks, self.order, self.text = name, params, blocks, order, text

class Mod(dict):
    pass

ABSTRACT_FP = [False]        # True: every floating-point operation is an uninterpreted function over bit patterns - the solver sees only
                             # the integer control logic around it; answers are speculative candidates, cheap to produce and to test
ABSTRACT_SQRT = [False]      # True: sqrt is an uninterpreted function constrained by r*r ~ x (both sides of the comparison share it)
SIDE = []                    # side constraints collected while ABSTRACT_SQRT is on

AFTER = ["sin", "cos", "tan", "atan", "sqrt:dflt", "asin:dflt", "acos:dflt", "ceil", "floor", "sqrt_aprox", "atan_index", "atan_aprox", "neg", "abs"]
# `after[:tag] i j a b`: AFTER[i](a) is evaluated, then AFTER[j](b) in the same thread; the second result is reported
# (same table in harness/harness.cc, lean/Main.lean and tools/suites.py)

def parse_module(text):
    fns, lines, i = Mod(), text.splitlines(), 0
    fns.globals = {}
    for l in lines:
        m = re.match(r"^@([\w.$]+) = .*?\b(global|constant) (i\d+|double|float) (%s)" % VAL, l)
        if m: fns.globals[m.group(1)] = (m.group(2), m.group(3), m.group(4))
    while i < len(lines):
        l = lines[i]
        if l.startswith("define "):
            m = re.search(r"@([\w.$]+)\(", l)
            name = m.group(1)
            depth, j = 1, m.end()
            while depth:
                depth += {"(": 1, ")": -1}.get(l[j], 0); j += 1
            pstr = l[m.end():j - 1]
            params = []
            for k, p in enumerate([p for p in split_top(pstr) if p.strip()]):
                toks = p.split()
                params.append((toks[0], toks[-1] if toks[-1].startswith("%") else "%%%d" % k))
            body = []
            i += 1
            while lines[i] != "}":
                body.append(lines[i]); i += 1
            blocks, order, cur = {}, [], str(len(params))
            blocks[cur] = []; order.append(cur)
            pend = None
            for b in body:
                b = b.split(";")[0].rstrip() if re.match(r"^[\w.]+:", b) else b.rstrip()
                if not b.strip(): continue
                m2 = re.match(r"^([\w.]+):", b)
                if m2:
                    cur = m2.group(1); blocks[cur] = []; order.append(cur); continue
                s = b.strip()
                if pend is not None:
                    pend += " " + s
                    if s.startswith("]"): blocks[cur].append(pend); pend = None
                    continue
                if s.startswith("switch ") and not s.endswith("]"): pend = s; continue
                blocks[cur].append(s)
            norm = "\n".join(re.sub(r"\s+#\d+", "", re.sub(r",? !\w+ !\d+", "", x)) for x in body)
            fns[name] = Fn(name, params, blocks, order, norm)
        i += 1
    return fns

def split_top(s):
    out, depth, cur = [], 0, ""
    for ch in s:
        if ch in "([{<": depth += 1
        elif ch in ")]}>": depth -= 1
        if ch == "," and depth == 0: out.append(cur); cur = ""
        else: cur += ch
    if cur.strip(): out.append(cur)
    return out

def callees(fn):
    return set(re.findall(r"call [^@]*@([\w.$]+)\(", "\n".join(sum(fn.blocks.values(), []))))

def closure_text(mod, name, seen=None):
    seen = seen if seen is not None else set()
    if name in seen or name not in mod: return ""
    seen.add(name)
    return mod[name].text + "".join("\n--" + c + "\n" + closure_text(mod, c, seen) for c in sorted(callees(mod[name])) if c in mod)

# ---------------------------------------------------------------------------------------------------------------------
def translate(z3, mod, name, args, depth=0, state=None, entry=None):
    """symbolic evaluation of a loop-free function whose only memory accesses are loads and stores of scalar globals:
    returns (value, ub_condition); `state` (global name -> term) is updated in place"""
    if depth > 12: raise Unsupported("call depth")
    state = state if state is not None else {}
    fn = mod[name]
    RNE, RTZ = z3.RNE(), z3.RTZ()
    A = ABSTRACT_FP[0]
    def uf(nm, ret, *xs):
        xs = [bv1(x) for x in xs]
        return z3.Function("%s_%s" % (nm, "_".join(str(x.size()) for x in xs)), *([x.sort() for x in xs] + [ret]))(*xs)
    def sort(t):
        if t in ("double", "float"): USES_FP[0] = True
        if t == "double": return z3.BitVecSort(64) if A else z3.Float64()
        if t == "float": return z3.BitVecSort(32) if A else z3.Float32()
        m = re.fullmatch(r"i(\d+)", t)
        if m: return z3.BitVecSort(int(m.group(1)))
        raise Unsupported("type " + t)
    def width(t): return int(t[1:])
    env = {p[1]: a for p, a in zip(fn.params, args)}
    def const(t, s):
        if s.startswith("%"):
            if s not in env: raise Unsupported("use of " + s)
            return env[s]
        if t in ("double", "float"): USES_FP[0] = True
        if t in ("double", "float") and A:
            import struct
            d = struct.unpack("<d", struct.pack("<Q", int(s, 16)))[0] if s.startswith("0x") else 0.0 if s in ("undef", "poison", "zeroinitializer") else float(s)
            return z3.BitVecVal(int(s, 16), 64) if (t == "double" and s.startswith("0x")) else \
                   z3.BitVecVal(struct.unpack("<Q", struct.pack("<d", d))[0], 64) if t == "double" else z3.BitVecVal(struct.unpack("<I", struct.pack("<f", d))[0], 32)
        if t in ("double", "float"):
            if s.startswith("0x"): d = z3.fpBVToFP(z3.BitVecVal(int(s, 16), 64), z3.Float64())
            elif s in ("undef", "poison", "zeroinitializer"): d = z3.FPVal(0.0, z3.Float64())
            else: d = z3.FPVal(float(s), z3.Float64())
            return d if t == "double" else z3.fpFPToFP(RNE, d, z3.Float32())
        if t == "i1":
            return z3.BoolVal(s in ("true", "1", "-1"))
        if s in ("undef", "poison", "zeroinitializer", "false"): s = "0"
        if s == "true": s = "1"
        return z3.BitVecVal(int(s), width(t))
    def bv1(b): return z3.If(b, z3.BitVecVal(1, 1), z3.BitVecVal(0, 1)) if z3.is_bool(b) else b
    # CFG
    succ = {}
    for b, ins in fn.blocks.items():
        if not ins: raise Unsupported("empty block")
        t = ins[-1]
        succ[b] = re.findall(r"label %([\w.]+)", t) if t.startswith(("br ", "switch ")) else []
    mark, topo = {}, []
    def dfs(b):
        mark[b] = 1
        for s in succ[b]:
            if mark.get(s) == 1: raise Unsupported("loop")
            if s not in mark: dfs(s)
        mark[b] = 2; topo.append(b)
    sys.setrecursionlimit(10000)
    dfs(fn.order[0]); topo.reverse()
    cond = {fn.order[0]: entry if entry is not None else z3.BoolVal(True)}
    def gval(g):
        if g in state: return state[g]
        if g not in mod.globals: raise Unsupported("memory @" + g[:40])
        return const(mod.globals[g][1], mod.globals[g][2])
    edges = {}                       # (pred, succ) -> condition
    rets, ub = [], z3.BoolVal(False)
    def icmp(pred, a, b):
        return {"eq": lambda: a == b, "ne": lambda: a != b, "sgt": lambda: a > b, "sge": lambda: a >= b, "slt": lambda: a < b, "sle": lambda: a <= b,
                "ugt": lambda: z3.UGT(a, b), "uge": lambda: z3.UGE(a, b), "ult": lambda: z3.ULT(a, b), "ule": lambda: z3.ULE(a, b)}[pred]()
    def fcmp(pred, a, b):
        if A: return uf("fcmp_" + pred, z3.BoolSort(), a, b)
        un = z3.Or(z3.fpIsNaN(a), z3.fpIsNaN(b))
        base = {"eq": z3.fpEQ, "gt": z3.fpGT, "ge": z3.fpGEQ, "lt": z3.fpLT, "le": z3.fpLEQ}
        if pred == "true": return z3.BoolVal(True)
        if pred == "false": return z3.BoolVal(False)
        if pred == "ord": return z3.Not(un)
        if pred == "uno": return un
        if pred == "one": return z3.And(z3.Not(un), z3.Not(z3.fpEQ(a, b)))
        if pred == "une": return z3.Or(un, z3.Not(z3.fpEQ(a, b)))
        r = base[pred[1:]](a, b)
        return r if pred[0] == "o" else z3.Or(un, r)
    def call(ret_t, callee, cargs, bcond):
        nonlocal ub
        a = cargs
        m = re.fullmatch(r"llvm\.([su])(add|sub|mul)\.with\.overflow\.i(\d+)", callee)
        if m:
            w = int(m.group(3)); sg = m.group(1) == "s"
            ext = (lambda v: z3.SignExt(w, v)) if sg else (lambda v: z3.ZeroExt(w, v))
            x, y = ext(a[0]), ext(a[1])
            if A and m.group(2) == "mul":
                USES_FP[0] = True
                return (uf("mulo", a[0].sort(), a[0], a[1]), uf("mulo_flag", z3.BoolSort(), a[0], a[1]))
            full = {"add": x + y, "sub": x - y, "mul": x * y}[m.group(2)]
            res = z3.Extract(w - 1, 0, full)
            return (res, ext(res) != full)
        m = re.fullmatch(r"llvm\.([su])(add|sub)\.sat\.i(\d+)", callee)
        if m: raise Unsupported("saturating")
        base = callee.rsplit(".", 1)[0] if callee.startswith("llvm.") else callee
        if base == "llvm.abs": return z3.If(a[0] < 0, -a[0], a[0])
        if base == "llvm.smax": return z3.If(a[0] > a[1], a[0], a[1])
        if base == "llvm.smin": return z3.If(a[0] < a[1], a[0], a[1])
        if base == "llvm.umax": return z3.If(z3.UGT(a[0], a[1]), a[0], a[1])
        if base == "llvm.umin": return z3.If(z3.ULT(a[0], a[1]), a[0], a[1])
        if base in ("llvm.fshl", "llvm.fshr"):
            w = a[0].size(); cat = z3.Concat(a[0], a[1]); sh = z3.ZeroExt(w, z3.URem(a[2], z3.BitVecVal(w, w)))
            return z3.Extract(2 * w - 1, w, cat << sh) if base == "llvm.fshl" else z3.Extract(w - 1, 0, z3.LShR(cat, sh))
        if base == "llvm.bswap":
            w = a[0].size(); return z3.Concat(*[z3.Extract(8 * i + 7, 8 * i, a[0]) for i in range(w // 8)])
        if base == "llvm.ctpop":
            w = a[0].size(); return sum((z3.ZeroExt(w - 1, z3.Extract(i, i, a[0])) for i in range(w)), z3.BitVecVal(0, w))
        if base in ("llvm.ctlz", "llvm.cttz"):
            w = a[0].size(); r = z3.BitVecVal(w, w)
            rng = range(w) if base == "llvm.ctlz" else range(w - 1, -1, -1)
            for i in rng:
                r = z3.If(z3.Extract(i, i, a[0]) == 1, z3.BitVecVal((w - 1 - i) if base == "llvm.ctlz" else i, w), r)
            return r
        if A and (base in ("llvm.fmuladd", "llvm.fma", "llvm.sqrt", "llvm.floor", "llvm.ceil", "llvm.trunc", "llvm.rint", "llvm.nearbyint", "llvm.round",
                           "llvm.roundeven", "llvm.minnum", "llvm.maxnum") or callee in ("sqrt", "sqrtf", "floor", "ceil", "trunc", "rint", "nearbyint", "round", "fmin", "fmax")):
            return uf(base.replace(".", "_"), a[0].sort(), *a)
        if A and (base in ("llvm.fabs", "llvm.copysign") or callee in ("fabs", "fabsf")):
            w = a[0].size(); sign = z3.BitVecVal(1 << (w - 1), w)
            return (a[0] & ~sign) | ((a[1] & sign) if base == "llvm.copysign" else 0)
        if base in ("llvm.fmuladd", "llvm.fma"):
            return z3.fpAdd(RNE, z3.fpMul(RNE, a[0], a[1]), a[2]) if base == "llvm.fmuladd" else z3.fpFMA(RNE, a[0], a[1], a[2])
        if base == "llvm.fabs" or callee in ("fabs", "fabsf"): return z3.fpAbs(a[0])
        if base == "llvm.sqrt" or callee in ("sqrt", "sqrtf"):
            if not ABSTRACT_SQRT[0]: return z3.fpSqrt(RNE, a[0])
            so = a[0].sort(); x = a[0]
            r = z3.Function("usqrt%d" % so.sbits(), so, so)(x)
            one = z3.FPVal(1.0, so); eps = z3.FPVal(2.0 ** -20, so)
            ok = z3.And(z3.fpGEQ(x, z3.FPVal(2.0 ** -100, so)), z3.Not(z3.fpIsInf(x)))
            SIDE.append(z3.Implies(ok, z3.And(z3.fpGT(r, z3.FPVal(0.0, so)), z3.fpLEQ(z3.fpMul(RNE, r, r), z3.fpMul(RNE, x, z3.fpAdd(RNE, one, eps))),
                                              z3.fpGEQ(z3.fpMul(RNE, r, r), z3.fpMul(RNE, x, z3.fpSub(RNE, one, eps))))))
            SIDE.append(z3.Implies(z3.fpIsZero(x), z3.fpIsZero(r)))
            SIDE.append(z3.Implies(z3.Or(z3.fpIsNaN(x), z3.fpLT(x, z3.FPVal(0.0, so))), z3.fpIsNaN(r)))
            return r
        if base == "llvm.copysign": return z3.If(z3.fpIsNegative(a[1]) == z3.fpIsNegative(a[0]), a[0], z3.fpNeg(a[0]))
        if base in ("llvm.floor", "llvm.ceil", "llvm.trunc", "llvm.rint", "llvm.nearbyint", "llvm.round", "llvm.roundeven") or callee in ("floor", "ceil", "trunc", "rint", "nearbyint", "round"):
            mode = {"floor": z3.RTN(), "ceil": z3.RTP(), "trunc": RTZ, "rint": RNE, "nearbyint": RNE, "roundeven": RNE, "round": z3.RNA()}[base.split(".")[-1]]
            return z3.fpRoundToIntegral(mode, a[0])
        if base in ("llvm.minnum", "llvm.maxnum") or callee in ("fmin", "fmax"):
            f = z3.fpMin if "min" in callee else z3.fpMax
            return z3.If(z3.fpIsNaN(a[0]), a[1], z3.If(z3.fpIsNaN(a[1]), a[0], f(a[0], a[1])))
        if base == "llvm.assume":
            ub = z3.Or(ub, z3.And(bcond, z3.Not(a[0]))); return None
        if base.startswith("llvm.expect"): return a[0]
        if base.startswith(("llvm.lifetime", "llvm.dbg", "llvm.experimental.noalias")): return None
        if callee in mod:
            v, u = translate(z3, mod, callee, a, depth + 1, state, bcond)
            ub = z3.Or(ub, z3.And(bcond, u)); return v
        raise Unsupported("call @" + callee)
    for b in topo:
        if b not in cond:
            inc = [z3.And(cond[p], c) for (p, s), c in edges.items() if s == b and p in cond]
            cond[b] = z3.Or(*inc) if inc else z3.BoolVal(False)
        bc = cond[b]
        for ins in fn.blocks[b]:
            ins = re.sub(r",? ![\w.]+ !\d+", "", ins); ins = re.sub(r"\s+#\d+$", "", ins); ins = re.sub(r", align \d+", "", ins)
            m = re.match(r"(%[\w.]+) = (.*)$", ins)
            dst, rhs = (m.group(1), m.group(2)) if m else (None, ins)
            op = rhs.split()[0]
            val = None
            if op in ("add", "sub", "mul", "shl", "udiv", "sdiv", "lshr", "ashr", "urem", "srem", "and", "or", "xor"):
                m = re.match(r"\w+(?: nuw| nsw| exact)* (%s) (%s), (%s)$" % (TY, VAL, VAL), rhs)
                if not m: raise Unsupported(rhs)
                t = m.group(1); x, y = const(t, m.group(2)), const(t, m.group(3))
                if t == "i1":
                    val = {"and": z3.And, "or": z3.Or, "xor": z3.Xor, "add": z3.Xor, "sub": z3.Xor, "mul": z3.And}.get(op)
                    if val is None: raise Unsupported(rhs)
                    val = val(x, y)
                elif A and op in ("mul", "udiv", "sdiv", "urem", "srem"):
                    USES_FP[0] = True
                    val = uf(op, x.sort(), x, y)
                else:
                    if op in ("udiv", "sdiv", "urem", "srem"): ub = z3.Or(ub, z3.And(bc, y == 0))
                    val = {"add": lambda: x + y, "sub": lambda: x - y, "mul": lambda: x * y, "shl": lambda: x << y, "udiv": lambda: z3.UDiv(x, y),
                           "sdiv": lambda: x / y, "lshr": lambda: z3.LShR(x, y), "ashr": lambda: x >> y, "urem": lambda: z3.URem(x, y),
                           "srem": lambda: z3.SRem(x, y), "and": lambda: x & y, "or": lambda: x | y, "xor": lambda: x ^ y}[op]()
            elif op in ("fadd", "fsub", "fmul", "fdiv", "frem"):
                m = re.match(r"\w+(?: (?:fast|nnan|ninf|nsz|arcp|contract|afn|reassoc))* (%s) (%s), (%s)$" % (TY, VAL, VAL), rhs)
                if not m: raise Unsupported(rhs)
                t = m.group(1); x, y = const(t, m.group(2)), const(t, m.group(3))
                val = uf(op, x.sort(), x, y) if A else {"fadd": lambda: z3.fpAdd(RNE, x, y), "fsub": lambda: z3.fpSub(RNE, x, y), "fmul": lambda: z3.fpMul(RNE, x, y),
                       "fdiv": lambda: z3.fpDiv(RNE, x, y), "frem": lambda: z3.fpRem(x, y)}[op]()
            elif op == "fneg":
                m = re.match(r"fneg(?: \w+)* (%s) (%s)$" % (TY, VAL), rhs); x = const(m.group(1), m.group(2))
                val = (x ^ z3.BitVecVal(1 << (x.size() - 1), x.size())) if A else z3.fpNeg(x)
            elif op == "icmp":
                m = re.match(r"icmp (\w+) (%s) (%s), (%s)$" % (TY, VAL, VAL), rhs)
                if not m: raise Unsupported(rhs)
                t = m.group(2); x, y = const(t, m.group(3)), const(t, m.group(4))
                val = icmp(m.group(1), bv1(x), bv1(y))
            elif op == "fcmp":
                m = re.match(r"fcmp(?: (?:fast|nnan|ninf|nsz|arcp|contract|afn|reassoc))* (\w+) (%s) (%s), (%s)$" % (TY, VAL, VAL), rhs)
                if not m: raise Unsupported(rhs)
                t = m.group(2); val = fcmp(m.group(1), const(t, m.group(3)), const(t, m.group(4)))
            elif op == "select":
                m = re.match(r"select(?: (?:fast|nnan|ninf|nsz|arcp|contract|afn|reassoc))* i1 (%s), (%s) (%s), (%s) (%s)$" % (VAL, TY, VAL, TY, VAL), rhs)
                if not m: raise Unsupported(rhs)
                val = z3.If(const("i1", m.group(1)), const(m.group(2), m.group(3)), const(m.group(4), m.group(5)))
            elif op in ("zext", "sext", "trunc", "sitofp", "uitofp", "fptosi", "fptoui", "fpext", "fptrunc", "bitcast"):
                m = re.match(r"\w+ (%s) (%s) to (%s)$" % (TY, VAL, TY), rhs)
                if not m: raise Unsupported(rhs)
                t1, t2 = m.group(1), m.group(3); x = const(t1, m.group(2))
                if op == "zext": val = z3.ZeroExt(width(t2) - (1 if t1 == "i1" else width(t1)), bv1(x))
                elif op == "sext": val = z3.SignExt(width(t2) - (1 if t1 == "i1" else width(t1)), bv1(x))
                elif op == "trunc":
                    val = z3.Extract(width(t2) - 1, 0, x)
                    if t2 == "i1": val = val == 1
                elif A and op in ("sitofp", "uitofp", "fptosi", "fptoui", "fpext", "fptrunc"): val = uf(op, sort(t2), x)
                elif A and op == "bitcast": val = x
                elif op == "sitofp": val = z3.fpSignedToFP(RNE, bv1(x), sort(t2))
                elif op == "uitofp": val = z3.fpUnsignedToFP(RNE, bv1(x), sort(t2))
                elif op == "fptosi": val = z3.fpToSBV(RTZ, x, sort(t2))
                elif op == "fptoui": val = z3.fpToUBV(RTZ, x, sort(t2))
                elif op in ("fpext", "fptrunc"): val = z3.fpFPToFP(RNE, x, sort(t2))
                elif op == "bitcast":
                    if t1 in ("double", "float") and t2.startswith("i"): val = z3.fpToIEEEBV(x)
                    elif t2 in ("double", "float") and t1.startswith("i"): val = z3.fpBVToFP(x, sort(t2))
                    else: raise Unsupported(rhs)
            elif op == "phi":
                m = re.match(r"phi (%s) (.*)$" % TY, rhs)
                t = m.group(1)
                inc = re.findall(r"\[ (%s), %%([\w.]+) \]" % VAL, m.group(2))
                val = None
                for v, p in reversed(inc):
                    if (p, b) not in edges or p not in cond: continue
                    x = const(t, v)
                    val = x if val is None else z3.If(z3.And(cond[p], edges[(p, b)]), x, val)
                if val is None: raise Unsupported("phi without live predecessor")
            elif op in ("call", "tail", "musttail", "notail"):
                m = re.match(r"(?:tail |musttail |notail )?call (?:(?:fast|nnan|ninf|nsz|arcp|contract|afn|reassoc|noundef|signext|zeroext|fastcc) )*(%s) @([\w.$]+)\((.*)\)$" % TY, rhs)
                if not m: raise Unsupported(rhs)
                cargs = []
                for a_ in split_top(m.group(3)):
                    toks = a_.split()
                    if not toks: continue
                    if not re.fullmatch(TY, toks[0]): raise Unsupported("argument " + a_)
                    cargs.append(const(toks[0], toks[-1]))
                val = call(m.group(1), m.group(2), cargs, bc)
            elif op == "extractvalue":
                m = re.match(r"extractvalue \{[^}]*\} (%s), (\d+)$" % VAL, rhs)
                if not m: raise Unsupported(rhs)
                val = env[m.group(1)][int(m.group(2))]
            elif op == "freeze":
                m = re.match(r"freeze (%s) (%s)$" % (TY, VAL), rhs); val = const(m.group(1), m.group(2))
            elif op == "br":
                m = re.match(r"br i1 (%s), label %%([\w.]+), label %%([\w.]+)$" % VAL, rhs)
                if m:
                    c = const("i1", m.group(1))
                    if m.group(2) == m.group(3): edges[(b, m.group(2))] = z3.BoolVal(True)
                    else: edges[(b, m.group(2))] = c; edges[(b, m.group(3))] = z3.Not(c)
                else:
                    m = re.match(r"br label %([\w.]+)$", rhs)
                    if not m: raise Unsupported(rhs)
                    edges[(b, m.group(1))] = z3.BoolVal(True)
            elif op == "switch":
                m = re.match(r"switch (%s) (%s), label %%([\w.]+) \[(.*)\]$" % (TY, VAL), rhs)
                if not m: raise Unsupported(rhs)
                t = m.group(1); x = const(t, m.group(2)); none = z3.BoolVal(True)
                for cv, lab in re.findall(r"%s (-?\d+), label %%([\w.]+)" % TY, m.group(4)):
                    c = x == const(t, cv)
                    edges[(b, lab)] = z3.Or(edges[(b, lab)], c) if (b, lab) in edges else c
                    none = z3.And(none, z3.Not(c))
                edges[(b, m.group(3))] = z3.Or(edges[(b, m.group(3))], none) if (b, m.group(3)) in edges else none
            elif op == "ret":
                m = re.match(r"ret (%s) (%s)$" % (TY, VAL), rhs)
                if not m:
                    if rhs.strip() == "ret void": rets.append((bc, None)); continue
                    raise Unsupported(rhs)
                rets.append((bc, const(m.group(1), m.group(2))))
            elif op == "unreachable":
                ub = z3.Or(ub, bc)
            elif op == "load":
                m = re.match(r"load (?:volatile )?(%s), (%s)\* @([\w.$]+)$" % (TY, TY), rhs)
                if not m or m.group(1) != m.group(2): raise Unsupported("load")
                val = gval(m.group(3))
            elif op == "store":
                m = re.match(r"store (?:volatile )?(%s) (%s), (%s)\* @([\w.$]+)$" % (TY, VAL, TY), rhs)
                if not m or m.group(1) != m.group(3) or mod.globals.get(m.group(4), ("constant",))[0] != "global": raise Unsupported("store")
                state[m.group(4)] = z3.If(bc, const(m.group(1), m.group(2)), gval(m.group(4)))
            else:
                raise Unsupported(op if op in ("alloca", "getelementptr", "invoke", "insertvalue") else rhs[:60])
            if dst is not None: env[dst] = val
    if not rets: raise Unsupported("no return")
    res = rets[-1][1]
    for c, v in reversed(rets[:-1]):
        res = z3.If(c, v, res)
    return res, ub

# ---------------------------------------------------------------------------------------------------------------------
def search(z3, base_mod, cur_mod, sym, kinds, head, timeout_ms, want=6):
    """returns (status, candidates)"""
    args, raw = [], []
    for i, k in enumerate(kinds):
        if k in ("x", "u64", "i64"): v = z3.BitVec("a%d" % i, 64); args.append(v)
        elif k == "n": v = z3.BitVec("a%d" % i, 32); args.append(v)
        elif k == "d": v = z3.BitVec("a%d" % i, 64); args.append(v if ABSTRACT_FP[0] else z3.fpBVToFP(v, z3.Float64()))
        elif k == "f": v = z3.BitVec("a%d" % i, 32); args.append(v if ABSTRACT_FP[0] else z3.fpBVToFP(v, z3.Float32()))
        else: v = z3.BitVec("a%d" % i, int(k[1:])); args.append(v)
        raw.append(v)
    del SIDE[:]
    rb, ub_b = translate(z3, base_mod, sym, args)
    rc, ub_c = translate(z3, cur_mod, sym, args)
    if z3.is_fp(rb):
        differ = z3.Or(z3.fpIsNaN(rb) != z3.fpIsNaN(rc), z3.And(z3.Not(z3.fpIsNaN(rb)), z3.fpToIEEEBV(rb) != z3.fpToIEEEBV(rc)))
    elif z3.is_bool(rb) or z3.is_bool(rc):
        differ = z3.Xor(rb if z3.is_bool(rb) else rb == 1, rc if z3.is_bool(rc) else rc == 1)
    else:
        differ = rb != rc
    s = z3.Solver()
    s.set("timeout", int(timeout_ms))
    s.add(z3.Not(ub_b), differ, *SIDE)
    out, status = [], "equivalent"
    for _ in range(want):
        r = s.check()
        if r == z3.unsat: break
        if r != z3.sat: status = "unknown" if not out else status; break
        status = "candidates"
        mdl = s.model()
        vals = [mdl.eval(v, model_completion=True).as_long() for v in raw]
        toks = []
        for k, v, sv in zip(kinds, vals, raw):
            w = sv.size()
            signed = k in ("x", "n") or k.startswith("i")
            toks.append(str(v - (1 << w) if signed and v >= 1 << (w - 1) else v))
        out.append(head + " " + " ".join(toks))
        # next answer: differ in every argument's low and high part if possible, otherwise anywhere
        s.add(z3.Or(*[sv != v for sv, v in zip(raw, vals)]))
        s.push(); s.add(*[z3.Extract(sv.size() - 1, sv.size() // 2, sv) != z3.Extract(sv.size() - 1, sv.size() // 2, z3.BitVecVal(v, sv.size())) for sv, v in zip(raw, vals)])
        if s.check() == z3.sat:
            mdl = s.model(); vals2 = [mdl.eval(v, model_completion=True).as_long() for v in raw]
            toks = []
            for k, v, sv in zip(kinds, vals2, raw):
                w = sv.size(); signed = k in ("x", "n") or k.startswith("i")
                toks.append(str(v - (1 << w) if signed and v >= 1 << (w - 1) else v))
            out.append(head + " " + " ".join(toks))
            s.pop(); s.add(z3.Or(*[sv != v for sv, v in zip(raw, vals2)]))
        else:
            s.pop()
    return status, out

def fmt(kinds, raw, vals):
    toks = []
    for k, v, sv in zip(kinds, vals, raw):
        w = sv.size(); signed = k in ("x", "n") or k.startswith("i")
        toks.append(str(v - (1 << w) if signed and v >= 1 << (w - 1) else v))
    return toks

def touched(mod, sym):
    """mutable scalar globals stored to in the call closure of a wrapper"""
    return set(g for g in re.findall(r"store [^\n]*\* @([\w.$]+)", closure_text(mod, sym)) if mod.globals.get(g, ("",))[0] == "global")

def search_pair(z3, base_mod, cur_mod, W, h1, h2, timeout_ms, want=3):
    """AFTER-sequence: does the current h2(b), evaluated after the current h1(a) from the initial state, differ from the baseline h2(b)?"""
    a, b = z3.BitVec("a", 64), z3.BitVec("b", 64)
    st = {}
    del SIDE[:]
    r1, u1 = translate(z3, cur_mod, W[h1][0], [a], state=st)
    r2, u2 = translate(z3, cur_mod, W[h2][0], [b], state=st)
    rb, ubb = translate(z3, base_mod, W[h2][0], [b])
    s = z3.Solver(); s.set("timeout", int(timeout_ms))
    s.add(z3.Not(ubb), z3.Not(u1), rb != r2, *SIDE)
    out, status = [], "equivalent"
    tag = ":dflt" if ":dflt" in h1 + h2 else ""
    # with floating point abstracted the solver is free in the numeric results: prefer plausible (small, non-negative) arguments first
    blocks, gave_up = [], False
    for bound in ((36, 48, None) if ABSTRACT_FP[0] else (None,)):
        s.push()
        s.add(*blocks)
        if bound: s.add(a >= 0, a < (1 << bound), b >= 0, b < (1 << bound))
        for _ in range(want):
            r = s.check()
            if r == z3.unsat: break
            if r != z3.sat: status = status if out else "unknown"; gave_up = True; break
            status = "candidates"
            m = s.model(); va, vb = [m.eval(v, model_completion=True).as_long() for v in (a, b)]
            ta, tb = fmt(["x", "x"], [a, b], [va, vb])
            out.append("after%s %d %d %s %s" % (tag, AFTER.index(h1), AFTER.index(h2), ta, tb))
            blocks.append(z3.Extract(63, 16, b) != z3.Extract(63, 16, z3.BitVecVal(vb, 64))); s.add(blocks[-1])
        s.pop()
        if gave_up: break
    return status, out

USES_FP = [False]            # set by translate(): an abstraction was applied, so an abstract answer is not an exact one

def run(heads, budget):
    """phase 1: every changed entry point (and every pair sharing a written global) with floating point and non-constant
    multiplication/division abstracted to uninterpreted functions - fast, decides equivalence of everything the change did not
    touch, and yields speculative candidates from the control logic alone; phase 2: exact semantics for whatever phase 1 did not
    prove equivalent, within the remaining budget"""
    t0 = time.time()
    stats = {"engine": "clang++-14 -O2 LLVM IR -> z3 (search aid only)", "functions": {}, "configs": []}
    cands = []
    for p in ("/opt/veriftools/pyvenv/lib/python3.11/site-packages",):
        if os.path.isdir(p) and p not in sys.path: sys.path.append(p)
    import z3
    W = wrappers()
    todo = [h for h in W if (not heads or h in heads)]
    d = tempfile.mkdtemp(prefix="fmirs")
    queries, sigs = [], set()          # (key, cfg, callable(ms) -> (status, out)); the same IR under a second configuration is asked once
    try:
        for cfg, flags in CFGS:
            bp = os.path.join(BASE, cfg + ".ll")
            if not os.path.exists(bp): stats["configs"].append({"config": cfg, "status": "no baseline"}); continue
            cp = os.path.join(d, cfg + ".ll")
            ok, err = compile_ir(flags, W, cp)
            if not ok: stats["configs"].append({"config": cfg, "status": "wrappers do not compile", "error": err[-400:]}); continue
            bm, cm = parse_module(open(bp).read()), parse_module(open(cp).read())
            ident = 0
            for h in todo:
                sym, kinds, _ = W[h]
                if sym not in bm or sym not in cm: continue
                if closure_text(bm, sym) == closure_text(cm, sym): ident += 1; continue
                sig = (h, closure_text(bm, sym), closure_text(cm, sym))
                if sig in sigs: continue
                sigs.add(sig)
                queries.append((h, cfg, (lambda bm=bm, cm=cm, sym=sym, kinds=kinds, h=h: lambda ms: search(z3, bm, cm, sym, kinds, h, ms))()))
            # hidden state: an entry point that now writes a global is evaluated after every entry point writing the same global
            writers = {h: touched(cm, W[h][0]) for h in AFTER if h in W and W[h][0] in cm}
            writers = {h: g for h, g in writers.items() if g}
            for h2 in [h for h in AFTER if h in writers and (not heads or h in heads)]:
                for h1 in writers:
                    sig = (h1, h2, closure_text(bm, W[h2][0]), closure_text(cm, W[h1][0]), closure_text(cm, W[h2][0]))
                    if writers[h1] & writers[h2] and sig not in sigs:
                        sigs.add(sig)
                        queries.append(("after %s, %s" % (h1, h2), cfg, (lambda bm=bm, cm=cm, h1=h1, h2=h2: lambda ms: search_pair(z3, bm, cm, W, h1, h2, ms))()))
            stats["configs"].append({"config": cfg, "identical": ident, "changed": len([q for q in queries if q[1] == cfg])})
        def attempt(key, cfg, f, ms, label):
            try:
                USES_FP[0] = False
                status, out = f(ms)
            except Unsupported as e:
                status, out = "unsupported: " + str(e)[:80], []
            except Exception as e:                                  # a translator bug loses candidates, nothing else
                status, out = "translator error: %s: %s" % (type(e).__name__, str(e)[:80]), []
            stats["functions"].setdefault(key, {}).setdefault(cfg, []).append("%s: %s%s" % (label, status, " %d" % len(out) if out else ""))
            return status, out
        pending = []
        ABSTRACT_FP[0] = True
        try:
            for key, cfg, f in queries:
                left = budget - (time.time() - t0)
                if left <= 1: pending.append((key, cfg, f)); continue
                status, out = attempt(key, cfg, f, min(left, 6.0) * 1000, "abstract")
                cands += out
                if status.startswith("unsupported") or (status == "equivalent") or (status != "unknown" and not USES_FP[0]): continue
                pending.append((key, cfg, f))
        finally:
            ABSTRACT_FP[0] = False
        for n, (key, cfg, f) in enumerate(pending):
            left = budget - (time.time() - t0)
            if left <= 1:
                stats["functions"].setdefault(key, {}).setdefault(cfg, []).append("exact: budget exhausted"); continue
            status, out = attempt(key, cfg, f, max(2.0, min(left, max(left / (len(pending) - n), budget / 5.0))) * 1000, "exact")
            cands += out
    finally:
        shutil.rmtree(d, ignore_errors=True)
    seen, uniq = set(), []
    for c in cands:
        if c not in seen: seen.add(c); uniq.append(c)
    stats["wall_s"] = round(time.time() - t0, 1)
    return {"candidates": uniq, "stats": stats}

if __name__ == "__main__":
    ap = argparse.ArgumentParser()
    ap.add_argument("--write-baseline", action="store_true")
    ap.add_argument("--heads", default="")
    ap.add_argument("--budget", type=float, default=60.0)
    a = ap.parse_args()
    if a.write_baseline:
        os.makedirs(BASE, exist_ok=True)
        for cfg, flags in CFGS:
            ok, err = compile_ir(flags, wrappers(), os.path.join(BASE, cfg + ".ll"))
            print(cfg, "ok" if ok else err)
        sys.exit(0)
    print(json.dumps(run(set(h for h in a.heads.split(",") if h), a.budget)))

#!/usr/bin/env python3
"""Translator (1): regenerate lean/FixedMath/Generated/{Consts,Tables}.lean from the CURRENT /repo sources.

Two independent sources for every value: (a) a C++ dumper compiled against the working-tree
headers, which prints what the compiler sees; (b) a textual parse of the headers.  They must
agree; when they do not, the dumper wins and the disagreement is reported (it means a constant is
written in a form the parser does not understand).  Files are rewritten only when their content
changes, so an unchanged tree leaves lake's build cache valid.
"""
import os, re, subprocess, sys, hashlib, json, tempfile, shutil

HERE = os.path.dirname(os.path.abspath(__file__))
VERIF = os.path.dirname(HERE)
REPO = os.environ.get("VERIF_REPO", "/repo")
INC = os.path.join(REPO, "fixed_lib", "include")
SRC = os.path.join(REPO, "fixed_lib", "src")
GEN = os.path.join(VERIF, "lean", "FixedMath", "Generated")

CONST_NAMES = ["phi", "fixpi", "fixpi2", "fixpi3", "fixpidiv2", "fixpidiv3", "fixpidiv4",
               "fixa90", "fixa180", "fixa270", "fixa360", "fixtorad_r", "radtofix_r",
               "asin_split"]   # asin_split = (0.60_fix).v, the literal in asin()
LIMIT_NAMES = ["lowest", "max", "one", "quiet_NaN", "max_integral", "min_integral"]
TABLES = [("sin_angle_table__", "sin_angle_table.h", 361), ("cos_angle_table__", "cos_angle_table.h", 361),
          ("tan_table__", "tan_table.h", 256), ("square_root_table__", "square_root_table.h", 256)]

DUMPER = r'''
#include <fixedmath/fixed_math.hpp>
#include "square_root_table.h"
#include "tan_table.h"
#include "sin_angle_table.h"
#include "cos_angle_table.h"
#include <cstdio>
using namespace fixedmath;
using L = std::numeric_limits<fixed_t>;
#define C(n) std::printf("const " #n " %lld\n", (long long)(n).v)
template<typename A> void tab(const char* name, A const& a){ std::printf("table %s %zu", name, a.size()); for(auto v: a) std::printf(" %lld",(long long)v); std::printf("\n"); }
int main(){
  C(phi); C(fixpi); C(fixpi2); C(fixpi3); C(fixpidiv2); C(fixpidiv3); C(fixpidiv4);
  C(fixa90); C(fixa180); C(fixa270); C(fixa360); C(fixtorad_r); C(radtofix_r);
  std::printf("limit lowest %lld\n",(long long)L::lowest().v);
  std::printf("limit max %lld\n",(long long)L::max().v);
  std::printf("limit one %lld\n",(long long)L::one().v);
  std::printf("limit quiet_NaN %lld\n",(long long)L::quiet_NaN().v);
  std::printf("limit max_integral %lld\n",(long long)L::max_integral());
  std::printf("limit min_integral %lld\n",(long long)L::min_integral());
  std::printf("const asin_split %lld\n",(long long)(0.60_fix).v);
  tab("sin_angle_table__", sin_angle_table__); tab("cos_angle_table__", cos_angle_table__);
  tab("tan_table__", tan_table__); tab("square_root_table__", square_root_table__);
}
'''

def run_dumper():
    d = tempfile.mkdtemp(prefix="fmdump")
    try:
        src = os.path.join(d, "dump.cc")
        open(src, "w").write(DUMPER)
        exe = os.path.join(d, "dump")
        r = subprocess.run(["g++", "-std=c++17", "-O0", "-w", "-I", INC, "-I", SRC, src, "-o", exe],
                           capture_output=True, text=True)
        if r.returncode != 0:
            return None, r.stderr
        out = subprocess.run([exe], capture_output=True, text=True).stdout
    finally:
        shutil.rmtree(d, ignore_errors=True)
    consts, limits, tables = {}, {}, {}
    for line in out.splitlines():
        p = line.split()
        if p[0] == "const": consts[p[1]] = int(p[2])
        elif p[0] == "limit": limits[p[1]] = int(p[2])
        elif p[0] == "table": tables[p[1]] = [int(x) for x in p[3:]]
    return (consts, limits, tables), ""

def strip_comments(s):
    s = re.sub(r"/\*.*?\*/", " ", s, flags=re.S)
    return re.sub(r"//[^\n]*", " ", s)

def cint(tok):
    tok = tok.strip().rstrip("uUlL")
    return int(tok, 0)

def parse_text():
    consts, limits, tables, notes = {}, {}, {}, []
    try:
        s = strip_comments(open(os.path.join(INC, "fixedmath", "numbers.h")).read())
        for m in re.finditer(r"fixed_t\s+(\w+)\s*=?\s*\{\s*as_fixed\(\s*(-?\w+)\s*\)\s*\}", s):
            try: consts[m.group(1)] = cint(m.group(2))
            except ValueError: notes.append(f"numbers.h: cannot parse {m.group(0)!r}")
        m = re.search(r"fixed_t\s+fixpi\s*=\s*(\w+)\s*;", s)
        if m and m.group(1) in consts: consts["fixpi"] = consts[m.group(1)]
        ms = strip_comments(open(os.path.join(INC, "fixedmath", "math.h")).read())
        m = re.search(r"x_\s*<=\s*\(\s*([0-9.]+)_fix\s*\)\.v", ms)
        if m:
            import fractions
            consts["asin_split"] = int(fractions.Fraction(m.group(1)) * 65536 + fractions.Fraction(1, 2))
        s = strip_comments(open(os.path.join(INC, "fixedmath", "limits.h")).read())
        for name in ["lowest", "max", "one", "quiet_NaN"]:
            m = re.search(name + r"\(\)\s*noexcept\s*\{\s*return\s+fix_carrier_t\{fixed_internal\{(-?\w+)\}\}", s)
            if m:
                try: limits[name] = cint(m.group(1))
                except ValueError: notes.append(f"limits.h: cannot parse {name}")
        for name in ["max_integral", "min_integral"]:
            m = re.search(name + r"\(\)\s*noexcept\s*\{\s*return\s+(-?\w+)\s*;", s)
            if m:
                try: limits[name] = cint(m.group(1))
                except ValueError: notes.append(f"limits.h: cannot parse {name}")
        for name, fn, n in TABLES:
            s = strip_comments(open(os.path.join(SRC, fn)).read())
            m = re.search(name + r"\s*\{(.*?)\}\s*;", s, flags=re.S)
            if not m:
                notes.append(f"{fn}: table not found"); continue
            try: tables[name] = [cint(t) for t in m.group(1).split(",") if t.strip()]
            except ValueError: notes.append(f"{fn}: cannot parse an entry")
    except OSError as e:
        notes.append(str(e))
    return consts, limits, tables, notes

def lean_int(v):
    return str(v) if v >= 0 else f"({v})"

def render(consts, limits, tables):
    c = ["/- GENERATED by tools/gen_consts.py from /repo (numbers.h, limits.h). Do not edit. -/",
         "namespace FixedMath.Gen", ""]
    for n in CONST_NAMES:
        c.append(f"def {n} : Int := {lean_int(consts[n])}")
    c.append("")
    for n in LIMIT_NAMES:
        c.append(f"def lim_{n} : Int := {lean_int(limits[n])}")
    c += ["", "end FixedMath.Gen", ""]
    t = ["/- GENERATED by tools/gen_consts.py from /repo/fixed_lib/src/*_table.h. Do not edit. -/",
         "namespace FixedMath.Gen", ""]
    for name, fn, n in TABLES:
        vals = tables[name]
        t.append(f"/-- `{name}` ({fn}), {len(vals)} entries -/")
        t.append(f"def {name.rstrip('_')}L : List Int := [")
        for i in range(0, len(vals), 12):
            t.append("  " + ", ".join(str(v) for v in vals[i:i+12]) + ("," if i + 12 < len(vals) else ""))
        t.append("]")
        t.append(f"def {name.rstrip('_')} : Array Int := {name.rstrip('_')}L.toArray")
        t.append("")
    t += ["end FixedMath.Gen", ""]
    return "\n".join(c), "\n".join(t)

def write_if_changed(path, content):
    old = open(path).read() if os.path.exists(path) else None
    if old != content:
        open(path, "w").write(content)
        return True
    return False

def generate():
    """returns dict(status, changed, notes, consts, limits, table_hash)"""
    res = {"changed": [], "notes": [], "ok": True}
    dumped, err = run_dumper()
    pc, pl, pt, notes = parse_text()
    res["notes"] += notes
    if dumped is None:
        res["ok"] = False
        res["notes"].append("dumper does not compile against the working tree: " + err[:2000])
        return res
    consts, limits, tables = dumped
    for n in CONST_NAMES:
        if pc.get(n) != consts.get(n): res["notes"].append(f"text/compiler disagree on {n}: {pc.get(n)} vs {consts.get(n)}")
    for n in LIMIT_NAMES:
        if pl.get(n) != limits.get(n): res["notes"].append(f"text/compiler disagree on limit {n}: {pl.get(n)} vs {limits.get(n)}")
    for name, fn, n in TABLES:
        if pt.get(name) != tables.get(name): res["notes"].append(f"text/compiler disagree on table {name}")
    os.makedirs(GEN, exist_ok=True)
    c, t = render(consts, limits, tables)
    if write_if_changed(os.path.join(GEN, "Consts.lean"), c): res["changed"].append("Consts.lean")
    if write_if_changed(os.path.join(GEN, "Tables.lean"), t): res["changed"].append("Tables.lean")
    res["consts"], res["limits"] = consts, limits
    res["table_sizes"] = {k: len(v) for k, v in tables.items()}
    res["table_sha"] = hashlib.sha256(json.dumps(tables, sort_keys=True).encode()).hexdigest()[:16]
    return res

if __name__ == "__main__":
    r = generate()
    print(json.dumps({k: v for k, v in r.items()}, indent=1))
    sys.exit(0 if r["ok"] else 2)

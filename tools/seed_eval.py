#!/usr/bin/env python3
"""seed_eval.py <out_dir> <seed_id> <PID> [more PIDs...]
Confirm a seeded change (tests still pass, demo fails with / passes without) in a scratch worktree,
then run the given checks against it in /repo (apply, check, undo) and file it under seeded/<seed_id>/."""
import sys, os, subprocess, json, shutil, re, tempfile
V = os.path.dirname(os.path.dirname(os.path.abspath(__file__)))
TESTS = "type_traits integral_type_convertions floating_point_type_convertions fixed_construction addition substraction multiplication division sqrt misc_functions sin tan atan".split()

os.environ["VERIF_EVIDENCE_DIR"] = "/tmp/fm_evidence_seeded"
def sh(cmd, **kw):
    return subprocess.run(cmd, shell=True, capture_output=True, text=True, **kw)

def run_tests(wt, scratch):
    import concurrent.futures as cf
    jobs = []
    for t in TESTS:
        src = os.path.join(scratch, "t_%s.cc" % t)
        open(src, "w").write('#include <fixedmath/unittests/%s.h>\nint main(){return 0;}\n' % t)
        for std, extra in (("c++17", "-DFIXEDMATH_ENABLE_SQRT_ABACUS_ALGO"), ("c++20", ""), ("c++2b", "")):
            jobs.append("g++ -std=%s %s -I%s/fixed_lib/include %s -o %s/t_%s_%s.o" % (std, extra, wt, src, scratch, t, std))
    with cf.ThreadPoolExecutor(16) as ex:
        rs = list(ex.map(lambda c: sh(c).returncode, jobs))
    return sum(1 for r in rs if r == 0), len(rs)

def main():
    out, sid, pids = sys.argv[1], sys.argv[2], sys.argv[3:]
    meta = json.load(open(os.path.join(out, "meta.json")))
    patch = os.path.join(out, "patch.diff")
    wt = tempfile.mkdtemp(prefix="fmconfirm", dir="/tmp")
    shutil.rmtree(wt)
    scratch = tempfile.mkdtemp(prefix="fmscratch", dir="/tmp")
    res = {"seed": sid}
    try:
        assert sh("git -C /repo worktree add -q --detach %s HEAD" % wt).returncode == 0
        build = meta.get("build", "").split("(")[0].split("&&")[0]
        toks = build.split()
        cxx = toks[0] if toks and (toks[0].startswith("g++") or toks[0].startswith("clang++")) else "g++"
        flags = [t for t in toks[1:] if re.match(r"-(O|std|D|f|m|W)", t)]
        if not any(t.startswith("-std") for t in flags): flags.append("-std=c++17")
        cmd = "%s %s -w -I %s/fixed_lib/include %s %s/fixed_lib/src/fixed_math.cc -o %s/demo" % (cxx, " ".join(flags), wt, os.path.join(out, "demo.cc"), wt, scratch)
        res["demo_cmd"] = cmd
        r = sh(cmd); res["demo_build_clean"] = r.returncode
        r = sh("%s/demo" % scratch); res["demo_clean_exit"] = r.returncode
        a = sh("git -C %s apply %s" % (wt, patch)); res["apply"] = a.returncode
        ok, n = run_tests(wt, scratch); res["tests_with_patch"] = "%d/%d" % (ok, n)
        r = sh(cmd); res["demo_build_patched"] = r.returncode
        r = sh("%s/demo" % scratch); res["demo_patched_exit"] = r.returncode; res["demo_patched_out"] = (r.stdout + r.stderr)[-400:]
    finally:
        sh("git -C /repo worktree remove --force %s" % wt)
        shutil.rmtree(scratch, ignore_errors=True)
    res["confirmed"] = (res.get("apply") == 0 and res.get("tests_with_patch") == "39/39" and res.get("demo_clean_exit") == 0 and res.get("demo_patched_exit") not in (0, None))
    print(json.dumps(res, indent=1))
    # run the checks
    det = {}
    assert sh("git -C /repo status --porcelain --untracked-files=no").stdout.strip() == "", "/repo dirty"
    try:
        assert sh("git -C /repo apply %s" % patch).returncode == 0
        for pid in pids:
            r = sh("python3 tools/check.py %s --tier quick" % pid, cwd=V)
            line = [l for l in r.stdout.splitlines() if l.startswith("VIOLATION") or l.startswith("OK")]
            det[pid] = {"exit": r.returncode, "line": line[-1] if line else r.stdout[-300:] + r.stderr[-300:]}
            print(pid, det[pid])
    finally:
        sh("git -C /repo checkout -- .")
    dst = os.path.join(V, "seeded", sid)
    os.makedirs(dst, exist_ok=True)
    for f in ("patch.diff", "demo.cc"): shutil.copy(os.path.join(out, f), dst)
    meta["confirmation"] = res
    meta["detected_by"] = {p: d for p, d in det.items()}
    json.dump(meta, open(os.path.join(dst, "meta.json"), "w"), indent=1)

if __name__ == "__main__":
    main()
